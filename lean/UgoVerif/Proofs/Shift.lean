import UgoVerif.Proofs.VMLiveRun
/-
  C14, `frame_shift`: the offset relation between a child VM that runs a function in frame 0 /
  base 0 and the parent VM that runs the same function in frame k / base bp, and a relational
  calculus (`RelS`) for proving that model actions preserve it.

  `RelS A Q m₁ m₂`: started in `A`-related states, IF both actions end normally THEN their
  results and final states satisfy `Q`.  Nothing is claimed when one side ends with a Go panic
  or leaves the modelled subset: the child has `bp` more stack slots and k more frames than the
  parent's callee frame, so resource panics cannot coincide.
-/
set_option linter.unusedSimpArgs false
set_option linter.unusedVariables false
namespace UgoVerif.Proofs.Shift
open UgoVerif UgoVerif.Go UgoVerif.VM

/-! ### the calculus -/

def RelS {α β} (A : State → State → Prop) (Q : α → β → State → State → Prop) (m₁ : M α) (m₂ : M β) : Prop :=
  ∀ s t, A s t → ∀ a s' b t', exec m₁ s = (.ok a, s') → exec m₂ t = (.ok b, t') → Q a b s' t'

namespace RelS
variable {A B : State → State → Prop}

theorem pure {α β} {Q : α → β → State → State → Prop} {a : α} {b : β} (h : ∀ s t, A s t → Q a b s t) :
    RelS A Q (Pure.pure a) (Pure.pure b) := by
  intro s t hA a' s' b' t' h1 h2
  simp only [exec_pure, Prod.mk.injEq, Except.ok.injEq] at h1 h2
  obtain ⟨rfl, rfl⟩ := h1
  obtain ⟨rfl, rfl⟩ := h2
  exact h _ _ hA

theorem bind {α β γ δ} {Q : α → β → State → State → Prop} {R : γ → δ → State → State → Prop}
    {m₁ : M α} {m₂ : M β} {f : α → M γ} {g : β → M δ}
    (hm : RelS A Q m₁ m₂) (hf : ∀ a b, RelS (Q a b) R (f a) (g b)) : RelS A R (m₁ >>= f) (m₂ >>= g) := by
  intro s t hA c s' d t' h1 h2
  rw [exec_bind] at h1 h2
  rcases e1 : exec m₁ s with ⟨r1, s1⟩
  rcases e2 : exec m₂ t with ⟨r2, t1⟩
  rw [e1] at h1
  rw [e2] at h2
  cases r1 with
  | error e => simp at h1
  | ok a =>
    cases r2 with
    | error e => simp at h2
    | ok b => exact hf a b s1 t1 (hm s t hA a s1 b t1 e1 e2) c s' d t' h1 h2

/-- the usual shape: a pure relation `VR` between the results and a state relation `B` -/
theorem bindV {α β γ δ} {VR : α → β → Prop} {R : γ → δ → State → State → Prop}
    {m₁ : M α} {m₂ : M β} {f : α → M γ} {g : β → M δ}
    (hm : RelS A (fun x y s t => VR x y ∧ B s t) m₁ m₂) (hf : ∀ a b, VR a b → RelS B R (f a) (g b)) :
    RelS A R (m₁ >>= f) (m₂ >>= g) := by
  refine bind hm ?_
  intro a b s t hA
  exact hf a b hA.1 s t hA.2

theorem conseq {α β} {A' : State → State → Prop} {Q Q' : α → β → State → State → Prop} {m₁ : M α} {m₂ : M β}
    (h : RelS A Q m₁ m₂) (hA : ∀ s t, A' s t → A s t) (hQ : ∀ a b s t, Q a b s t → Q' a b s t) :
    RelS A' Q' m₁ m₂ := by
  intro s t h' a s' b t' h1 h2
  exact hQ _ _ _ _ (h s t (hA s t h') a s' b t' h1 h2)

theorem errL {α β} {Q : α → β → State → State → Prop} {m₂ : M β} (e : Exc) :
    RelS A Q (throw e : M α) m₂ := by
  intro s t _ a s' b t' h1 _
  simp at h1

theorem errR {α β} {Q : α → β → State → State → Prop} {m₁ : M α} (e : Exc) :
    RelS A Q m₁ (throw e : M β) := by
  intro s t _ a s' b t' _ h2
  simp at h2

theorem ite {α β} {Q : α → β → State → State → Prop} {c : Prop} [Decidable c] {a₁ b₁ : M α} {a₂ b₂ : M β}
    (ha : RelS A Q a₁ a₂) (hb : RelS A Q b₁ b₂) :
    RelS A Q (if c then a₁ else b₁) (if c then a₂ else b₂) := by
  split <;> assumption

theorem ite' {α β} {Q : α → β → State → State → Prop} {c c' : Prop} [Decidable c] [Decidable c'] (hc : c ↔ c')
    {a₁ b₁ : M α} {a₂ b₂ : M β} (ha : RelS A Q a₁ a₂) (hb : RelS A Q b₁ b₂) :
    RelS A Q (if c then a₁ else b₁) (if c' then a₂ else b₂) := by
  by_cases h : c
  · rw [if_pos h, if_pos (hc.mp h)]; exact ha
  · rw [if_neg h, if_neg (fun h' => h (hc.mpr h'))]; exact hb

/-- a loop whose bodies keep `A` and produce related loop states -/
theorem forIn_list {ι σ τ} {VR : σ → τ → Prop} (l : List ι) (init : σ) (init' : τ)
    (f : ι → σ → M (ForInStep σ)) (g : ι → τ → M (ForInStep τ)) (h0 : VR init init')
    (hf : ∀ i b b', VR b b' → RelS A (fun x y s t =>
        ((∃ u u', x = .yield u ∧ y = .yield u' ∧ VR u u') ∨ (∃ u u', x = .done u ∧ y = .done u' ∧ VR u u')) ∧ A s t) (f i b) (g i b')) :
    RelS A (fun x y s t => VR x y ∧ A s t) (forIn l init f) (forIn l init' g) := by
  induction l generalizing init init' with
  | nil =>
    simp only [List.forIn_nil]
    exact RelS.pure (fun s t h => ⟨h0, h⟩)
  | cons i r ih =>
    rw [List.forIn_cons, List.forIn_cons]
    refine bindV (hf i init init' h0) ?_
    intro x y hxy
    rcases hxy with ⟨u, u', rfl, rfl, hu⟩ | ⟨u, u', rfl, rfl, hu⟩
    · exact ih u u' hu
    · exact RelS.pure (fun s t h => ⟨hu, h⟩)

theorem forIn_range {σ τ} {VR : σ → τ → Prop} (r : Std.Legacy.Range) (init : σ) (init' : τ)
    (f : Nat → σ → M (ForInStep σ)) (g : Nat → τ → M (ForInStep τ)) (h0 : VR init init')
    (hf : ∀ i b b', VR b b' → RelS A (fun x y s t =>
        ((∃ u u', x = .yield u ∧ y = .yield u' ∧ VR u u') ∨ (∃ u u', x = .done u ∧ y = .done u' ∧ VR u u')) ∧ A s t) (f i b) (g i b')) :
    RelS A (fun x y s t => VR x y ∧ A s t) (forIn r init f) (forIn r init' g) := by
  rw [Std.Legacy.Range.forIn_eq_forIn_range', Std.Legacy.Range.forIn_eq_forIn_range']
  exact forIn_list _ _ _ _ _ h0 hf

/-- the same with the membership of the index -/
theorem forIn_list' {ι σ τ} {VR : σ → τ → Prop} (l : List ι) (init : σ) (init' : τ)
    (f : ι → σ → M (ForInStep σ)) (g : ι → τ → M (ForInStep τ)) (h0 : VR init init')
    (hf : ∀ i, i ∈ l → ∀ b b', VR b b' → RelS A (fun x y s t =>
        ((∃ u u', x = .yield u ∧ y = .yield u' ∧ VR u u') ∨ (∃ u u', x = .done u ∧ y = .done u' ∧ VR u u')) ∧ A s t) (f i b) (g i b')) :
    RelS A (fun x y s t => VR x y ∧ A s t) (forIn l init f) (forIn l init' g) := by
  induction l generalizing init init' with
  | nil =>
    simp only [List.forIn_nil]
    exact RelS.pure (fun s t h => ⟨h0, h⟩)
  | cons i r ih =>
    rw [List.forIn_cons, List.forIn_cons]
    refine bindV (hf i (by simp) init init' h0) ?_
    intro x y hxy
    rcases hxy with ⟨u, u', rfl, rfl, hu⟩ | ⟨u, u', rfl, rfl, hu⟩
    · exact ih u u' hu (fun j hj => hf j (by simp [hj]))
    · exact RelS.pure (fun s t h => ⟨hu, h⟩)

/-- `for k := 0; k < n; k++ { … }` -/
theorem forIn_upto {σ τ} {VR : σ → τ → Prop} (n : Nat) (init : σ) (init' : τ)
    (f : Nat → σ → M (ForInStep σ)) (g : Nat → τ → M (ForInStep τ)) (h0 : VR init init')
    (hf : ∀ i, i < n → ∀ b b', VR b b' → RelS A (fun x y s t =>
        ((∃ u u', x = .yield u ∧ y = .yield u' ∧ VR u u') ∨ (∃ u u', x = .done u ∧ y = .done u' ∧ VR u u')) ∧ A s t) (f i b) (g i b')) :
    RelS A (fun x y s t => VR x y ∧ A s t) (forIn [:n] init f) (forIn [:n] init' g) := by
  rw [Std.Legacy.Range.forIn_eq_forIn_range', Std.Legacy.Range.forIn_eq_forIn_range']
  refine forIn_list' _ _ _ _ _ h0 ?_
  intro i hi
  refine hf i ?_
  simp [List.mem_range', Std.Legacy.Range.size] at hi
  omega

theorem pre_or {α β} {A₁ A₂ : State → State → Prop} {Q : α → β → State → State → Prop} {m₁ : M α} {m₂ : M β}
    (h1 : RelS A₁ Q m₁ m₂) (h2 : RelS A₂ Q m₁ m₂) : RelS (fun s t => A₁ s t ∨ A₂ s t) Q m₁ m₂ := by
  intro s t h
  rcases h with h | h
  · exact h1 s t h
  · exact h2 s t h

theorem pre_and {α β} {P : Prop} {Q : α → β → State → State → Prop} {m₁ : M α} {m₂ : M β}
    (h : P → RelS A Q m₁ m₂) : RelS (fun s t => P ∧ A s t) Q m₁ m₂ := by
  intro s t hp
  exact h hp.1 s t hp.2

theorem pre_exists {α β ι} {A' : ι → State → State → Prop} {Q : α → β → State → State → Prop} {m₁ : M α} {m₂ : M β}
    (h : ∀ i, RelS (A' i) Q m₁ m₂) : RelS (fun s t => ∃ i, A' i s t) Q m₁ m₂ := by
  intro s t ⟨i, hi⟩
  exact h i s t hi

/-- a loop that may be left early (`return` inside `for`): `E` describes the early exit -/
theorem forIn_list_exit {ι σ τ} {VR : σ → τ → Prop} {E : σ → τ → State → State → Prop} (l : List ι) (init : σ) (init' : τ)
    (f : ι → σ → M (ForInStep σ)) (g : ι → τ → M (ForInStep τ)) (h0 : VR init init')
    (hf : ∀ i, i ∈ l → ∀ b b', VR b b' → RelS A (fun x y s t =>
        (∃ u u', x = .yield u ∧ y = .yield u' ∧ VR u u' ∧ A s t) ∨ (∃ u u', x = .done u ∧ y = .done u' ∧ E u u' s t)) (f i b) (g i b')) :
    RelS A (fun x y s t => (VR x y ∧ A s t) ∨ E x y s t) (forIn l init f) (forIn l init' g) := by
  induction l generalizing init init' with
  | nil =>
    simp only [List.forIn_nil]
    exact RelS.pure (fun s t h => Or.inl ⟨h0, h⟩)
  | cons i r ih =>
    rw [List.forIn_cons, List.forIn_cons]
    refine bind (hf i (by simp) init init' h0) ?_
    intro x y
    refine pre_or ?_ ?_
    · refine pre_exists fun u => pre_exists fun u' => ?_
      refine pre_and fun hx => pre_and fun hy => pre_and fun hu => ?_
      subst hx; subst hy
      exact ih u u' hu (fun j hj => hf j (by simp [hj]))
    · refine pre_exists fun u => pre_exists fun u' => ?_
      refine pre_and fun hx => pre_and fun hy => ?_
      subst hx; subst hy
      exact RelS.pure (fun s t h => Or.inr h)

theorem forIn_upto_exit {σ τ} {VR : σ → τ → Prop} {E : σ → τ → State → State → Prop} (n : Nat) (init : σ) (init' : τ)
    (f : Nat → σ → M (ForInStep σ)) (g : Nat → τ → M (ForInStep τ)) (h0 : VR init init')
    (hf : ∀ i, i < n → ∀ b b', VR b b' → RelS A (fun x y s t =>
        (∃ u u', x = .yield u ∧ y = .yield u' ∧ VR u u' ∧ A s t) ∨ (∃ u u', x = .done u ∧ y = .done u' ∧ E u u' s t)) (f i b) (g i b')) :
    RelS A (fun x y s t => (VR x y ∧ A s t) ∨ E x y s t) (forIn [:n] init f) (forIn [:n] init' g) := by
  rw [Std.Legacy.Range.forIn_eq_forIn_range', Std.Legacy.Range.forIn_eq_forIn_range']
  refine forIn_list_exit _ _ _ _ _ h0 ?_
  intro i hi
  refine hf i ?_
  simp [List.mem_range', Std.Legacy.Range.size] at hi
  omega

end RelS

/-! ### the offset relation -/

/-- a handler of the child (`h`) and the corresponding handler of the parent (`g`): the stack pointer it
    recorded is shifted by `bp`, everything else (catch / finally positions, return position, pending
    error) is equal; the recorded stack pointer is at most `H` -/
structure HSh (bp H : Nat) (h g : Handler) : Prop where
  sp : g.sp = h.sp + (bp : Int)
  spH : h.sp ≤ (H : Int)
  catch_ : h.catch_ = g.catch_
  finally_ : h.finally_ = g.finally_
  returnTo : h.returnTo = g.returnTo
  err : h.err = g.err

/-- handler lists, elementwise `HSh` -/
inductive HsL (bp H : Nat) : List Handler → List Handler → Prop
  | nil : HsL bp H [] []
  | cons {a b : Handler} {l l' : List Handler} : HSh bp H a b → HsL bp H l l' → HsL bp H (a :: l) (b :: l')

theorem HsL.length_eq {bp H : Nat} {l l' : List Handler} (x : HsL bp H l l') : l.length = l'.length := by
  induction x with
  | nil => rfl
  | cons _ _ ih => simp [ih]

/-- handler stacks: both nil, or elementwise `HSh` -/
def HsSh (bp H : Nat) : Option (List Handler) → Option (List Handler) → Prop
  | none, none => True
  | some l, some l' => HsL bp H l l'
  | _, _ => False

/-- a frame of the child (`f`) and the corresponding frame of the parent (`g`): same function, free
    variables and discard flag, base pointer shifted by `bp` (the child's is at most `H`), corresponding
    handler stacks -/
structure FrameSh (bp H : Nat) (f g : Frame) : Prop where
  fn : f.fn = g.fn
  free : f.free = g.free
  bpT : g.bp = f.bp + (bp : Int)
  hs : HsSh bp H f.handlers g.handlers
  discard : f.discard = g.discard
  bpH : f.bp ≤ (H : Int)

theorem HSh.mono {bp H H' : Nat} {h g : Handler} (x : HSh bp H h g) (hH : H ≤ H') : HSh bp H' h g :=
  { x with spH := by have := x.spH; omega }

theorem HsSh.mono {bp H H' : Nat} {l l' : Option (List Handler)} (x : HsSh bp H l l') (hH : H ≤ H') : HsSh bp H' l l' := by
  cases l <;> cases l' <;> simp only [HsSh] at x ⊢
  induction x with
  | nil => exact .nil
  | cons a _ ih => exact .cons (a.mono hH) ih

theorem FrameSh.mono {bp H H' : Nat} {f g : Frame} (x : FrameSh bp H f g) (hH : H ≤ H') : FrameSh bp H' f g :=
  { x with hs := x.hs.mono hH, bpH := by have := x.bpH; omega }

theorem HsSh.hasHandler {bp H : Nat} {f g : Frame} (x : HsSh bp H f.handlers g.handlers) : VM.hasHandler f = VM.hasHandler g := by
  unfold VM.hasHandler
  rcases hf : f.handlers with _ | l <;> rcases hg : g.handlers with _ | l' <;> rw [hf, hg] at x <;> simp only [HsSh] at x
  · cases x <;> rfl

/-- child `s` (the invoked function in frame 0 / base 0, now `d` frames deeper, `sp = a`) and parent `t`
    (the function in frame `k` / base `bp`, now in frame `k + d`, `sp = a + bp`): same heap, code memory,
    constants, globals and module cache, same instruction pointer; frame `j` of the child corresponds to
    frame `k + j` of the parent for `j ≤ d` (`FrameSh`), the saved instruction pointers of the frames below
    the current one are equal; `child.stack[i] = parent.stack[bp+i]` for every `i < N`; every handler of the
    child's frames recorded a stack pointer `≤ H` -/
structure Sh (T0 : State) (bp k d H N : Nat) (a : Int) (s t : State) : Prop where
  heap : s.heap = t.heap
  codes : s.codes = t.codes
  consts : s.consts = t.consts
  globals : s.globals = t.globals
  modules : s.modules = t.modules
  numModules : s.numModules = t.numModules
  ip : s.ip = t.ip
  spS : s.sp = a
  spT : t.sp = a + bp
  curS : s.curFrame = d
  curT : t.curFrame = k + d
  fiS : s.frameIndex = (d : Int) + 1
  fiT : t.frameIndex = (k : Int) + (d : Int) + 1
  errS : s.err = none
  errT : t.err = none
  shapeS : Shape s
  shapeT : Shape t
  kLt : k + d < frameSize
  frames : ∀ j : Nat, j ≤ d → FrameSh bp H (s.frames[j]!) (t.frames[k + j]!)
  ips : ∀ j : Nat, j < d → (s.frames[j]!).ip = (t.frames[k + j]!).ip
  bp0 : (s.frames[0]!).bp = 0
  bpPos : ∀ j : Nat, 1 ≤ j → j ≤ d → 1 ≤ (s.frames[j]!).bp
  stack : ∀ i : Nat, i < N → s.stack[i]! = t.stack[bp + i]!
  room : N + bp ≤ stackSize
  /-- the parent's frames below the function's frame and its stack below the callee's slot are those of `T0`
      (the parent when the function was entered): the run of the function does not touch them -/
  lowF : ∀ j : Nat, j < k → t.frames[j]! = T0.frames[j]!
  lowS : ∀ i : Nat, i + 1 < bp → t.stack[i]! = T0.stack[i]!

theorem Sh.mono {T0 : State} {bp k d H N N' : Nat} {a : Int} {s t : State} (h : Sh T0 bp k d H N a s t) (hN : N' ≤ N) : Sh T0 bp k d H N' a s t :=
  { h with stack := fun i hi => h.stack i (by omega), room := by have := h.room; omega }

theorem Sh.monoH {T0 : State} {bp k d H H' N : Nat} {a : Int} {s t : State} (h : Sh T0 bp k d H N a s t) (hH : H ≤ H') : Sh T0 bp k d H' N a s t :=
  { h with frames := fun j hj => (h.frames j hj).mono hH }

theorem Sh.frame {T0 : State} {bp k d H N : Nat} {a : Int} {s t : State} (h : Sh T0 bp k d H N a s t) :
    FrameSh bp H (s.frames[d]!) (t.frames[k + d]!) := h.frames d (Nat.le_refl _)

/-- the relation at instruction boundaries: `sp` lies within the related region, and so does every stack
    pointer recorded by a handler -/
def ShB (T0 : State) (bp k d : Nat) (s t : State) : Prop := ∃ (H N : Nat) (a : Int), Sh T0 bp k d H N a s t ∧ a ≤ N ∧ H ≤ N

section prims
variable {T0 : State} {bp k d H N : Nat} {a : Int}

/-- post-condition shape of the primitive rules -/
abbrev PQ {α β} (VR : α → β → Prop) (B : State → State → Prop) : α → β → State → State → Prop :=
  fun x y s t => VR x y ∧ B s t

theorem sh_getSp : RelS (Sh T0 bp k d H N a) (PQ (fun x y => a = x ∧ a + bp = y) (Sh T0 bp k d H N a)) getSp getSp := by
  intro s t h x s' y t' h1 h2
  have e1 : exec getSp s = (.ok s.sp, s) := rfl
  have e2 : exec getSp t = (.ok t.sp, t) := rfl
  rw [e1] at h1; rw [e2] at h2
  simp only [Prod.mk.injEq, Except.ok.injEq] at h1 h2
  obtain ⟨rfl, rfl⟩ := h1
  obtain ⟨rfl, rfl⟩ := h2
  exact ⟨⟨h.spS.symm, h.spT.symm⟩, h⟩

theorem sh_setSp (v w : Int) (hw : w = v + bp) :
    RelS (Sh T0 bp k d H N a) (PQ (fun _ _ => True) (Sh T0 bp k d H N v)) (setSp v) (setSp w) := by
  intro s t h x s' y t' h1 h2
  have e1 : exec (setSp v) s = (.ok (), { s with sp := v }) := rfl
  have e2 : exec (setSp w) t = (.ok (), { t with sp := w }) := rfl
  rw [e1] at h1; rw [e2] at h2
  simp only [Prod.mk.injEq, Except.ok.injEq] at h1 h2
  obtain ⟨_, rfl⟩ := h1
  obtain ⟨_, rfl⟩ := h2
  exact ⟨trivial, { h with spS := rfl, spT := hw, shapeS := ⟨h.shapeS.stack, h.shapeS.frames⟩,
                            shapeT := ⟨h.shapeT.stack, h.shapeT.frames⟩ }⟩

theorem sh_getIp : RelS (Sh T0 bp k d H N a) (PQ Eq (Sh T0 bp k d H N a)) getIp getIp := by
  intro s t h x s' y t' h1 h2
  have e1 : exec getIp s = (.ok s.ip, s) := rfl
  have e2 : exec getIp t = (.ok t.ip, t) := rfl
  rw [e1] at h1; rw [e2] at h2
  simp only [Prod.mk.injEq, Except.ok.injEq] at h1 h2
  obtain ⟨rfl, rfl⟩ := h1
  obtain ⟨rfl, rfl⟩ := h2
  exact ⟨h.ip, h⟩

theorem sh_setIp (v : Int) : RelS (Sh T0 bp k d H N a) (PQ (fun _ _ => True) (Sh T0 bp k d H N a)) (setIp v) (setIp v) := by
  intro s t h x s' y t' h1 h2
  have e1 : exec (setIp v) s = (.ok (), { s with ip := v }) := rfl
  have e2 : exec (setIp v) t = (.ok (), { t with ip := v }) := rfl
  rw [e1] at h1; rw [e2] at h2
  simp only [Prod.mk.injEq, Except.ok.injEq] at h1 h2
  obtain ⟨_, rfl⟩ := h1
  obtain ⟨_, rfl⟩ := h2
  exact ⟨trivial, { h with ip := rfl, shapeS := ⟨h.shapeS.stack, h.shapeS.frames⟩,
                            shapeT := ⟨h.shapeT.stack, h.shapeT.frames⟩ }⟩

theorem sh_bumpIp (n : Int) : RelS (Sh T0 bp k d H N a) (PQ (fun _ _ => True) (Sh T0 bp k d H N a)) (bumpIp n) (bumpIp n) := by
  intro s t h x s' y t' h1 h2
  have e1 : exec (bumpIp n) s = (.ok (), { s with ip := s.ip + n }) := rfl
  have e2 : exec (bumpIp n) t = (.ok (), { t with ip := t.ip + n }) := rfl
  rw [e1] at h1; rw [e2] at h2
  simp only [Prod.mk.injEq, Except.ok.injEq] at h1 h2
  obtain ⟨_, rfl⟩ := h1
  obtain ⟨_, rfl⟩ := h2
  exact ⟨trivial, { h with ip := by simp [h.ip], shapeS := ⟨h.shapeS.stack, h.shapeS.frames⟩,
                            shapeT := ⟨h.shapeT.stack, h.shapeT.frames⟩ }⟩

theorem exec_stackGet' (i : Int) (s : State) :
    exec (stackGet i) s =
      if i < 0 || i ≥ (stackSize : Int) then
        (.error (.panic s!"runtime error: index out of range [{i}] with length {stackSize}"), s)
      else (.ok (s.stack[i.toNat]!), s) := by
  unfold stackGet
  simp only [exec_bind, exec_getS]
  split <;> rfl

/-- reading corresponding slots inside the related region -/
theorem sh_stackGet (i j : Int) (hj : j = i + bp) (hN : 0 ≤ i → i < N) :
    RelS (Sh T0 bp k d H N a) (PQ Eq (Sh T0 bp k d H N a)) (stackGet i) (stackGet j) := by
  intro s t h x s' y t' h1 h2
  rw [exec_stackGet'] at h1 h2
  by_cases hb : (decide (i < 0) || decide (i ≥ (stackSize : Int))) = true
  · rw [if_pos hb] at h1; simp at h1
  · rw [if_neg hb] at h1
    by_cases hb' : (decide (j < 0) || decide (j ≥ (stackSize : Int))) = true
    · rw [if_pos hb'] at h2; simp at h2
    · rw [if_neg hb'] at h2
      simp only [Prod.mk.injEq, Except.ok.injEq] at h1 h2
      obtain ⟨rfl, rfl⟩ := h1
      obtain ⟨rfl, rfl⟩ := h2
      simp only [Bool.or_eq_true, decide_eq_true_eq, not_or, Int.not_lt, ge_iff_le, Int.not_le] at hb hb'
      refine ⟨?_, h⟩
      have := h.stack i.toNat (by have := hN hb.1; omega)
      have e : j.toNat = bp + i.toNat := by omega
      rw [e]; exact this

/-- writing the same value into corresponding slots; the related region grows when the slot
    is the next one -/
theorem sh_stackSet (i j : Int) (v : V) (hj : j = i + bp) (N' : Nat) (hN' : 0 ≤ i → N' ≤ N ∨ (N' = N + 1 ∧ i = N)) :
    RelS (Sh T0 bp k d H N a) (PQ (fun _ _ => True) (Sh T0 bp k d H N' a)) (stackSet i v) (stackSet j v) := by
  intro s t h x s' y t' h1 h2
  rw [exec_stackSet] at h1 h2
  by_cases hb : (decide (i < 0) || decide (i ≥ (stackSize : Int))) = true
  · rw [if_pos hb] at h1; simp at h1
  · rw [if_neg hb] at h1
    by_cases hb' : (decide (j < 0) || decide (j ≥ (stackSize : Int))) = true
    · rw [if_pos hb'] at h2; simp at h2
    · rw [if_neg hb'] at h2
      simp only [Prod.mk.injEq, Except.ok.injEq] at h1 h2
      obtain ⟨_, rfl⟩ := h1
      obtain ⟨_, rfl⟩ := h2
      simp only [Bool.or_eq_true, decide_eq_true_eq, not_or, Int.not_lt, ge_iff_le, Int.not_le] at hb hb'
      refine ⟨trivial, { h with shapeS := ⟨?_, h.shapeS.frames⟩, shapeT := ⟨?_, h.shapeT.frames⟩, stack := ?_, room := ?_, lowS := ?_ }⟩
      · simp [Array.set!_eq_setIfInBounds, h.shapeS.stack]
      · simp [Array.set!_eq_setIfInBounds, h.shapeT.stack]
      rotate_left
      · have := h.room
        have := hN' hb.1
        omega
      · intro i' hi'
        show (t.stack.set! j.toNat v)[i']! = T0.stack[i']!
        rw [getElem!_set!]
        have c : ¬ (j.toNat = i' ∧ j.toNat < t.stack.size) := fun c => by omega
        rw [if_neg c]
        exact h.lowS i' hi'
      · intro i' hi'
        show (s.stack.set! i.toNat v)[i']! = (t.stack.set! j.toNat v)[bp + i']!
        rw [getElem!_set!, getElem!_set!, h.shapeS.stack, h.shapeT.stack]
        have e : j.toNat = bp + i.toNat := by omega
        by_cases hii : i.toNat = i'
        · have c1 : i.toNat = i' ∧ i.toNat < stackSize := ⟨hii, by omega⟩
          have c2 : j.toNat = bp + i' ∧ j.toNat < stackSize := ⟨by omega, by omega⟩
          rw [if_pos c1, if_pos c2]
        · have c1 : ¬ (i.toNat = i' ∧ i.toNat < stackSize) := fun c => hii c.1
          have c2 : ¬ (j.toNat = bp + i' ∧ j.toNat < stackSize) := fun c => hii (by omega)
          rw [if_neg c1, if_neg c2]
          have := hN' hb.1
          exact h.stack i' (by omega)

theorem sh_curFrame : RelS (Sh T0 bp k d H N a) (PQ (FrameSh bp H) (Sh T0 bp k d H N a)) curFrame curFrame := by
  intro s t h x s' y t' h1 h2
  have e1 : exec curFrame s = (.ok (s.frames[s.curFrame]!), s) := rfl
  have e2 : exec curFrame t = (.ok (t.frames[t.curFrame]!), t) := rfl
  rw [e1] at h1; rw [e2] at h2
  simp only [Prod.mk.injEq, Except.ok.injEq] at h1 h2
  obtain ⟨rfl, rfl⟩ := h1
  obtain ⟨rfl, rfl⟩ := h2
  refine ⟨?_, h⟩
  rw [h.curS, h.curT]; exact h.frame

/-- `noteTrace` touches the H1 mirror only -/
theorem sh_noteTrace (op : Nat) : RelS (Sh T0 bp k d H N a) (PQ (fun _ _ => True) (Sh T0 bp k d H N a)) (noteTrace op) (noteTrace op) := by
  intro s t h x s' y t' h1 h2
  have hk : ∀ u : State, ∃ tr st, exec (noteTrace op) u = (.ok (), { u with trace := tr, steps := st }) := by
    intro u
    unfold noteTrace
    simp only [exec_bind, exec_getS]
    split
    · exact ⟨_, _, rfl⟩
    · exact ⟨_, _, rfl⟩
  obtain ⟨tr1, st1, e1⟩ := hk s
  obtain ⟨tr2, st2, e2⟩ := hk t
  rw [e1] at h1; rw [e2] at h2
  simp only [Prod.mk.injEq, Except.ok.injEq] at h1 h2
  obtain ⟨_, rfl⟩ := h1
  obtain ⟨_, rfl⟩ := h2
  exact ⟨trivial, { h with shapeS := ⟨h.shapeS.stack, h.shapeS.frames⟩, shapeT := ⟨h.shapeT.stack, h.shapeT.frames⟩ }⟩

end prims

/-! ### actions whose footprint is the heap -/

/-- what both VMs agree on besides the stack: heap, function and free variables of the current
    frame, code memory, ip, constants, globals, module cache -/
def view (s : State) : Array Cell × Option Addr × Option (List Addr) × Array Code × Int × Array V × V × Array V :=
  (s.heap, (s.frames[s.curFrame]!).fn, (s.frames[s.curFrame]!).free, s.codes, s.ip, s.consts, s.globals, s.modules)

/-- `m` changes nothing but the heap, and its result and final heap depend on the `view` only -/
structure Foot {α} (m : M α) : Prop where
  loc : ∀ s, (exec m s).2 = { s with heap := (exec m s).2.heap }
  dep : ∀ s t, view s = view t → (exec m s).1 = (exec m t).1 ∧ (exec m s).2.heap = (exec m t).2.heap

theorem view_heap (s : State) (h : Array Cell) : view { s with heap := h } = (h, (view s).2) := rfl

namespace Foot

theorem pure {α} (a : α) : Foot (Pure.pure a : M α) := ⟨fun _ => rfl, fun _ _ h => ⟨rfl, congrArg (·.1) h⟩⟩
theorem throw {α} (e : Exc) : Foot (MonadExcept.throw e : M α) := ⟨fun _ => rfl, fun _ _ h => ⟨rfl, congrArg (·.1) h⟩⟩
theorem panic {α} (m : String) : Foot (VM.panic m : M α) := throw _
theorem unsupported {α} (m : String) : Foot (VM.unsupported m : M α) := throw _

theorem bind {α β} {m : M α} {f : α → M β} (hm : Foot m) (hf : ∀ a, Foot (f a)) : Foot (m >>= f) := by
  constructor
  · intro s
    rw [exec_bind]
    have l1 := hm.loc s
    rcases e1 : exec m s with ⟨r1, s1⟩
    rw [e1] at l1
    cases r1 with
    | error e => exact l1
    | ok a =>
      have l2 := (hf a).loc s1
      simp only at l1 l2 ⊢
      rw [l2, l1]
  · intro s t hv
    rw [exec_bind, exec_bind]
    have d1 := hm.dep s t hv
    have l1 := hm.loc s
    have l1' := hm.loc t
    rcases e1 : exec m s with ⟨r1, s1⟩
    rcases e2 : exec m t with ⟨r2, t1⟩
    rw [e1, e2] at d1
    rw [e1] at l1
    rw [e2] at l1'
    simp only at d1 l1 l1'
    obtain ⟨d1a, d1b⟩ := d1
    subst d1a
    cases r1 with
    | error e => exact ⟨rfl, d1b⟩
    | ok a =>
      have a1 : view s1 = (s1.heap, (view s).2) := (congrArg view l1).trans (view_heap s s1.heap)
      have a2 : view t1 = (t1.heap, (view t).2) := (congrArg view l1').trans (view_heap t t1.heap)
      have hv' : view s1 = view t1 := by
        rw [a1, a2, d1b, hv]
      exact (hf a).dep s1 t1 hv'

theorem ite {α} {c : Prop} [Decidable c] {a b : M α} (ha : Foot a) (hb : Foot b) : Foot (if c then a else b) := by
  split <;> assumption

theorem heapGet (a : Addr) : Foot (VM.heapGet a) := by
  constructor
  · intro s
    simp only [VM.heapGet, exec_bind, exec_getS]
    split <;> rfl
  · intro s t hv
    have hh : s.heap = t.heap := congrArg (·.1) hv
    simp only [VM.heapGet, exec_bind, exec_getS, hh]
    split <;> exact ⟨rfl, hh⟩

theorem heapSet (a : Addr) (c : Cell) : Foot (VM.heapSet a c) :=
  ⟨fun _ => rfl, fun s t hv => by
    have hh : s.heap = t.heap := congrArg (·.1) hv
    exact ⟨rfl, by show s.heap.set! a c = t.heap.set! a c; rw [hh]⟩⟩

theorem alloc (c : Cell) : Foot (VM.alloc c) :=
  ⟨fun _ => rfl, fun s t hv => by
    have hh : s.heap = t.heap := congrArg (·.1) hv
    exact ⟨by show Except.ok s.heap.size = Except.ok t.heap.size; rw [hh],
           by show s.heap.push c = t.heap.push c; rw [hh]⟩⟩

/-- reading the state and using only its `view` -/
theorem getS_bind {α} {f : State → M α} (hf : ∀ s, Foot (f s)) (hd : ∀ s t, view s = view t → f s = f t) :
    Foot (VM.getS >>= f) := by
  constructor
  · intro s
    rw [exec_bind]
    exact (hf s).loc s
  · intro s t hv
    rw [exec_bind, exec_bind]
    simp only [exec_getS]
    rw [hd s t hv]
    exact (hf t).dep s t hv

theorem getIp : Foot VM.getIp :=
  ⟨fun _ => rfl, fun s t hv => by
    have hh : s.heap = t.heap := congrArg (·.1) hv
    have hi : s.ip = t.ip := congrArg (·.2.2.2.2.1) hv
    exact ⟨by show Except.ok s.ip = Except.ok t.ip; rw [hi], hh⟩⟩

theorem forIn_list {ι σ} (l : List ι) (init : σ) (f : ι → σ → M (ForInStep σ)) (hf : ∀ i b, Foot (f i b)) :
    Foot (forIn l init f) := by
  induction l generalizing init with
  | nil => exact Foot.pure _
  | cons i r ih =>
    rw [List.forIn_cons]
    refine Foot.bind (hf i init) ?_
    intro x
    cases x with
    | done b => exact Foot.pure _
    | yield b => exact ih b

end Foot

/-- closes the goal with a local hypothesis `∀ …, Foot (f …)` (join points) -/
elab "foot_hyp" : tactic => do
  let g ← Lean.Elab.Tactic.getMainGoal
  g.withContext do
    for d in (← Lean.getLCtx) do
      if d.isImplementationDetail then continue
      let ok ← Lean.commitWhen do
        try
          let gs ← Lean.Meta.withReducible (g.apply d.toExpr)
          pure gs.isEmpty
        catch _ => pure false
      if ok then
        Lean.Elab.Tactic.replaceMainGoal []
        return
    throwError "foot_hyp: no hypothesis applies"

syntax "foot_prim" : tactic
macro_rules | `(tactic| foot_prim) => `(tactic| exact Foot.pure _)
macro_rules | `(tactic| foot_prim) => `(tactic| exact Foot.panic _)
macro_rules | `(tactic| foot_prim) => `(tactic| exact Foot.unsupported _)
macro_rules | `(tactic| foot_prim) => `(tactic| exact Foot.throw _)
macro_rules | `(tactic| foot_prim) => `(tactic| exact Foot.heapGet _)
macro_rules | `(tactic| foot_prim) => `(tactic| exact Foot.heapSet _ _)
macro_rules | `(tactic| foot_prim) => `(tactic| exact Foot.alloc _)
macro_rules | `(tactic| foot_prim) => `(tactic| exact Foot.getIp)
macro_rules | `(tactic| foot_prim) => `(tactic| foot_hyp)

/-- structural decomposition of a `do` block (after `Proofs/VMImmut`'s `keeps`) -/
syntax "foot" : tactic
set_option hygiene false in
macro_rules | `(tactic| foot) => `(tactic|
  repeat (first
    | with_reducible foot_prim
    | apply Foot.bind
    | apply Foot.ite
    | apply Foot.forIn_list
    | ((first | lift_lets | skip); intro jp__;
       first
       | (have hjp__ : Foot jp__ := by
            (dsimp only [jp__]; foot)
          clear_value jp__)
       | (have hjp__ : ∀ a__, Foot (jp__ a__) := by
            (intro a__; dsimp only [jp__]; foot)
          clear_value jp__)
       | (have hjp__ : ∀ a__ b__, Foot (jp__ a__ b__) := by
            (intro a__ b__; dsimp only [jp__]; foot)
          clear_value jp__)
       | (have hjp__ : ∀ a__ b__ c__, Foot (jp__ a__ b__ c__) := by
            (intro a__ b__ c__; dsimp only [jp__]; foot)
          clear_value jp__)
       | clear_value jp__)
    | intro _
    | split
    | dsimp only))

theorem foot_heapUpd (a : Addr) (c : Cell) : Foot (heapUpd a c) := by unfold heapUpd; foot
macro_rules | `(tactic| foot_prim) => `(tactic| exact foot_heapUpd _ _)
theorem foot_boxSet (a : Addr) (v : V) : Foot (boxSet a v) := by unfold boxSet; foot
macro_rules | `(tactic| foot_prim) => `(tactic| exact foot_boxSet _ _)
theorem foot_arrElems (a : Addr) (o l : Nat) : Foot (arrElems a o l) := by unfold arrElems; foot
macro_rules | `(tactic| foot_prim) => `(tactic| exact foot_arrElems _ _ _)
theorem foot_mapEntries (a : Addr) : Foot (mapEntries a) := by unfold mapEntries; foot
macro_rules | `(tactic| foot_prim) => `(tactic| exact foot_mapEntries _)
theorem foot_vString (v : V) : Foot (vString v) := by unfold vString; foot
macro_rules | `(tactic| foot_prim) => `(tactic| exact foot_vString _)
theorem foot_isFalsy (v : V) : Foot (isFalsy v) := by unfold isFalsy; foot
macro_rules | `(tactic| foot_prim) => `(tactic| exact foot_isFalsy _)
theorem foot_newArray (xs : List V) : Foot (newArray xs) := by unfold newArray; foot
macro_rules | `(tactic| foot_prim) => `(tactic| exact foot_newArray _)
theorem foot_mkErr (n m : String) (c : Option Addr) : Foot (mkErr n m c) := by unfold mkErr; foot
macro_rules | `(tactic| foot_prim) => `(tactic| exact foot_mkErr _ _ _)
theorem foot_rtErrOfOpErr (e : OpErr) : Foot (rtErrOfOpErr e) := by unfold rtErrOfOpErr; foot
macro_rules | `(tactic| foot_prim) => `(tactic| exact foot_rtErrOfOpErr _)

set_option maxHeartbeats 1600000 in
theorem foot_vBinaryOp (F : FloatOps) (tok : Tok) (l r : V) : Foot (vBinaryOp F tok l r) := by unfold vBinaryOp; foot
set_option maxHeartbeats 1600000 in
theorem foot_vUnary (F : FloatOps) (tok : Tok) (r : V) : Foot (vUnary F tok r) := by unfold vUnary; foot
set_option maxHeartbeats 1600000 in
theorem foot_vIndexGet (t i : V) : Foot (vIndexGet t i) := by unfold vIndexGet; foot
set_option maxHeartbeats 1600000 in
theorem foot_vIndexSet (t i v : V) : Foot (vIndexSet t i v) := by unfold vIndexSet; foot

macro_rules | `(tactic| foot_prim) => `(tactic| exact foot_vBinaryOp _ _ _ _)
macro_rules | `(tactic| foot_prim) => `(tactic| exact foot_vUnary _ _ _)
macro_rules | `(tactic| foot_prim) => `(tactic| exact foot_vIndexGet _ _)
macro_rules | `(tactic| foot_prim) => `(tactic| exact foot_vIndexSet _ _ _)

theorem foot_vEqual (F : FloatOps) (l r : V) : Foot (vEqual F l r) := by
  unfold vEqual
  refine Foot.getS_bind ?_ ?_
  · intro s; foot
  · intro s t hv
    have hh : s.heap = t.heap := congrArg (·.1) hv
    simp only [hh]
macro_rules | `(tactic| foot_prim) => `(tactic| exact foot_vEqual _ _ _)

theorem foot_copyV (v : V) : Foot (copyV v) := by
  constructor
  · intro s
    simp only [copyV, exec_bind, exec_getS]
    split <;> rfl
  · intro s t hv
    have hh : s.heap = t.heap := congrArg (·.1) hv
    simp only [copyV, exec_bind, exec_getS, hh]
    split
    · exact ⟨rfl, rfl⟩
    · exact ⟨rfl, hh⟩
macro_rules | `(tactic| foot_prim) => `(tactic| exact foot_copyV _)

theorem foot_curCode : Foot curCode := by
  have e : curCode = (VM.getS >>= fun s => (match (s.frames[s.curFrame]!).fn with
      | none => VM.panic "runtime error: invalid memory address or nil pointer dereference"
      | some a => do
        match (← VM.heapGet a) with
        | .fn c _ => pure ((← VM.getS).codes[c]!)
        | _ => VM.unsupported "model: frame function is not a function" : M Code)) := by
    simp only [curCode, curFrame, bind_assoc, pure_bind]
    rfl
  rw [e]
  refine Foot.getS_bind ?_ ?_
  · intro s
    split
    · exact Foot.panic _
    · refine Foot.bind (Foot.heapGet _) ?_
      intro c
      split
      · refine Foot.getS_bind (fun _ => Foot.pure _) ?_
        intro s t hv
        have hc : s.codes = t.codes := congrArg (·.2.2.2.1) hv
        simp only [hc]
      · exact Foot.unsupported _
  · intro s t hv
    have h1 : (s.frames[s.curFrame]!).fn = (t.frames[t.curFrame]!).fn := congrArg (·.2.1) hv
    simp only [h1]
macro_rules | `(tactic| foot_prim) => `(tactic| exact foot_curCode)

theorem foot_instAt (i : Int) : Foot (instAt i) := by unfold instAt; foot
macro_rules | `(tactic| foot_prim) => `(tactic| exact foot_instAt _)
theorem foot_opnd1 (k : Int) : Foot (opnd1 k) := by unfold opnd1; foot
macro_rules | `(tactic| foot_prim) => `(tactic| exact foot_opnd1 _)
theorem foot_opnd2 (k : Int) : Foot (opnd2 k) := by unfold opnd2; foot
macro_rules | `(tactic| foot_prim) => `(tactic| exact foot_opnd2 _)
theorem foot_opnd4 (k : Int) : Foot (opnd4 k) := by unfold opnd4; foot
macro_rules | `(tactic| foot_prim) => `(tactic| exact foot_opnd4 _)
theorem foot_jumpTarget : Foot jumpTarget := by unfold jumpTarget; foot
macro_rules | `(tactic| foot_prim) => `(tactic| exact foot_jumpTarget)

theorem foot_constAt (i : Nat) : Foot (constAt i) := by
  unfold constAt
  refine Foot.getS_bind ?_ ?_
  · intro s; foot
  · intro s t hv
    have hc : s.consts = t.consts := congrArg (·.2.2.2.2.2.1) hv
    simp only [hc]
macro_rules | `(tactic| foot_prim) => `(tactic| exact foot_constAt _)

/-- the global map of the state -/
theorem foot_globalsGet (index : V) : Foot (do vIndexGet (← VM.getS).globals index) := by
  refine Foot.getS_bind (fun _ => foot_vIndexGet _ _) ?_
  intro s t hv
  have hc : s.globals = t.globals := congrArg (·.2.2.2.2.2.2.1) hv
  simp only [hc]

theorem foot_globalsSet (index value : V) : Foot (do vIndexSet (← VM.getS).globals index value) := by
  refine Foot.getS_bind (fun _ => foot_vIndexSet _ _ _) ?_
  intro s t hv
  have hc : s.globals = t.globals := congrArg (·.2.2.2.2.2.2.1) hv
  simp only [hc]

section prims2
variable {T0 : State} {bp k d H N : Nat} {a : Int}

theorem Sh.view_eq {s t : State} (h : Sh T0 bp k d H N a s t) : view s = view t := by
  have h1 := h.frame.fn
  have h2 := h.frame.free
  simp only [view, h.heap, h.curS, h.curT, h.codes, h.ip, h.consts, h.globals, h.modules, h1, h2]

/-- a heap-footprint action behaves identically on both sides -/
theorem sh_foot {α} {m : M α} (hm : Foot m) : RelS (Sh T0 bp k d H N a) (PQ Eq (Sh T0 bp k d H N a)) m m := by
  intro s t h x s' y t' h1 h2
  have d := hm.dep s t h.view_eq
  have l1 := hm.loc s
  have l2 := hm.loc t
  rw [h1] at l1 d
  rw [h2] at l2 d
  simp only [Except.ok.injEq] at d l1 l2
  refine ⟨d.1, ?_⟩
  rw [l1, l2]
  exact { h with heap := d.2, shapeS := ⟨h.shapeS.stack, h.shapeS.frames⟩, shapeT := ⟨h.shapeT.stack, h.shapeT.frames⟩ }

end prims2

end UgoVerif.Proofs.Shift
