import UgoVerif.Proofs.RelocIp
/-
  Relocation relation: CALL, CALLNAME and RETURN.
-/
set_option linter.unusedVariables false
set_option linter.unusedSimpArgs false
namespace UgoVerif.VM.Reloc
open UgoVerif UgoVerif.Go UgoVerif.VM

variable {P : Params}

theorem bindArgs_congr {code code' : Code} (h1 : code.numParams = code'.numParams)
    (h2 : code.variadic = code'.variadic) : bindArgs code = bindArgs code' := by
  funext bp na fl
  unfold bindArgs
  rw [h1, h2]

/-- what a call leaves: the same result; related states; at an instruction boundary when it succeeded -/
def CallPost (P : Params) : Except OpErr Unit → Except OpErr Unit → State → State → Prop :=
  fun a b s t => a = b ∧ RM P s t ∧ (a = .ok () → RB P s t)

/-! ### opcode bytes at instruction offsets -/

/-- the opcode byte of an instruction is the same on both sides -/
theorem opcode_at (hP : P.OK) {c o : Nat} (hc : c < P.cs.size) (hB : P.BB c o) :
    o < (P.cs[c]!).insts.size ∧ P.Φ c o < (P.ct[c]!).insts.size ∧
      (P.ct[c]!).insts[P.Φ c o]! = (P.cs[c]!).insts[o]! := by
  have hr := hP.rel c hc
  by_cases hj : isJ (((P.cs[c]!).insts)[o]!).toNat = true
  · by_cases ht : (((P.cs[c]!).insts)[o]!).toNat = OpSetupTry
    · obtain ⟨h1, h2, h3, _⟩ := hr.try_ o hB ht
      exact ⟨by omega, by omega, h3⟩
    · obtain ⟨h1, h2, h3, _⟩ := hr.jump o hB hj ht
      exact ⟨by omega, by omega, h3⟩
  · have hw := (hr.plain o hB (by simpa using hj)).1
    exact ⟨by have := hw.s; omega, by have := hw.t; omega, by simpa using hw.eq 0 (Nat.zero_le _)⟩

theorem opW_call : opW OpCall = 2 := by decide
theorem opW_callName : opW OpCallName = 2 := by decide
theorem opW_return : opW OpReturn = 1 := by decide
theorem opW_pop : opW OpPop = 0 := by decide

/-- window and successor of an instruction with two operand bytes that is not re-encoded -/
theorem plain2 (hP : P.OK) {c o op : Nat} (hc : c < P.cs.size) (hB : P.BB c o)
    (hop : (((P.cs[c]!).insts)[o]!).toNat = op) (hj : isJ op = false) (hw : opW op = 2) (hr : op ≠ OpReturn) :
    Win (P.cs[c]!).insts (P.ct[c]!).insts (P.Φ c) o 2 ∧ P.BB c (o + 3) ∧ P.Φ c (o + 3) = P.Φ c o + 3 := by
  obtain ⟨h1, h2⟩ := (hP.rel c hc).plain o hB (by rw [hop]; exact hj)
  rw [hop, hw] at h1 h2
  exact ⟨h1, h2 (by exact hr)⟩

/-! ### builtins -/

/-- the part of `callObject` behind the argument list -/
def coFinish (i : Nat) (numArgs : Int) (args : List V) : M (Except OpErr Unit) := do
  let r ← callBuiltin i args
  popArgs numArgs.toNat
  match r with
  | .error e => return .error e
  | .ok v =>
    stackSet ((← getSp) - 1) v
    bumpIp 2
    return .ok ()

theorem callObject_builtin (i : Nat) (numArgs flags : Int) :
    callObject (.builtin i) numArgs flags = (do
      let sp ← getSp
      let args ← stackSlice (sp - numArgs) (sp - flags)
      if flags > 0 then
        match (← stackGet (sp - 1)) with
        | .arr a o l => do coFinish i numArgs (args ++ (← arrElems a o l))
        | .nil => do
          let r ← (panic "runtime error: invalid memory address or nil pointer dereference" : M Unit)
          coFinish i numArgs args
        | v => return .error (.named "TypeError" s!"invalid type for argument 'last': expected array, found {typeName v}")
      else coFinish i numArgs args) := by
  rfl

section
variable {ci : Nat → Nat} {c o : Nat}

theorem rel_coFinish (hnext : P.BB c (o + 3) ∧ P.Φ c (o + 3) = P.Φ c o + 3) (i : Nat) (na : Int) (args : List V) :
    RelQ (R P ci c (Iat P c o)) (CallPost P) (RM P) (coFinish i na args) (coFinish i na args) := by
  unfold coFinish
  refine RelQ.bindEq (rel_callBuiltin i args) ?_
  intro r
  refine RelQ.bindEq (rel_popArgs _) ?_
  intro _
  cases r with
  | error e => exact RelQ.pure (fun s t h => ⟨rfl, h.toRM, fun e => by cases e⟩)
  | ok v =>
    refine RelQ.bindEq rel_getSp ?_
    intro sp
    refine RelQ.bindEq (rel_stackSet _ _) ?_
    intro _
    refine RelQ.bind (rel_bumpIp_next 2 2 rfl hnext) ?_
    intro _ _ _
    exact RelQ.pure (fun s t h => ⟨rfl, h.toRM, fun _ => h⟩)

theorem rel_callObject (hnext : P.BB c (o + 3) ∧ P.Φ c (o + 3) = P.Φ c o + 3) (v : V) (na fl : Int)
    (hv : ∀ a, v ≠ .cfun a) :
    RelQ (R P ci c (Iat P c o)) (CallPost P) (RM P) (callObject v na fl) (callObject v na fl) := by
  have herr : ∀ e : OpErr, RelQ (R P ci c (Iat P c o)) (CallPost P) (RM P)
      (pure (Except.error e)) (pure (Except.error e)) :=
    fun e => RelQ.pure (fun s t h => ⟨rfl, h.toRM, fun e => by cases e⟩)
  cases v with
  | nil => exact RelQ.panic _ (fun _ _ h => h.toRM)
  | host _ => exact RelQ.unsupported _ (fun _ _ h => h.toRM)
  | cfun a => exact absurd rfl (hv a)
  | builtin i =>
    rw [callObject_builtin]
    refine RelQ.bindEq rel_getSp ?_
    intro sp
    refine RelQ.bindEq (rel_stackSlice _ _) ?_
    intro args
    refine RelQ.ite ?_ (rel_coFinish hnext _ _ _)
    refine RelQ.bindEq (rel_stackGet _) ?_
    intro last
    split
    · refine RelQ.bindEq (rel_arrElems _ _ _) ?_
      intro es
      exact rel_coFinish hnext _ _ _
    · exact RelQ.bind (RelE.panic (B := fun _ _ => False) (VR := Eq) _ (fun _ _ h => h.toRM)) (fun _ _ _ => RelQ.ofFalse)
    · exact herr _
  | _ => exact herr _

end

/-! ### a heap cell survives argument binding (the heap only grows there) -/

/-- the heap holds `x` at `fa` -/
@[reducible] def HasCell (fa : Nat) (x : Cell) (s : State) : Prop := s.heap[fa]? = some x

syntax "kp_prim" : tactic
macro_rules | `(tactic| kp_prim) => `(tactic| exact Keeps.pure _)
macro_rules | `(tactic| kp_prim) => `(tactic| exact Keeps.panic _)
macro_rules | `(tactic| kp_prim) => `(tactic| exact Keeps.unsupported _)
macro_rules | `(tactic| kp_prim) => `(tactic| exact Keeps.throw _)
macro_rules | `(tactic| kp_prim) => `(tactic| exact Keeps.getS)
macro_rules | `(tactic| kp_prim) => `(tactic| exact Keeps.get)
macro_rules | `(tactic| kp_prim) => `(tactic| exact Keeps.modS (fun _ h => h))
macro_rules | `(tactic| kp_prim) => `(tactic| keeps_hyp)

syntax "kp" : tactic
set_option hygiene false in
macro_rules | `(tactic| kp) => `(tactic|
  repeat (first
    | with_reducible kp_prim
    | apply Keeps.bind
    | apply Keeps.ite
    | apply Keeps.forIn_range
    | apply Keeps.forIn_list
    | ((first | lift_lets | skip); intro jp__;
       first
       | (have hjp__ : Keeps (HasCell fa x) jp__ := by
            (dsimp only [jp__]; kp)
          clear_value jp__)
       | (have hjp__ : ∀ a__, Keeps (HasCell fa x) (jp__ a__) := by
            (intro a__; dsimp only [jp__]; kp)
          clear_value jp__)
       | (have hjp__ : ∀ a__ b__, Keeps (HasCell fa x) (jp__ a__ b__) := by
            (intro a__ b__; dsimp only [jp__]; kp)
          clear_value jp__)
       | (have hjp__ : ∀ a__ b__ c__, Keeps (HasCell fa x) (jp__ a__ b__ c__) := by
            (intro a__ b__ c__; dsimp only [jp__]; kp)
          clear_value jp__)
       | clear_value jp__)
    | intro _
    | split
    | dsimp only))

section
variable {fa : Nat} {x : Cell}
local notation "HC" => HasCell fa x

theorem kp_stackGet (i : Int) : Keeps HC (stackGet i) := by unfold stackGet; kp
macro_rules | `(tactic| kp_prim) => `(tactic| exact kp_stackGet _)
theorem kp_stackSet (i : Int) (v : V) : Keeps HC (stackSet i v) := by unfold stackSet; kp
macro_rules | `(tactic| kp_prim) => `(tactic| exact kp_stackSet _ _)
theorem kp_stackSlice (lo hi : Int) : Keeps HC (stackSlice lo hi) := by unfold stackSlice; kp
macro_rules | `(tactic| kp_prim) => `(tactic| exact kp_stackSlice _ _)
theorem kp_heapGet (a : Addr) : Keeps HC (heapGet a) := by unfold heapGet; kp
macro_rules | `(tactic| kp_prim) => `(tactic| exact kp_heapGet _)
theorem kp_arrElems (a : Addr) (off len : Nat) : Keeps HC (arrElems a off len) := by unfold arrElems; kp
macro_rules | `(tactic| kp_prim) => `(tactic| exact kp_arrElems _ _ _)
theorem kp_alloc (y : Cell) : Keeps HC (alloc y) := by
  apply Keeps.intro'
  intro s h
  show (s.heap.push y)[fa]? = some x
  have h' : s.heap[fa]? = some x := h
  have hlt : fa < s.heap.size := by
    rcases Nat.lt_or_ge fa s.heap.size with hl | hl
    · exact hl
    · rw [Array.getElem?_eq_none hl] at h'; cases h'
  rw [Array.getElem?_push]
  simp [Nat.ne_of_lt hlt, h']
macro_rules | `(tactic| kp_prim) => `(tactic| exact kp_alloc _)
theorem kp_newArray (xs : List V) : Keeps HC (newArray xs) := by unfold newArray; kp
macro_rules | `(tactic| kp_prim) => `(tactic| exact kp_newArray _)
theorem kp_copyToStack (a : Int) (xs : List V) : Keeps HC (copyToStack a xs) := by unfold copyToStack; kp
macro_rules | `(tactic| kp_prim) => `(tactic| exact kp_copyToStack _ _)
theorem kp_fillUndefined (lo : Int) (n : Nat) : Keeps HC (fillUndefined lo n) := by unfold fillUndefined; kp
macro_rules | `(tactic| kp_prim) => `(tactic| exact kp_fillUndefined _ _)
set_option maxHeartbeats 1600000 in
theorem kp_bindArgs (code : Code) (bp na fl : Int) : Keeps HC (bindArgs code bp na fl) := by unfold bindArgs; kp
theorem kp_getSp : Keeps HC getSp := Keeps.intro' (fun s h => h)

end

/-- a unary invariant of the source run rides along a triple -/
theorem RelE.frameL {α β} {A B E : State → State → Prop} {VR : α → β → Prop} {m₁ : M α} {m₂ : M β}
    (H : State → Prop) (h : RelE A B E VR m₁ m₂) (hk : Keeps H m₁) :
    RelE (fun s t => A s t ∧ H s) (fun s t => B s t ∧ H s) E VR m₁ m₂ := by
  apply RelE.mk'
  intro s t ⟨hA, hH⟩
  have := h.run s t hA
  have hk' := hk.elim s hH
  rcases h1 : exec m₁ s with ⟨r1, s1⟩
  rcases h2 : exec m₂ t with ⟨r2, t1⟩
  rw [h1, h2] at this
  rw [h1] at hk'
  cases r1 <;> cases r2 <;> simp only at this ⊢
  · exact this
  · exact ⟨this.1, this.2, hk'⟩

/-! ### `callCompiled` in pieces -/

/-- the frame push -/
def ccPush (fa : Addr) (free : Option (List Addr)) (bp nl ip fi : Int) : M (Except OpErr Unit) := do
  modS fun s => { s with frameIndex := fi + 1 }
  setCurFrame fun f => { f with ip := ip + 2 }
  enterFrame fi.toNat fa free bp
  setSp (bp + nl)
  setIp (-1)
  return .ok ()

def ccNew (fa : Addr) (free : Option (List Addr)) (bp nl ip : Int) : M (Except OpErr Unit) := do
  let s ← getS
  let fi := s.frameIndex
  if fi + 1 > (frameSize : Int) - 1 then
    return .error .stackOverflow
  if fi < 0 || fi ≥ (frameSize : Int) then
    panic s!"runtime error: index out of range [{fi}] with length {frameSize}"
  ccPush fa free bp nl ip fi

/-- the tail call -/
def ccTailC (curBp sp na bp nl : Int) : M (Except OpErr Unit) := do
  let src ← stackSlice bp (min (stackSize : Int) (bp + nl))
  copySlots curBp src
  let newSp := sp - na - 1
  clearDown sp newSp
  setSp newSp
  setIp (-1)
  setCurFrame fun f => { f with handlers := none }
  return .ok ()

def ccTailB (curBp sp na bp nl : Int) : M (Except OpErr Unit) := do
  if bp < 0 || bp > (stackSize : Int) then
    panic "runtime error: slice bounds out of range"
  ccTailC curBp sp na bp nl

def ccTailA (curBp sp na bp nl : Int) : M (Except OpErr Unit) := do
  if curBp < 0 || curBp + nl > (stackSize : Int) || curBp > curBp + nl then
    panic "runtime error: slice bounds out of range"
  ccTailB curBp sp na bp nl

def ccTail (curBp sp na bp nl : Int) (discard : Bool) : M (Except OpErr Unit) := do
  if discard then setCurFrame fun f => { f with discard := true }
  ccTailA curBp sp na bp nl

def ccBody (fa : Addr) (free : Option (List Addr)) (cf : Frame) (sp na bp nl ip : Int) : M (Except OpErr Unit) := do
  if cf.fn == some fa then
    let nextOp ← instAt (ip + 2 + 1)
    let discard ← (if nextOp == OpPop then do pure ((← instAt (ip + 2 + 2)) == OpReturn) else pure false)
    if nextOp == OpReturn || discard then
      ccTail cf.bp sp na bp nl discard
    else ccNew fa free bp nl ip
  else ccNew fa free bp nl ip

def ccRest (fa : Addr) (code : Code) (free : Option (List Addr)) (na fl : Int) : M (Except OpErr Unit) := do
  let sp ← getSp
  match (← bindArgs code (sp - na) na fl) with
  | .error e => return .error e
  | .ok () =>
    fillUndefined (sp - na + (code.numParams : Int)) ((code.numLocals : Int) - (code.numParams : Int)).toNat
    let cf ← curFrame
    let ip ← getIp
    ccBody fa free cf sp na (sp - na) code.numLocals ip

theorem callCompiled_eq (fa : Addr) (na fl : Int) :
    callCompiled fa na fl = (fnCell fa >>= fun x => ccRest fa x.1 x.2 na fl) := rfl

/-! ### pushing a frame -/

def pushState (fa : Addr) (free : Option (List Addr)) (bp nl ip fi : Int) (s : State) : State :=
  { s with
    frameIndex := fi + 1,
    frames := (s.frames.modify s.curFrame fun f => { f with ip := ip + 2 }).modify fi.toNat fun f =>
      { f with fn := some fa, free := free, handlers := none, bp := bp, discard := false },
    curFrame := fi.toNat, sp := bp + nl, ip := -1 }

theorem exec_ccPush (fa : Addr) (free : Option (List Addr)) (bp nl ip fi : Int) (s : State) :
    exec (ccPush fa free bp nl ip fi) s = (.ok (.ok ()), pushState fa free bp nl ip fi s) := rfl

theorem size_modify_frame (a : Array Frame) (c : Nat) (f : Frame → Frame) : (a.modify c f).size = a.size := by simp

theorem R_push {ci : Nat → Nat} {c o : Nat} {s t : State} (h : R P ci c (Iat P c o) s t)
    (hnext : P.BB c (o + 3) ∧ P.Φ c (o + 3) = P.Φ c o + 3)
    {fa k : Nat} {fr : Option (List Addr)} (hcell : s.heap[fa]? = some (Cell.fn k fr)) (hk : P.Entry k) (bp nl : Int)
    (hfi : ¬ (s.frameIndex + 1 > (frameSize : Int) - 1)) :
    RB P (pushState fa fr bp nl (o : Int) s.frameIndex s) (pushState fa fr bp nl (P.Φ c o : Int) s.frameIndex t) := by
  have hlink := h.link
  have hn : s.frameIndex.toNat = s.curFrame + 1 := by omega
  have hnlt : s.curFrame + 1 < frameSize := by simp only [frameSize] at hfi ⊢; omega
  refine ⟨fun i => if i = s.curFrame + 1 then k else ci i, k, 0, ?_⟩
  unfold pushState
  rw [hn, h.curFrame]
  exact {
    stack := h.stack, sp := rfl, heap := h.heap, codesS := h.codesS, codesT := h.codesT, consts := h.consts,
    mainFn := h.mainFn, numModules := h.numModules, globals := h.globals, modules := h.modules, err := h.err,
    abort := h.abort, steps := h.steps, traceOn := h.traceOn, noPanic := h.noPanic,
    ip := ⟨hk.2.1, by show (-1 : Int) + 1 = ((0 : Nat) : Int); decide, by rw [hk.2.2]; show (-1 : Int) + 1 = ((0 : Nat) : Int); decide⟩
    curFrame := rfl, frameIndex := rfl,
    link := by show ((s.curFrame + 1 : Nat) : Int) + 1 = s.frameIndex + 1; omega
    fsS := by simp [h.fsS], fsT := by simp [h.fsT], cur := hnlt,
    curc := by simp, cok := hk.1,
    cis := by
      intro i hi
      by_cases h1 : i = s.curFrame + 1
      · simp only [h1, if_true]; exact hk.1
      · simp only [h1, if_false]; exact h.cis i (by have : i ≤ s.curFrame + 1 := hi; omega)
    frames := by
      intro i hi
      have hf := h.frames i hi
      simp only [getElem!_modify, size_modify_frame, h.fsS, h.fsT, hi, and_true]
      by_cases h1 : s.curFrame + 1 = i
      · subst h1
        have h2 : ¬ (s.curFrame = s.curFrame + 1) := by omega
        simp only [if_true, h2, if_false]
        exact { fn := rfl, free := rfl, bp := rfl, discard := rfl, hs := trivial,
                ip := fun hlt => absurd hlt (Nat.lt_irrefl _) }
      · have h1' : ¬ (i = s.curFrame + 1) := fun e => h1 e.symm
        simp only [h1, h1', if_false]
        by_cases h2 : s.curFrame = i
        · subst h2
          simp only [if_true]
          rw [h.curc] at hf ⊢
          exact { fn := hf.fn, free := hf.free, bp := hf.bp, discard := hf.discard, hs := hf.hs,
                  ip := fun _ => ⟨o + 3, hnext.1, by show (o : Int) + 2 + 1 = ((o + 3 : Nat) : Int); omega,
                    by rw [hnext.2]; show (P.Φ c o : Int) + 2 + 1 = ((P.Φ c o + 3 : Nat) : Int); omega⟩ }
        · simp only [h2, if_false]
          exact { hf with ip := fun hlt => hf.ip (by omega) }
    code := by
      intro i hi a ha
      have hi' : i ≤ s.curFrame + 1 := hi
      simp only [getElem!_modify, size_modify_frame, h.fsS] at ha
      by_cases h1 : s.curFrame + 1 = i
      · subst h1
        have h2 : ¬ (s.curFrame = s.curFrame + 1) := by omega
        simp only [hnlt, and_true, if_true, h2, if_false] at ha
        have hfa : fa = a := by simpa using ha
        subst hfa
        have hcell' : s.heap[fa]? = some (Cell.fn k fr) := hcell
        refine ⟨?_, ?_⟩
        · show fa < s.heap.size
          rcases Nat.lt_or_ge fa s.heap.size with hl | hl
          · exact hl
          · rw [Array.getElem?_eq_none hl] at hcell'; cases hcell'
        · intro k0 fr0 h0
          have h0' : s.heap[fa]? = some (Cell.fn k0 fr0) := h0
          rw [hcell'] at h0'
          cases h0'
          exact ⟨by simp, hk.1⟩
      · have h1' : ¬ (i = s.curFrame + 1) := fun e => h1 e.symm
        have hle : i ≤ s.curFrame := by omega
        simp only [h1, h1', false_and, if_false] at ha ⊢
        by_cases h2 : s.curFrame = i
        · subst h2
          simp only [h.cur, and_true, if_true] at ha
          exact h.code _ hle a ha
        · simp only [h2, false_and, if_false] at ha
          exact h.code _ hle a ha
    fnok := h.fnok }

/-! ### the triples for `callCompiled` -/

theorem RelQ.runC {α β} {A : State → State → Prop} {Q : α → β → State → State → Prop} {E : State → State → Prop}
    {m₁ : M α} {m₂ : M β} (h : RelQ A Q E m₁ m₂) : ∀ s t, A s t →
      match exec m₁ s, exec m₂ t with
      | (.ok a, s'), (.ok b, t') => Q a b s' t'
      | (.error e, s'), (.error e', t') => e = e' ∧ E s' t'
      | _, _ => False := by
  intro s t hA
  rcases h.elim hA with ⟨a, b, s', t', h1, h2, hq⟩ | ⟨e, s', t', h1, h2, he⟩
  · rw [h1, h2]; exact hq
  · rw [h1, h2]; exact ⟨rfl, he⟩

theorem RelQ.panic_bind {α β γ} {A : State → State → Prop} {Q : α → β → State → State → Prop} {E : State → State → Prop}
    (m : String) (hE : ∀ s t, A s t → E s t) (f₁ : γ → M α) (f₂ : γ → M β) :
    RelQ A Q E (VM.panic m >>= f₁) (VM.panic m >>= f₂) :=
  RelQ.bind (RelE.panic (B := fun _ _ => False) (VR := Eq) m hE) (fun _ _ _ => RelQ.ofFalse)

theorem callpost_err {A : State → State → Prop} (e : OpErr) (hA : ∀ s t, A s t → RM P s t) :
    RelQ A (CallPost P) (RM P) (pure (Except.error e)) (pure (Except.error e)) :=
  RelQ.pure (fun s t h => ⟨rfl, hA s t h, fun e => by cases e⟩)

section
variable {ci : Nat → Nat} {c o : Nat} {I : Int → Int → Prop}

/-- both sides read the code of function `c` (which then is enterable), or fail alike -/
theorem curCode_rel' {s t : State} (h : R P ci c I s t) :
    (exec curCode s = (.ok (P.cs[c]!), s) ∧ exec curCode t = (.ok (P.ct[c]!), t) ∧ P.Entry c) ∨
    (∃ e, exec curCode s = (.error e, s) ∧ exec curCode t = (.error e, t)) := by
  rw [exec_curCode, exec_curCode]
  have hf := h.frames s.curFrame h.cur
  rw [h.curFrame, hf.fn, h.heap]
  cases hfn : (s.frames[s.curFrame]!).fn with
  | none => exact Or.inr ⟨_, rfl, rfl⟩
  | some a =>
    simp only
    cases hc : s.heap[a]? with
    | none => exact Or.inr ⟨_, rfl, rfl⟩
    | some x =>
      cases x with
      | fn k fr =>
        have := ((h.code s.curFrame (Nat.le_refl _) a hfn).2 k fr hc).1
        rw [h.curc] at this
        have hent := h.fnok a k fr hc
        subst this
        simp only [h.codesS, h.codesT]
        exact Or.inl ⟨by first | rfl | trivial, by first | rfl | trivial, hent⟩
      | _ => exact Or.inr ⟨_, rfl, rfl⟩

theorem rel_ccNew (hnext : P.BB c (o + 3) ∧ P.Φ c (o + 3) = P.Φ c o + 3) {fa k : Nat} {fr : Option (List Addr)}
    (hk : P.Entry k) (bp nl : Int) :
    RelQ (fun s t => R P ci c (Iat P c o) s t ∧ HasCell fa (Cell.fn k fr) s) (CallPost P) (RM P)
      (ccNew fa fr bp nl (o : Int)) (ccNew fa fr bp nl (P.Φ c o : Int)) := by
  apply RelQ.mk'
  intro s t ⟨h, hH⟩
  simp only [ccNew, exec_bind, exec_getS]
  rw [h.frameIndex]
  by_cases h1 : s.frameIndex + 1 > (frameSize : Int) - 1
  · rw [if_pos h1, if_pos h1]
    exact ⟨rfl, h.toRM, fun e => by cases e⟩
  · rw [if_neg h1, if_neg h1]
    by_cases h2 : (decide (s.frameIndex < 0) || decide (s.frameIndex ≥ (frameSize : Int))) = true
    · rw [if_pos h2, if_pos h2]
      simp only [exec_bind, exec_panic]
      exact ⟨trivial, h.toRM⟩
    · rw [if_neg h2, if_neg h2, exec_ccPush, exec_ccPush]
      have := R_push h hnext hH hk bp nl h1
      exact ⟨rfl, this.toRM, fun _ => this⟩

end

section
variable {ci : Nat → Nat} {c o : Nat} {I : Int → Int → Prop}

theorem rel_setIp_entry (hc : P.Entry c) :
    RelE (R P ci c I) (R P ci c (Ibnd P c 0)) (RM P) Eq (setIp (-1)) (setIp (-1)) := by
  apply RelE.mk'
  intro s t h
  rw [exec_setIp, exec_setIp]
  refine ⟨rfl, { h with ip := ⟨hc.2.1, ?_, ?_⟩ }⟩
  · show (-1 : Int) + 1 = ((0 : Nat) : Int); decide
  · rw [hc.2.2]; show (-1 : Int) + 1 = ((0 : Nat) : Int); decide

theorem rel_ccTailC (hc : P.Entry c) (curBp sp na bp nl : Int) :
    RelQ (R P ci c I) (CallPost P) (RM P) (ccTailC curBp sp na bp nl) (ccTailC curBp sp na bp nl) := by
  unfold ccTailC
  refine RelQ.bindEq (rel_stackSlice _ _) ?_
  intro src
  refine RelQ.bindEq (rel_copySlots _ _) ?_
  intro _
  refine RelQ.bindEq (rel_clearDown _ _) ?_
  intro _
  refine RelQ.bindEq (rel_setSp _) ?_
  intro _
  refine RelQ.bindEq (rel_setIp_entry hc) ?_
  intro _
  refine RelQ.bindEq (rel_setCurFrame _ _ ?_ ?_) ?_
  · intro f g hfg
    exact { fn := hfg.fn, free := hfg.free, bp := hfg.bp, discard := hfg.discard, hs := trivial, ip := hfg.ip }
  · intro f; exact Or.inl rfl
  · intro _
    exact RelQ.pure (fun s t h => ⟨rfl, h.toRM, fun _ => ⟨ci, c, 0, h⟩⟩)

theorem rel_ccTail (hc : P.Entry c) (curBp sp na bp nl : Int) (d : Bool) :
    RelQ (R P ci c I) (CallPost P) (RM P) (ccTail curBp sp na bp nl d) (ccTail curBp sp na bp nl d) := by
  have hC := rel_ccTailC (ci := ci) (I := I) hc curBp sp na bp nl
  have hB : RelQ (R P ci c I) (CallPost P) (RM P) (ccTailB curBp sp na bp nl) (ccTailB curBp sp na bp nl) := by
    unfold ccTailB
    exact RelQ.ite (RelQ.panic_bind _ (fun _ _ h => h.toRM) _ _) hC
  have hA : RelQ (R P ci c I) (CallPost P) (RM P) (ccTailA curBp sp na bp nl) (ccTailA curBp sp na bp nl) := by
    unfold ccTailA
    exact RelQ.ite (RelQ.panic_bind _ (fun _ _ h => h.toRM) _ _) hB
  unfold ccTail
  refine RelQ.ite ?_ hA
  refine RelQ.bindEq (rel_setCurFrame _ _ ?_ ?_) (fun _ => hA)
  · intro f g hfg
    exact { fn := hfg.fn, free := hfg.free, bp := hfg.bp, discard := rfl, hs := hfg.hs, ip := hfg.ip }
  · intro f; exact Or.inl rfl

end

/-- the two runs end alike -/
@[reducible] def Outcome {α β} (Q : α → β → State → State → Prop) (E : State → State → Prop)
    (x : Except Exc α × State) (y : Except Exc β × State) : Prop :=
  match x, y with
  | (.ok a, s'), (.ok b, t') => Q a b s' t'
  | (.error e, s'), (.error e', t') => e = e' ∧ E s' t'
  | _, _ => False

theorem RelQ.outcome {α β} {A : State → State → Prop} {Q : α → β → State → State → Prop} {E : State → State → Prop}
    {m₁ : M α} {m₂ : M β} (h : RelQ A Q E m₁ m₂) {s t : State} (hA : A s t) :
    Outcome Q E (exec m₁ s) (exec m₂ t) := h.runC s t hA

section
variable {ci : Nat → Nat} {c o : Nat} {I : Int → Int → Prop}

theorem rel_ccBody (hP : P.OK) (hnext : P.BB c (o + 3) ∧ P.Φ c (o + 3) = P.Φ c o + 3)
    {fa k : Nat} {fr : Option (List Addr)} (hk : P.Entry k) (cf cf' : Frame)
    (hcf : FrRel (P.Φ c) (P.BB c) False cf cf') (sp na bp nl : Int) :
    RelQ (fun s t => R P ci c (Iat P c o) s t ∧ HasCell fa (Cell.fn k fr) s) (CallPost P) (RM P)
      (ccBody fa fr cf sp na bp nl (o : Int)) (ccBody fa fr cf' sp na bp nl (P.Φ c o : Int)) := by
  unfold ccBody
  rw [hcf.fn, hcf.bp]
  refine RelQ.ite ?_ (rel_ccNew hnext hk bp nl)
  apply RelQ.mk'
  intro s t ⟨h, hH⟩
  rcases curCode_rel' h with ⟨h1, h2, hent⟩ | ⟨e, h1, h2⟩
  · obtain ⟨b1, b2, b3⟩ := opcode_at hP h.cok hnext.1
    rw [exec_bind, exec_bind, exec_instAt_ok h1 _ (o + 3) (by omega) b1,
      exec_instAt_ok h2 _ (P.Φ c (o + 3)) (by rw [hnext.2]; omega) b2, b3]
    simp only
    have htail : ∀ d : Bool, Outcome (CallPost P) (RM P)
        (exec (if ((((P.cs[c]!).insts)[o + 3]!).toNat == OpReturn || d) = true then ccTail cf.bp sp na bp nl d
          else ccNew fa fr bp nl (o : Int)) s)
        (exec (if ((((P.cs[c]!).insts)[o + 3]!).toNat == OpReturn || d) = true then ccTail cf.bp sp na bp nl d
          else ccNew fa fr bp nl (P.Φ c o : Int)) t) :=
      fun d => (RelQ.ite ((rel_ccTail hent _ _ _ _ _ _).pre (fun _ _ h => h.1)) (rel_ccNew hnext hk bp nl)).outcome ⟨h, hH⟩
    by_cases hpop : ((((P.cs[c]!).insts)[o + 3]!).toNat == OpPop) = true
    · have hpop' : (((P.cs[c]!).insts)[o + 3]!).toNat = OpPop := by simpa using hpop
      have h4 : P.BB c (o + 4) ∧ P.Φ c (o + 4) = P.Φ c o + 4 := by
        obtain ⟨_, hn⟩ := (hP.rel c h.cok).plain (o + 3) hnext.1 (by rw [hpop']; decide)
        rw [hpop', opW_pop] at hn
        have := hn (by decide)
        rw [hnext.2] at this
        exact this
      obtain ⟨d1, d2, d3⟩ := opcode_at hP h.cok h4.1
      rw [if_pos hpop, if_pos hpop]
      simp only [exec_bind]
      rw [exec_instAt_ok h1 _ (o + 4) (by omega) d1, exec_instAt_ok h2 _ (P.Φ c (o + 4)) (by rw [h4.2]; omega) d2, d3]
      simp only [exec_pure]
      exact htail _
    · rw [if_neg hpop, if_neg hpop]
      simp only [exec_bind, exec_pure]
      exact htail false
  · simp only [exec_bind, exec_instAt_err h1, exec_instAt_err h2]
    exact ⟨trivial, h.toRM⟩

end

section
variable {ci : Nat → Nat} {c o : Nat} {I : Int → Int → Prop}

theorem rel_getIp_atC : RelE (R P ci c (Iat P c o)) (R P ci c (Iat P c o)) (RM P)
    (fun a b => a = (o : Int) ∧ b = (P.Φ c o : Int)) getIp getIp := by
  apply RelE.mk'
  intro s t h
  rw [exec_getIp, exec_getIp]
  exact ⟨⟨h.ip.2.1, h.ip.2.2⟩, h⟩

theorem rel_ccRest (hP : P.OK) (hnext : P.BB c (o + 3) ∧ P.Φ c (o + 3) = P.Φ c o + 3)
    {fa k : Nat} {fr : Option (List Addr)} (hk : P.Entry k) (na fl : Int) :
    RelQ (fun s t => R P ci c (Iat P c o) s t ∧ HasCell fa (Cell.fn k fr) s) (CallPost P) (RM P)
      (ccRest fa (P.cs[k]!) fr na fl) (ccRest fa (P.ct[k]!) fr na fl) := by
  unfold ccRest
  rw [hP.numParams k, hP.numLocals k, bindArgs_congr (hP.numParams k) (hP.variadic k)]
  refine RelQ.bindEq (RelE.frameL _ rel_getSp (Keeps.intro' (fun s h => h))) ?_
  intro sp
  refine RelQ.bindEq (RelE.frameL _ (rel_bindArgs _ _ _ _) (kp_bindArgs _ _ _ _)) ?_
  intro r
  cases r with
  | error e => exact callpost_err e (fun _ _ h => h.1.toRM)
  | ok u =>
    cases u
    refine RelQ.bindEq (RelE.frameL _ (rel_fillUndefined _ _) (kp_fillUndefined _ _)) ?_
    intro _
    refine RelQ.bind (RelE.frameL _ rel_curFrame (Keeps.intro' (fun s h => h))) ?_
    intro cf cf' hcf
    refine RelQ.bind (RelE.frameL _ rel_getIp_atC (Keeps.intro' (fun s h => h))) ?_
    intro a b hab
    obtain ⟨ha, hb⟩ := hab
    subst ha
    subst hb
    exact rel_ccBody hP hnext hk cf cf' hcf _ _ _ _

theorem rel_callCompiled (hP : P.OK) (hnext : P.BB c (o + 3) ∧ P.Φ c (o + 3) = P.Φ c o + 3) (fa : Addr) (na fl : Int) :
    RelQ (R P ci c (Iat P c o)) (CallPost P) (RM P) (callCompiled fa na fl) (callCompiled fa na fl) := by
  rw [callCompiled_eq]
  apply RelQ.mk'
  intro s t h
  rw [exec_bind, exec_bind, exec_fnCell, exec_fnCell, h.heap, h.codesS, h.codesT]
  cases hc : s.heap[fa]? with
  | none => exact ⟨rfl, h.toRM⟩
  | some x =>
    cases x with
    | fn k fr => exact (rel_ccRest hP hnext (h.fnok fa k fr hc) na fl).outcome ⟨h, hc⟩
    | _ => exact ⟨rfl, h.toRM⟩

theorem rel_callAny (hP : P.OK) (hnext : P.BB c (o + 3) ∧ P.Φ c (o + 3) = P.Φ c o + 3) (v : V) (na fl : Int) :
    RelQ (R P ci c (Iat P c o)) (CallPost P) (RM P) (callAny v na fl) (callAny v na fl) := by
  unfold callAny
  split
  · exact rel_callCompiled hP hnext _ _ _
  · rename_i hv
    exact rel_callObject hnext _ _ _ (fun a e => hv a e)

/-- what follows a call in CALL / CALLNAME -/
theorem rel_afterCall (hfail : FailOK P) (a b : Except OpErr Unit) :
    RelQ (CallPost P a b) (CtlPost P) (RM P)
      (match a with | .ok () => pure Ctl.next | .error e => failWith e)
      (match b with | .ok () => pure Ctl.next | .error e => failWith e) := by
  apply RelQ.assume
  intro s t h
  obtain ⟨hab, hRM, hRB⟩ := h
  subst hab
  cases a with
  | error e => exact (hfail e).pre (fun s' t' h' => by rw [h'.1, h'.2]; exact hRM)
  | ok u =>
    cases u
    exact RelQ.pure (fun s' t' h' => by rw [h'.1, h'.2]; exact ⟨rfl, hRM, fun _ => hRB rfl⟩)

end

/-! ### CALL and CALLNAME -/

theorem rel_execCall (hP : P.OK) (hfail : FailOK P) {ci : Nat → Nat} {c o : Nat} (hB : P.BB c o)
    (hop : (((P.cs[c]!).insts)[o]!).toNat = OpCall) :
    RelQ (R P ci c (Iat P c o)) (CtlPost P) (RM P) execCall execCall := by
  apply RelQ.assume
  intro s0 t0 h0
  obtain ⟨hw, hnext⟩ := plain2 hP h0.cok hB hop (by decide) opW_call (by decide)
  refine RelQ.pre ?_ (fun s t h => by rw [h.1, h.2]; exact h0)
  unfold execCall
  refine RelQ.bindEq (rel_opnd1 hw 1 1 rfl (by decide)) ?_
  intro numArgs
  refine RelQ.bindEq (rel_opnd1 hw 2 2 rfl (by decide)) ?_
  intro flags
  refine RelQ.bindEq rel_getSp ?_
  intro sp
  refine RelQ.bindEq (rel_stackGet _) ?_
  intro callee
  exact RelQ.bindQ (rel_callAny hP hnext _ _ _) (rel_afterCall hfail)

/-- CALLNAME behind the `host` test -/
def cnRest (obj name : V) (numArgs flags : Int) : M Ctl := do
  match (← vIndexGet obj name) with
  | .error e => failWith e
  | .ok v =>
    stackSet ((← getSp) - numArgs - 1) v
    match (← callAny v numArgs flags) with
    | .ok () => return .next
    | .error e => failWith e

theorem execCallName_eq : execCallName = (do
    let numArgs ← opnd1 1
    let flags ← opnd1 2
    let sp ← getSp
    let obj ← stackGet (sp - (numArgs : Int) - 2)
    let name ← stackGet (sp - 1)
    setSp (sp - 1)
    stackSet (sp - 1) .nil
    match obj with
    | .host _ => do
      let r ← (unsupported "CallName on a host object" : M Unit)
      cnRest obj name numArgs flags
    | _ => cnRest obj name numArgs flags) := rfl

theorem rel_execCallName (hP : P.OK) (hfail : FailOK P) {ci : Nat → Nat} {c o : Nat} (hB : P.BB c o)
    (hop : (((P.cs[c]!).insts)[o]!).toNat = OpCallName) :
    RelQ (R P ci c (Iat P c o)) (CtlPost P) (RM P) execCallName execCallName := by
  apply RelQ.assume
  intro s0 t0 h0
  obtain ⟨hw, hnext⟩ := plain2 hP h0.cok hB hop (by decide) opW_callName (by decide)
  refine RelQ.pre ?_ (fun s t h => by rw [h.1, h.2]; exact h0)
  have hrest : ∀ obj name na fl, RelQ (R P ci c (Iat P c o)) (CtlPost P) (RM P)
      (cnRest obj name na fl) (cnRest obj name na fl) := by
    intro obj name na fl
    unfold cnRest
    refine RelQ.bindEq (rel_vIndexGet _ _) ?_
    intro r
    cases r with
    | error e => exact (hfail e).pre (fun _ _ h => h.toRM)
    | ok v =>
      refine RelQ.bindEq rel_getSp ?_
      intro sp
      refine RelQ.bindEq (rel_stackSet _ _) ?_
      intro _
      exact RelQ.bindQ (rel_callAny hP hnext _ _ _) (rel_afterCall hfail)
  rw [execCallName_eq]
  refine RelQ.bindEq (rel_opnd1 hw 1 1 rfl (by decide)) ?_
  intro numArgs
  refine RelQ.bindEq (rel_opnd1 hw 2 2 rfl (by decide)) ?_
  intro flags
  refine RelQ.bindEq rel_getSp ?_
  intro sp
  refine RelQ.bindEq (rel_stackGet _) ?_
  intro obj
  refine RelQ.bindEq (rel_stackGet _) ?_
  intro name
  refine RelQ.bindEq (rel_setSp _) ?_
  intro _
  refine RelQ.bindEq (rel_stackSet _ _) ?_
  intro _
  split
  · exact RelQ.bind (RelE.unsupported (B := fun _ _ => False) (VR := Eq) _ (fun _ _ h => h.toRM))
      (fun _ _ _ => RelQ.ofFalse)
  · exact hrest _ _ _ _

/-! ### RETURN -/

/-- back in the parent frame -/
def retPop (fi : Int) : M Ctl := do
  modS fun s => { s with frameIndex := s.frameIndex - 1, curFrame := (fi - 2).toNat }
  let parent ← curFrame
  setIp parent.ip
  match parent.fn with
  | none => panic "runtime error: invalid memory address or nil pointer dereference"
  | some _ => return .next

def retFinish : M Ctl := do
  let s ← getS
  if s.frameIndex == 1 then return .ret
  clearCurrentFrame
  let pi := s.frameIndex - 2
  if pi < 0 || pi ≥ (frameSize : Int) then
    panic s!"runtime error: index out of range [{pi}] with length {frameSize}"
  retPop s.frameIndex

def retRest2 (sp bp : Int) : M Ctl := do
  clearDown (sp - 1) bp
  setSp bp
  retFinish

def retRest (numRet : Nat) (discard : Bool) (bp : Int) : M Ctl := do
  let sp ← getSp
  if numRet == 1 && !discard then
    stackSet (bp - 1) (← stackGet (sp - 1))
  else
    stackSet (bp - 1) .undefined
  retRest2 sp bp

theorem execReturn_eq : execReturn = (do
    let numRet ← opnd1 1
    let f ← curFrame
    if f.bp == 0 then
      match f.fn with
      | none => do
        let r ← (panic "runtime error: invalid memory address or nil pointer dereference" : M Unit)
        retRest numRet f.discard f.bp
      | some fa => do
        let x ← fnCell fa
        retRest numRet f.discard ((x.1.numLocals : Int) + 1)
    else retRest numRet f.discard f.bp) := rfl

def clearS (s : State) : State :=
  { s with frames := s.frames.modify s.curFrame (fun f => { f with free := none, fn := none, handlers := none }) }

def popS (fi : Int) (s : State) : State :=
  { s with frameIndex := s.frameIndex - 1, curFrame := (fi - 2).toNat, ip := (s.frames[(fi - 2).toNat]!).ip }

theorem exec_retPop (fi : Int) (s : State) : exec (retPop fi) s =
    match (s.frames[(fi - 2).toNat]!).fn with
    | none => (.error (.panic "runtime error: invalid memory address or nil pointer dereference"), popS fi s)
    | some _ => (.ok .next, popS fi s) := by
  simp only [retPop, exec_bind, exec_modS, exec_curFrame, exec_setIp]
  cases h : (s.frames[(fi - 2).toNat]!).fn <;> rfl

theorem R_pop {ci : Nat → Nat} {c : Nat} {I : Int → Int → Prop} {s t : State} (h : R P ci c I s t)
    (h1 : s.frameIndex ≠ 1) :
    ∃ o', R P ci (ci (s.curFrame - 1)) (Ibnd P (ci (s.curFrame - 1)) o')
      (popS s.frameIndex (clearS s)) (popS s.frameIndex (clearS t)) := by
  have hlink := h.link
  have hcur := h.cur
  have hpos : 1 ≤ s.curFrame := by omega
  have hn : (s.frameIndex - 2).toNat = s.curFrame - 1 := by omega
  have hne : ¬ (s.curFrame = s.curFrame - 1) := by omega
  have hf := h.frames (s.curFrame - 1) (by omega)
  obtain ⟨o', hb, ho1, ho2⟩ := hf.ip (by omega)
  refine ⟨o', ?_⟩
  unfold popS clearS
  rw [hn, h.curFrame]
  exact {
    stack := h.stack, sp := h.sp, heap := h.heap, codesS := h.codesS, codesT := h.codesT, consts := h.consts,
    mainFn := h.mainFn, numModules := h.numModules, globals := h.globals, modules := h.modules, err := h.err,
    abort := h.abort, steps := h.steps, traceOn := h.traceOn, noPanic := h.noPanic,
    ip := by
      refine ⟨hb, ?_, ?_⟩
      · simp only [getElem!_modify, hne, false_and, if_false]; exact ho1
      · simp only [getElem!_modify, hne, false_and, if_false]; exact ho2
    curFrame := rfl,
    frameIndex := by show t.frameIndex - 1 = s.frameIndex - 1; rw [h.frameIndex]
    link := by show ((s.curFrame - 1 : Nat) : Int) + 1 = s.frameIndex - 1; omega
    fsS := by simp [h.fsS], fsT := by simp [h.fsT],
    cur := by show s.curFrame - 1 < frameSize; omega
    curc := rfl, cok := h.cis _ (by omega),
    cis := fun i hi => h.cis i (by have : i ≤ s.curFrame - 1 := hi; omega)
    frames := by
      intro i hi
      have hfi := h.frames i hi
      simp only [getElem!_modify, h.fsS, h.fsT, hi, and_true]
      by_cases h2 : s.curFrame = i
      · subst h2
        simp only [if_true]
        exact { fn := rfl, free := rfl, bp := hfi.bp, discard := hfi.discard, hs := trivial,
                ip := fun hlt => by have : s.curFrame < s.curFrame - 1 := hlt; omega }
      · simp only [h2, if_false]
        exact { hfi with ip := fun hlt => hfi.ip (by have : i < s.curFrame - 1 := hlt; omega) }
    code := by
      intro i hi a ha
      have hi' : i ≤ s.curFrame - 1 := hi
      have h2 : ¬ (s.curFrame = i) := by omega
      simp only [getElem!_modify, h2, false_and, if_false] at ha
      exact h.code i (by omega) a ha
    fnok := h.fnok }

section
variable {ci : Nat → Nat} {c : Nat} {I : Int → Int → Prop}

theorem rel_retFinish : RelQ (R P ci c I) (CtlPost P) (RM P) retFinish retFinish := by
  apply RelQ.mk'
  intro s t h
  simp only [retFinish, exec_bind, exec_getS]
  rw [h.frameIndex]
  by_cases h1 : (s.frameIndex == 1) = true
  · rw [if_pos h1]
    exact ⟨rfl, h.toRM, fun e => by cases e⟩
  · rw [if_neg h1]
    have h1' : s.frameIndex ≠ 1 := by simpa using h1
    have hlink := h.link
    have hcur := h.cur
    have hpi : ¬ ((decide (s.frameIndex - 2 < 0) || decide (s.frameIndex - 2 ≥ (frameSize : Int))) = true) := by
      simp only [Bool.or_eq_true, decide_eq_true_eq, not_or, Int.not_lt, ge_iff_le, Int.not_le]
      unfold frameSize at hcur ⊢
      omega
    simp only [exec_bind, exec_clearCurrentFrame]
    rw [if_neg hpi, exec_retPop, exec_retPop]
    obtain ⟨o', hR⟩ := R_pop h h1'
    have hfn := (hR.frames _ hR.cur).fn
    have hfn' : ((clearS t).frames[(s.frameIndex - 2).toNat]!).fn = ((clearS s).frames[(s.frameIndex - 2).toNat]!).fn := hfn
    show Outcome (CtlPost P) (RM P)
      (match ((clearS s).frames[(s.frameIndex - 2).toNat]!).fn with
        | none => (.error (.panic "runtime error: invalid memory address or nil pointer dereference"), popS s.frameIndex (clearS s))
        | some _ => (.ok .next, popS s.frameIndex (clearS s)))
      (match ((clearS t).frames[(s.frameIndex - 2).toNat]!).fn with
        | none => (.error (.panic "runtime error: invalid memory address or nil pointer dereference"), popS s.frameIndex (clearS t))
        | some _ => (.ok .next, popS s.frameIndex (clearS t)))
    rw [hfn']
    cases ((clearS s).frames[(s.frameIndex - 2).toNat]!).fn with
    | none => exact ⟨rfl, hR.toRM⟩
    | some a => exact ⟨rfl, hR.toRM, fun _ => ⟨ci, _, o', hR⟩⟩

theorem rel_retRest (numRet : Nat) (d : Bool) (bp : Int) :
    RelQ (R P ci c I) (CtlPost P) (RM P) (retRest numRet d bp) (retRest numRet d bp) := by
  have h2 : ∀ sp, RelQ (R P ci c I) (CtlPost P) (RM P) (retRest2 sp bp) (retRest2 sp bp) := by
    intro sp
    unfold retRest2
    refine RelQ.bindEq (rel_clearDown _ _) ?_
    intro _
    refine RelQ.bindEq (rel_setSp _) ?_
    intro _
    exact rel_retFinish
  unfold retRest
  refine RelQ.bindEq rel_getSp ?_
  intro sp
  dsimp only
  refine RelQ.ite ?_ ?_
  · refine RelQ.bindEq (rel_stackGet _) ?_
    intro v
    refine RelQ.bindEq (rel_stackSet _ _) ?_
    intro _
    exact h2 sp
  · refine RelQ.bindEq (rel_stackSet _ _) ?_
    intro _
    exact h2 sp

end

theorem rel_execReturn (hP : P.OK) {ci : Nat → Nat} {c o : Nat} (hB : P.BB c o)
    (hop : (((P.cs[c]!).insts)[o]!).toNat = OpReturn) :
    RelQ (R P ci c (Iat P c o)) (CtlPost P) (RM P) execReturn execReturn := by
  apply RelQ.assume
  intro s0 t0 h0
  have hw : Win (P.cs[c]!).insts (P.ct[c]!).insts (P.Φ c) o 1 := by
    have := ((hP.rel c h0.cok).plain o hB (by rw [hop]; decide)).1
    rw [hop, opW_return] at this
    exact this
  refine RelQ.pre ?_ (fun s t h => by rw [h.1, h.2]; exact h0)
  rw [execReturn_eq]
  refine RelQ.bindEq (rel_opnd1 hw 1 1 rfl (by decide)) ?_
  intro numRet
  refine RelQ.bind rel_curFrame ?_
  intro f g hfg
  rw [hfg.bp, hfg.fn, hfg.discard]
  refine RelQ.ite ?_ (rel_retRest _ _ _)
  split
  · exact RelQ.panic_bind _ (fun _ _ h => h.toRM) _ _
  · rename_i fa _
    apply RelQ.mk'
    intro s t h
    rw [exec_bind, exec_bind, exec_fnCell, exec_fnCell, h.heap, h.codesS, h.codesT]
    cases hc : s.heap[fa]? with
    | none => exact ⟨rfl, h.toRM⟩
    | some x =>
      cases x with
      | fn k fr =>
        simp only
        rw [hP.numLocals k]
        exact (rel_retRest _ _ _).outcome h
      | _ => exact ⟨rfl, h.toRM⟩

end UgoVerif.VM.Reloc
