import UgoVerif.Proofs.CompileShiftMain
/-
  C10: `compile_append` for fragments whose later parts are jump-free at their top level.
-/
namespace UgoVerif.Compile
open UgoVerif UgoVerif.Go UgoVerif.Ast

theorem compileStmts_nil : compileStmts [] = (pure () : CM Unit) := by unfold compileStmts; rfl
theorem compileStmts_cons (st : Stmt) (r : List Stmt) :
    compileStmts (st :: r) = (do compileStmt st; compileStmts r) := by
  conv => lhs; unfold compileStmts

/-- compiling a concatenation is compiling the parts one after the other in ONE compiler state
    (same tables, same constant pool, same instruction stream) -/
theorem compileStmts_append : ∀ (f₁ f₂ : List Stmt),
    compileStmts (f₁ ++ f₂) = (do compileStmts f₁; compileStmts f₂)
  | [], f₂ => by simp [compileStmts_nil]
  | st :: r, f₂ => by
    rw [List.cons_append, compileStmts_cons, compileStmts_cons, compileStmts_append r f₂]
    simp [bind_assoc]

/-- the compiler state with an empty instruction stream: what the session's next `compileScript`
    starts from (same tables, same constants; fresh loops / try index are those of the top level) -/
def freshStream (s : CState) : CState := { s with insts := #[], sourceMap := [] }

theorem withPre_freshStream (s : CState) : withPre s.insts s.sourceMap (freshStream s) = s := by
  simp [withPre, freshStream]

/-- **compile_append_partial** (compiler level).  Let `f₁` be ANY statement list that compiles from
    `s` to the state `s₁`, and `f₂` a list that is jump-free at its top level (`jfSs`).  Compiling
    `f₁ ++ f₂` from `s` and compiling `f₂` alone from `s₁` with an emptied instruction stream
    (`freshStream s₁`: what the next fragment of a session starts from) relate by `EquiOut`:
    * same outcome (the same error, position and text included, or both succeed);
    * on success the batch state is the fragment's final state with `s₁.insts` in front of its
      instruction stream — same tables, same constant pool, same bytes appended, no operand
      relocated; on an error tables and constant pool agree. -/
theorem compile_append_partial (s s₁ : CState) (f₁ f₂ : List Stmt) (hjf : jfSs f₂ = true)
    (h₁ : runCM (compileStmts f₁) s = (.ok (), s₁)) :
    EquiOut s₁.insts (runCM (compileStmts f₂) (freshStream s₁)) (runCM (compileStmts (f₁ ++ f₂)) s) := by
  rw [compileStmts_append, runCM_bind, h₁]
  simp only
  have := equi_compileStmts f₂ hjf s₁.insts s₁.sourceMap (freshStream s₁)
  rwa [withPre_freshStream] at this

/-- readable form of the success case -/
theorem compile_append_ok (s s₁ t : CState) (f₁ f₂ : List Stmt) (hjf : jfSs f₂ = true)
    (h₁ : runCM (compileStmts f₁) s = (.ok (), s₁))
    (h₂ : runCM (compileStmts f₂) (freshStream s₁) = (.ok (), t)) :
    ∃ M, runCM (compileStmts (f₁ ++ f₂)) s = (.ok (), { t with insts := s₁.insts ++ t.insts, sourceMap := M }) := by
  have h := compile_append_partial s s₁ f₁ f₂ hjf h₁
  rw [h₂] at h
  unfold EquiOut at h
  cases hr : runCM (compileStmts (f₁ ++ f₂)) s with
  | mk r t' =>
    rw [hr] at h
    cases r with
    | ok a =>
      obtain ⟨_, M', ht⟩ := h
      exact ⟨M', by rw [ht]⟩
    | error e => exact h.elim

/-- the fragments of a session compiled one after the other by the compiler model, each from an
    emptied instruction stream and from the tables and constants the previous one left: the
    streams they produce (before the `Bytecode()` epilogue) and the final state -/
def compileChain : CState → List (List Stmt) → Option (List (Array UInt8) × CState)
  | s, [] => some ([], s)
  | s, f :: fs =>
    match runCM (compileStmts f) (freshStream s) with
    | (.ok (), t) =>
      match compileChain t fs with
      | some (ds, u) => some (t.insts :: ds, u)
      | none => none
    | _ => none

/-- **eval_split_partial**, bytecode level.  If the fragments `f :: fs` compile one after the other
    (`compileChain`) to the streams `Δ₀, Δ₁, …`, and all fragments after the first are jump-free at
    their top level, then the concatenation compiles, from the same start, to the stream
    `Δ₀ ++ Δ₁ ++ …` with the same final tables and constant pool: the main function of fragment `k`
    is, byte for byte and without relocation, the part of the batch main function behind the first
    `k` streams. -/
theorem eval_split_chain : ∀ (fs : List (List Stmt)) (s : CState) (done : List Stmt) (s₁ : CState),
    runCM (compileStmts done) s = (.ok (), s₁) → (∀ f ∈ fs, jfSs f = true) →
    ∀ ds u, compileChain s₁ fs = some (ds, u) →
    ∃ M, runCM (compileStmts (done ++ fs.flatten)) s =
      (.ok (), { u with insts := ds.foldl (· ++ ·) s₁.insts, sourceMap := M })
  | [], s, done, s₁, h₁, _, ds, u, hc => by
    simp only [compileChain, Option.some.injEq, Prod.mk.injEq] at hc
    obtain ⟨rfl, rfl⟩ := hc
    exact ⟨s₁.sourceMap, by simpa using h₁⟩
  | f :: fs, s, done, s₁, h₁, hjf, ds, u, hc => by
    simp only [compileChain] at hc
    split at hc
    · rename_i t ht
      split at hc
      · rename_i ds' u' hc'
        simp only [Option.some.injEq, Prod.mk.injEq] at hc
        obtain ⟨rfl, rfl⟩ := hc
        obtain ⟨M, hrun⟩ := compile_append_ok s s₁ t done f (hjf f (by simp)) h₁ ht
        have ih := eval_split_chain fs s (done ++ f) _ hrun (fun g hg => hjf g (by simp [hg]))
        -- the chain continues from `t`, which differs from the batch state only in stream and source map
        have hfresh : freshStream ({ t with insts := s₁.insts ++ t.insts, sourceMap := M } : CState) = freshStream t := rfl
        have hchain : ∀ (gs : List (List Stmt)) (a b : CState), freshStream a = freshStream b →
            compileChain a gs = some (ds', u') → gs ≠ [] → compileChain b gs = some (ds', u') := by
          intro gs a b hab hca hne
          cases gs with
          | nil => exact absurd rfl hne
          | cons g gs' => simpa [compileChain, hab] using hca
        cases fs with
        | nil =>
          simp only [compileChain, Option.some.injEq, Prod.mk.injEq] at hc'
          obtain ⟨rfl, rfl⟩ := hc'
          refine ⟨M, ?_⟩
          simpa using hrun
        | cons g gs =>
          have hc2 := hchain (g :: gs) t _ hfresh.symm hc' (by simp)
          obtain ⟨M2, h2⟩ := ih ds' u' hc2
          refine ⟨M2, ?_⟩
          simpa [List.append_assoc] using h2
      · cases hc
    · cases hc

end UgoVerif.Compile
