import UgoVerif.Proofs.CompSimCompile
import UgoVerif.Proofs.CompSimVM
import UgoVerif.Proofs.CompSimScalar
import UgoVerif.Model.Eval
/-
  C02, compile ⊑ Sem, first slice — the simulation for expressions of the fragment `ExprF`:
  induction over the expression, one lemma per compile case.
-/
set_option linter.unusedSimpArgs false
set_option linter.unusedVariables false
namespace UgoVerif.CompSim
open UgoVerif UgoVerif.Go UgoVerif.Ast UgoVerif.VM UgoVerif.Proofs.ModCache UgoVerif.Proofs.VMExec
open UgoVerif.Compile (CState runCM compileExpr IsPre Pre patch)

/-! ### the hypotheses of the simulation -/

/-- the final code has the bytes of `insts` on `[p, insts.size)` -/
def CodeHas (code : Code) (insts : Array UInt8) (p : Nat) : Prop :=
  ∀ i, p ≤ i → i < insts.size → code.insts[i]? = insts[i]?

/-- the VM's constants are the runtime objects of the compiler's constant pool -/
def ConstsOK (K : Array Compile.Const) (consts : Array V) : Prop :=
  ∀ (i : Nat) (cv : Compile.CVal), K[i]? = some (.val cv) → consts[i]? = some (Eval.scalarOfCVal cv)

/-- every variable of `σ` lives in a box on the heap of the reference semantics (state `t`) and in
    the local slot the compiler gave it on the VM's stack (state `s`), with the same value, a scalar
    (so the slot is not captured: it holds no `*ObjectPtr`) -/
def LocalsOK (σ : String → Option Nat) (env : Sem.Env) (t s : State) (bp lo : Nat) : Prop :=
  ∀ (n : String) (i : Nat), σ n = some i →
    ∃ (a : Addr) (v : V), Sem.lookupEnv n env = some a ∧ t.heap[a]? = some (.box v) ∧ bp + i < lo ∧
      s.stack[bp + i]! = v ∧ Scalar v

structure VMOk (K : Array Compile.Const) (code : Code) (bp lo : Nat) (s : State) : Prop where
  abort : s.abort = false
  size : s.stack.size = 2048
  code : CodeAt s code
  bp : (s.frames[s.curFrame]!).bp = (bp : Int)
  consts : ConstsOK K s.consts
  lo : (lo : Int) ≤ s.sp

theorem CodeAt.of_keep {s s' : State} {code : Code} (h : CodeAt s code) (hs : Same s s')
    (hk : ∀ (a : Nat) (c : Cell), s.heap[a]? = some c → s'.heap[a]? = some c) : CodeAt s' code := by
  obtain ⟨fa, c, fr, h1, h2, h3⟩ := h
  exact ⟨fa, c, fr, by rw [hs.frames, hs.curFrame]; exact h1, hk _ _ h2, by rw [hs.codes]; exact h3⟩

/-- the invariants survive a stretch of execution that keeps the control part, the VM heap and the
    stack below `n ≥ lo` -/
theorem carry {K : Array Compile.Const} {code : Code} {bp lo : Nat} {σ : String → Option Nat} {env : Sem.Env}
    {t s s' : State} (hvm : VMOk K code bp lo s) (hloc : LocalsOK σ env t s bp lo)
    (hs : Same s s') (hk : s'.heap = s.heap)
    {n : Nat} (hag : AgreeBelow n s.stack s'.stack) (hn : lo ≤ n) (hsp : (lo : Int) ≤ s'.sp) :
    VMOk K code bp lo s' ∧ LocalsOK σ env t s' bp lo := by
  refine ⟨⟨by rw [hs.abort]; exact hvm.abort, by rw [hag.1]; exact hvm.size, hvm.code.of_same hs hk,
    by rw [hs.frames, hs.curFrame]; exact hvm.bp, by rw [hs.consts]; exact hvm.consts, hsp⟩, ?_⟩
  intro nm i hi
  obtain ⟨a, v, h1, h2, h3, h4, h5⟩ := hloc nm i hi
  exact ⟨a, v, h1, h2, h3, by rw [hag.2 _ (by omega)]; exact h4, h5⟩

/-- the VM part of a value outcome: `v` is pushed, `ip` stands at the end `q` of the expression's
    code, the VM heap and everything below `sp` is as before -/
def OutV (F : FloatOps) (s : State) (q : Nat) (v : V) : Prop :=
  ∃ s', Reach F s s' ∧ Same s s' ∧ s'.heap = s.heap ∧ s'.ip + 1 = (q : Int) ∧ s'.sp = s.sp + 1 ∧
      AgreeBelow s.sp.toNat s.stack s'.stack ∧ s'.stack[s.sp.toNat]! = v

/-- what the VM does when the reference semantics, started in `t`, returns `r` in state `t1`: a
    value is a scalar, the reference state is unchanged and the VM pushes the value (`OutV`); an
    error takes the VM to `failWith oe` with the VM heap unchanged, `oe` is a `named` error and the
    reference semantics' thrown object is what `rtErrOfOpErr oe` makes on its own heap `t` -/
def Outcome (F : FloatOps) (s t t1 : State) (q : Nat) : Sem.ER → Prop
  | .val v => t = t1 ∧ Scalar v ∧ OutV F s q v
  | .thr a => ∃ (u : State) (oe : OpErr), ReachFail F s oe u ∧ (∃ n m, oe = .named n m) ∧ Same s u ∧ u.heap = s.heap ∧
      AgreeBelow s.sp.toNat s.stack u.stack ∧ s.sp ≤ u.sp ∧ exec (rtErrOfOpErr oe) t = (.ok a, t1)

theorem push_facts {s s' : State} {v : V} (hsz : s.stack.size = 2048) (hsp : 0 ≤ s.sp ∧ s.sp < 2048)
    (h : s'.stack = s.stack.set! s.sp.toNat v) :
    AgreeBelow s.sp.toNat s.stack s'.stack ∧ s'.stack[s.sp.toNat]! = v := by
  rw [h]
  exact ⟨(AgreeBelow.refl _ _).set _ _ (Nat.le_refl _), set!_get_eq _ _ _ (by rw [hsz]; omega)⟩

/-! ### literals -/

theorem sim_emitConstant (F : FloatOps) (pos : Pos) (k : Compile.CVal) (cs cs' : CState)
    (hc : runCM (Compile.emitConstant pos k) cs = (.ok (), cs')) :
    Shape cs cs' ∧ ∀ (K : Array Compile.Const) (code : Code) (bp lo : Nat) (s : State),
      IsPre cs'.constants K → CodeHas code cs'.insts cs.insts.size → VMOk K code bp lo s →
      s.ip + 1 = (cs.insts.size : Int) → s.sp + 1 ≤ 2048 →
      OutV F s cs'.insts.size (Eval.scalarOfCVal k) := by
  unfold Compile.emitConstant at hc
  obtain ⟨i, cs1, h1, h2⟩ := bind_inv hc
  have sh1 := Shape.of_addConstant h1
  have sh2 := Shape.of_emit_ h2
  refine ⟨sh1.trans sh2, ?_⟩
  intro K code bp lo s hK hcode hvm hip hsp
  obtain ⟨e1, _, hki⟩ := addConstant_inv h1
  obtain ⟨bs, hbs, e2⟩ := emit__inv h2
  obtain ⟨hi0, b1, b2, rfl, hdec⟩ := mk_w2 Compile.OpConstant rfl _ _ hbs
  have hins1 : cs1.insts = cs.insts := by rw [e1]
  have hsz : cs'.insts.size = cs.insts.size + 3 := by rw [e2]; simp [hins1]
  have hb : ∀ k (hk : k < 3), code.insts[cs.insts.size + k]? = [UInt8.ofNat Compile.OpConstant, b1, b2][k]? := by
    intro k hk
    rw [hcode _ (by omega) (by omega), e2]
    show (cs1.insts ++ _)[_]? = _
    rw [hins1, emit_bytes _ _ (by simpa using hk)]
  have hkc : s.consts[b2.toNat ||| (b1.toNat <<< 8)]? = some (Eval.scalarOfCVal k) := by
    rw [hdec]
    apply hvm.consts
    have : cs'.constants[i]? = some (.val k) := by rw [e2]; exact hki
    simpa using IsPre.get hK this
  have hsp0 : 0 ≤ s.sp ∧ s.sp < 2048 := by have := hvm.lo; omega
  obtain ⟨s', hrun, hsame, hheap, hip', hsp', hst⟩ := step_const F hvm.code cs.insts.size hip _ b1 b2
    (by simpa using hb 0 (by omega)) rfl (by simpa using hb 1 (by omega)) (by simpa using hb 2 (by omega)) _ hkc hsp0
  obtain ⟨hag, hget⟩ := push_facts hvm.size hsp0 hst
  exact ⟨s', Reach.step hvm.abort hrun, hsame, hheap, by rw [hip', hsz]; push_cast; omega, hsp', hag, hget⟩


/-- NULL / TRUE / FALSE -/
theorem sim_push0 (F : FloatOps) (pos : Pos) (op : Nat) (v : V)
    (hop : (op = 21 ∧ v = .undefined) ∨ (op = 41 ∧ v = .bool true) ∨ (op = 42 ∧ v = .bool false))
    (cs cs' : CState) (hc : runCM (Compile.emit_ pos op []) cs = (.ok (), cs')) :
    Shape cs cs' ∧ ∀ (K : Array Compile.Const) (code : Code) (bp lo : Nat) (s : State),
      CodeHas code cs'.insts cs.insts.size → VMOk K code bp lo s →
      s.ip + 1 = (cs.insts.size : Int) → s.sp + 1 ≤ 2048 →
      OutV F s cs'.insts.size v := by
  refine ⟨Shape.of_emit_ hc, ?_⟩
  intro K code bp lo s hcode hvm hip hsp
  obtain ⟨bs, hbs, e2⟩ := emit__inv hc
  have hbs' : bs = [UInt8.ofNat op] := by
    rcases hop with ⟨rfl, _⟩ | ⟨rfl, _⟩ | ⟨rfl, _⟩
    · have : Compile.makeInstruction 21 [] = .ok [UInt8.ofNat 21] := rfl
      rw [this] at hbs; injection hbs with h; exact h.symm
    · have : Compile.makeInstruction 41 [] = .ok [UInt8.ofNat 41] := rfl
      rw [this] at hbs; injection hbs with h; exact h.symm
    · have : Compile.makeInstruction 42 [] = .ok [UInt8.ofNat 42] := rfl
      rw [this] at hbs; injection hbs with h; exact h.symm
  subst hbs'
  have hsz : cs'.insts.size = cs.insts.size + 1 := by rw [e2]; simp
  have hb : code.insts[cs.insts.size]? = some (UInt8.ofNat op) := by
    rw [hcode _ (Nat.le_refl _) (by omega), e2]
    exact emit_bytes (cs := cs) [UInt8.ofNat op] 0 (by simp)
  have hsp0 : 0 ≤ s.sp ∧ s.sp < 2048 := by have := hvm.lo; omega
  have hop' : ((UInt8.ofNat op).toNat = 21 ∧ v = .undefined) ∨ ((UInt8.ofNat op).toNat = 41 ∧ v = .bool true) ∨
      ((UInt8.ofNat op).toNat = 42 ∧ v = .bool false) := by
    rcases hop with ⟨rfl, h⟩ | ⟨rfl, h⟩ | ⟨rfl, h⟩
    · exact .inl ⟨rfl, h⟩
    · exact .inr (.inl ⟨rfl, h⟩)
    · exact .inr (.inr ⟨rfl, h⟩)
  obtain ⟨s', hrun, hsame, hheap, hip', hsp', hst⟩ := step_push0 F hvm.code cs.insts.size hip _ hb v hop' hsp0
  obtain ⟨hag, hget⟩ := push_facts hvm.size hsp0 hst
  exact ⟨s', Reach.step hvm.abort hrun, hsame, hheap, by rw [hip', hsz]; push_cast; rfl, hsp', hag, hget⟩

/-! ### inversion of runs of the reference semantics -/

theorem exec_bind_inv {α β} {m : M α} {f : α → M β} {s s' : State} {b : β}
    (h : exec (m >>= f) s = (.ok b, s')) : ∃ a s1, exec m s = (.ok a, s1) ∧ exec (f a) s1 = (.ok b, s') := by
  rw [exec_bind] at h
  cases hr : exec m s with
  | mk r s1 =>
    rw [hr] at h
    cases r with
    | ok a => exact ⟨a, s1, rfl, h⟩
    | error e => simp at h

theorem exec_pure_inv {α} {a b : α} {s s' : State} (h : exec (pure a : M α) s = (.ok b, s')) : b = a ∧ s' = s := by
  rw [exec_pure] at h
  simp only [Prod.mk.injEq, Except.ok.injEq] at h
  exact ⟨h.1.symm, h.2.symm⟩

/-- the error raised by the reference semantics is `rtErrOfOpErr` on its state -/
theorem raise_inv {oe : OpErr} {tx t1 : State} {r : Sem.ER} (h : exec (raiseF oe) tx = (.ok r, t1)) :
    ∃ a, r = .thr a ∧ exec (rtErrOfOpErr oe) tx = (.ok a, t1) := by
  unfold raiseF at h
  obtain ⟨a, t0, h1, h2⟩ := exec_bind_inv h
  obtain ⟨rfl, rfl⟩ := exec_pure_inv h2
  exact ⟨a, rfl, h1⟩

theorem scalar_ofCVal (k : Compile.CVal) : Scalar (Eval.scalarOfCVal k) := by
  cases k <;> trivial

theorem CodeHas.sub {code : Code} {X Y : Array UInt8} {p p' : Nat} (h : CodeHas code X p) (hp : Pre Y X) (hle : p ≤ p') :
    CodeHas code Y p' := by
  intro i h1 h2
  rw [h i (by omega) (by have := hp.1; omega), hp.2 i h2]

/-- an error inside a sub-expression that started later -/
theorem Outcome.thr_via {F : FloatOps} {s s1 t t1 : State} {q q' : Nat} {a : Addr}
    (hr : Reach F s s1) (hs : Same s s1) (hh : s1.heap = s.heap) (hag : AgreeBelow s.sp.toNat s.stack s1.stack)
    (hsp : s.sp ≤ s1.sp) (h0 : 0 ≤ s.sp) (h : Outcome F s1 t t1 q (.thr a)) : Outcome F s t t1 q' (.thr a) := by
  obtain ⟨u, oe, hf, hnm, hsu, hhu, hagu, hspu, hrest⟩ := h
  exact ⟨u, oe, ReachFail.of_reach hr hf, hnm, hs.trans hsu, by rw [hhu, hh], hag.trans (hagu.mono (by omega)), by omega, hrest⟩


/-! ### the simulation statement -/

/-- `e`, compiled from `cs` to `cs'`: whenever the final code has the emitted bytes, the VM stands
    in front of them with the locals related to the environment and enough stack, and the
    reference semantics returns `r`, the VM does what `Outcome` says -/
def SimAt (F : FloatOps) (e : Expr) (cs cs' : CState) : Prop :=
  ∀ (K : Array Compile.Const) (code : Code) (bp lo : Nat) (env : Sem.Env) (s t : State) (fuel : Nat)
    (r : Sem.ER) (t1 : State),
    IsPre cs'.constants K → CodeHas code cs'.insts cs.insts.size → VMOk K code bp lo s →
    s.ip + 1 = (cs.insts.size : Int) → s.sp + need e ≤ 2048 →
    LocalsOK (localIdx cs) env t s bp lo → exec (evalF F fuel env e) t = (.ok r, t1) →
    Outcome F s t t1 cs'.insts.size r

def Good (F : FloatOps) (e : Expr) : Prop :=
  ∀ cs cs' : CState, runCM (compileExpr e) cs = (.ok (), cs') → ExprF (localIdx cs) e = true →
    Shape cs cs' ∧ SimAt F e cs cs'

theorem evalF_zero_ne {F : FloatOps} {env : Sem.Env} {e : Expr} {t t1 : State} {r : Sem.ER}
    (h : exec (evalF F 0 env e) t = (.ok r, t1)) : False := by
  unfold evalF at h
  simp [VM.unsupported, exec, ExceptT.run, throw, throwThe, MonadExceptOf.throw, ExceptT.mk, StateT.run, pure, StateT.pure] at h

/-- a literal that goes through the constant pool -/
theorem good_const (F : FloatOps) (e : Expr) (pos : Pos) (k : Compile.CVal)
    (hce : compileExpr e = Compile.emitConstant pos k)
    (hev : ∀ fuel env, evalF F (fuel + 1) env e = pure (.val (Eval.scalarOfCVal k))) (hn : need e = 1) : Good F e := by
  intro cs cs' hc hF
  rw [hce] at hc
  obtain ⟨sh, hsim⟩ := sim_emitConstant F pos k cs cs' hc
  refine ⟨sh, ?_⟩
  intro K code bp lo env s t fuel r t1 hK hcode hvm hip hsp hloc hsem
  cases fuel with
  | zero => exact (evalF_zero_ne hsem).elim
  | succ fuel =>
    rw [hev] at hsem
    obtain ⟨rfl, rfl⟩ := exec_pure_inv hsem
    exact ⟨rfl, scalar_ofCVal k, hsim K code bp lo s hK hcode hvm hip (by omega)⟩

theorem good_push0 (F : FloatOps) (e : Expr) (pos : Pos) (op : Nat) (v : V)
    (hop : (op = 21 ∧ v = .undefined) ∨ (op = 41 ∧ v = .bool true) ∨ (op = 42 ∧ v = .bool false))
    (hce : compileExpr e = Compile.emit_ pos op [])
    (hev : ∀ fuel env, evalF F (fuel + 1) env e = pure (.val v)) (hn : need e = 1) : Good F e := by
  intro cs cs' hc hF
  rw [hce] at hc
  obtain ⟨sh, hsim⟩ := sim_push0 F pos op v hop cs cs' hc
  refine ⟨sh, ?_⟩
  intro K code bp lo env s t fuel r t1 hK hcode hvm hip hsp hloc hsem
  cases fuel with
  | zero => exact (evalF_zero_ne hsem).elim
  | succ fuel =>
    rw [hev] at hsem
    obtain ⟨rfl, rfl⟩ := exec_pure_inv hsem
    have hsc : Scalar v := by
      rcases hop with ⟨_, rfl⟩ | ⟨_, rfl⟩ | ⟨_, rfl⟩ <;> trivial
    exact ⟨rfl, hsc, hsim K code bp lo s hcode hvm hip (by omega)⟩

theorem good_ident (F : FloatOps) (pos : Pos) (name : String) : Good F (.ident pos name) := by
  intro cs cs' hc hF
  simp only [ExprF] at hF
  cases hi : localIdx cs name with
  | none => simp [hi] at hF
  | some i =>
    obtain ⟨sym, hres, hscope, hidx⟩ := resolve_local hi
    rw [compileExpr] at hc
    unfold Compile.compileIdent at hc
    obtain ⟨r0, cs0, h0, hc⟩ := bind_inv hc
    rw [hres] at h0
    simp only [Prod.mk.injEq, Except.ok.injEq] at h0
    obtain ⟨rfl, rfl⟩ := h0
    simp only [hscope] at hc
    refine ⟨Shape.of_emit_ hc, ?_⟩
    intro K code bp lo env s t fuel r t1 hK hcode hvm hip hsp hloc hsem
    obtain ⟨bs, hbs, e2⟩ := emit__inv hc
    obtain ⟨hi0, hi255, b, rfl, hb⟩ := mk_w1 Compile.OpGetLocal rfl _ _ hbs
    rw [hidx] at hb
    simp only [Int.toNat_natCast] at hb
    have hsz : cs'.insts.size = cs.insts.size + 2 := by rw [e2]; simp
    have hbk : ∀ k (hk : k < 2), code.insts[cs.insts.size + k]? = [UInt8.ofNat Compile.OpGetLocal, b][k]? := by
      intro k hk
      rw [hcode _ (by omega) (by omega), e2]
      exact emit_bytes _ _ (by simpa using hk)
    cases fuel with
    | zero => exact (evalF_zero_ne hsem).elim
    | succ fuel =>
      obtain ⟨a, v, hl, hbox, hlt, hst, hnb⟩ := hloc name i hi
      simp only [evalF, hl] at hsem
      obtain ⟨v', t', hrb, hsem⟩ := exec_bind_inv hsem
      obtain ⟨rfl, rfl⟩ := exec_pure_inv hsem
      unfold readBoxF at hrb
      rw [exec_bind, exec_heapGet_some _ _ _ hbox] at hrb
      obtain ⟨rfl, rfl⟩ := exec_pure_inv hrb
      have hsp0 : 0 ≤ s.sp ∧ s.sp < 2048 := by have := hvm.lo; have := need_pos (.ident pos name); omega
      have hlo := hvm.lo
      obtain ⟨s', hrun, hsame, hheap, hip', hsp', hstk⟩ := step_getLocal F hvm.code cs.insts.size hip _ b
        (by simpa using hbk 0 (by omega)) rfl (by simpa using hbk 1 (by omega)) bp hvm.bp (by rw [hb]; omega)
        (by rw [hb, hst]; exact hnb.not_box) hsp0
      rw [hb, hst] at hstk
      obtain ⟨hag, hget⟩ := push_facts hvm.size hsp0 hstk
      exact ⟨rfl, hnb, s', Reach.step hvm.abort hrun, hsame, hheap, by rw [hip', hsz]; push_cast; omega, hsp', hag, hget⟩


theorem good_paren (F : FloatOps) (pos : Pos) (x : Expr) (ihx : Good F x) : Good F (.paren pos x) := by
  intro cs cs' hc hF
  simp only [ExprF] at hF
  rw [compileExpr] at hc
  obtain ⟨shx, simx⟩ := ihx cs cs' hc hF
  refine ⟨shx, ?_⟩
  intro K code bp lo env s t fuel r t1 hK hcode hvm hip hsp hloc hsem
  cases fuel with
  | zero => exact (evalF_zero_ne hsem).elim
  | succ fuel =>
    simp only [evalF] at hsem
    simp only [need] at hsp
    exact simx K code bp lo env s t fuel r t1 hK hcode hvm hip hsp hloc hsem

theorem good_unary (F : FloatOps) (pos : Pos) (tok : Nat) (x : Expr) (ihx : Good F x) : Good F (.unary pos tok x) := by
  intro cs cs' hc hF
  simp only [ExprF] at hF
  rw [compileExpr] at hc
  obtain ⟨_, cs1, hx, hc⟩ := bind_inv hc
  obtain ⟨shx, simx⟩ := ihx cs cs1 hx hF
  split at hc
  · have she := Shape.of_emit_ hc
    refine ⟨shx.trans she, ?_⟩
    intro K code bp lo env s t fuel r t1 hK hcode hvm hip hsp hloc hsem
    obtain ⟨bs, hbs, e2⟩ := emit__inv hc
    obtain ⟨ht0, ht255, b, rfl, hb⟩ := mk_w1 Compile.OpUnary rfl _ _ hbs
    simp only [Int.toNat_natCast] at hb
    have hsz : cs'.insts.size = cs1.insts.size + 2 := by rw [e2]; simp
    have hbk : ∀ k (hk : k < 2), code.insts[cs1.insts.size + k]? = [UInt8.ofNat Compile.OpUnary, b][k]? := by
      intro k hk
      rw [hcode _ (by have := shx.pre.1; omega) (by omega), e2]
      exact emit_bytes _ _ (by simpa using hk)
    cases fuel with
    | zero => exact (evalF_zero_ne hsem).elim
    | succ fuel =>
      simp only [evalF] at hsem
      simp only [need] at hsp
      obtain ⟨rx, tx, hex, hsem⟩ := exec_bind_inv hsem
      have ox := simx K code bp lo env s t fuel rx tx (Compile.IsPre.trans she.cpre hK)
        (hcode.sub she.pre (Nat.le_refl _)) hvm hip hsp hloc hex
      have hlo := hvm.lo
      cases rx with
      | thr a =>
        obtain ⟨rfl, rfl⟩ := exec_pure_inv hsem
        exact ox
      | val v =>
        obtain ⟨rfl, hsv, s1, hr1, hs1, hh1, hip1, hsp1, hag1, hget1⟩ := ox
        obtain ⟨hvm1, hloc1⟩ := carry hvm hloc hs1 hh1 hag1 (by omega) (by omega)
        try simp only at hsem
        obtain ⟨y, ty, hey, hsem⟩ := exec_bind_inv hsem
        have hres : OpRes y := (post_vUnary F (tokOfNat tok) hsv).h _ _ _ hey
        obtain ⟨rfl, hro⟩ := (pure_vUnary F (tokOfNat tok) hsv).runsOn hey
        have hidx : s1.sp - 1 = s.sp := by omega
        have hsz1 := hvm1.size
        have hnx := need_pos x
        cases y with
        | ok v' =>
          obtain ⟨s2, hrun, hs2, hh2, hip2, hsp2, hst2⟩ := step_unary_ok F hvm1.code cs1.insts.size hip1 _ b
            (by simpa using hbk 0 (by omega)) rfl (by simpa using hbk 1 (by omega)) (by omega) v' s1.heap
            (by rw [hb, hidx, hget1]; exact hro _)
          obtain ⟨rfl, rfl⟩ := exec_pure_inv hsem
          rw [hidx] at hst2
          refine ⟨rfl, hres, s2, hr1.trans (Reach.step hvm1.abort hrun), hs1.trans hs2, by rw [hh2, hh1],
            by rw [hip2, hsz]; push_cast; omega, by omega, ?_, ?_⟩
          · rw [hst2]; exact hag1.set _ _ (Nat.le_refl _)
          · rw [hst2]; exact set!_get_eq _ _ _ (by rw [hsz1]; omega)
        | error oe =>
          obtain ⟨u, hfail, hsu, hhu, hspu, hstu, hipu⟩ := step_unary_err F hvm1.code cs1.insts.size hip1 _ b
            (by simpa using hbk 0 (by omega)) rfl (by simpa using hbk 1 (by omega)) (by omega) oe s1.heap
            (by rw [hb, hidx, hget1]; exact hro _)
          obtain ⟨a, rfl, hrt⟩ := raise_inv hsem
          exact ⟨u, oe, ReachFail.of_reach hr1 (ReachFail.step hvm1.abort hfail), hres, hs1.trans hsu, by rw [hhu, hh1],
            by rw [hstu]; exact hag1, by omega, hrt⟩
  · simp [Compile.cerr, Compile.runCM_throw] at hc


/-! ### binary operators: the instruction behind the two operands -/

/-- outcome of the operator instruction, relative to the state `s2` that has both operands on the stack -/
def Outcome2 (F : FloatOps) (s2 t t1 : State) (q : Nat) : Sem.ER → Prop
  | .val v => t = t1 ∧ Scalar v ∧ ∃ s3, Reach F s2 s3 ∧ Same s2 s3 ∧ s3.heap = s2.heap ∧ s3.ip + 1 = (q : Int) ∧
      s3.sp = s2.sp - 1 ∧ AgreeBelow (s2.sp - 2).toNat s2.stack s3.stack ∧ s3.stack[(s2.sp - 2).toNat]! = v
  | .thr a => ∃ (u : State) (oe : OpErr), ReachFail F s2 oe u ∧ (∃ n m, oe = .named n m) ∧ Same s2 u ∧ u.heap = s2.heap ∧
      u.stack = s2.stack ∧ u.sp = s2.sp ∧ exec (rtErrOfOpErr oe) t = (.ok a, t1)

theorem two_sets {st : Array V} {i : Nat} {v : V} (hsz : st.size = 2048) (hi : i + 1 < 2048) :
    AgreeBelow i st ((st.set! i v).set! (i + 1) .nil) ∧ ((st.set! i v).set! (i + 1) .nil)[i]! = v := by
  refine ⟨((AgreeBelow.refl _ _).set _ _ (Nat.le_refl _)).set _ _ (by omega), ?_⟩
  rw [set!_get_ne _ _ _ _ (by omega), set!_get_eq _ _ _ (by omega)]

theorem tail_arith (F : FloatOps) (pos : Pos) (tok : Nat) (cs2 cs' : CState)
    (hc : runCM (Compile.emit_ pos Compile.OpBinaryOp [(tok : Int)]) cs2 = (.ok (), cs'))
    (K : Array Compile.Const) (code : Code) (bp lo : Nat) (s2 ty : State) (lv rv : V) (r : Sem.ER) (t1 : State)
    (hcode : CodeHas code cs'.insts cs2.insts.size) (hvm : VMOk K code bp lo s2)
    (hip : s2.ip + 1 = (cs2.insts.size : Int)) (hsp : 2 ≤ s2.sp ∧ s2.sp ≤ 2048)
    (hl : s2.stack[(s2.sp - 2).toNat]! = lv) (hr : s2.stack[(s2.sp - 1).toNat]! = rv) (hsl : Scalar lv) (hsr : Scalar rv)
    (hsem : exec (do
      match (← vBinaryOp F (tokOfNat tok) lv rv) with
      | .ok v => pure (Sem.ER.val v)
      | .error e => raiseF e) ty = (.ok r, t1)) :
    Outcome2 F s2 ty t1 cs'.insts.size r := by
  obtain ⟨bs, hbs, e2⟩ := emit__inv hc
  obtain ⟨ht0, ht255, b, rfl, hb⟩ := mk_w1 Compile.OpBinaryOp rfl _ _ hbs
  simp only [Int.toNat_natCast] at hb
  have hsz : cs'.insts.size = cs2.insts.size + 2 := by rw [e2]; simp
  have hbk : ∀ k (hk : k < 2), code.insts[cs2.insts.size + k]? = [UInt8.ofNat Compile.OpBinaryOp, b][k]? := by
    intro k hk
    rw [hcode _ (by omega) (by omega), e2]
    exact emit_bytes _ _ (by simpa using hk)
  obtain ⟨y, tyy, hey, hsem⟩ := exec_bind_inv hsem
  have hres : OpRes y := (post_vBinaryOp F (tokOfNat tok) hsl).h _ _ _ hey
  obtain ⟨rfl, hro⟩ := (pure_vBinaryOp F (tokOfNat tok) hsl hsr).runsOn hey
  have hsz2 := hvm.size
  cases y with
  | ok v =>
    obtain ⟨s3, hrun, hs3, hh3, hip3, hsp3, hst3⟩ := step_binop_ok F hvm.code cs2.insts.size hip _ b
      (by simpa using hbk 0 (by omega)) rfl (by simpa using hbk 1 (by omega)) hsp v s2.heap
      (by rw [hb, hl, hr]; exact hro _)
    obtain ⟨rfl, rfl⟩ := exec_pure_inv hsem
    have hi2 : (s2.sp - 1).toNat = (s2.sp - 2).toNat + 1 := by omega
    rw [hi2] at hst3
    obtain ⟨hag, hget⟩ := two_sets (v := v) hsz2 (i := (s2.sp - 2).toNat) (by omega)
    exact ⟨rfl, hres, s3, Reach.step hvm.abort hrun, hs3, hh3, by rw [hip3, hsz]; push_cast; omega, hsp3,
      by rw [hst3]; exact hag, by rw [hst3]; exact hget⟩
  | error oe =>
    obtain ⟨u, hfail, hsu, hhu, hspu, hstu, hipu⟩ := step_binop_err F hvm.code cs2.insts.size hip _ b
      (by simpa using hbk 0 (by omega)) rfl (by simpa using hbk 1 (by omega)) hsp oe s2.heap
      (by rw [hb, hl, hr]; exact hro _)
    obtain ⟨a, rfl, hrt⟩ := raise_inv hsem
    exact ⟨u, oe, ReachFail.step hvm.abort hfail, hres, hsu, hhu, hstu, hspu, hrt⟩

theorem tail_equal (F : FloatOps) (pos : Pos) (op : Nat) (neg : Bool)
    (hop : (op = 10 ∧ neg = false) ∨ (op = 11 ∧ neg = true)) (cs2 cs' : CState)
    (hc : runCM (Compile.emit_ pos op []) cs2 = (.ok (), cs'))
    (K : Array Compile.Const) (code : Code) (bp lo : Nat) (s2 ty : State) (lv rv : V) (r : Sem.ER) (t1 : State)
    (hcode : CodeHas code cs'.insts cs2.insts.size) (hvm : VMOk K code bp lo s2)
    (hip : s2.ip + 1 = (cs2.insts.size : Int)) (hsp : 2 ≤ s2.sp ∧ s2.sp ≤ 2048)
    (hl : s2.stack[(s2.sp - 2).toNat]! = lv) (hr : s2.stack[(s2.sp - 1).toNat]! = rv) (hsl : Scalar lv) (hsr : Scalar rv)
    (hsem : exec (do let b ← vEqual F lv rv; pure (Sem.ER.val (.bool (if neg then !b else b)))) ty = (.ok r, t1)) :
    Outcome2 F s2 ty t1 cs'.insts.size r := by
  obtain ⟨bs, hbs, e2⟩ := emit__inv hc
  have hbs' : bs = [UInt8.ofNat op] := by
    rcases hop with ⟨rfl, _⟩ | ⟨rfl, _⟩
    · have : Compile.makeInstruction 10 [] = .ok [UInt8.ofNat 10] := rfl
      rw [this] at hbs; injection hbs with h; exact h.symm
    · have : Compile.makeInstruction 11 [] = .ok [UInt8.ofNat 11] := rfl
      rw [this] at hbs; injection hbs with h; exact h.symm
  subst hbs'
  have hsz : cs'.insts.size = cs2.insts.size + 1 := by rw [e2]; simp
  have hb0 : code.insts[cs2.insts.size]? = some (UInt8.ofNat op) := by
    rw [hcode _ (Nat.le_refl _) (by omega), e2]
    exact emit_bytes (cs := cs2) [UInt8.ofNat op] 0 (by simp)
  obtain ⟨eq, tyy, hey, hsem⟩ := exec_bind_inv hsem
  obtain ⟨rfl, hro⟩ := (pure_vEqual F hsl hsr).runsOn hey
  have hsz2 := hvm.size
  have hopn : (UInt8.ofNat op).toNat = 10 ∨ (UInt8.ofNat op).toNat = 11 := by
    rcases hop with ⟨rfl, _⟩ | ⟨rfl, _⟩
    · exact .inl rfl
    · exact .inr rfl
  obtain ⟨s3, hrun, hs3, hh3, hip3, hsp3, hst3⟩ := step_equal F hvm.code cs2.insts.size hip _ hb0 hopn hsp eq s2.heap
    (by rw [hl, hr]; exact hro _)
  obtain ⟨rfl, rfl⟩ := exec_pure_inv hsem
  have hi2 : (s2.sp - 1).toNat = (s2.sp - 2).toNat + 1 := by omega
  rw [hi2] at hst3
  have hval : (if (UInt8.ofNat op).toNat = 10 then eq else !eq) = (if neg then !eq else eq) := by
    rcases hop with ⟨rfl, rfl⟩ | ⟨rfl, rfl⟩
    · rfl
    · rfl
  rw [hval] at hst3
  obtain ⟨hag, hget⟩ := two_sets (v := .bool (if neg then !eq else eq)) hsz2 (i := (s2.sp - 2).toNat) (by omega)
  exact ⟨rfl, trivial, s3, Reach.step hvm.abort hrun, hs3, hh3, by rw [hip3, hsz]; push_cast; rfl, hsp3,
    by rw [hst3]; exact hag, by rw [hst3]; exact hget⟩

/-- both operands evaluated (`s → s1 → s2`), then the operator instruction -/
theorem combine2 {F : FloatOps} {s s1 s2 t t1 : State} {q : Nat} {r : Sem.ER}
    (hsz : s.stack.size = 2048) (h0 : 0 ≤ s.sp)
    (hr1 : Reach F s s1) (hs1 : Same s s1) (hh1 : s1.heap = s.heap) (hsp1 : s1.sp = s.sp + 1)
    (hag1 : AgreeBelow s.sp.toNat s.stack s1.stack)
    (hr2 : Reach F s1 s2) (hs2 : Same s1 s2) (hh2 : s2.heap = s1.heap) (hsp2 : s2.sp = s1.sp + 1)
    (hag2 : AgreeBelow s1.sp.toNat s1.stack s2.stack)
    (h : Outcome2 F s2 t t1 q r) : Outcome F s t t1 q r := by
  have hi : (s2.sp - 2).toNat = s.sp.toNat := by omega
  have hag12 : AgreeBelow s.sp.toNat s.stack s2.stack := hag1.trans (hag2.mono (by omega))
  cases r with
  | val v =>
    obtain ⟨ht, hsv, s3, hr3, hs3, hh3, hip3, hsp3, hag3, hget3⟩ := h
    rw [hi] at hag3 hget3
    exact ⟨ht, hsv, s3, (hr1.trans hr2).trans hr3, (hs1.trans hs2).trans hs3, by rw [hh3, hh2, hh1], hip3, by omega,
      hag12.trans hag3, hget3⟩
  | thr a =>
    obtain ⟨u, oe, hf, hnm, hsu, hhu, hstu, hspu, hrest⟩ := h
    exact ⟨u, oe, ReachFail.of_reach (hr1.trans hr2) hf, hnm, (hs1.trans hs2).trans hsu, by rw [hhu, hh2, hh1],
      by rw [hstu]; exact hag12, by omega, hrest⟩


/-- binary operators other than `&&` / `||` -/
theorem good_binary_strict (F : FloatOps) (pos : Pos) (tok : Nat) (l r : Expr) (ihl : Good F l) (ihr : Good F r)
    (h1 : (tok == tLAnd) = false) (h2 : (tok == tLOr) = false) : Good F (.binary pos tok l r) := by
  intro cs cs' hc hF
  simp only [ExprF, Bool.and_eq_true] at hF
  rw [compileExpr] at hc
  simp only [h1, h2, Bool.or_self, Bool.false_eq_true, if_false] at hc
  obtain ⟨_, cs1, hl, hc⟩ := bind_inv hc
  obtain ⟨_, cs2, hr, hc⟩ := bind_inv hc
  obtain ⟨shl, siml⟩ := ihl cs cs1 hl hF.1
  obtain ⟨shr, simr⟩ := ihr cs1 cs2 hr (by rw [shl.localIdx]; exact hF.2)
  -- the operator instruction, in its three forms
  have htail : Shape cs2 cs' ∧ ∀ (K : Array Compile.Const) (code : Code) (bp lo : Nat) (s2 ty : State) (lv rv : V)
      (rr : Sem.ER) (t1 : State), CodeHas code cs'.insts cs2.insts.size → VMOk K code bp lo s2 →
      s2.ip + 1 = (cs2.insts.size : Int) → 2 ≤ s2.sp ∧ s2.sp ≤ 2048 →
      s2.stack[(s2.sp - 2).toNat]! = lv → s2.stack[(s2.sp - 1).toNat]! = rv → Scalar lv → Scalar rv →
      exec (if tok == tEqual then (do pure (Sem.ER.val (.bool (← vEqual F lv rv))))
            else if tok == tNotEqual then (do pure (Sem.ER.val (.bool (!(← vEqual F lv rv)))))
            else (do
              match (← vBinaryOp F (tokOfNat tok) lv rv) with
              | .ok v => pure (Sem.ER.val v)
              | .error e => raiseF e)) ty = (.ok rr, t1) →
      Outcome2 F s2 ty t1 cs'.insts.size rr := by
    split at hc
    · rename_i heq
      refine ⟨Shape.of_emit_ hc, ?_⟩
      intro K code bp lo s2 ty lv rv rr t1 hcode hvm hip hsp hlv hrv hsl hsr hsem
      simp only [heq, if_true] at hsem
      exact tail_equal F pos 10 false (.inl ⟨rfl, rfl⟩) cs2 cs' hc K code bp lo s2 ty lv rv rr t1 hcode hvm hip hsp hlv hrv hsl hsr
        (by simpa using hsem)
    · rename_i heq
      split at hc
      · rename_i hne
        refine ⟨Shape.of_emit_ hc, ?_⟩
        intro K code bp lo s2 ty lv rv rr t1 hcode hvm hip hsp hlv hrv hsl hsr hsem
        simp only [heq, hne, if_true, Bool.false_eq_true, if_false] at hsem
        exact tail_equal F pos 11 true (.inr ⟨rfl, rfl⟩) cs2 cs' hc K code bp lo s2 ty lv rv rr t1 hcode hvm hip hsp hlv hrv hsl hsr
          (by simpa using hsem)
      · rename_i hne
        split at hc
        · simp [Compile.cerr, Compile.runCM_throw] at hc
        · refine ⟨Shape.of_emit_ hc, ?_⟩
          intro K code bp lo s2 ty lv rv rr t1 hcode hvm hip hsp hlv hrv hsl hsr hsem
          simp only [heq, hne, Bool.false_eq_true, if_false] at hsem
          exact tail_arith F pos tok cs2 cs' hc K code bp lo s2 ty lv rv rr t1 hcode hvm hip hsp hlv hrv hsl hsr hsem
  obtain ⟨sht, simt⟩ := htail
  refine ⟨(shl.trans shr).trans sht, ?_⟩
  intro K code bp lo env s t fuel rr t1 hK hcode hvm hip hsp hloc hsem
  cases fuel with
  | zero => exact (evalF_zero_ne hsem).elim
  | succ fuel =>
    simp only [evalF, h1, h2, Bool.false_eq_true, if_false] at hsem
    simp only [need] at hsp
    have hnl := need_pos l
    have hnr := need_pos r
    have hlo := hvm.lo
    obtain ⟨rl, tl, hel, hsem⟩ := exec_bind_inv hsem
    have ol := siml K code bp lo env s t fuel rl tl (Compile.IsPre.trans (shr.trans sht).cpre hK)
      (hcode.sub (shr.trans sht).pre (Nat.le_refl _)) hvm hip (by omega) hloc hel
    cases rl with
    | thr a =>
      obtain ⟨rfl, rfl⟩ := exec_pure_inv hsem
      exact ol
    | val lv =>
      obtain ⟨rfl, hsl, s1, hr1, hs1, hh1, hip1, hsp1, hag1, hget1⟩ := ol
      obtain ⟨hvm1, hloc1⟩ := carry hvm hloc hs1 hh1 hag1 (by omega) (by omega)
      try simp only at hsem
      obtain ⟨rr2, tr, her, hsem⟩ := exec_bind_inv hsem
      have or_ := simr K code bp lo env s1 t fuel rr2 tr (Compile.IsPre.trans sht.cpre hK)
        (hcode.sub sht.pre shl.pre.1) hvm1 hip1 (by omega) (by rw [shl.localIdx]; exact hloc1) her
      cases rr2 with
      | thr a =>
        obtain ⟨rfl, rfl⟩ := exec_pure_inv hsem
        exact Outcome.thr_via hr1 hs1 hh1 hag1 (by omega) (by omega) or_
      | val rv =>
        obtain ⟨rfl, hsr, s2, hr2, hs2, hh2, hip2, hsp2, hag2, hget2⟩ := or_
        obtain ⟨hvm2, hloc2⟩ := carry hvm1 hloc1 hs2 hh2 hag2 (by omega) (by omega)
        try simp only at hsem
        have hlv : s2.stack[(s2.sp - 2).toNat]! = lv := by
          have : (s2.sp - 2).toNat = s.sp.toNat := by omega
          rw [this, hag2.2 _ (by omega), hget1]
        have hrv : s2.stack[(s2.sp - 1).toNat]! = rv := by
          have : (s2.sp - 1).toNat = s1.sp.toNat := by omega
          rw [this, hget2]
        have o2 := simt K code bp lo s2 t lv rv rr t1 (hcode.sub (Pre.refl _) (by have := shl.pre.1; have := shr.pre.1; omega))
          hvm2 hip2 (by omega) hlv hrv hsl hsr hsem
        exact combine2 hvm.size (by omega) hr1 hs1 hh1 hsp1 hag1 hr2 hs2 hh2 hsp2 hag2 o2


/-- the rest of an expression runs from a state `s2` that has the same `sp` as `s` -/
theorem Outcome.via {F : FloatOps} {s s2 t t1 : State} {q : Nat} {r : Sem.ER}
    (hr : Reach F s s2) (hs : Same s s2) (hh : s2.heap = s.heap) (hag : AgreeBelow s.sp.toNat s.stack s2.stack)
    (hsp : s2.sp = s.sp) (h : Outcome F s2 t t1 q r) : Outcome F s t t1 q r := by
  cases r with
  | val v =>
    obtain ⟨ht, hsv, s3, hr3, hs3, hh3, hip3, hsp3, hag3, hget3⟩ := h
    rw [hsp] at hag3 hget3
    exact ⟨ht, hsv, s3, hr.trans hr3, hs.trans hs3, by rw [hh3, hh], hip3, by omega, hag.trans hag3, hget3⟩
  | thr a =>
    obtain ⟨u, oe, hf, hnm, hsu, hhu, hagu, hspu, hrest⟩ := h
    rw [hsp] at hagu
    exact ⟨u, oe, ReachFail.of_reach hr hf, hnm, hs.trans hsu, by rw [hhu, hh], hag.trans hagu, by omega, hrest⟩

/-- `&&` and `||`: the jump-based short circuit -/
theorem good_binary_sc (F : FloatOps) (pos : Pos) (tok : Nat) (l r : Expr) (ihl : Good F l) (ihr : Good F r)
    (hsc : (tok == tLAnd || tok == tLOr) = true) : Good F (.binary pos tok l r) := by
  intro cs cs' hc hF
  simp only [ExprF, Bool.and_eq_true] at hF
  rw [compileExpr] at hc
  simp only [hsc, if_true] at hc
  obtain ⟨_, cs1, hl, hc⟩ := bind_inv hc
  obtain ⟨jp, cs2, hj, hc⟩ := bind_inv hc
  obtain ⟨_, cs3', hr, hc⟩ := bind_inv hc
  obtain ⟨x, cs3, hx, hc⟩ := bind_inv hc
  obtain ⟨rfl, rfl⟩ := curPos_inv hx
  obtain ⟨shl, siml⟩ := ihl cs cs1 hl hF.1
  have she := Shape.of_emit hj
  obtain ⟨shr, simr⟩ := ihr cs2 cs3 hr (by rw [she.localIdx, shl.localIdx]; exact hF.2)
  obtain ⟨bsj, hbsj, hjp, e2⟩ := emit_inv hj
  obtain ⟨opb, bs, hopb, hbs, e4⟩ := changeOperand_inv hc
  -- the opcode: 14 for `&&`, 15 for `||`
  let isAnd : Bool := tok == tLAnd
  have hopn : (if (tok == tLAnd) = true then Compile.OpAndJump else Compile.OpOrJump) = (if isAnd then 14 else 15) := by
    show (if (tok == tLAnd) = true then 14 else 15) = _; rfl
  rw [hopn] at hbsj
  have hw : Compile.operandWidths (if isAnd then 14 else 15) = [4] := by cases isAnd <;> rfl
  obtain ⟨_, c1, c2, c3, c4, rfl, _⟩ := mk_w4 _ hw _ _ hbsj
  have hsz2 : cs2.insts.size = cs1.insts.size + 5 := by rw [e2]; simp
  have hop0 : cs2.insts[cs1.insts.size]? = some (UInt8.ofNat (if isAnd then 14 else 15)) := by
    rw [e2]; exact emit_bytes (cs := cs1) _ 0 (by simp)
  have hopb' : opb = UInt8.ofNat (if isAnd then 14 else 15) := by
    rw [hjp, getElem?_of_pre shr.pre hop0] at hopb
    injection hopb with h; exact h.symm
  have hopbn : opb.toNat = if isAnd then 14 else 15 := by rw [hopb']; cases isAnd <;> rfl
  rw [hopbn] at hbs
  obtain ⟨_, b1, b2, b3, b4, rfl, hdec⟩ := mk_w4 _ hw _ _ hbs
  simp only [Int.toNat_natCast] at hdec
  have hsz3 : cs2.insts.size ≤ cs3.insts.size := shr.pre.1
  have hsz' : cs'.insts.size = cs3.insts.size := by rw [e4]; exact Compile.size_patch _ _ _
  have hins' : cs'.insts = patch cs3.insts cs1.insts.size
      [UInt8.ofNat (if isAnd then 14 else 15), b1, b2, b3, b4] := by rw [e4, hjp]
  have sh3 : Shape cs cs3 := (shl.trans she).trans shr
  have hsh : Shape cs cs' := by rw [e4]; exact sh3.patch _ _ (by rw [hjp]; exact shl.pre.1)
  refine ⟨hsh, ?_⟩
  intro K code bp lo env s t fuel rr t1 hK hcode hvm hip hsp hloc hsem
  have hK3 : IsPre cs3.constants K := by
    have : cs'.constants = cs3.constants := by rw [e4]
    rw [← this]; exact hK
  -- the three pieces of code
  have hcl : CodeHas code cs1.insts cs.insts.size := by
    intro i h1 h2
    rw [hcode i h1 (by omega), hins', Compile.patch_get_lt _ _ _ _ h2, (she.trans shr).pre.2 i h2]
  have hcj : ∀ k (hk : k < 5), code.insts[cs1.insts.size + k]? =
      [UInt8.ofNat (if isAnd then 14 else 15), b1, b2, b3, b4][k]? := by
    intro k hk
    rw [hcode _ (by have := shl.pre.1; omega) (by omega), hins']
    exact Compile.patch_get_mid _ _ _ _ (by simpa using hk) (by simp; omega)
  have hcr : CodeHas code cs3.insts cs2.insts.size := by
    intro i h1 h2
    rw [hcode i (by have := shl.pre.1; omega) (by omega), hins', Compile.patch_get_ge _ _ _ _ (by simp; omega)]
  cases fuel with
  | zero => exact (evalF_zero_ne hsem).elim
  | succ fuel =>
    simp only [evalF] at hsem
    simp only [need] at hsp
    have hnl := need_pos l
    have hnr := need_pos r
    have hlo := hvm.lo
    obtain ⟨rl, tl, hel, hsem⟩ := exec_bind_inv hsem
    have ol := siml K code bp lo env s t fuel rl tl (Compile.IsPre.trans (she.trans shr).cpre hK3) hcl hvm hip (by omega)
      hloc hel
    cases rl with
    | thr a =>
      obtain ⟨rfl, rfl⟩ := exec_pure_inv hsem
      exact ol
    | val lv =>
      obtain ⟨rfl, hsl, s1, hr1, hs1, hh1, hip1, hsp1, hag1, hget1⟩ := ol
      obtain ⟨hvm1, hloc1⟩ := carry hvm hloc hs1 hh1 hag1 (by omega) (by omega)
      try simp only at hsem
      -- both forms evaluate `isFalsy lv` first
      have hsem' : ∃ fl tf, exec (isFalsy lv) t = (.ok fl, tf) ∧
          exec (if (fl == isAnd) = true then pure (Sem.ER.val lv) else evalF F fuel env r) tf = (.ok rr, t1) := by
        by_cases ha : (tok == tLAnd) = true
        · have hia : isAnd = true := ha
          simp only [ha, if_true] at hsem
          obtain ⟨fl, tf, h1, h2⟩ := exec_bind_inv hsem
          refine ⟨fl, tf, h1, ?_⟩
          rw [hia]
          cases fl <;> simpa using h2
        · have hia : isAnd = false := Bool.eq_false_iff.mpr ha
          have ho : (tok == tLOr) = true := by simpa [ha] using hsc
          simp only [ha, ho, Bool.false_eq_true, if_false, if_true] at hsem
          obtain ⟨fl, tf, h1, h2⟩ := exec_bind_inv hsem
          refine ⟨fl, tf, h1, ?_⟩
          rw [hia]
          cases fl <;> simpa using h2
      obtain ⟨fl, tf, hfl, hsem⟩ := hsem'
      obtain ⟨rfl, hro⟩ := (pure_isFalsy hsl).runsOn hfl
      have hidx : s1.sp - 1 = s.sp := by omega
      obtain ⟨s2, hrun, hs2, hh2, hcase⟩ := step_andOrJump F hvm1.code cs1.insts.size hip1 _ b1 b2 b3 b4
        (by simpa using hcj 0 (by omega)) (by rw [← hopb']; cases isAnd <;> simp [hopbn])
        (by simpa using hcj 1 (by omega)) (by simpa using hcj 2 (by omega))
        (by simpa using hcj 3 (by omega)) (by simpa using hcj 4 (by omega)) (by omega) fl s1.heap
        (by rw [hidx, hget1]; exact hro _)
      have hb14 : ((UInt8.ofNat (if isAnd then 14 else 15)).toNat == 14) = isAnd := by cases isAnd <;> rfl
      rw [hb14, hdec] at hcase
      by_cases hjmp : (fl == isAnd) = true
      · -- the jump is taken: the left value is the result
        simp only [hjmp, if_true] at hcase hsem
        obtain ⟨rfl, rfl⟩ := exec_pure_inv hsem
        obtain ⟨hip2, hsp2, hst2⟩ := hcase
        exact ⟨rfl, hsl, s2, hr1.trans (Reach.step hvm1.abort hrun), hs1.trans hs2, by rw [hh2, hh1], by rw [hsz']; exact hip2,
          by omega, by rw [hst2]; exact hag1, by rw [hst2]; exact hget1⟩
      · -- no jump: the left value is popped, the right operand is the result
        simp only [hjmp, Bool.false_eq_true, if_false] at hcase hsem
        obtain ⟨hip2, hsp2, hst2⟩ := hcase
        rw [hidx] at hst2
        have hag2 : AgreeBelow s.sp.toNat s.stack s2.stack := by rw [hst2]; exact hag1.set _ _ (Nat.le_refl _)
        have hag12 : AgreeBelow s.sp.toNat s1.stack s2.stack := by
          rw [hst2]; exact (AgreeBelow.refl _ _).set _ _ (Nat.le_refl _)
        obtain ⟨hvm2, hloc2⟩ := carry hvm1 hloc1 hs2 hh2 hag12 (by omega) (by omega)
        have or_ := simr K code bp lo env s2 t fuel rr t1 (Compile.IsPre.trans (Compile.IsPre.refl _) hK3) hcr hvm2
          (by rw [hip2, hsz2]; push_cast; rfl) (by omega)
          (by rw [she.localIdx, shl.localIdx]; exact hloc2) hsem
        rw [← hsz'] at or_
        exact Outcome.via (hr1.trans (Reach.step hvm1.abort hrun)) (hs1.trans hs2) (by rw [hh2, hh1]) hag2 (by omega) or_


/-- a value outcome followed by a JUMP to `q` -/
theorem OutV.then_jump {F : FloatOps} {s : State} {q3 q : Nat} {v : V}
    (h : OutV F s q3 v)
    (hstep : ∀ s3 : State, Same s s3 → s3.heap = s.heap → s3.ip + 1 = (q3 : Int) →
      ∃ s4, exec (step F) s3 = (.ok .next, s4) ∧ Same s3 s4 ∧ s4.heap = s3.heap ∧ s4.ip + 1 = (q : Int) ∧ s4.sp = s3.sp ∧
        s4.stack = s3.stack)
    (hab : s.abort = false) : OutV F s q v := by
  obtain ⟨s3, hr3, hs3, hh3, hip3, hsp3, hag3, hget3⟩ := h
  obtain ⟨s4, hrun, hs4, hh4, hip4, hsp4, hst4⟩ := hstep s3 hs3 hh3 hip3
  exact ⟨s4, hr3.trans (Reach.step (by rw [hs3.abort]; exact hab) hrun), hs3.trans hs4, by rw [hh4, hh3], hip4,
    by rw [hsp4, hsp3], by rw [hst4]; exact hag3, by rw [hst4]; exact hget3⟩

theorem exec_isFalsy_bool (b : Bool) (t : State) : exec (isFalsy (.bool b)) t = (.ok (!b), t) := rfl

set_option maxHeartbeats 2000000 in
/-- `c ? t : f` with a condition that is not a boolean literal -/
theorem good_cond_gen (F : FloatOps) (pos : Pos) (c t f : Expr) (ihc : Good F c) (iht : Good F t) (ihf : Good F f)
    (cs cs' : CState)
    (hc : runCM (do
      compileExpr c
      let j1 ← Compile.emit pos Compile.OpJumpFalsy [0]
      compileExpr t
      let j2 ← Compile.emit pos Compile.OpJump [0]
      Compile.changeOperand j1 [(← Compile.curPos)]
      compileExpr f
      Compile.changeOperand j2 [(← Compile.curPos)]) cs = (.ok (), cs'))
    (hF : ExprF (localIdx cs) (.cond pos c t f) = true) :
    Shape cs cs' ∧ SimAt F (.cond pos c t f) cs cs' := by
  simp only [ExprF, Bool.and_eq_true] at hF
  obtain ⟨_, cs1, hcc, hc⟩ := bind_inv hc
  obtain ⟨j1, cs2, hj1, hc⟩ := bind_inv hc
  obtain ⟨_, cs3, hct, hc⟩ := bind_inv hc
  obtain ⟨j2, cs4', hj2, hc⟩ := bind_inv hc
  obtain ⟨x1, cs4, hx1, hc⟩ := bind_inv hc
  obtain ⟨rfl, rfl⟩ := curPos_inv hx1
  obtain ⟨_, cs5, hp1, hc⟩ := bind_inv hc
  obtain ⟨_, cs6', hcf, hc⟩ := bind_inv hc
  obtain ⟨x2, cs6, hx2, hc⟩ := bind_inv hc
  obtain ⟨rfl, rfl⟩ := curPos_inv hx2
  obtain ⟨shc, simc⟩ := ihc cs cs1 hcc hF.1.1
  have she1 := Shape.of_emit hj1
  obtain ⟨sht, simt⟩ := iht cs2 cs3 hct (by rw [she1.localIdx, shc.localIdx]; exact hF.1.2)
  have she2 := Shape.of_emit hj2
  obtain ⟨bsj1, hbsj1, hjp1, e2⟩ := emit_inv hj1
  obtain ⟨bsj2, hbsj2, hjp2, e4⟩ := emit_inv hj2
  obtain ⟨_, c1, c2, c3, c4, rfl, _⟩ := mk_w4 Compile.OpJumpFalsy rfl _ _ hbsj1
  obtain ⟨_, d1, d2, d3, d4, rfl, _⟩ := mk_w4 Compile.OpJump rfl _ _ hbsj2
  obtain ⟨opb1, bs1, hopb1, hbs1, e5⟩ := changeOperand_inv hp1
  have hsz2 : cs2.insts.size = cs1.insts.size + 5 := by rw [e2]; simp
  have hsz4 : cs4.insts.size = cs3.insts.size + 5 := by rw [e4]; simp
  have hle23 : cs2.insts.size ≤ cs3.insts.size := sht.pre.1
  have hop1 : cs2.insts[cs1.insts.size]? = some (UInt8.ofNat Compile.OpJumpFalsy) := by
    rw [e2]; exact emit_bytes (cs := cs1) _ 0 (by simp)
  have hopb1' : opb1 = UInt8.ofNat Compile.OpJumpFalsy := by
    rw [hjp1, getElem?_of_pre (sht.trans she2).pre hop1] at hopb1
    injection hopb1 with h; exact h.symm
  rw [hopb1'] at hbs1
  obtain ⟨_, b1, b2, b3, b4, rfl, hdec1⟩ := mk_w4 Compile.OpJumpFalsy rfl _ _ hbs1
  simp only [Int.toNat_natCast] at hdec1
  have hsz5 : cs5.insts.size = cs4.insts.size := by rw [e5]; exact Compile.size_patch _ _ _
  have sh4 : Shape cs cs4 := ((shc.trans she1).trans sht).trans she2
  have sh5 : Shape cs cs5 := by rw [e5]; exact sh4.patch _ _ (by rw [hjp1]; exact shc.pre.1)
  have hli5 : localIdx cs5 = localIdx cs := sh5.localIdx
  obtain ⟨shf, simf⟩ := ihf cs5 cs6 hcf (by rw [hli5]; exact hF.2)
  obtain ⟨opb2, bs2, hopb2, hbs2, e7⟩ := changeOperand_inv hc
  have hle56 : cs5.insts.size ≤ cs6.insts.size := shf.pre.1
  have hop2 : cs4.insts[cs3.insts.size]? = some (UInt8.ofNat Compile.OpJump) := by
    rw [e4]; exact emit_bytes (cs := cs3) _ 0 (by simp)
  have hins5 : cs5.insts = patch cs4.insts cs1.insts.size [UInt8.ofNat Compile.OpJumpFalsy, b1, b2, b3, b4] := by
    rw [e5, hjp1]
  have hopb2' : opb2 = UInt8.ofNat Compile.OpJump := by
    have h5 : cs5.insts[cs3.insts.size]? = some (UInt8.ofNat Compile.OpJump) := by
      rw [hins5, Compile.patch_get_ge _ _ _ _ (by simp; omega)]; exact hop2
    rw [hjp2, getElem?_of_pre shf.pre h5] at hopb2
    injection hopb2 with h; exact h.symm
  rw [hopb2'] at hbs2
  obtain ⟨_, e1, e2', e3, e4', rfl, hdec2⟩ := mk_w4 Compile.OpJump rfl _ _ hbs2
  simp only [Int.toNat_natCast] at hdec2
  have hsz' : cs'.insts.size = cs6.insts.size := by rw [e7]; exact Compile.size_patch _ _ _
  have hins' : cs'.insts = patch cs6.insts cs3.insts.size [UInt8.ofNat Compile.OpJump, e1, e2', e3, e4'] := by
    rw [e7, hjp2]
  have sh6 : Shape cs cs6 := sh5.trans shf
  have hsh : Shape cs cs' := by
    rw [e7]; exact sh6.patch _ _ (by rw [hjp2]; have := shc.pre.1; omega)
  refine ⟨hsh, ?_⟩
  intro K code bp lo env s tt fuel rr t1 hK hcode hvm hip hsp hloc hsem
  have hK6 : IsPre cs6.constants K := by
    have : cs'.constants = cs6.constants := by rw [e7]
    rw [← this]; exact hK
  have hlec : cs.insts.size ≤ cs1.insts.size := shc.pre.1
  -- the pieces of the final code
  have hcc' : CodeHas code cs1.insts cs.insts.size := by
    intro i h1 h2
    rw [hcode i h1 (by omega), hins', Compile.patch_get_lt _ _ _ _ (by omega), shf.pre.2 i (by omega), hins5,
      Compile.patch_get_lt _ _ _ _ h2, ((she1.trans sht).trans she2).pre.2 i h2]
  have hcj1 : ∀ k (hk : k < 5), code.insts[cs1.insts.size + k]? =
      [UInt8.ofNat Compile.OpJumpFalsy, b1, b2, b3, b4][k]? := by
    intro k hk
    rw [hcode _ (by omega) (by omega), hins', Compile.patch_get_lt _ _ _ _ (by omega), shf.pre.2 _ (by omega), hins5]
    exact Compile.patch_get_mid _ _ _ _ (by simpa using hk) (by simp; omega)
  have hct' : CodeHas code cs3.insts cs2.insts.size := by
    intro i h1 h2
    rw [hcode i (by omega) (by omega), hins', Compile.patch_get_lt _ _ _ _ h2, shf.pre.2 i (by omega), hins5,
      Compile.patch_get_ge _ _ _ _ (by simp; omega), she2.pre.2 i h2]
  have hcj2 : ∀ k (hk : k < 5), code.insts[cs3.insts.size + k]? =
      [UInt8.ofNat Compile.OpJump, e1, e2', e3, e4'][k]? := by
    intro k hk
    rw [hcode _ (by omega) (by omega), hins']
    exact Compile.patch_get_mid _ _ _ _ (by simpa using hk) (by simp; omega)
  have hcf' : CodeHas code cs6.insts cs5.insts.size := by
    intro i h1 h2
    rw [hcode i (by omega) (by omega), hins', Compile.patch_get_ge _ _ _ _ (by simp; omega)]
  cases fuel with
  | zero => exact (evalF_zero_ne hsem).elim
  | succ fuel =>
    simp only [evalF] at hsem
    simp only [need] at hsp
    have hnc := need_pos c
    have hnt := need_pos t
    have hnf := need_pos f
    have hlo := hvm.lo
    obtain ⟨rc, tc, hec, hsem⟩ := exec_bind_inv hsem
    have oc := simc K code bp lo env s tt fuel rc tc
      (Compile.IsPre.trans ((((she1.trans sht).trans she2).cpre.trans (by rw [e5]; exact Compile.IsPre.refl _)).trans shf.cpre) hK6)
      hcc' hvm hip (by omega) hloc hec
    cases rc with
    | thr a =>
      obtain ⟨rfl, rfl⟩ := exec_pure_inv hsem
      exact oc
    | val cv =>
      obtain ⟨rfl, hsc, s1, hr1, hs1, hh1, hip1, hsp1, hag1, hget1⟩ := oc
      obtain ⟨hvm1, hloc1⟩ := carry hvm hloc hs1 hh1 hag1 (by omega) (by omega)
      try simp only at hsem
      obtain ⟨fl, tf, hfl, hsem⟩ := exec_bind_inv hsem
      obtain ⟨rfl, hro⟩ := (pure_isFalsy hsc).runsOn hfl
      have hidx : s1.sp - 1 = s.sp := by omega
      obtain ⟨s2, hrun, hs2, hh2, hip2, hsp2, hst2⟩ := step_jumpFalsy F hvm1.code cs1.insts.size hip1 _ b1 b2 b3 b4
        (by simpa using hcj1 0 (by omega)) rfl
        (by simpa using hcj1 1 (by omega)) (by simpa using hcj1 2 (by omega))
        (by simpa using hcj1 3 (by omega)) (by simpa using hcj1 4 (by omega)) (by omega) fl s1.heap
        (by rw [hidx, hget1]; exact hro _)
      rw [hdec1] at hip2
      rw [hidx] at hst2
      have hag2 : AgreeBelow s.sp.toNat s.stack s2.stack := by rw [hst2]; exact hag1.set _ _ (Nat.le_refl _)
      have hag12 : AgreeBelow s.sp.toNat s1.stack s2.stack := by
        rw [hst2]; exact (AgreeBelow.refl _ _).set _ _ (Nat.le_refl _)
      obtain ⟨hvm2, hloc2⟩ := carry hvm1 hloc1 hs2 hh2 hag12 (by omega) (by omega)
      have hreach2 := hr1.trans (Reach.step hvm1.abort hrun)
      have hh02 : s2.heap = s.heap := by rw [hh2, hh1]
      cases fl with
      | true =>
        simp only [if_true] at hip2 hsem
        have of_ := simf K code bp lo env s2 tt fuel rr t1 hK6 hcf' hvm2 (by omega) (by omega)
          (by rw [hli5]; exact hloc2) hsem
        rw [← hsz'] at of_
        exact Outcome.via hreach2 (hs1.trans hs2) hh02 hag2 (by omega) of_
      | false =>
        simp only [Bool.false_eq_true, if_false] at hip2 hsem
        have ot := simt K code bp lo env s2 tt fuel rr t1
          (Compile.IsPre.trans ((she2.cpre.trans (by rw [e5]; exact Compile.IsPre.refl _)).trans shf.cpre) hK6)
          hct' hvm2 (by omega) (by omega)
          (by rw [she1.localIdx, shc.localIdx]; exact hloc2) hsem
        cases rr with
        | thr a => exact Outcome.via hreach2 (hs1.trans hs2) hh02 hag2 (by omega) ot
        | val v =>
          obtain ⟨ht1, hsv, otv⟩ := ot
          have ot' : OutV F s2 cs'.insts.size v := by
            refine OutV.then_jump otv ?_ hvm2.abort
            intro s3 hs3 hh3 hip3
            have hc3 : CodeAt s3 code := hvm2.code.of_same hs3 hh3
            obtain ⟨s4, hrun4, hs4, hh4, hip4, hsp4, hst4⟩ := step_jump F hc3 cs3.insts.size hip3 _ e1 e2' e3 e4'
              (by simpa using hcj2 0 (by omega)) rfl
              (by simpa using hcj2 1 (by omega)) (by simpa using hcj2 2 (by omega))
              (by simpa using hcj2 3 (by omega)) (by simpa using hcj2 4 (by omega))
            exact ⟨s4, hrun4, hs4, hh4, by rw [hdec2] at hip4; omega, hsp4, hst4⟩
          exact Outcome.via hreach2 (hs1.trans hs2) hh02 hag2 (by omega) ⟨ht1, hsv, ot'⟩


theorem good_cond (F : FloatOps) (pos : Pos) (c t f : Expr) (ihc : Good F c) (iht : Good F t) (ihf : Good F f) :
    Good F (.cond pos c t f) := by
  intro cs cs' hc hF
  by_cases hb : ∃ p b, c = Expr.bool p b
  · -- a boolean literal as condition: only the chosen branch is compiled
    obtain ⟨p, b, rfl⟩ := hb
    rw [compileExpr] at hc
    simp only [ExprF, Bool.and_eq_true, true_and] at hF
    have hsim : ∀ (x : Expr), Good F x → ExprF (localIdx cs) x = true → runCM (compileExpr x) cs = (.ok (), cs') →
        (∀ fuel env, (if (!b) = true then evalF F fuel env f else evalF F fuel env t) = evalF F fuel env x) →
        need x ≤ max (need t) (need f) →
        Shape cs cs' ∧ SimAt F (.cond pos (.bool p b) t f) cs cs' := by
      intro x ihx hFx hcx hev hnx
      obtain ⟨shx, simx⟩ := ihx cs cs' hcx hFx
      refine ⟨shx, ?_⟩
      intro K code bp lo env s tt fuel rr t1 hK hcode hvm hip hsp hloc hsem
      cases fuel with
      | zero => exact (evalF_zero_ne hsem).elim
      | succ fuel =>
        simp only [evalF] at hsem
        simp only [need] at hsp
        obtain ⟨rc, tc, hec, hsem2⟩ := exec_bind_inv hsem
        clear hsem
        cases fuel with
        | zero => exact (evalF_zero_ne hec).elim
        | succ fuel =>
          simp only [evalF] at hec
          obtain ⟨rfl, rfl⟩ := exec_pure_inv hec
          obtain ⟨fl, tf, hfl, hsem⟩ := exec_bind_inv hsem2
          rw [exec_isFalsy_bool] at hfl
          simp only [Prod.mk.injEq, Except.ok.injEq] at hfl
          obtain ⟨rfl, rfl⟩ := hfl
          rw [hev] at hsem
          exact simx K code bp lo env s tc (fuel + 1) rr t1 hK hcode hvm hip (by omega) hloc hsem
    cases b with
    | true =>
      simp only [if_true] at hc
      exact hsim t iht hF.1 hc (fun _ _ => by simp) (Nat.le_max_left _ _)
    | false =>
      simp only [Bool.false_eq_true, if_false] at hc
      exact hsim f ihf hF.2 hc (fun _ _ => by simp) (Nat.le_max_right _ _)
  · rw [compileExpr] at hc
    · exact good_cond_gen F pos c t f ihc iht ihf cs cs' hc hF
    · intro p b h; exact hb ⟨p, b, h⟩

/-- every expression of the fragment: shape of the compile run and the simulation -/
theorem good_all (F : FloatOps) : ∀ e : Expr, Good F e
  | .int pos v => good_const F _ pos (.int v) (by rw [compileExpr]) (fun _ _ => by simp only [evalF]; rfl) rfl
  | .uint pos v => good_const F _ pos (.uint v) (by rw [compileExpr]) (fun _ _ => by simp only [evalF]; rfl) rfl
  | .float pos v => good_const F _ pos (.float v) (by rw [compileExpr]) (fun _ _ => by simp only [evalF]; rfl) rfl
  | .char pos v => good_const F _ pos (.char v) (by rw [compileExpr]) (fun _ _ => by simp only [evalF]; rfl) rfl
  | .str pos v => good_const F _ pos (.str v) (by rw [compileExpr]) (fun _ _ => by simp only [evalF]; rfl) rfl
  | .bool pos true => good_push0 F _ pos 41 (.bool true) (.inr (.inl ⟨rfl, rfl⟩)) (by rw [compileExpr]; rfl)
      (fun _ _ => by simp only [evalF]) rfl
  | .bool pos false => good_push0 F _ pos 42 (.bool false) (.inr (.inr ⟨rfl, rfl⟩)) (by rw [compileExpr]; rfl)
      (fun _ _ => by simp only [evalF]) rfl
  | .undef pos => good_push0 F _ pos 21 .undefined (.inl ⟨rfl, rfl⟩) (by rw [compileExpr]; rfl)
      (fun _ _ => by simp only [evalF]) rfl
  | .ident pos name => good_ident F pos name
  | .paren pos x => good_paren F pos x (good_all F x)
  | .unary pos tok x => good_unary F pos tok x (good_all F x)
  | .binary pos tok l r => by
    by_cases hsc : (tok == tLAnd || tok == tLOr) = true
    · exact good_binary_sc F pos tok l r (good_all F l) (good_all F r) hsc
    · have h : (tok == tLAnd) = false ∧ (tok == tLOr) = false := by
        simpa [Bool.or_eq_true, not_or] using hsc
      exact good_binary_strict F pos tok l r (good_all F l) (good_all F r) h.1 h.2
  | .cond pos c t f => good_cond F pos c t f (good_all F c) (good_all F t) (good_all F f)
  | .array .. | .map .. | .index .. | .selector .. | .slice .. | .call .. | .func .. | .import_ .. =>
    fun cs cs' hc hF => by simp [ExprF] at hF

end UgoVerif.CompSim
