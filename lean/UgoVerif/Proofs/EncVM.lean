import UgoVerif.Spec.EncVM
import UgoVerif.Proofs.EncBytecode
import UgoVerif.Proofs.EncNorm
/-
  Helper lemmas for the behavioural half of C04: the VM state a bytecode denotes does not
  change under `norm`; `fixObjects` is the identity on bytecode without module constants.
-/
namespace UgoVerif.Proofs.Enc
open UgoVerif UgoVerif.Go UgoVerif.Model.Enc UgoVerif.Spec.Enc UgoVerif.Spec.EncVM UgoVerif.VM

/-- the VM's view of a compiled function does not see what `normCF` changes: a non-positive
    count is 0 in the Nat-typed `Code`, `Free` and the source map are not part of it -/
theorem codeOfCF_normCF (f : CF) : codeOfCF (normCF f) = codeOfCF f := by
  obtain ⟨np, nl, ins, va, nf, sm⟩ := f
  unfold codeOfCF normCF
  simp only
  have h : ∀ v : BitVec 64, (if 0 < v.toInt then v else 0).toInt.toNat = v.toInt.toNat := by
    intro v; split
    · rfl
    · simp; omega
  rw [h, h]

theorem load_norm (H : Host) (bc : BC) : load H (normBC bc) = load H bc := by
  unfold load; rw [normBC_idem]

/-- `norm_run`: the normal form runs to the same outcome — the two initial VM states are equal -/
theorem run_norm (F : FloatOps) (H : Host) (bc : BC) (i : Inputs) : run F H (normBC bc) i = run F H bc i := by
  unfold run; rw [load_norm]

/-- equal normal forms, equal runs -/
theorem run_congr_norm (F : FloatOps) (H : Host) (bc bc' : BC) (h : normBC bc' = normBC bc) (i : Inputs) :
    run F H bc' i = run F H bc i := by
  rw [← run_norm F H bc', h, run_norm]

/-- well-formed bytecode: what `Compile` returns, as far as the serializer can tell — compiled
    functions are well-formed (`WFCF`: counts ≥ 0, no free variables, source-map keys unique),
    constants are well-formed values, the module count is not negative -/
structure WFBC (bc : BC) : Prop where
  main : ∀ f, bc.main = some f → WFCF f
  consts : ∀ cs, bc.constants = some cs → WFL cs
  mods : 0 ≤ bc.numModules.toInt

theorem normBC_of_WF (bc : BC) (h : WFBC bc) : normBC bc = bc := by
  obtain ⟨fs, mn, cs, nm⟩ := bc
  obtain ⟨h1, h2, h3⟩ := h
  simp only at h1 h2 h3
  unfold normBC
  simp only
  have e : (if 0 < nm.toInt then nm else 0) = nm := by
    split
    · rfl
    · have : nm.toInt = 0 := by omega
      exact (BitVec.toInt_inj.mp (by simpa using this)).symm
  rw [e]
  cases mn with
  | none =>
    cases cs with
    | none => rfl
    | some cs => simp [normList_of_WF cs (h2 cs rfl)]
  | some f =>
    cases cs with
    | none => simp [normCF_of_WF f (h1 f rfl)]
    | some cs => simp [normCF_of_WF f (h1 f rfl), normList_of_WF cs (h2 cs rfl)]

/-- on well-formed bytecode `load` is the plain construction of the denoted objects -/
theorem load_of_WF (H : Host) (bc : BC) (h : WFBC bc) : load H bc = loadRaw H bc := by
  unfold load; rw [normBC_of_WF bc h]

/-! ### the plain loader does not see `norm` either (unique map keys) -/

theorem keys_normKVs' (kvs : List (Bytes × Obj)) : keys (normKVs kvs) = keys kvs := by
  induction kvs with
  | nil => rfl
  | cons kv rest ih => obtain ⟨k, v⟩ := kv; simp only [normKVs, keys, List.map_cons] at ih ⊢; rw [ih]

mutual
/-- map keys are unique, recursively (the value is a tree of Go maps); nothing is required of
    compiled functions: negative counts, a non-empty `Free`, repeated source-map keys are allowed -/
def KeysOK : Obj → Prop
  | .array xs => KeysOKL xs
  | .map kvs => (keys kvs).Nodup ∧ KeysOKKV kvs
  | _ => True
def KeysOKL : List Obj → Prop
  | [] => True
  | x :: xs => KeysOK x ∧ KeysOKL xs
def KeysOKKV : List (Bytes × Obj) → Prop
  | [] => True
  | (_, v) :: rest => KeysOK v ∧ KeysOKKV rest
end

/-- the identity of an opaque host object does not depend on how its contents are written down -/
def HostNorm (H : Host) : Prop := ∀ o, H.objId (norm o) = H.objId o

mutual
theorem loadObj_norm (H : Host) (hH : HostNorm H) : ∀ (o : Obj) (l : L), KeysOK o → loadObj H (norm o) l = loadObj H o l
  | .array xs, l, h => by
    simp only [norm, loadObj]
    rw [loadList_norm H hH xs l (by simpa [KeysOK] using h)]
  | .map kvs, l, h => by
    simp only [KeysOK] at h
    simp only [norm, loadObj]
    rw [mapOfList_of_nodup (normKVs kvs) (by rw [keys_normKVs']; exact h.1), loadKVs_norm H hH kvs l h.2]
  | .syncMap true kvs, l, _ => by
    have := hH (.syncMap true kvs)
    simp only [norm] at this
    simp only [norm, loadObj, this]
  | .syncMap false kvs, l, _ => by
    have := hH (.syncMap false kvs)
    simp only [norm] at this
    simp only [norm, loadObj, this]
  | .compiledFunction f, l, _ => by simp only [norm, loadObj, allocCF, codeOfCF_normCF]
  | .nil, _, _ => rfl
  | .undefined, _, _ => rfl
  | .bool _, _, _ => rfl
  | .int _, _, _ => rfl
  | .uint _, _, _ => rfl
  | .char _, _, _ => rfl
  | .float _, _, _ => rfl
  | .str _, _, _ => rfl
  | .bytes _, _, _ => rfl
  | .function _, _, _ => rfl
  | .builtinFunction _, _, _ => rfl
  | .gob _ _, _, _ => rfl
theorem loadList_norm (H : Host) (hH : HostNorm H) : ∀ (xs : List Obj) (l : L), KeysOKL xs →
    loadList H (normList xs) l = loadList H xs l
  | [], _, _ => rfl
  | x :: xs, l, h => by
    simp only [KeysOKL] at h
    simp only [normList, loadList]
    rw [loadObj_norm H hH x l h.1, loadList_norm H hH xs _ h.2]
theorem loadKVs_norm (H : Host) (hH : HostNorm H) : ∀ (kvs : List (Bytes × Obj)) (l : L), KeysOKKV kvs →
    loadKVs H (normKVs kvs) l = loadKVs H kvs l
  | [], _, _ => rfl
  | (k, v) :: kvs, l, h => by
    simp only [KeysOKKV] at h
    simp only [normKVs, loadKVs]
    rw [loadObj_norm H hH v l h.1, loadKVs_norm H hH kvs _ h.2]
end

/-- `loadRaw` itself is blind to `norm` on bytecode whose maps are Go maps: what `norm` changes
    besides collapsing repeated keys — non-positive counts, the `Free` list, the source maps —
    is not part of the VM state -/
theorem loadRaw_norm (H : Host) (hH : HostNorm H) (bc : BC) (h : ∀ cs, bc.constants = some cs → KeysOKL cs) :
    loadRaw H (normBC bc) = loadRaw H bc := by
  obtain ⟨fs, mn, cs, nm⟩ := bc
  have hnm : (if 0 < nm.toInt then nm else 0).toInt.toNat = nm.toInt.toNat := by
    split
    · rfl
    · simp; omega
  unfold loadRaw normBC
  simp only [hnm]
  cases cs with
  | none => cases mn <;> simp [allocCF, codeOfCF_normCF]
  | some cs =>
    have hl := fun l => loadList_norm H hH cs l (h cs rfl)
    cases mn <;> simp [hl, allocCF, codeOfCF_normCF]

/-! ### `fixObjects` without module constants -/

/-- a constant that `fixObjects` leaves alone: not a map holding the `__module_name__` key
    with a string value -/
def NotModule : Obj → Prop
  | .map kvs => ∀ name, lookupKV attrModuleName kvs ≠ some (.str name)
  | _ => True

theorem fixConst_id (mods : Mods) (o : Obj) (h : NotModule o) : fixConst mods o = .ok o := by
  unfold fixConst
  split
  · rename_i kvs
    split
    · rename_i name hl
      exact absurd hl (h name)
    · rfl
  · rfl

theorem fixConsts_id (mods : Mods) : ∀ cs : List Obj, (∀ o ∈ cs, NotModule o) → fixConsts mods cs = .ok cs
  | [], _ => rfl
  | o :: rest, h => by
    unfold fixConsts
    rw [fixConst_id mods o (h o (List.mem_cons_self ..)),
      fixConsts_id mods rest (fun o' ho' => h o' (List.mem_cons_of_mem _ ho'))]
    rfl

theorem fixObjects_id (mods : Mods) (bc : BC) (h : ∀ cs, bc.constants = some cs → ∀ o ∈ cs, NotModule o) :
    fixObjects mods bc = .ok bc := by
  unfold fixObjects
  cases hc : bc.constants with
  | none => rfl
  | some cs =>
    simp only
    rw [fixConsts_id mods cs (h cs hc)]
    simp only [Res.bind_ok, Res.pure_eq]
    rw [← hc]

/-! ### `fixObjects` in general: constant by constant -/

/-- `fixObjects` on the decoded (= normalised) constant `c` succeeds and gives a constant with
    the same normal form -/
def FixOK (mods : Mods) (c : Obj) : Prop := ∃ c', fixConst mods (norm c) = .ok c' ∧ norm c' = norm c

theorem FixOK_notModule (mods : Mods) (c : Obj) (h : NotModule (norm c)) : FixOK mods c :=
  ⟨norm c, fixConst_id mods _ h, norm_idem c⟩

theorem keys_normKVs (kvs : List (Bytes × Obj)) : keys (normKVs kvs) = keys kvs := by
  induction kvs with
  | nil => rfl
  | cons kv rest ih => obtain ⟨k, v⟩ := kv; simp only [normKVs, keys, List.map_cons] at ih ⊢; rw [ih]

/-- a constant imported from the builtin module `name` (its entries: the module's attributes and
    the module-name entry, unique keys) is re-bound to exactly the original constant -/
theorem FixOK_module (mods : Mods) (name : Bytes) (attrs items : List (Bytes × Obj))
    (hm : mods name = some attrs) (hk : (keys items).Nodup)
    (hname : lookupKV attrModuleName items = some (.str name))
    (hitems : ∀ k v, (k, v) ∈ items → (k = attrModuleName ∧ v = .str name) ∨
      (k ≠ attrModuleName ∧ lookupKV k attrs = some v)) :
    FixOK mods (.map items) := by
  refine ⟨.map items, ?_, rfl⟩
  simp only [norm]
  rw [mapOfList_of_nodup (normKVs items) (by rw [keys_normKVs]; exact hk)]
  exact fix_rebinds mods name attrs items hm hname hitems

theorem fixConsts_of_FixOK (mods : Mods) : ∀ cs : List Obj, (∀ c ∈ cs, FixOK mods c) →
    ∃ cs', fixConsts mods (normList cs) = .ok cs' ∧ normList cs' = normList cs
  | [], _ => ⟨[], rfl, rfl⟩
  | c :: rest, h => by
    obtain ⟨c', h1, h2⟩ := h c (List.mem_cons_self ..)
    obtain ⟨rest', h3, h4⟩ := fixConsts_of_FixOK mods rest (fun c' hc' => h c' (List.mem_cons_of_mem _ hc'))
    refine ⟨c' :: rest', ?_, ?_⟩
    · simp only [normList, fixConsts, h1, h3, Res.bind_ok, Res.pure_eq]
    · simp only [normList, h2, h4]

/-- `fixObjects` on the decoded bytecode succeeds and does not change the normal form -/
theorem fixObjects_of_FixOK (mods : Mods) (bc : BC)
    (h : ∀ cs, bc.constants = some cs → ∀ c ∈ cs, FixOK mods c) :
    ∃ bc', fixObjects mods (normBC bc) = .ok bc' ∧ normBC bc' = normBC bc := by
  obtain ⟨fs, mn, cs, nm⟩ := bc
  cases cs with
  | none => exact ⟨_, rfl, normBC_idem _⟩
  | some cs =>
    obtain ⟨cs', h1, h2⟩ := fixConsts_of_FixOK mods cs (h cs rfl)
    refine ⟨{ normBC ⟨fs, mn, some cs, nm⟩ with constants := some cs' }, ?_, ?_⟩
    · unfold fixObjects
      simp only [normBC, Option.map_some, h1, Res.bind_ok, Res.pure_eq]
    · have hi := normBC_idem ⟨fs, mn, some cs, nm⟩
      unfold normBC at hi ⊢
      simp only [Option.map_some, BC.mk.injEq] at hi ⊢
      refine ⟨hi.1, hi.2.1, ?_, hi.2.2.2⟩
      rw [h2]

end UgoVerif.Proofs.Enc
