import UgoVerif.Proofs.VMLive
/-
  Lifting of step-level liveness to whole runs: if a relation `R ⊆ liveEq` is preserved by
  one instruction (`step`) and by `handlePanic`, then `runFrom.go` — the loop, the
  `recover` wrapper with its reruns, the deferred `clearCurrentFrame`, the epilogue —
  returns the same outcome from `R`-related states, for every fuel.
-/
namespace UgoVerif.VM
open UgoVerif UgoVerif.Go

/-- both runs end the same way (normally or not) and leave related states -/
def Both {α} (R : State → State → Prop) (x y : Except Exc α × State) : Prop :=
  x.1 = y.1 ∧ R x.2 y.2

/-- what the lifting needs from a relation -/
structure LiveRel (F : FloatOps) (R : State → State → Prop) : Prop where
  toLive : ∀ {s t}, R s t → liveEq s t
  /-- one instruction -/
  step : ∀ s t, R s t → Both R (exec (step F) s) (exec (step F) t)
  /-- the recovery path -/
  panic : ∀ m s t, R s t → Both R (exec (handlePanic m) s) (exec (handlePanic m) t)
  /-- `vm.err = ErrVMAborted` -/
  abort : ∀ s t, R s t → R { s with err := some .aborted } { t with err := some .aborted }
  /-- the deferred `clearCurrentFrame` -/
  ccf : ∀ s t, R s t → R (exec clearCurrentFrame s).2 (exec clearCurrentFrame t).2

variable {F : FloatOps} {R : State → State → Prop}

theorem loopF_live (hR : LiveRel F R) (fuel : Nat) : ∀ s t, R s t → Both R (exec (loopF F fuel) s) (exec (loopF F fuel) t) := by
  induction fuel with
  | zero => intro s t h; exact ⟨rfl, h⟩
  | succ n ih =>
    intro s t h
    unfold loopF
    simp only [exec_bind, exec_getS]
    have hab := (hR.toLive h).abort
    rw [← hab]
    by_cases ha : s.abort = true
    · simp only [ha, if_true, exec_modS, exec_pure]
      exact ⟨rfl, hR.abort s t h⟩
    · have ha' : s.abort = false := by simpa using ha
      have hs := hR.step s t h
      rcases h1 : exec (step F) s with ⟨r1, s1⟩
      rcases h2 : exec (step F) t with ⟨r2, t1⟩
      rw [h1, h2] at hs
      obtain ⟨hr, hR1⟩ := hs
      simp only at hr hR1
      subst hr
      simp only [ha', Bool.false_eq_true, if_false, exec_bind, h1, h2]
      cases r1 with
      | error e => exact ⟨rfl, hR1⟩
      | ok c =>
        cases c with
        | ret => exact ⟨rfl, hR1⟩
        | next => exact ih s1 t1 hR1

/-- the value `Run` returns: `vm.stack[vm.sp-1]`, dereferenced when it is an `*ObjectPtr` -/
def topVal (sp : Int) : M V := do
  let v ← stackGet (sp - 1)
  match v with
  | .box a => do match (← heapGet a) with | .box v => pure v | _ => unsupported "model: bad box"
  | v => pure v

theorem finish_eq (s : State) : runFrom.finish s =
    match s.err with
    | some e => (.error e, s)
    | none =>
      if s.sp < (stackSize : Int) then
        match exec (topVal s.sp) s with
        | (.ok v, s) => (.value v, s)
        | (.error (.panic m), s) => (.goPanic m, s)
        | (.error (.unsupported m), s) => (.unsupported m, s)
      else (.error .stackOverflow, s) := by
  unfold runFrom.finish; rfl

theorem exec_stackGet (i : Int) (s : State) :
    exec (stackGet i) s =
      if (decide (i < 0) || decide (i ≥ (stackSize : Int))) = true then
        (.error (.panic s!"runtime error: index out of range [{i}] with length {stackSize}"), s)
      else (.ok (s.stack[i.toNat]!), s) := by
  unfold stackGet
  simp only [exec_bind, exec_getS]
  split <;> rfl

theorem exec_heapGet (a : Addr) (s : State) :
    exec (heapGet a) s = match s.heap[a]? with
      | some c => (.ok c, s)
      | none => (.error (.unsupported "model: dangling address"), s) := by
  unfold heapGet
  simp only [exec_bind, exec_getS]
  cases s.heap[a]? <;> rfl

theorem topVal_live (s t : State) (h : liveEq s t) : (exec (topVal s.sp) s).1 = (exec (topVal s.sp) t).1 := by
  simp only [topVal, exec_bind, exec_stackGet]
  by_cases hb : (decide (s.sp - 1 < 0) || decide (s.sp - 1 ≥ (stackSize : Int))) = true
  · rw [if_pos hb, if_pos hb]
  · rw [if_neg hb, if_neg hb]
    have hlt : ((s.sp - 1).toNat : Int) < s.sp := by
      simp only [Bool.or_eq_true, decide_eq_true_eq, not_or, Int.not_lt] at hb
      omega
    simp only
    rw [← h.stack _ hlt]
    generalize s.stack[(s.sp - 1).toNat]! = v
    cases v <;> try rfl
    rename_i a
    simp only [exec_bind, exec_heapGet, ← h.heap]
    cases s.heap[a]? with
    | none => rfl
    | some c => cases c <;> rfl

theorem finish_live (s t : State) (h : liveEq s t) : (runFrom.finish s).1 = (runFrom.finish t).1 := by
  rw [finish_eq, finish_eq, ← h.err, ← h.sp]
  cases he : s.err with
  | some e => rfl
  | none =>
    simp only
    by_cases hsp : s.sp < (stackSize : Int)
    · rw [if_pos hsp, if_pos hsp]
      have key := topVal_live s t h
      rcases h1 : exec (topVal s.sp) s with ⟨r1, s1⟩
      rcases h2 : exec (topVal s.sp) t with ⟨r2, t1⟩
      rw [h1, h2] at key
      simp only at key
      subst key
      cases r1 with
      | ok v => rfl
      | error e => cases e <;> rfl
    · rw [if_neg hsp, if_neg hsp]

theorem go_live (hR : LiveRel F R) (reruns : Nat) : ∀ (fuel : Nat) (s t : State), R s t →
    (runFrom.go F reruns fuel s).1 = (runFrom.go F reruns fuel t).1 := by
  induction reruns with
  | zero => intro fuel s t _; unfold runFrom.go; rfl
  | succ n ih =>
    intro fuel s t h
    unfold runFrom.go
    have hl := loopF_live hR fuel s t h
    unfold exec at hl
    rcases h1 : (loopF F fuel).run.run s with ⟨r1, s1⟩
    rcases h2 : (loopF F fuel).run.run t with ⟨r2, t1⟩
    rw [h1, h2] at hl
    obtain ⟨hr, hR1⟩ := hl
    simp only at hr hR1
    subst hr
    cases r1 with
    | ok o =>
      cases o with
      | none => rfl
      | some u =>
        simp only
        have := hR.ccf s1 t1 hR1
        unfold exec at this
        rcases h3 : clearCurrentFrame.run.run s1 with ⟨r3, s3⟩
        rcases h4 : clearCurrentFrame.run.run t1 with ⟨r4, t3⟩
        rw [h3, h4] at this
        exact finish_live _ _ (hR.toLive this)
    | error e =>
      cases e with
      | unsupported m => rfl
      | panic m =>
        simp only
        rw [← (hR.toLive hR1).noPanic]
        by_cases hnp : s1.noPanic = true
        · simp only [hnp, if_true]
          have hp := hR.panic m s1 t1 hR1
          unfold exec at hp
          rcases h5 : (handlePanic m).run.run s1 with ⟨r5, s5⟩
          rcases h6 : (handlePanic m).run.run t1 with ⟨r6, t5⟩
          rw [h5, h6] at hp
          obtain ⟨hr5, hR5⟩ := hp
          simp only at hr5 hR5
          subst hr5
          cases r5 with
          | error e => cases e <;> rfl
          | ok u =>
            simp only
            rw [← (hR.toLive hR5).err, ← (hR.toLive hR5).steps]
            by_cases hen : s5.err.isNone = true
            · simp only [hen, if_true]
              exact ih _ _ _ hR5
            · simp only [hen]
              exact finish_live _ _ (hR.toLive hR5)
        · simp only [hnp]
          rfl

theorem getElem!_modify (a : Array Frame) (c i : Nat) (f : Frame → Frame) :
    (a.modify c f)[i]! = if c = i ∧ i < a.size then f a[i]! else a[i]! := by
  by_cases hi : i < a.size
  · simp [hi, Array.getElem_modify]
  · simp [hi]

theorem exec_clearCurrentFrame (s : State) :
    exec clearCurrentFrame s =
      (.ok (), { s with frames := (s.frames.modify s.curFrame (fun f => { f with free := none, fn := none, handlers := none })) }) := rfl

/-- the deferred `clearCurrentFrame` of `run()` keeps `liveEq` -/
theorem liveEq_ccf (s t : State) (h : liveEq s t) :
    liveEq (exec clearCurrentFrame s).2 (exec clearCurrentFrame t).2 := by
  rw [exec_clearCurrentFrame, exec_clearCurrentFrame]
  refine { h with framesSize := by simp [h.framesSize]
                  , cur := ?_, below := ?_ }
  · show FrameLive ((s.frames.modify s.curFrame _)[s.curFrame]!) ((t.frames.modify t.curFrame _)[t.curFrame]!)
    rw [getElem!_modify, getElem!_modify, ← h.curFrame, ← h.framesSize]
    by_cases hc : s.curFrame < s.frames.size
    · simp only [hc, and_self, if_true]
      have := h.cur
      rw [← h.curFrame] at this
      exact ⟨rfl, rfl, this.bp, rfl, this.discard⟩
    · simp only [hc, and_false, if_false]
      have := h.cur
      rw [← h.curFrame] at this
      exact this
  · intro i hi
    have hi' : (i : Int) + 2 ≤ s.frameIndex := hi
    show (s.frames.modify s.curFrame _)[i]! = (t.frames.modify t.curFrame _)[i]!
    rw [getElem!_modify, getElem!_modify, ← h.curFrame]
    have hne : ¬ (s.curFrame = i) := by
      intro e
      have := h.link
      subst e
      omega
    simp only [hne, false_and, if_false]
    exact h.below i hi'

theorem liveEq_abort (s t : State) (h : liveEq s t) :
    liveEq { s with err := some .aborted } { t with err := some .aborted } :=
  { h with err := rfl }

/-- `liveEq` meets the requirements of the lifting, given liveness of one instruction and
    of the recovery path (the two named hypotheses of the `…_partial` theorems) -/
theorem liveRel_liveEq {F : FloatOps}
    (hstep : ∀ s t, liveEq s t → Both liveEq (exec (step F) s) (exec (step F) t))
    (hpanic : ∀ m s t, liveEq s t → Both liveEq (exec (handlePanic m) s) (exec (handlePanic m) t)) :
    LiveRel F liveEq :=
  { toLive := fun h => h, step := hstep, panic := hpanic, abort := liveEq_abort, ccf := liveEq_ccf }

/-- `Run` from two states that the prologue maps to `R`-related states -/
theorem runFrom_live {F : FloatOps} {R : State → State → Prop} (hR : LiveRel F R) (fuel : Nat) (g : V) (args : List V)
    (s t : State)
    (hpro : SameEnd R (exec (prologue g args) s) (exec (prologue g args) t)) :
    (runFrom F fuel g args s).1 = (runFrom F fuel g args t).1 := by
  unfold runFrom
  unfold exec at hpro
  rcases h1 : (prologue g args).run.run s with ⟨r1, s1⟩
  rcases h2 : (prologue g args).run.run t with ⟨r2, t1⟩
  rw [h1, h2] at hpro
  cases r1 <;> cases r2 <;> simp only [SameEnd] at hpro
  · subst hpro
    rename_i e
    cases e <;> rfl
  · exact go_live hR fuel fuel s1 t1 hpro.2

end UgoVerif.VM
