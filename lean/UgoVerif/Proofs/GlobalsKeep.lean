import UgoVerif.Proofs.VMImmut
import Lean.Elab.Tactic
/-
  C14: no instruction assigns the field `vm.globals` (the globals OBJECT may be mutated in the heap; the field gkeeps
  pointing to it).  The invariant calculus `Keeps` and the tactic of Proofs/VMImmut.lean, instantiated for
  `fun s => s.globals = G` (generated from that file by renaming: every primitive, every opcode function, `step`).
-/
namespace UgoVerif.VM
open UgoVerif UgoVerif.Go

/-- the globals field of the state is `G` -/
@[reducible] def GlobIs (G : V) (s : State) : Prop := s.globals = G

/-- closes the goal with a local hypothesis `∀ …, Keeps P (f …)` (join points, induction hypotheses) -/
elab "gkeeps_hyp" : tactic => do
  let g ← Lean.Elab.Tactic.getMainGoal
  g.withContext do
    for d in (← Lean.getLCtx) do
      if d.isImplementationDetail then continue
      let ok ← Lean.commitWhen do
        try
          let gs ← Lean.Meta.withReducible (g.apply d.toExpr)
          pure gs.isEmpty
        catch _ => pure false
      if ok then
        Lean.Elab.Tactic.replaceMainGoal []
        return
    throwError "gkeeps_hyp: no hypothesis applies"

syntax "gkeeps_prim" : tactic
macro_rules | `(tactic| gkeeps_prim) => `(tactic| exact Keeps.pure _)
macro_rules | `(tactic| gkeeps_prim) => `(tactic| exact Keeps.panic _)
macro_rules | `(tactic| gkeeps_prim) => `(tactic| exact Keeps.unsupported _)
macro_rules | `(tactic| gkeeps_prim) => `(tactic| exact Keeps.throw _)
macro_rules | `(tactic| gkeeps_prim) => `(tactic| exact Keeps.getS)
macro_rules | `(tactic| gkeeps_prim) => `(tactic| exact Keeps.get)
macro_rules | `(tactic| gkeeps_prim) => `(tactic| exact Keeps.modS (fun _ h => h))
macro_rules | `(tactic| gkeeps_prim) => `(tactic| exact Keeps.set' (by assumption))
macro_rules | `(tactic| gkeeps_prim) => `(tactic| gkeeps_hyp)

/-- structural decomposition of a `do` block.  Join points and local functions
    (`have jp := fun … => …; body`) are proved once and then abstracted, so that their
    bodies are not duplicated at every call site. -/
syntax "gkeeps" : tactic
set_option hygiene false in
macro_rules | `(tactic| gkeeps) => `(tactic|
  repeat (first
    | with_reducible gkeeps_prim
    | apply Keeps.bind
    | apply Keeps.ite
    | apply Keeps.forIn_range
    | apply Keeps.forIn_list
    | ((first | lift_lets | skip); intro jp__;
       first
       | (have hjp__ : Keeps (GlobIs G) jp__ := by
            (dsimp only [jp__]; gkeeps)
          clear_value jp__)
       | (have hjp__ : ∀ a__, Keeps (GlobIs G) (jp__ a__) := by
            (intro a__; dsimp only [jp__]; gkeeps)
          clear_value jp__)
       | (have hjp__ : ∀ a__ b__, Keeps (GlobIs G) (jp__ a__ b__) := by
            (intro a__ b__; dsimp only [jp__]; gkeeps)
          clear_value jp__)
       | (have hjp__ : ∀ a__ b__ c__, Keeps (GlobIs G) (jp__ a__ b__ c__) := by
            (intro a__ b__ c__; dsimp only [jp__]; gkeeps)
          clear_value jp__)
       | clear_value jp__)
    | intro _
    | split
    | dsimp only))

set_option maxHeartbeats 1600000
section
variable {G : V}
local notation "P" => GlobIs G

theorem gkeeps_stackGet (i : Int) : Keeps P (stackGet i) := by unfold stackGet; gkeeps
macro_rules | `(tactic| gkeeps_prim) => `(tactic| exact gkeeps_stackGet _)
theorem gkeeps_stackSet (i : Int) (v : V) : Keeps P (stackSet i v) := by unfold stackSet; gkeeps
macro_rules | `(tactic| gkeeps_prim) => `(tactic| exact gkeeps_stackSet _ _)
theorem gkeeps_getSp : Keeps P getSp := by unfold getSp; gkeeps
macro_rules | `(tactic| gkeeps_prim) => `(tactic| exact gkeeps_getSp)
theorem gkeeps_setSp (v : Int) : Keeps P (setSp v) := by unfold setSp; gkeeps
macro_rules | `(tactic| gkeeps_prim) => `(tactic| exact gkeeps_setSp _)
theorem gkeeps_getIp : Keeps P getIp := by unfold getIp; gkeeps
macro_rules | `(tactic| gkeeps_prim) => `(tactic| exact gkeeps_getIp)
theorem gkeeps_setIp (v : Int) : Keeps P (setIp v) := by unfold setIp; gkeeps
macro_rules | `(tactic| gkeeps_prim) => `(tactic| exact gkeeps_setIp _)
theorem gkeeps_curFrame : Keeps P curFrame := by unfold curFrame; gkeeps
macro_rules | `(tactic| gkeeps_prim) => `(tactic| exact gkeeps_curFrame)
theorem gkeeps_setCurFrame (f : Frame → Frame) : Keeps P (setCurFrame f) := by unfold setCurFrame; gkeeps
macro_rules | `(tactic| gkeeps_prim) => `(tactic| exact gkeeps_setCurFrame _)
theorem gkeeps_heapGet (a : Addr) : Keeps P (heapGet a) := by unfold heapGet; gkeeps
macro_rules | `(tactic| gkeeps_prim) => `(tactic| exact gkeeps_heapGet _)
theorem gkeeps_heapSet (a : Addr) (c : Cell) : Keeps P (heapSet a c) := by unfold heapSet; gkeeps
macro_rules | `(tactic| gkeeps_prim) => `(tactic| exact gkeeps_heapSet _ _)
theorem gkeeps_heapUpd (a : Addr) (c : Cell) : Keeps P (heapUpd a c) := by unfold heapUpd; gkeeps
macro_rules | `(tactic| gkeeps_prim) => `(tactic| exact gkeeps_heapUpd _ _)
theorem gkeeps_boxSet (a : Addr) (v : V) : Keeps P (boxSet a v) := by unfold boxSet; gkeeps
macro_rules | `(tactic| gkeeps_prim) => `(tactic| exact gkeeps_boxSet _ _)
theorem gkeeps_alloc (c : Cell) : Keeps P (alloc c) := by
  apply Keeps.intro'; intro s h; exact h
macro_rules | `(tactic| gkeeps_prim) => `(tactic| exact gkeeps_alloc _)
theorem gkeeps_noteTrace (op : Nat) : Keeps P (noteTrace op) := by
  apply Keeps.intro'; intro s h
  simp only [noteTrace, exec_bind, exec_getS]
  split <;> exact h
macro_rules | `(tactic| gkeeps_prim) => `(tactic| exact gkeeps_noteTrace _)
theorem gkeeps_copyV (v : V) : Keeps P (copyV v) := by
  apply Keeps.intro'; intro s h
  simp only [copyV, exec_bind, exec_getS]
  split
  · exact h
  · exact h
macro_rules | `(tactic| gkeeps_prim) => `(tactic| exact gkeeps_copyV _)

theorem gkeeps_curCode  : Keeps P (curCode ) := by unfold curCode; gkeeps
macro_rules | `(tactic| gkeeps_prim) => `(tactic| exact gkeeps_curCode )
theorem gkeeps_instAt (i : Int) : Keeps P (instAt i) := by unfold instAt; gkeeps
macro_rules | `(tactic| gkeeps_prim) => `(tactic| exact gkeeps_instAt _)
theorem gkeeps_opnd1 (k : Int) : Keeps P (opnd1 k) := by unfold opnd1; gkeeps
macro_rules | `(tactic| gkeeps_prim) => `(tactic| exact gkeeps_opnd1 _)
theorem gkeeps_opnd2 (k : Int) : Keeps P (opnd2 k) := by unfold opnd2; gkeeps
macro_rules | `(tactic| gkeeps_prim) => `(tactic| exact gkeeps_opnd2 _)
theorem gkeeps_opnd4 (k : Int) : Keeps P (opnd4 k) := by unfold opnd4; gkeeps
macro_rules | `(tactic| gkeeps_prim) => `(tactic| exact gkeeps_opnd4 _)
theorem gkeeps_constAt (i : Nat) : Keeps P (constAt i) := by unfold constAt; gkeeps
macro_rules | `(tactic| gkeeps_prim) => `(tactic| exact gkeeps_constAt _)
theorem gkeeps_arrElems (a : Addr) (off len : Nat) : Keeps P (arrElems a off len) := by unfold arrElems; gkeeps
macro_rules | `(tactic| gkeeps_prim) => `(tactic| exact gkeeps_arrElems _ _ _)
theorem gkeeps_mapEntries (a : Addr) : Keeps P (mapEntries a) := by unfold mapEntries; gkeeps
macro_rules | `(tactic| gkeeps_prim) => `(tactic| exact gkeeps_mapEntries _)
theorem gkeeps_vString (v : V) : Keeps P (vString v) := by unfold vString; gkeeps
macro_rules | `(tactic| gkeeps_prim) => `(tactic| exact gkeeps_vString _)
theorem gkeeps_isFalsy (v : V) : Keeps P (isFalsy v) := by unfold isFalsy; gkeeps
macro_rules | `(tactic| gkeeps_prim) => `(tactic| exact gkeeps_isFalsy _)
theorem gkeeps_vEqual (F : FloatOps) (l r : V) : Keeps P (vEqual F l r) := by unfold vEqual; gkeeps
macro_rules | `(tactic| gkeeps_prim) => `(tactic| exact gkeeps_vEqual _ _ _)
theorem gkeeps_vBinaryOp (F : FloatOps) (tok : Tok) (l r : V) : Keeps P (vBinaryOp F tok l r) := by unfold vBinaryOp; gkeeps
macro_rules | `(tactic| gkeeps_prim) => `(tactic| exact gkeeps_vBinaryOp _ _ _ _)
theorem gkeeps_vUnary (F : FloatOps) (tok : Tok) (r : V) : Keeps P (vUnary F tok r) := by unfold vUnary; gkeeps
macro_rules | `(tactic| gkeeps_prim) => `(tactic| exact gkeeps_vUnary _ _ _)
theorem gkeeps_vIndexGet (t i : V) : Keeps P (vIndexGet t i) := by unfold vIndexGet; gkeeps
macro_rules | `(tactic| gkeeps_prim) => `(tactic| exact gkeeps_vIndexGet _ _)
theorem gkeeps_vIndexSet (t i v : V) : Keeps P (vIndexSet t i v) := by unfold vIndexSet; gkeeps
macro_rules | `(tactic| gkeeps_prim) => `(tactic| exact gkeeps_vIndexSet _ _ _)
theorem gkeeps_mkErr (n m : String) (c : Option Addr) : Keeps P (mkErr n m c) := by unfold mkErr; gkeeps
macro_rules | `(tactic| gkeeps_prim) => `(tactic| exact gkeeps_mkErr _ _ _)
theorem gkeeps_rtErrOfOpErr (e : OpErr) : Keeps P (rtErrOfOpErr e) := by unfold rtErrOfOpErr; gkeeps
macro_rules | `(tactic| gkeeps_prim) => `(tactic| exact gkeeps_rtErrOfOpErr _)
theorem gkeeps_clearDown (hi lo : Int) : Keeps P (clearDown hi lo) := by unfold clearDown; gkeeps
macro_rules | `(tactic| gkeeps_prim) => `(tactic| exact gkeeps_clearDown _ _)
theorem gkeeps_searchFrames (n : Nat) : Keeps P (searchFrames n) := by
  induction n with
  | zero => unfold searchFrames; gkeeps
  | succ n ih => unfold searchFrames; gkeeps
macro_rules | `(tactic| gkeeps_prim) => `(tactic| exact gkeeps_searchFrames _)
theorem gkeeps_pushV (v : V) : Keeps P (pushV v) := by unfold pushV; gkeeps
macro_rules | `(tactic| gkeeps_prim) => `(tactic| exact gkeeps_pushV _)
theorem gkeeps_bumpIp (n : Int) : Keeps P (bumpIp n) := by unfold bumpIp; gkeeps
macro_rules | `(tactic| gkeeps_prim) => `(tactic| exact gkeeps_bumpIp _)
theorem gkeeps_jumpTarget  : Keeps P (jumpTarget ) := by unfold jumpTarget; gkeeps
macro_rules | `(tactic| gkeeps_prim) => `(tactic| exact gkeeps_jumpTarget )
theorem gkeeps_clearCurrentFrame  : Keeps P (clearCurrentFrame ) := by unfold clearCurrentFrame; gkeeps
macro_rules | `(tactic| gkeeps_prim) => `(tactic| exact gkeeps_clearCurrentFrame )
theorem gkeeps_fnCell (a : Addr) : Keeps P (fnCell a) := by unfold fnCell; gkeeps
macro_rules | `(tactic| gkeeps_prim) => `(tactic| exact gkeeps_fnCell _)
theorem gkeeps_stackSlice (lo hi : Int) : Keeps P (stackSlice lo hi) := by unfold stackSlice; gkeeps
macro_rules | `(tactic| gkeeps_prim) => `(tactic| exact gkeeps_stackSlice _ _)
theorem gkeeps_newArray (xs : List V) : Keeps P (newArray xs) := by unfold newArray; gkeeps
macro_rules | `(tactic| gkeeps_prim) => `(tactic| exact gkeeps_newArray _)
theorem gkeeps_copyToStack (a : Int) (xs : List V) : Keeps P (copyToStack a xs) := by unfold copyToStack; gkeeps
macro_rules | `(tactic| gkeeps_prim) => `(tactic| exact gkeeps_copyToStack _ _)
theorem gkeeps_throwF_handle (fuel : Nat) (h : ∀ e, Keeps P (throwF fuel e)) (err : Addr) :
    Keeps P (throwF.handle fuel err) := by
  have h' := h err
  unfold throwF.handle; gkeeps
theorem gkeeps_throwF (fuel : Nat) : ∀ err, Keeps P (throwF fuel err) := by
  induction fuel with
  | zero => intro err; unfold throwF; gkeeps
  | succ n ih =>
    intro err
    have hh := gkeeps_throwF_handle (G := G) n ih err
    unfold throwF; gkeeps
macro_rules | `(tactic| gkeeps_prim) => `(tactic| exact gkeeps_throwF _ _)
theorem gkeeps_throwFuel : Keeps P throwFuel := by unfold throwFuel; gkeeps
macro_rules | `(tactic| gkeeps_prim) => `(tactic| exact gkeeps_throwFuel)
theorem gkeeps_throwGenErr (e : OpErr) : Keeps P (throwGenErr e) := by unfold throwGenErr; gkeeps
macro_rules | `(tactic| gkeeps_prim) => `(tactic| exact gkeeps_throwGenErr _)
theorem gkeeps_failWith (e : OpErr) : Keeps P (failWith e) := by unfold failWith; gkeeps
macro_rules | `(tactic| gkeeps_prim) => `(tactic| exact gkeeps_failWith _)
theorem gkeeps_fillUndefined (lo : Int) (n : Nat) : Keeps P (fillUndefined lo n) := by unfold fillUndefined; gkeeps
macro_rules | `(tactic| gkeeps_prim) => `(tactic| exact gkeeps_fillUndefined _ _)
theorem gkeeps_copySlots (d : Int) (xs : List V) : Keeps P (copySlots d xs) := by unfold copySlots; gkeeps
macro_rules | `(tactic| gkeeps_prim) => `(tactic| exact gkeeps_copySlots _ _)
theorem gkeeps_enterFrame (fi : Nat) (fa : Addr) (fr : Option (List Addr)) (bp : Int) : Keeps P (enterFrame fi fa fr bp) := by unfold enterFrame; gkeeps
macro_rules | `(tactic| gkeeps_prim) => `(tactic| exact gkeeps_enterFrame _ _ _ _)
theorem gkeeps_popArgs (n : Nat) : Keeps P (popArgs n) := by unfold popArgs; gkeeps
macro_rules | `(tactic| gkeeps_prim) => `(tactic| exact gkeeps_popArgs _)
theorem gkeeps_bindArgs (code : Code) (bp na fl : Int) : Keeps P (bindArgs code bp na fl) := by unfold bindArgs; gkeeps
macro_rules | `(tactic| gkeeps_prim) => `(tactic| exact gkeeps_bindArgs _ _ _ _)
theorem gkeeps_callCompiled (fa : Addr) (na fl : Int) : Keeps P (callCompiled fa na fl) := by unfold callCompiled; gkeeps
macro_rules | `(tactic| gkeeps_prim) => `(tactic| exact gkeeps_callCompiled _ _ _)
theorem gkeeps_callBuiltin (i : Nat) (args : List V) : Keeps P (callBuiltin i args) := by unfold callBuiltin; gkeeps
macro_rules | `(tactic| gkeeps_prim) => `(tactic| exact gkeeps_callBuiltin _ _)
theorem gkeeps_callObject (c : V) (na fl : Int) : Keeps P (callObject c na fl) := by unfold callObject; gkeeps
macro_rules | `(tactic| gkeeps_prim) => `(tactic| exact gkeeps_callObject _ _ _)
theorem gkeeps_callAny (c : V) (na fl : Int) : Keeps P (callAny c na fl) := by unfold callAny; gkeeps
macro_rules | `(tactic| gkeeps_prim) => `(tactic| exact gkeeps_callAny _ _ _)
theorem gkeeps_findFinally (fuel : Nat) : ∀ upto, Keeps P (findFinally fuel upto) := by
  induction fuel with
  | zero => intro u; unfold findFinally; gkeeps
  | succ n ih => intro u; have ih' := ih u; unfold findFinally; gkeeps
macro_rules | `(tactic| gkeeps_prim) => `(tactic| exact gkeeps_findFinally _ _)
theorem gkeeps_execConstant  : Keeps P (execConstant ) := by unfold execConstant; gkeeps
macro_rules | `(tactic| gkeeps_prim) => `(tactic| exact gkeeps_execConstant )
theorem gkeeps_execGetLocal  : Keeps P (execGetLocal ) := by unfold execGetLocal; gkeeps
macro_rules | `(tactic| gkeeps_prim) => `(tactic| exact gkeeps_execGetLocal )
theorem gkeeps_execSetLocal  : Keeps P (execSetLocal ) := by unfold execSetLocal; gkeeps
macro_rules | `(tactic| gkeeps_prim) => `(tactic| exact gkeeps_execSetLocal )
theorem gkeeps_execAndJump  : Keeps P (execAndJump ) := by unfold execAndJump; gkeeps
macro_rules | `(tactic| gkeeps_prim) => `(tactic| exact gkeeps_execAndJump )
theorem gkeeps_execOrJump  : Keeps P (execOrJump ) := by unfold execOrJump; gkeeps
macro_rules | `(tactic| gkeeps_prim) => `(tactic| exact gkeeps_execOrJump )
theorem gkeeps_execTrue  : Keeps P (execTrue ) := by unfold execTrue; gkeeps
macro_rules | `(tactic| gkeeps_prim) => `(tactic| exact gkeeps_execTrue )
theorem gkeeps_execFalse  : Keeps P (execFalse ) := by unfold execFalse; gkeeps
macro_rules | `(tactic| gkeeps_prim) => `(tactic| exact gkeeps_execFalse )
theorem gkeeps_execCall  : Keeps P (execCall ) := by unfold execCall; gkeeps
macro_rules | `(tactic| gkeeps_prim) => `(tactic| exact gkeeps_execCall )
theorem gkeeps_execCallName  : Keeps P (execCallName ) := by unfold execCallName; gkeeps
macro_rules | `(tactic| gkeeps_prim) => `(tactic| exact gkeeps_execCallName )
theorem gkeeps_execReturn  : Keeps P (execReturn ) := by unfold execReturn; gkeeps
macro_rules | `(tactic| gkeeps_prim) => `(tactic| exact gkeeps_execReturn )
theorem gkeeps_execGetBuiltin  : Keeps P (execGetBuiltin ) := by unfold execGetBuiltin; gkeeps
macro_rules | `(tactic| gkeeps_prim) => `(tactic| exact gkeeps_execGetBuiltin )
theorem gkeeps_execClosure  : Keeps P (execClosure ) := by unfold execClosure; gkeeps
macro_rules | `(tactic| gkeeps_prim) => `(tactic| exact gkeeps_execClosure )
theorem gkeeps_execJump  : Keeps P (execJump ) := by unfold execJump; gkeeps
macro_rules | `(tactic| gkeeps_prim) => `(tactic| exact gkeeps_execJump )
theorem gkeeps_execJumpFalsy  : Keeps P (execJumpFalsy ) := by unfold execJumpFalsy; gkeeps
macro_rules | `(tactic| gkeeps_prim) => `(tactic| exact gkeeps_execJumpFalsy )
theorem gkeeps_execGetGlobal  : Keeps P (execGetGlobal ) := by unfold execGetGlobal; gkeeps
macro_rules | `(tactic| gkeeps_prim) => `(tactic| exact gkeeps_execGetGlobal )
theorem gkeeps_execSetGlobal  : Keeps P (execSetGlobal ) := by unfold execSetGlobal; gkeeps
macro_rules | `(tactic| gkeeps_prim) => `(tactic| exact gkeeps_execSetGlobal )
theorem gkeeps_execArray  : Keeps P (execArray ) := by unfold execArray; gkeeps
macro_rules | `(tactic| gkeeps_prim) => `(tactic| exact gkeeps_execArray )
theorem gkeeps_execMap  : Keeps P (execMap ) := by unfold execMap; gkeeps
macro_rules | `(tactic| gkeeps_prim) => `(tactic| exact gkeeps_execMap )
theorem gkeeps_execGetIndex  : Keeps P (execGetIndex ) := by unfold execGetIndex; gkeeps
macro_rules | `(tactic| gkeeps_prim) => `(tactic| exact gkeeps_execGetIndex )
theorem gkeeps_execSetIndex  : Keeps P (execSetIndex ) := by unfold execSetIndex; gkeeps
macro_rules | `(tactic| gkeeps_prim) => `(tactic| exact gkeeps_execSetIndex )
theorem gkeeps_execSliceIndex  : Keeps P (execSliceIndex ) := by unfold execSliceIndex; gkeeps
macro_rules | `(tactic| gkeeps_prim) => `(tactic| exact gkeeps_execSliceIndex )
theorem gkeeps_execGetFree  : Keeps P (execGetFree ) := by unfold execGetFree; gkeeps
macro_rules | `(tactic| gkeeps_prim) => `(tactic| exact gkeeps_execGetFree )
theorem gkeeps_execSetFree  : Keeps P (execSetFree ) := by unfold execSetFree; gkeeps
macro_rules | `(tactic| gkeeps_prim) => `(tactic| exact gkeeps_execSetFree )
theorem gkeeps_execGetLocalPtr  : Keeps P (execGetLocalPtr ) := by unfold execGetLocalPtr; gkeeps
macro_rules | `(tactic| gkeeps_prim) => `(tactic| exact gkeeps_execGetLocalPtr )
theorem gkeeps_execGetFreePtr  : Keeps P (execGetFreePtr ) := by unfold execGetFreePtr; gkeeps
macro_rules | `(tactic| gkeeps_prim) => `(tactic| exact gkeeps_execGetFreePtr )
theorem gkeeps_execDefineLocal  : Keeps P (execDefineLocal ) := by unfold execDefineLocal; gkeeps
macro_rules | `(tactic| gkeeps_prim) => `(tactic| exact gkeeps_execDefineLocal )
theorem gkeeps_execNull  : Keeps P (execNull ) := by unfold execNull; gkeeps
macro_rules | `(tactic| gkeeps_prim) => `(tactic| exact gkeeps_execNull )
theorem gkeeps_execPop  : Keeps P (execPop ) := by unfold execPop; gkeeps
macro_rules | `(tactic| gkeeps_prim) => `(tactic| exact gkeeps_execPop )
theorem gkeeps_execIterInit  : Keeps P (execIterInit ) := by unfold execIterInit; gkeeps
macro_rules | `(tactic| gkeeps_prim) => `(tactic| exact gkeeps_execIterInit )
theorem gkeeps_execLoadModule  : Keeps P (execLoadModule ) := by unfold execLoadModule; gkeeps
macro_rules | `(tactic| gkeeps_prim) => `(tactic| exact gkeeps_execLoadModule )
theorem gkeeps_execStoreModule  : Keeps P (execStoreModule ) := by unfold execStoreModule; gkeeps
macro_rules | `(tactic| gkeeps_prim) => `(tactic| exact gkeeps_execStoreModule )
theorem gkeeps_execSetupTry  : Keeps P (execSetupTry ) := by unfold execSetupTry; gkeeps
macro_rules | `(tactic| gkeeps_prim) => `(tactic| exact gkeeps_execSetupTry )
theorem gkeeps_execSetupCatch  : Keeps P (execSetupCatch ) := by unfold execSetupCatch; gkeeps
macro_rules | `(tactic| gkeeps_prim) => `(tactic| exact gkeeps_execSetupCatch )
theorem gkeeps_execSetupFinally  : Keeps P (execSetupFinally ) := by unfold execSetupFinally; gkeeps
macro_rules | `(tactic| gkeeps_prim) => `(tactic| exact gkeeps_execSetupFinally )
theorem gkeeps_execThrow  : Keeps P (execThrow ) := by unfold execThrow; gkeeps
macro_rules | `(tactic| gkeeps_prim) => `(tactic| exact gkeeps_execThrow )
theorem gkeeps_execFinalizer  : Keeps P (execFinalizer ) := by unfold execFinalizer; gkeeps
macro_rules | `(tactic| gkeeps_prim) => `(tactic| exact gkeeps_execFinalizer )
theorem gkeeps_execNoOp  : Keeps P (execNoOp ) := by unfold execNoOp; gkeeps
macro_rules | `(tactic| gkeeps_prim) => `(tactic| exact gkeeps_execNoOp )
theorem gkeeps_execBinaryOp (F : FloatOps) : Keeps P (execBinaryOp F) := by unfold execBinaryOp; gkeeps
macro_rules | `(tactic| gkeeps_prim) => `(tactic| exact gkeeps_execBinaryOp _)
theorem gkeeps_execUnary (F : FloatOps) : Keeps P (execUnary F) := by unfold execUnary; gkeeps
macro_rules | `(tactic| gkeeps_prim) => `(tactic| exact gkeeps_execUnary _)
theorem gkeeps_execEqual (F : FloatOps) (op : Nat) : Keeps P (execEqual F op) := by unfold execEqual; gkeeps
macro_rules | `(tactic| gkeeps_prim) => `(tactic| exact gkeeps_execEqual _ _)
theorem gkeeps_execIterNext (op : Nat) : Keeps P (execIterNext op) := by unfold execIterNext; gkeeps
macro_rules | `(tactic| gkeeps_prim) => `(tactic| exact gkeeps_execIterNext _)
theorem gkeeps_execUnknown (op : Nat) : Keeps P (execUnknown op) := by unfold execUnknown; gkeeps
macro_rules | `(tactic| gkeeps_prim) => `(tactic| exact gkeeps_execUnknown _)
theorem gkeeps_dispatch (F : FloatOps) (op : Nat) : Keeps P (dispatch F op) := by unfold dispatch; gkeeps
macro_rules | `(tactic| gkeeps_prim) => `(tactic| exact gkeeps_dispatch _ _)
theorem gkeeps_step (F : FloatOps) : Keeps P (step F) := by unfold step; gkeeps
macro_rules | `(tactic| gkeeps_prim) => `(tactic| exact gkeeps_step _)

end

end UgoVerif.VM
