import UgoVerif.Proofs.CompilePrims
import UgoVerif.Spec.AstShape
/-
  C05: every function of the compiler's mutual block keeps the invariant and never panics, for all
  ASTs (with non-empty assignment left-hand sides): strong induction on the size of the AST.
-/
namespace UgoVerif.Compile
open UgoVerif UgoVerif.Go UgoVerif.Ast

abbrev LastOK (last : Option (CM Unit × VSum)) : Prop := ∀ x, last = some x → Good x.1

/-- the induction hypothesis: everything of size `< n` is fine -/
structure AllGood (n : Nat) : Prop where
  expr : ∀ e, sizeOf e < n → okE e = true → Good (compileExpr e)
  exprs : ∀ es, sizeOf es < n → okEs es = true → Good (compileExprs es)
  mapElems : ∀ pos ms, sizeOf ms < n → okMs ms = true → Good (compileMapElems pos ms)
  indexChain : ∀ e self, sizeOf e < n → okE e = true → Good self → Good (compileIndexChain e self)
  selChain : ∀ e, sizeOf e < n → okE e = true → Good (compileSelChain e)
  stmts : ∀ ss, sizeOf ss < n → okSs ss = true → Good (compileStmts ss)
  defineAssign : ∀ pos lhs kw op allow, sizeOf lhs < n → okE lhs = true → Good (compileDefineAssign pos lhs kw op allow)
  destructure : ∀ pos kw op num tmp es k found, sizeOf es < n → okEs es = true →
    Good (compileDestructure pos kw op num tmp es k found)
  valueIdents : ∀ pos tok ids vals last, sizeOf vals < n → okVals vals = true → LastOK last →
    GoodP LastOK (compileValueIdents pos tok ids vals last)
  valueSpecs : ∀ pos tok specs last, sizeOf specs < n → okSpecs specs = true → LastOK last →
    Good (compileValueSpecs pos tok specs last)
  stmt : ∀ st, sizeOf st < n → okS st = true → Good (compileStmt st)

macro_rules | `(tactic| good_leaf) => `(tactic| with_reducible first
  | exact good_emitConstant _ _ | exact good_emitConstLit _ _
  | exact good_compileDefine _ _ _ _ | exact good_compileAssignSym _ _ _ | exact good_findSymbolSelf _
  | exact good_compileIdent _ _ | exact good_compileBranch _ _ | exact good_defineLocal _
  | exact good_setParams _ _ | exact good_declParamVariadic _ _ | exact good_declGlobals _ _
  | exact good_emitFreePtrs _ _ | exact good_defineCatchIdent _ _
  | exact good_finishFn
  | fail)

/-- side goals `isJumpOp op = true ∨ op = OpSetupTry` -/
syntax "jmp" : tactic
macro_rules | `(tactic| jmp) => `(tactic| first | exact .inl rfl | exact .inr rfl | (split <;> exact .inl rfl))

/-- size side conditions -/
syntax "sz" : tactic
macro_rules | `(tactic| sz) => `(tactic| (simp at *; omega))

theorem step_exprs {n : Nat} (ih : AllGood n) : ∀ es, sizeOf es < n + 1 → okEs es = true → Good (compileExprs es)
  | [], _, _ => by unfold compileExprs; good
  | e :: r, hsz, hok => by
    simp only [okEs, Bool.and_eq_true] at hok
    have h1 := ih.expr e (by sz) hok.1
    have h2 := ih.exprs r (by sz) hok.2
    unfold compileExprs
    good


theorem step_mapElems {n : Nat} (ih : AllGood n) (pos : Pos) : ∀ ms, sizeOf ms < n + 1 → okMs ms = true → Good (compileMapElems pos ms)
  | [], _, _ => by unfold compileMapElems; good
  | (k, v) :: r, hsz, hok => by
    simp only [okMs, Bool.and_eq_true] at hok
    have h1 := ih.expr v (by sz) hok.1
    have h2 := ih.mapElems pos r (by sz) hok.2
    unfold compileMapElems
    good

theorem step_stmts {n : Nat} (ih : AllGood n) : ∀ ss, sizeOf ss < n + 1 → okSs ss = true → Good (compileStmts ss)
  | [], _, _ => by unfold compileStmts; good
  | st :: r, hsz, hok => by
    simp only [okSs, Bool.and_eq_true] at hok
    have h1 := ih.stmt st (by sz) hok.1
    have h2 := ih.stmts r (by sz) hok.2
    unfold compileStmts
    good

theorem step_indexChain {n : Nat} (ih : AllGood n) (e : Expr) (self : CM Unit) (hsz : sizeOf e < n + 1)
    (hok : okE e = true) (hself : Good self) : Good (compileIndexChain e self) := by
  unfold compileIndexChain
  split
  · rename_i e' i
    simp only [okE, Bool.and_eq_true] at hok
    have h0 := ih.expr e' (by sz) hok.1
    have h1 := ih.indexChain e' (compileExpr e') (by sz) hok.1 h0
    have h2 := ih.expr i (by sz) hok.2
    good
  · good

theorem step_selChain {n : Nat} (ih : AllGood n) (e : Expr) (hsz : sizeOf e < n + 1)
    (hok : okE e = true) : Good (compileSelChain e) := by
  unfold compileSelChain
  split
  · rename_i e' i
    simp only [okE, Bool.and_eq_true] at hok
    have h1 := ih.selChain e' (by sz) hok.1
    have h2 := ih.expr i (by sz) hok.2
    good
  · rename_i e' i
    simp only [okE, Bool.and_eq_true] at hok
    have h1 := ih.selChain e' (by sz) hok.1
    have h2 := ih.expr i (by sz) hok.2
    good
  · good

/-- `resolve` followed by a consumer that may rely on the symbol being in range -/
theorem good_resolve_bind {β} {name : String} {f : Option Symbol → CM β} {P : β → Prop}
    (h : ∀ r s, Inv s → (∀ y, r = some y → SymOKx s.constants (fmd s.tables) (fnf s.tables) y) →
      Sat (f r) s (fun b s' => Inv s' ∧ Rel s s' ∧ P b)) : GoodP P (resolve name >>= f) := by
  intro s hs
  apply Sat.bind
  apply sat_resolve hs
  intro r s1 hi1 hr1 _ _ hr
  apply Sat.mono (h r s1 hi1 hr)
  intro b s2 ⟨hi2, hr2, hp⟩
  exact ⟨hi2, hr1.trans hr2, hp⟩

theorem sat_bind_good {α β} {m : CM α} {f : α → CM β} {s : CState} {P : β → Prop}
    (hm : Sat m s (fun _ s' => Inv s' ∧ Rel s s' ∧ True)) (hf : ∀ a, GoodP P (f a)) :
    Sat (m >>= f) s (fun b s' => Inv s' ∧ Rel s s' ∧ P b) := by
  apply Sat.bind
  apply Sat.mono hm
  intro a s1 ⟨hi1, hr1, _⟩
  apply Sat.mono (hf a s1 hi1)
  intro b s2 ⟨hi2, hr2, hp⟩
  exact ⟨hi2, hr1.trans hr2, hp⟩

theorem step_defineAssign {n : Nat} (ih : AllGood n) (pos : Pos) (lhs : Expr) (kw op : Nat) (allow : Bool)
    (hsz : sizeOf lhs < n + 1) (hok : okE lhs = true) : Good (compileDefineAssign pos lhs kw op allow) := by
  have hd := good_compileDefine pos
  unfold compileDefineAssign
  split
  · rename_i e last
    simp only [okE, Bool.and_eq_true] at hok
    have h1 := ih.selChain e (by sz) hok.1
    have h2 := ih.expr last (by sz) hok.2
    refine good_resolve_bind fun r s hs hr => ?_
    split
    · exact Sat.cerr
    · rename_i sym
      have hy := hr sym rfl
      refine sat_bind_good ?_ (fun _ => by good)
      split
      · exact good_emit_ (by decide) (by opa) s hs
      · exact sat_emit_free hs rfl hy ‹_›
      · exact sat_emit_global hs rfl hy ‹_›
      · exact Sat.cerr
  · rename_i e last
    simp only [okE, Bool.and_eq_true] at hok
    have h1 := ih.selChain e (by sz) hok.1
    have h2 := ih.expr last (by sz) hok.2
    refine good_resolve_bind fun r s hs hr => ?_
    split
    · exact Sat.cerr
    · rename_i sym
      have hy := hr sym rfl
      refine sat_bind_good ?_ (fun _ => by good)
      split
      · exact good_emit_ (by decide) (by opa) s hs
      · exact sat_emit_free hs rfl hy ‹_›
      · exact sat_emit_global hs rfl hy ‹_›
      · exact Sat.cerr
  · split
    · exact hd _ _ _
    · refine good_resolve_bind fun r s hs hr => ?_
      split
      · exact Sat.cerr
      · exact sat_compileAssignSym hs (hr _ rfl)

theorem step_destructure {n : Nat} (ih : AllGood n) (pos : Pos) (kw op num : Nat) (tmp : Int) :
    ∀ es k found, sizeOf es < n + 1 → okEs es = true → Good (compileDestructure pos kw op num tmp es k found)
  | [], _, _, _, _ => by unfold compileDestructure; good
  | e :: r, k, found, hsz, hok => by
    simp only [okEs, Bool.and_eq_true] at hok
    have h1 := ih.defineAssign pos e kw op (kw != tConst) (by sz) hok.1
    have h2 := fun k f => ih.destructure pos kw op num tmp r k f (by sz) hok.2
    unfold compileDestructure
    good
    exact h2 _ _


theorem good_lastMatch (pos : Pos) (tok : Nat) (ipos : Pos) (name : String) {last : Option (CM Unit × VSum)}
    (hl : LastOK last) :
    Good (match (if tok == tConst then last else none) with
     | some (act, sum) => compileValueIdent pos tok name act sum
     | none => compileValueIdent pos tok name (emit_ ipos OpNull) (.lit .undefined)) := by
  split
  · rename_i act sum h
    refine good_compileValueIdent pos tok name (hl (act, sum) ?_) sum
    split at h
    · exact h
    · cases h
  · exact good_compileValueIdent pos tok name (good_emit_ (by decide) (by opa)) _

theorem step_valueIdents {n : Nat} (ih : AllGood n) (pos : Pos) (tok : Nat) :
    ∀ (ids : List (Pos × String)) (vals : List (Option Expr)) (last : Option (CM Unit × VSum)),
      sizeOf vals < n + 1 → okVals vals = true → LastOK last → GoodP LastOK (compileValueIdents pos tok ids vals last)
  | [], vals, last, _, _, hl => by
    unfold compileValueIdents
    exact GoodP.pure hl
  | id :: irest, [], last, _, _, hl => by
    unfold compileValueIdents
    exact GoodP.bind (good_compileIdentsNoValue pos tok hl _) fun _ _ => GoodP.pure hl
  | (ipos, name) :: irest, some e :: vrest, last, hsz, hok, hl => by
    rw [okVals, Bool.and_eq_true] at hok
    have he := ih.expr e (by sz) hok.1
    unfold compileValueIdents
    refine GoodP.bind (good_compileValueIdent pos tok name he _) fun _ _ => ?_
    exact ih.valueIdents pos tok irest vrest _ (by sz) hok.2
      (fun x hx => by injection hx with hx; subst hx; exact he)
  | (ipos, name) :: irest, none :: vrest, last, hsz, hok, hl => by
    rw [okVals, Bool.and_eq_true] at hok
    unfold compileValueIdents
    refine GoodP.bind (good_lastMatch pos tok ipos name hl) fun _ _ => ?_
    exact ih.valueIdents pos tok irest vrest _ (by sz) hok.2 hl

theorem step_valueSpecs {n : Nat} (ih : AllGood n) (pos : Pos) (tok : Nat) :
    ∀ specs last, sizeOf specs < n + 1 → okSpecs specs = true → LastOK last → Good (compileValueSpecs pos tok specs last)
  | [], _, _, _, _ => by unfold compileValueSpecs; good
  | (iota, ids, vals) :: rest, last, hsz, hok, hl => by
    simp only [okSpecs, Bool.and_eq_true] at hok
    have h1 := ih.valueIdents pos tok ids vals last (by sz) hok.1 hl
    have h2 := fun l hl => ih.valueSpecs pos tok rest l (by sz) hok.2 hl
    have hm : ∀ v : Int, Good (modify (fun s : CState => { s with iotaVal := v }) : CM Unit) :=
      fun v => good_modify_misc (fun _ => rfl) (fun _ => rfl) (fun _ => rfl)
    unfold compileValueSpecs
    refine GoodP.bind (P := fun _ => True) ?_ (fun _ _ => ?_)
    · split
      · split
        · exact hm _
        · good
      · good
    · exact GoodP.bind h1 fun l hl' => h2 l hl'


theorem st_done {s0 s : CState} {ps ts : List Nat} (h : St s0 ps ts s) : Inv s ∧ Rel s0 s ∧ True := ⟨h.inv, h.rel, trivial⟩

theorem step_expr {n : Nat} (ih : AllGood n) (e : Expr) (hsz : sizeOf e < n + 1) (hok : okE e = true) :
    Good (compileExpr e) := by
  cases e with
  | paren _ e =>
    rw [okE] at hok
    have := ih.expr e (by sz) hok
    unfold compileExpr; exact this
  | binary pos tok l r =>
    rw [okE, Bool.and_eq_true] at hok
    have h1 := ih.expr l (by sz) hok.1
    have h2 := ih.expr r (by sz) hok.2
    unfold compileExpr
    split
    · intro s hs
      have hst := St.init hs
      apply st_good_bind h1 hst; intro _ s1 _ hst
      apply st_emit_bind hst (by opc) (by jmp) (.inl (by opa)); intro s2 hst
      apply st_good_bind h2 hst; intro _ s3 _ hst
      apply st_curPos_bind hst; intro hst
      exact st_changeOperand hst (by simp) (argsIn_one (.inr (by simp))) (fun s' h => st_done h)
    · good
  | int pos v => unfold compileExpr; good
  | uint pos v => unfold compileExpr; good
  | float pos v => unfold compileExpr; good
  | bool pos b => unfold compileExpr; good
  | str pos v => unfold compileExpr; good
  | char pos v => unfold compileExpr; good
  | undef pos => unfold compileExpr; good
  | unary pos tok e =>
    rw [okE] at hok
    have := ih.expr e (by sz) hok
    unfold compileExpr; good
  | ident pos name => unfold compileExpr; good
  | array pos es =>
    rw [okE] at hok
    have := ih.exprs es (by sz) hok
    unfold compileExpr; good
  | map pos ms =>
    rw [okE] at hok
    have := ih.mapElems pos ms (by sz) hok
    unfold compileExpr; good
  | selector pos e sel =>
    rw [okE, Bool.and_eq_true] at hok
    have h0 := ih.expr e (by sz) hok.1
    have h1 := ih.indexChain e (compileExpr e) (by sz) hok.1 h0
    have h2 := ih.expr sel (by sz) hok.2
    unfold compileExpr; good
  | index pos e i =>
    rw [okE, Bool.and_eq_true] at hok
    have h0 := ih.expr e (by sz) hok.1
    have h1 := ih.indexChain e (compileExpr e) (by sz) hok.1 h0
    have h2 := ih.expr i (by sz) hok.2
    unfold compileExpr; good
  | slice pos e lo hi =>
    unfold okE at hok
    simp only [Bool.and_eq_true] at hok
    have h0 := ih.expr e (by sz) hok.1.1
    have hlo : Good (match lo with | some x => compileExpr x | none => emit_ pos OpNull) := by
      cases lo with
      | none => good
      | some x => exact ih.expr x (by sz) hok.1.2
    have hhi : Good (match hi with | some x => compileExpr x | none => emit_ pos OpNull) := by
      cases hi with
      | none => good
      | some x => exact ih.expr x (by sz) hok.2
    unfold compileExpr; good
  | func pos variadic params bp body =>
    rw [okE] at hok
    have hb := ih.stmts body (by sz) hok
    have hw := goodS_withFn pos variadic params (good_blockOf (body := body) hb)
    unfold compileExpr
    intro s hs
    apply Sat.bind
    apply Sat.mono (hw s hs)
    intro r s1 ⟨hi1, hr1, hfn, horig⟩
    obtain ⟨fn, ft⟩ := r
    simp only at hfn horig ⊢
    apply Sat.bind
    apply Sat.mono (sat_emitFreePtrs pos ft.frees s1 hi1 horig)
    intro _ s2 ⟨hi2, hr2, _⟩
    split
    · exact Sat.throw_err
    · rename_i hle
      have hle' : fn.numLocals ≤ 256 := Nat.le_of_not_gt hle
      apply Sat.mono (sat_emitFnConstant hi2 hle' (hfn.mono hr2.cpre))
      intro _ s3 ⟨hi3, hr3, _⟩
      exact ⟨hi3, hr1.trans (hr2.trans hr3), trivial⟩
  | call pos ell f args =>
    rw [okE, Bool.and_eq_true] at hok
    have ha := ih.exprs args (by sz) hok.2
    have hf := ih.expr f (by sz) hok.1
    unfold compileExpr
    split
    · rename_i p se ssel
      have hok1 := hok.1
      rw [okE, Bool.and_eq_true] at hok1
      have h1 := ih.expr se (by sz) hok1.1
      have h2 := ih.expr ssel (by sz) hok1.2
      good
    · good
  | import_ pos name => unfold compileExpr; good
  | cond pos c t f =>
    rw [okE, Bool.and_eq_true, Bool.and_eq_true] at hok
    have hc := ih.expr c (by sz) hok.1.1
    have ht := ih.expr t (by sz) hok.1.2
    have hf := ih.expr f (by sz) hok.2
    unfold compileExpr
    split
    · good
    · intro s hs
      have hst := St.init hs
      apply st_good_bind hc hst; intro _ s1 _ hst
      apply st_emit_bind hst (by decide) (by jmp) (.inl (by opa)); intro s2 hst
      apply st_good_bind ht hst; intro _ s3 _ hst
      apply st_emit_bind hst (by decide) (by jmp) (.inl (by opa)); intro s4 hst
      apply st_curPos_bind hst; intro hst
      apply st_changeOperand_bind hst (by simp) (argsIn_one (.inr (by simp))); intro s6 hst
      apply st_good_bind hf hst; intro _ s7 _ hst
      apply st_curPos_bind hst; intro hst
      exact st_changeOperand hst (by simp) (argsIn_one (.inr (by simp))) (fun s' h => st_done h)


/-- the defining equation of `compileStmt` (copied from the model; checked by `rfl` per case) -/
theorem compileStmt_eq (st : Stmt) : compileStmt st = (match st with
  | .empty _ => pure ()
  | .expr pos e => do compileExpr e; emit_ pos OpPop
  | .incdec pos tok tokPos e => do
    -- compileAssignStmt(node, [e], [IntLit 1 @tokPos], Var, op) with op a compound assignment
    compileExpr e
    emitConstant tokPos (.int 1#64)
    (match compoundOp (if tok == tDec then tSubAssign else tAddAssign) with
     | some t => emit_ pos OpBinaryOp [t]
     | none => pure ())
    compileDefineAssign pos e tVar (if tok == tDec then tSubAssign else tAddAssign) false
  | .assign pos tok lhs rhs =>
    compileAssign pos lhs rhs.length (compileExprs rhs)
      (match lhs with
       | e0 :: _ => compileExpr e0
       | [] => cpanic "runtime error: index out of range [0] with length 0")
      (match lhs with
       | e0 :: _ => compileDefineAssign pos e0 tVar tok false
       | [] => cpanic "runtime error: index out of range [0] with length 0")
      (fun tempIdx => compileDestructure pos tVar tok lhs.length tempIdx lhs 0 0) tok
  | .block _ body => blockOf body (compileStmts body)
  | .if_ pos init cond _ body else_ =>
    withBlock do
      (match init with | some i => compileStmt i | none => pure ())
      match cond with
      | .bool _ true => blockOf body (compileStmts body)
      | .bool _ false => do
        let j ← emit pos OpJump [0]
        match else_ with
        | some e => do
          let j2 ← emit pos OpJump [0]
          changeOperand j [(← curPos)]
          compileStmt e
          changeOperand j2 [(← curPos)]
        | none => changeOperand j [(← curPos)]
      | c => do
        compileExpr c
        let j ← emit pos OpJumpFalsy [0]
        blockOf body (compileStmts body)
        match else_ with
        | some e => do
          let j2 ← emit pos OpJump [0]
          changeOperand j [(← curPos)]
          compileStmt e
          changeOperand j2 [(← curPos)]
        | none => changeOperand j [(← curPos)]
  | .try_ pos _ body catch_ finally_ => do
    withBlock do
      modify fun s => { s with tryCatchIndex := s.tryCatchIndex + 1 }
      let optry ← emit pos OpSetupTry [0, 0]
      compileStmts body
      match catch_ with
      | some (cpos, ident, _, cbody) => do
        (match ident with
         | some name => do emit_ cpos OpNull; defineCatchIdent pos name
         | none => pure ())
        let opjump ← emit pos OpJump [0]
        let catchPos ← curPos
        -- compileCatchStmt
        emit_ cpos OpSetupCatch
        (match ident with
         | some name => defineCatchIdent cpos name
         | none => emit_ cpos OpPop)
        compileStmts cbody
        let finallyPos ← (match finally_ with
          | some (fpos, _, fbody) => do let p ← emit fpos OpSetupFinally; compileStmts fbody; pure p
          | none => emit pos OpSetupFinally)
        changeOperand optry [catchPos, finallyPos]
        changeOperand opjump [finallyPos]
      | none => do
        let finallyPos ← (match finally_ with
          | some (fpos, _, fbody) => do let p ← emit fpos OpSetupFinally; compileStmts fbody; pure p
          | none => emit pos OpSetupFinally)
        changeOperand optry [0, finallyPos]
    -- deferred: Parent(false) (end of withBlock); emit THROW 0; tryCatchIndex--
    emit_ pos OpThrow [0]
    modify fun s => { s with tryCatchIndex := s.tryCatchIndex - 1 }
  | .throw pos e => do
    (match e with | some x => compileExpr x | none => pure ())
    emit_ pos OpThrow [1]
  | .branch pos tok => compileBranch pos tok
  | .return_ pos e =>
    match e with
    | none => do
      let s ← get
      (if s.tryCatchIndex > -1 then emit_ pos OpFinalizer [0] else pure ())
      emit_ pos OpReturn [0]
    | some x => do
      compileExpr x
      let s ← get
      (if s.tryCatchIndex > -1 then emit_ pos OpFinalizer [0] else pure ())
      emit_ pos OpReturn [1]
  | .for_ pos init cond post _ body =>
    withBlock do
      (match init with | some i => compileStmt i | none => pure ())
      let preCondPos ← curPos
      let postCondPos ← (match cond with
        | some c => do compileExpr c; let p ← emit pos OpJumpFalsy [0]; pure (some p)
        | none => pure none)
      let loop ← withLoop (blockOf body (compileStmts body))
      let postBodyPos ← curPos
      (match post with | some p => compileStmt p | none => pure ())
      emit_ pos OpJump [preCondPos]
      let postStmtPos ← curPos
      (match postCondPos with | some j => changeOperand j [postStmtPos] | none => pure ())
      patchAll postStmtPos loop.breaks
      patchAll postBodyPos loop.continues
  | .forin pos key value iter _ body =>
    withBlock do
      let (itSym, exists_) ← defineLocal ":it"
      if exists_ then cerr pos ":it redeclared in this block"
      else do
        compileExpr iter
        emit_ pos OpIterInit
        emit_ pos OpDefineLocal [itSym.index]
        let preCondPos ← curPos
        emit_ pos OpGetLocal [itSym.index]
        emit_ pos OpIterNext
        let postCondPos ← emit pos OpJumpFalsy [0]
        let loop ← withLoop (do
          forinVar pos itSym.index OpIterKey key
          forinVar pos itSym.index OpIterValue value
          blockOf body (compileStmts body))
        let postBodyPos ← curPos
        emit_ pos OpJump [preCondPos]
        let postStmtPos ← curPos
        changeOperand postCondPos [postStmtPos]
        patchAll postStmtPos loop.breaks
        patchAll postBodyPos loop.continues
  | .declParam pos specs => do
    -- compileDeclStmt: `len(decl.Specs) == 0` is checked for every declaration kind
    if specs.isEmpty then cerr pos "empty declaration not allowed"
    else if (← get).tables.length > 1 then cerr pos "param not allowed in this scope"
    else do
      declParamVariadic pos specs
      setParams pos (specs.map fun (_, n, _) => n)
  | .declGlobal pos specs => do
    if specs.isEmpty then cerr pos "empty declaration not allowed"
    else if (← get).tables.length > 1 then cerr pos "global not allowed in this scope"
    else declGlobals pos specs
  | .declValue pos tok specs => do
    if specs.isEmpty then cerr pos "empty declaration not allowed"
    else do
      compileValueSpecs pos tok specs none
      if tok == tConst then modify fun s => { s with iotaVal := -1 }) := by
  cases st with
  | if_ pos init cond bp body els =>
    cases init <;> cases els <;> cases cond <;> first | rfl | (rename_i b; cases b <;> rfl)
  | for_ pos init cond post bp body => cases init <;> cases cond <;> cases post <;> rfl
  | try_ pos bp body c f =>
    cases c with
    | none => cases f with
      | none => rfl
      | some fv => obtain ⟨f1, f2, f3⟩ := fv; rfl
    | some cv =>
      obtain ⟨c1, c2, c3, c4⟩ := cv
      cases f with
      | none => rfl
      | some fv => obtain ⟨f1, f2, f3⟩ := fv; rfl
  | throw pos e => cases e <;> rfl
  | return_ pos e => cases e <;> rfl
  | assign pos tok lhs rhs => cases lhs <;> rfl
  | _ => rfl

theorem good_tryIdx (f : Int → Int) : Good (modify (fun s : CState => { s with tryCatchIndex := f s.tryCatchIndex }) : CM Unit) :=
  good_modify_misc (fun _ => rfl) (fun _ => rfl) (fun _ => rfl)

theorem good_optStmt {n : Nat} (ih : AllGood n) (o : Option Stmt)
    (hok : (match o with | some i => okS i | none => true) = true) (hsz : sizeOf o < n) :
    Good (match o with | some i => compileStmt i | none => Pure.pure ()) := by
  cases o with
  | none => good
  | some i => exact ih.stmt i (by sz) hok

/-- the `else` part of an if statement: the pending jump `j` is patched -/
theorem st_ifTail {n : Nat} (ih : AllGood n) (pos : Pos) (els : Option Stmt)
    (hok : (match els with | some i => okS i | none => true) = true) (hsz : sizeOf els < n)
    {s0 s : CState} {ps ts : List Nat} {j : Nat} (hst : St s0 ps ts s) (hj : j ∈ ps) :
    Sat (match els with
      | some e => do
        let j2 ← emit pos OpJump [0]
        changeOperand j [(← curPos)]
        compileStmt e
        changeOperand j2 [(← curPos)]
      | none => do changeOperand j [(← curPos)]) s (fun _ s' => Inv s' ∧ Rel s0 s' ∧ True) := by
  cases els with
  | none =>
    simp only
    apply st_curPos_bind hst; intro hst
    exact st_changeOperand hst hj (argsIn_one (.inr (by simp))) (fun s' h => st_done h)
  | some e =>
    have he := ih.stmt e (by sz) hok
    simp only
    apply st_emit_bind hst (by decide) (by jmp) (.inl (by opa)); intro s1 hst
    apply st_curPos_bind hst; intro hst
    apply st_changeOperand_bind hst (by simp [hj]) (argsIn_one (.inr (by simp))); intro s3 hst
    apply st_good_bind he hst; intro _ s4 _ hst
    apply st_curPos_bind hst; intro hst
    exact st_changeOperand hst (by simp) (argsIn_one (.inr (by simp))) (fun s' h => st_done h)

theorem step_stmt {n : Nat} (ih : AllGood n) (st : Stmt) (hsz : sizeOf st < n + 1) (hok : okS st = true) :
    Good (compileStmt st) := by
  cases st with
  | empty pos => rw [compileStmt_eq]; simp only; good
  | expr pos e =>
    rw [okS] at hok
    have := ih.expr e (by sz) hok
    rw [compileStmt_eq]; simp only; good
  | incdec pos tok tokPos e =>
    rw [okS] at hok
    have h1 := ih.expr e (by sz) hok
    have h2 := ih.defineAssign pos e tVar (if tok == tDec then tSubAssign else tAddAssign) false (by sz) hok
    rw [compileStmt_eq]; simp only; good
  | assign pos tok lhs rhs =>
    rw [okS, Bool.and_eq_true, Bool.and_eq_true] at hok
    have h1 := ih.exprs rhs (by sz) hok.2
    rw [compileStmt_eq]; simp only
    cases lhs with
    | nil => simp at hok
    | cons e0 rest =>
      have hl := hok.1.2
      rw [okEs, Bool.and_eq_true] at hl
      apply good_compileAssign
      · exact h1
      · exact ih.expr e0 (by sz) hl.1
      · exact ih.defineAssign pos e0 tVar tok false (by sz) hl.1
      · intro i
        exact ih.destructure pos tVar tok _ i (e0 :: rest) 0 0 (by sz) hok.1.2
  | block pos body =>
    rw [okS] at hok
    have := ih.stmts body (by sz) hok
    rw [compileStmt_eq]; simp only; good
  | if_ pos init cond bp body els =>
    unfold okS at hok
    simp only [Bool.and_eq_true] at hok
    have hinit := good_optStmt ih init hok.1.1.1 (by sz)
    have hc := ih.expr cond (by sz) hok.1.1.2
    have hb : Good (blockOf body (compileStmts body)) := good_blockOf (ih.stmts body (by sz) hok.1.2)
    have hels : sizeOf els < n := by sz
    rw [compileStmt_eq]; simp only
    apply good_withBlock
    intro s hs
    have hst := St.init hs
    apply st_good_bind hinit hst; intro _ s1 _ hst
    split
    · exact Sat.mono (hb s1 hst.inv) fun _ s' ⟨h1, h2, _⟩ => st_done (hst.step h1 h2)
    · apply st_emit_bind hst (by decide) (by jmp) (.inl (by opa)); intro s2 hst
      exact st_ifTail ih pos els hok.2 hels hst (by simp)
    · apply st_good_bind hc hst; intro _ s2 _ hst
      apply st_emit_bind hst (by decide) (by jmp) (.inl (by opa)); intro s3 hst
      apply st_good_bind hb hst; intro _ s4 _ hst
      exact st_ifTail ih pos els hok.2 hels hst (by simp)
  | for_ pos init cond post bp body =>
    unfold okS at hok
    simp only [Bool.and_eq_true] at hok
    have hinit := good_optStmt ih init hok.1.1.1 (by sz)
    have hpost := good_optStmt ih post hok.1.2 (by sz)
    have hb : Good (blockOf body (compileStmts body)) := good_blockOf (ih.stmts body (by sz) hok.2)
    rw [compileStmt_eq]; simp only
    apply good_withBlock
    intro s hs
    have hst := St.init hs
    apply st_good_bind hinit hst; intro _ s1 _ hst
    apply st_curPos_bind hst; intro hst
    cases cond with
    | none =>
      simp only [pure_bind]
      apply st_withLoop_bind hb hst; intro loop s4 hst
      apply st_curPos_bind hst; intro hst
      apply st_good_bind hpost hst; intro _ s6 _ hst
      apply st_emit__bind hst (by decide) (.inr ⟨argsIn_one (.inr (by simp)), .inl rfl⟩); intro s7 hst
      apply st_curPos_bind hst; intro hst
      apply st_patchAll_bind hst (by intro p hp; simp [hp]) (by simp); intro s9 hst
      exact st_patchAll hst (by intro p hp; simp [hp]) (by simp) (fun s' h => st_done h)
    | some c =>
      unfold okS at hok
      have hc := ih.expr c (by sz) hok.1.1.2
      simp only [bind_assoc, pure_bind]
      apply st_good_bind hc hst; intro _ s3 _ hst
      apply st_emit_bind hst (by decide) (by jmp) (.inl (by opa)); intro s3' hst
      apply st_withLoop_bind hb hst; intro loop s4 hst
      apply st_curPos_bind hst; intro hst
      apply st_good_bind hpost hst; intro _ s6 _ hst
      apply st_emit__bind hst (by decide) (.inr ⟨argsIn_one (.inr (by simp)), .inl rfl⟩); intro s7 hst
      apply st_curPos_bind hst; intro hst
      apply st_changeOperand_bind hst (by simp) (argsIn_one (.inr (by simp))); intro s9 hst
      apply st_patchAll_bind hst (by intro p hp; simp [hp]) (by simp); intro s10 hst
      exact st_patchAll hst (by intro p hp; simp [hp]) (by simp) (fun s' h => st_done h)
  | forin pos key value iter bp body =>
    rw [okS, Bool.and_eq_true] at hok
    have hit := ih.expr iter (by sz) hok.1
    have hb : Good (blockOf body (compileStmts body)) := good_blockOf (ih.stmts body (by sz) hok.2)
    rw [compileStmt_eq]; simp only
    apply good_withBlock
    intro s hs
    have hst := St.init hs
    apply st_good_bind (good_defineLocal ":it") hst; intro x s1 _ hst
    obtain ⟨itSym, ex⟩ := x
    simp only
    split
    · exact Sat.cerr
    · apply st_good_bind hit hst; intro _ s2 _ hst
      apply st_good_bind (good_emit_ (by decide) (by opa)) hst; intro _ s3 _ hst
      apply st_good_bind (good_emit_ (by decide) (by opa)) hst; intro _ s4 _ hst
      apply st_curPos_bind hst; intro hst
      apply st_good_bind (good_emit_ (by decide) (by opa)) hst; intro _ s6 _ hst
      apply st_good_bind (good_emit_ (by decide) (by opa)) hst; intro _ s7 _ hst
      apply st_emit_bind hst (by decide) (by jmp) (.inl (by opa)); intro s8 hst
      have hbody : Good (do
          forinVar pos itSym.index OpIterKey key
          forinVar pos itSym.index OpIterValue value
          blockOf body (compileStmts body)) :=
        GoodP.bind (good_forinVar pos _ (by decide) (by opa) key) fun _ _ =>
          GoodP.bind (good_forinVar pos _ (by decide) (by opa) value) fun _ _ => hb
      apply st_withLoop_bind hbody hst; intro loop s9 hst
      apply st_curPos_bind hst; intro hst
      apply st_emit__bind hst (by decide) (.inr ⟨argsIn_one (.inr (by simp)), .inl rfl⟩); intro s11 hst
      apply st_curPos_bind hst; intro hst
      apply st_changeOperand_bind hst (by simp) (argsIn_one (.inr (by simp))); intro s13 hst
      apply st_patchAll_bind hst (by intro p hp; simp [hp]) (by simp); intro s14 hst
      exact st_patchAll hst (by intro p hp; simp [hp]) (by simp) (fun s' h => st_done h)
  | branch pos tok => rw [compileStmt_eq]; simp only; good
  | return_ pos e =>
    unfold okS at hok
    cases e with
    | none => rw [compileStmt_eq]; simp only; good
    | some x =>
      have := ih.expr x (by sz) hok
      rw [compileStmt_eq]; simp only; good
  | try_ pos bp body c f =>
    unfold okS at hok
    simp only [Bool.and_eq_true] at hok
    have hbody := ih.stmts body (by sz) hok.1.1
    -- the `finally` part: emits SETUPFINALLY (its position is the finally target), then the body
    have hfin : ∀ {s0 s : CState} {ps ts : List Nat} {Q : Unit → CState → Prop} (g : Nat → CM Unit),
        St s0 ps ts s →
        (∀ fp s', St s0 ps (fp :: ts) s' → fp < s'.insts.size → s.insts.size ≤ s'.insts.size → Sat (g fp) s' Q) →
        Sat ((match f with
          | some (fpos, _, fbody) => do let p ← emit fpos OpSetupFinally; compileStmts fbody; Pure.pure p
          | none => emit pos OpSetupFinally) >>= g) s Q := by
      intro s0 s ps ts Q g hst hg
      cases f with
      | none =>
        simp only
        apply st_emit_tgt_bind hst (by decide) (.inl (by opa)); intro s' hst' hb
        exact hg _ s' hst' hb.1.2 (Nat.le_of_lt hb.1.2)
      | some fv =>
        obtain ⟨f1, f2, f3⟩ := fv
        have hfb := ih.stmts f3 (by sz) hok.2
        simp only [bind_assoc, pure_bind]
        apply st_emit_tgt_bind hst (by decide) (.inl (by opa)); intro s' hst' hb
        apply st_good_bind_sz hfb hst'; intro _ s'' _ hst'' hsz
        have := hb.1.2
        exact hg _ s'' hst'' (by omega) (by omega)
    rw [compileStmt_eq]; simp only
    refine GoodP.bind (P := fun _ => True) (good_withBlock ?_) (fun _ _ => ?_)
    · intro s hs
      have hst := St.init hs
      apply st_good_bind (good_tryIdx (· + 1)) hst; intro _ s1 _ hst
      apply st_emit_bind hst (by decide) (by jmp) (.inl (by opa)); intro s2 hst
      apply st_good_bind hbody hst; intro _ s3 _ hst
      cases c with
      | none =>
        simp only
        apply hfin _ hst; intro fp s4 hst hfp _
        exact st_changeOperand hst (by simp) (argsIn_two (t1 := 0) (.inl rfl) (.inr (by simp))) (fun s' h => st_done h)
          (by intro t1 t2 h; injection h with h1 h'; injection h' with h2 _; omega)
      | some cv =>
        obtain ⟨cpos, ident, c3, cbody⟩ := cv
        have hcb := ih.stmts cbody (by sz) hok.1.2
        have hid1 : Good (match ident with
            | some name => do emit_ cpos OpNull; defineCatchIdent pos name
            | none => Pure.pure ()) := by cases ident <;> good
        have hid2 : Good (match ident with
            | some name => defineCatchIdent cpos name
            | none => emit_ cpos OpPop) := by cases ident <;> good
        simp only
        apply st_good_bind hid1 hst; intro _ s4 _ hst
        apply st_emit_bind hst (by decide) (by jmp) (.inl (by opa)); intro s5 hst
        apply st_curPos_bind hst; intro hst
        -- SETUPCATCH is emitted AT the catch position: from here on it lies strictly inside the stream
        apply st_emit__bind_sz hst (by decide) (.inl (by opa)); intro s7 hst h7
        apply st_good_bind_sz hid2 hst; intro _ s8 _ hst h8
        apply st_good_bind_sz hcb hst; intro _ s9 _ hst h9
        apply hfin _ hst; intro fp s10 hst hfp h10
        refine st_changeOperand_bind hst (by simp) (argsIn_two (.inr (by simp)) (.inr (by simp))) (fun s11 hst => ?_)
          (by intro t1 t2 h; injection h with h1 h'; injection h' with h2 _; omega)
        exact st_changeOperand hst (by simp) (argsIn_one (.inr (by simp))) (fun s' h => st_done h)
    · have := good_tryIdx (· - 1)
      good
  | throw pos e =>
    unfold okS at hok
    cases e with
    | none => rw [compileStmt_eq]; simp only; good
    | some x =>
      have := ih.expr x (by sz) hok
      rw [compileStmt_eq]; simp only; good
  | declParam pos specs => rw [compileStmt_eq]; simp only; good
  | declGlobal pos specs => rw [compileStmt_eq]; simp only; good
  | declValue pos tok specs =>
    rw [okS] at hok
    have := ih.valueSpecs pos tok specs none (by sz) hok (fun x hx => by cases hx)
    have : Good (modify (fun s : CState => { s with iotaVal := -1 }) : CM Unit) :=
      good_modify_misc (fun _ => rfl) (fun _ => rfl) (fun _ => rfl)
    rw [compileStmt_eq]; simp only; good


theorem allGood : ∀ n, AllGood n
  | 0 => ⟨fun _ h => by omega, fun _ h => by omega, fun _ _ h => by omega, fun _ _ h => by omega,
          fun _ h => by omega, fun _ h => by omega, fun _ _ _ _ _ h => by omega,
          fun _ _ _ _ _ _ _ _ h => by omega, fun _ _ _ _ _ h => by omega, fun _ _ _ _ h => by omega,
          fun _ h => by omega⟩
  | n + 1 =>
    have ih := allGood n
    ⟨step_expr ih, step_exprs ih, fun pos => step_mapElems ih pos, fun e self h1 h2 h3 => step_indexChain ih e self h1 h2 h3,
     step_selChain ih, step_stmts ih, fun pos lhs kw op allow => step_defineAssign ih pos lhs kw op allow,
     fun pos kw op num tmp => step_destructure ih pos kw op num tmp,
     fun pos tok => step_valueIdents ih pos tok, fun pos tok => step_valueSpecs ih pos tok, step_stmt ih⟩

/-- every statement list with non-empty assignment left-hand sides compiles without a Go panic
    from any state that satisfies the invariant, and re-establishes it -/
theorem good_compileStmts (ss : List Stmt) (hok : okSs ss = true) : Good (compileStmts ss) :=
  (allGood (sizeOf ss + 1)).stmts ss (by omega) hok

end UgoVerif.Compile
