import UgoVerif.Proofs.C08Step
import UgoVerif.Proofs.C08Copy
/-
  C08, shared heap segment: the instructions that touch constants which may be shared maps
  (CONSTANT, LOADMODULE, STOREMODULE), instruction fetch as a pure function of the state
  (`byteAt`), and `dispatch` for all other opcodes.
-/
set_option linter.unusedVariables false
set_option linter.unusedSimpArgs false
set_option maxHeartbeats 1600000
namespace UgoVerif.VM
open UgoVerif UgoVerif.Go

/-! ### instruction bytes as a function of the state -/

/-- byte `i` of `code` (what `vm.curInsts[i]` reads; `none`: index out of range) -/
def codeByte (code : Code) (i : Int) : Option Nat :=
  if i < 0 || i ≥ (code.insts.size : Int) then none else some (code.insts[i.toNat]!).toNat

/-- the code of the current frame's function -/
def curCodeOf (s : State) : Option Code :=
  match (s.frames[s.curFrame]!).fn with
  | none => none
  | some a =>
    match s.heap[a]? with
    | some (.fn c _) => some (s.codes[c]!)
    | _ => none

/-- byte `i` of the current instructions: exactly what `instAt i` returns -/
def byteAt (s : State) (i : Int) : Option Nat :=
  match curCodeOf s with
  | some code => codeByte code i
  | none => none

/-- big-endian 16-bit operand at `i` -/
def word2 (s : State) (i : Int) : Option Nat :=
  match byteAt s (i + 1), byteAt s i with
  | some lo, some hi => some (lo ||| (hi <<< 8))
  | _, _ => none

theorem exec_curCode (s : State) :
    (exec curCode s).2 = s ∧ ∀ c, (exec curCode s).1 = .ok c ↔ curCodeOf s = some c := by
  unfold curCode curCodeOf curFrame heapGet
  simp only [exec_bind, exec_getS, exec_pure]
  cases h1 : (s.frames[s.curFrame]!).fn with
  | none => simp only [exec_panic]; simp
  | some a =>
    simp only [exec_bind, exec_getS, exec_pure]
    cases h2 : s.heap[a]? with
    | none => simp only [exec_unsupported]; simp
    | some c =>
      cases c <;> simp only [exec_bind, exec_getS, exec_pure, exec_unsupported] <;> simp

theorem exec_instAt (s : State) (i : Int) :
    (exec (instAt i) s).2 = s ∧ ∀ b, (exec (instAt i) s).1 = .ok b ↔ byteAt s i = some b := by
  have hc := exec_curCode s
  unfold instAt byteAt
  rw [exec_bind]
  rcases h : exec curCode s with ⟨r, s'⟩
  rw [h] at hc
  simp only at hc
  obtain ⟨rfl, hc2⟩ := hc
  cases r with
  | error e =>
    have : curCodeOf s' = none := by
      cases hcc : curCodeOf s' with
      | none => rfl
      | some c => have := (hc2 c).2 hcc; simp at this
    simp [this]
  | ok code =>
    have : curCodeOf s' = some code := (hc2 code).1 rfl
    simp only [this, codeByte]
    split <;> simp

theorem exec_instAt_some {s : State} {i : Int} {b : Nat} (h : byteAt s i = some b) :
    exec (instAt i) s = (.ok b, s) := by
  have := exec_instAt s i
  rcases hx : exec (instAt i) s with ⟨r, s'⟩
  rw [hx] at this
  obtain ⟨rfl, h2⟩ := this
  have := (h2 b).2 h
  simp at this; rw [this]

theorem byteAt_congr {s t : State} (h1 : t.frames = s.frames) (h2 : t.curFrame = s.curFrame) (h3 : t.heap = s.heap)
    (h4 : t.codes = s.codes) (i : Int) : byteAt t i = byteAt s i := by
  unfold byteAt curCodeOf; rw [h1, h2, h3, h4]

/-- a computation that never changes the state -/
def Reader {α} (m : M α) : Prop := ∀ s, (exec m s).2 = s

theorem exec_bind_reader {α β} {m : M α} (hm : Reader m) (f : α → M β) (s : State) :
    exec (m >>= f) s = match (exec m s).1 with
      | .ok a => exec (f a) s
      | .error e => (.error e, s) := by
  rw [exec_bind]
  have := hm s
  rcases h : exec m s with ⟨r, s'⟩
  rw [h] at this; simp only at this; subst this
  cases r <;> rfl

theorem reader_instAt (i : Int) : Reader (instAt i) := fun s => (exec_instAt s i).1
theorem reader_getIp : Reader getIp := fun _ => rfl
theorem reader_getSp : Reader getSp := fun _ => rfl
theorem reader_getS : Reader getS := fun _ => rfl

theorem Reader.bind {α β} {m : M α} {f : α → M β} (hm : Reader m) (hf : ∀ a, Reader (f a)) : Reader (m >>= f) := by
  intro s
  rw [exec_bind_reader hm]
  cases h : (exec m s).1 with
  | ok a => exact hf a s
  | error e => rfl

theorem Reader.pure {α} (a : α) : Reader (Pure.pure a : M α) := fun _ => rfl

theorem reader_opnd1 (k : Int) : Reader (opnd1 k) := by
  unfold opnd1; exact reader_getIp.bind fun _ => reader_instAt _
theorem reader_opnd2 (k : Int) : Reader (opnd2 k) := by
  unfold opnd2
  exact reader_getIp.bind fun _ => (reader_instAt _).bind fun _ => (reader_instAt _).bind fun _ => Reader.pure _

theorem exec_opnd2 (s : State) (k : Int) (w : Nat) :
    (exec (opnd2 k) s).1 = .ok w ↔ word2 s (s.ip + k) = some w := by
  unfold opnd2 word2
  rw [exec_bind_reader reader_getIp]
  have e0 : (exec getIp s).1 = .ok s.ip := rfl
  simp only [e0]
  rw [exec_bind_reader (reader_instAt _)]
  have h1 := (exec_instAt s (s.ip + k + 1)).2
  cases hb1 : byteAt s (s.ip + k + 1) with
  | none =>
    have : ∀ b, (exec (instAt (s.ip + k + 1)) s).1 ≠ .ok b := fun b hb => by
      have := (h1 b).1 hb; rw [hb1] at this; cases this
    cases hx : (exec (instAt (s.ip + k + 1)) s).1 with
    | ok b => exact absurd hx (this b)
    | error e => simp
  | some lo =>
    have : (exec (instAt (s.ip + k + 1)) s).1 = .ok lo := (h1 lo).2 hb1
    simp only [this]
    rw [exec_bind_reader (reader_instAt _)]
    have h2 := (exec_instAt s (s.ip + k)).2
    cases hb2 : byteAt s (s.ip + k) with
    | none =>
      have : ∀ b, (exec (instAt (s.ip + k)) s).1 ≠ .ok b := fun b hb => by
        have := (h2 b).1 hb; rw [hb2] at this; cases this
      cases hx : (exec (instAt (s.ip + k)) s).1 with
      | ok b => exact absurd hx (this b)
      | error e => simp
    | some hi =>
      have : (exec (instAt (s.ip + k)) s).1 = .ok hi := (h2 hi).2 hb2
      simp only [this, exec_pure]
      constructor
      · intro h; simpa using h
      · intro h; simpa using h

theorem reader_constAt (i : Nat) : Reader (constAt i) := by
  intro s; unfold constAt; simp only [exec_bind, exec_getS]; split <;> rfl

theorem exec_constAt (s : State) (i : Nat) (v : V) : (exec (constAt i) s).1 = .ok v ↔ s.consts[i]? = some v := by
  unfold constAt; simp only [exec_bind, exec_getS]
  cases h : s.consts[i]? with
  | none => simp
  | some w => simp

/-! ### the opcodes that touch constants and the module cache -/

macro_rules | `(tactic| tr_prim) => `(tactic| exact tr_execGetLocal)
macro_rules | `(tactic| tr_prim) => `(tactic| exact tr_execSetLocal)
macro_rules | `(tactic| tr_prim) => `(tactic| exact tr_execAndJump)
macro_rules | `(tactic| tr_prim) => `(tactic| exact tr_execOrJump)
macro_rules | `(tactic| tr_prim) => `(tactic| exact tr_execTrue)
macro_rules | `(tactic| tr_prim) => `(tactic| exact tr_execFalse)
macro_rules | `(tactic| tr_prim) => `(tactic| exact tr_execCall)
macro_rules | `(tactic| tr_prim) => `(tactic| exact tr_execCallName)
macro_rules | `(tactic| tr_prim) => `(tactic| exact tr_execReturn)
macro_rules | `(tactic| tr_prim) => `(tactic| exact tr_execGetBuiltin)
macro_rules | `(tactic| tr_prim) => `(tactic| exact tr_execClosure)
macro_rules | `(tactic| tr_prim) => `(tactic| exact tr_execJump)
macro_rules | `(tactic| tr_prim) => `(tactic| exact tr_execJumpFalsy)
macro_rules | `(tactic| tr_prim) => `(tactic| exact tr_execGetGlobal)
macro_rules | `(tactic| tr_prim) => `(tactic| exact tr_execSetGlobal)
macro_rules | `(tactic| tr_prim) => `(tactic| exact tr_execArray)
macro_rules | `(tactic| tr_prim) => `(tactic| exact tr_execMap)
macro_rules | `(tactic| tr_prim) => `(tactic| exact tr_execGetIndex)
macro_rules | `(tactic| tr_prim) => `(tactic| exact tr_execSetIndex)
macro_rules | `(tactic| tr_prim) => `(tactic| exact tr_execSliceIndex)
macro_rules | `(tactic| tr_prim) => `(tactic| exact tr_execGetFree)
macro_rules | `(tactic| tr_prim) => `(tactic| exact tr_execSetFree)
macro_rules | `(tactic| tr_prim) => `(tactic| exact tr_execGetLocalPtr)
macro_rules | `(tactic| tr_prim) => `(tactic| exact tr_execGetFreePtr)
macro_rules | `(tactic| tr_prim) => `(tactic| exact tr_execDefineLocal)
macro_rules | `(tactic| tr_prim) => `(tactic| exact tr_execNull)
macro_rules | `(tactic| tr_prim) => `(tactic| exact tr_execPop)
macro_rules | `(tactic| tr_prim) => `(tactic| exact tr_execIterInit)
macro_rules | `(tactic| tr_prim) => `(tactic| exact tr_execSetupTry)
macro_rules | `(tactic| tr_prim) => `(tactic| exact tr_execSetupCatch)
macro_rules | `(tactic| tr_prim) => `(tactic| exact tr_execSetupFinally)
macro_rules | `(tactic| tr_prim) => `(tactic| exact tr_execThrow)
macro_rules | `(tactic| tr_prim) => `(tactic| exact tr_execFinalizer)
macro_rules | `(tactic| tr_prim) => `(tactic| exact tr_execNoOp)
macro_rules | `(tactic| tr_prim) => `(tactic| exact tr_execBinaryOp _)
macro_rules | `(tactic| tr_prim) => `(tactic| exact tr_execUnary _)
macro_rules | `(tactic| tr_prim) => `(tactic| exact tr_execEqual _ _)
macro_rules | `(tactic| tr_prim) => `(tactic| exact tr_execIterNext _)
macro_rules | `(tactic| tr_prim) => `(tactic| exact tr_execUnknown _)

section
variable {n : Nat} {h0 : Array Cell}

theorem tr_setModule (midx : Nat) (v : V) (hv : PrivV n v) :
    Tr n h0 (good n) (modS fun s => { s with modules := s.modules.set! midx v }) :=
  Tr.modS fun s h => ⟨h.heap, h.stack, h.globals, privV_set! h.modules midx v hv, h.frames, h.ssize⟩
macro_rules | `(tactic| tr_prim) => `(tactic| refine tr_setModule _ _ ?_)

/-- STOREMODULE from a state that satisfies the full invariant -/
theorem tr_execStoreModule : Tr n h0 (good n) execStoreModule := by
  unfold execStoreModule; trsg
  all_goals exact PrivV.copyOK (by assumption)
macro_rules | `(tactic| tr_prim) => `(tactic| exact tr_execStoreModule)

/-- what STOREMODULE does after `value = v.Copy()` -/
def storeRest (midx : Nat) (sp : Int) (value : V) : M Ctl := do
  stackSet (sp - 1) value
  let s ← getS
  if midx ≥ s.modules.size then
    panic s!"runtime error: index out of range [{midx}] with length {s.modules.size}"
  modS fun s => { s with modules := s.modules.set! midx value }
  bumpIp 2; return .next

theorem execStoreModule_eq : execStoreModule =
    (opnd2 1 >>= fun midx => getSp >>= fun sp => stackGet (sp - 1) >>= fun value => copyV value >>= fun value =>
      storeRest midx sp value) := rfl

/-- the part of `storeRest` after the copy has been put into the stack slot -/
def storeRest' (midx : Nat) (value : V) : M Ctl := do
  let s ← getS
  if midx ≥ s.modules.size then
    panic s!"runtime error: index out of range [{midx}] with length {s.modules.size}"
  modS fun s => { s with modules := s.modules.set! midx value }
  bumpIp 2; return .next

theorem storeRest_eq (midx : Nat) (sp : Int) (value : V) :
    storeRest midx sp value = (stackSet (sp - 1) value >>= fun _ => storeRest' midx value) := rfl

theorem tr_storeRest' (midx : Nat) (v : V) (hv : PrivV n v) : Tr n h0 (good n) (storeRest' midx v) := by
  unfold storeRest'; trsg

/-- what CONSTANT / LOADMODULE do once the value to push is known -/
def pushRest (v : V) (flag? : Option Bool) (w : Int) : M Ctl := do
  pushV v
  match flag? with
  | some b => pushV (.bool b)
  | none => pure ()
  bumpIp w; return .next

theorem tr_pushRest (v : V) (hv : PrivV n v) (flag? : Option Bool) (w : Int) :
    Tr n h0 (good n) (pushRest v flag? w) := by
  unfold pushRest; trsg

theorem execConstant_eq : execConstant = (opnd2 1 >>= fun c => constAt c >>= fun v => pushRest v none 2) := rfl

/-- CONSTANT keeps the invariant when the constant it loads is private -/
theorem execConstant_inv (s : State) (hs : Inv n h0 s)
    (hc : ∀ c v, word2 s (s.ip + 1) = some c → s.consts[c]? = some v → PrivV n v) :
    Inv n h0 (exec execConstant s).2 := by
  rw [execConstant_eq, exec_bind_reader (reader_opnd2 1)]
  cases h1 : (exec (opnd2 1) s).1 with
  | error e => exact hs
  | ok c =>
    simp only
    rw [exec_bind_reader (reader_constAt c)]
    cases h2 : (exec (constAt c) s).1 with
    | error e => exact hs
    | ok v =>
      exact ((tr_pushRest v (hc c v ((exec_opnd2 s 1 c).1 h1) ((exec_constAt s c v).1 h2)) none 2).elim s hs).1

/-- every opcode other than CONSTANT and LOADMODULE keeps the invariant -/
theorem tr_dispatch (F : FloatOps) (op : Nat) (h1 : op ≠ OpConstant) (h2 : op ≠ OpLoadModule) :
    Tr n h0 (good n) (dispatch F op) := by
  unfold dispatch; trsg
  all_goals (exfalso; simp_all)

end

end UgoVerif.VM
