import UgoVerif.Model.Compile
/-
  C05 helper lemmas about instruction streams: `makeInstruction` output length, `patch`
  (= Go `copy` into the stream), and `Walk`: the instruction boundaries of a byte stream.
-/
namespace UgoVerif.Compile
open UgoVerif UgoVerif.Go UgoVerif.Ast

/-! ### makeInstruction -/

theorem beBytes_length (w v : Nat) : (beBytes w v).length = w := by simp [beBytes]

theorem encodeOperands_length : ∀ (ws : List Nat) (as : List Int) (bs : List UInt8),
    ws.length = as.length → encodeOperands ws as = .ok bs → bs.length = ws.sum
  | [], [], bs, _, h => by simp [encodeOperands] at h; simp [← h]
  | [], _ :: _, _, hl, _ => by simp at hl
  | _ :: _, [], _, hl, _ => by simp at hl
  | w :: ws, a :: as, bs, hl, h => by
    simp only [encodeOperands] at h
    split at h
    · cases h
    · split at h
      · cases h
      · split at h
        · rename_i bs' hb
          injection h with h
          have := encodeOperands_length ws as bs' (by simpa using hl) hb
          simp [← h, beBytes_length, this]
        · cases h

theorem makeInstruction_ok {op : Nat} {args : List Int} {bs : List UInt8}
    (h : makeInstruction op args = .ok bs) :
    ∃ rest, bs = UInt8.ofNat op :: rest ∧ rest.length = opWidth op := by
  unfold makeInstruction at h
  split at h
  · cases h
  · rename_i hl
    split at h
    · rename_i rest hr
      injection h with h
      refine ⟨rest, h.symm, ?_⟩
      exact encodeOperands_length _ _ _ (by simpa using hl) hr
    · cases h

/-- big-endian value of a byte list -/
def beVal (bs : List UInt8) : Nat := bs.foldl (fun acc b => acc * 256 + b.toNat) 0

/-- decoder of the operand bytes of an instruction (`ReadOperands`): one big-endian value per width -/
def readOperands : List Nat → List UInt8 → List Int
  | [], _ => []
  | w :: ws, bs => Int.ofNat (beVal (bs.take w)) :: readOperands ws (bs.drop w)

theorem operandWidths_mem (op w : Nat) (h : w ∈ operandWidths op) : w = 1 ∨ w = 2 ∨ w = 4 := by
  unfold operandWidths at h
  repeat' split at h
  all_goals simp at h
  all_goals omega

theorem u8_toNat_mod (x : Nat) : (UInt8.ofNat (x % 256)).toNat = x % 256 := by
  simp [UInt8.toNat_ofNat']

theorem beVal_beBytes (w v : Nat) (hw : w = 1 ∨ w = 2 ∨ w = 4) (hv : (v : Int) ≤ maxOf w) : beVal (beBytes w v) = v := by
  rcases hw with rfl | rfl | rfl
  · simp [maxOf] at hv
    simp [beBytes, beVal, List.range, List.range.loop, UInt8.toNat_ofNat']
    omega
  · simp [maxOf] at hv
    simp [beBytes, beVal, List.range, List.range.loop, UInt8.toNat_ofNat', Nat.shiftRight_eq_div_pow]
    omega
  · simp [maxOf] at hv
    simp [beBytes, beVal, List.range, List.range.loop, UInt8.toNat_ofNat', Nat.shiftRight_eq_div_pow]
    omega

theorem readOperands_encode : ∀ (ws : List Nat) (as : List Int) (bs : List UInt8),
    (∀ w ∈ ws, w = 1 ∨ w = 2 ∨ w = 4) → ws.length = as.length → encodeOperands ws as = .ok bs →
    readOperands ws bs = as
  | [], [], bs, _, _, _ => by simp [readOperands]
  | [], _ :: _, _, _, hl, _ => by simp at hl
  | _ :: _, [], _, _, hl, _ => by simp at hl
  | w :: ws, a :: as, bs, hw, hl, h => by
    simp only [encodeOperands] at h
    split at h
    · cases h
    · rename_i h1
      split at h
      · cases h
      · rename_i h2
        split at h
        · rename_i bs' hb
          injection h with h
          subst h
          have ih := readOperands_encode ws as bs' (fun w' hw' => hw w' (by simp [hw'])) (by simpa using hl) hb
          have hwv := hw w (by simp)
          have hnat : ((a.toNat : Nat) : Int) = a := Int.toNat_of_nonneg (by omega)
          simp only [readOperands]
          rw [List.take_left' (beBytes_length _ _), List.drop_left' (beBytes_length _ _), ih,
            beVal_beBytes w a.toNat hwv (by omega)]
          simp [hnat]
        · cases h

/-- the operand ranges accepted by `encodeOperands` -/
def operandsFit : List Nat → List Int → Prop
  | w :: ws, a :: as => (0 ≤ a ∧ a ≤ maxOf w) ∧ operandsFit ws as
  | _, _ => True

theorem encodeOperands_ok_iff : ∀ (ws : List Nat) (as : List Int),
    (∃ bs, encodeOperands ws as = .ok bs) ↔ operandsFit ws as
  | [], _ => by simp [encodeOperands, operandsFit]
  | _ :: _, [] => by simp [encodeOperands, operandsFit]
  | w :: ws, a :: as => by
    have ih := encodeOperands_ok_iff ws as
    simp only [encodeOperands, operandsFit]
    constructor
    · rintro ⟨bs, h⟩
      split at h
      · cases h
      · split at h
        · cases h
        · split at h
          · rename_i bs' hb
            exact ⟨⟨by omega, by omega⟩, ih.mp ⟨bs', hb⟩⟩
          · cases h
    · rintro ⟨⟨h1, h2⟩, h3⟩
      obtain ⟨bs', hb⟩ := ih.mpr h3
      rw [if_neg (by omega), if_neg (by omega), hb]
      exact ⟨_, rfl⟩


/-! ### patch -/

theorem size_patch : ∀ (bs : List UInt8) (a : Array UInt8) (p : Nat), (patch a p bs).size = a.size
  | [], _, _ => rfl
  | b :: r, a, p => by simp [patch, size_patch r]

theorem patch_get_lt : ∀ (bs : List UInt8) (a : Array UInt8) (p k : Nat), k < p → (patch a p bs)[k]? = a[k]?
  | [], _, _, _, _ => rfl
  | b :: r, a, p, k, h => by
    simp only [patch]
    rw [patch_get_lt r _ (p + 1) k (by omega)]
    simp [Array.getElem?_setIfInBounds]
    omega

theorem patch_get_ge : ∀ (bs : List UInt8) (a : Array UInt8) (p k : Nat), p + bs.length ≤ k → (patch a p bs)[k]? = a[k]?
  | [], _, _, _, _ => rfl
  | b :: r, a, p, k, h => by
    simp only [patch]
    simp only [List.length_cons] at h
    rw [patch_get_ge r _ (p + 1) k (by omega)]
    simp [Array.getElem?_setIfInBounds]
    omega

theorem patch_get_head (b : UInt8) (r : List UInt8) (a : Array UInt8) (p : Nat) (h : p < a.size) :
    (patch a p (b :: r))[p]? = some b := by
  simp only [patch]
  rw [patch_get_lt r _ (p + 1) p (by omega)]
  simp [Array.getElem?_setIfInBounds, h]

/-! ### instruction boundaries -/

/-- `Walk a i j`: decoding instructions of `a` from offset `i` reaches offset `j` exactly; every
    opcode on the way is a known opcode and every instruction is complete. -/
inductive Walk (a : Array UInt8) : Nat → Nat → Prop
  | refl (i : Nat) : Walk a i i
  | step {i j : Nat} (op : UInt8) (h1 : a[i]? = some op) (h2 : op.toNat < numOpcodes)
      (h3 : i + 1 + opWidth op.toNat ≤ a.size) (h4 : Walk a (i + 1 + opWidth op.toNat) j) : Walk a i j

theorem Walk.le {a : Array UInt8} {i j : Nat} (h : Walk a i j) : i ≤ j := by
  induction h with
  | refl => exact Nat.le_refl _
  | step op h1 h2 h3 h4 ih => omega

theorem Walk.trans {a : Array UInt8} {i j k : Nat} (h : Walk a i j) (h' : Walk a j k) : Walk a i k := by
  induction h with
  | refl => exact h'
  | step op h1 h2 h3 h4 ih => exact .step op h1 h2 h3 (ih h')

/-- two walks from the same offset: one continues the other -/
theorem Walk.comparable {a : Array UInt8} {i j k : Nat} (h : Walk a i j) (h' : Walk a i k) :
    Walk a j k ∨ Walk a k j := by
  induction h generalizing k with
  | refl => exact .inl h'
  | step op h1 h2 h3 h4 ih =>
    cases h' with
    | refl => exact .inr (.step op h1 h2 h3 h4)
    | step op' h1' h2' h3' h4' =>
      have : op' = op := by rw [h1] at h1'; injection h1' with h; exact h.symm
      subst this
      exact ih h4'

/-- `a'` extends `a`: at least as long, same bytes on `a`'s range -/
def Pre (a a' : Array UInt8) : Prop := a.size ≤ a'.size ∧ ∀ k, k < a.size → a'[k]? = a[k]?

theorem Pre.refl (a : Array UInt8) : Pre a a := ⟨Nat.le_refl _, fun _ _ => rfl⟩
theorem Pre.trans {a b c : Array UInt8} (h : Pre a b) (h' : Pre b c) : Pre a c :=
  ⟨Nat.le_trans h.1 h'.1, fun k hk => by rw [h'.2 k (by have := h.1; omega), h.2 k hk]⟩

theorem Walk.pre {a a' : Array UInt8} {i j : Nat} (h : Walk a i j) (hp : Pre a a') : Walk a' i j := by
  induction h with
  | refl => exact .refl _
  | step op h1 h2 h3 h4 ih =>
    rename_i i0 j0
    have hi : i0 < a.size := by
      rcases Nat.lt_or_ge i0 a.size with h | h
      · exact h
      · simp [Array.getElem?_eq_none h] at h1
    exact .step op (by rw [hp.2 _ hi]; exact h1) h2 (by have := hp.1; omega) ih

/-- a boundary strictly inside the stream -/
def Bd (a : Array UInt8) (p : Nat) : Prop := Walk a 0 p ∧ p < a.size

theorem Bd.pre {a a' : Array UInt8} {p : Nat} (h : Bd a p) (hp : Pre a a') : Bd a' p :=
  ⟨h.1.pre hp, by have := hp.1; have := h.2; omega⟩

/-- a walk only looks at the bytes at its own boundaries -/
theorem Walk.congr {a a' : Array UInt8} {i j : Nat} (h : Walk a i j) (hs : a'.size = a.size)
    (hag : ∀ k, Walk a i k → k < j → a'[k]? = a[k]?) : Walk a' i j := by
  induction h with
  | refl => exact .refl _
  | step op h1 h2 h3 h4 ih =>
    rename_i i j
    have hij : i < j := by have := h4.le; omega
    refine .step op (by rw [hag i (.refl _) hij]; exact h1) h2 (by omega) (ih ?_)
    intro k hk hkj
    exact hag k (.step op h1 h2 h3 hk) hkj

/-- appending one complete instruction keeps the stream decodable -/
theorem Walk.append_inst {a : Array UInt8} {op : Nat} {rest : List UInt8} (h : Walk a 0 a.size)
    (hop : op < numOpcodes) (hl : rest.length = opWidth op) :
    Walk (a ++ (UInt8.ofNat op :: rest).toArray) 0 (a ++ (UInt8.ofNat op :: rest).toArray).size := by
  have hpre : Pre a (a ++ (UInt8.ofNat op :: rest).toArray) :=
    ⟨by simp, fun k hk => by simp [Array.getElem?_append, hk]⟩
  have hto : (UInt8.ofNat op).toNat = op := by
    simp [UInt8.toNat_ofNat']
    unfold numOpcodes at hop
    omega
  refine (h.pre hpre).trans (.step (UInt8.ofNat op) ?_ (by rw [hto]; exact hop) ?_ ?_)
  · simp [Array.getElem?_append]
  · simp [hto, hl]; omega
  · have : a.size + 1 + opWidth (UInt8.ofNat op).toNat = (a ++ (UInt8.ofNat op :: rest).toArray).size := by
      simp [hto, hl]; omega
    rw [this]; exact .refl _

theorem Bd.append_inst {a : Array UInt8} {op : Nat} {rest : List UInt8} (h : Walk a 0 a.size) :
    Bd (a ++ (UInt8.ofNat op :: rest).toArray) a.size := by
  have hpre : Pre a (a ++ (UInt8.ofNat op :: rest).toArray) :=
    ⟨by simp, fun k hk => by simp [Array.getElem?_append, hk]⟩
  exact ⟨h.pre hpre, by simp⟩

/-- overwriting the instruction at a boundary by an instruction with the same opcode keeps every
    boundary -/
theorem Walk.patch_inst {a : Array UInt8} {p j : Nat} {op : UInt8} {rest : List UInt8}
    (hj : Walk a 0 j) (hp : Walk a 0 p) (hop : a[p]? = some op) (hl : rest.length = opWidth op.toNat) :
    Walk (patch a p (op :: rest)) 0 j := by
  have hps : p < a.size := by
    rcases Nat.lt_or_ge p a.size with h | h
    · exact h
    · simp [Array.getElem?_eq_none h] at hop
  refine hj.congr (size_patch _ _ _) ?_
  intro k hk hkj
  rcases hp.comparable hk with h | h
  · -- p ≤ k
    cases h with
    | refl => rw [patch_get_head _ _ _ _ hps, hop]
    | step op' h1 h2 h3 h4 =>
      have : op' = op := by rw [hop] at h1; injection h1 with h; exact h.symm
      subst this
      have := h4.le
      exact patch_get_ge _ _ _ _ (by simp [hl]; omega)
  · -- k ≤ p
    have := h.le
    rcases Nat.lt_or_ge k p with hlt | hge
    · exact patch_get_lt _ _ _ _ hlt
    · have : k = p := by omega
      subst this
      rw [patch_get_head _ _ _ _ hps, hop]

theorem Pre.patch {a0 a : Array UInt8} {p : Nat} {bs : List UInt8} (h : Pre a0 a) (hp : a0.size ≤ p) :
    Pre a0 (patch a p bs) :=
  ⟨by rw [size_patch]; exact h.1, fun k hk => by rw [patch_get_lt _ _ _ _ (by omega)]; exact h.2 k hk⟩

/-- the scan of `Bytecode()` succeeds on a decodable stream -/
theorem scanFn_some {a : Array UInt8} : ∀ (fuel i lastOp : Nat) (pend : List Nat),
    Walk a i a.size → (scanFn a fuel i lastOp pend).isSome
  | 0, _, _, _, _ => by simp [scanFn]
  | fuel + 1, i, lastOp, pend, h => by
    cases h with
    | refl => simp [scanFn]
    | step op h1 h2 h3 h4 =>
      simp only [scanFn, h1]
      rw [if_neg (by omega), if_neg (by omega)]
      have : i + opWidth op.toNat + 1 = i + 1 + opWidth op.toNat := by omega
      rw [this]
      exact scanFn_some fuel _ _ _ h4


/-! ### jump targets -/

def isJumpOp (op : Nat) : Bool := op == OpJump || op == OpJumpFalsy || op == OpAndJump || op == OpOrJump

/-- CONSTANT and CLOSURE: the first (2-byte) operand indexes the constant pool -/
def isConstOp (op : Nat) : Bool := op == OpConstant || op == OpClosure

def isLocalOp (op : Nat) : Bool := op == OpGetLocal || op == OpSetLocal || op == OpDefineLocal || op == OpGetLocalPtr
def isFreeOp (op : Nat) : Bool := op == OpGetFree || op == OpSetFree || op == OpGetFreePtr
def isGlobalOp (op : Nat) : Bool := op == OpGetGlobal || op == OpSetGlobal

/-- number of builtin objects (regenerated: `Gen.numBuiltins`) -/
abbrev NB : Nat := Gen.numBuiltins

/-- every GETFREE / SETFREE / GETFREEPTR of the stream addresses one of `n` free variables -/
def FreeBound (n : Nat) (a : Array UInt8) : Prop :=
  ∀ p op, Bd a p → a[p]? = some op → isFreeOp op.toNat = true → readBE a (p + 1) 1 < n

/-- `a'` extends the constant pool `a` -/
def CPre (cs cs' : Array Const) : Prop := cs.size ≤ cs'.size ∧ ∀ i, i < cs.size → cs'[i]? = cs[i]?

theorem CPre.refl (cs : Array Const) : CPre cs cs := ⟨Nat.le_refl _, fun _ _ => rfl⟩
theorem CPre.trans {a b c : Array Const} (h : CPre a b) (h' : CPre b c) : CPre a c :=
  ⟨Nat.le_trans h.1 h'.1, fun i hi => by rw [h'.2 i (by have := h.1; omega), h.2 i hi]⟩
theorem CPre.push (cs : Array Const) (c : Const) : CPre cs (cs.push c) :=
  ⟨by simp, fun i hi => by simp [Array.getElem?_push, hi]; omega⟩
theorem CPre.get {cs cs' : Array Const} (h : CPre cs cs') {i : Nat} {c : Const} (hc : cs[i]? = some c) : cs'[i]? = some c := by
  have hi : i < cs.size := by
    rcases Nat.lt_or_ge i cs.size with h' | h'
    · exact h'
    · simp [Array.getElem?_eq_none h'] at hc
  rw [h.2 i hi]; exact hc

/-- the quantities the operand conditions refer to: the constant pool, the number of locals of the
    function being compiled (`maxDefinition` of its table), the number of its free variables -/
structure Lims where
  cs : Array Const
  nl : Nat
  nf : Nat

def Lims.le (L L' : Lims) : Prop := CPre L.cs L'.cs ∧ L.nl ≤ L'.nl ∧ L.nf ≤ L'.nf
theorem Lims.le_refl (L : Lims) : L.le L := ⟨CPre.refl _, Nat.le_refl _, Nat.le_refl _⟩
theorem Lims.le_trans {a b c : Lims} (h : a.le b) (h' : b.le c) : a.le c :=
  ⟨h.1.trans h'.1, Nat.le_trans h.2.1 h'.2.1, Nat.le_trans h.2.2 h'.2.2⟩

/-- condition on the first operand `v` of an instruction that carries an index:
    free-variable slot, builtin number, constant index of a global's name, constant index.
    (Local slots are not covered: `DefineLocal(":array")` and a `catch` identifier may return an
    existing symbol of any scope, whose index the compiler emits as a local slot; ruling that out
    needs identifier hygiene of the AST — see the design note.) -/
def Opnd1OK (L : Lims) (op v : Nat) : Prop :=
  (isFreeOp op = true → v < L.nf) ∧ (op = OpGetBuiltin → v < NB) ∧
  (isGlobalOp op = true → ∃ b, L.cs[v]? = some (.val (.str b))) ∧
  (isConstOp op = true → v < L.cs.size) ∧
  (op = OpConstant → ∀ f, L.cs[v]? = some (.fn f) → FreeBound 0 f.insts)

theorem Opnd1OK.mono {L L' : Lims} {op v : Nat} (h : Opnd1OK L op v) (hl : L.le L') : Opnd1OK L' op v := by
  obtain ⟨h2, h3, h4, h5, h6⟩ := h
  refine ⟨fun c => Nat.lt_of_lt_of_le (h2 c) hl.2.2, h3, ?_, ?_, ?_⟩
  · intro c; obtain ⟨b, hb⟩ := h4 c; exact ⟨b, hl.1.get hb⟩
  · intro c; exact Nat.lt_of_lt_of_le (h5 c) hl.1.1
  · intro c f hf
    have hv : v < L.cs.size := h5 (by rw [c]; rfl)
    rw [hl.1.2 v hv] at hf
    exact h6 c f hf

/-- an opcode none of whose operands is an index -/
def PlainIdx (op : Nat) : Prop :=
  isFreeOp op = false ∧ op ≠ OpGetBuiltin ∧ isGlobalOp op = false ∧ isConstOp op = false

instance (op : Nat) : Decidable (PlainIdx op) := by unfold PlainIdx; infer_instance

theorem PlainIdx.opnd {op : Nat} (h : PlainIdx op) (L : Lims) (v : Nat) : Opnd1OK L op v := by
  obtain ⟨h2, h3, h4, h5⟩ := h
  refine ⟨fun c => ?_, fun c => absurd c h3, fun c => ?_, fun c => ?_, fun c => ?_⟩
  · rw [h2] at c; cases c
  · rw [h4] at c; cases c
  · rw [h5] at c; cases c
  · rw [c] at h5; cases h5

/-- operand condition of the instruction at `p`: the operand of a jump-class instruction and both
    operands of SETUPTRY are instruction boundaries (0 = "no catch" is one); an index operand is in
    range (`Opnd1OK`); the function a CLOSURE instantiates uses no more free variables than the
    CLOSURE supplies -/
def TgtOK (L : Lims) (a : Array UInt8) (p op : Nat) : Prop :=
  (isJumpOp op = true → Walk a 0 (readBE a (p + 1) 4)) ∧
  (op = OpSetupTry → Walk a 0 (readBE a (p + 1) 4) ∧ Walk a 0 (readBE a (p + 5) 4)) ∧
  (∀ w ws, operandWidths op = w :: ws → Opnd1OK L op (readBE a (p + 1) w)) ∧
  (op = OpClosure → ∃ f, L.cs[readBE a (p + 1) 2]? = some (.fn f) ∧ FreeBound (readBE a (p + 3) 1) f.insts)

def TargetsOK (L : Lims) (a : Array UInt8) : Prop := ∀ p op, Bd a p → a[p]? = some op → TgtOK L a p op.toNat

/-- what `emit` / `changeOperand` must be given for such an instruction -/
def ArgsOK (L : Lims) (a : Array UInt8) (op : Nat) (args : List Int) : Prop :=
  (isJumpOp op = true → ∃ t : Nat, args = [(t : Int)] ∧ Walk a 0 t) ∧
  (op = OpSetupTry → ∃ t1 t2 : Nat, args = [(t1 : Int), (t2 : Int)] ∧ Walk a 0 t1 ∧ Walk a 0 t2) ∧
  (∀ (i : Nat) (rest : List Int), args = (i : Int) :: rest → Opnd1OK L op i) ∧
  (op = OpClosure → ∀ (i n : Nat), args = [(i : Int), (n : Int)] →
    ∃ f, L.cs[i]? = some (.fn f) ∧ FreeBound n f.insts)

theorem readBE4 (a : Array UInt8) (i : Nat) : readBE a i 4 =
    (((a[i]?.getD 0).toNat * 256 + (a[i + 1]?.getD 0).toNat) * 256 + (a[i + 2]?.getD 0).toNat) * 256
      + (a[i + 3]?.getD 0).toNat := by
  simp [readBE, List.range, List.range.loop]

theorem readBE4_congr {a a' : Array UInt8} {i : Nat} (h : ∀ k, k < 4 → a'[i + k]? = a[i + k]?) :
    readBE a' i 4 = readBE a i 4 := by
  rw [readBE4, readBE4]
  have h0 := h 0 (by omega); have h1 := h 1 (by omega); have h2 := h 2 (by omega); have h3 := h 3 (by omega)
  simp only [Nat.add_zero] at h0
  rw [h0, h1, h2, h3]

theorem readBE4_bytes {a : Array UInt8} {i : Nat} {b0 b1 b2 b3 : UInt8} (h0 : a[i]? = some b0)
    (h1 : a[i + 1]? = some b1) (h2 : a[i + 2]? = some b2) (h3 : a[i + 3]? = some b3) :
    readBE a i 4 = beVal [b0, b1, b2, b3] := by
  rw [readBE4, h0, h1, h2, h3]
  simp [beVal]

/-- the bytes `bs` sit in `a` at offset `p` -/
def InstAt (a : Array UInt8) (p : Nat) (bs : List UInt8) : Prop := ∀ k, k < bs.length → a[p + k]? = bs[k]?

theorem makeInstruction_read {op : Nat} {args : List Int} {opb : UInt8} {rest : List UInt8}
    (h : makeInstruction op args = .ok (opb :: rest)) : readOperands (operandWidths op) rest = args := by
  unfold makeInstruction at h
  split at h
  · cases h
  · rename_i hlen
    split at h
    · rename_i rest' hr
      injection h with h
      injection h with _ h
      subst h
      exact readOperands_encode _ _ _ (operandWidths_mem op) (by simpa using hlen) hr
    · cases h

theorem makeInstruction_len {op : Nat} {args : List Int} {bs : List UInt8} (h : makeInstruction op args = .ok bs) :
    (operandWidths op).length = args.length := by
  unfold makeInstruction at h
  split at h
  · cases h
  · rename_i hl; simpa using hl

/-- every operand of an encoded instruction lies in `[0, max]` -/
def fitsAll : List Nat → List Int → Prop
  | w :: ws, a :: as => (0 ≤ a ∧ a ≤ maxOf w) ∧ fitsAll ws as
  | _, _ => True

theorem encodeOperands_fits : ∀ (ws : List Nat) (as : List Int) (bs : List UInt8),
    encodeOperands ws as = .ok bs → fitsAll ws as
  | [], _, _, _ => by simp [fitsAll]
  | _ :: _, [], _, _ => by simp [fitsAll]
  | w :: ws, a :: as, bs, h => by
    simp only [encodeOperands] at h
    split at h
    · cases h
    · split at h
      · cases h
      · split at h
        · rename_i bs' hb
          exact ⟨⟨by omega, by omega⟩, encodeOperands_fits ws as bs' hb⟩
        · cases h

theorem makeInstruction_fits {op : Nat} {args : List Int} {bs : List UInt8} (h : makeInstruction op args = .ok bs) :
    fitsAll (operandWidths op) args := by
  unfold makeInstruction at h
  split at h
  · cases h
  · split at h
    · rename_i rest hr
      exact encodeOperands_fits _ _ _ hr
    · cases h

theorem isJumpOp_widths {op : Nat} (h : isJumpOp op = true) : operandWidths op = [4] := by
  simp [isJumpOp] at h
  rcases h with ((h | h) | h) | h <;> subst h <;> rfl

/-- decoding the operand of a jump-class instruction found in the stream -/
theorem inst_read_jump {a : Array UInt8} {p op : Nat} {args : List Int} {opb : UInt8} {rest : List UInt8} {t : Nat}
    (h : makeInstruction op args = .ok (opb :: rest)) (hj : isJumpOp op = true) (ha : args = [(t : Int)])
    (hat : InstAt a p (opb :: rest)) : readBE a (p + 1) 4 = t := by
  have hr := makeInstruction_read h
  obtain ⟨rest', hbs, hl⟩ := makeInstruction_ok h
  injection hbs with _ hbs
  subst hbs
  rw [isJumpOp_widths hj] at hr
  simp only [opWidth, isJumpOp_widths hj, List.sum_cons, List.sum_nil] at hl
  match rest, hl with
  | [b0, b1, b2, b3], _ =>
    simp only [readOperands, ha] at hr
    have h0 := hat 1 (by simp); have h1 := hat 2 (by simp); have h2 := hat 3 (by simp); have h3 := hat 4 (by simp)
    simp at h0 h1 h2 h3
    rw [readBE4_bytes h0 (by rw [Nat.add_assoc]; exact h1) (by rw [Nat.add_assoc]; exact h2) (by rw [Nat.add_assoc]; exact h3)]
    simp at hr
    exact_mod_cast hr

theorem inst_read_try {a : Array UInt8} {p : Nat} {args : List Int} {opb : UInt8} {rest : List UInt8} {t1 t2 : Nat}
    (h : makeInstruction OpSetupTry args = .ok (opb :: rest)) (ha : args = [(t1 : Int), (t2 : Int)])
    (hat : InstAt a p (opb :: rest)) : readBE a (p + 1) 4 = t1 ∧ readBE a (p + 5) 4 = t2 := by
  have hr := makeInstruction_read h
  obtain ⟨rest', hbs, hl⟩ := makeInstruction_ok h
  injection hbs with _ hbs
  subst hbs
  have hw : operandWidths OpSetupTry = [4, 4] := rfl
  rw [hw] at hr
  simp only [opWidth, hw, List.sum_cons, List.sum_nil] at hl
  match rest, hl with
  | [b0, b1, b2, b3, c0, c1, c2, c3], _ =>
    simp only [readOperands, ha] at hr
    have h0 := hat 1 (by simp); have h1 := hat 2 (by simp); have h2 := hat 3 (by simp); have h3 := hat 4 (by simp)
    have h4 := hat 5 (by simp); have h5 := hat 6 (by simp); have h6 := hat 7 (by simp); have h7 := hat 8 (by simp)
    simp at h0 h1 h2 h3 h4 h5 h6 h7
    rw [readBE4_bytes h0 (by rw [Nat.add_assoc]; exact h1) (by rw [Nat.add_assoc]; exact h2) (by rw [Nat.add_assoc]; exact h3),
      readBE4_bytes h4 (by rw [Nat.add_assoc]; exact h5) (by rw [Nat.add_assoc]; exact h6) (by rw [Nat.add_assoc]; exact h7)]
    simp at hr
    constructor
    · exact_mod_cast hr.1
    · exact_mod_cast hr.2


theorem readBE2 (a : Array UInt8) (i : Nat) : readBE a i 2 = (a[i]?.getD 0).toNat * 256 + (a[i + 1]?.getD 0).toNat := by
  simp [readBE, List.range, List.range.loop]

theorem readBE2_congr {a a' : Array UInt8} {i : Nat} (h : ∀ k, k < 2 → a'[i + k]? = a[i + k]?) :
    readBE a' i 2 = readBE a i 2 := by
  rw [readBE2, readBE2]
  have h0 := h 0 (by omega); have h1 := h 1 (by omega)
  simp only [Nat.add_zero] at h0
  rw [h0, h1]

theorem isConstOp_cases {op : Nat} (h : isConstOp op = true) : op = OpConstant ∨ op = OpClosure := by
  simpa [isConstOp] using h

theorem readBE1 (a : Array UInt8) (i : Nat) : readBE a i 1 = (a[i]?.getD 0).toNat := by
  simp [readBE, List.range, List.range.loop]

theorem readBE1_congr {a a' : Array UInt8} {i : Nat} (h : a'[i]? = a[i]?) : readBE a' i 1 = readBE a i 1 := by
  rw [readBE1, readBE1, h]

/-- reading `w` bytes that are the first `w` bytes of `bs` -/
theorem readBE_take {a : Array UInt8} {i w : Nat} {bs : List UInt8} (hw : w = 1 ∨ w = 2 ∨ w = 4) (hl : w ≤ bs.length)
    (h : ∀ k, k < w → a[i + k]? = bs[k]?) : readBE a i w = beVal (bs.take w) := by
  rcases hw with rfl | rfl | rfl
  · match bs, hl with
    | b0 :: tl, _ =>
      have h0 := h 0 (by omega)
      simp at h0
      rw [readBE1, h0]; simp [beVal]
  · match bs, hl with
    | b0 :: b1 :: tl, _ =>
      have h0 := h 0 (by omega); have h1 := h 1 (by omega)
      simp at h0 h1
      rw [readBE2, h0, h1]; simp [beVal]
  · match bs, hl with
    | b0 :: b1 :: b2 :: b3 :: tl, _ =>
      have h0 := h 0 (by omega); have h1 := h 1 (by omega); have h2 := h 2 (by omega); have h3 := h 3 (by omega)
      simp at h0 h1 h2 h3
      rw [readBE4, h0, h1, h2, h3]; simp [beVal]

/-- decoding the first operand of an instruction found in the stream -/
theorem inst_read_first {a : Array UInt8} {p op w : Nat} {ws : List Nat} {args rest' : List Int} {opb : UInt8}
    {rest : List UInt8} {i : Nat}
    (h : makeInstruction op args = .ok (opb :: rest)) (hw : operandWidths op = w :: ws) (ha : args = (i : Int) :: rest')
    (hat : InstAt a p (opb :: rest)) : readBE a (p + 1) w = i := by
  have hr := makeInstruction_read h
  obtain ⟨rest2, hbs, hl⟩ := makeInstruction_ok h
  injection hbs with _ hbs
  subst hbs
  rw [hw, ha] at hr
  simp only [readOperands] at hr
  injection hr with hr _
  have hwm := operandWidths_mem op w (by rw [hw]; simp)
  have hlen : w ≤ rest.length := by rw [hl]; simp [opWidth, hw]
  rw [readBE_take (bs := rest) hwm hlen]
  · exact Int.ofNat.inj hr
  · intro k hk
    have := hat (k + 1) (by simp; omega)
    rw [show p + 1 + k = p + (k + 1) by omega]
    simpa using this

/-- decoding the second (1-byte) operand of a CLOSURE instruction -/
theorem inst_read_closure2 {a : Array UInt8} {p : Nat} {args : List Int} {opb : UInt8} {rest : List UInt8} {i n : Nat}
    (h : makeInstruction OpClosure args = .ok (opb :: rest)) (ha : args = [(i : Int), (n : Int)])
    (hat : InstAt a p (opb :: rest)) : readBE a (p + 3) 1 = n := by
  have hr := makeInstruction_read h
  obtain ⟨rest2, hbs, hl⟩ := makeInstruction_ok h
  injection hbs with _ hbs
  subst hbs
  have hw : operandWidths OpClosure = [2, 1] := rfl
  rw [hw, ha] at hr
  simp only [opWidth, hw, List.sum_cons, List.sum_nil] at hl
  match rest, hl with
  | [b0, b1, b2], _ =>
    simp only [readOperands] at hr
    injection hr with _ hr
    injection hr with hr _
    have h3 := hat 3 (by simp)
    simp at h3
    rw [readBE1, h3]
    simp [beVal] at hr
    simp only [Option.getD_some]
    exact_mod_cast hr

theorem getElem?_lt_of_some {a : Array UInt8} {i : Nat} {b : UInt8} (h : a[i]? = some b) : i < a.size := by
  rcases Nat.lt_or_ge i a.size with h' | h'
  · exact h'
  · simp [Array.getElem?_eq_none h'] at h

/-- a boundary of an extension that lies within the old stream is a boundary of the old stream -/
theorem Walk.restrict_aux {a a' : Array UInt8} {i n p : Nat} (hw : Walk a i n) (hn : n = a.size) (hp : Pre a a')
    (h' : Walk a' i p) (hle : p ≤ a.size) : Walk a i p := by
  induction hw with
  | refl i0 =>
    have := h'.le
    have : p = i0 := by omega
    subst this; exact .refl _
  | step op h1 h2 h3 h4 ih =>
    cases h' with
    | refl => exact .refl _
    | step op' h1' h2' h3' h4' =>
      have hi := getElem?_lt_of_some h1
      have : op' = op := by rw [hp.2 _ hi, h1] at h1'; injection h1' with h; exact h.symm
      subst this
      exact .step op' h1 h2 h3 (ih hn h4')

theorem Walk.restrict {a a' : Array UInt8} {i p : Nat} (hw : Walk a i a.size) (hp : Pre a a')
    (h' : Walk a' i p) (hle : p ≤ a.size) : Walk a i p := Walk.restrict_aux hw rfl hp h' hle

theorem patch_get_mid : ∀ (bs : List UInt8) (a : Array UInt8) (p k : Nat), k < bs.length → p + bs.length ≤ a.size →
    (patch a p bs)[p + k]? = bs[k]?
  | [], _, _, _, h, _ => by simp at h
  | b :: r, a, p, 0, _, hs => by
    simp only [List.length_cons] at hs
    rw [Nat.add_zero, patch_get_head b r a p (by omega)]
    rfl
  | b :: r, a, p, k + 1, h, hs => by
    simp only [List.length_cons] at h hs
    simp only [patch]
    have := patch_get_mid r (a.setIfInBounds p b) (p + 1) k (by omega) (by simp; omega)
    rw [show p + (k + 1) = p + 1 + k by omega, this]
    rfl

/-- the bytes of `a` at `[p, p+n)` -/
def sliceAt (a : Array UInt8) (p : Nat) : Nat → List UInt8
  | 0 => []
  | n + 1 => (a[p]?.getD 0) :: sliceAt a (p + 1) n

theorem sliceAt_length (a : Array UInt8) : ∀ (n p : Nat), (sliceAt a p n).length = n
  | 0, _ => rfl
  | n + 1, p => by simp [sliceAt, sliceAt_length a n]

theorem sliceAt_get (a : Array UInt8) : ∀ (n p k : Nat), k < n → p + n ≤ a.size → (sliceAt a p n)[k]? = a[p + k]?
  | 0, _, _, h, _ => by omega
  | n + 1, p, 0, _, hs => by
    simp only [sliceAt, List.getElem?_cons_zero, Nat.add_zero]
    rw [Array.getElem?_eq_getElem (by omega)]
    rfl
  | n + 1, p, k + 1, h, hs => by
    simp only [sliceAt, List.getElem?_cons_succ]
    rw [sliceAt_get a n (p + 1) k (by omega) (by omega)]
    congr 1; omega

/-- patching back the old bytes undoes a patch -/
theorem patch_undo (a : Array UInt8) (p : Nat) (bs : List UInt8) (hs : p + bs.length ≤ a.size) :
    patch (patch a p bs) p (sliceAt a p bs.length) = a := by
  apply Array.ext_getElem?
  intro k
  rcases Nat.lt_or_ge k p with h | h
  · rw [patch_get_lt _ _ _ _ h, patch_get_lt _ _ _ _ h]
  · rcases Nat.lt_or_ge k (p + bs.length) with h2 | h2
    · obtain ⟨j, rfl⟩ : ∃ j, k = p + j := ⟨k - p, by omega⟩
      rw [patch_get_mid _ _ _ _ (by rw [sliceAt_length]; omega) (by rw [sliceAt_length, size_patch]; exact hs)]
      exact sliceAt_get a _ _ _ (by omega) hs
    · rw [patch_get_ge _ _ _ _ (by rw [sliceAt_length]; exact h2), patch_get_ge _ _ _ _ h2]

/-- the boundaries of a stream patched at a boundary (same opcode) are the old boundaries -/
theorem Walk.unpatch_inst {a : Array UInt8} {p j : Nat} {op : UInt8} {rest : List UInt8}
    (hj : Walk (patch a p (op :: rest)) 0 j) (hp : Walk a 0 p) (hop : a[p]? = some op)
    (hl : rest.length = opWidth op.toNat) (hfit : p + 1 + opWidth op.toNat ≤ a.size) : Walk a 0 j := by
  have hps := getElem?_lt_of_some hop
  have hlen : p + (op :: rest).length ≤ a.size := by simp [hl]; omega
  have hundo := patch_undo a p (op :: rest) hlen
  have hsl : sliceAt a p (op :: rest).length = op :: sliceAt a (p + 1) rest.length := by
    simp only [List.length_cons, sliceAt]
    rw [hop]; rfl
  rw [hsl] at hundo
  have hp' : Walk (patch a p (op :: rest)) 0 p := Walk.patch_inst hp hp hop hl
  have hop' : (patch a p (op :: rest))[p]? = some op := patch_get_head _ _ _ _ hps
  have := Walk.patch_inst (rest := sliceAt a (p + 1) rest.length) hj hp' hop' (by rw [sliceAt_length, hl])
  rw [hundo] at this
  exact this


theorem opWidth_jump {op : Nat} (h : isJumpOp op = true) : opWidth op = 4 := by simp [opWidth, isJumpOp_widths h]

/-- every operand width of a known opcode's first operand is within the instruction -/
theorem first_width_le {op w : Nat} {ws : List Nat} (h : operandWidths op = w :: ws) : w ≤ opWidth op := by
  simp [opWidth, h]

/-- the operand condition of an instruction whose bytes are untouched carries over -/
theorem TgtOK.transfer {L L' : Lims} {a a' : Array UInt8} {p op : Nat} (h : TgtOK L a p op) (hn : L.le L')
    (hw : ∀ t, Walk a 0 t → Walk a' 0 t)
    (hb : ∀ k, k < opWidth op → a'[p + 1 + k]? = a[p + 1 + k]?) : TgtOK L' a' p op := by
  have hrd : ∀ w ws, operandWidths op = w :: ws → readBE a' (p + 1) w = readBE a (p + 1) w := by
    intro w ws hws
    have hle := first_width_le hws
    rcases operandWidths_mem op w (by rw [hws]; simp) with rfl | rfl | rfl
    · exact readBE1_congr (by have := hb 0 (by omega); simpa using this)
    · exact readBE2_congr (fun k hk => hb k (by omega))
    · exact readBE4_congr (fun k hk => hb k (by omega))
  refine ⟨?_, ?_, ?_, ?_⟩
  · intro hj
    have hwd := opWidth_jump hj
    rw [readBE4_congr (fun k hk => hb k (by omega))]
    exact hw _ (h.1 hj)
  · intro ht
    have hwd : opWidth op = 8 := by rw [ht]; rfl
    have h2 := h.2.1 ht
    have e1 : readBE a' (p + 1) 4 = readBE a (p + 1) 4 := readBE4_congr (fun k hk => hb k (by omega))
    have e2 : readBE a' (p + 5) 4 = readBE a (p + 5) 4 := by
      apply readBE4_congr
      intro k hk
      have := hb (4 + k) (by omega)
      have e : p + 1 + (4 + k) = p + 5 + k := by omega
      rw [e] at this
      exact this
    rw [e1, e2]
    exact ⟨hw _ h2.1, hw _ h2.2⟩
  · intro w ws hws
    rw [hrd w ws hws]
    exact (h.2.2.1 w ws hws).mono hn
  · intro hc
    subst hc
    have hws : operandWidths OpClosure = [2, 1] := rfl
    have hwd : opWidth OpClosure = 3 := rfl
    obtain ⟨f, hf, hfb⟩ := h.2.2.2 rfl
    rw [hrd 2 [1] hws]
    have e3 : readBE a' (p + 3) 1 = readBE a (p + 3) 1 :=
      readBE1_congr (by have := hb 2 (by omega); simpa [Nat.add_assoc] using this)
    rw [e3]
    exact ⟨f, hn.1.get hf, hfb⟩

theorem TargetsOK.mono {L L' : Lims} {a : Array UInt8} (h : TargetsOK L a) (hn : L.le L') : TargetsOK L' a :=
  fun p op hbd hop => (h p op hbd hop).transfer hn (fun _ h => h) (fun _ _ => rfl)

/-- the instruction at an inner boundary is complete -/
theorem Bd.fit {a : Array UInt8} {p : Nat} {op : UInt8} (h : Bd a p) (hw : Walk a 0 a.size) (hop : a[p]? = some op) :
    p + 1 + opWidth op.toNat ≤ a.size := by
  rcases h.1.comparable hw with h' | h'
  · cases h' with
    | refl => exact absurd h.2 (Nat.lt_irrefl _)
    | step op' h1 h2 h3 h4 =>
      have : op' = op := by rw [hop] at h1; injection h1 with h; exact h.symm
      subst this; exact h3
  · have := h'.le; have := h.2; omega

/-- the operand condition of a freshly written instruction follows from the condition on its arguments -/
theorem tgtOK_of_args {L : Lims} {a a' : Array UInt8} {P op : Nat} {args : List Int} {opb : UInt8} {rest : List UInt8}
    (hm : makeInstruction op args = .ok (opb :: rest)) (ha : ArgsOK L a op args) (hat : InstAt a' P (opb :: rest))
    (hfw : ∀ t, Walk a 0 t → Walk a' 0 t) : TgtOK L a' P op := by
  refine ⟨?_, ?_, ?_, ?_⟩
  · intro hj
    obtain ⟨t, hargs, hwt⟩ := ha.1 hj
    rw [inst_read_jump hm hj hargs hat]
    exact hfw _ hwt
  · intro htry
    obtain ⟨t1, t2, hargs, h1, h2⟩ := ha.2.1 htry
    rw [htry] at hm
    obtain ⟨e1, e2⟩ := inst_read_try hm hargs hat
    rw [e1, e2]
    exact ⟨hfw _ h1, hfw _ h2⟩
  · intro w ws hws
    -- the first argument is a natural number (the instruction was encoded)
    have hlen := makeInstruction_len hm
    rw [hws] at hlen
    match args, hlen with
    | x :: rest', _ =>
      have hnn : ∃ i : Nat, x = (i : Int) := by
        have hfit := (makeInstruction_fits hm)
        rw [hws] at hfit
        exact ⟨x.toNat, (Int.toNat_of_nonneg hfit.1.1).symm⟩
      obtain ⟨i, hi⟩ := hnn
      subst hi
      rw [inst_read_first hm hws rfl hat]
      exact ha.2.2.1 i rest' rfl
  · intro hc
    subst hc
    have hws : operandWidths OpClosure = [2, 1] := rfl
    have hlen := makeInstruction_len hm
    rw [hws] at hlen
    match args, hlen with
    | [x, y], _ =>
      have hfit := (makeInstruction_fits hm)
      rw [hws] at hfit
      obtain ⟨i, hi⟩ : ∃ i : Nat, x = (i : Int) := ⟨x.toNat, (Int.toNat_of_nonneg hfit.1.1).symm⟩
      obtain ⟨n, hn⟩ : ∃ n : Nat, y = (n : Int) := ⟨y.toNat, (Int.toNat_of_nonneg hfit.2.1.1).symm⟩
      subst hi hn
      rw [inst_read_first hm hws rfl hat, inst_read_closure2 hm rfl hat]
      exact ha.2.2.2 rfl i n rfl

theorem TargetsOK.append_inst {L : Lims} {a : Array UInt8} {op : Nat} {args : List Int} {bs : List UInt8}
    (hw : Walk a 0 a.size) (ht : TargetsOK L a) (hop : op < numOpcodes)
    (hm : makeInstruction op args = .ok bs) (ha : ArgsOK L a op args) : TargetsOK L (a ++ bs.toArray) := by
  obtain ⟨rest, hbs, hl⟩ := makeInstruction_ok hm
  subst hbs
  have hpre : Pre a (a ++ (UInt8.ofNat op :: rest).toArray) :=
    ⟨by simp, fun k hk => by simp [Array.getElem?_append, hk]⟩
  have hto : (UInt8.ofNat op).toNat = op := by
    simp [UInt8.toNat_ofNat']
    unfold numOpcodes at hop
    omega
  have hw' := hw.pre hpre
  have hnew : (a ++ (UInt8.ofNat op :: rest).toArray)[a.size]? = some (UInt8.ofNat op) := by
    simp [Array.getElem?_append]
  intro p opb hbd hget
  rcases Nat.lt_or_ge p a.size with hlt | hge
  · have hbdp : Walk a 0 p := Walk.restrict hw hpre hbd.1 (by omega)
    have hgeta : a[p]? = some opb := by rw [← hpre.2 p hlt]; exact hget
    have hold := ht p opb ⟨hbdp, hlt⟩ hgeta
    have hfit := Bd.fit ⟨hbdp, hlt⟩ hw hgeta
    exact hold.transfer (Lims.le_refl _) (fun t h => h.pre hpre) (fun k hk => hpre.2 _ (by omega))
  · have hpe : p = a.size := by
      rcases hw'.comparable hbd.1 with h | h
      · cases h with
        | refl => rfl
        | step op' h1 h2 h3 h4 =>
          have : op' = UInt8.ofNat op := by rw [hnew] at h1; injection h1 with h; exact h.symm
          subst this
          have hle := h4.le
          have hlt := hbd.2
          rw [hto] at hle
          simp [hl] at hlt
          omega
      · have := h.le; omega
    subst hpe
    have hopb : opb = UInt8.ofNat op := by rw [hnew] at hget; injection hget with h; exact h.symm
    subst hopb
    rw [hto]
    have hat : InstAt (a ++ (UInt8.ofNat op :: rest).toArray) a.size (UInt8.ofNat op :: rest) := by
      intro k hk
      rw [Array.getElem?_append_right (by omega)]
      simp
    exact tgtOK_of_args hm ha hat (fun t h => h.pre hpre)

theorem TargetsOK.patch_inst {L : Lims} {a : Array UInt8} {q : Nat} {opq : UInt8} {args : List Int} {bs : List UInt8}
    (hw : Walk a 0 a.size) (ht : TargetsOK L a) (hq : Walk a 0 q) (hop : a[q]? = some opq)
    (hm : makeInstruction opq.toNat args = .ok bs) (ha : ArgsOK L a opq.toNat args) : TargetsOK L (patch a q bs) := by
  obtain ⟨rest, hbs, hl⟩ := makeInstruction_ok hm
  subst hbs
  have hofn : UInt8.ofNat opq.toNat = opq := by simp
  rw [hofn] at hm ⊢
  have hqs := getElem?_lt_of_some hop
  have hfit := Bd.fit ⟨hq, hqs⟩ hw hop
  have hfw : ∀ t, Walk a 0 t → Walk (patch a q (opq :: rest)) 0 t := fun t h => Walk.patch_inst h hq hop hl
  intro p opb hbd hget
  have hbdp : Bd a p := ⟨Walk.unpatch_inst hbd.1 hq hop hl hfit, by have := hbd.2; rwa [size_patch] at this⟩
  rcases Nat.lt_trichotomy p q with hlt | heq | hgt
  · -- before the patched instruction
    have hgeta : a[p]? = some opb := by rw [← patch_get_lt _ _ _ _ hlt]; exact hget
    have hnext : p + 1 + opWidth opb.toNat ≤ q := by
      rcases hbdp.1.comparable hq with h | h
      · cases h with
        | refl => omega
        | step op' h1 h2 h3 h4 =>
          have : op' = opb := by rw [hgeta] at h1; injection h1 with h; exact h.symm
          subst this; exact h4.le
      · have := h.le; omega
    exact (ht p opb hbdp hgeta).transfer (Lims.le_refl _) hfw (fun k hk => patch_get_lt _ _ _ _ (by omega))
  · subst heq
    have hopb : opb = opq := by rw [patch_get_head _ _ _ _ hqs] at hget; injection hget with h; exact h.symm
    subst hopb
    have hat : InstAt (patch a p (opb :: rest)) p (opb :: rest) :=
      fun k hk => patch_get_mid _ _ _ _ hk (by simp [hl]; omega)
    exact tgtOK_of_args hm ha hat hfw
  · -- after the patched instruction
    have hnext : q + 1 + opWidth opq.toNat ≤ p := by
      rcases hq.comparable hbdp.1 with h | h
      · cases h with
        | refl => omega
        | step op' h1 h2 h3 h4 =>
          have : op' = opq := by rw [hop] at h1; injection h1 with h; exact h.symm
          subst this; exact h4.le
      · have := h.le; omega
    have hgeta : a[p]? = some opb := by
      rw [← patch_get_ge (opq :: rest) a q p (by simp [hl]; omega)]; exact hget
    exact (ht p opb hbdp hgeta).transfer (Lims.le_refl _) hfw (fun k hk => patch_get_ge _ _ _ _ (by simp [hl]; omega))

/-- patching the instruction at a boundary leaves the opcode byte of every boundary alone -/
theorem Walk.patch_get {a : Array UInt8} {p k : Nat} {op : UInt8} {rest : List UInt8}
    (hk : Walk a 0 k) (hp : Walk a 0 p) (hop : a[p]? = some op) (hl : rest.length = opWidth op.toNat) :
    (patch a p (op :: rest))[k]? = a[k]? := by
  have hps := getElem?_lt_of_some hop
  rcases hp.comparable hk with h | h
  · cases h with
    | refl => rw [patch_get_head _ _ _ _ hps, hop]
    | step op' h1 h2 h3 h4 =>
      have : op' = op := by rw [hop] at h1; injection h1 with h; exact h.symm
      subst this
      have := h4.le
      exact patch_get_ge _ _ _ _ (by simp [hl]; omega)
  · have := h.le
    rcases Nat.lt_or_ge k p with hlt | hge
    · exact patch_get_lt _ _ _ _ hlt
    · have : k = p := by omega
      subst this
      rw [patch_get_head _ _ _ _ hps, hop]

/-- the instruction at `p` is a jump-class instruction or SETUPTRY (the ones `changeOperand` patches) -/
def Jumpy (a : Array UInt8) (p : Nat) : Prop :=
  ∃ op, a[p]? = some op ∧ (isJumpOp op.toNat = true ∨ op.toNat = OpSetupTry)

theorem Jumpy.pre {a a' : Array UInt8} {p : Nat} (h : Jumpy a p) (hp : Pre a a') : Jumpy a' p := by
  obtain ⟨op, h1, h2⟩ := h
  exact ⟨op, by rw [hp.2 p (getElem?_lt_of_some h1)]; exact h1, h2⟩

theorem jumpy_plain {op : Nat} (h : isJumpOp op = true ∨ op = OpSetupTry) : PlainIdx op := by
  rcases h with h | h
  · simp [isJumpOp] at h
    rcases h with ((h | h) | h) | h <;> subst h <;> decide
  · subst h; decide

theorem findConst_lt {cs : Array Const} {k : CVal} {i : Nat} (h : findConst cs k = some i) : i < cs.size := by
  unfold findConst at h
  split at h
  · cases h
  · have := List.mem_of_find?_eq_some h
    simpa using this

theorem findFn_lt {cs : Array Const} {f : CFn} {i : Nat} (h : findFn cs f = some i) : i < cs.size := by
  unfold findFn at h
  have := List.mem_of_find?_eq_some h
  simpa using this

end UgoVerif.Compile
