import UgoVerif.Model.Compile
/-
  C05 helper lemmas about instruction streams: `makeInstruction` output length, `patch`
  (= Go `copy` into the stream), and `Walk`: the instruction boundaries of a byte stream.
-/
namespace UgoVerif.Compile
open UgoVerif UgoVerif.Go UgoVerif.Ast

/-! ### makeInstruction -/

theorem beBytes_length (w v : Nat) : (beBytes w v).length = w := by simp [beBytes]

theorem encodeOperands_length : ∀ (ws : List Nat) (as : List Int) (bs : List UInt8),
    ws.length = as.length → encodeOperands ws as = .ok bs → bs.length = ws.sum
  | [], [], bs, _, h => by simp [encodeOperands] at h; simp [← h]
  | [], _ :: _, _, hl, _ => by simp at hl
  | _ :: _, [], _, hl, _ => by simp at hl
  | w :: ws, a :: as, bs, hl, h => by
    simp only [encodeOperands] at h
    split at h
    · cases h
    · split at h
      · cases h
      · split at h
        · rename_i bs' hb
          injection h with h
          have := encodeOperands_length ws as bs' (by simpa using hl) hb
          simp [← h, beBytes_length, this]
        · cases h

theorem makeInstruction_ok {op : Nat} {args : List Int} {bs : List UInt8}
    (h : makeInstruction op args = .ok bs) :
    ∃ rest, bs = UInt8.ofNat op :: rest ∧ rest.length = opWidth op := by
  unfold makeInstruction at h
  split at h
  · cases h
  · rename_i hl
    split at h
    · rename_i rest hr
      injection h with h
      refine ⟨rest, h.symm, ?_⟩
      exact encodeOperands_length _ _ _ (by simpa using hl) hr
    · cases h

/-! ### patch -/

theorem size_patch : ∀ (bs : List UInt8) (a : Array UInt8) (p : Nat), (patch a p bs).size = a.size
  | [], _, _ => rfl
  | b :: r, a, p => by simp [patch, size_patch r]

theorem patch_get_lt : ∀ (bs : List UInt8) (a : Array UInt8) (p k : Nat), k < p → (patch a p bs)[k]? = a[k]?
  | [], _, _, _, _ => rfl
  | b :: r, a, p, k, h => by
    simp only [patch]
    rw [patch_get_lt r _ (p + 1) k (by omega)]
    simp [Array.getElem?_setIfInBounds]
    omega

theorem patch_get_ge : ∀ (bs : List UInt8) (a : Array UInt8) (p k : Nat), p + bs.length ≤ k → (patch a p bs)[k]? = a[k]?
  | [], _, _, _, _ => rfl
  | b :: r, a, p, k, h => by
    simp only [patch]
    simp only [List.length_cons] at h
    rw [patch_get_ge r _ (p + 1) k (by omega)]
    simp [Array.getElem?_setIfInBounds]
    omega

theorem patch_get_head (b : UInt8) (r : List UInt8) (a : Array UInt8) (p : Nat) (h : p < a.size) :
    (patch a p (b :: r))[p]? = some b := by
  simp only [patch]
  rw [patch_get_lt r _ (p + 1) p (by omega)]
  simp [Array.getElem?_setIfInBounds, h]

/-! ### instruction boundaries -/

/-- `Walk a i j`: decoding instructions of `a` from offset `i` reaches offset `j` exactly; every
    opcode on the way is a known opcode and every instruction is complete. -/
inductive Walk (a : Array UInt8) : Nat → Nat → Prop
  | refl (i : Nat) : Walk a i i
  | step {i j : Nat} (op : UInt8) (h1 : a[i]? = some op) (h2 : op.toNat < numOpcodes)
      (h3 : i + 1 + opWidth op.toNat ≤ a.size) (h4 : Walk a (i + 1 + opWidth op.toNat) j) : Walk a i j

theorem Walk.le {a : Array UInt8} {i j : Nat} (h : Walk a i j) : i ≤ j := by
  induction h with
  | refl => exact Nat.le_refl _
  | step op h1 h2 h3 h4 ih => omega

theorem Walk.trans {a : Array UInt8} {i j k : Nat} (h : Walk a i j) (h' : Walk a j k) : Walk a i k := by
  induction h with
  | refl => exact h'
  | step op h1 h2 h3 h4 ih => exact .step op h1 h2 h3 (ih h')

/-- two walks from the same offset: one continues the other -/
theorem Walk.comparable {a : Array UInt8} {i j k : Nat} (h : Walk a i j) (h' : Walk a i k) :
    Walk a j k ∨ Walk a k j := by
  induction h generalizing k with
  | refl => exact .inl h'
  | step op h1 h2 h3 h4 ih =>
    cases h' with
    | refl => exact .inr (.step op h1 h2 h3 h4)
    | step op' h1' h2' h3' h4' =>
      have : op' = op := by rw [h1] at h1'; injection h1' with h; exact h.symm
      subst this
      exact ih h4'

/-- `a'` extends `a`: at least as long, same bytes on `a`'s range -/
def Pre (a a' : Array UInt8) : Prop := a.size ≤ a'.size ∧ ∀ k, k < a.size → a'[k]? = a[k]?

theorem Pre.refl (a : Array UInt8) : Pre a a := ⟨Nat.le_refl _, fun _ _ => rfl⟩
theorem Pre.trans {a b c : Array UInt8} (h : Pre a b) (h' : Pre b c) : Pre a c :=
  ⟨Nat.le_trans h.1 h'.1, fun k hk => by rw [h'.2 k (by have := h.1; omega), h.2 k hk]⟩

theorem Walk.pre {a a' : Array UInt8} {i j : Nat} (h : Walk a i j) (hp : Pre a a') : Walk a' i j := by
  induction h with
  | refl => exact .refl _
  | step op h1 h2 h3 h4 ih =>
    rename_i i0 j0
    have hi : i0 < a.size := by
      rcases Nat.lt_or_ge i0 a.size with h | h
      · exact h
      · simp [Array.getElem?_eq_none h] at h1
    exact .step op (by rw [hp.2 _ hi]; exact h1) h2 (by have := hp.1; omega) ih

/-- a boundary strictly inside the stream -/
def Bd (a : Array UInt8) (p : Nat) : Prop := Walk a 0 p ∧ p < a.size

theorem Bd.pre {a a' : Array UInt8} {p : Nat} (h : Bd a p) (hp : Pre a a') : Bd a' p :=
  ⟨h.1.pre hp, by have := hp.1; have := h.2; omega⟩

/-- a walk only looks at the bytes at its own boundaries -/
theorem Walk.congr {a a' : Array UInt8} {i j : Nat} (h : Walk a i j) (hs : a'.size = a.size)
    (hag : ∀ k, Walk a i k → k < j → a'[k]? = a[k]?) : Walk a' i j := by
  induction h with
  | refl => exact .refl _
  | step op h1 h2 h3 h4 ih =>
    rename_i i j
    have hij : i < j := by have := h4.le; omega
    refine .step op (by rw [hag i (.refl _) hij]; exact h1) h2 (by omega) (ih ?_)
    intro k hk hkj
    exact hag k (.step op h1 h2 h3 hk) hkj

/-- appending one complete instruction keeps the stream decodable -/
theorem Walk.append_inst {a : Array UInt8} {op : Nat} {rest : List UInt8} (h : Walk a 0 a.size)
    (hop : op < numOpcodes) (hl : rest.length = opWidth op) :
    Walk (a ++ (UInt8.ofNat op :: rest).toArray) 0 (a ++ (UInt8.ofNat op :: rest).toArray).size := by
  have hpre : Pre a (a ++ (UInt8.ofNat op :: rest).toArray) :=
    ⟨by simp, fun k hk => by simp [Array.getElem?_append, hk]⟩
  have hto : (UInt8.ofNat op).toNat = op := by
    simp [UInt8.toNat_ofNat']
    unfold numOpcodes at hop
    omega
  refine (h.pre hpre).trans (.step (UInt8.ofNat op) ?_ (by rw [hto]; exact hop) ?_ ?_)
  · simp [Array.getElem?_append]
  · simp [hto, hl]; omega
  · have : a.size + 1 + opWidth (UInt8.ofNat op).toNat = (a ++ (UInt8.ofNat op :: rest).toArray).size := by
      simp [hto, hl]; omega
    rw [this]; exact .refl _

theorem Bd.append_inst {a : Array UInt8} {op : Nat} {rest : List UInt8} (h : Walk a 0 a.size) :
    Bd (a ++ (UInt8.ofNat op :: rest).toArray) a.size := by
  have hpre : Pre a (a ++ (UInt8.ofNat op :: rest).toArray) :=
    ⟨by simp, fun k hk => by simp [Array.getElem?_append, hk]⟩
  exact ⟨h.pre hpre, by simp⟩

/-- overwriting the instruction at a boundary by an instruction with the same opcode keeps every
    boundary -/
theorem Walk.patch_inst {a : Array UInt8} {p j : Nat} {op : UInt8} {rest : List UInt8}
    (hj : Walk a 0 j) (hp : Walk a 0 p) (hop : a[p]? = some op) (hl : rest.length = opWidth op.toNat) :
    Walk (patch a p (op :: rest)) 0 j := by
  have hps : p < a.size := by
    rcases Nat.lt_or_ge p a.size with h | h
    · exact h
    · simp [Array.getElem?_eq_none h] at hop
  refine hj.congr (size_patch _ _ _) ?_
  intro k hk hkj
  rcases hp.comparable hk with h | h
  · -- p ≤ k
    cases h with
    | refl => rw [patch_get_head _ _ _ _ hps, hop]
    | step op' h1 h2 h3 h4 =>
      have : op' = op := by rw [hop] at h1; injection h1 with h; exact h.symm
      subst this
      have := h4.le
      exact patch_get_ge _ _ _ _ (by simp [hl]; omega)
  · -- k ≤ p
    have := h.le
    rcases Nat.lt_or_ge k p with hlt | hge
    · exact patch_get_lt _ _ _ _ hlt
    · have : k = p := by omega
      subst this
      rw [patch_get_head _ _ _ _ hps, hop]

theorem Pre.patch {a0 a : Array UInt8} {p : Nat} {bs : List UInt8} (h : Pre a0 a) (hp : a0.size ≤ p) :
    Pre a0 (patch a p bs) :=
  ⟨by rw [size_patch]; exact h.1, fun k hk => by rw [patch_get_lt _ _ _ _ (by omega)]; exact h.2 k hk⟩

/-- the scan of `Bytecode()` succeeds on a decodable stream -/
theorem scanFn_some {a : Array UInt8} : ∀ (fuel i lastOp : Nat) (pend : List Nat),
    Walk a i a.size → (scanFn a fuel i lastOp pend).isSome
  | 0, _, _, _, _ => by simp [scanFn]
  | fuel + 1, i, lastOp, pend, h => by
    cases h with
    | refl => simp [scanFn]
    | step op h1 h2 h3 h4 =>
      simp only [scanFn, h1]
      rw [if_neg (by omega), if_neg (by omega)]
      have : i + opWidth op.toNat + 1 = i + 1 + opWidth op.toNat := by omega
      rw [this]
      exact scanFn_some fuel _ _ _ h4

end UgoVerif.Compile
