import UgoVerif.Proofs.CompileMono
import UgoVerif.Proofs.CompSimFrag
/-
  C02, compile ⊑ Sem, first slice — the compiler side: inversion of successful runs of the
  compile model (`runCM m cs = (.ok a, cs')`) for the primitives the fragment uses: `emit`
  (which bytes are appended), `changeOperand` (which bytes are patched), `addConstant` (the index
  names a constant equal to the literal — for floats bit for bit), `resolve` of a name that is a
  local of the current function, and the decoding equations between the operand bytes the
  compiler writes (`beBytes`) and the values the VM reads (`opnd1/2/4`).
-/
set_option linter.unusedSimpArgs false
set_option linter.unusedVariables false
namespace UgoVerif.CompSim
open UgoVerif UgoVerif.Go UgoVerif.Ast UgoVerif.Compile

/-! ### monad -/

theorem bind_inv {α β} {m : CM α} {f : α → CM β} {cs cs' : CState} {b : β}
    (h : runCM (m >>= f) cs = (.ok b, cs')) :
    ∃ a cs1, runCM m cs = (.ok a, cs1) ∧ runCM (f a) cs1 = (.ok b, cs') := by
  rw [runCM_bind] at h
  cases hr : runCM m cs with
  | mk r cs1 =>
    rw [hr] at h
    cases r with
    | ok a => exact ⟨a, cs1, rfl, h⟩
    | error e => simp at h

theorem pure_inv {α} {a b : α} {cs cs' : CState} (h : runCM (pure a : CM α) cs = (.ok b, cs')) : b = a ∧ cs' = cs := by
  rw [runCM_pure] at h
  simp only [Prod.mk.injEq, Except.ok.injEq] at h
  exact ⟨h.1.symm, h.2.symm⟩

/-! ### operand bytes -/

theorem or_shl (x y k : Nat) (h : x < 2 ^ k) : x ||| (y <<< k) = y * 2 ^ k + x := by
  rw [Nat.or_comm, ← Nat.shiftLeft_add_eq_or_of_lt h, Nat.shiftLeft_eq]

theorem be1 (v : Nat) (h : v ≤ 255) : beBytes 1 v = [UInt8.ofNat v] ∧ (UInt8.ofNat v).toNat = v := by
  constructor
  · simp [beBytes, List.range, List.range.loop]
    congr 1; omega
  · simp [UInt8.toNat_ofNat']; omega

theorem be2 (v : Nat) (h : v ≤ 65535) : ∃ b1 b2 : UInt8, beBytes 2 v = [b1, b2] ∧ b2.toNat ||| (b1.toNat <<< 8) = v := by
  refine ⟨_, _, by simp [beBytes, List.range, List.range.loop]; exact ⟨rfl, rfl⟩, ?_⟩
  rw [or_shl _ _ 8 (by simp [UInt8.toNat_ofNat']; omega)]
  simp [UInt8.toNat_ofNat', Nat.shiftRight_eq_div_pow]
  omega

theorem be4 (v : Nat) (h : v ≤ 2147483647) : ∃ b1 b2 b3 b4 : UInt8, beBytes 4 v = [b1, b2, b3, b4] ∧
    b4.toNat ||| (b3.toNat <<< 8) ||| (b2.toNat <<< 16) ||| (b1.toNat <<< 24) = v := by
  refine ⟨_, _, _, _, by simp [beBytes, List.range, List.range.loop]; exact ⟨rfl, rfl, rfl, rfl⟩, ?_⟩
  simp only [UInt8.toNat_ofNat', Nat.shiftRight_eq_div_pow]
  rw [or_shl _ _ 8 (by omega), or_shl _ _ 16 (by omega), or_shl _ _ 24 (by omega)]
  omega

/-- an instruction with one operand of width `w` -/
theorem mk_one (op w : Nat) (hw : operandWidths op = [w]) (a : Int) (bs : List UInt8)
    (h : makeInstruction op [a] = .ok bs) :
    0 ≤ a ∧ a ≤ maxOf w ∧ bs = UInt8.ofNat op :: beBytes w a.toNat := by
  simp only [makeInstruction, hw, encodeOperands] at h
  simp only [List.length_cons, List.length_nil, bne_self_eq_false, Bool.false_eq_true, if_false] at h
  by_cases h1 : a > maxOf w
  · simp [h1] at h
  · by_cases h2 : a < 0
    · simp [h1, h2] at h
    · simp [h1, h2] at h
      exact ⟨by omega, by omega, h.symm⟩

theorem mk_w1 (op : Nat) (hw : operandWidths op = [1]) (a : Int) (bs : List UInt8)
    (h : makeInstruction op [a] = .ok bs) :
    0 ≤ a ∧ a ≤ 255 ∧ ∃ b : UInt8, bs = [UInt8.ofNat op, b] ∧ b.toNat = a.toNat := by
  obtain ⟨h0, h1, rfl⟩ := mk_one op 1 hw a bs h
  have h1' : a ≤ 255 := by simpa [maxOf] using h1
  obtain ⟨e1, e2⟩ := be1 a.toNat (by omega)
  exact ⟨h0, h1', _, by rw [e1], e2⟩

theorem mk_w2 (op : Nat) (hw : operandWidths op = [2]) (a : Int) (bs : List UInt8)
    (h : makeInstruction op [a] = .ok bs) :
    0 ≤ a ∧ ∃ b1 b2 : UInt8, bs = [UInt8.ofNat op, b1, b2] ∧ b2.toNat ||| (b1.toNat <<< 8) = a.toNat := by
  obtain ⟨h0, h1, rfl⟩ := mk_one op 2 hw a bs h
  have h1' : a ≤ 65535 := by simpa [maxOf] using h1
  obtain ⟨b1, b2, e1, e2⟩ := be2 a.toNat (by omega)
  exact ⟨h0, b1, b2, by rw [e1], e2⟩

theorem mk_w4 (op : Nat) (hw : operandWidths op = [4]) (a : Int) (bs : List UInt8)
    (h : makeInstruction op [a] = .ok bs) :
    0 ≤ a ∧ ∃ b1 b2 b3 b4 : UInt8, bs = [UInt8.ofNat op, b1, b2, b3, b4] ∧
      b4.toNat ||| (b3.toNat <<< 8) ||| (b2.toNat <<< 16) ||| (b1.toNat <<< 24) = a.toNat := by
  obtain ⟨h0, h1, rfl⟩ := mk_one op 4 hw a bs h
  have h1' : a ≤ 2147483647 := by simpa [maxOf] using h1
  obtain ⟨b1, b2, b3, b4, e1, e2⟩ := be4 a.toNat (by omega)
  exact ⟨h0, b1, b2, b3, b4, by rw [e1], e2⟩

/-! ### emit / changeOperand -/

theorem emit_inv {pos : Pos} {op : Nat} {args : List Int} {cs cs' : CState} {p : Nat}
    (h : runCM (emit pos op args) cs = (.ok p, cs')) :
    ∃ bs, makeInstruction op args = .ok bs ∧ p = cs.insts.size ∧
      cs' = { cs with insts := cs.insts ++ bs.toArray, sourceMap := setSourceMap cs.sourceMap cs.insts.size pos } := by
  unfold emit at h
  split at h
  · simp [cpanic, runCM_throw] at h
  · split at h
    · split at h <;> simp [runCM_throw] at h
    · rename_i bs hbs
      simp only [runCM_bind, runCM_get, runCM_set, runCM_pure, Prod.mk.injEq, Except.ok.injEq] at h
      exact ⟨bs, hbs, h.1.symm, h.2.symm⟩

theorem emit__inv {pos : Pos} {op : Nat} {args : List Int} {cs cs' : CState}
    (h : runCM (emit_ pos op args) cs = (.ok (), cs')) :
    ∃ bs, makeInstruction op args = .ok bs ∧
      cs' = { cs with insts := cs.insts ++ bs.toArray, sourceMap := setSourceMap cs.sourceMap cs.insts.size pos } := by
  unfold emit_ at h
  obtain ⟨p, cs1, h1, h2⟩ := bind_inv h
  obtain ⟨_, rfl⟩ := pure_inv h2
  obtain ⟨bs, hb, _, hc⟩ := emit_inv h1
  exact ⟨bs, hb, hc⟩

theorem changeOperand_inv {p : Nat} {args : List Int} {cs cs' : CState}
    (h : runCM (changeOperand p args) cs = (.ok (), cs')) :
    ∃ (op : UInt8) (bs : List UInt8), cs.insts[p]? = some op ∧ makeInstruction op.toNat args = .ok bs ∧
      cs' = { cs with insts := patch cs.insts p bs } := by
  unfold changeOperand at h
  simp only [runCM_bind, runCM_get] at h
  split at h
  · simp [cpanic, runCM_throw] at h
  · rename_i op hop
    split at h
    · simp [cpanic, runCM_throw] at h
    · split at h
      · simp [runCM_throw] at h
      · rename_i bs hbs
        simp only [runCM_set, Prod.mk.injEq] at h
        exact ⟨op, bs, hop, hbs, h.2.symm⟩

theorem curPos_inv {cs cs' : CState} {p : Nat} (h : runCM curPos cs = (.ok p, cs')) : p = cs.insts.size ∧ cs' = cs := by
  unfold curPos at h
  simp only [runCM_bind, runCM_get, runCM_pure, Prod.mk.injEq, Except.ok.injEq] at h
  exact ⟨h.1.symm, h.2.symm⟩

/-! ### the constant pool -/

theorem f64_key_inj (a b : F64) (h : a.key = b.key) (ha : a ≠ 0x8000000000000000#64) (hb : b ≠ 0x8000000000000000#64) : a = b := by
  apply BitVec.eq_of_toNat_eq
  have ha' : a.toNat ≠ 2^63 := fun h' => ha (BitVec.eq_of_toNat_eq (by simpa using h'))
  have hb' : b.toNat ≠ 2^63 := fun h' => hb (BitVec.eq_of_toNat_eq (by simpa using h'))
  have m : ∀ x : Nat, x &&& 9223372036854775807 = x % 2^63 := fun x => Nat.and_two_pow_sub_one_eq_mod x 63
  unfold F64.key at h
  simp only [BitVec.toNat_and, BitVec.msb_eq_decide, BitVec.toNat_ofNat, m] at h
  have := a.isLt; have := b.isLt
  simp at h
  split at h <;> split at h <;> omega

/-- a cache hit of `addConstant` is the same constant: Go map-key equality of the scalar kinds is
    identity of the value, for floats identity of the bit pattern because −0.0 is never cached and
    NaN never hits -/
theorem keyEq_eq (v k : CVal) (h : keyEq v k = true) (hv : isNegZero v = false) (hk : isNegZero k = false) : v = k := by
  cases v <;> cases k <;> first
    | (change (_ == _) = true at h; rw [eq_of_beq h])
    | rfl
    | (exact absurd (show false = true from h) (by decide))
    | skip
  rename_i a b
  change feq a b = true at h
  simp only [isNegZero, beq_eq_false_iff_ne, ne_eq] at hv hk
  simp only [feq, Bool.and_eq_true, beq_iff_eq] at h
  rw [f64_key_inj a b h.2 hv hk]

theorem findConst_eq {cs : Array Const} {k : CVal} {i : Nat} (h : findConst cs k = some i) :
    cs[i]? = some (.val k) := by
  have hlt := findConst_lt h
  unfold findConst at h
  split at h
  · cases h
  · rename_i hk
    have hp := List.find?_some h
    rw [getElem!_pos cs i hlt] at hp
    split at hp
    · rename_i v hv
      simp only [Bool.and_eq_true, Bool.not_eq_true'] at hp
      have : v = k := keyEq_eq v k hp.2 hp.1 (by simpa using hk)
      rw [Array.getElem?_eq_getElem hlt, hv, this]
    · cases hp

theorem addConstant_inv {k : CVal} {cs cs' : CState} {i : Nat} (h : runCM (addConstant k) cs = (.ok i, cs')) :
    cs' = { cs with constants := cs'.constants } ∧ IsPre cs.constants cs'.constants ∧ cs'.constants[i]? = some (.val k) := by
  unfold addConstant at h
  simp only [runCM_bind, runCM_get] at h
  split at h
  · rename_i j hj
    obtain ⟨rfl, rfl⟩ := pure_inv h
    exact ⟨rfl, IsPre.refl _, findConst_eq hj⟩
  · rw [runCM_bind, runCM_set] at h
    simp only [runCM_pure, Prod.mk.injEq, Except.ok.injEq] at h
    obtain ⟨rfl, rfl⟩ := h
    exact ⟨rfl, IsPre.push _ _, by simp⟩

theorem IsPre.get {a b : Array Const} (h : IsPre a b) {i : Nat} {c : Const} (hi : a[i]? = some c) : b[i]? = some c := by
  obtain ⟨ext, rfl⟩ := h
  have hlt : i < a.size := by
    rcases Nat.lt_or_ge i a.size with h' | h'
    · exact h'
    · simp [Array.getElem?_eq_none h'] at hi
  rw [Array.getElem?_append_left hlt]; exact hi

/-! ### symbols: locals of the current function -/

/-- the local slot the compiler resolves `n` to in state `cs`, if `n` is a local of the current
    function (found in the function's own table or one of its block tables) -/
def localIdx (cs : CState) (n : String) : Option Nat :=
  match (resolveIn cs.builtins (rootDisabled cs.tables) n cs.tables).1 with
  | some sym => if sym.scope = .local_ ∧ 0 ≤ sym.index then some sym.index.toNat else none
  | none => none

theorem resolveIn_local (bs : List (String × Nat)) (d : List String) (n : String) :
    ∀ (ts : List Table) (sym : Symbol) (ts' : List Table), resolveIn bs d n ts = (some sym, ts') →
      sym.scope = .local_ → ts' = ts
  | [], _, _, h, _ => by simp [resolveIn] at h
  | t :: rest, sym, ts', h, hs => by
    unfold resolveIn at h
    split at h
    · simp only [Prod.mk.injEq, Option.some.injEq] at h
      exact h.2.symm
    · split at h
      · split at h
        · split at h
          · simp only [Prod.mk.injEq, Option.some.injEq] at h
            rw [← h.1] at hs
            simp at hs
          · simp at h
        · simp at h
      · rename_i hne
        cases hr : resolveIn bs d n rest with
        | mk r rest' =>
          rw [hr] at h
          simp only at h
          cases r with
          | none => simp at h
          | some sym0 =>
            simp only at h
            split at h
            · simp only [Prod.mk.injEq, Option.some.injEq] at h
              rw [← h.1] at hs
              simp at hs
            · simp only [Prod.mk.injEq, Option.some.injEq] at h
              have := resolveIn_local bs d n rest sym0 rest' hr (by rw [h.1]; exact hs)
              rw [← h.2, this]

theorem resolve_local {cs : CState} {n : String} {i : Nat} (h : localIdx cs n = some i) :
    ∃ sym, runCM (resolve n) cs = (.ok (some sym), cs) ∧ sym.scope = .local_ ∧ sym.index = (i : Int) := by
  unfold localIdx at h
  cases hr : resolveIn cs.builtins (rootDisabled cs.tables) n cs.tables with
  | mk r ts =>
    rw [hr] at h
    cases r with
    | none => simp at h
    | some sym =>
      simp only at h
      split at h
      · rename_i hc
        simp only [Option.some.injEq] at h
        have hts := resolveIn_local _ _ _ _ _ _ hr hc.1
        refine ⟨sym, ?_, hc.1, by omega⟩
        unfold resolve
        simp only [runCM_bind, runCM_get, hr, runCM_set, runCM_pure, hts]
      · simp at h

/-! ### shape of a successful compile of an expression of the fragment -/

/-- only the instruction stream (appended to; patches stay behind the old end), the source map and
    the constant pool (appended to) change -/
structure Shape (cs cs' : CState) : Prop where
  eq : cs' = { cs with insts := cs'.insts, sourceMap := cs'.sourceMap, constants := cs'.constants }
  pre : Pre cs.insts cs'.insts
  cpre : IsPre cs.constants cs'.constants

theorem Shape.refl (cs : CState) : Shape cs cs := ⟨rfl, Pre.refl _, IsPre.refl _⟩

theorem Shape.trans {a b c : CState} (h1 : Shape a b) (h2 : Shape b c) : Shape a c :=
  ⟨by have e2 := h2.eq; rw [h1.eq] at e2; exact e2, h1.pre.trans h2.pre, h1.cpre.trans h2.cpre⟩

theorem Shape.localIdx {cs cs' : CState} (h : Shape cs cs') : localIdx cs' = localIdx cs := by
  funext n
  rw [h.eq]
  rfl

theorem pre_append (a : Array UInt8) (b : Array UInt8) : Pre a (a ++ b) :=
  ⟨by simp, fun k hk => by rw [Array.getElem?_append_left hk]⟩

theorem Shape.of_emit {pos : Pos} {op : Nat} {args : List Int} {cs cs' : CState} {p : Nat}
    (h : runCM (emit pos op args) cs = (.ok p, cs')) : Shape cs cs' := by
  obtain ⟨bs, _, _, rfl⟩ := emit_inv h
  exact ⟨rfl, pre_append _ _, IsPre.refl _⟩

theorem Shape.of_emit_ {pos : Pos} {op : Nat} {args : List Int} {cs cs' : CState}
    (h : runCM (emit_ pos op args) cs = (.ok (), cs')) : Shape cs cs' := by
  obtain ⟨bs, _, rfl⟩ := emit__inv h
  exact ⟨rfl, pre_append _ _, IsPre.refl _⟩

theorem Shape.of_addConstant {k : CVal} {cs cs' : CState} {i : Nat} (h : runCM (addConstant k) cs = (.ok i, cs')) :
    Shape cs cs' := by
  obtain ⟨e, hp, _⟩ := addConstant_inv h
  refine ⟨?_, ?_, hp⟩
  · conv => lhs; rw [e]
    rw [e]
  · rw [e]; exact Pre.refl _

/-- patching behind the end of `cs0`'s stream keeps the shape relative to `cs0` -/
theorem Shape.patch {cs0 cs : CState} (h : Shape cs0 cs) (p : Nat) (bs : List UInt8) (hp : cs0.insts.size ≤ p) :
    Shape cs0 { cs with insts := patch cs.insts p bs } :=
  ⟨by have e := h.eq; conv => lhs; rw [e], h.pre.patch hp, h.cpre⟩

/-- bytes the stream has at the emit position after an `emit` -/
theorem emit_bytes {cs : CState} (bs : List UInt8) (k : Nat) (hk : k < bs.length) :
    (cs.insts ++ bs.toArray)[cs.insts.size + k]? = bs[k]? := by
  rw [Array.getElem?_append_right (by omega)]
  simp

theorem getElem?_of_pre {a b : Array UInt8} (h : Pre a b) {k : Nat} {x : UInt8} (hx : a[k]? = some x) : b[k]? = some x := by
  have hlt : k < a.size := by
    rcases Nat.lt_or_ge k a.size with h' | h'
    · exact h'
    · simp [Array.getElem?_eq_none h'] at hx
  rw [h.2 k hlt]; exact hx

end UgoVerif.CompSim
