import UgoVerif.Proofs.OptimSem
/-
  Unfolding equations of `Sem.evalExpr` on the expression fragment, with the continuations of the
  `do` blocks named so that the soundness proofs can use `Refines.bind`.
-/
namespace UgoVerif.Proofs.OptimSem
open UgoVerif UgoVerif.Go UgoVerif.Ast UgoVerif.VM UgoVerif.Sem UgoVerif.Proofs.ModCache

/-- continuation of a unary expression after its operand -/
def unK (F : FloatOps) (tok : Nat) : ER → SM ER
  | .thr e => pure (.thr e)
  | .val v => do
    match (← Sem.liftM (vUnary F (tokOfNat tok) v)) with
    | .ok v' => pure (.val v')
    | .error e => raise e

/-- continuation of a binary expression after both operands -/
def binK2 (F : FloatOps) (tok : Nat) (lv : V) : ER → SM ER
  | .thr e => pure (.thr e)
  | .val rv =>
    if tok == tEqual then do pure (.val (.bool (← Sem.liftM (vEqual F lv rv))))
    else if tok == tNotEqual then do pure (.val (.bool (!(← Sem.liftM (vEqual F lv rv)))))
    else do
      match (← Sem.liftM (vBinaryOp F (tokOfNat tok) lv rv)) with
      | .ok v => pure (.val v)
      | .error e => raise e

/-- continuation of a binary expression after its left operand -/
def binK (F : FloatOps) (f : Nat) (env : Env) (tok : Nat) (r : Expr) : ER → SM ER
  | .thr e => pure (.thr e)
  | .val lv =>
    if tok == tLAnd then do
      if (← Sem.liftM (isFalsy lv)) then pure (.val lv) else evalExpr F f env r
    else if tok == tLOr then do
      if (← Sem.liftM (isFalsy lv)) then evalExpr F f env r else pure (.val lv)
    else evalExpr F f env r >>= binK2 F tok lv

/-- continuation of `c ? t : f` after the condition -/
def condK (F : FloatOps) (f : Nat) (env : Env) (t e : Expr) : ER → SM ER
  | .thr a => pure (.thr a)
  | .val cv => do if (← Sem.liftM (isFalsy cv)) then evalExpr F f env e else evalExpr F f env t

variable (F : FloatOps) (f : Nat) (env : Env) (p : Pos)

theorem eval_zero (e : Expr) : evalExpr F 0 env e = Sem.liftM (unsupported "sem: fuel") := by rw [evalExpr]
theorem eval_int (v : BitVec 64) : evalExpr F (f+1) env (.int p v) = pure (.val (.int v)) := by rw [evalExpr]
theorem eval_uint (v : BitVec 64) : evalExpr F (f+1) env (.uint p v) = pure (.val (.uint v)) := by rw [evalExpr]
theorem eval_float (v : F64) : evalExpr F (f+1) env (.float p v) = pure (.val (.float v)) := by rw [evalExpr]
theorem eval_char (v : BitVec 32) : evalExpr F (f+1) env (.char p v) = pure (.val (.char v)) := by rw [evalExpr]
theorem eval_bool (b : Bool) : evalExpr F (f+1) env (.bool p b) = pure (.val (.bool b)) := by rw [evalExpr]
theorem eval_str (s : Bytes) : evalExpr F (f+1) env (.str p s) = pure (.val (.str s)) := by rw [evalExpr]
theorem eval_undef : evalExpr F (f+1) env (.undef p) = pure (.val .undefined) := by rw [evalExpr]
theorem eval_paren (e : Expr) : evalExpr F (f+1) env (.paren p e) = evalExpr F f env e := by rw [evalExpr]

theorem eval_unary (tok : Nat) (x : Expr) :
    evalExpr F (f+1) env (.unary p tok x) = evalExpr F f env x >>= unK F tok := by
  rw [evalExpr]; rfl

theorem eval_binary (tok : Nat) (l r : Expr) :
    evalExpr F (f+1) env (.binary p tok l r) = evalExpr F f env l >>= binK F f env tok r := by
  rw [evalExpr]; rfl

theorem eval_cond (c t e : Expr) :
    evalExpr F (f+1) env (.cond p c t e) = evalExpr F f env c >>= condK F f env t e := by
  rw [evalExpr]; rfl

end UgoVerif.Proofs.OptimSem
