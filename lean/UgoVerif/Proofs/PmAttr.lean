import Lean.Meta.Tactic.Simp.RegisterCommand
/-- simp set of the frame lemmas `PM (op …)` of Proofs/ModCache.lean -/
register_simp_attr pm_simps
