import UgoVerif.Proofs.ExecAtStarts
/-
  Control-flow integrity, part 2: the frame stack.
  * updates of the current frame's handler stack (`setLast`, `popHandler`, push) keep the context;
  * `throw` / `handleThrownError` (`throwF`): from any `Safe` state — the partial state of a Go
    panic included — a thrown error that some handler takes leaves the VM at an instruction
    boundary (`Good`): `ip` is the catch / finally position of a handler minus one, positions that
    `Safe` knows to be instruction starts of the handling frame's function;
  * `failWith`; the frame push of a call (`callTail`); the frame pop of a return (`retTail`).
-/
namespace UgoVerif.VM.Cfi
open UgoVerif UgoVerif.Go
open UgoVerif.Compile (Walk Bd readBE opWidth)

/-! ### handler stacks -/

theorem hsOK_setLast {a : Array UInt8} {f : Frame} {t : Handler → Handler} (ht : ∀ h, HOK a h → HOK a (t h))
    (h : HsOK a f) : HsOK a (setLast f t) := by
  unfold setLast
  split
  · rename_i h0 r e
    intro hs hhs x hx
    have : hs = t h0 :: r := by simpa using hhs.symm
    subst this
    simp only [List.mem_cons] at hx
    rcases hx with hx | hx
    · subst hx; exact ht _ (h _ e h0 (by simp))
    · exact h _ e x (by simp [hx])
  · exact h

theorem hsOK_popHandler {a : Array UInt8} {f : Frame} (h : HsOK a f) : HsOK a (popHandler f) := by
  unfold popHandler
  split
  · rename_i h0 r e
    intro hs hhs x hx
    have : hs = r := by simpa using hhs.symm
    subst this
    exact h _ e x (by simp [hx])
  · exact h

theorem setLast_fn (f : Frame) (t : Handler → Handler) : (setLast f t).fn = f.fn := by
  unfold setLast; split <;> rfl
theorem popHandler_fn (f : Frame) : (popHandler f).fn = f.fn := by
  unfold popHandler; split <;> rfl
theorem setLast_ip (f : Frame) (t : Handler → Handler) : (setLast f t).ip = f.ip := by
  unfold setLast; split <;> rfl
theorem popHandler_ip (f : Frame) : (popHandler f).ip = f.ip := by
  unfold popHandler; split <;> rfl

theorem hasHandler_setLast (f : Frame) (t : Handler → Handler) : hasHandler (setLast f t) = hasHandler f := by
  unfold setLast
  split
  · rename_i h0 r e; simp [hasHandler, e]
  · rfl

theorem hasHandler_popHandler {f : Frame} (h : hasHandler f = false) : hasHandler (popHandler f) = false := by
  unfold popHandler
  split
  · rename_i h0 r e; simp [hasHandler, e] at h
  · exact h

theorem lastHandler_mem {f : Frame} {h : Handler} (e : lastHandler f = some h) :
    hasHandler f = true ∧ ∃ hs, f.handlers = some hs ∧ h ∈ hs := by
  unfold lastHandler at e
  split at e
  · rename_i h0 r e0
    cases e
    exact ⟨by simp [hasHandler, e0], _, e0, by simp⟩
  · cases e

section
variable {code : Code} {iv : Int}

/-- an update of the current frame that keeps its function and the handler condition -/
theorem xk_setCurFrame (g : Frame → Frame) (hfn : ∀ f, (g f).fn = f.fn)
    (hh : ∀ f, HsOK code.insts f → HsOK code.insts (g f)) : Keeps (CtxI code iv) (setCurFrame g) := by
  apply Keeps.intro'; intro s h
  rw [Live.exec_setCurFrame]
  obtain ⟨fa, c, fr, g1, g2, g3, g4⟩ := h.cur
  obtain ⟨⟨h1, h2, h3, h4⟩, _, h5⟩ := h
  refine ⟨⟨h1, h2, by simpa using h3, ?_⟩, ⟨fa, c, fr, ?_, g2, g3⟩, h5⟩
  · intro i
    show FrOK s.heap s.codes (i < s.curFrame) ((s.frames.modify s.curFrame g)[i]!)
    rw [getElem!_modify]
    by_cases hi : s.curFrame = i ∧ i < s.frames.size
    · rw [if_pos hi]
      obtain ⟨hi1, _⟩ := hi
      subst hi1
      refine .inr ⟨fa, c, fr, by rw [hfn]; exact g1, g2, by rw [g3]; exact hh _ g4, fun hlt => absurd hlt (Nat.lt_irrefl _)⟩
    · rw [if_neg hi]; exact h4 i
  · show ((s.frames.modify s.curFrame g)[s.curFrame]!).fn = some fa
    rw [getElem!_modify]
    split
    · rw [hfn]; exact g1
    · exact g1

theorem xk_setLast (t : Handler → Handler) (ht : ∀ h, HOK code.insts h → HOK code.insts (t h)) :
    Keeps (CtxI code iv) (setCurFrame fun f => setLast f t) :=
  xk_setCurFrame _ (fun f => setLast_fn f t) (fun _ h => hsOK_setLast ht h)

theorem xk_popHandler : Keeps (CtxI code iv) (setCurFrame popHandler) :=
  xk_setCurFrame _ popHandler_fn (fun _ h => hsOK_popHandler h)

end

macro_rules | `(tactic| ck_prim) => `(tactic| exact xk_popHandler)
macro_rules | `(tactic| ck_prim) => `(tactic| exact xk_setLast _ (fun _ h => ⟨h.1, h.2.1, h.2.2⟩))
macro_rules | `(tactic| ck_prim) => `(tactic| exact xk_setLast _ (fun _ h => ⟨fun hc => absurd hc (Int.lt_irrefl 0), h.2.1, h.2.2⟩))
macro_rules | `(tactic| ck_prim) => `(tactic|
  exact xk_setLast _ (fun _ h => ⟨fun hc => absurd hc (Int.lt_irrefl 0), fun hc => absurd hc (Int.lt_irrefl 0), h.2.2⟩))
macro_rules | `(tactic| ck_prim) => `(tactic| exact xk_setCurFrame _ (fun _ => rfl) (fun _ h => h))
macro_rules | `(tactic| ck_prim) => `(tactic| exact xk_setCurFrame _ (fun _ => rfl) (fun _ _ hs hhs => by cases hhs))

/-! ### `Safe`-level actions (no instruction context: the state of a panic site) -/

theorem Safe.of_heap {s s' : State} (h : Safe s) (hfr : s'.frames = s.frames) (hc : s'.curFrame = s.curFrame)
    (hfi : s'.frameIndex = s.frameIndex) (hcodes : s'.codes = s.codes)
    (hheap : ∀ (a c : Nat) (f : Option (List Addr)), s.heap[a]? = some (Cell.fn c f) → s'.heap[a]? = some (Cell.fn c f))
    (hnew : FnFrom s.heap s'.heap) : Safe s' := by
  obtain ⟨h1, h2, h3, h4⟩ := h
  refine ⟨?_, ?_, ?_, ?_⟩
  · intro a c fr hx
    obtain ⟨a', f', hy⟩ := hnew a c fr hx
    rw [hcodes]; exact h1 a' c f' hy
  · rw [hc, hfi]; exact h2
  · rw [hfr]; exact h3
  · intro i; rw [hfr, hc, hcodes]; exact (h4 i).mono hheap (fun x => x)

theorem safe_alloc (c : Cell) (hc : c.kind ≠ 3) : Keeps Safe (alloc c) := by
  apply Keeps.intro'; intro s h
  show Safe { s with heap := s.heap.push c }
  refine h.of_heap rfl rfl rfl rfl ?_ (FnFrom.push _ _ hc)
  intro a' c' f' hs
  exact (push_fn_iff s.heap c a' c' f').mpr (.inl hs)

theorem safe_setCurFrame (g : Frame → Frame) (hfn : ∀ f, (g f).fn = f.fn)
    (hh : ∀ a f, HsOK a f → HsOK a (g f)) (hnh : ∀ f, hasHandler f = false → hasHandler (g f) = false) :
    Keeps Safe (setCurFrame g) := by
  apply Keeps.intro'; intro s h
  rw [Live.exec_setCurFrame]
  obtain ⟨h1, h2, h3, h4⟩ := h
  refine ⟨h1, h2, by simpa using h3, ?_⟩
  intro i
  show FrOK s.heap s.codes (i < s.curFrame) ((s.frames.modify s.curFrame g)[i]!)
  rw [getElem!_modify]
  by_cases hi : s.curFrame = i ∧ i < s.frames.size
  · rw [if_pos hi]
    obtain ⟨hi1, _⟩ := hi
    subst hi1
    rcases h4 s.curFrame with h' | ⟨fa, c, fr, g1, g2, g3, _⟩
    · exact .inl ⟨by rw [hfn]; exact h'.1, hnh _ h'.2⟩
    · exact .inr ⟨fa, c, fr, by rw [hfn]; exact g1, g2, hh _ _ g3, fun hlt => absurd hlt (Nat.lt_irrefl _)⟩
  · rw [if_neg hi]; exact h4 i

/-- the current frame has a handler: it runs a function of the heap, whose code the handler's
    positions belong to -/
theorem Safe.cur_handler {s : State} (hs : Safe s) {h : Handler} (hl : lastHandler (s.frames[s.curFrame]!) = some h) :
    ∃ code, CtxI code s.ip s ∧ HOK code.insts h := by
  obtain ⟨hh, hs', hm1, hm2⟩ := lastHandler_mem hl
  rcases hs.2.2.2 s.curFrame with h' | ⟨fa, c, fr, g1, g2, g3, _⟩
  · rw [h'.2] at hh; cases hh
  · exact ⟨s.codes[c]!, ⟨hs, ⟨fa, c, fr, g1, g2, rfl⟩, rfl⟩, g3 _ hm1 _ hm2⟩

/-! ### `throw` -/

/-- what `throwF` leaves: `Safe`; at an instruction boundary when a handler took the error -/
@[reducible] def ThrowQ : Option Addr → State → Prop := fun r s => Safe s ∧ (r = none → Good s)

set_option maxHeartbeats 1600000 in
theorem tq_handlePre (err : Addr) :
    Tq Safe (fun r s => Safe s ∧ (r = some none → Good s)) (handlePre err) := by
  unfold handlePre
  refine Tq.bind_keeps (safe_setCurFrame _ (fun f => setLast_fn f _) (fun _ _ h => hsOK_setLast (fun _ hk => ⟨hk.1, hk.2.1, hk.2.2⟩) h)
    (fun f hf => by rw [hasHandler_setLast]; exact hf)) (fun _ h => h) (fun _ => ?_)
  refine Tq.curFrame_bind (fun fr => ?_)
  split
  · exact Tq.panic _ (fun _ h => h.1)
  · rename_i h hl
    apply Tq.assume; intro s0 ⟨hs0, hfr0⟩
    rw [← hfr0] at hl
    obtain ⟨code, hctx, hok⟩ := hs0.cur_handler hl
    refine Tq.pre (X := CtxI code s0.ip) ?_ (fun s e => by rw [e]; exact hctx)
    apply Tq.ite_cond
    · intro hc
      have hbd := hok.1 hc
      refine Tq.setIp_bind ?_
      exact Tq.of_keeps (by ckeeps (CtxI code (h.catch_ - 1))) (fun _ h => h.safe)
        (fun a s hs => ⟨hs.safe, fun _ => hs.good hbd (by omega)⟩)
    · intro hc
      apply Tq.ite_cond
      · intro hf
        have hbd := hok.2.1 hf
        refine Tq.setIp_bind ?_
        exact Tq.of_keeps (by ckeeps (CtxI code (h.finally_ - 1))) (fun _ h => h.safe)
          (fun a s hs => ⟨hs.safe, fun _ => hs.good hbd (by omega)⟩)
      · intro hf
        refine Tq.bind_keeps xk_popHandler (fun _ h => h.safe) (fun _ => ?_)
        exact Tq.pure (fun s hs => ⟨hs.safe, fun e => by cases e⟩)

/-- the frame search keeps a frame-wise condition that clearing a handler-less frame keeps -/
theorem searchFrames_keeps (P : Nat → Frame → Prop)
    (hP : ∀ i f, P i f → hasHandler f = false → P i (clrF f)) :
    ∀ (n : Nat) (s : State), (∀ i, P i (s.frames[i]!)) → ∀ i, P i ((exec (searchFrames n) s).2.frames[i]!) := by
  intro n
  induction n with
  | zero => intro s h i; rw [exec_searchFrames_zero]; exact h i
  | succ n ih =>
    intro s h i
    rw [exec_searchFrames_succ]
    by_cases h1 : n ≥ frameSize
    · rw [if_pos h1]; exact h i
    · rw [if_neg h1]
      by_cases h2 : hasHandler (s.frames[n]!) = true
      · rw [if_pos h2]; exact h i
      · rw [if_neg h2]
        refine ih { s with frames := s.frames.modify n clrF } ?_ i
        intro j
        show P j ((s.frames.modify n clrF)[j]!)
        rw [getElem!_modify]
        split
        · rename_i hj
          obtain ⟨hj1, _⟩ := hj
          subst hj1
          exact hP _ _ (h n) (by simpa using h2)
        · exact h j

theorem frOK_clrF {heap : Array Cell} {codes : Array Code} {b : Prop} {f : Frame} (hf : hasHandler f = false) :
    FrOK heap codes b (clrF f) := .inl ⟨rfl, hf⟩

theorem tq_throwPre (err : Addr) : Tq Safe (fun r s => Safe s ∧ r ≠ some none) (throwPre err) := by
  apply Tq.intro'; intro s hs
  rw [exec_throwPre]
  by_cases hh : hasHandler (s.frames[s.curFrame]!) = true
  · rw [if_pos hh]; exact ⟨hs, fun e => by cases e⟩
  · rw [if_neg hh]
    obtain ⟨f1, f2, f3, f4⟩ := searchFrames_facts (s.frameIndex - 1).toNat s
    have fk := searchFrames_keeps (fun i f => FrOK s.heap s.codes (i < s.curFrame) f)
      (fun i f _ hf => frOK_clrF hf) (s.frameIndex - 1).toNat s hs.2.2.2
    rcases hx : exec (searchFrames (s.frameIndex - 1).toNat) s with ⟨r1, s1⟩
    rw [hx] at f1 f2 f3 f4 fk
    simp only at f1 f2 f3 f4 fk
    have hheap : s1.heap = s.heap := by rw [f1]
    have hcodes : s1.codes = s.codes := by rw [f1]
    have hcur : s1.curFrame = s.curFrame := by rw [f1]
    have hfi : s1.frameIndex = s.frameIndex := by rw [f1]
    have hs1 : Safe s1 := by
      refine ⟨by rw [hheap, hcodes]; exact hs.1, by rw [hcur, hfi]; exact hs.2.1, by rw [f2]; exact hs.2.2.1, ?_⟩
      intro i; rw [hheap, hcodes, hcur]; exact fk i
    cases r1 with
    | error x => exact hs1
    | ok o' =>
      cases o' with
      | none => exact ⟨hs1, fun e => by cases e⟩
      | some i =>
        obtain ⟨g1, g2, g3, g4⟩ := f4 i rfl
        have hlink := hs.2.1
        have hilt : i < s.curFrame := by omega
        have hto : Safe (toFrame s1 i) := by
          refine ⟨hs1.1, rfl, hs1.2.2.1, ?_⟩
          intro j
          show FrOK s1.heap s1.codes (j < i) (s1.frames[j]!)
          exact (hs1.2.2.2 j).mono (fun _ _ _ h => h) (fun hj => by rw [hcur]; omega)
        dsimp only
        cases ((toFrame s1 i).frames[i]!).fn with
        | none => exact hto
        | some a => exact ⟨hto, fun e => by cases e⟩

theorem tq_handleK {k : M (Option Addr)} (hk : Tq Safe ThrowQ k) (err : Addr) : Tq Safe ThrowQ (handleK k err) := by
  unfold handleK
  refine Tq.bind (tq_handlePre err) (fun r => ?_)
  cases r with
  | none => exact hk.pre (fun _ h => h.1)
  | some r' => exact Tq.pure (fun s h => ⟨h.1, fun e => h.2 (by rw [e])⟩)

theorem tq_throwK {k : M (Option Addr)} (hk : Tq Safe ThrowQ k) (err : Addr) : Tq Safe ThrowQ (throwK k err) := by
  unfold throwK
  refine Tq.bind (tq_throwPre err) (fun r => ?_)
  cases r with
  | none => exact (tq_handleK hk err).pre (fun _ h => h.1)
  | some r' => exact Tq.pure (fun s h => ⟨h.1, fun e => absurd (by rw [e]) h.2⟩)

/-- **`throw`**: from any `Safe` state a thrown error either is taken by a handler — the VM is at
    an instruction boundary of the handling frame's function (`Good`) — or is returned -/
theorem tq_throwF (fuel : Nat) : ∀ err, Tq Safe ThrowQ (throwF fuel err) := by
  induction fuel with
  | zero => intro err; rw [throwF]; exact Tq.unsupported _ (fun _ h => h)
  | succ n ih => intro err; rw [throwF_succ]; exact tq_throwK (ih err) err

end UgoVerif.VM.Cfi
