import UgoVerif.Proofs.C07Step
/-
  `throwF` (vm.go `throw` + `handleThrownError`) under the liveness relation.
  The function is tail recursive on its fuel; `throwK k` is one unfolding with the recursive
  call abstracted as `k`.  Three facts are proved about it: it is `Live` when `k` is; the
  recursive call happens at a state whose *need* (handlers + 1 of the frames up to the current
  one) is smaller; hence the result does not depend on the fuel as soon as the fuel covers the
  need — and `throwFuel` always does.
-/
namespace UgoVerif.VM
open UgoVerif UgoVerif.Go

/-- after the error was stored in the innermost handler: jump to catch / finally, or pop the
    consumed handler (`none`: the caller must throw again) -/
def handlePre (err : Addr) : M (Option (Option Addr)) := do
  setCurFrame fun f => setLast f fun h => { h with err := some err }
  let f ← curFrame
  match lastHandler f with
  | none => panic "runtime error: invalid memory address or nil pointer dereference"
  | some h =>
    if h.catch_ > 0 then
      setIp (h.catch_ - 1)
      let sp ← getSp
      if sp ≥ h.sp then clearDown sp h.sp
      setSp h.sp
      return some none
    else if h.finally_ > 0 then
      setIp (h.finally_ - 1)
      let sp ← getSp
      if sp ≥ h.sp then clearDown sp h.sp
      setSp h.sp
      return some none
    else
      setCurFrame popHandler
      return none

def handleK (k : M (Option Addr)) (err : Addr) : M (Option Addr) := do
  match (← handlePre err) with
  | some r => pure r
  | none => k

/-- find the frame that handles the error (`none`: go on with `handleThrownError` there) -/
def throwPre (err : Addr) : M (Option (Option Addr)) := do
  let cf ← curFrame
  if hasHandler cf then
    return none
  else
    let s ← getS
    let found? ← searchFrames (s.frameIndex - 1).toNat
    let index : Int ← (match found? with
      | some i => pure (i : Int)
      | none => pure (-1))
    if found?.isNone then
      return some (some err)
    modS fun s => { s with frameIndex := index + 1, curFrame := index.toNat }
    let f ← curFrame
    match f.fn with
    | none => panic "runtime error: invalid memory address or nil pointer dereference"
    | some _ => pure ()
    setIp f.ip
    return none

def throwK (k : M (Option Addr)) (err : Addr) : M (Option Addr) := do
  match (← throwPre err) with
  | some r => pure r
  | none => handleK k err

theorem panic_bind {α β} (m : String) (f : α → M β) : (VM.panic m : M α) >>= f = VM.panic m := rfl

theorem handle_eq (fuel : Nat) (err : Addr) : throwF.handle fuel err = handleK (throwF fuel err) err := by
  unfold throwF.handle handleK handlePre
  simp only [bind_assoc, pure_bind]
  congr 1; funext _; congr 1; funext f
  cases hl : lastHandler f with
  | none => simp only [panic_bind]
  | some h =>
    simp only
    by_cases h1 : h.catch_ > 0
    · simp only [h1, if_true, bind_assoc, pure_bind]
      congr 1; funext _; congr 1; funext sp
      by_cases hs : sp ≥ h.sp <;> simp [hs, bind_assoc]
    · by_cases h2 : h.finally_ > 0
      · simp only [h1, h2, if_true, if_false, bind_assoc, pure_bind]
        congr 1; funext _; congr 1; funext sp
        by_cases hs : sp ≥ h.sp <;> simp [hs, bind_assoc]
      · simp [h1, h2, bind_assoc]

theorem throwF_succ (fuel : Nat) (err : Addr) : throwF (fuel + 1) err = throwK (throwF fuel err) err := by
  rw [throwF]
  unfold throwK throwPre
  simp only [bind_assoc, pure_bind, handle_eq]
  congr 1; funext cf
  by_cases hh : hasHandler cf = true
  · simp [hh]
  · simp only [hh, Bool.false_eq_true, if_false, bind_assoc, pure_bind]
    congr 1; funext s; congr 1; funext found?
    cases found? with
    | none => simp
    | some i =>
      simp only [pure_bind, Option.isNone_some, Bool.false_eq_true, if_false, bind_assoc]
      congr 1; funext _; congr 1; funext f
      cases f.fn <;> simp

theorem live_handlePre (err : Addr) : Live (handlePre err) := by unfold handlePre; live

def clrF (f : Frame) : Frame := { f with free := none, fn := none }

theorem exec_searchFrames_zero (s : State) : exec (searchFrames 0) s = (.ok none, s) := rfl

theorem exec_searchFrames_succ (n : Nat) (s : State) :
    exec (searchFrames (n + 1)) s =
      if n ≥ frameSize then
        (.error (.panic s!"runtime error: index out of range [{n}] with length {frameSize}"), s)
      else if hasHandler (s.frames[n]!) = true then (.ok (some n), s)
      else exec (searchFrames n) { s with frames := s.frames.modify n clrF } := by
  rw [searchFrames]
  by_cases h1 : n ≥ frameSize
  · simp only [h1, if_true, panic_bind]; rfl
  · simp only [h1, if_false, exec_bind, exec_pure, exec_getS]
    by_cases h2 : hasHandler (s.frames[n]!) = true
    · simp only [h2, if_true, exec_pure]
    · simp only [h2, Bool.false_eq_true, if_false, exec_bind, exec_modS]
      rfl

/-- what `searchFrames n` does to a state: only frames below `n` change, the found frame and
    everything below it are untouched -/
theorem searchFrames_facts (n : Nat) : ∀ s : State,
    (exec (searchFrames n) s).2 = { s with frames := (exec (searchFrames n) s).2.frames } ∧
    (exec (searchFrames n) s).2.frames.size = s.frames.size ∧
    (∀ j, n ≤ j → (exec (searchFrames n) s).2.frames[j]! = s.frames[j]!) ∧
    (∀ i, (exec (searchFrames n) s).1 = .ok (some i) → i < n ∧ i < frameSize ∧
        hasHandler (s.frames[i]!) = true ∧ ∀ j, j ≤ i → (exec (searchFrames n) s).2.frames[j]! = s.frames[j]!) := by
  induction n with
  | zero =>
    intro s
    rw [exec_searchFrames_zero]
    exact ⟨rfl, rfl, fun _ _ => rfl, fun i h => by cases h⟩
  | succ n ih =>
    intro s
    rw [exec_searchFrames_succ]
    by_cases h1 : n ≥ frameSize
    · rw [if_pos h1]
      exact ⟨rfl, rfl, fun _ _ => rfl, fun i h => by cases h⟩
    · rw [if_neg h1]
      by_cases h2 : hasHandler (s.frames[n]!) = true
      · rw [if_pos h2]
        refine ⟨rfl, rfl, fun _ _ => rfl, fun i h => ?_⟩
        have : n = i := by simpa using h
        subst this
        exact ⟨Nat.lt_succ_self _, by omega, h2, fun _ _ => rfl⟩
      · rw [if_neg h2]
        obtain ⟨e1, e2, e3, e4⟩ := ih { s with frames := s.frames.modify n clrF }
        refine ⟨?_, ?_, ?_, ?_⟩
        · rw [e1]
        · rw [e2]; simp
        · intro j hj
          rw [e3 j (by omega)]
          show (s.frames.modify n clrF)[j]! = _
          rw [getElem!_modify]
          have : ¬ (n = j) := by omega
          simp [this]
        · intro i hi
          obtain ⟨a1, a2, a3, a4⟩ := e4 i hi
          have hne : ¬ (n = i) := by omega
          refine ⟨by omega, a2, ?_, ?_⟩
          · have : (s.frames.modify n clrF)[i]! = s.frames[i]! := by
              rw [getElem!_modify]; simp [hne]
            rw [← this]; exact a3
          · intro j hj
            rw [a4 j hj]
            show (s.frames.modify n clrF)[j]! = _
            rw [getElem!_modify]
            have : ¬ (n = j) := by omega
            simp [this]

/-- the search visits only frames below the current one: both runs agree -/
theorem searchFrames_rel (n : Nat) : ∀ (s : State) (fr : Array Frame) (tr), FR s fr → (n : Int) + 1 ≤ s.frameIndex →
    ∃ fr', exec (searchFrames n) (wf s fr tr) = ((exec (searchFrames n) s).1, wf (exec (searchFrames n) s).2 fr' tr) ∧
      FR (exec (searchFrames n) s).2 fr' := by
  induction n with
  | zero => intro s fr tr h _; exact ⟨fr, rfl, h⟩
  | succ n ih =>
    intro s fr tr h hn
    rw [exec_searchFrames_succ, exec_searchFrames_succ]
    by_cases h1 : n ≥ frameSize
    · rw [if_pos h1, if_pos h1]; exact ⟨fr, rfl, h⟩
    · rw [if_neg h1, if_neg h1]
      have hb : s.frames[n]! = fr[n]! := h.below n (by omega)
      have e : (wf s fr tr).frames[n]! = s.frames[n]! := hb.symm
      rw [e]
      by_cases h2 : hasHandler (s.frames[n]!) = true
      · rw [if_pos h2, if_pos h2]; exact ⟨fr, rfl, h⟩
      · rw [if_neg h2, if_neg h2]
        have hne : ¬ (n = s.curFrame) := by have := h.link; omega
        have hFR : FR { s with frames := s.frames.modify n clrF } (fr.modify n clrF) := by
          refine ⟨by simp [h.size], ?_, ?_, h.link, by simp [h.shape], h.curLt⟩
          · show FrameLive ((s.frames.modify n clrF)[s.curFrame]!) ((fr.modify n clrF)[s.curFrame]!)
            rw [getElem!_modify, getElem!_modify]
            simp only [hne, false_and, if_false]; exact h.cur
          · intro i hi
            have hi' : (i : Int) + 2 ≤ s.frameIndex := hi
            show (s.frames.modify n clrF)[i]! = (fr.modify n clrF)[i]!
            rw [getElem!_modify, getElem!_modify, h.size, h.below i hi']
        obtain ⟨fr', e', h'⟩ := ih { s with frames := s.frames.modify n clrF } (fr.modify n clrF) tr hFR (by show (n:Int) + 1 ≤ s.frameIndex; omega)
        exact ⟨fr', e', h'⟩

/-- the state after `vm.frameIndex = index+1; vm.curFrame = frame` -/
def toFrame (s : State) (i : Nat) : State := { s with frameIndex := (i : Int) + 1, curFrame := i }

theorem exec_throwPre (err : Addr) (s : State) :
    exec (throwPre err) s =
      if hasHandler (s.frames[s.curFrame]!) = true then (.ok none, s) else
      match exec (searchFrames (s.frameIndex - 1).toNat) s with
      | (.error e, s1) => (.error e, s1)
      | (.ok none, s1) => (.ok (some (some err)), s1)
      | (.ok (some i), s1) =>
        match ((toFrame s1 i).frames[i]!).fn with
        | none => (.error (.panic "runtime error: invalid memory address or nil pointer dereference"), toFrame s1 i)
        | some _ => (.ok none, { toFrame s1 i with ip := ((toFrame s1 i).frames[i]!).ip }) := by
  simp only [throwPre, exec_bind, Live.exec_curFrame, exec_getS]
  by_cases hh : hasHandler (s.frames[s.curFrame]!) = true
  · simp only [hh, if_true, exec_pure]
  · simp only [hh, Bool.false_eq_true, if_false, exec_bind, exec_getS]
    rcases hx : exec (searchFrames (s.frameIndex - 1).toNat) s with ⟨r, s1⟩
    cases r with
    | error e => rfl
    | ok o =>
      cases o with
      | none => simp only [exec_pure, exec_bind, Option.isNone_none, if_true]
      | some i =>
        simp only [exec_pure, exec_bind, Option.isNone_some, Bool.false_eq_true, if_false, exec_modS,
          Live.exec_curFrame, Int.toNat_natCast]
        have e : (toFrame s1 i).frames[i]! = s1.frames[i]! := rfl
        rw [e]
        cases s1.frames[i]!.fn with
        | none => rfl
        | some a => rfl

theorem FrameLive.refl' (a : Frame) : FrameLive a a := ⟨rfl, rfl, rfl, rfl, rfl⟩

theorem live_throwPre (err : Addr) : Live (throwPre err) := by
  apply Live.intro'; intro s fr tr h
  rw [exec_throwPre, exec_throwPre]
  have ehh : hasHandler ((wf s fr tr).frames[(wf s fr tr).curFrame]!) = hasHandler (s.frames[s.curFrame]!) := by
    show hasHandler (fr[s.curFrame]!) = _
    unfold hasHandler; rw [h.cur.handlers]
  rw [ehh]
  by_cases hh : hasHandler (s.frames[s.curFrame]!) = true
  · rw [if_pos hh, if_pos hh]; exact ⟨fr, tr, rfl, h⟩
  · rw [if_neg hh, if_neg hh]
    have hfi : (wf s fr tr).frameIndex = s.frameIndex := rfl
    rw [hfi]
    have hn : (((s.frameIndex - 1).toNat : Nat) : Int) + 1 ≤ s.frameIndex := by have := h.link; omega
    have hnc : (s.frameIndex - 1).toNat = s.curFrame := by have := h.link; omega
    obtain ⟨fr1, e1, h1⟩ := searchFrames_rel (s.frameIndex - 1).toNat s fr tr h hn
    obtain ⟨f1, f2, f3, f4⟩ := searchFrames_facts (s.frameIndex - 1).toNat s
    rw [e1]
    rcases hx : exec (searchFrames (s.frameIndex - 1).toNat) s with ⟨r, s1⟩
    rw [hx] at h1 f1 f2 f3 f4
    simp only at h1 f1 f2 f3 f4
    cases r with
    | error e => exact ⟨fr1, tr, rfl, h1⟩
    | ok o =>
      cases o with
      | none => exact ⟨fr1, tr, rfl, h1⟩
      | some i =>
        obtain ⟨g1, g2, g3, g4⟩ := f4 i rfl
        have hs1fi : s1.frameIndex = s.frameIndex := by rw [f1]
        have hlt : (i : Int) + 2 ≤ s1.frameIndex := by rw [hs1fi]; have := h.link; omega
        have heq : s1.frames[i]! = fr1[i]! := h1.below i hlt
        have hFR : FR (toFrame s1 i) fr1 := by
          refine ⟨h1.size, ?_, ?_, ?_, h1.shape, g2⟩
          · show FrameLive (s1.frames[i]!) (fr1[i]!)
            rw [heq]; exact FrameLive.refl' _
          · intro j hj
            have hj' : (j : Int) + 2 ≤ (i : Int) + 1 := hj
            exact h1.below j (by omega)
          · show ((i : Nat) : Int) + 1 = (i : Int) + 1
            rfl
        simp only
        have e2 : (toFrame (wf s1 fr1 tr) i).frames[i]! = (toFrame s1 i).frames[i]! := by
          show fr1[i]! = s1.frames[i]!
          exact heq.symm
        rw [e2]
        cases hfn : ((toFrame s1 i).frames[i]!).fn with
        | none => exact ⟨fr1, tr, rfl, hFR⟩
        | some a =>
          refine ⟨fr1, tr, rfl, ?_⟩
          exact ⟨hFR.size, hFR.cur, hFR.below, hFR.link, hFR.shape, hFR.curLt⟩

theorem live_handleK {k : M (Option Addr)} (hk : Live k) (err : Addr) : Live (handleK k err) := by
  have := live_handlePre err
  unfold handleK; live

theorem live_throwK {k : M (Option Addr)} (hk : Live k) (err : Addr) : Live (throwK k err) := by
  have h1 := live_throwPre err
  have h2 := live_handleK hk err
  unfold throwK; live

/-- with the same fuel on both sides `throwF` respects the relation -/
theorem live_throwF (fuel : Nat) : ∀ err, Live (throwF fuel err) := by
  induction fuel with
  | zero => intro err; rw [throwF]; exact Live.unsupported _
  | succ n ih => intro err; rw [throwF_succ]; exact live_throwK (ih err) err

/-! ### the fuel of `throwF` does not matter once it covers the need -/

def nhl (f : Frame) : Nat := match f.handlers with | some hs => hs.length | none => 0

/-- handlers + 1 of the frames `0 … k-1` -/
def needUpTo (fr : Array Frame) : Nat → Nat
  | 0 => 0
  | k+1 => needUpTo fr k + nhl (fr[k]!) + 1

def need (s : State) : Nat := needUpTo s.frames (s.curFrame + 1)

structure Suff (n : Nat) (s : State) : Prop where
  need : need s ≤ n
  link : (s.curFrame : Int) + 1 = s.frameIndex

theorem needUpTo_congr {fr fr' : Array Frame} (k : Nat) (h : ∀ j, j < k → fr[j]! = fr'[j]!) :
    needUpTo fr k = needUpTo fr' k := by
  induction k with
  | zero => rfl
  | succ k ih =>
    simp only [needUpTo]
    rw [ih (fun j hj => h j (by omega)), h k (by omega)]

theorem needUpTo_mono (fr : Array Frame) {k k' : Nat} (h : k ≤ k') : needUpTo fr k ≤ needUpTo fr k' := by
  induction k' with
  | zero => have : k = 0 := by omega
            subst this; exact Nat.le_refl _
  | succ k' ih =>
    by_cases hk : k = k' + 1
    · subst hk; exact Nat.le_refl _
    · have := ih (by omega)
      simp only [needUpTo]; omega

theorem need_pos (s : State) : 1 ≤ need s := by
  unfold need; simp only [needUpTo]; omega

theorem nhl_setLast (f : Frame) (g : Handler → Handler) : nhl (setLast f g) = nhl f := by
  unfold setLast nhl
  cases hh : f.handlers with
  | none => simp [hh]
  | some l => cases l with
    | nil => simp [hh]
    | cons a r => simp

theorem nhl_popHandler {f : Frame} {h : Handler} (hl : lastHandler f = some h) : nhl (popHandler f) + 1 = nhl f := by
  unfold lastHandler at hl
  unfold popHandler nhl
  cases hh : f.handlers with
  | none => simp [hh] at hl
  | some l => cases l with
    | nil => simp [hh] at hl
    | cons a r => simp

theorem lastHandler_default : lastHandler (default : Frame) = none := rfl

/-- results of an action: every normal end returns a value with `P` -/
def Ret {α} (P : α → Prop) (m : M α) : Prop := ∀ s a s', exec m s = (.ok a, s') → P a

theorem Ret.pure {α} {P : α → Prop} {a : α} (h : P a) : Ret P (Pure.pure a : M α) := by
  intro s b s' e; cases e; exact h

theorem Ret.bind {α β} {P : β → Prop} (m : M α) {f : α → M β} (hf : ∀ a, Ret P (f a)) : Ret P (m >>= f) := by
  intro s b s' e
  rw [exec_bind] at e
  rcases hx : exec m s with ⟨r, s1⟩
  rw [hx] at e
  cases r with
  | error x => cases e
  | ok a => exact hf a s1 b s' e

theorem Ret.ite {α} {P : α → Prop} {c : Prop} [Decidable c] {a b : M α} (ha : Ret P a) (hb : Ret P b) :
    Ret P (if c then a else b) := by split <;> assumption

theorem Ret.panic {α} {P : α → Prop} (m : String) : Ret P (VM.panic m : M α) := by
  intro s a s' e; cases e

/-- when `handlePre` asks for a re-throw it has consumed one handler of the current frame -/
theorem handlePre_none (err : Addr) (n : Nat) (s s' : State) (e : exec (handlePre err) s = (.ok none, s'))
    (hs : Suff (n + 1) s) : Suff n s' := by
  unfold handlePre at e
  rw [exec_bind, Live.exec_setCurFrame] at e
  simp only at e
  rw [exec_bind, Live.exec_curFrame] at e
  simp only at e
  generalize hg : (fun (h : Handler) => ({ h with err := some err } : Handler)) = g at e
  cases hl : lastHandler ((s.frames.modify s.curFrame fun f => setLast f g)[s.curFrame]!) with
  | none => rw [hl] at e; cases e
  | some h =>
    rw [hl] at e
    simp only at e
    by_cases h1 : h.catch_ > 0
    · rw [if_pos h1] at e
      have := (Ret.bind _ (fun _ => Ret.bind _ (fun _ => Ret.ite (Ret.bind _ (fun _ => Ret.bind _ (fun _ => Ret.pure rfl))) (Ret.bind _ (fun _ => Ret.pure rfl)))) :
        Ret (fun r : Option (Option Addr) => r = some none) _) _ _ _ e
      cases this
    · rw [if_neg h1] at e
      by_cases h2 : h.finally_ > 0
      · rw [if_pos h2] at e
        have := (Ret.bind _ (fun _ => Ret.bind _ (fun _ => Ret.ite (Ret.bind _ (fun _ => Ret.bind _ (fun _ => Ret.pure rfl))) (Ret.bind _ (fun _ => Ret.pure rfl)))) :
          Ret (fun r : Option (Option Addr) => r = some none) _) _ _ _ e
        cases this
      · rw [if_neg h2] at e
        rw [exec_bind, Live.exec_setCurFrame] at e
        simp only [exec_pure] at e
        have es' := (Prod.mk.inj e).2
        subst es'
        -- the current frame is inside the array (otherwise it has no handler)
        have hc : s.curFrame < s.frames.size := by
          rcases Nat.lt_or_ge s.curFrame s.frames.size with hlt | hge
          · exact hlt
          · exfalso
            have hd : s.frames[s.curFrame]! = default := by simp [hge]
            rw [getElem!_modify, hd] at hl
            simp [Nat.not_lt.mpr hge, lastHandler_default] at hl
        rw [getElem!_modify] at hl
        simp only [hc, and_self, if_true] at hl
        refine ⟨?_, hs.link⟩
        have hneed := hs.need
        unfold need at hneed ⊢
        simp only [needUpTo] at hneed ⊢
        show needUpTo ((s.frames.modify s.curFrame fun f => setLast f g).modify s.curFrame popHandler) s.curFrame +
            nhl (((s.frames.modify s.curFrame fun f => setLast f g).modify s.curFrame popHandler)[s.curFrame]!) + 1 ≤ n
        have e1 : needUpTo ((s.frames.modify s.curFrame fun f => setLast f g).modify s.curFrame popHandler) s.curFrame
            = needUpTo s.frames s.curFrame := by
          apply needUpTo_congr
          intro j hj
          rw [getElem!_modify, getElem!_modify]
          have : ¬ (s.curFrame = j) := by omega
          simp [this]
        have e2 : ((s.frames.modify s.curFrame fun f => setLast f g).modify s.curFrame popHandler)[s.curFrame]!
            = popHandler (setLast (s.frames[s.curFrame]!) g) := by
          rw [getElem!_modify, getElem!_modify]
          simp [hc]
        rw [e1, e2]
        have := nhl_popHandler hl
        rw [nhl_setLast] at this
        omega

/-- looking for the handling frame never raises the need -/
theorem throwPre_none (err : Addr) (n : Nat) (s s' : State) (e : exec (throwPre err) s = (.ok none, s'))
    (hs : Suff n s) : Suff n s' := by
  rw [exec_throwPre] at e
  by_cases hh : hasHandler (s.frames[s.curFrame]!) = true
  · rw [if_pos hh] at e
    have := (Prod.mk.inj e).2
    subst this; exact hs
  · rw [if_neg hh] at e
    obtain ⟨f1, f2, f3, f4⟩ := searchFrames_facts (s.frameIndex - 1).toNat s
    rcases hx : exec (searchFrames (s.frameIndex - 1).toNat) s with ⟨r, s1⟩
    rw [hx] at e f1 f2 f3 f4
    simp only at f1 f2 f3 f4
    cases r with
    | error x => cases e
    | ok o =>
      cases o with
      | none => cases e
      | some i =>
        simp only at e
        obtain ⟨g1, g2, g3, g4⟩ := f4 i rfl
        have hfr : (toFrame s1 i).frames[i]! = s1.frames[i]! := rfl
        rw [hfr] at e
        cases hfn : (s1.frames[i]!).fn with
        | none => rw [hfn] at e; cases e
        | some a =>
          rw [hfn] at e
          have := (Prod.mk.inj e).2
          subst this
          refine ⟨?_, rfl⟩
          have hneed := hs.need
          unfold need at hneed ⊢
          show needUpTo s1.frames (i + 1) ≤ n
          have e1 : needUpTo s1.frames (i + 1) = needUpTo s.frames (i + 1) :=
            needUpTo_congr _ (fun j hj => g4 j (by omega))
          have hi : i + 1 ≤ s.curFrame + 1 := by have := hs.link; omega
          have := needUpTo_mono s.frames hi
          omega

/-- **the fuel is irrelevant** as soon as it covers the need -/
theorem throwF_fuel (f1 : Nat) : ∀ (f2 : Nat) (err : Addr) (s : State), Suff f1 s → Suff f2 s →
    exec (throwF f1 err) s = exec (throwF f2 err) s := by
  induction f1 with
  | zero => intro f2 err s h1 _; have := need_pos s; have := h1.need; omega
  | succ f1 ih =>
    intro f2 err s h1 h2
    cases f2 with
    | zero => have := need_pos s; have := h2.need; omega
    | succ f2 =>
      rw [throwF_succ, throwF_succ]
      unfold throwK
      rw [exec_bind, exec_bind]
      rcases hx : exec (throwPre err) s with ⟨r, s1⟩
      cases r with
      | error x => rfl
      | ok o =>
        cases o with
        | some r => rfl
        | none =>
          simp only
          have a1 := throwPre_none err _ s s1 hx h1
          have a2 := throwPre_none err _ s s1 hx h2
          unfold handleK
          rw [exec_bind, exec_bind]
          rcases hy : exec (handlePre err) s1 with ⟨r2, s2⟩
          cases r2 with
          | error x => rfl
          | ok o2 =>
            cases o2 with
            | some r => rfl
            | none =>
              simp only
              exact ih f2 err s2 (handlePre_none err _ s1 s2 hy a1) (handlePre_none err _ s1 s2 hy a2)

def fuelOf (fr : Array Frame) : Nat :=
  fr.foldl (fun n f => n + (match f.handlers with | some hs => hs.length | none => 0) + 1) 4

theorem exec_throwFuel (s : State) : exec throwFuel s = (.ok (fuelOf s.frames), s) := rfl

theorem fuelOf_eq (fr : Array Frame) : fuelOf fr = 4 + needUpTo fr fr.size := by
  unfold fuelOf
  refine Array.foldl_induction (motive := fun i b => b = 4 + needUpTo fr i) rfl ?_
  intro i b hb
  subst hb
  simp only [needUpTo]
  have : fr[i.1]! = fr[i] := by simp
  rw [this]
  unfold nhl
  omega

theorem suff_fuelOf (s : State) (hl : (s.curFrame : Int) + 1 = s.frameIndex) (hc : s.curFrame < s.frames.size) :
    Suff (fuelOf s.frames) s := by
  refine ⟨?_, hl⟩
  rw [fuelOf_eq]
  have := needUpTo_mono s.frames (k := s.curFrame + 1) (k' := s.frames.size) (by omega)
  unfold need; omega

/-- `vm.throw(err)` with the fuel the model computes: both runs agree although the fuel (which
    counts the handlers of dead frames too) differs -/
theorem live_throwWithFuel (err : Addr) : Live (throwFuel >>= fun n => throwF n err) := by
  apply Live.intro'; intro s fr tr h
  rw [exec_bind, exec_bind, exec_throwFuel, exec_throwFuel]
  simp only
  show ∃ fr' tr', exec (throwF (fuelOf fr) err) (wf s fr tr) = _ ∧ _
  -- the need of both states is the same, each fuel covers it
  have hs1 : Suff (fuelOf s.frames) s := suff_fuelOf s h.link (by rw [h.shape]; exact h.curLt)
  have hs2 : Suff (fuelOf fr) (wf s fr tr) :=
    suff_fuelOf (wf s fr tr) h.link (by show s.curFrame < fr.size; rw [h.size, h.shape]; exact h.curLt)
  have hneq : need (wf s fr tr) = need s := by
    unfold need
    show needUpTo fr (s.curFrame + 1) = needUpTo s.frames (s.curFrame + 1)
    simp only [needUpTo]
    have e1 : needUpTo fr s.curFrame = needUpTo s.frames s.curFrame :=
      needUpTo_congr _ (fun j hj => (h.below j (by have := h.link; omega)).symm)
    have e2 : nhl (fr[s.curFrame]!) = nhl (s.frames[s.curFrame]!) := by unfold nhl; rw [h.cur.handlers]
    rw [e1, e2]
  have hs3 : Suff (fuelOf s.frames) (wf s fr tr) := ⟨by rw [hneq]; exact hs1.need, h.link⟩
  rw [throwF_fuel (fuelOf fr) (fuelOf s.frames) err (wf s fr tr) hs2 hs3]
  exact (live_throwF (fuelOf s.frames) err).elim s fr tr h

theorem live_throwWithFuel_bind {β} (err : Addr) (f : Option Addr → M β) (hf : ∀ r, Live (f r)) :
    Live (throwFuel >>= fun n => (throwF n err >>= f)) := by
  have : (throwFuel >>= fun n => (throwF n err >>= f)) = ((throwFuel >>= fun n => throwF n err) >>= f) := by
    rw [bind_assoc]
  rw [this]
  exact Live.bind (live_throwWithFuel err) hf

end UgoVerif.VM
