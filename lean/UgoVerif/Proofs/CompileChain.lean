import UgoVerif.Proofs.CompileWalk
/-
  C05 helper: the invariant of the chain of symbol tables.  Every symbol that can reach an
  instruction operand carries an index that is in range for the function it is used in: a local
  slot below `maxDefinition` of the function's table, a free-variable slot below the number of free
  variables of the function, a builtin number below the number of builtins, a global whose index
  names a String constant.
-/
namespace UgoVerif.Compile
open UgoVerif UgoVerif.Go UgoVerif.Ast

/-- `maxDefinition` of the function table (first non-block table) of a chain: NumLocals of the
    function being compiled -/
def fmd : List Table → Nat
  | [] => 0
  | t :: r => if t.block then fmd r else t.maxDefinition

/-- number of free variables of the function being compiled -/
def fnf : List Table → Nat
  | [] => 0
  | t :: r => if t.block then fnf r else t.frees.length

/-- a symbol as seen from a function with `nl` locals and `nf` free variables -/
def SymOKx (cs : Array Const) (nl nf : Nat) (y : Symbol) : Prop :=
  (y.scope = .constLit → y.constant = true ∧ y.constLit.isSome = true) ∧
  (y.scope = .local_ → ∃ i : Nat, y.index = (i : Int) ∧ i < nl) ∧
  (y.scope = .free → ∃ i : Nat, y.index = (i : Int) ∧ i < nf) ∧
  (y.scope = .builtin → ∃ i : Nat, y.index = (i : Int) ∧ i < NB) ∧
  (y.scope = .global → y.index = -1 ∨ ∃ (i : Nat) (b : Bytes), y.index = (i : Int) ∧ cs[i]? = some (.val (.str b)))

theorem SymOKx.mono {cs cs' : Array Const} {nl nl' nf nf' : Nat} {y : Symbol} (h : SymOKx cs nl nf y)
    (hc : CPre cs cs') (hl : nl ≤ nl') (hf : nf ≤ nf') : SymOKx cs' nl' nf' y := by
  obtain ⟨h1, h2, h3, h4, h5⟩ := h
  refine ⟨h1, ?_, ?_, h4, ?_⟩
  · intro c; obtain ⟨i, hi, hlt⟩ := h2 c; exact ⟨i, hi, by omega⟩
  · intro c; obtain ⟨i, hi, hlt⟩ := h3 c; exact ⟨i, hi, by omega⟩
  · intro c
    rcases h5 c with h | ⟨i, b, hi, hb⟩
    · exact .inl h
    · exact .inr ⟨i, b, hi, hc.get hb⟩

theorem symOKx_local {cs : Array Const} {nl nf : Nat} {y : Symbol} {i : Nat} (hsc : y.scope = .local_)
    (hi : y.index = (i : Int)) (hlt : i < nl) : SymOKx cs nl nf y := by
  refine ⟨?_, fun _ => ⟨i, hi, hlt⟩, ?_, ?_, ?_⟩ <;> intro c <;> rw [hsc] at c <;> cases c

theorem symOKx_free {cs : Array Const} {nl nf : Nat} {y : Symbol} {i : Nat} (hsc : y.scope = .free)
    (hi : y.index = (i : Int)) (hlt : i < nf) : SymOKx cs nl nf y := by
  refine ⟨?_, ?_, fun _ => ⟨i, hi, hlt⟩, ?_, ?_⟩ <;> intro c <;> rw [hsc] at c <;> cases c

theorem symOKx_builtin {cs : Array Const} {nl nf : Nat} {y : Symbol} {i : Nat} (hsc : y.scope = .builtin)
    (hi : y.index = (i : Int)) (hlt : i < NB) : SymOKx cs nl nf y := by
  refine ⟨?_, ?_, ?_, fun _ => ⟨i, hi, hlt⟩, ?_⟩ <;> intro c <;> rw [hsc] at c <;> cases c

theorem symOKx_constLit {cs : Array Const} {nl nf : Nat} {y : Symbol} (hsc : y.scope = .constLit)
    (hc : y.constant = true) (hv : y.constLit.isSome = true) : SymOKx cs nl nf y := by
  refine ⟨fun _ => ⟨hc, hv⟩, ?_, ?_, ?_, ?_⟩ <;> intro c <;> rw [hsc] at c <;> cases c

theorem symOKx_global {cs : Array Const} {nl nf : Nat} {y : Symbol} (hsc : y.scope = .global)
    (hi : y.index = -1 ∨ ∃ (i : Nat) (b : Bytes), y.index = (i : Int) ∧ cs[i]? = some (.val (.str b))) :
    SymOKx cs nl nf y := by
  refine ⟨?_, ?_, ?_, ?_, fun _ => hi⟩ <;> intro c <;> rw [hsc] at c <;> cases c

def StoreOKx (cs : Array Const) (nl nf : Nat) (st : List (String × Symbol)) : Prop := ∀ p ∈ st, SymOKx cs nl nf p.2

theorem StoreOKx.mono {cs cs' : Array Const} {nl nl' nf nf' : Nat} {st : List (String × Symbol)}
    (h : StoreOKx cs nl nf st) (hc : CPre cs cs') (hl : nl ≤ nl') (hf : nf ≤ nf') : StoreOKx cs' nl' nf' st :=
  fun p hp => (h p hp).mono hc hl hf

theorem lookupSym_okx {cs : Array Const} {nl nf : Nat} {n : String} {y : Symbol} :
    ∀ {st : List (String × Symbol)}, StoreOKx cs nl nf st → lookupSym n st = some y → SymOKx cs nl nf y
  | [], _, h => by simp [lookupSym] at h
  | (k, v) :: r, hs, h => by
    simp only [lookupSym] at h
    split at h
    · injection h with h; subst h; exact hs (k, v) (by simp)
    · exact lookupSym_okx (fun p hp => hs p (by simp [hp])) h

theorem putSym_okx {cs : Array Const} {nl nf : Nat} {n : String} {y : Symbol} (hy : SymOKx cs nl nf y) :
    ∀ {st : List (String × Symbol)}, StoreOKx cs nl nf st → StoreOKx cs nl nf (putSym n y st)
  | [], _ => by intro p hp; simp [putSym] at hp; subst hp; exact hy
  | (k, v) :: r, hs => by
    simp only [putSym]
    split
    · intro p hp
      simp at hp
      rcases hp with hp | hp
      · subst hp; exact hy
      · exact hs p (by simp [hp])
    · intro p hp
      simp at hp
      rcases hp with hp | hp
      · subst hp; exact hs (k, v) (by simp)
      · exact putSym_okx hy (fun p hp => hs p (by simp [hp])) p hp

/-- an original of a free variable, as seen from the enclosing function -/
def OrigOK (nl nf : Nat) (y : Symbol) : Prop :=
  (y.scope = .local_ → ∃ i : Nat, y.index = (i : Int) ∧ i < nl) ∧
  (y.scope = .free → ∃ i : Nat, y.index = (i : Int) ∧ i < nf)

theorem OrigOK.mono {nl nl' nf nf' : Nat} {y : Symbol} (h : OrigOK nl nf y) (hl : nl ≤ nl') (hf : nf ≤ nf') :
    OrigOK nl' nf' y :=
  ⟨fun c => by obtain ⟨i, hi, hlt⟩ := h.1 c; exact ⟨i, hi, by omega⟩,
   fun c => by obtain ⟨i, hi, hlt⟩ := h.2 c; exact ⟨i, hi, by omega⟩⟩

/-- the invariant of the chain of symbol tables (innermost first, the root last) -/
def ChainOK (cs : Array Const) : List Table → Prop
  | [] => True
  | t :: r =>
    StoreOKx cs (fmd (t :: r)) (fnf (t :: r)) t.store ∧ t.numParams ≤ t.maxDefinition ∧
    (t.block = false → ∀ y ∈ t.frees, OrigOK (fmd r) (fnf r) y) ∧
    (r = [] → t.block = false ∧ t.frees = []) ∧ ChainOK cs r

/-- pointwise growth of a chain: same shape, `maxDefinition` and the number of free variables only grow -/
def ChainLE : List Table → List Table → Prop
  | [], [] => True
  | t :: r, t' :: r' => t'.block = t.block ∧ t.maxDefinition ≤ t'.maxDefinition ∧ t.frees.length ≤ t'.frees.length ∧ ChainLE r r'
  | _, _ => False

theorem ChainLE.refl : ∀ ts : List Table, ChainLE ts ts
  | [] => trivial
  | _ :: r => ⟨rfl, Nat.le_refl _, Nat.le_refl _, ChainLE.refl r⟩

theorem ChainLE.trans : ∀ {a b c : List Table}, ChainLE a b → ChainLE b c → ChainLE a c
  | [], [], [], _, _ => trivial
  | _ :: _, _ :: _, _ :: _, h, h' =>
    ⟨h'.1.trans h.1, Nat.le_trans h.2.1 h'.2.1, Nat.le_trans h.2.2.1 h'.2.2.1, ChainLE.trans h.2.2.2 h'.2.2.2⟩
  | [], [], _ :: _, _, h' => h'.elim
  | [], _ :: _, _, h, _ => h.elim
  | _ :: _, [], _, h, _ => h.elim
  | _ :: _, _ :: _, [], _, h' => h'.elim

theorem ChainLE.length : ∀ {a b : List Table}, ChainLE a b → b.length = a.length
  | [], [], _ => rfl
  | _ :: r, _ :: r', h => by simp [ChainLE.length (a := r) (b := r') h.2.2.2]
  | [], _ :: _, h => h.elim
  | _ :: _, [], h => h.elim

theorem ChainLE.fmd : ∀ {a b : List Table}, ChainLE a b → fmd a ≤ fmd b
  | [], [], _ => Nat.le_refl _
  | t :: r, t' :: r', h => by
    simp only [UgoVerif.Compile.fmd, h.1]
    split
    · exact ChainLE.fmd h.2.2.2
    · exact h.2.1
  | [], _ :: _, h => h.elim
  | _ :: _, [], h => h.elim

theorem ChainLE.fnf : ∀ {a b : List Table}, ChainLE a b → fnf a ≤ fnf b
  | [], [], _ => Nat.le_refl _
  | t :: r, t' :: r', h => by
    simp only [UgoVerif.Compile.fnf, h.1]
    split
    · exact ChainLE.fnf h.2.2.2
    · exact h.2.2.1
  | [], _ :: _, h => h.elim
  | _ :: _, [], h => h.elim

theorem ChainLE.tail {t t' : Table} {r r' : List Table} (h : ChainLE (t :: r) (t' :: r')) : ChainLE r r' := h.2.2.2

theorem ChainOK.tail {cs : Array Const} {t : Table} {r : List Table} (h : ChainOK cs (t :: r)) : ChainOK cs r := h.2.2.2.2

theorem ChainOK.mono {cs cs' : Array Const} (hc : CPre cs cs') : ∀ {ts : List Table}, ChainOK cs ts → ChainOK cs' ts
  | [], _ => trivial
  | _ :: _, h => ⟨h.1.mono hc (Nat.le_refl _) (Nat.le_refl _), h.2.1, h.2.2.1, h.2.2.2.1, ChainOK.mono hc h.2.2.2.2⟩

/-- a chain with a table on top of a non-empty chain, or a non-block root: the shape clause -/
theorem ChainOK.block_rest {cs : Array Const} {t : Table} {r : List Table} (h : ChainOK cs (t :: r)) (hb : t.block = true) :
    r ≠ [] := by
  intro hr
  have := (h.2.2.2.1 hr).1
  rw [hb] at this; cases this

theorem raise_spec (n : Nat) (t : Table) :
    ∃ t', (if n > t.maxDefinition then { t with maxDefinition := n } else t) = t' ∧ t'.block = t.block ∧ t'.store = t.store ∧
      t'.frees = t.frees ∧ t'.numParams = t.numParams ∧ t'.numDefinition = t.numDefinition ∧
      t.maxDefinition ≤ t'.maxDefinition ∧ n ≤ t'.maxDefinition ∧ t'.maxDefinition = max n t.maxDefinition := by
  refine ⟨_, rfl, ?_⟩
  split <;> simp <;> omega

theorem fmd_cons_block {t : Table} {r : List Table} (h : t.block = true) : fmd (t :: r) = fmd r := by simp [fmd, h]
theorem fmd_cons_fn {t : Table} {r : List Table} (h : t.block = false) : fmd (t :: r) = t.maxDefinition := by simp [fmd, h]
theorem fnf_cons_block {t : Table} {r : List Table} (h : t.block = true) : fnf (t :: r) = fnf r := by simp [fnf, h]
theorem fnf_cons_fn {t : Table} {r : List Table} (h : t.block = false) : fnf (t :: r) = t.frees.length := by simp [fnf, h]

/-- `updateMaxDefs n`: the chain stays fine, grows, and the function table reaches `n` -/
theorem chain_updateMaxDefs (cs : Array Const) (n : Nat) : ∀ {ts : List Table}, ChainOK cs ts →
    ChainOK cs (updateMaxDefs n ts) ∧ ChainLE ts (updateMaxDefs n ts) ∧ (ts ≠ [] → n ≤ fmd (updateMaxDefs n ts)) ∧
    fnf (updateMaxDefs n ts) = fnf ts
  | [], _ => ⟨trivial, trivial, fun h => absurd rfl h, rfl⟩
  | t :: r, h => by
    obtain ⟨hst, hpar, hfr, hroot, hr⟩ := h
    simp only [updateMaxDefs]
    obtain ⟨t', ht', hblk, hstore, hfrees, hnp, _, hmd, hn, _⟩ := raise_spec n t
    rw [ht']
    by_cases hb : t.block = true
    · have hrne : r ≠ [] := ChainOK.block_rest ⟨hst, hpar, hfr, hroot, hr⟩ hb
      obtain ⟨ih1, ih2, ih3, ih4⟩ := chain_updateMaxDefs cs n hr
      have hne' : updateMaxDefs n r ≠ [] := by
        intro he; have := ih2.length; rw [he] at this; simp at this; exact hrne (List.eq_nil_of_length_eq_zero this.symm)
      have hb2 : t'.block = true := by rw [hblk]; exact hb
      rw [if_pos hb]
      refine ⟨⟨?_, ?_, ?_, ?_, ih1⟩, ⟨hblk, hmd, by rw [hfrees]; exact Nat.le_refl _, ih2⟩, ?_, ?_⟩
      · rw [hstore, fmd_cons_block hb2, fnf_cons_block hb2]
        rw [fmd_cons_block hb, fnf_cons_block hb] at hst
        exact hst.mono (CPre.refl _) ih2.fmd (by rw [ih4]; exact Nat.le_refl _)
      · rw [hnp]; omega
      · intro hc; rw [hb2] at hc; cases hc
      · intro he; exact absurd he hne'
      · intro _; rw [fmd_cons_block hb2]; exact ih3 hrne
      · rw [fnf_cons_block hb2, fnf_cons_block hb]; exact ih4
    · have hb' : t.block = false := by simpa using hb
      have hb2 : t'.block = false := by rw [hblk]; exact hb'
      rw [if_neg hb]
      refine ⟨⟨?_, ?_, ?_, ?_, hr⟩, ⟨hblk, hmd, by rw [hfrees]; exact Nat.le_refl _, ChainLE.refl r⟩, ?_, ?_⟩
      · rw [hstore, fmd_cons_fn hb2, fnf_cons_fn hb2, hfrees]
        rw [fmd_cons_fn hb', fnf_cons_fn hb'] at hst
        exact hst.mono (CPre.refl _) hmd (Nat.le_refl _)
      · rw [hnp]; omega
      · intro _; rw [hfrees]; exact hfr hb'
      · intro he; rw [hfrees]; exact ⟨hb2, (hroot he).2⟩
      · intro _; rw [fmd_cons_fn hb2]; exact hn
      · rw [fnf_cons_fn hb2, fnf_cons_fn hb', hfrees]


theorem fmd_congr {t t2 : Table} {r : List Table} (hb : t2.block = t.block) (hm : t2.maxDefinition = t.maxDefinition) :
    fmd (t2 :: r) = fmd (t :: r) := by simp [fmd, hb, hm]
theorem fnf_congr {t t2 : Table} {r : List Table} (hb : t2.block = t.block) (hf : t2.frees = t.frees) :
    fnf (t2 :: r) = fnf (t :: r) := by simp [fnf, hb, hf]

/-- replacing the head table by one that differs in its store (and in fields the invariant does not read) -/
theorem chain_replaceHead {cs : Array Const} {t t2 : Table} {r : List Table} (h : ChainOK cs (t :: r))
    (hb : t2.block = t.block) (hm : t2.maxDefinition = t.maxDefinition) (hf : t2.frees = t.frees)
    (hp : t2.numParams = t.numParams) (hs : StoreOKx cs (fmd (t :: r)) (fnf (t :: r)) t2.store) : ChainOK cs (t2 :: r) := by
  obtain ⟨_, hpar, hfr, hroot, hr⟩ := h
  refine ⟨by rw [fmd_congr hb hm, fnf_congr hb hf]; exact hs, by rw [hp, hm]; exact hpar, ?_, ?_, hr⟩
  · intro hc; rw [hf]; exact hfr (by rw [← hb]; exact hc)
  · intro he; rw [hb, hf]; exact hroot he

theorem chainLE_replaceHead {t t2 : Table} {r : List Table} (hb : t2.block = t.block) (hm : t2.maxDefinition = t.maxDefinition)
    (hf : t2.frees = t.frees) : ChainLE (t :: r) (t2 :: r) :=
  ⟨hb, by rw [hm]; exact Nat.le_refl _, by rw [hf]; exact Nat.le_refl _, ChainLE.refl r⟩

/-- putting a symbol into the store of the head table -/
theorem chain_putHead {cs : Array Const} {t t2 : Table} {r : List Table} {n : String} {y : Symbol} (h : ChainOK cs (t :: r))
    (hb : t2.block = t.block) (hm : t2.maxDefinition = t.maxDefinition) (hf : t2.frees = t.frees)
    (hp : t2.numParams = t.numParams) (hs : t2.store = putSym n y t.store)
    (hy : SymOKx cs (fmd (t :: r)) (fnf (t :: r)) y) : ChainOK cs (t2 :: r) :=
  chain_replaceHead h hb hm hf hp (by rw [hs]; exact putSym_okx hy h.1)

/-- a new local symbol with index `idx` in the head table, followed by `updateMaxDefs (idx + 1)` -/
theorem chain_define {cs : Array Const} {t t1 : Table} {r : List Table} {name : String} {sym : Symbol} {idx : Nat}
    (h : ChainOK cs (t :: r)) (hb : t1.block = t.block) (hm : t1.maxDefinition = t.maxDefinition) (hf : t1.frees = t.frees)
    (hp : t1.numParams = t.numParams) (hs : t1.store = putSym name sym t.store)
    (hsc : sym.scope = .local_) (hi : sym.index = (idx : Int)) :
    ChainOK cs (updateMaxDefs (idx + 1) (t1 :: r)) ∧ ChainLE (t :: r) (updateMaxDefs (idx + 1) (t1 :: r)) := by
  obtain ⟨c1, c2, c3, _⟩ := chain_updateMaxDefs cs (idx + 1) h
  have c3' := c3 (by simp)
  simp only [updateMaxDefs] at c1 c2 c3' ⊢
  obtain ⟨t', ht', hblk, hstore, hfrees, hnp, _, hmd, hn, hmax⟩ := raise_spec (idx + 1) t
  obtain ⟨t1', ht1', hblk1, hstore1, hfrees1, hnp1, _, hmd1, hn1, hmax1⟩ := raise_spec (idx + 1) t1
  rw [ht'] at c1 c2 c3'
  rw [ht1', hb]
  have hbb : t1'.block = t'.block := by rw [hblk1, hblk, hb]
  have hmm : t1'.maxDefinition = t'.maxDefinition := by rw [hmax1, hmax, hm]
  have hff : t1'.frees = t'.frees := by rw [hfrees1, hfrees, hf]
  have hpp : t1'.numParams = t'.numParams := by rw [hnp1, hnp, hp]
  have hss : t1'.store = putSym name sym t'.store := by rw [hstore1, hstore, hs]
  have hy : ∀ tl, idx + 1 ≤ fmd (t' :: tl) → SymOKx cs (fmd (t' :: tl)) (fnf (t' :: tl)) sym :=
    fun tl hle => symOKx_local hsc hi (by omega)
  split at c1
  · rename_i hblock
    rw [if_pos hblock] at c2 c3' ⊢
    exact ⟨chain_putHead c1 hbb hmm hff hpp hss (hy _ c3'),
      ChainLE.trans c2 (chainLE_replaceHead hbb hmm hff)⟩
  · rename_i hblock
    rw [if_neg hblock] at c2 c3' ⊢
    exact ⟨chain_putHead c1 hbb hmm hff hpp hss (hy _ c3'),
      ChainLE.trans c2 (chainLE_replaceHead hbb hmm hff)⟩

/-- a fresh table on top of the chain (`Fork`) -/
theorem chain_fork {cs : Array Const} {ts : List Table} (h : ChainOK cs ts) (hne : ts ≠ []) (tn : Table)
    (hs : tn.store = []) (hf : tn.frees = []) (hp : tn.numParams = 0) : ChainOK cs (tn :: ts) := by
  refine ⟨by rw [hs]; intro p hp; simp at hp, by rw [hp]; exact Nat.zero_le _, ?_, fun he => absurd he hne, h⟩
  intro _ y hy; rw [hf] at hy; simp at hy


@[simp] theorem shadowBuiltin_store (bs : List (String × Nat)) (n : String) (t : Table) :
    (shadowBuiltin bs n t).store = t.store := by unfold shadowBuiltin; split <;> rfl
@[simp] theorem shadowBuiltin_numParams (bs : List (String × Nat)) (n : String) (t : Table) :
    (shadowBuiltin bs n t).numParams = t.numParams := by unfold shadowBuiltin; split <;> rfl
@[simp] theorem shadowBuiltin_maxDefinition (bs : List (String × Nat)) (n : String) (t : Table) :
    (shadowBuiltin bs n t).maxDefinition = t.maxDefinition := by unfold shadowBuiltin; split <;> rfl
@[simp] theorem shadowBuiltin_block (bs : List (String × Nat)) (n : String) (t : Table) :
    (shadowBuiltin bs n t).block = t.block := by unfold shadowBuiltin; split <;> rfl
@[simp] theorem shadowBuiltin_frees (bs : List (String × Nat)) (n : String) (t : Table) :
    (shadowBuiltin bs n t).frees = t.frees := by unfold shadowBuiltin; split <;> rfl
@[simp] theorem shadowBuiltin_numDefinition (bs : List (String × Nat)) (n : String) (t : Table) :
    (shadowBuiltin bs n t).numDefinition = t.numDefinition := by unfold shadowBuiltin; split <;> rfl

/-- the tail of the chain grew -/
theorem chain_replaceTail {cs : Array Const} {t : Table} {r r' : List Table} (h : ChainOK cs (t :: r))
    (hr' : ChainOK cs r') (hle : ChainLE r r') (hne : r ≠ []) : ChainOK cs (t :: r') := by
  obtain ⟨hst, hpar, hfr, _, _⟩ := h
  have hne' : r' ≠ [] := by
    intro he; have := hle.length; rw [he] at this; simp at this; exact hne (List.eq_nil_of_length_eq_zero this.symm)
  have h1 : fmd (t :: r) ≤ fmd (t :: r') := by
    simp only [fmd]; split
    · exact hle.fmd
    · exact Nat.le_refl _
  have h2 : fnf (t :: r) ≤ fnf (t :: r') := by
    simp only [fnf]; split
    · exact hle.fnf
    · exact Nat.le_refl _
  exact ⟨hst.mono (CPre.refl _) h1 h2, hpar, fun hb y hy => (hfr hb y hy).mono hle.fmd hle.fnf,
    fun he => absurd he hne', hr'⟩

theorem find?_mem_snd {bs : List (String × Nat)} {name : String} {x : String} {idx : Nat}
    (h : bs.find? (·.1 == name) = some (x, idx)) : (x, idx) ∈ bs := List.mem_of_find?_eq_some h

/-- `Resolve`: the chain stays fine and grows; the symbol found is in range for the current function -/
theorem resolveIn_chain (cs : Array Const) (bs : List (String × Nat)) (hbs : ∀ p ∈ bs, p.2 < NB) (d : List String)
    (n : String) : ∀ {ts : List Table}, ChainOK cs ts →
      ChainOK cs (resolveIn bs d n ts).2 ∧ ChainLE ts (resolveIn bs d n ts).2 ∧
      ∀ y, (resolveIn bs d n ts).1 = some y → SymOKx cs (fmd (resolveIn bs d n ts).2) (fnf (resolveIn bs d n ts).2) y
  | [], _ => by simp [resolveIn, ChainOK, ChainLE]
  | t :: rest, h => by
    unfold resolveIn
    split
    · rename_i sym hl
      exact ⟨h, ChainLE.refl _, fun y hy => by injection hy with hy; subst hy; exact lookupSym_okx h.1 hl⟩
    · cases rest with
      | nil =>
        simp only
        split
        · split
          · rename_i x idx hf
            have hidx : idx < NB := hbs (x, idx) (find?_mem_snd hf)
            have hy : SymOKx cs (fmd [t]) (fnf [t]) { name := n, index := (idx : Int), scope := .builtin } :=
              symOKx_builtin rfl rfl hidx
            refine ⟨chain_putHead h rfl rfl rfl rfl rfl hy, chainLE_replaceHead rfl rfl rfl, ?_⟩
            intro y hy'
            injection hy' with hy'
            subst hy'
            simp only
            have e1 := fmd_congr (t := t) (t2 := { t with store := putSym n { name := n, index := (idx : Int), scope := .builtin } t.store }) (r := []) rfl rfl
            have e2 := fnf_congr (t := t) (t2 := { t with store := putSym n { name := n, index := (idx : Int), scope := .builtin } t.store }) (r := []) rfl rfl
            rw [e1, e2]
            exact hy
          · exact ⟨h, ChainLE.refl _, fun y hy => by simp at hy⟩
        · exact ⟨h, ChainLE.refl _, fun y hy => by simp at hy⟩
      | cons t2 r2 =>
        simp only
        have ih := resolveIn_chain cs bs hbs d n h.tail
        cases hres : resolveIn bs d n (t2 :: r2) with
        | mk r rest' =>
          rw [hres] at ih
          simp only at ih ⊢
          obtain ⟨ih1, ih2, ih3⟩ := ih
          have hbase : ChainOK cs (t :: rest') := chain_replaceTail h ih1 ih2 (by simp)
          have hle : ChainLE (t :: t2 :: r2) (t :: rest') := ⟨rfl, Nat.le_refl _, Nat.le_refl _, ih2⟩
          cases r with
          | none => exact ⟨hbase, hle, fun y hy => by simp at hy⟩
          | some sym =>
            simp only
            have hsym := ih3 sym rfl
            split
            · rename_i hcond
              simp only [Bool.and_eq_true, Bool.not_eq_true', bne_iff_ne, ne_eq] at hcond
              obtain ⟨⟨⟨hblk, hng⟩, hnb⟩, hnc⟩ := hcond
              -- the free symbol and the extended function table
              have hfsOK : SymOKx cs t.maxDefinition (t.frees.length + 1)
                  { name := sym.name, index := (t.frees.length : Int), scope := .free, constant := sym.constant } :=
                symOKx_free rfl rfl (by omega)
              have horig : OrigOK (fmd rest') (fnf rest') sym := ⟨hsym.2.1, hsym.2.2.1⟩
              obtain ⟨hst, hpar, hfr, _, hr⟩ := hbase
              rw [fmd_cons_fn hblk, fnf_cons_fn hblk] at hst
              have hne' : rest' ≠ [] := by
                intro he; have := ih2.length; rw [he] at this; simp at this
              refine ⟨⟨?_, by simpa using hpar, ?_, fun he => absurd he hne', hr⟩,
                ⟨by simp, by simp, by simp, ih2⟩, ?_⟩
              · rw [fmd_cons_fn (by simpa using hblk), fnf_cons_fn (by simpa using hblk)]
                simp only [shadowBuiltin_store, shadowBuiltin_maxDefinition, shadowBuiltin_frees, List.length_append,
                  List.length_cons, List.length_nil]
                exact putSym_okx hfsOK (hst.mono (CPre.refl _) (Nat.le_refl _) (by omega))
              · intro _ y hy
                simp only [shadowBuiltin_frees, List.mem_append, List.mem_singleton] at hy
                rcases hy with hy | hy
                · exact hfr hblk y hy
                · subst hy; exact horig
              · intro y hy
                injection hy with hy
                subst hy
                rw [fmd_cons_fn (by simpa using hblk), fnf_cons_fn (by simpa using hblk)]
                simpa using hfsOK
            · rename_i hcond
              refine ⟨hbase, hle, ?_⟩
              intro y hy
              injection hy with hy
              subst hy
              simp only
              by_cases hblk : t.block = true
              · rw [fmd_cons_block hblk, fnf_cons_block hblk]; exact hsym
              · have hblk' : t.block = false := by simpa using hblk
                simp only [hblk', Bool.not_false, Bool.true_and, Bool.and_eq_true, bne_iff_ne, ne_eq, not_and,
                  Decidable.not_not] at hcond
                obtain ⟨h1, h2, h3, h4, h5⟩ := hsym
                refine ⟨h1, ?_, ?_, h4, h5⟩
                · intro c
                  by_cases hg : sym.scope = .global
                  · rw [hg] at c; cases c
                  · by_cases hb : sym.scope = .builtin
                    · rw [hb] at c; cases c
                    · have := hcond ⟨hg, hb⟩; rw [this] at c; cases c
                · intro c
                  by_cases hg : sym.scope = .global
                  · rw [hg] at c; cases c
                  · by_cases hb : sym.scope = .builtin
                    · rw [hb] at c; cases c
                    · have := hcond ⟨hg, hb⟩; rw [this] at c; cases c

end UgoVerif.Compile
