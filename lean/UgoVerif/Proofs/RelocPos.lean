import UgoVerif.Props.C11
/-
  Source-map lookups agree across the v1 → v2 conversion (`hpos` of `C11_partial`).

  `srcPos_conv`: for a decodable version-1 stream whose source-map keys are instruction
  offsets (what the compiler emits: `SourceMap[len(instructions)] = pos` before each
  instruction), the converted source map answers `SourcePos` at the relocated offset like the
  original one at the original offset, for every offset.

  * `mem_of_lookup`             `lookup` hit ⇒ membership
  * `rekey_lookup_some`         entries of the re-keyed map come from instruction offsets
  * `rekey_lookup`              `m.lookup (φ k) = sm.lookup k`
  * `rekey_lookup_none`         `m.lookup j = none` for `j` outside the range of `φ`
  * `srcPos_rekey`              abstract transfer of `srcPos` along a strictly monotone re-keying
-/
namespace UgoVerif.Proofs.RelocPos
open UgoVerif.Go UgoVerif.Model.Bytecode UgoVerif.Model.V1 UgoVerif.Spec.Reloc UgoVerif.Props.C11

theorem mem_of_lookup {sm : SrcMap} {k p : Nat} (h : sm.lookup k = some p) : (k, p) ∈ sm := by
  induction sm with
  | nil => simp at h
  | cons e t ih =>
    obtain ⟨k', p'⟩ := e
    by_cases hk : k = k'
    · subst hk
      simp at h
      simp [h]
    · have hb : (k == k') = false := by simp [hk]
      simp only [List.lookup_cons, hb] at h
      exact List.mem_cons_of_mem _ (ih h)

/-- the source map the converter builds when it re-keys through `φ` -/
def rekey (φ : Nat → Nat) (sm : SrcMap) (is : List Instr) : SrcMap :=
  is.filterMap (fun x => (sm.lookup x.off).map (fun p => (φ x.off, p)))

theorem rekey_nil (φ : Nat → Nat) (sm : SrcMap) : rekey φ sm [] = [] := rfl

theorem rekey_cons_none (φ : Nat → Nat) (sm : SrcMap) (x : Instr) (xs : List Instr)
    (h : sm.lookup x.off = none) : rekey φ sm (x :: xs) = rekey φ sm xs := by
  simp [rekey, h]

theorem rekey_cons_some (φ : Nat → Nat) (sm : SrcMap) (x : Instr) (xs : List Instr) (p : Nat)
    (h : sm.lookup x.off = some p) : rekey φ sm (x :: xs) = (φ x.off, p) :: rekey φ sm xs := by
  simp [rekey, h]

/-- every entry found in the re-keyed map is the entry of an instruction offset -/
theorem rekey_lookup_some (φ : Nat → Nat) (sm : SrcMap) (is : List Instr) (j p : Nat)
    (h : (rekey φ sm is).lookup j = some p) :
    ∃ x ∈ is, j = φ x.off ∧ sm.lookup x.off = some p := by
  induction is with
  | nil => simp [rekey_nil] at h
  | cons x xs ih =>
    cases hx : sm.lookup x.off with
    | none =>
      rw [rekey_cons_none _ _ _ _ hx] at h
      obtain ⟨y, hy, h1, h2⟩ := ih h
      exact ⟨y, List.mem_cons_of_mem _ hy, h1, h2⟩
    | some q =>
      rw [rekey_cons_some _ _ _ _ _ hx] at h
      by_cases hj : j = φ x.off
      · subst hj
        simp at h
        subst h
        exact ⟨x, List.mem_cons_self, rfl, hx⟩
      · have hb : (j == φ x.off) = false := by simp [hj]
        simp only [List.lookup_cons, hb] at h
        obtain ⟨y, hy, h1, h2⟩ := ih h
        exact ⟨y, List.mem_cons_of_mem _ hy, h1, h2⟩

/-- an entry at an instruction offset is found under the new key -/
theorem rekey_lookup_of_mem (φ : Nat → Nat) (hinj : ∀ a b, φ a = φ b → a = b)
    (sm : SrcMap) (is : List Instr) (k p : Nat)
    (hk : ∃ x ∈ is, x.off = k) (hp : sm.lookup k = some p) :
    (rekey φ sm is).lookup (φ k) = some p := by
  induction is with
  | nil => obtain ⟨x, hx, _⟩ := hk; simp at hx
  | cons x xs ih =>
    by_cases hxk : x.off = k
    · rw [rekey_cons_some φ sm x xs p (by rw [hxk]; exact hp), hxk]
      simp
    · have hk' : ∃ y ∈ xs, y.off = k := by
        obtain ⟨y, hy, hyk⟩ := hk
        rcases List.mem_cons.1 hy with rfl | hy'
        · exact absurd hyk hxk
        · exact ⟨y, hy', hyk⟩
      cases hx : sm.lookup x.off with
      | none => rw [rekey_cons_none _ _ _ _ hx]; exact ih hk'
      | some q =>
        rw [rekey_cons_some _ _ _ _ _ hx]
        have hne : φ k ≠ φ x.off := fun e => hxk (hinj _ _ e).symm
        have hb : (φ k == φ x.off) = false := by simp [hne]
        simp only [List.lookup_cons, hb]
        exact ih hk'

/-- the re-keyed map at `φ k` is the old map at `k`, when the old keys are instruction offsets -/
theorem rekey_lookup (φ : Nat → Nat) (hinj : ∀ a b, φ a = φ b → a = b)
    (sm : SrcMap) (is : List Instr)
    (hkeys : ∀ k p, (k, p) ∈ sm → ∃ x ∈ is, x.off = k) (k : Nat) :
    (rekey φ sm is).lookup (φ k) = sm.lookup k := by
  cases hs : sm.lookup k with
  | some p => exact rekey_lookup_of_mem φ hinj sm is k p (hkeys k p (mem_of_lookup hs)) hs
  | none =>
    cases hm : (rekey φ sm is).lookup (φ k) with
    | none => rfl
    | some p =>
      obtain ⟨x, _, h1, h2⟩ := rekey_lookup_some φ sm is _ _ hm
      rw [← hinj _ _ h1, hs] at h2
      exact absurd h2 (by simp)

/-- the re-keyed map has no key outside the range of `φ` -/
theorem rekey_lookup_none (φ : Nat → Nat) (sm : SrcMap) (is : List Instr) (j : Nat)
    (hj : ∀ k, j ≠ φ k) : (rekey φ sm is).lookup j = none := by
  cases hm : (rekey φ sm is).lookup j with
  | none => rfl
  | some p =>
    obtain ⟨x, _, h1, _⟩ := rekey_lookup_some φ sm is _ _ hm
    exact absurd h1 (hj _)

theorem lt_of_mono_lt (φ : Nat → Nat) (hmono : ∀ a b, a < b → φ a < φ b) (a b : Nat)
    (h : φ a < φ b) : a < b := by
  rcases Nat.lt_trichotomy a b with hlt | heq | hgt
  · exact hlt
  · subst heq; omega
  · have := hmono b a hgt; omega

theorem inj_of_mono (φ : Nat → Nat) (hmono : ∀ a b, a < b → φ a < φ b) (a b : Nat)
    (h : φ a = φ b) : a = b := by
  rcases Nat.lt_trichotomy a b with hlt | heq | hgt
  · have := hmono a b hlt; omega
  · exact heq
  · have := hmono b a hgt; omega

/-- `SourcePos` of a map re-keyed along a strictly monotone `φ` with `φ 0 = 0`: a query anywhere
    in `[φ o, φ (o+1))` answers like the old map at `o`. -/
theorem srcPos_rekey_between (φ : Nat → Nat) (hmono : ∀ a b, a < b → φ a < φ b) (h0 : φ 0 = 0)
    (sm m : SrcMap) (h1 : ∀ k, m.lookup (φ k) = sm.lookup k)
    (h2 : ∀ j, (∀ k, j ≠ φ k) → m.lookup j = none) :
    ∀ j o, φ o ≤ j → j < φ (o + 1) → srcPos m j = srcPos sm o := by
  intro j
  induction j with
  | zero =>
    intro o ho _
    have ho0 : o = 0 := by
      cases o with
      | zero => rfl
      | succ o' => have := hmono 0 (o' + 1) (by omega); omega
    subst ho0
    have := h1 0
    rw [h0] at this
    simp only [srcPos]; exact this
  | succ j ih =>
    intro o ho hlt
    by_cases he : φ o = j + 1
    · cases o with
      | zero => omega
      | succ o' =>
        have hrec : srcPos m j = srcPos sm o' :=
          ih o' (by have := hmono o' (o' + 1) (by omega); omega) (by omega)
        have hl := h1 (o' + 1)
        rw [he] at hl
        simp only [srcPos, hl, hrec]
    · have hrec : srcPos m j = srcPos sm o := ih o (by omega) (by omega)
      have hn : m.lookup (j + 1) = none := by
        apply h2
        intro k hk
        have ha : o < k := lt_of_mono_lt φ hmono _ _ (by omega)
        have hb : k < o + 1 := lt_of_mono_lt φ hmono _ _ (by omega)
        omega
      simp only [srcPos, hn, hrec]

theorem srcPos_rekey (φ : Nat → Nat) (hmono : ∀ a b, a < b → φ a < φ b) (h0 : φ 0 = 0)
    (sm m : SrcMap) (h1 : ∀ k, m.lookup (φ k) = sm.lookup k)
    (h2 : ∀ j, (∀ k, j ≠ φ k) → m.lookup j = none) (o : Nat) :
    srcPos m (φ o) = srcPos sm o :=
  srcPos_rekey_between φ hmono h0 sm m h1 h2 (φ o) o (Nat.le_refl _) (hmono _ _ (Nat.lt_succ_self _))

/-- **`hpos` of `C11_partial`** for decodable streams whose source-map keys are instruction
    offsets: the converted source map answers `SourcePos` queries at relocated offsets like the
    original map at the original offsets — for every offset `o` (instruction offset or not). -/
theorem srcPos_conv (ins : Bytes) (sm : SrcMap) (is : List Instr) (hd : decodeV1 ins = some is)
    (hkeys : ∀ k p, (k, p) ∈ sm → ∃ x ∈ is, x.off = k)
    (out : Bytes) (m : SrcMap) (hc : convFn ins sm = .ok (out, m)) :
    ∀ o, srcPos m (newOff ins o) = srcPos sm o := by
  obtain ⟨out', m', hc', _, _, hm⟩ := conv_decodes ins sm is hd
  rw [hc] at hc'
  injection hc' with hc'
  injection hc' with _ hmm
  subst hmm
  intro o
  rcases hm with ⟨hm, hid⟩ | hm
  · rw [hm, hid]
  · have hmono := newOff_strict_mono ins
    have hinj := inj_of_mono _ hmono
    have hm' : m = rekey (newOff ins) sm is := hm
    rw [hm']
    exact srcPos_rekey (newOff ins) hmono (newOff_zero ins) sm _
      (rekey_lookup _ hinj sm is hkeys) (rekey_lookup_none _ sm is) o

/-- the hypotheses are satisfiable, on a stream where the converter does widen: a 2-byte jump
    operand becomes 4 bytes wide, the source-map key 6 moves to 8 -/
example :
    decodeV1 [13, 0, 8, 1, 0, 0, 39, 1, 21, 39, 1] =
      some [⟨0, 13, [8]⟩, ⟨3, 1, [0]⟩, ⟨6, 39, [1]⟩, ⟨8, 21, []⟩, ⟨9, 39, [1]⟩] ∧
    (∀ k p, (k, p) ∈ ([(0, 5), (6, 9)] : SrcMap) →
      ∃ x ∈ ([⟨0, 13, [8]⟩, ⟨3, 1, [0]⟩, ⟨6, 39, [1]⟩, ⟨8, 21, []⟩, ⟨9, 39, [1]⟩] : List Instr),
        x.off = k) ∧
    convFn [13, 0, 8, 1, 0, 0, 39, 1, 21, 39, 1] [(0, 5), (6, 9)] =
      .ok ([13, 0, 0, 0, 10, 1, 0, 0, 39, 1, 21, 39, 1], [(0, 5), (8, 9)]) := by
  refine ⟨by decide, ?_, by decide⟩
  intro k p h
  simp at h
  rcases h with ⟨rfl, rfl⟩ | ⟨rfl, rfl⟩ <;> simp

end UgoVerif.Proofs.RelocPos
