import UgoVerif.Proofs.Shift
/-
  C14, `frame_shift`: post-condition of one instruction, further primitive rules and the tactic `shrun`
  for the offset relation `Sh` (Proofs/Shift.lean).
-/
set_option linter.unusedSimpArgs false
set_option linter.unusedVariables false
namespace UgoVerif.Proofs.Shift
open UgoVerif UgoVerif.Go UgoVerif.VM

/-- the search of `throw` for a handler in the frames below frame `j` (vm.go `throw`: the loop over
    `vm.frames[index]`, then `handleThrownError` in the frame found): `throwF` without its first test -/
def throwBelow (fuel : Nat) (j : Nat) (err : Addr) : M (Option Addr) := do
  let found? ← searchFrames j
  let index : Int ← (match found? with
    | some i => pure (i : Int)
    | none => pure (-1))
  if found?.isNone then
    return some err
  modS fun s => { s with frameIndex := index + 1, curFrame := index.toNat }
  let f ← curFrame
  match f.fn with
  | none => VM.panic "runtime error: invalid memory address or nil pointer dereference"
  | some _ => pure ()
  setIp f.ip
  throwF.handle fuel err

theorem throwF_succ (fuel : Nat) (err : Addr) : throwF (fuel + 1) err = (do
    let cf ← curFrame
    if hasHandler cf then throwF.handle fuel err
    else do
      let s ← getS
      throwBelow fuel (s.frameIndex - 1).toNat err) := by
  rw [throwF]; rfl

/-- what the parent does once the error `e` has left the invoked function's frame `k`: it goes on searching
    the frames below `k`; an unhandled error ends its loop -/
def escBelow (n k : Nat) (e : Addr) : M Ctl := do
  match (← throwBelow n k e) with
  | none => pure .next
  | some a => modS (fun s => { s with err := some (.rt a) }); pure .ret

/-- the boundary of the simulation: the error `e` was not taken by any handler of the invoked function's
    frame or of the frames above it.  The child's `throw` returned it (its `Run` returns it to Go); the
    parent's instruction ended as `escBelow` ends from a state `u` with the child's heap, globals and module
    cache, whose frames below `k` and stack below the callee's slot are those of `T0` (the parent at the entry of the
    function): the search goes on in the CALLER's frames, where the two sides legitimately differ. -/
def EscQ (T0 : State) (bp k : Nat) (e : Addr) (r' : Ctl) (s' t' : State) : Prop :=
  ∃ n u, u.heap = s'.heap ∧ u.globals = s'.globals ∧ u.modules = s'.modules ∧ u.err = none ∧
    (∀ j : Nat, j < k → u.frames[j]! = T0.frames[j]!) ∧ (∀ i : Nat, i + 1 < bp → u.stack[i]! = T0.stack[i]!) ∧
    exec (escBelow n k e) u = (.ok r', t')

/-- after one instruction (not the RETURN of the invoked function itself): both VMs continue in related
    states (possibly at another depth: a call, a return of a nested call, a throw caught in an outer frame
    of the invoked function), or the child's loop returns with `vm.err = e` and the parent goes on
    unwinding below frame `k` (`EscQ`), or both loops return with the same Go error (malformed bytecode:
    unknown opcode, wrong THROW operand) -/
def PostC (T0 : State) (bp k : Nat) (r r' : Ctl) (s t : State) : Prop :=
  (r = .next ∧ r' = .next ∧ ∃ d, ShB T0 bp k d s t) ∨ (r = .ret ∧ ∃ e, s.err = some (.rt e) ∧ EscQ T0 bp k e r' s t) ∨
  (r = .ret ∧ r' = .ret ∧ (∃ m, s.err = some (.goerr m) ∧ t.err = some (.goerr m)) ∧
    s.heap = t.heap ∧ s.globals = t.globals ∧ s.modules = t.modules)

theorem RelS.errL_bind' {α β γ} {A : State → State → Prop} {Q : γ → β → State → State → Prop} {m₂ : M β} (e : Exc)
    (f : α → M γ) : RelS A Q ((throw e : M α) >>= f) m₂ := by
  intro s t _ a s' b t' h1 _
  rw [exec_bind] at h1
  simp at h1

theorem RelS.errR_bind' {α β γ} {A : State → State → Prop} {Q : β → γ → State → State → Prop} {m₁ : M β} (e : Exc)
    (f : α → M γ) : RelS A Q m₁ ((throw e : M α) >>= f) := by
  intro s t _ a s' b t' _ h2
  rw [exec_bind] at h2
  simp at h2

section
variable {T0 : State} {bp k d H N : Nat} {a : Int}

theorem sh_next (ha : a ≤ N) (hH : H ≤ N) :
    RelS (Sh T0 bp k d H N a) (PostC T0 bp k) (pure Ctl.next) (pure Ctl.next) :=
  RelS.pure (fun s t h => Or.inl ⟨rfl, rfl, d, H, N, a, h, ha, hH⟩)

theorem sh_pushV (v : V) (ha : a ≤ N) :
    RelS (Sh T0 bp k d H N a) (PQ (fun _ _ => True) (Sh T0 bp k d H (max N (a.toNat + 1)) (a + 1))) (pushV v) (pushV v) := by
  unfold pushV
  refine RelS.bindV sh_getSp ?_
  rintro _ _ ⟨rfl, rfl⟩
  refine RelS.bindV (sh_stackSet _ _ _ rfl (max N (a.toNat + 1)) (by intro h0; omega)) ?_
  intro _ _ _
  exact sh_setSp _ _ (by omega)


/-! ### more primitive rules -/

/-- the local slot addressed by the operand of the current instruction lies below the stack pointer:
    `bp + operand < sp` (compiled code keeps the `NumLocals` slots of a frame below its operand stack) -/
def OpLt (s : State) : Prop :=
  ∀ idx s', exec (opnd1 1) s = (.ok idx, s') → (s.frames[s.curFrame]!).bp + (idx : Int) < s.sp

theorem sh_opnd1_lt :
    RelS (fun s t => Sh T0 bp k d H N a s t ∧ OpLt s)
      (fun (x y : Nat) s t => x = y ∧ Sh T0 bp k d H N a s t ∧ (s.frames[d]!).bp + (x : Int) < a) (opnd1 1) (opnd1 1) := by
  intro s t h x s' y t' h1 h2
  have := sh_foot (foot_opnd1 1) s t h.1 x s' y t' h1 h2
  refine ⟨this.1, this.2, ?_⟩
  have hl := (foot_opnd1 1).loc s
  rw [h1] at hl
  simp only at hl
  have hb := h.2 x s' h1
  rw [h.1.curS, h.1.spS] at hb
  rw [hl]
  exact hb

theorem sh_curFrame_lt (x : Int) :
    RelS (fun s t => Sh T0 bp k d H N a s t ∧ (s.frames[d]!).bp + x < a)
      (PQ (fun f g => FrameSh bp H f g ∧ f.bp + x < a) (Sh T0 bp k d H N a)) curFrame curFrame := by
  intro s t h f s' g t' h1 h2
  have e1 : exec curFrame s = (.ok (s.frames[s.curFrame]!), s) := rfl
  have e2 : exec curFrame t = (.ok (t.frames[t.curFrame]!), t) := rfl
  rw [e1] at h1; rw [e2] at h2
  simp only [Prod.mk.injEq, Except.ok.injEq] at h1 h2
  obtain ⟨rfl, rfl⟩ := h1
  obtain ⟨rfl, rfl⟩ := h2
  refine ⟨⟨?_, ?_⟩, h.1⟩
  · rw [h.1.curS, h.1.curT]; exact h.1.frame
  · rw [h.1.curS]; exact h.2

theorem sh_getS : RelS (Sh T0 bp k d H N a) (PQ (Sh T0 bp k d H N a) (Sh T0 bp k d H N a)) getS getS := by
  intro s t h x s' y t' h1 h2
  simp only [exec_getS, Prod.mk.injEq, Except.ok.injEq] at h1 h2
  obtain ⟨rfl, rfl⟩ := h1
  obtain ⟨rfl, rfl⟩ := h2
  exact ⟨h, h⟩

theorem sh_setModule (i : Nat) (v : V) :
    RelS (Sh T0 bp k d H N a) (PQ (fun _ _ => True) (Sh T0 bp k d H N a))
      (modS fun s => { s with modules := s.modules.set! i v }) (modS fun s => { s with modules := s.modules.set! i v }) := by
  intro s t h x s' y t' h1 h2
  simp only [exec_modS, Prod.mk.injEq, Except.ok.injEq] at h1 h2
  obtain ⟨_, rfl⟩ := h1
  obtain ⟨_, rfl⟩ := h2
  exact ⟨trivial, { h with modules := by simp [h.modules], shapeS := ⟨h.shapeS.stack, h.shapeS.frames⟩,
                            shapeT := ⟨h.shapeT.stack, h.shapeT.frames⟩ }⟩

theorem exec_stackSlice' (lo hi : Int) (s : State) :
    exec (stackSlice lo hi) s =
      if lo < 0 || hi > (stackSize : Int) || lo > hi then
        (.error (.panic s!"runtime error: slice bounds out of range [{lo}:{hi}]"), s)
      else (.ok ((s.stack.toList.drop lo.toNat).take (hi - lo).toNat), s) := by
  unfold stackSlice
  split
  · rfl
  · simp only [exec_bind, exec_getS, exec_pure]

theorem sh_stackSlice (lo hi lo' hi' : Int) (h1 : lo' = lo + bp) (h2 : hi' = hi + bp) (hN : hi ≤ N) :
    RelS (Sh T0 bp k d H N a) (PQ Eq (Sh T0 bp k d H N a)) (stackSlice lo hi) (stackSlice lo' hi') := by
  intro s t h x s' y t' e1 e2
  rw [exec_stackSlice'] at e1 e2
  by_cases hb : (decide (lo < 0) || decide (hi > (stackSize : Int)) || decide (lo > hi)) = true
  · rw [if_pos hb] at e1; simp at e1
  · rw [if_neg hb] at e1
    by_cases hb' : (decide (lo' < 0) || decide (hi' > (stackSize : Int)) || decide (lo' > hi')) = true
    · rw [if_pos hb'] at e2; simp at e2
    · rw [if_neg hb'] at e2
      simp only [Prod.mk.injEq, Except.ok.injEq] at e1 e2
      obtain ⟨rfl, rfl⟩ := e1
      obtain ⟨rfl, rfl⟩ := e2
      simp only [Bool.or_eq_true, decide_eq_true_eq, not_or, Int.not_lt, ge_iff_le, Int.not_le] at hb hb'
      refine ⟨?_, h⟩
      apply List.ext_getElem?
      intro i
      have e : (hi' - lo').toNat = (hi - lo).toNat := by omega
      rw [e]
      simp only [List.getElem?_take, List.getElem?_drop]
      by_cases hlt : i < (hi - lo).toNat
      · simp only [hlt, if_true]
        have hs := h.stack (lo.toNat + i) (by omega)
        have hsz1 := h.shapeS.stack
        have hsz2 := h.shapeT.stack
        have l1 : lo.toNat + i < s.stack.size := by rw [hsz1]; omega
        have l2 : lo'.toNat + i < t.stack.size := by rw [hsz2]; omega
        have e' : bp + (lo.toNat + i) = lo'.toNat + i := by omega
        rw [e', getElem!_pos s.stack _ l1, getElem!_pos t.stack _ l2] at hs
        simp only [Array.getElem?_toList, Array.getElem?_eq_getElem l1, Array.getElem?_eq_getElem l2, hs]
      · simp only [hlt, if_false]

theorem sh_stackSet_grow (i j : Int) (v : V) (hj : j = i + bp) (hi : i ≤ N) :
    RelS (Sh T0 bp k d H N a) (PQ (fun _ _ => True) (Sh T0 bp k d H (max N (i.toNat + 1)) a)) (stackSet i v) (stackSet j v) :=
  sh_stackSet i j v hj _ (by intro h0; omega)

/-! ### automation -/

syntax "sh_prim" : tactic
syntax "sh1" : tactic
syntax "shrun" : tactic
macro_rules | `(tactic| sh_prim) => `(tactic| first
  | exact sh_getSp
  | exact sh_setSp _ _ (by omega)
  | exact sh_stackGet _ _ (by omega) (by omega)
  | exact sh_stackSet_grow _ _ _ (by omega) (by omega)
  | exact sh_stackSet _ _ _ (by omega) _ (fun _ => Or.inl (Nat.le_refl _))
  | exact sh_stackSlice _ _ _ _ (by omega) (by omega) (by omega)
  | exact sh_pushV _ (by omega)
  | exact sh_setIp _
  | exact sh_bumpIp _
  | exact sh_setModule _ _
  | (apply sh_foot; foot; all_goals fail "foot: stuck")
  | (refine RelS.forIn_upto (VR := Eq) _ _ _ _ _ rfl ?_
     intro i__ hi__ b__ b'__ hb__
     subst hb__
     shrun)
  | (refine RelS.forIn_upto (VR := fun _ _ => True) _ _ _ _ _ trivial ?_
     intro i__ hi__ b__ b'__ hb__
     shrun))

macro_rules | `(tactic| sh1) => `(tactic| first
  | exact sh_next (by omega) (by omega)
  | exact RelS.errL _
  | exact RelS.errL_bind' _ _
  | exact RelS.errR _
  | exact RelS.errR_bind' _ _
  | exact RelS.pure (fun _ _ h => ⟨Or.inl ⟨_, _, rfl, rfl, rfl⟩, Sh.mono h (by omega)⟩)
  | exact RelS.pure (fun _ _ h => ⟨Or.inl ⟨_, _, rfl, rfl, trivial⟩, Sh.mono h (by omega)⟩)
  | ((with_reducible apply RelS.bindV)
     · sh_prim
     intro x__ y__ h__
     first
       | (obtain ⟨h1__, h2__⟩ := h__; subst h1__; subst h2__)
       | subst h__
       | skip)
  | ((with_reducible apply RelS.bindV)
     · exact sh_curFrame
     intro f__ g__ h__
     obtain ⟨fn1__, fr1__, ip1__, bp1__, hs1__, d1__⟩ := f__
     obtain ⟨fn2__, fr2__, ip2__, bp2__, hs2__, d2__⟩ := g__
     obtain ⟨e1__, e2__, e3__, e4__, e5__, e6__⟩ := h__
     simp only at e1__ e2__ e3__ e4__ e5__ e6__
     subst e1__ e2__ e3__ e5__
     dsimp only)
  | ((with_reducible apply RelS.bindV)
     · exact sh_getS
     intro x__ y__ h__
     have hm__ := h__.modules
     have hg__ := h__.globals
     simp only [hm__, hg__]
     clear hm__ hg__ h__)
  | apply RelS.ite
  | (refine RelS.ite' (by omega) ?_ ?_)
  | split
  | simp only [bind_assoc, pure_bind]
  | dsimp only)

macro_rules | `(tactic| shrun) => `(tactic| repeat sh1)


end
end UgoVerif.Proofs.Shift
