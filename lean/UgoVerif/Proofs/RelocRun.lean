import UgoVerif.Proofs.RelocStep
/-
  Relocation relation: from one instruction to whole runs (`runFromG`): the loop, the `recover`
  wrapper with its reruns, the deferred `clearCurrentFrame`, the epilogue.  Also: the generic
  runner instantiated with `VM.step` is `VM.runFrom`.
-/
set_option linter.unusedVariables false
set_option linter.unusedSimpArgs false
namespace UgoVerif.VM.Reloc
open UgoVerif UgoVerif.Go UgoVerif.VM

/-! ### the generic runner is the VM model's runner -/

theorem loopG_step (F : FloatOps) (fuel : Nat) : loopG (step F) fuel = loopF F fuel := by
  induction fuel with
  | zero => rfl
  | succ n ih =>
    unfold loopG loopF; rw [ih]
    apply bind_congr; intro s0
    split
    · rfl
    · apply bind_congr; intro r; cases r <;> rfl

theorem go_step (F : FloatOps) (reruns : Nat) : ∀ fuel s, runFromG.go (step F) reruns fuel s = runFrom.go F reruns fuel s := by
  induction reruns with
  | zero => intro fuel s; rfl
  | succ n ih =>
    intro fuel s
    have ih' : runFromG.go (step F) n = runFrom.go F n := funext fun f => funext fun s => ih f s
    unfold runFromG.go runFrom.go
    rw [loopG_step, ih']
    rcases (loopF F fuel).run.run s with ⟨r, s1⟩
    cases r with
    | ok o => cases o <;> rfl
    | error e =>
      cases e with
      | unsupported m => rfl
      | panic m =>
        show (if s1.noPanic = true then _ else _) = (if s1.noPanic = true then _ else _)
        by_cases hn : s1.noPanic = true
        · simp only [hn, if_true]
          rcases (handlePanic m).run.run s1 with ⟨r2, s2⟩
          cases r2 with
          | error e2 => cases e2 <;> rfl
          | ok u => rfl
        · simp only [hn]; rfl

/-- `runFromG` over `VM.step` is `VM.runFrom` -/
theorem runFromG_step (F : FloatOps) (fuel : Nat) (g : V) (args : List V) (s0 : State) :
    runFromG (step F) fuel g args s0 = runFrom F fuel g args s0 := by
  unfold runFromG runFrom
  rcases (prologue g args).run.run s0 with ⟨r, s⟩
  cases r with
  | ok u => exact go_step F fuel fuel s
  | error e => cases e <;> rfl

theorem dispatchW_true (F : FloatOps) (op : Nat) : dispatchW true F op = dispatch F op := by
  by_cases h1 : op = OpJump
  · subst h1; rfl
  by_cases h2 : op = OpJumpFalsy
  · subst h2; rfl
  by_cases h3 : op = OpAndJump
  · subst h3; rfl
  by_cases h4 : op = OpOrJump
  · subst h4; rfl
  by_cases h5 : op = OpSetupTry
  · subst h5; rfl
  unfold dispatchW
  rw [if_neg (beq_false_of_ne h1), if_neg (beq_false_of_ne h2), if_neg (beq_false_of_ne h3),
    if_neg (beq_false_of_ne h4), if_neg (beq_false_of_ne h5)]

/-- in the current layout the source VM is the VM model -/
theorem stepW_true (F : FloatOps) : stepW true F = step F := by
  unfold stepW step
  simp only [dispatchW_true]

/-! ### lifting -/

variable {P : Params}

theorem finish_rel {s t : State} (h : RM P s t) : (runFrom.finish s).1 = (runFrom.finish t).1 := by
  obtain ⟨ci, c, h⟩ := h
  rw [finish_eq, finish_eq, h.err, h.sp]
  cases he : s.err with
  | some e => rfl
  | none =>
    simp only
    by_cases hsp : s.sp < (stackSize : Int)
    · rw [if_pos hsp, if_pos hsp]
      have key : (exec (topVal s.sp) s).1 = (exec (topVal s.sp) t).1 := by
        simp only [topVal, exec_bind, exec_stackGet]
        by_cases hb : (decide (s.sp - 1 < 0) || decide (s.sp - 1 ≥ (stackSize : Int))) = true
        · rw [if_pos hb, if_pos hb]
        · rw [if_neg hb, if_neg hb]
          simp only [h.stack]
          generalize s.stack[(s.sp - 1).toNat]! = v
          cases v <;> try rfl
          rename_i a
          simp only [exec_bind, exec_heapGet, h.heap]
          cases s.heap[a]? with
          | none => rfl
          | some x => cases x <;> rfl
      rcases h1 : exec (topVal s.sp) s with ⟨r1, s1⟩
      rcases h2 : exec (topVal s.sp) t with ⟨r2, t1⟩
      rw [h1, h2] at key
      simp only at key
      subst key
      cases r1 with
      | ok v => rfl
      | error e => cases e <;> rfl
    · rw [if_neg hsp, if_neg hsp]

theorem ccf_rel {s t : State} (h : RM P s t) : RM P (exec clearCurrentFrame s).2 (exec clearCurrentFrame t).2 := by
  obtain ⟨ci, c, h⟩ := h
  have := (rel_setCurFrame (P := P) (ci := ci) (c := c) (I := fun _ _ => True)
    (fun f => { f with free := none, fn := none, handlers := none })
    (fun f => { f with free := none, fn := none, handlers := none })
    (fun fr gr hfg => { hfg with fn := rfl, free := rfl, hs := trivial })
    (fun fr => Or.inr rfl)).run s t h
  unfold clearCurrentFrame
  rcases h1 : exec (setCurFrame fun f => { f with free := none, fn := none, handlers := none }) s with ⟨r1, s1⟩
  rcases h2 : exec (setCurFrame fun f => { f with free := none, fn := none, handlers := none }) t with ⟨r2, t1⟩
  rw [h1, h2] at this
  cases r1 <;> cases r2 <;> simp only at this
  · exact this.2
  · exact ⟨ci, c, this.2⟩

theorem rel_loopG {stp₁ stp₂ : M Ctl} (hstep : RelQ (RB P) (CtlPost P) (RM P) stp₁ stp₂) (fuel : Nat) :
    ∀ s t, RB P s t → (exec (loopG stp₁ fuel) s).1 = (exec (loopG stp₂ fuel) t).1 ∧
      RM P (exec (loopG stp₁ fuel) s).2 (exec (loopG stp₂ fuel) t).2 := by
  induction fuel with
  | zero => intro s t h; exact ⟨rfl, h.toRM⟩
  | succ n ih =>
    intro s t h
    unfold loopG
    simp only [exec_bind, exec_getS]
    have hab : t.abort = s.abort := by obtain ⟨ci, c, o, hR⟩ := h; exact hR.abort
    rw [hab]
    by_cases ha : s.abort = true
    · simp only [ha, if_true, exec_modS, exec_pure]
      obtain ⟨ci, c, o, hR⟩ := h
      exact ⟨rfl, ci, c, { hR with err := rfl, ip := trivial }⟩
    · have ha' : s.abort = false := by simpa using ha
      simp only [ha', Bool.false_eq_true, if_false, exec_bind]
      rcases hstep.elim h with ⟨a, b, s', t', h1, h2, hab', hRM, hRB⟩ | ⟨e, s', t', h1, h2, hE⟩
      · subst hab'
        rw [h1, h2]
        cases a with
        | ret => exact ⟨rfl, hRM⟩
        | next => exact ih s' t' (hRB rfl)
      · rw [h1, h2]
        exact ⟨rfl, hE⟩

/-- what the lifting needs of the recovery path (`Proofs/RelocThrow.lean: rel_handlePanic`) -/
abbrev PanicOK (P : Params) : Prop :=
  ∀ msg, RelE (RM P) (fun s t => RM P s t ∧ (s.err = none → RB P s t)) (RM P) Eq (handlePanic msg) (handlePanic msg)

theorem rel_go {stp₁ stp₂ : M Ctl} (hstep : RelQ (RB P) (CtlPost P) (RM P) stp₁ stp₂) (hpanic : PanicOK P)
    (reruns : Nat) : ∀ (fuel : Nat) (s t : State), RB P s t →
      (runFromG.go stp₁ reruns fuel s).1 = (runFromG.go stp₂ reruns fuel t).1 := by
  induction reruns with
  | zero => intro fuel s t _; unfold runFromG.go; rfl
  | succ n ih =>
    intro fuel s t h
    unfold runFromG.go
    have hl := rel_loopG hstep fuel s t h
    unfold exec at hl
    rcases h1 : (loopG stp₁ fuel).run.run s with ⟨r1, s1⟩
    rcases h2 : (loopG stp₂ fuel).run.run t with ⟨r2, t1⟩
    rw [h1, h2] at hl
    obtain ⟨hr, hR1⟩ := hl
    simp only at hr hR1
    subst hr
    cases r1 with
    | ok o =>
      cases o with
      | none => rfl
      | some u =>
        simp only
        have := ccf_rel hR1
        unfold exec at this
        rcases h3 : clearCurrentFrame.run.run s1 with ⟨r3, s3⟩
        rcases h4 : clearCurrentFrame.run.run t1 with ⟨r4, t3⟩
        rw [h3, h4] at this
        exact finish_rel this
    | error e =>
      cases e with
      | unsupported m => rfl
      | panic m =>
        simp only
        have hnp : t1.noPanic = s1.noPanic := by obtain ⟨ci, c, hR⟩ := hR1; exact hR.noPanic
        rw [hnp]
        by_cases hn : s1.noPanic = true
        · simp only [hn, if_true]
          rcases (hpanic m).elim hR1 with ⟨a, b, s', t', h5, h6, _, hRM, hRB⟩ | ⟨e, s', t', h5, h6, hE⟩
          · unfold exec at h5 h6
            rw [h5, h6]
            simp only
            have herr : t'.err = s'.err := by obtain ⟨ci, c, hR⟩ := hRM; exact hR.err
            have hsteps : t'.steps = s'.steps := by obtain ⟨ci, c, hR⟩ := hRM; exact hR.steps
            rw [herr, hsteps]
            by_cases hen : s'.err.isNone = true
            · simp only [hen, if_true]
              have : s'.err = none := by simpa using hen
              exact ih _ _ _ (hRB this)
            · simp only [hen]
              exact finish_rel hRM
          · unfold exec at h5 h6
            rw [h5, h6]
            cases e <;> rfl
        · simp only [hn]
          rfl

/-- same outcome of two prologue runs, related at the first instruction boundary -/
def ProRB (P : Params) (x y : Except Exc Unit × State) : Prop :=
  match x, y with
  | (.ok _, s'), (.ok _, t') => RB P s' t'
  | (.error e, _), (.error e', _) => e = e'
  | _, _ => False

/-- **run-level simulation**: if the prologue of `Run` leaves related states, the source VM and the
    VM model return the same outcome, for every fuel -/
theorem rel_runFromG {stp₁ stp₂ : M Ctl} (hstep : RelQ (RB P) (CtlPost P) (RM P) stp₁ stp₂) (hpanic : PanicOK P)
    (fuel : Nat) (g : V) (args : List V) (s0 t0 : State)
    (hpro : ProRB P (exec (prologue g args) s0) (exec (prologue g args) t0)) :
    (runFromG stp₁ fuel g args s0).1 = (runFromG stp₂ fuel g args t0).1 := by
  unfold runFromG
  unfold exec at hpro
  rcases h1 : (prologue g args).run.run s0 with ⟨r1, s1⟩
  rcases h2 : (prologue g args).run.run t0 with ⟨r2, t1⟩
  rw [h1, h2] at hpro
  cases r1 <;> cases r2 <;> simp only [ProRB] at hpro
  · subst hpro
    rename_i e
    cases e <;> rfl
  · exact rel_go hstep hpanic fuel fuel s1 t1 hpro

end UgoVerif.VM.Reloc
