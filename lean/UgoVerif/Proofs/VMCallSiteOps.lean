import UgoVerif.Proofs.C07Ops
import UgoVerif.Proofs.C07Heap
/-
  Call-site invariant of the frame stack: every frame below the current one is suspended at
  a CALL / CALLNAME instruction of its own function (`frame.ip - 2` is the offset of that
  opcode byte), so that `OpReturn` and `throw` resume a caller right behind a call
  instruction.

  Part 1 (this file): definitions, the invariant calculus instance (`ckeeps`), the
  primitives, the three hand-proved leaves (push, pop, throw), the opcodes that do not call.
  Part 2 (`VMCallSite.lean`): CALL / CALLNAME, `dispatch`, `step`, `handlePanic`, reachability.
-/
namespace UgoVerif.VM
open UgoVerif UgoVerif.Go

/-! ### definitions -/

/-- frame `f` belongs to a heap function cell whose code has a CALL / CALLNAME opcode byte at `p`,
    and `G code p` holds (G = whatever was known at every dispatch, e.g. "p is an instruction start") -/
def CallAt (G : Code → Nat → Prop) (s : State) (f : Frame) (p : Int) : Prop :=
  ∃ fa c fr, f.fn = some fa ∧ s.heap[fa]? = some (Cell.fn c fr) ∧ 0 ≤ p ∧
    p < ((s.codes[c]!).insts.size : Int) ∧
    (((s.codes[c]!).insts[p.toNat]!).toNat = OpCall ∨ ((s.codes[c]!).insts[p.toNat]!).toNat = OpCallName) ∧
    G (s.codes[c]!) p.toNat

/-- every frame below the current one is suspended at a CALL / CALLNAME of its own function -/
def CallInv (G : Code → Nat → Prop) (s : State) : Prop :=
  ∀ i : Nat, i < s.curFrame → CallAt G s (s.frames[i]!) ((s.frames[i]!).ip - 2)

/-- the call-site invariant together with the shape of the frame stack it is stated on -/
structure CallSites (G : Code → Nat → Prop) (s : State) : Prop where
  link : (s.curFrame : Int) + 1 = s.frameIndex
  size : s.frames.size = frameSize
  lt : s.curFrame < frameSize
  inv : CallInv G s

/-- what is known when the instruction at `s.ip + 1` of the current function is dispatched -/
def DispG (G : Code → Nat → Prop) (s : State) : Prop :=
  ∀ fa c fr, (s.frames[s.curFrame]!).fn = some fa → s.heap[fa]? = some (Cell.fn c fr) →
    G (s.codes[c]!) (s.ip + 1).toNat

/-! ### the same, as functions of the fields they read -/

/-- `CallAt` as a function of the heap, the codes and the frame's function -/
@[reducible] def CallAtF (G : Code → Nat → Prop) (heap : Array Cell) (codes : Array Code)
    (fn : Option Addr) (p : Int) : Prop :=
  ∃ fa c fr, fn = some fa ∧ heap[fa]? = some (Cell.fn c fr) ∧ 0 ≤ p ∧
    p < ((codes[c]!).insts.size : Int) ∧
    (((codes[c]!).insts[p.toNat]!).toNat = OpCall ∨ ((codes[c]!).insts[p.toNat]!).toNat = OpCallName) ∧
    G (codes[c]!) p.toNat

theorem callAt_iff (G : Code → Nat → Prop) (s : State) (f : Frame) (p : Int) :
    CallAt G s f p ↔ CallAtF G s.heap s.codes f.fn p := Iff.rfl

/-- `CallSites` as a function of the fields it reads -/
@[reducible] def CSF (G : Code → Nat → Prop) (frames : Array Frame) (cur : Nat) (fi : Int)
    (heap : Array Cell) (codes : Array Code) : Prop :=
  (cur : Int) + 1 = fi ∧ frames.size = frameSize ∧ cur < frameSize ∧
    ∀ i : Nat, i < cur → CallAtF G heap codes (frames[i]!).fn ((frames[i]!).ip - 2)

theorem callSites_iff (G : Code → Nat → Prop) (s : State) :
    CallSites G s ↔ CSF G s.frames s.curFrame s.frameIndex s.heap s.codes :=
  ⟨fun h => ⟨h.link, h.size, h.lt, h.inv⟩, fun h => ⟨h.1, h.2.1, h.2.2.1, h.2.2.2⟩⟩

/-- the invariant carried through one instruction, on every path (normal end, Go panic, leaving
    the model).  `o = none`: the call-site invariant holds unless `vm.err` is set.
    `o = some p` (between the dispatch of a CALL / CALLNAME at `p` and the frame push): in
    addition `vm.ip = p` and the current function has a CALL / CALLNAME opcode byte at `p`. -/
@[reducible] def CsInv (G : Code → Nat → Prop) (o : Option Int) (s : State) : Prop :=
  (∀ p, o = some p → s.ip = p) ∧
  (s.err = none → CSF G s.frames s.curFrame s.frameIndex s.heap s.codes ∧
    ∀ p, o = some p → CallAtF G s.heap s.codes (s.frames[s.curFrame]!).fn p)

theorem callAtF_mono {G : Code → Nat → Prop} {heap heap' : Array Cell} {codes : Array Code}
    {fn : Option Addr} {p : Int}
    (hh : ∀ (a c : Nat) (f : Option (List Addr)), heap[a]? = some (Cell.fn c f) → heap'[a]? = some (Cell.fn c f))
    (h : CallAtF G heap codes fn p) : CallAtF G heap' codes fn p := by
  obtain ⟨fa, c, fr, h1, h2, h3⟩ := h
  exact ⟨fa, c, fr, h1, hh _ _ _ h2, h3⟩

/-- frame condition: an action that keeps `ip`, `err`, the frames, `curFrame`, `frameIndex`, the
    codes, and every function cell keeps the invariant -/
theorem CsInv.of_frame {G : Code → Nat → Prop} {o : Option Int} {s s' : State} (h : CsInv G o s)
    (hip : s'.ip = s.ip) (herr : s'.err = s.err) (hfr : s'.frames = s.frames)
    (hc : s'.curFrame = s.curFrame) (hfi : s'.frameIndex = s.frameIndex) (hcodes : s'.codes = s.codes)
    (hheap : ∀ (a c : Nat) (f : Option (List Addr)), s.heap[a]? = some (Cell.fn c f) → s'.heap[a]? = some (Cell.fn c f)) :
    CsInv G o s' := by
  refine ⟨by rw [hip]; exact h.1, fun he => ?_⟩
  rw [herr] at he
  obtain ⟨hcs, hca⟩ := h.2 he
  rw [hfr, hc, hfi, hcodes]
  exact ⟨⟨hcs.1, hcs.2.1, hcs.2.2.1, fun i hi => callAtF_mono hheap (hcs.2.2.2 i hi)⟩,
    fun p hp => callAtF_mono hheap (hca p hp)⟩

theorem CsInv.weaken {G : Code → Nat → Prop} {o : Option Int} {s : State} (h : CsInv G o s) : CsInv G none s :=
  ⟨fun _ hp => (nomatch hp), fun he => ⟨(h.2 he).1, fun _ hp => (nomatch hp)⟩⟩

theorem CsInv.of_err {G : Code → Nat → Prop} {s : State} (h : s.err ≠ none) : CsInv G none s :=
  ⟨fun _ hp => (nomatch hp), fun he => absurd he h⟩

/-- `CsInv G none` reads only these fields -/
theorem CsInv.congr_none {G : Code → Nat → Prop} {s s' : State} (h : CsInv G none s)
    (herr : s'.err = s.err) (hfr : s'.frames = s.frames)
    (hc : s'.curFrame = s.curFrame) (hfi : s'.frameIndex = s.frameIndex) (hcodes : s'.codes = s.codes)
    (hheap : s'.heap = s.heap) : CsInv G none s' := by
  refine ⟨fun _ hp => (nomatch hp), fun he => ?_⟩
  rw [herr] at he
  rw [hfr, hc, hfi, hcodes, hheap]
  exact h.2 he

/-! ### the calculus, instantiated -/

syntax "ck_prim" : tactic
macro_rules | `(tactic| ck_prim) => `(tactic| exact Keeps.pure _)
macro_rules | `(tactic| ck_prim) => `(tactic| exact Keeps.panic _)
macro_rules | `(tactic| ck_prim) => `(tactic| exact Keeps.unsupported _)
macro_rules | `(tactic| ck_prim) => `(tactic| exact Keeps.throw _)
macro_rules | `(tactic| ck_prim) => `(tactic| exact Keeps.getS)
macro_rules | `(tactic| ck_prim) => `(tactic| exact Keeps.get)
macro_rules | `(tactic| ck_prim) => `(tactic| exact Keeps.modS (fun _ h => h))
macro_rules | `(tactic| ck_prim) => `(tactic| keeps_hyp)

/-- structural decomposition of a `do` block for the invariant given as argument (the `keeps`
    tactic of `VMImmut`, with the invariant as a parameter) -/
syntax "ckeeps " term:max : tactic
set_option hygiene false in
macro_rules | `(tactic| ckeeps $P) => `(tactic|
  repeat (first
    | with_reducible ck_prim
    | apply Keeps.bind
    | apply Keeps.ite
    | apply Keeps.forIn_range
    | apply Keeps.forIn_list
    | ((first | lift_lets | skip); intro jp__;
       first
       | (have hjp__ : Keeps $P jp__ := by
            (dsimp only [jp__]; ckeeps $P)
          clear_value jp__)
       | (have hjp__ : ∀ a__, Keeps $P (jp__ a__) := by
            (intro a__; dsimp only [jp__]; ckeeps $P)
          clear_value jp__)
       | (have hjp__ : ∀ a__ b__, Keeps $P (jp__ a__ b__) := by
            (intro a__ b__; dsimp only [jp__]; ckeeps $P)
          clear_value jp__)
       | (have hjp__ : ∀ a__ b__ c__, Keeps $P (jp__ a__ b__ c__) := by
            (intro a__ b__ c__; dsimp only [jp__]; ckeeps $P)
          clear_value jp__)
       | clear_value jp__)
    | intro _
    | split
    | dsimp only))

set_option maxHeartbeats 1600000
section
variable {G : Code → Nat → Prop} {o : Option Int}
local notation "P" => CsInv G o
local notation "PA" => CsInv G none

/-! #### primitives that keep the invariant in both modes -/

theorem ck_stackGet (i : Int) : Keeps P (stackGet i) := by unfold stackGet; ckeeps (CsInv G o)
macro_rules | `(tactic| ck_prim) => `(tactic| exact ck_stackGet _)
theorem ck_stackSet (i : Int) (v : V) : Keeps P (stackSet i v) := by unfold stackSet; ckeeps (CsInv G o)
macro_rules | `(tactic| ck_prim) => `(tactic| exact ck_stackSet _ _)
theorem ck_getSp : Keeps P getSp := by unfold getSp; ckeeps (CsInv G o)
macro_rules | `(tactic| ck_prim) => `(tactic| exact ck_getSp)
theorem ck_setSp (v : Int) : Keeps P (setSp v) := by unfold setSp; ckeeps (CsInv G o)
macro_rules | `(tactic| ck_prim) => `(tactic| exact ck_setSp _)
theorem ck_getIp : Keeps P getIp := by unfold getIp; ckeeps (CsInv G o)
macro_rules | `(tactic| ck_prim) => `(tactic| exact ck_getIp)
theorem ck_curFrame : Keeps P curFrame := by unfold curFrame; ckeeps (CsInv G o)
macro_rules | `(tactic| ck_prim) => `(tactic| exact ck_curFrame)
theorem ck_heapGet (a : Addr) : Keeps P (heapGet a) := by unfold heapGet; ckeeps (CsInv G o)
macro_rules | `(tactic| ck_prim) => `(tactic| exact ck_heapGet _)

theorem ck_heapUpd (a : Addr) (c : Cell) (hc : c.kind ≠ 3) : Keeps P (heapUpd a c) := by
  apply Keeps.intro'; intro s h
  simp only [heapUpd, heapGet, exec_bind, exec_getS]
  cases hx : s.heap[a]? with
  | none => exact h
  | some old =>
    simp only [exec_pure]
    by_cases hk : (old.kind == c.kind) = true
    · simp only [hk, if_true]
      show CsInv G o { s with heap := s.heap.set! a c }
      refine CsInv.of_frame h rfl rfl rfl rfl rfl rfl ?_
      intro a' c' f' hs
      have hne : a ≠ a' := by
        intro e; subst e
        rw [hx] at hs
        have : old = Cell.fn c' f' := by simpa using hs
        subst this
        have h3 : (3 : Nat) = c.kind := by simpa [Cell.kind] using hk
        exact hc h3.symm
      show (s.heap.set! a c)[a']? = _
      rw [Array.set!_eq_setIfInBounds, Array.getElem?_setIfInBounds]
      simp [hne, hs]
    · simp only [hk, Bool.false_eq_true, if_false]; exact h
macro_rules | `(tactic| ck_prim) => `(tactic| exact ck_heapUpd _ _ (by simp [Cell.kind]))
theorem ck_boxSet (a : Addr) (v : V) : Keeps P (boxSet a v) := by
  apply Keeps.intro'; intro s h
  simp only [boxSet, heapGet, exec_bind, exec_getS]
  cases hx : s.heap[a]? with
  | none => exact h
  | some old =>
    simp only [exec_pure]
    cases old with
    | box w =>
      show CsInv G o { s with heap := s.heap.set! a (.box v) }
      refine CsInv.of_frame h rfl rfl rfl rfl rfl rfl ?_
      intro a' c' f' hs
      have hne : a ≠ a' := by
        intro e; subst e
        rw [hx] at hs
        cases hs
      show (s.heap.set! a (.box v))[a']? = _
      rw [Array.set!_eq_setIfInBounds, Array.getElem?_setIfInBounds]
      simp [hne, hs]
    | _ => exact h
macro_rules | `(tactic| ck_prim) => `(tactic| exact ck_boxSet _ _)
theorem ck_alloc (c : Cell) : Keeps P (alloc c) := by
  apply Keeps.intro'; intro s h
  show CsInv G o { s with heap := s.heap.push c }
  refine CsInv.of_frame h rfl rfl rfl rfl rfl rfl ?_
  intro a' c' f' hs
  show (s.heap.push c)[a']? = _
  have hlt : a' < s.heap.size := by
    rcases Nat.lt_or_ge a' s.heap.size with hl | hl
    · exact hl
    · rw [Array.getElem?_eq_none hl] at hs; cases hs
  rw [Array.getElem?_push]
  have : a' ≠ s.heap.size := Nat.ne_of_lt hlt
  simp [this, hs]
macro_rules | `(tactic| ck_prim) => `(tactic| exact ck_alloc _)
theorem ck_noteTrace (op : Nat) : Keeps P (noteTrace op) := by
  apply Keeps.intro'; intro s h
  rw [exec_noteTrace]
  split <;> exact h
macro_rules | `(tactic| ck_prim) => `(tactic| exact ck_noteTrace _)
theorem ck_copyV (v : V) : Keeps P (copyV v) := by
  apply Keeps.intro'; intro s h
  rw [exec_copyV]
  cases hx : copyVal (s.heap.size + 2) s.heap v with
  | none => exact h
  | some p =>
    obtain ⟨v', h'⟩ := p
    have hext := (UgoVerif.Proofs.Copy.copyVal_spec (s.heap.size + 2) s.heap v v' h' hx).1
    show CsInv G o { s with heap := h' }
    refine CsInv.of_frame h rfl rfl rfl rfl rfl rfl ?_
    intro a' c' f' hs
    show h'[a']? = _
    have hlt : a' < s.heap.size := by
      rcases Nat.lt_or_ge a' s.heap.size with hl | hl
      · exact hl
      · rw [Array.getElem?_eq_none hl] at hs; cases hs
    rw [hext.2 a' hlt]; exact hs
macro_rules | `(tactic| ck_prim) => `(tactic| exact ck_copyV _)

theorem ck_curCode : Keeps P (curCode) := by unfold curCode; ckeeps (CsInv G o)
macro_rules | `(tactic| ck_prim) => `(tactic| exact ck_curCode)
theorem ck_instAt (i : Int) : Keeps P (instAt i) := by unfold instAt; ckeeps (CsInv G o)
macro_rules | `(tactic| ck_prim) => `(tactic| exact ck_instAt _)
theorem ck_opnd1 (k : Int) : Keeps P (opnd1 k) := by unfold opnd1; ckeeps (CsInv G o)
macro_rules | `(tactic| ck_prim) => `(tactic| exact ck_opnd1 _)
theorem ck_opnd2 (k : Int) : Keeps P (opnd2 k) := by unfold opnd2; ckeeps (CsInv G o)
macro_rules | `(tactic| ck_prim) => `(tactic| exact ck_opnd2 _)
theorem ck_opnd4 (k : Int) : Keeps P (opnd4 k) := by unfold opnd4; ckeeps (CsInv G o)
macro_rules | `(tactic| ck_prim) => `(tactic| exact ck_opnd4 _)
theorem ck_constAt (i : Nat) : Keeps P (constAt i) := by unfold constAt; ckeeps (CsInv G o)
macro_rules | `(tactic| ck_prim) => `(tactic| exact ck_constAt _)
theorem ck_arrElems (a : Addr) (off len : Nat) : Keeps P (arrElems a off len) := by unfold arrElems; ckeeps (CsInv G o)
macro_rules | `(tactic| ck_prim) => `(tactic| exact ck_arrElems _ _ _)
theorem ck_mapEntries (a : Addr) : Keeps P (mapEntries a) := by unfold mapEntries; ckeeps (CsInv G o)
macro_rules | `(tactic| ck_prim) => `(tactic| exact ck_mapEntries _)
theorem ck_vString (v : V) : Keeps P (vString v) := by unfold vString; ckeeps (CsInv G o)
macro_rules | `(tactic| ck_prim) => `(tactic| exact ck_vString _)
theorem ck_isFalsy (v : V) : Keeps P (isFalsy v) := by unfold isFalsy; ckeeps (CsInv G o)
macro_rules | `(tactic| ck_prim) => `(tactic| exact ck_isFalsy _)
theorem ck_vEqual (F : FloatOps) (l r : V) : Keeps P (vEqual F l r) := by unfold vEqual; ckeeps (CsInv G o)
macro_rules | `(tactic| ck_prim) => `(tactic| exact ck_vEqual _ _ _)
theorem ck_vBinaryOp (F : FloatOps) (tok : Tok) (l r : V) : Keeps P (vBinaryOp F tok l r) := by unfold vBinaryOp; ckeeps (CsInv G o)
macro_rules | `(tactic| ck_prim) => `(tactic| exact ck_vBinaryOp _ _ _ _)
theorem ck_vUnary (F : FloatOps) (tok : Tok) (r : V) : Keeps P (vUnary F tok r) := by unfold vUnary; ckeeps (CsInv G o)
macro_rules | `(tactic| ck_prim) => `(tactic| exact ck_vUnary _ _ _)
theorem ck_vIndexGet (t i : V) : Keeps P (vIndexGet t i) := by unfold vIndexGet; ckeeps (CsInv G o)
macro_rules | `(tactic| ck_prim) => `(tactic| exact ck_vIndexGet _ _)
theorem ck_vIndexSet (t i v : V) : Keeps P (vIndexSet t i v) := by unfold vIndexSet; ckeeps (CsInv G o)
macro_rules | `(tactic| ck_prim) => `(tactic| exact ck_vIndexSet _ _ _)
theorem ck_mkErr (n m : String) (c : Option Addr) : Keeps P (mkErr n m c) := by unfold mkErr; ckeeps (CsInv G o)
macro_rules | `(tactic| ck_prim) => `(tactic| exact ck_mkErr _ _ _)
theorem ck_rtErrOfOpErr (e : OpErr) : Keeps P (rtErrOfOpErr e) := by unfold rtErrOfOpErr; ckeeps (CsInv G o)
macro_rules | `(tactic| ck_prim) => `(tactic| exact ck_rtErrOfOpErr _)
theorem ck_clearDown (hi lo : Int) : Keeps P (clearDown hi lo) := by unfold clearDown; ckeeps (CsInv G o)
macro_rules | `(tactic| ck_prim) => `(tactic| exact ck_clearDown _ _)
theorem ck_pushV (v : V) : Keeps P (pushV v) := by unfold pushV; ckeeps (CsInv G o)
macro_rules | `(tactic| ck_prim) => `(tactic| exact ck_pushV _)
theorem ck_jumpTarget : Keeps P (jumpTarget) := by unfold jumpTarget; ckeeps (CsInv G o)
macro_rules | `(tactic| ck_prim) => `(tactic| exact ck_jumpTarget)
theorem ck_fnCell (a : Addr) : Keeps P (fnCell a) := by unfold fnCell; ckeeps (CsInv G o)
macro_rules | `(tactic| ck_prim) => `(tactic| exact ck_fnCell _)
theorem ck_stackSlice (lo hi : Int) : Keeps P (stackSlice lo hi) := by unfold stackSlice; ckeeps (CsInv G o)
macro_rules | `(tactic| ck_prim) => `(tactic| exact ck_stackSlice _ _)
theorem ck_newArray (xs : List V) : Keeps P (newArray xs) := by unfold newArray; ckeeps (CsInv G o)
macro_rules | `(tactic| ck_prim) => `(tactic| exact ck_newArray _)
theorem ck_copyToStack (a : Int) (xs : List V) : Keeps P (copyToStack a xs) := by unfold copyToStack; ckeeps (CsInv G o)
macro_rules | `(tactic| ck_prim) => `(tactic| exact ck_copyToStack _ _)
theorem ck_throwFuel : Keeps P (throwFuel) := by unfold throwFuel; ckeeps (CsInv G o)
macro_rules | `(tactic| ck_prim) => `(tactic| exact ck_throwFuel)
theorem ck_fillUndefined (lo : Int) (n : Nat) : Keeps P (fillUndefined lo n) := by unfold fillUndefined; ckeeps (CsInv G o)
macro_rules | `(tactic| ck_prim) => `(tactic| exact ck_fillUndefined _ _)
theorem ck_copySlots (d : Int) (xs : List V) : Keeps P (copySlots d xs) := by unfold copySlots; ckeeps (CsInv G o)
macro_rules | `(tactic| ck_prim) => `(tactic| exact ck_copySlots _ _)
theorem ck_popArgs (n : Nat) : Keeps P (popArgs n) := by unfold popArgs; ckeeps (CsInv G o)
macro_rules | `(tactic| ck_prim) => `(tactic| exact ck_popArgs _)
theorem ck_bindArgs (code : Code) (bp na fl : Int) : Keeps P (bindArgs code bp na fl) := by unfold bindArgs; ckeeps (CsInv G o)
macro_rules | `(tactic| ck_prim) => `(tactic| exact ck_bindArgs _ _ _ _)
theorem ck_callBuiltin (i : Nat) (args : List V) : Keeps P (callBuiltin i args) := by unfold callBuiltin; ckeeps (CsInv G o)
macro_rules | `(tactic| ck_prim) => `(tactic| exact ck_callBuiltin _ _)

/-! #### actions that change `ip` or the current frame: the invariant without the call-site part -/

theorem ck_setIp (v : Int) : Keeps PA (setIp v) := by
  apply Keeps.intro'; intro s h
  show CsInv G none { s with ip := v }
  exact ⟨fun _ hp => (nomatch hp), h.2⟩
macro_rules | `(tactic| ck_prim) => `(tactic| exact ck_setIp _)

theorem csf_modify_ge {frames : Array Frame} {cur : Nat} {fi : Int} {heap : Array Cell} {codes : Array Code}
    (h : CSF G frames cur fi heap codes) (k : Nat) (hk : cur ≤ k) (g : Frame → Frame) :
    CSF G (frames.modify k g) cur fi heap codes := by
  refine ⟨h.1, by simpa using h.2.1, h.2.2.1, fun i hi => ?_⟩
  rw [getElem!_modify]
  have : ¬ (k = i) := by omega
  simp only [this, false_and, if_false]
  exact h.2.2.2 i hi

theorem ck_setCurFrame (g : Frame → Frame) : Keeps PA (setCurFrame g) := by
  apply Keeps.intro'; intro s h
  rw [Live.exec_setCurFrame]
  exact ⟨fun _ hp => (nomatch hp), fun he => ⟨csf_modify_ge (h.2 he).1 _ (Nat.le_refl _) g, fun _ hp => (nomatch hp)⟩⟩
macro_rules | `(tactic| ck_prim) => `(tactic| exact ck_setCurFrame _)
theorem ck_bumpIp (n : Int) : Keeps PA (bumpIp n) := by unfold bumpIp; ckeeps (CsInv G none)
macro_rules | `(tactic| ck_prim) => `(tactic| exact ck_bumpIp _)
theorem ck_clearCurrentFrame : Keeps PA (clearCurrentFrame) := by unfold clearCurrentFrame; ckeeps (CsInv G none)
macro_rules | `(tactic| ck_prim) => `(tactic| exact ck_clearCurrentFrame)
theorem ck_handlePre (err : Addr) : Keeps PA (handlePre err) := by unfold handlePre; ckeeps (CsInv G none)
macro_rules | `(tactic| ck_prim) => `(tactic| exact ck_handlePre _)


/-! ### leaf (a): the frame-pushing tail of `xOpCallCompiled` -/

/-- from `X` to `Y` on every path -/
def CsTr {α} (X Y : State → Prop) (m : M α) : Prop := ∀ s, X s → Y (exec m s).2

theorem CsTr.of_keeps {α} {X Y : State → Prop} {m : M α} (h : Keeps Y m) (w : ∀ s, X s → Y s) : CsTr X Y m :=
  fun s hs => h.elim s (w s hs)

theorem CsTr.bind_keeps {α β} {X Y : State → Prop} {m : M α} {f : α → M β} (hm : Keeps X m)
    (w : ∀ s, X s → Y s) (hf : ∀ a, CsTr X Y (f a)) : CsTr X Y (m >>= f) := by
  intro s hs
  rw [exec_bind]
  have := hm.elim s hs
  rcases h : exec m s with ⟨r, s'⟩
  rw [h] at this
  cases r with
  | ok a => exact hf a s' this
  | error e => exact w _ this

theorem CsTr.bind_then {α β} {X Y : State → Prop} {m : M α} {f : α → M β} (hm : CsTr X Y m)
    (hf : ∀ a, Keeps Y (f a)) : CsTr X Y (m >>= f) := by
  intro s hs
  rw [exec_bind]
  have := hm s hs
  rcases h : exec m s with ⟨r, s'⟩
  rw [h] at this
  cases r with
  | ok a => exact (hf a).elim s' this
  | error e => exact this

theorem CsTr.ite {α} {X Y : State → Prop} {c : Prop} [Decidable c] {a b : M α} (ha : CsTr X Y a) (hb : CsTr X Y b) :
    CsTr X Y (if c then a else b) := by split <;> assumption

/-- `getIp` returns the `ip` the precondition fixes -/
theorem CsTr.getIp_bind {β} {X Y : State → Prop} {p0 : Int} {f : Int → M β} (hip : ∀ s, X s → s.ip = p0)
    (hf : CsTr X Y (f p0)) : CsTr X Y (getIp >>= f) := by
  intro s hs
  rw [exec_bind]
  have : exec getIp s = (.ok s.ip, s) := rfl
  rw [this, hip s hs]
  exact hf s hs

theorem tr_callTail (fa : Addr) (free : Option (List Addr)) (bp p0 nl : Int) :
    CsTr (CsInv G (some p0)) PA (callTail fa free bp p0 nl) := by
  intro s h
  rw [exec_callTail]
  by_cases h1 : s.frameIndex + 1 > (frameSize : Int) - 1
  · rw [if_pos h1]; exact h.weaken
  · rw [if_neg h1]
    by_cases h2 : (decide (s.frameIndex < 0) || decide (s.frameIndex ≥ (frameSize : Int))) = true
    · rw [if_pos h2]; exact h.weaken
    · rw [if_neg h2]
      refine ⟨fun _ hp => (nomatch hp), fun he => ?_⟩
      have he' : s.err = none := he
      obtain ⟨⟨hl, hsz, hlt, hinv⟩, hca⟩ := h.2 he'
      have hca := hca p0 rfl
      simp only [Bool.or_eq_true, decide_eq_true_eq, not_or, Int.not_lt, ge_iff_le, Int.not_le] at h2
      have hk : s.frameIndex.toNat = s.curFrame + 1 := by omega
      refine ⟨⟨?_, ?_, ?_, ?_⟩, fun _ hp => (nomatch hp)⟩
      · show ((s.frameIndex.toNat : Nat) : Int) + 1 = s.frameIndex + 1
        omega
      · show ((s.frames.modify s.curFrame _).modify s.frameIndex.toNat (enterF fa free bp)).size = frameSize
        simpa using hsz
      · show s.frameIndex.toNat < frameSize
        simp only [frameSize] at h1 ⊢; omega
      · intro i hi
        have hi' : i < s.curFrame + 1 := by rw [← hk]; exact hi
        show CallAtF G s.heap s.codes
          (((s.frames.modify s.curFrame fun f => { f with ip := p0 + 2 }).modify s.frameIndex.toNat (enterF fa free bp))[i]!).fn
          ((((s.frames.modify s.curFrame fun f => { f with ip := p0 + 2 }).modify s.frameIndex.toNat (enterF fa free bp))[i]!).ip - 2)
        by_cases hic : i = s.curFrame
        · subst hic
          rw [dm_c _ _ _ _ _ (by rw [hsz]; exact hlt) (by omega)]
          show CallAtF G s.heap s.codes (s.frames[s.curFrame]!).fn (p0 + 2 - 2)
          have : p0 + 2 - 2 = p0 := by omega
          rw [this]; exact hca
        · rw [dm_other _ _ _ _ _ _ (by omega) (by omega)]
          exact hinv i (by omega)

theorem CsTr.elim {α} {X Y : State → Prop} {m : M α} (h : CsTr X Y m) (s : State) (hs : X s) : Y (exec m s).2 := h s hs
theorem CsTr.intro' {α} {X Y : State → Prop} {m : M α} (h : ∀ s, X s → Y (exec m s).2) : CsTr X Y m := h
attribute [irreducible] CsTr

/-! ### leaf (b): the frame-popping tail of `OpReturn` -/

theorem ck_retTail : Keeps PA retTail := by
  apply Keeps.intro'; intro s h
  rw [exec_retTail]
  by_cases h1 : (s.frameIndex == 1) = true
  · rw [if_pos h1]; exact h
  · rw [if_neg h1]
    have hclr : CsInv G none { s with frames := s.frames.modify s.curFrame clearF } :=
      ⟨fun _ hp => (nomatch hp), fun he => ⟨csf_modify_ge (h.2 he).1 _ (Nat.le_refl _) clearF, fun _ hp => (nomatch hp)⟩⟩
    by_cases h2 : (decide (s.frameIndex - 2 < 0) || decide (s.frameIndex - 2 ≥ (frameSize : Int))) = true
    · rw [if_pos h2]; exact hclr
    · rw [if_neg h2]
      simp only [Bool.or_eq_true, decide_eq_true_eq, not_or, Int.not_lt, ge_iff_le, Int.not_le] at h2
      have hpop : CsInv G none (popped s) := by
        refine ⟨fun _ hp => (nomatch hp), fun he => ?_⟩
        have he' : s.err = none := he
        obtain ⟨⟨hl, _, hlt, _⟩, _⟩ := h.2 he'
        obtain ⟨⟨_, hsz, _, hinv⟩, _⟩ := hclr.2 he'
        refine ⟨⟨?_, hsz, ?_, ?_⟩, fun _ hp => (nomatch hp)⟩
        · show (((s.frameIndex - 2).toNat : Nat) : Int) + 1 = s.frameIndex - 1
          omega
        · show (s.frameIndex - 2).toNat < frameSize
          simp only [frameSize] at h2 ⊢; omega
        · intro i hi
          have hi' : i < (s.frameIndex - 2).toNat := hi
          have hi2 : i < s.curFrame := by omega
          exact hinv i hi2
      cases ((s.frames.modify s.curFrame clearF)[(s.frameIndex - 2).toNat]!).fn with
      | none => exact hpop
      | some a => exact hpop
macro_rules | `(tactic| ck_prim) => `(tactic| exact ck_retTail)

theorem ck_retHead : Keeps PA retHead := by unfold retHead; ckeeps (CsInv G none)

theorem ck_execReturn : Keeps PA execReturn := by
  rw [execReturn_eq]
  exact Keeps.bind ck_retHead (fun _ => ck_retTail)
macro_rules | `(tactic| ck_prim) => `(tactic| exact ck_execReturn)

/-! ### leaf (c): `throw` -/

theorem searchFrames_noerr (n : Nat) : ∀ s : State, n ≤ frameSize →
    ∀ e s', exec (searchFrames n) s ≠ (.error e, s') := by
  induction n with
  | zero => intro s _ e s' h; rw [exec_searchFrames_zero] at h; cases h
  | succ n ih =>
    intro s hn e s'
    rw [exec_searchFrames_succ]
    have h1 : ¬ (n ≥ frameSize) := by omega
    rw [if_neg h1]
    by_cases h2 : hasHandler (s.frames[n]!) = true
    · rw [if_pos h2]; intro h; cases h
    · rw [if_neg h2]; exact ih _ (by omega) e s'

/-- `throw` up to the choice of the handling frame: unless no frame has a handler (the error is
    returned to be stored in `vm.err`) the invariant holds again — the handling frame is current,
    the frames below it are untouched -/
theorem throwPre_inv (err : Addr) (s : State) (h : PA s) (r : Except Exc (Option (Option Addr))) (s' : State)
    (e : exec (throwPre err) s = (r, s')) (hr : ∀ a, r ≠ .ok (some (some a))) : PA s' := by
  rw [exec_throwPre] at e
  by_cases hh : hasHandler (s.frames[s.curFrame]!) = true
  · rw [if_pos hh] at e
    have := (Prod.mk.inj e).2
    subst this; exact h
  · rw [if_neg hh] at e
    obtain ⟨f1, f2, f3, f4⟩ := searchFrames_facts (s.frameIndex - 1).toNat s
    rcases hx : exec (searchFrames (s.frameIndex - 1).toNat) s with ⟨r1, s1⟩
    rw [hx] at e f1 f2 f3 f4
    simp only at f1 f2 f3 f4
    refine ⟨fun _ hp => (nomatch hp), fun he => ?_⟩
    cases r1 with
    | error x =>
      simp only at e
      have es := (Prod.mk.inj e).2
      subst es
      have he' : s.err = none := by rw [f1] at he; exact he
      obtain ⟨⟨hl, hsz, hlt, hinv⟩, _⟩ := h.2 he'
      exact absurd hx (searchFrames_noerr _ s (by omega) x s1)
    | ok o' =>
      cases o' with
      | none =>
        simp only at e
        exact absurd (Prod.mk.inj e).1.symm (hr err)
      | some i =>
        simp only at e
        obtain ⟨g1, g2, g3, g4⟩ := f4 i rfl
        have key : s1.err = none → CSF G s1.frames i ((i : Int) + 1) s1.heap s1.codes := by
          intro he1
          have he' : s.err = none := by rw [f1] at he1; exact he1
          obtain ⟨⟨hl, hsz, hlt, hinv⟩, _⟩ := h.2 he'
          have hheap : s1.heap = s.heap := by rw [f1]
          have hcodes : s1.codes = s.codes := by rw [f1]
          rw [hheap, hcodes]
          refine ⟨rfl, by rw [f2]; exact hsz, g2, fun j hj => ?_⟩
          rw [g4 j (by omega)]
          exact hinv j (by omega)
        have hfr : (toFrame s1 i).frames[i]! = s1.frames[i]! := rfl
        rw [hfr] at e
        cases hfn : (s1.frames[i]!).fn with
        | none =>
          rw [hfn] at e
          have es := (Prod.mk.inj e).2
          subst es
          exact ⟨key he, fun _ hp => (nomatch hp)⟩
        | some a =>
          rw [hfn] at e
          have es := (Prod.mk.inj e).2
          subst es
          exact ⟨key he, fun _ hp => (nomatch hp)⟩

/-- an action returning `some _` only when the thrown error was taken by no handler; on every
    other path the invariant is kept -/
def ThrowOK (G : Code → Nat → Prop) {α} (m : M (Option α)) : Prop :=
  ∀ s, CsInv G none s → ∀ r s', exec m s = (r, s') → (∀ a, r ≠ .ok (some a)) → CsInv G none s'

theorem throwOK_handleK {k : M (Option Addr)} (hk : ThrowOK G k) (err : Addr) : ThrowOK G (handleK k err) := by
  intro s h r s' e hr
  unfold handleK at e
  rw [exec_bind] at e
  have h1 := (ck_handlePre (G := G) err).elim s h
  rcases hx : exec (handlePre err) s with ⟨r1, s1⟩
  rw [hx] at e h1
  cases r1 with
  | error x => simp only at e; have := (Prod.mk.inj e).2; subst this; exact h1
  | ok o' =>
    cases o' with
    | some r2 => simp only [exec_pure] at e; have := (Prod.mk.inj e).2; subst this; exact h1
    | none => simp only at e; exact hk s1 h1 r s' e hr

theorem throwOK_throwK {k : M (Option Addr)} (hk : ThrowOK G k) (err : Addr) : ThrowOK G (throwK k err) := by
  intro s h r s' e hr
  unfold throwK at e
  rw [exec_bind] at e
  rcases hx : exec (throwPre err) s with ⟨r1, s1⟩
  rw [hx] at e
  cases r1 with
  | error x =>
    simp only at e
    have e2 := (Prod.mk.inj e).2; subst e2
    exact throwPre_inv err s h _ _ hx (fun a hc => by cases hc)
  | ok o' =>
    cases o' with
    | some r2 =>
      simp only [exec_pure] at e
      have e1 := (Prod.mk.inj e).1
      have e2 := (Prod.mk.inj e).2; subst e2
      cases r2 with
      | none => exact throwPre_inv err s h _ _ hx (fun a hc => by cases hc)
      | some a => exact absurd e1.symm (hr a)
    | none =>
      simp only at e
      have h1 := throwPre_inv err s h _ _ hx (fun a hc => by cases hc)
      exact throwOK_handleK hk err s1 h1 r s' e hr

theorem throwOK_throwF (fuel : Nat) : ∀ err, ThrowOK G (throwF fuel err) := by
  induction fuel with
  | zero =>
    intro err s h r s' e hr
    rw [throwF] at e
    have := (Prod.mk.inj e).2; subst this; exact h
  | succ n ih => intro err; rw [throwF_succ]; exact throwOK_throwK (ih err) err

/-- a continuation of `throw` that stores the unhandled error in `vm.err` -/
theorem ck_throwF_bind {β} (fuel : Nat) (err : Addr) (f : Option Addr → M β) (h0 : Keeps PA (f none))
    (h1 : ∀ a s, PA (exec (f (some a)) s).2) : Keeps PA (throwF fuel err >>= f) := by
  apply Keeps.intro'; intro s h
  rw [exec_bind]
  have ht := throwOK_throwF (G := G) fuel err s h
  rcases hx : exec (throwF fuel err) s with ⟨r, s1⟩
  have ht := ht r s1 hx
  cases r with
  | error x => exact ht (fun a hc => by cases hc)
  | ok o' =>
    cases o' with
    | none => exact h0.elim s1 (ht (fun a hc => by cases hc))
    | some a => exact h1 a s1

theorem ck_failWith (e : OpErr) : Keeps PA (failWith e) := by
  unfold failWith throwGenErr
  simp only [bind_assoc]
  refine Keeps.bind (ck_rtErrOfOpErr e) (fun ra => Keeps.bind ck_throwFuel (fun n => ?_))
  refine ck_throwF_bind n ra _ ?_ ?_
  · simp only [pure_bind]; exact Keeps.pure _
  · intro a s
    simp only [pure_bind, exec_bind, exec_modS, exec_pure]
    exact CsInv.of_err (fun hc => by cases hc)
macro_rules | `(tactic| ck_prim) => `(tactic| exact ck_failWith _)

end

/-! ### the opcodes that neither push nor pop a frame -/

section
variable {G : Code → Nat → Prop}
local notation "PA" => CsInv G none

theorem ck_setErr (f : State → State) (hf : ∀ s, (f s).err ≠ none) : Keeps PA (modS f) :=
  Keeps.modS (fun s _ => CsInv.of_err (hf s))
macro_rules | `(tactic| ck_prim) => `(tactic| exact ck_setErr _ (fun _ hc => by cases hc))

/-- `throw` followed by "store the unhandled error in `vm.err`" -/
macro_rules | `(tactic| ck_prim) => `(tactic|
  refine ck_throwF_bind _ _ _ ?_
    (by intro a s; simp only [exec_bind, exec_modS, exec_pure]; exact CsInv.of_err (fun hc => by cases hc)))

theorem ck_callObject (c : V) (na fl : Int) : Keeps PA (callObject c na fl) := by unfold callObject; ckeeps (CsInv G none)
macro_rules | `(tactic| ck_prim) => `(tactic| exact ck_callObject _ _ _)
theorem ck_findFinally (fuel : Nat) : ∀ upto, Keeps PA (findFinally fuel upto) := by
  induction fuel with
  | zero => intro u; unfold findFinally; ckeeps (CsInv G none)
  | succ n ih => intro u; have ih' := ih u; unfold findFinally; ckeeps (CsInv G none)
macro_rules | `(tactic| ck_prim) => `(tactic| exact ck_findFinally _ _)
theorem ck_execConstant : Keeps PA (execConstant) := by unfold execConstant; ckeeps (CsInv G none)
macro_rules | `(tactic| ck_prim) => `(tactic| exact ck_execConstant)
theorem ck_execGetLocal : Keeps PA (execGetLocal) := by unfold execGetLocal; ckeeps (CsInv G none)
macro_rules | `(tactic| ck_prim) => `(tactic| exact ck_execGetLocal)
theorem ck_execSetLocal : Keeps PA (execSetLocal) := by unfold execSetLocal; ckeeps (CsInv G none)
macro_rules | `(tactic| ck_prim) => `(tactic| exact ck_execSetLocal)
theorem ck_execAndJump : Keeps PA (execAndJump) := by unfold execAndJump; ckeeps (CsInv G none)
macro_rules | `(tactic| ck_prim) => `(tactic| exact ck_execAndJump)
theorem ck_execOrJump : Keeps PA (execOrJump) := by unfold execOrJump; ckeeps (CsInv G none)
macro_rules | `(tactic| ck_prim) => `(tactic| exact ck_execOrJump)
theorem ck_execTrue : Keeps PA (execTrue) := by unfold execTrue; ckeeps (CsInv G none)
macro_rules | `(tactic| ck_prim) => `(tactic| exact ck_execTrue)
theorem ck_execFalse : Keeps PA (execFalse) := by unfold execFalse; ckeeps (CsInv G none)
macro_rules | `(tactic| ck_prim) => `(tactic| exact ck_execFalse)
theorem ck_execGetBuiltin : Keeps PA (execGetBuiltin) := by unfold execGetBuiltin; ckeeps (CsInv G none)
macro_rules | `(tactic| ck_prim) => `(tactic| exact ck_execGetBuiltin)
theorem ck_execClosure : Keeps PA (execClosure) := by unfold execClosure; ckeeps (CsInv G none)
macro_rules | `(tactic| ck_prim) => `(tactic| exact ck_execClosure)
theorem ck_execJump : Keeps PA (execJump) := by unfold execJump; ckeeps (CsInv G none)
macro_rules | `(tactic| ck_prim) => `(tactic| exact ck_execJump)
theorem ck_execJumpFalsy : Keeps PA (execJumpFalsy) := by unfold execJumpFalsy; ckeeps (CsInv G none)
macro_rules | `(tactic| ck_prim) => `(tactic| exact ck_execJumpFalsy)
theorem ck_execGetGlobal : Keeps PA (execGetGlobal) := by unfold execGetGlobal; ckeeps (CsInv G none)
macro_rules | `(tactic| ck_prim) => `(tactic| exact ck_execGetGlobal)
theorem ck_execSetGlobal : Keeps PA (execSetGlobal) := by unfold execSetGlobal; ckeeps (CsInv G none)
macro_rules | `(tactic| ck_prim) => `(tactic| exact ck_execSetGlobal)
theorem ck_execArray : Keeps PA (execArray) := by unfold execArray; ckeeps (CsInv G none)
macro_rules | `(tactic| ck_prim) => `(tactic| exact ck_execArray)
theorem ck_execMap : Keeps PA (execMap) := by unfold execMap; ckeeps (CsInv G none)
macro_rules | `(tactic| ck_prim) => `(tactic| exact ck_execMap)
theorem ck_execGetIndex : Keeps PA (execGetIndex) := by unfold execGetIndex; ckeeps (CsInv G none)
macro_rules | `(tactic| ck_prim) => `(tactic| exact ck_execGetIndex)
theorem ck_execSetIndex : Keeps PA (execSetIndex) := by unfold execSetIndex; ckeeps (CsInv G none)
macro_rules | `(tactic| ck_prim) => `(tactic| exact ck_execSetIndex)
theorem ck_execSliceIndex : Keeps PA (execSliceIndex) := by unfold execSliceIndex; ckeeps (CsInv G none)
macro_rules | `(tactic| ck_prim) => `(tactic| exact ck_execSliceIndex)
theorem ck_execGetFree : Keeps PA (execGetFree) := by unfold execGetFree; ckeeps (CsInv G none)
macro_rules | `(tactic| ck_prim) => `(tactic| exact ck_execGetFree)
theorem ck_execSetFree : Keeps PA (execSetFree) := by unfold execSetFree; ckeeps (CsInv G none)
macro_rules | `(tactic| ck_prim) => `(tactic| exact ck_execSetFree)
theorem ck_execGetLocalPtr : Keeps PA (execGetLocalPtr) := by unfold execGetLocalPtr; ckeeps (CsInv G none)
macro_rules | `(tactic| ck_prim) => `(tactic| exact ck_execGetLocalPtr)
theorem ck_execGetFreePtr : Keeps PA (execGetFreePtr) := by unfold execGetFreePtr; ckeeps (CsInv G none)
macro_rules | `(tactic| ck_prim) => `(tactic| exact ck_execGetFreePtr)
theorem ck_execDefineLocal : Keeps PA (execDefineLocal) := by unfold execDefineLocal; ckeeps (CsInv G none)
macro_rules | `(tactic| ck_prim) => `(tactic| exact ck_execDefineLocal)
theorem ck_execNull : Keeps PA (execNull) := by unfold execNull; ckeeps (CsInv G none)
macro_rules | `(tactic| ck_prim) => `(tactic| exact ck_execNull)
theorem ck_execPop : Keeps PA (execPop) := by unfold execPop; ckeeps (CsInv G none)
macro_rules | `(tactic| ck_prim) => `(tactic| exact ck_execPop)
theorem ck_execIterInit : Keeps PA (execIterInit) := by unfold execIterInit; ckeeps (CsInv G none)
macro_rules | `(tactic| ck_prim) => `(tactic| exact ck_execIterInit)
theorem ck_execLoadModule : Keeps PA (execLoadModule) := by unfold execLoadModule; ckeeps (CsInv G none)
macro_rules | `(tactic| ck_prim) => `(tactic| exact ck_execLoadModule)
theorem ck_execStoreModule : Keeps PA (execStoreModule) := by unfold execStoreModule; ckeeps (CsInv G none)
macro_rules | `(tactic| ck_prim) => `(tactic| exact ck_execStoreModule)
theorem ck_execSetupTry : Keeps PA (execSetupTry) := by unfold execSetupTry; ckeeps (CsInv G none)
macro_rules | `(tactic| ck_prim) => `(tactic| exact ck_execSetupTry)
theorem ck_execSetupCatch : Keeps PA (execSetupCatch) := by unfold execSetupCatch; ckeeps (CsInv G none)
macro_rules | `(tactic| ck_prim) => `(tactic| exact ck_execSetupCatch)
theorem ck_execSetupFinally : Keeps PA (execSetupFinally) := by unfold execSetupFinally; ckeeps (CsInv G none)
macro_rules | `(tactic| ck_prim) => `(tactic| exact ck_execSetupFinally)
theorem ck_execThrow : Keeps PA (execThrow) := by unfold execThrow; ckeeps (CsInv G none)
macro_rules | `(tactic| ck_prim) => `(tactic| exact ck_execThrow)
theorem ck_execFinalizer : Keeps PA (execFinalizer) := by unfold execFinalizer; ckeeps (CsInv G none)
macro_rules | `(tactic| ck_prim) => `(tactic| exact ck_execFinalizer)
theorem ck_execNoOp : Keeps PA (execNoOp) := by unfold execNoOp; ckeeps (CsInv G none)
macro_rules | `(tactic| ck_prim) => `(tactic| exact ck_execNoOp)
theorem ck_execBinaryOp (F : FloatOps) : Keeps PA (execBinaryOp F) := by unfold execBinaryOp; ckeeps (CsInv G none)
macro_rules | `(tactic| ck_prim) => `(tactic| exact ck_execBinaryOp _)
theorem ck_execUnary (F : FloatOps) : Keeps PA (execUnary F) := by unfold execUnary; ckeeps (CsInv G none)
macro_rules | `(tactic| ck_prim) => `(tactic| exact ck_execUnary _)
theorem ck_execEqual (F : FloatOps) (op : Nat) : Keeps PA (execEqual F op) := by unfold execEqual; ckeeps (CsInv G none)
macro_rules | `(tactic| ck_prim) => `(tactic| exact ck_execEqual _ _)
theorem ck_execIterNext (op : Nat) : Keeps PA (execIterNext op) := by unfold execIterNext; ckeeps (CsInv G none)
macro_rules | `(tactic| ck_prim) => `(tactic| exact ck_execIterNext _)
theorem ck_execUnknown (op : Nat) : Keeps PA (execUnknown op) := by unfold execUnknown; ckeeps (CsInv G none)
macro_rules | `(tactic| ck_prim) => `(tactic| exact ck_execUnknown _)

end
end UgoVerif.VM
