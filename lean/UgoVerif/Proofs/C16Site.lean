import UgoVerif.Proofs.C16Bridge
import UgoVerif.Proofs.VMCallSite
/-
  C16: what `throw` reads off a VM state, and what it finds there when the code memory holds
  compiler output (`FnCov`) and the frame stack satisfies the call-site invariant (`CallSites`).
-/
namespace UgoVerif.Proofs.C16
open UgoVerif UgoVerif.Go UgoVerif.Model UgoVerif.Compile UgoVerif.VM UgoVerif.Eval

/-- `G` of the call-site invariant: the offset is an instruction start of the code -/
abbrev AtStart : Code → Nat → Prop := fun code p => Bd code.insts p

/-- code number of the function of a frame (`frame.fn`, a `*CompiledFunction` on the heap) -/
def codeIdx (s : State) (f : Frame) : Option Nat :=
  match f.fn with
  | some fa => match s.heap[fa]? with
    | some (.fn c _) => some c
    | _ => none
  | none => none

/-- the compile-model function a frame runs, when the code memory is `fns.map codeOfCFn` -/
def frameFn (fns : List CFn) (s : State) (f : Frame) : Option CFn := (codeIdx s f).bind (fns[·]?)

/-- the frame as `throw` / `getFrameSourcePos` see it -/
def tframeOf (fns : List CFn) (s : State) (f : Frame) : TFrame :=
  { fn := (frameFn fns s f).map smOf, ip := f.ip, hasHandler := hasHandler f }

/-- the frames below the current one, innermost first (`index := frameIndex - 2 … 0`) -/
def callersOf (fns : List CFn) (s : State) : List TFrame :=
  (List.range s.curFrame).reverse.map fun i => tframeOf fns s (s.frames[i]!)

/-- the position the compiler recorded for the instruction at offset `k` of the frame's function -/
def recorded (fns : List CFn) (s : State) (f : Frame) (k : Int) : Int :=
  match frameFn fns s f with
  | some g => (((smGet g.sourceMap k.toNat).getD 0 : Nat) : Int)
  | none => 0

theorem code_of_fns {fns : List CFn} {s : State} (hcodes : s.codes.toList = fns.map codeOfCFn) {c : Nat}
    (hne : (s.codes[c]!).insts.size ≠ 0) : ∃ g, fns[c]? = some g ∧ g ∈ fns ∧ s.codes[c]! = codeOfCFn g := by
  have hc : c < s.codes.size := by
    rcases Nat.lt_or_ge c s.codes.size with h | h
    · exact h
    · exfalso; apply hne
      rw [getElem!_neg s.codes c (by omega)]
      rfl
  have h1 : s.codes.toList[c]? = some (s.codes[c]!) := by
    rw [Array.getElem?_toList, getElem!_pos s.codes c hc]
    simp [hc]
  rw [hcodes, List.getElem?_map] at h1
  cases hg : fns[c]? with
  | none => rw [hg] at h1; cases h1
  | some g =>
    rw [hg] at h1
    simp only [Option.map_some, Option.some.injEq] at h1
    exact ⟨g, rfl, List.mem_of_getElem? hg, h1.symm⟩

/-- **a caller frame reports the line of its call**: the frame is suspended at a CALL / CALLNAME
    whose opcode byte is at the instruction start `p = frame.ip - 2`; `getFrameSourcePos` looks
    `frame.ip + 1 = p + 3` up, which is the start of the next instruction and has its own entry,
    and that entry carries the label of the entry recorded for the call instruction. -/
theorem caller_reports (lab : Nat → Nat) {fns : List CFn} {s : State} (hcodes : s.codes.toList = fns.map codeOfCFn)
    (hcov : ∀ g ∈ fns, FnCov lab g) {f : Frame} (hc : CallAt AtStart s f (f.ip - 2)) :
    ∃ g v v', frameFn fns s f = some g ∧ smGet g.sourceMap (f.ip - 2).toNat = some v ∧
      smGet g.sourceMap (f.ip + 1).toNat = some v' ∧ lab v = lab v' ∧
      getFrameSourcePos (tframeOf fns s f) = (v' : Int) := by
  obtain ⟨fa, c, fr, hfn, hheap, h0, hlt, hop, hbd⟩ := hc
  obtain ⟨g, hg, hmem, hcode⟩ := code_of_fns hcodes (c := c) (by omega)
  have hidx : codeIdx s f = some c := by simp [codeIdx, hfn, hheap]
  have hff : frameFn fns s f = some g := by simp [frameFn, hidx, hg]
  have hins : (s.codes[c]!).insts = g.insts := by rw [hcode]; rfl
  rw [hins] at hlt hop
  have hbd' : Bd g.insts (f.ip - 2).toNat := by
    have : Bd (s.codes[c]!).insts (f.ip - 2).toNat := hbd
    rwa [hins] at this
  have hps : (f.ip - 2).toNat < g.insts.size := by omega
  have hcall : isCallAt g.insts (f.ip - 2).toNat = true := by
    have hget : g.insts[(f.ip - 2).toNat]? = some (g.insts[(f.ip - 2).toNat]!) := by
      rw [getElem!_pos g.insts _ hps]; simp [hps]
    simp only [isCallAt, hget]
    rcases hop with h | h <;> simp [h, Compile.OpCall, Compile.OpCallName, VM.OpCall, VM.OpCallName] at *
  obtain ⟨_, v, v', hv, hv', hlab⟩ := (hcov g hmem).call _ hbd' hcall
  have he : (f.ip - 2).toNat + 3 = (f.ip + 1).toNat := by omega
  rw [he] at hv'
  refine ⟨g, v, v', hff, hv, hv', hlab, ?_⟩
  simp only [getFrameSourcePos, tframeOf, hff, Option.map_some]
  have hk : (((f.ip + 1).toNat : Nat) : Int) = f.ip + 1 := by omega
  rw [← hk]
  exact sourcePos_entry g _ _ hv'

/-- **the failing instruction reports its own entry** -/
theorem current_reports (lab : Nat → Nat) {fns : List CFn} {s : State} (hcodes : s.codes.toList = fns.map codeOfCFn)
    (hcov : ∀ g ∈ fns, FnCov lab g) {f : Frame} {fa c : Nat} {fr : Option (List Addr)} (hfn : f.fn = some fa)
    (hheap : s.heap[fa]? = some (Cell.fn c fr)) (h0 : 0 ≤ s.ip) (hbd : Bd (s.codes[c]!).insts s.ip.toNat) :
    ∃ g v, frameFn fns s f = some g ∧ smGet g.sourceMap s.ip.toNat = some v ∧
      getSourcePos ((frameFn fns s f).map smOf) s.ip = (v : Int) := by
  obtain ⟨g, hg, hmem, hcode⟩ := code_of_fns hcodes (c := c) (by have := hbd.2; omega)
  have hidx : codeIdx s f = some c := by simp [codeIdx, hfn, hheap]
  have hff : frameFn fns s f = some g := by simp [frameFn, hidx, hg]
  have hins : (s.codes[c]!).insts = g.insts := by rw [hcode]; rfl
  rw [hins] at hbd
  obtain ⟨v, hv⟩ := (hcov g hmem).entry _ hbd
  refine ⟨g, v, hff, hv, ?_⟩
  simp only [getSourcePos, hff, Option.map_some]
  have hk : ((s.ip.toNat : Nat) : Int) = s.ip := by omega
  rw [← hk]
  exact sourcePos_entry g _ _ hv

/-- the code memory is the same at every instruction boundary of a run -/
theorem boundary_codes (F : FloatOps) {s0 s : State} (hb : Boundary F s0 s) : s.codes = s0.codes := by
  induction hb with
  | init => rfl
  | step hb hstep ih =>
    have := (keeps_step (codes := s0.codes) (consts := _) (mainFn := _) (nm := _) F).elim _ ⟨ih, rfl, rfl, rfl⟩
    rw [hstep] at this
    exact this.1
  | @recover s s1 s' msg hb hstep hp he ih =>
    have h1 := (keeps_step (codes := s0.codes) (consts := _) (mainFn := _) (nm := _) F).elim _ ⟨ih, rfl, rfl, rfl⟩
    rw [hstep] at h1
    have h2 := (keeps_handlePanic (codes := s0.codes) (consts := _) (mainFn := _) (nm := _) msg).elim _ ⟨h1.1, rfl, rfl, rfl⟩
    rw [hp] at h2
    exact h2.1

theorem prologue_codes (g : V) (args : List V) (s : State) : (exec (prologue g args) s).2.codes = s.codes :=
  ((keeps_prologue (codes := s.codes) (consts := _) (mainFn := _) (nm := _) g args).elim s ⟨rfl, rfl, rfl, rfl⟩).1

end UgoVerif.Proofs.C16
