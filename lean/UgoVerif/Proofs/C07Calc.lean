import UgoVerif.VM.Reset
/-
  Running an `M` action on a state, rewriting rules for the monad structure, and the
  invariant calculus `Keeps P m` ("m preserves the state predicate P, whether it ends
  normally, with a Go panic or outside the model").
-/
namespace UgoVerif.VM
open UgoVerif UgoVerif.Go

/-- run an action: result (or abnormal end) and the state it leaves -/
def exec {α} (m : M α) (s : State) : Except Exc α × State := m.run.run s

@[simp] theorem exec_pure {α} (a : α) (s : State) : exec (pure a : M α) s = (.ok a, s) := rfl

theorem exec_bind {α β} (m : M α) (f : α → M β) (s : State) :
    exec (m >>= f) s = match exec m s with
      | (.ok a, s') => exec (f a) s'
      | (.error e, s') => (.error e, s') := by
  simp only [exec, ExceptT.run_bind, StateT.run_bind]
  show (match (m.run.run s) with | (r, s') => _) = _
  rcases h : m.run.run s with ⟨r, s'⟩
  cases r <;> simp <;> rfl

theorem exec_map {α β} (f : α → β) (m : M α) (s : State) :
    exec (f <$> m) s = match exec m s with
      | (.ok a, s') => (.ok (f a), s')
      | (.error e, s') => (.error e, s') := by
  rw [map_eq_pure_bind, exec_bind]
  rcases exec m s with ⟨r, s'⟩
  cases r <;> rfl

@[simp] theorem exec_getS (s : State) : exec getS s = (.ok s, s) := rfl
@[simp] theorem exec_get (s : State) : exec (get : M State) s = (.ok s, s) := rfl
@[simp] theorem exec_modS (f : State → State) (s : State) : exec (modS f) s = (.ok (), f s) := rfl
@[simp] theorem exec_set (s' s : State) : exec (set s' : M Unit) s = (.ok (), s') := rfl
@[simp] theorem exec_throw {α} (e : Exc) (s : State) : exec (throw e : M α) s = (.error e, s) := rfl
@[simp] theorem exec_panic {α} (m : String) (s : State) : exec (panic m : M α) s = (.error (.panic m), s) := rfl
@[simp] theorem exec_unsupported {α} (m : String) (s : State) :
    exec (unsupported m : M α) s = (.error (.unsupported m), s) := rfl

/-- `m` preserves `P` on every path -/
def Keeps {α} (P : State → Prop) (m : M α) : Prop := ∀ s, P s → P (exec m s).2

namespace Keeps
variable {P : State → Prop}

theorem pure {α} (a : α) : Keeps P (Pure.pure a : M α) := fun _ h => h
theorem throw {α} (e : Exc) : Keeps P (MonadExcept.throw e : M α) := fun _ h => h
theorem panic {α} (m : String) : Keeps P (VM.panic m : M α) := fun _ h => h
theorem unsupported {α} (m : String) : Keeps P (VM.unsupported m : M α) := fun _ h => h
theorem getS : Keeps P VM.getS := fun _ h => h
theorem get : Keeps P (MonadState.get : M State) := fun _ h => h

theorem bind {α β} {m : M α} {f : α → M β} (hm : Keeps P m) (hf : ∀ a, Keeps P (f a)) :
    Keeps P (m >>= f) := by
  intro s hs
  rw [exec_bind]
  have := hm s hs
  rcases h : exec m s with ⟨r, s'⟩
  rw [h] at this
  cases r with
  | ok a => exact hf a s' this
  | error e => exact this

theorem modS {f : State → State} (hf : ∀ s, P s → P (f s)) : Keeps P (VM.modS f) := fun s h => hf s h
theorem set' {s' : State} (h : P s') : Keeps P (MonadStateOf.set s' : M Unit) := fun _ _ => h

theorem ite {α} {c : Prop} [Decidable c] {a b : M α} (ha : Keeps P a) (hb : Keeps P b) :
    Keeps P (if c then a else b) := by split <;> assumption

theorem forIn_list {α β} (l : List α) (init : β) (f : α → β → M (ForInStep β))
    (hf : ∀ a b, Keeps P (f a b)) : Keeps P (forIn l init f) := by
  induction l generalizing init with
  | nil => exact Keeps.pure _
  | cons a as ih =>
    rw [List.forIn_cons]
    refine Keeps.bind (hf a init) ?_
    intro x
    cases x with
    | done b => exact Keeps.pure _
    | yield b => exact ih b

theorem forIn_range {β} (r : Std.Legacy.Range) (init : β) (f : Nat → β → M (ForInStep β))
    (hf : ∀ a b, Keeps P (f a b)) : Keeps P (forIn r init f) := by
  rw [Std.Legacy.Range.forIn_eq_forIn_range']
  exact forIn_list _ _ _ hf

theorem elim {α} {m : M α} (h : Keeps P m) (s : State) (hs : P s) : P (exec m s).2 := h s hs
theorem intro' {α} {m : M α} (h : ∀ s, P s → P (exec m s).2) : Keeps P m := h

end Keeps
attribute [irreducible] Keeps
end UgoVerif.VM
