import UgoVerif.Model.Eval
import UgoVerif.Proofs.CompileMonoMain
/-
  C10: a whole `compileSession` (Model/Eval.lean) extends the session's root table and only
  appends to the constant pool, whether the compile succeeds or fails.
-/
namespace UgoVerif.Proofs.EvalMono
open UgoVerif UgoVerif.Go UgoVerif.Ast UgoVerif.Compile UgoVerif.Eval

/-- with no pending global in the head table `SetGlobalSymbolsIndex` does nothing -/
theorem forIn_noPending (s : CState) : ∀ (l : List (String × Symbol)),
    (∀ p ∈ l, p.2.scope = .global → p.2.index ≠ -1) →
    runCM (forIn l PUnit.unit fun x (_ : PUnit) =>
      match x with
      | (n, sym) =>
        if (sym.scope == Scope.global && sym.index == -1) = true then do
          let idx ← addConstant (CVal.str sym.name.toUTF8.toList)
          updateSym n fun y => { y with index := (idx : Int) }
          pure (ForInStep.yield PUnit.unit)
        else (pure (ForInStep.yield PUnit.unit) : CM (ForInStep PUnit))) s = (.ok PUnit.unit, s)
  | [], _ => by simp [runCM_pure]
  | (n, sym) :: rest, h => by
    have hc : ¬ ((sym.scope == Scope.global && sym.index == -1) = true) := by
      intro hc
      simp only [Bool.and_eq_true, beq_iff_eq] at hc
      exact h (n, sym) (by simp) hc.1 hc.2
    simp only [List.forIn_cons, hc, Bool.false_eq_true, if_false]
    rw [runCM_bind, runCM_pure]
    exact forIn_noPending s rest (fun p hp => h p (by simp [hp]))

theorem runCM_setGlobalSymbolsIndex {s : CState} {t : Table} {r : List Table} (htr : s.tables = t :: r) (hp : NoPending t) :
    runCM setGlobalSymbolsIndex s = (.ok (), s) := by
  unfold setGlobalSymbolsIndex
  rw [runCM_bind, runCM_headTable htr]
  simp only
  rw [runCM_bind, forIn_noPending s t.store hp]
  rfl

theorem size_maskFns (cs : Array Const) : (maskFns cs).size = cs.size := by simp [maskFns]

theorem unmask_append (cs ext : Array Const) : unmaskFns cs (maskFns cs ++ ext) = cs ++ ext := by
  unfold unmaskFns
  congr 1
  have h := size_maskFns cs
  apply Array.ext'
  simp [Array.toList_extract, h]

/-- the outcome of `compileSession` in terms of the run of its program -/
theorem compileSession_spec (bs : List (String × Nat)) (t : Table) (cs : Array Const) (file : List Stmt)
    (hp : NoPending t) :
    RootExt t (compileSession bs t cs file).table ∧
    (∀ bc, (compileSession bs t cs file).result = .ok bc → IsPre cs bc.constants) := by
  let init : CState := { tables := [t], constants := maskFns cs, builtins := bs }
  have hinit : init.tables ≠ [] := by simp [init]
  -- the program after `setGlobalSymbolsIndex`
  let rest : CM Bytecode := do
    compileStmts file
    let fn ← finishFn
    if fn.numLocals > maxNumLocals then throw (.bare "SymbolLimitError: number of local symbols exceeds the limit")
    else pure { main := fn, constants := unmaskFns cs (← get).constants }
  have hrest : SatX rest init (fun bc s' => Ext init s' ∧ bc.constants = unmaskFns cs s'.constants) := by
    apply satx_seq (mono_compileStmts file) hinit
    intro _ s1 _ he1 _
    apply satx_seq (Frame.mono frame_finishFn) he1.ne
    intro fn s2 _ he2 _
    split
    · exact SatX.throw (ne_of_len ‹_› he1.ne)
    · apply SatX.bind
      apply SatX.of_run (runCM_get s2)
      refine ⟨Ext.refl (ne_of_len ‹_› he1.ne), ?_⟩
      exact SatX.pure ⟨he1.trans he2, rfl⟩
  have hrun : runCM (do
      setGlobalSymbolsIndex
      compileStmts file
      let fn ← finishFn
      if fn.numLocals > maxNumLocals then throw (.bare "SymbolLimitError: number of local symbols exceeds the limit")
      pure { main := fn, constants := unmaskFns cs (← get).constants } : CM Bytecode) init = runCM rest init := by
    rw [runCM_bind, runCM_setGlobalSymbolsIndex (s := init) (t := t) (r := []) rfl hp]
    rfl
  have hE : Ext init (runCM rest init).2 ∧
      ∀ bc, (runCM rest init).1 = .ok bc → bc.constants = unmaskFns cs (runCM rest init).2.constants := by
    unfold SatX at hrest
    cases hr : runCM rest init with
    | mk r s' =>
      rw [hr] at hrest
      cases r with
      | ok bc => exact ⟨hrest.1, fun bc' h => by injection h with h; subst h; exact hrest.2⟩
      | error e => exact ⟨hrest, fun bc' h => by cases h⟩
  have hout : compileSession bs t cs file =
      { result := (runCM rest init).1, table := ((runCM rest init).2.tables.getLast?).getD t } := by
    unfold compileSession
    simp only
    show _ = _
    have : (StateT.run (ExceptT.run (do
      setGlobalSymbolsIndex
      compileStmts file
      let fn ← finishFn
      if fn.numLocals > maxNumLocals then throw (.bare "SymbolLimitError: number of local symbols exceeds the limit")
      pure { main := fn, constants := unmaskFns cs (← get).constants } : CM Bytecode)) init) = runCM rest init := hrun
    rw [this]
  rw [hout]
  obtain ⟨he, hc⟩ := hE
  constructor
  · have hroot := he.root
    have hne := he.ne
    simp only
    have hl : ((runCM rest init).2.tables.getLast?).getD t = rootOf (runCM rest init).2.tables := by
      unfold rootOf
      cases hg : (runCM rest init).2.tables.getLast? with
      | none => exact absurd (List.getLast?_eq_none_iff.mp hg) hne
      | some x => rfl
    rw [hl]
    simpa [init] using hroot
  · intro bc hbc
    have := hc bc hbc
    obtain ⟨ext, hext⟩ := he.consts
    rw [this, hext]
    exact ⟨ext, unmask_append cs ext⟩

end UgoVerif.Proofs.EvalMono
