import UgoVerif.Proofs.ShiftTac
/-
  C14, `frame_shift`: the error-throwing machinery (`searchFrames`, `throw` / `handleThrownError`,
  `failWith`) under the offset relation `Sh`.  A handler found in the invoked function's frame or in a
  frame above it is taken on both sides; when there is none the child's `throw` returns the error and
  the parent goes on searching the frames below frame `k` (`ThrowQ`, second case).
-/
set_option linter.unusedSimpArgs false
set_option linter.unusedVariables false
namespace UgoVerif.Proofs.Shift
open UgoVerif UgoVerif.Go UgoVerif.VM

/-! ### handler stacks -/

theorem HsSh.cases {bp H : Nat} {l l' : Option (List Handler)} (x : HsSh bp H l l') :
    (l = none ∧ l' = none) ∨ (l = some [] ∧ l' = some []) ∨
    ∃ a b r r', l = some (a :: r) ∧ l' = some (b :: r') ∧ HSh bp H a b ∧ HsSh bp H (some r) (some r') := by
  cases l <;> cases l' <;> simp only [HsSh] at x
  · exact Or.inl ⟨rfl, rfl⟩
  · cases x with
    | nil => exact Or.inr (Or.inl ⟨rfl, rfl⟩)
    | cons hab hr => exact Or.inr (Or.inr ⟨_, _, _, _, rfl, rfl, hab, hr⟩)

theorem HsSh.length {bp H : Nat} {l l' : Option (List Handler)} (x : HsSh bp H l l') :
    (match l with | some hs => hs.length | none => 0) = (match l' with | some hs => hs.length | none => 0) := by
  cases l <;> cases l' <;> simp only [HsSh] at x
  · rfl
  · exact x.length_eq

variable {T0 : State} {bp k d H N : Nat} {a : Int}

theorem FrameSh.lastHandler {f g : Frame} (x : FrameSh bp H f g) :
    (lastHandler f = none ∧ lastHandler g = none) ∨
    ∃ p q, lastHandler f = some p ∧ lastHandler g = some q ∧ HSh bp H p q := by
  rcases x.hs.cases with ⟨h1, h2⟩ | ⟨h1, h2⟩ | ⟨p, q, r, r', h1, h2, hpq, hr⟩
  · exact Or.inl ⟨by simp [VM.lastHandler, h1], by simp [VM.lastHandler, h2]⟩
  · exact Or.inl ⟨by simp [VM.lastHandler, h1], by simp [VM.lastHandler, h2]⟩
  · exact Or.inr ⟨p, q, by simp [VM.lastHandler, h1], by simp [VM.lastHandler, h2], hpq⟩

theorem FrameSh.setLast {H' : Nat} {f g : Frame} (x : FrameSh bp H f g) (F G : Handler → Handler)
    (hFG : ∀ p q, HSh bp H p q → HSh bp H' (F p) (G q)) (hH : H ≤ H') :
    FrameSh bp H' (setLast f F) (setLast g G) := by
  rcases x.hs.cases with ⟨h1, h2⟩ | ⟨h1, h2⟩ | ⟨p, q, r, r', h1, h2, hpq, hr⟩
  · simp only [VM.setLast, h1, h2]; exact x.mono hH
  · simp only [VM.setLast, h1, h2]; exact x.mono hH
  · simp only [VM.setLast, h1, h2]
    exact ⟨x.fn, x.free, x.bpT, by
      show HsSh bp H' (some (F p :: r)) (some (G q :: r'))
      have hr' := hr.mono hH
      simp only [HsSh] at hr' ⊢
      exact .cons (hFG p q hpq) hr', x.discard, by have := x.bpH; show f.bp ≤ (H' : Int); omega⟩

theorem FrameSh.popHandler {f g : Frame} (x : FrameSh bp H f g) : FrameSh bp H (popHandler f) (popHandler g) := by
  rcases x.hs.cases with ⟨h1, h2⟩ | ⟨h1, h2⟩ | ⟨p, q, r, r', h1, h2, hpq, hr⟩
  · simp only [VM.popHandler, h1, h2]; exact x
  · simp only [VM.popHandler, h1, h2]; exact x
  · simp only [VM.popHandler, h1, h2]
    exact ⟨x.fn, x.free, x.bpT, hr, x.discard, x.bpH⟩

theorem FrameSh.push {H' : Nat} {f g : Frame} (x : FrameSh bp H f g) (p q : Handler) (hpq : HSh bp H' p q) (hH : H ≤ H') :
    FrameSh bp H' { f with handlers := some (p :: (f.handlers.getD [])) } { g with handlers := some (q :: (g.handlers.getD [])) } := by
  refine ⟨x.fn, x.free, x.bpT, ?_, x.discard, by have := x.bpH; show f.bp ≤ (H' : Int); omega⟩
  show HsSh bp H' (some (p :: (f.handlers.getD []))) (some (q :: (g.handlers.getD [])))
  have hm := x.hs.mono hH
  rcases hf : f.handlers with _ | l <;> rcases hg : g.handlers with _ | l' <;> rw [hf, hg] at hm <;> simp only [HsSh] at hm ⊢
  · exact .cons hpq .nil
  · exact .cons hpq hm

theorem FrameSh.hasHandler {f g : Frame} (x : FrameSh bp H f g) : hasHandler f = hasHandler g := x.hs.hasHandler

/-! ### updating the current frame -/

theorem Sh.framesSizeS {s t : State} (h : Sh T0 bp k d H N a s t) : d < s.frames.size := by
  rw [h.shapeS.frames]; have := h.kLt; omega

theorem Sh.framesSizeT {s t : State} (h : Sh T0 bp k d H N a s t) : k + d < t.frames.size := by
  rw [h.shapeT.frames]; exact h.kLt

/-- corresponding updates of the two current frames that keep the base pointer -/
theorem sh_setCurFrame (F G : Frame → Frame) (H' : Nat)
    (hFG : ∀ f g, FrameSh bp H f g → FrameSh bp H' (F f) (G g)) (hH : H ≤ H') (hbp : ∀ f, (F f).bp = f.bp) :
    RelS (Sh T0 bp k d H N a) (PQ (fun _ _ => True) (Sh T0 bp k d H' N a)) (setCurFrame F) (setCurFrame G) := by
  intro s t h x s' y t' h1 h2
  have e1 : exec (setCurFrame F) s = (.ok (), { s with frames := s.frames.modify s.curFrame F }) := rfl
  have e2 : exec (setCurFrame G) t = (.ok (), { t with frames := t.frames.modify t.curFrame G }) := rfl
  rw [e1] at h1; rw [e2] at h2
  simp only [Prod.mk.injEq, Except.ok.injEq] at h1 h2
  obtain ⟨_, rfl⟩ := h1
  obtain ⟨_, rfl⟩ := h2
  have hsS := h.shapeS.frames
  have hsT := h.shapeT.frames
  have hk := h.kLt
  refine ⟨trivial, { h with shapeS := ⟨h.shapeS.stack, by simp [hsS]⟩, shapeT := ⟨h.shapeT.stack, by simp [hsT]⟩,
                            frames := ?_, ips := ?_, bp0 := ?_, bpPos := ?_, lowF := ?_ }⟩
  rotate_right
  · intro j hj
    show (t.frames.modify t.curFrame G)[j]! = T0.frames[j]!
    rw [getElem!_modify, h.curT]
    have c : ¬ (k + d = j ∧ j < t.frames.size) := fun c => by omega
    rw [if_neg c]
    exact h.lowF j hj
  · intro j hj
    show FrameSh bp H' ((s.frames.modify s.curFrame F)[j]!) ((t.frames.modify t.curFrame G)[k + j]!)
    rw [getElem!_modify, getElem!_modify, h.curS, h.curT, hsS, hsT]
    by_cases hjd : d = j
    · subst hjd
      rw [if_pos ⟨rfl, by omega⟩, if_pos ⟨rfl, by omega⟩]
      exact hFG _ _ (h.frames d hj)
    · rw [if_neg (fun c => hjd c.1), if_neg (fun c => hjd (by omega))]
      exact (h.frames j hj).mono hH
  · intro j hj
    show ((s.frames.modify s.curFrame F)[j]!).ip = ((t.frames.modify t.curFrame G)[k + j]!).ip
    rw [getElem!_modify, getElem!_modify, h.curS, h.curT]
    rw [if_neg (fun c => by omega), if_neg (fun c => by omega)]
    exact h.ips j hj
  · show ((s.frames.modify s.curFrame F)[0]!).bp = 0
    rw [getElem!_modify]
    split
    · rw [hbp]; exact h.bp0
    · exact h.bp0
  · intro j h1 hj
    show 1 ≤ ((s.frames.modify s.curFrame F)[j]!).bp
    rw [getElem!_modify]
    split
    · rw [hbp]; exact h.bpPos j h1 hj
    · exact h.bpPos j h1 hj

/-! ### `clearDown` -/

theorem sh_clearDown (hi lo : Int) (hiN : hi ≤ N) :
    RelS (Sh T0 bp k d H N a) (PQ (fun _ _ => True) (Sh T0 bp k d H N a)) (clearDown hi lo) (clearDown (hi + bp) (lo + bp)) := by
  unfold clearDown
  have e : (hi + (bp : Int) - (lo + (bp : Int)) + 1).toNat = (hi - lo + 1).toNat := by omega
  simp only [e]
  refine RelS.bindV (RelS.forIn_upto (VR := fun _ _ => True) _ _ _ _ _ trivial ?_) ?_
  · intro i hi' b b' _
    refine RelS.bindV (sh_stackSet_grow _ _ _ (by omega) (by omega)) ?_
    intro _ _ _
    exact RelS.pure (fun _ _ h => ⟨Or.inl ⟨_, _, rfl, rfl, trivial⟩, Sh.mono h (by omega)⟩)
  · intro _ _ _
    exact RelS.pure (fun _ _ h => ⟨trivial, h⟩)

macro_rules | `(tactic| sh_prim) => `(tactic| exact sh_clearDown _ _ (by omega))

/-! ### the frame search of `throw` -/

theorem exec_searchFrames_succ (n : Nat) (s : State) : exec (searchFrames (n + 1)) s =
    if n ≥ frameSize then (.error (.panic s!"runtime error: index out of range [{n}] with length {frameSize}"), s)
    else if hasHandler (s.frames[n]!) = true then (.ok (some n), s)
    else exec (searchFrames n)
      { s with frames := s.frames.modify n fun f => { f with free := none, fn := none } } := by
  rw [searchFrames]
  by_cases h1 : n ≥ frameSize
  · simp only [h1, if_true, exec_bind, exec_panic]
  · simp only [h1, if_false, exec_bind, exec_pure, exec_getS]
    by_cases h2 : hasHandler (s.frames[n]!) = true
    · simp only [h2, if_true, exec_pure]
    · simp only [h2, if_false, exec_bind, exec_modS]
      rfl

/-- clearing function and free variables of corresponding frames -/
theorem Sh.clearFrame {s t : State} (h : Sh T0 bp k d H N a s t) (n : Nat) (hn : n ≤ d) :
    Sh T0 bp k d H N a { s with frames := s.frames.modify n fun f => { f with free := none, fn := none } }
      { t with frames := t.frames.modify (k + n) fun f => { f with free := none, fn := none } } := by
  have hsS := h.shapeS.frames
  have hsT := h.shapeT.frames
  have hk := h.kLt
  refine { h with shapeS := ⟨h.shapeS.stack, by simp [hsS]⟩, shapeT := ⟨h.shapeT.stack, by simp [hsT]⟩,
                  frames := ?_, ips := ?_, bp0 := ?_, bpPos := ?_, lowF := ?_ }
  rotate_right
  · intro j hj
    show (t.frames.modify (k + n) _)[j]! = T0.frames[j]!
    rw [getElem!_modify]
    have c : ¬ (k + n = j ∧ j < t.frames.size) := fun c => by omega
    rw [if_neg c]
    exact h.lowF j hj
  · intro j hj
    show FrameSh bp H ((s.frames.modify n _)[j]!) ((t.frames.modify (k + n) _)[k + j]!)
    rw [getElem!_modify, getElem!_modify, hsS, hsT]
    have hf := h.frames j hj
    by_cases hjn : n = j
    · subst hjn
      rw [if_pos ⟨rfl, by omega⟩, if_pos ⟨rfl, by omega⟩]
      exact { hf with fn := rfl, free := rfl }
    · rw [if_neg (fun c => hjn c.1), if_neg (fun c => hjn (by omega))]
      exact hf
  · intro j hj
    show ((s.frames.modify n _)[j]!).ip = ((t.frames.modify (k + n) _)[k + j]!).ip
    rw [getElem!_modify, getElem!_modify]
    have := h.ips j hj
    split <;> split <;> first | exact this | omega
  · show ((s.frames.modify n _)[0]!).bp = 0
    rw [getElem!_modify]
    split <;> exact h.bp0
  · intro j h1 hj
    show 1 ≤ ((s.frames.modify n _)[j]!).bp
    rw [getElem!_modify]
    split <;> exact h.bpPos j h1 hj

/-- the search from frame `j - 1` downwards in the child against the search from frame `k + j - 1`
    downwards in the parent: a handler found in frame `i` of the child is found in frame `k + i` of the
    parent; when the child finds none, the parent has cleared the same frames and goes on with the frames
    below `k` -/
theorem sh_searchFrames (j : Nat) (hj : j ≤ d) : ∀ (s t : State), Sh T0 bp k d H N a s t →
    ∀ r s', exec (searchFrames j) s = (.ok r, s') →
      (∃ i t', r = some i ∧ i < j ∧ exec (searchFrames (k + j)) t = (.ok (some (k + i)), t') ∧ Sh T0 bp k d H N a s' t') ∨
      (r = none ∧ ∃ u, exec (searchFrames (k + j)) t = exec (searchFrames k) u ∧ Sh T0 bp k d H N a s' u) := by
  induction j with
  | zero =>
    intro s t h r s' h1
    rw [searchFrames] at h1
    simp only [exec_pure, Prod.mk.injEq, Except.ok.injEq] at h1
    obtain ⟨rfl, rfl⟩ := h1
    exact Or.inr ⟨rfl, t, rfl, h⟩
  | succ j ih =>
    intro s t h r s' h1
    have hk := h.kLt
    rw [exec_searchFrames_succ] at h1
    have e : k + (j + 1) = (k + j) + 1 := rfl
    rw [e, exec_searchFrames_succ]
    have hlt : ¬ j ≥ frameSize := by omega
    have hlt' : ¬ k + j ≥ frameSize := by omega
    rw [if_neg hlt] at h1
    rw [if_neg hlt']
    have hf := h.frames j (by omega)
    rw [← hf.hasHandler]
    by_cases hh : hasHandler (s.frames[j]!) = true
    · rw [if_pos hh] at h1
      rw [if_pos hh]
      simp only [Prod.mk.injEq, Except.ok.injEq] at h1
      obtain ⟨rfl, rfl⟩ := h1
      exact Or.inl ⟨j, t, rfl, by omega, rfl, h⟩
    · rw [if_neg hh] at h1
      rw [if_neg hh]
      rcases ih (by omega) _ _ (h.clearFrame j (by omega)) r s' h1 with ⟨i, t', e1, e2, e3, e4⟩ | ⟨e1, u, e2, e3⟩
      · exact Or.inl ⟨i, t', e1, by omega, e3, e4⟩
      · exact Or.inr ⟨e1, u, e2, e3⟩

/-! ### `throw` / `handleThrownError` -/

/-- outcome of `throw e` on both sides: a handler of the invoked function's frame or of a frame above it
    took the error (both continue, related, at the depth of the handling frame); or there is none: the child
    returns `e`, the parent's `throw` ended as the search below frame `k` ends from a state `u` that agrees
    with the child on heap, globals and module cache -/
def ThrowQ (T0 : State) (bp k : Nat) (e : Addr) (r r' : Option Addr) (s t : State) : Prop :=
  (r = none ∧ r' = none ∧ ∃ d, ShB T0 bp k d s t) ∨
  (r = some e ∧ s.err = none ∧ ∃ n u, u.heap = s.heap ∧ u.globals = s.globals ∧ u.modules = s.modules ∧ u.err = none ∧
      (∀ j : Nat, j < k → u.frames[j]! = T0.frames[j]!) ∧ (∀ i : Nat, i + 1 < bp → u.stack[i]! = T0.stack[i]!) ∧
      exec (throwBelow n k e) u = (.ok r', t))

/-- making an outer frame `i` of the invoked function current on both sides -/
theorem Sh.toOuter {s t : State} (h : Sh T0 bp k d H N a s t) (i : Nat) (hi : i < d) :
    Sh T0 bp k i H N a { s with frameIndex := ((i : Nat) : Int) + 1, curFrame := ((i : Nat) : Int).toNat }
      { t with frameIndex := ((k + i : Nat) : Int) + 1, curFrame := ((k + i : Nat) : Int).toNat } := by
  have hk := h.kLt
  exact { h with curS := by show ((i : Nat) : Int).toNat = i; omega, curT := by show ((k + i : Nat) : Int).toNat = k + i; omega, fiS := rfl, fiT := by show ((k + i : Nat) : Int) + 1 = _; omega,
                 shapeS := ⟨h.shapeS.stack, h.shapeS.frames⟩, shapeT := ⟨h.shapeT.stack, h.shapeT.frames⟩,
                 kLt := by omega, frames := fun j hj => h.frames j (by omega), ips := fun j hj => h.ips j (by omega),
                 bpPos := fun j h1 hj => h.bpPos j h1 (by omega) }

syntax "sht" : tactic
macro_rules | `(tactic| sht) => `(tactic| repeat (first
  | exact RelS.pure (fun s t h => Or.inl ⟨rfl, rfl, _, _, _, _, h, by omega, by omega⟩)
  | sh1))

theorem sh_handle (e : Addr) (n n' : Nat)
    (ih : ∀ (n' d H N : Nat) (a : Int), a ≤ N → H ≤ N → RelS (Sh T0 bp k d H N a) (ThrowQ T0 bp k e) (throwF n e) (throwF n' e))
    (ha : a ≤ N) (hH : H ≤ N) :
    RelS (Sh T0 bp k d H N a) (ThrowQ T0 bp k e) (throwF.handle n e) (throwF.handle n' e) := by
  unfold throwF.handle
  refine RelS.bindV (sh_setCurFrame _ _ H (fun f g x => x.setLast _ _ (fun p q hpq => { hpq with err := rfl }) (Nat.le_refl _))
    (Nat.le_refl _) (fun f => by unfold VM.setLast; split <;> rfl)) ?_
  intro _ _ _
  refine RelS.bindV sh_curFrame ?_
  intro f g hfg
  rcases hfg.lastHandler with ⟨h1, h2⟩ | ⟨p, q, h1, h2, hpq⟩
  · rw [h1, h2]
    exact RelS.errL _
  · rw [h1, h2]
    dsimp only
    obtain ⟨qsp, qc, qf, qr, qe⟩ := q
    obtain ⟨e1, e2, e3, e4, e5, e6⟩ := hpq
    simp only at e1 e3 e4 e5 e6
    subst e1 e3 e4 e5 e6
    by_cases hc : p.catch_ > 0
    · rw [if_pos hc, if_pos hc]
      dsimp only
      sht
    · rw [if_neg hc, if_neg hc]
      by_cases hf : p.finally_ > 0
      · rw [if_pos hf, if_pos hf]
        dsimp only
        sht
      · rw [if_neg hf, if_neg hf]
        refine RelS.bindV (sh_setCurFrame _ _ H (fun f g x => x.popHandler) (Nat.le_refl _)
          (fun f => by unfold VM.popHandler; split <;> rfl)) ?_
        intro _ _ _
        exact ih n' d H N a ha hH

/-- `throw` once the handling frame `i` is known: make it current, restore its saved `ip`, handle -/
def throwResume (fuel : Nat) (i : Nat) (err : Addr) : M (Option Addr) := do
  modS fun s => { s with frameIndex := ((i : Nat) : Int) + 1, curFrame := ((i : Nat) : Int).toNat }
  let f ← curFrame
  match f.fn with
  | none => VM.panic "runtime error: invalid memory address or nil pointer dereference"
  | some _ => pure ()
  setIp f.ip
  throwF.handle fuel err

theorem exec_throwBelow (n j : Nat) (e : Addr) (s : State) : exec (throwBelow n j e) s =
    match exec (searchFrames j) s with
    | (.ok (some i), s1) => exec (throwResume n i e) s1
    | (.ok none, s1) => (.ok (some e), s1)
    | (.error x, s1) => (.error x, s1) := by
  unfold throwBelow throwResume
  rw [exec_bind]
  rcases exec (searchFrames j) s with ⟨r, s1⟩
  cases r with
  | error x => rfl
  | ok f =>
    cases f with
    | none => simp [exec_bind, exec_pure]
    | some i =>
      simp only [exec_bind, exec_pure, Option.isNone_some, Bool.false_eq_true, if_false]
      rfl

theorem sh_throwResume (e : Addr) (n n' i : Nat) (hi : i < d)
    (ih : ∀ (n' d H N : Nat) (a : Int), a ≤ N → H ≤ N → RelS (Sh T0 bp k d H N a) (ThrowQ T0 bp k e) (throwF n e) (throwF n' e))
    (ha : a ≤ N) (hH : H ≤ N) :
    RelS (Sh T0 bp k d H N a) (ThrowQ T0 bp k e) (throwResume n i e) (throwResume n' (k + i) e) := by
  unfold throwResume
  refine RelS.bind (Q := fun _ _ s t => Sh T0 bp k i H N a s t ∧ (s.frames[i]!).ip = (t.frames[k + i]!).ip) ?_ ?_
  · intro s t h x s' y t' h1 h2
    simp only [exec_modS, Prod.mk.injEq, Except.ok.injEq] at h1 h2
    obtain ⟨_, rfl⟩ := h1
    obtain ⟨_, rfl⟩ := h2
    exact ⟨h.toOuter i hi, h.ips i hi⟩
  · intro _ _
    refine RelS.bind (Q := fun f g s t => (FrameSh bp H f g ∧ f.ip = g.ip) ∧ Sh T0 bp k i H N a s t) ?_ ?_
    · intro s t h f s' g t' h1 h2
      have e1 : exec curFrame s = (.ok (s.frames[s.curFrame]!), s) := rfl
      have e2 : exec curFrame t = (.ok (t.frames[t.curFrame]!), t) := rfl
      rw [e1] at h1; rw [e2] at h2
      simp only [Prod.mk.injEq, Except.ok.injEq] at h1 h2
      obtain ⟨rfl, rfl⟩ := h1
      obtain ⟨rfl, rfl⟩ := h2
      rw [h.1.curS, h.1.curT]
      exact ⟨⟨h.1.frame, h.2⟩, h.1⟩
    · intro f g
      refine RelS.pre_and fun hfg => ?_
      obtain ⟨hfg, hip⟩ := hfg
      rw [← hfg.fn, ← hip]
      cases f.fn with
      | none => exact RelS.errL_bind' _ _
      | some fa =>
        simp only [pure_bind]
        refine RelS.bindV (sh_setIp _) ?_
        intro _ _ _
        exact sh_handle e n n' ih ha hH

theorem sh_throwBelow (e : Addr) (n n' : Nat)
    (ih : ∀ (n' d H N : Nat) (a : Int), a ≤ N → H ≤ N → RelS (Sh T0 bp k d H N a) (ThrowQ T0 bp k e) (throwF n e) (throwF n' e))
    (ha : a ≤ N) (hH : H ≤ N) :
    RelS (Sh T0 bp k d H N a) (ThrowQ T0 bp k e) (throwBelow n d e) (throwBelow n' (k + d) e) := by
  intro s t h r s' r' t' h1 h2
  rw [exec_throwBelow] at h1 h2
  rcases e1 : exec (searchFrames d) s with ⟨r1, s1⟩
  rw [e1] at h1
  cases r1 with
  | error x => simp at h1
  | ok found =>
    rcases sh_searchFrames d (Nat.le_refl _) s t h found s1 e1 with ⟨i, t1, rfl, hi, e2, hs1⟩ | ⟨rfl, u, e2, hs1⟩
    · rw [e2] at h2
      simp only at h1 h2
      exact sh_throwResume e n n' i hi ih ha hH s1 t1 hs1 r s' r' t' h1 h2
    · simp only [Prod.mk.injEq, Except.ok.injEq] at h1
      obtain ⟨rfl, rfl⟩ := h1
      refine Or.inr ⟨rfl, hs1.errS, n', u, hs1.heap.symm, hs1.globals.symm, hs1.modules.symm, hs1.errT, hs1.lowF, hs1.lowS, ?_⟩
      rw [exec_throwBelow, ← e2]
      exact h2

/-- **throw.**  `vm.throw(e)` from `Sh`-related states, with any fuels (the model's `throwFuel` counts all
    frames, so child and parent get different ones; running out of it is `unsupported`: not compared) -/
theorem sh_throwF (e : Addr) : ∀ (n n' d H N : Nat) (a : Int), a ≤ N → H ≤ N →
    RelS (Sh T0 bp k d H N a) (ThrowQ T0 bp k e) (throwF n e) (throwF n' e) := by
  intro n
  induction n with
  | zero =>
    intro n' d H N a _ _
    rw [throwF]
    exact RelS.errL _
  | succ n ih =>
    intro n' d H N a ha hH
    cases n' with
    | zero =>
      have : throwF 0 e = VM.unsupported "model: throw fuel exhausted" := by rw [throwF]
      rw [this]
      exact RelS.errR _
    | succ n' =>
      rw [throwF_succ, throwF_succ]
      refine RelS.bindV sh_curFrame ?_
      intro f g hfg
      rw [← hfg.hasHandler]
      refine RelS.ite (sh_handle e n n' ih ha hH) ?_
      intro s t h r s' r' t' h1 h2
      simp only [exec_bind, exec_getS] at h1 h2
      rw [h.fiS] at h1; rw [h.fiT] at h2
      have e1 : ((d : Int) + 1 - 1).toNat = d := by omega
      have e2 : ((k : Int) + (d : Int) + 1 - 1).toNat = k + d := by omega
      rw [e1] at h1; rw [e2] at h2
      exact sh_throwBelow e n n' ih ha hH s t h r s' r' t' h1 h2

/-! ### `failWith` and the end of a throwing instruction -/

/-- what every throwing instruction does with the result of `throw` -/
def finishThrow (r : Option Addr) : M Ctl :=
  match r with
  | none => pure .next
  | some a => do modS (fun s => { s with err := some (.rt a) }); pure .ret

theorem sh_finishThrow (e : Addr) (r r' : Option Addr) :
    RelS (ThrowQ T0 bp k e r r') (PostC T0 bp k) (finishThrow r) (finishThrow r') := by
  intro s t h c s' c' t' h1 h2
  rcases h with ⟨rfl, rfl, hsh⟩ | ⟨rfl, herr, n, u, hu1, hu2, hu3, hu4, hu6, hu7, hu5⟩
  · simp only [finishThrow, exec_pure, Prod.mk.injEq, Except.ok.injEq] at h1 h2
    obtain ⟨rfl, rfl⟩ := h1
    obtain ⟨rfl, rfl⟩ := h2
    exact Or.inl ⟨rfl, rfl, hsh⟩
  · simp only [finishThrow, exec_bind, exec_modS, exec_pure, Prod.mk.injEq, Except.ok.injEq] at h1
    obtain ⟨rfl, rfl⟩ := h1
    refine Or.inr (Or.inl ⟨rfl, e, rfl, n, u, hu1, hu2, hu3, hu4, hu6, hu7, ?_⟩)
    unfold escBelow
    rw [exec_bind, hu5]
    exact h2

theorem sh_throwFuel {A : State → State → Prop} : RelS A (fun _ _ s t => A s t) throwFuel throwFuel := by
  intro s t h x s' y t' h1 h2
  have e1 : ∀ u : State, ∃ n, exec throwFuel u = (.ok n, u) := fun u => ⟨_, rfl⟩
  obtain ⟨n1, e1'⟩ := e1 s
  obtain ⟨n2, e2'⟩ := e1 t
  rw [e1'] at h1; rw [e2'] at h2
  simp only [Prod.mk.injEq, Except.ok.injEq] at h1 h2
  rw [← h1.2, ← h2.2]
  exact h

/-- `throw e` with the model's fuel, then the end of the instruction -/
def throwNow (e : Addr) : M Ctl := do
  let n ← throwFuel
  let r ← throwF n e
  finishThrow r

theorem sh_throwNow (e : Addr) (ha : a ≤ N) (hH : H ≤ N) :
    RelS (Sh T0 bp k d H N a) (PostC T0 bp k) (throwNow e) (throwNow e) := by
  unfold throwNow
  refine RelS.bind sh_throwFuel ?_
  intro n n'
  refine RelS.bind (sh_throwF e n n' d H N a ha hH) ?_
  intro r r'
  exact sh_finishThrow e r r'

theorem failWith_eq (e : OpErr) : failWith e = (rtErrOfOpErr e >>= throwNow) := by
  unfold failWith throwGenErr throwNow
  simp only [bind_assoc]
  congr 1; funext ra
  congr 1; funext n
  congr 1; funext r
  cases r <;> simp [finishThrow]

/-- **failWith.**  An uGO error raised by an instruction: caught in the invoked function's frame or
    above it on both sides, or leaving it (`PostC`, second case) -/
theorem sh_failWith (e : OpErr) (ha : a ≤ N) (hH : H ≤ N) :
    RelS (Sh T0 bp k d H N a) (PostC T0 bp k) (failWith e) (failWith e) := by
  rw [failWith_eq]
  refine RelS.bindV (sh_foot (foot_rtErrOfOpErr e)) ?_
  intro ra _ h
  subst h
  exact sh_throwNow ra ha hH

macro_rules | `(tactic| sh1) => `(tactic| exact sh_failWith _ (by omega) (by omega))

end UgoVerif.Proofs.Shift
