import UgoVerif.VM.Run
import Std.Do
import Std.Tactic.Do
import Lean.Elab.Tactic
/-
  C06 helper layer 1: the recovery-path invariant `VInv`, the instruction-boundary
  invariant `VInvB`, the "control part unchanged" relation `Same`, array/frame lemmas,
  and the bridge between `Std.Do` Hoare triples (used with `mvcgen`) and the plain
  run semantics `(m.run.run s)` in which the property theorems are stated.
-/
set_option linter.unusedSimpArgs false
set_option linter.unusedVariables false
namespace UgoVerif.Proofs.VM
open UgoVerif UgoVerif.Go UgoVerif.VM Std.Do

/-- `split_ands`: destructs every hypothesis that is a conjunction (so that `simp_all` can use
    one conjunct to rewrite another) -/
def splitAndsLoop : Nat → Lean.Elab.Tactic.TacticM Unit
  | 0 => pure ()
  | n + 1 => do
    let g ← Lean.Elab.Tactic.getMainGoal
    let found ← g.withContext do
      let mut r : Option Lean.FVarId := none
      for ld in ← Lean.getLCtx do
        if ld.isImplementationDetail then continue
        let ty ← Lean.instantiateMVars ld.type
        if r.isNone && ty.isAppOfArity ``And 2 then r := some ld.fvarId
      pure r
    match found with
    | none => pure ()
    | some fv =>
      let gs ← g.cases fv
      Lean.Elab.Tactic.replaceMainGoal (gs.toList.map (·.mvarId))
      splitAndsLoop n

elab "split_ands" : tactic => splitAndsLoop 400

abbrev PS : PostShape := .except Exc (.arg State .pure)

/-! ### invariants -/

/-- number of handlers of a frame -/
def nh (f : Frame) : Nat := match f.handlers with | some hs => hs.length | none => 0

/-- (I1) a frame that has an error handler has a non-nil function;
    (I2) every handler's saved `sp` is ≥ 0 -/
def FrameOK (f : Frame) : Prop :=
  (hasHandler f = true → f.fn ≠ none) ∧ (∀ hs, f.handlers = some hs → ∀ h ∈ hs, 0 ≤ h.sp)

/-- the invariant as a predicate of the fields it reads -/
def CInv (frames : Array Frame) (cur : Nat) (ssz : Nat) : Prop :=
  frames.size = frameSize ∧ ssz = stackSize ∧ cur < frameSize ∧ ∀ i (h : i < frames.size), FrameOK frames[i]

/-- **VInv**: what the recovery path (`handlePanic`, `throw`, `handleThrownError`) depends on.
    Holds at every instruction boundary *and* in the partial state at every panic site. -/
def VInv (s : State) : Prop := CInv s.frames s.curFrame s.stack.size

/-- function of the current frame -/
def curFn (s : State) : Option Addr := (s.frames[s.curFrame]!).fn

/-- **VInvB**: invariant at instruction boundaries (top of the `loop` body): `VInv`, the stack
    pointer is not negative, the current frame has a function (`vm.curInsts` is its code). -/
def VInvB (s : State) : Prop := VInv s ∧ 0 ≤ s.sp ∧ curFn s ≠ none

/-- the control part of the state: everything `VInv`, `VInvB` and the recovery guards read -/
structure CP where
  frames : Array Frame
  sp : Int
  curFrame : Nat
  frameIndex : Int
  ssize : Nat
  err : Option VmErr
  noPanic : Bool
  mainFn : Addr
  codes : Array Code
  abort : Bool
  ip : Int

def cp (s : State) : CP :=
  { frames := s.frames, sp := s.sp, curFrame := s.curFrame, frameIndex := s.frameIndex, ssize := s.stack.size,
    err := s.err, noPanic := s.noPanic, mainFn := s.mainFn, codes := s.codes, abort := s.abort, ip := s.ip }

/-- the control part is unchanged -/
def Same (s t : State) : Prop := cp t = cp s

theorem Same.rfl' (s : State) : Same s s := by simp [Same]

theorem same_iff (s t : State) : Same s t ↔
  t.frames = s.frames ∧ t.sp = s.sp ∧ t.curFrame = s.curFrame ∧ t.frameIndex = s.frameIndex ∧
    t.stack.size = s.stack.size ∧ t.err = s.err ∧ t.noPanic = s.noPanic ∧ t.mainFn = s.mainFn ∧ t.codes = s.codes ∧
    t.abort = s.abort ∧ t.ip = s.ip := by simp [Same, cp]

theorem Same.trans {a b c : State} (h1 : Same a b) (h2 : Same b c) : Same a c := by
  simp_all [Same]

theorem VInv.of_same {s t : State} (h : VInv s) (hs : Same s t) : VInv t := by
  simp_all [VInv, same_iff]

theorem VInvB.of_same {s t : State} (h : VInvB s) (hs : Same s t) : VInvB t := by
  simp_all [VInvB, VInv, same_iff, curFn]

theorem VInvB.vinv {s : State} (h : VInvB s) : VInv s := h.1

/-! ### frames -/

theorem frameOK_default : FrameOK (default : Frame) := by
  constructor
  · intro h; simp [hasHandler, default, instInhabitedFrame] at h
    revert h; simp [instInhabitedFrame.default]
  · intro hs h; simp [default, instInhabitedFrame, instInhabitedFrame.default] at h

theorem CInv.get! {fr : Array Frame} {c n : Nat} (h : CInv fr c n) (i : Nat) : FrameOK fr[i]! := by
  by_cases hi : i < fr.size
  · rw [getElem!_pos fr i hi]; exact h.2.2.2 i hi
  · rw [getElem!_neg fr i hi]; exact frameOK_default

theorem CInv.modify {fr : Array Frame} {c n : Nat} (h : CInv fr c n) (i : Nat) (g : Frame → Frame)
    (hg : FrameOK (g fr[i]!)) : CInv (fr.modify i g) c n := by
  refine ⟨by simpa using h.1, h.2.1, h.2.2.1, ?_⟩
  intro j hj
  rw [Array.getElem_modify]
  have hj' : j < fr.size := by simpa using hj
  split
  · rename_i hij; subst hij
    rw [getElem!_pos fr i hj'] at hg; exact hg
  · exact h.2.2.2 j hj'

theorem CInv.cur {fr : Array Frame} {c n : Nat} (h : CInv fr c n) (c' : Nat) (hc : c' < frameSize) : CInv fr c' n :=
  ⟨h.1, h.2.1, hc, h.2.2.2⟩

theorem CInv.lt_size {fr : Array Frame} {c n : Nat} (h : CInv fr c n) : c < fr.size := by
  rw [h.1]; exact h.2.2.1

theorem hasHandler_iff (f : Frame) : hasHandler f = true ↔ ∃ h r, f.handlers = some (h :: r) := by
  unfold hasHandler
  split <;> simp_all

theorem frameOK_popHandler {f : Frame} (h : FrameOK f) : FrameOK (popHandler f) := by
  unfold popHandler
  split
  · rename_i h0 r heq
    constructor
    · intro _; apply h.1; simp [hasHandler, heq]
    · intro hs hhs x hx
      simp at hhs; subst hhs
      exact h.2 _ heq x (List.mem_cons_of_mem _ hx)
  · exact h

theorem frameOK_setLast {f : Frame} (h : FrameOK f) (g : Handler → Handler) (hg : ∀ x, 0 ≤ x.sp → 0 ≤ (g x).sp) :
    FrameOK (setLast f g) := by
  unfold setLast
  split
  · rename_i h0 r heq
    constructor
    · intro _; apply h.1; simp [hasHandler, heq]
    · intro hs hhs x hx
      simp at hhs; subst hhs
      rcases List.mem_cons.mp hx with hx | hx
      · subst hx; exact hg _ (h.2 _ heq h0 (List.mem_cons_self ..))
      · exact h.2 _ heq x (List.mem_cons_of_mem _ hx)
  · exact h

theorem hasHandler_setLast (f : Frame) (g : Handler → Handler) : hasHandler (setLast f g) = hasHandler f := by
  rcases f with ⟨fn, free, ip, bp, (_ | (_ | ⟨h, r⟩)), d⟩ <;> simp [setLast, hasHandler]

theorem fn_setLast (f : Frame) (g : Handler → Handler) : (setLast f g).fn = f.fn := by
  unfold setLast; split <;> rfl

theorem fn_popHandler (f : Frame) : (popHandler f).fn = f.fn := by
  unfold popHandler; split <;> rfl

theorem nh_setLast (f : Frame) (g : Handler → Handler) : nh (setLast f g) = nh f := by
  rcases f with ⟨fn, free, ip, bp, (_ | (_ | ⟨h, r⟩)), d⟩ <;> simp [setLast, nh]

theorem nh_popHandler {f : Frame} (h : hasHandler f = true) : nh (popHandler f) + 1 = nh f := by
  obtain ⟨h0, r, heq⟩ := (hasHandler_iff f).mp h
  simp [popHandler, nh, heq]

theorem lastHandler_some {f : Frame} (h : hasHandler f = true) : ∃ x, lastHandler f = some x := by
  obtain ⟨h0, r, heq⟩ := (hasHandler_iff f).mp h
  exact ⟨h0, by simp [lastHandler, heq]⟩

theorem lastHandler_sp {f : Frame} (h : FrameOK f) {x : Handler} (hx : lastHandler f = some x) : 0 ≤ x.sp := by
  unfold lastHandler at hx
  split at hx
  · rename_i h0 r heq
    simp at hx; subst hx
    exact h.2 _ heq _ (List.mem_cons_self ..)
  · simp at hx

theorem hasHandler_of_last {f : Frame} {x : Handler} (hx : lastHandler f = some x) : hasHandler f = true := by
  unfold lastHandler at hx
  split at hx
  · rename_i h0 r heq; simp [hasHandler, heq]
  · simp at hx

theorem get!_modify_self (fr : Array Frame) (c : Nat) (g : Frame → Frame) (h : c < fr.size) :
    (fr.modify c g)[c]! = g fr[c]! := by
  rw [getElem!_pos _ c (by simpa using h), getElem!_pos _ c h, Array.getElem_modify]; simp

theorem get!_modify_ne (fr : Array Frame) (c i : Nat) (g : Frame → Frame) (h : c ≠ i) :
    (fr.modify c g)[i]! = fr[i]! := by
  by_cases hi : i < fr.size
  · rw [getElem!_pos _ i (by simpa using hi), getElem!_pos _ i hi, Array.getElem_modify]; simp [h]
  · rw [getElem!_neg _ i (by simpa using hi), getElem!_neg _ i hi]

theorem lastHandler_setLast (f : Frame) (g : Handler → Handler) :
    lastHandler (setLast f g) = (lastHandler f).map g := by
  rcases f with ⟨fn, free, ip, bp, (_ | (_ | ⟨h, r⟩)), d⟩ <;> simp [setLast, lastHandler]

/-- a frame without handlers (cleared, or freshly entered) -/
theorem frameOK_noHandlers {f : Frame} (h : f.handlers = none) : FrameOK f := by
  constructor
  · intro hh; simp [hasHandler, h] at hh
  · intro hs hhs; simp [h] at hhs

theorem frameOK_of_not_hasHandler {f : Frame} (hf : FrameOK f) (g : Frame) (hh : g.handlers = f.handlers)
    (hn : hasHandler f = false) : FrameOK g := by
  constructor
  · intro h; simp [hasHandler, hh] at h; simp [hasHandler] at hn; simp_all
  · intro hs hhs; rw [hh] at hhs; exact hf.2 hs hhs

/-- updating fields other than `fn`/`handlers` keeps a frame OK -/
theorem frameOK_congr {f g : Frame} (hf : FrameOK f) (h1 : g.fn = f.fn) (h2 : g.handlers = f.handlers) : FrameOK g := by
  constructor
  · intro h; rw [h1]; apply hf.1; simpa [hasHandler, h2] using h
  · intro hs hhs; rw [h2] at hhs; exact hf.2 hs hhs

/-! ### total number of handlers (fuel measure of `throw`) -/

def totalH (fr : Array Frame) : Nat := (fr.toList.map nh).sum

theorem list_sum_modify (l : List Frame) (i : Nat) (g : Frame → Frame) (hi : i < l.length) :
    ((l.modify i g).map nh).sum + nh l[i] = (l.map nh).sum + nh (g l[i]) := by
  induction l generalizing i with
  | nil => simp at hi
  | cons a l ih =>
    cases i with
    | zero => simp [List.modify_zero_cons]; omega
    | succ i =>
      simp [List.modify_succ_cons]
      have := ih i (by simpa using hi)
      omega

theorem totalH_modify (fr : Array Frame) (i : Nat) (g : Frame → Frame) (hi : i < fr.size) :
    totalH (fr.modify i g) + nh fr[i] = totalH fr + nh (g fr[i]) := by
  unfold totalH
  rw [Array.toList_modify]
  have := list_sum_modify fr.toList i g (by simpa using hi)
  simpa using this

theorem totalH_modify_same (fr : Array Frame) (i : Nat) (g : Frame → Frame) (hg : ∀ f, nh (g f) = nh f) :
    totalH (fr.modify i g) = totalH fr := by
  by_cases hi : i < fr.size
  · have := totalH_modify fr i g hi
    rw [hg] at this; omega
  · unfold totalH; rw [Array.toList_modify]
    congr 2
    rw [List.modify_eq_take_drop]
    have : fr.toList.length ≤ i := by simpa using Nat.le_of_not_lt hi
    rw [List.drop_eq_nil_of_le this]
    simp [List.take_of_length_le this]

theorem foldl_fuel (g : Nat → Frame → Nat) (hg : ∀ n f, g n f = n + nh f + 1) (l : List Frame) (init : Nat) :
    List.foldl g init l = init + (l.map nh).sum + l.length := by
  induction l generalizing init with
  | nil => simp
  | cons a l ih => simp [List.foldl_cons, ih, hg]; omega

/-! ### Hoare triples vs. run semantics -/

theorem wp_M {α} (m : M α) (Q : PostCond α PS) (s : State) :
    (wp⟦m⟧ Q s).down = (match m.run.run s with
      | (.ok a, s') => (Q.1 a s').down
      | (.error e, s') => (Q.2.1 e s').down) := by
  simp only [wp, PredTrans.pushExcept, PredTrans.pushArg, Id.run, PredTrans.apply, StateT.run, ExceptT.run, pure, PredTrans.pure]
  rcases h : m s with ⟨r, s'⟩
  cases r <;> simp <;> rfl

theorem triple_iff {α} (m : M α) (P : State → Prop) (Q : α → State → Prop) (E : Exc → State → Prop) :
    (⦃fun s => ⌜P s⌝⦄ m ⦃post⟨fun a s => ⌜Q a s⌝, fun e s => ⌜E e s⌝⟩⦄) ↔
      ∀ s, P s → match m.run.run s with | (.ok a, s') => Q a s' | (.error e, s') => E e s' := by
  simp only [Triple, SPred.entails, wp_M]
  constructor
  · intro h s hp
    have := h s hp
    split at this <;> simp_all
  · intro h s hp
    have := h s hp
    split at this <;> simp_all

/-- match-free reading of a triple -/
theorem run_of_triple {α} {m : M α} {P : State → Prop} {Q : α → State → Prop} {E : Exc → State → Prop}
    (h : ⦃fun s => ⌜P s⌝⦄ m ⦃post⟨fun a s => ⌜Q a s⌝, fun e s => ⌜E e s⌝⟩⦄) (s : State) (hp : P s) :
    (∀ a s', m.run.run s = (.ok a, s') → Q a s') ∧ (∀ e s', m.run.run s = (.error e, s') → E e s') := by
  have := (triple_iff _ _ _ _).mp h s hp
  constructor
  · intro a s' heq; rw [heq] at this; exact this
  · intro e s' heq; rw [heq] at this; exact this

/-- an opaque wrapper: keeps `mvcgen` from unifying the goal's postcondition with the
    postcondition of a callee's spec (which would instantiate the callee's logical variable
    with the caller's initial state at tail calls) -/
@[irreducible] def Wrap (p : Prop) : Prop := p

theorem wrap_iff (p : Prop) : Wrap p ↔ p := by unfold Wrap; exact Iff.rfl

/-- a triple proved for a fixed, named initial state (hypotheses about it are ordinary Lean
    hypotheses) becomes a spec whose logical variable `c0` is instantiated by `rfl` -/
theorem triple_of_fixed {α} {m : M α} {P : State → Prop} {Qok : CP → α → State → Prop} {Qex : CP → Exc → State → Prop}
    (h : ∀ s0, P s0 → ⦃fun s => ⌜s = s0⌝⦄ m
      ⦃post⟨fun r s => ⌜Wrap (Qok (cp s0) r s)⌝, fun e s => ⌜Wrap (Qex (cp s0) e s)⌝⟩⦄) :
    ∀ c0, ⦃fun s => ⌜c0 = cp s ∧ P s⌝⦄ m ⦃post⟨fun r s => ⌜Qok c0 r s⌝, fun e s => ⌜Qex c0 e s⌝⟩⦄ := by
  intro c0
  rw [triple_iff]
  intro s ⟨hc, hp⟩; subst hc
  have := (triple_iff _ _ _ _).mp (h s hp) s rfl
  simp only [wrap_iff] at this
  exact this

/-- variant of `triple_of_fixed` for postconditions that do not mention the initial state -/
theorem triple_of_fixed' {α} {m : M α} {P : State → Prop} {Qok : α → State → Prop} {Qex : Exc → State → Prop}
    (h : ∀ s0, P s0 → ⦃fun s => ⌜s = s0⌝⦄ m
      ⦃post⟨fun r s => ⌜Wrap (Qok r s)⌝, fun e s => ⌜Wrap (Qex e s)⌝⟩⦄) :
    ⦃fun s => ⌜P s⌝⦄ m ⦃post⟨fun r s => ⌜Qok r s⌝, fun e s => ⌜Qex e s⌝⟩⦄ := by
  rw [triple_iff]
  intro s hp
  have := (triple_iff _ _ _ _).mp (h s hp) s rfl
  simp only [wrap_iff] at this
  exact this

/-- `m` never changes the control part, whichever way it ends -/
def Keeps {α} (m : M α) : Prop := ∀ s, Same s (m.run.run s).2

theorem Keeps.spec {α} {m : M α} (h : Keeps m) (c : CP) :
    ⦃fun s => ⌜c = cp s⌝⦄ m ⦃post⟨fun _ s => ⌜cp s = c⌝, fun _ s => ⌜cp s = c⌝⟩⦄ := by
  rw [triple_iff]
  intro s hs; subst hs
  have := h s
  split <;> rename_i heq <;> simp [heq] at this <;> exact this

theorem keeps_of_triple {α} {m : M α}
    (h : ∀ c, ⦃fun s => ⌜cp s = c⌝⦄ m ⦃post⟨fun _ s => ⌜cp s = c⌝, fun _ s => ⌜cp s = c⌝⟩⦄) : Keeps m := by
  intro s
  have := (triple_iff _ _ _ _).mp (h (cp s)) s rfl
  split at this <;> rename_i heq <;> simp [heq] <;> exact this

end UgoVerif.Proofs.VM
