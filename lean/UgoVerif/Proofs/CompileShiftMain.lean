import UgoVerif.Proofs.CompileShift
/-
  C10 (`compile_append_partial`): the statements whose compilation, outside function literals,
  emits no jump and patches no operand (`jfS`), are insensitive to a prefix in front of the
  instruction stream (`Equi`).  Size induction as in Proofs/CompileMain.lean.

  Covered: empty, expression, inc/dec, assignment (all forms, destructuring included), block,
  return, throw, param / global / var / const declarations — over expressions without `&&`, `||`
  and `?:` outside function literals; function literals with ANY body; calls, selectors, indexes,
  slices, array and map literals, unary and (non-logical) binary operators.
  Not covered (they emit jumps whose operands are absolute positions): `if`, `for`, `for-in`,
  `try`, `break`/`continue`, `&&`, `||`, `?:` at the top level of a fragment.
-/
namespace UgoVerif.Ast

mutual
def jfE : Expr → Bool
  | .paren _ e => jfE e
  | .binary _ tok l r => tok != tLAnd && tok != tLOr && jfE l && jfE r
  | .unary _ _ e => jfE e
  | .array _ es => jfEs es
  | .map _ ms => jfMs ms
  | .selector _ e s => jfE e && jfE s
  | .index _ e i => jfE e && jfE i
  | .slice _ e lo hi =>
    jfE e && (match lo with | some x => jfE x | none => true) && (match hi with | some x => jfE x | none => true)
  | .call _ _ f args => jfE f && jfEs args
  | .cond _ _ _ _ => false
  | _ => true

def jfEs : List Expr → Bool
  | [] => true
  | e :: r => jfE e && jfEs r

def jfMs : List (String × Expr) → Bool
  | [] => true
  | (_, v) :: r => jfE v && jfMs r
end

def jfVals : List (Option Expr) → Bool
  | [] => true
  | v :: r => (match v with | some x => jfE x | none => true) && jfVals r

def jfSpecs : List (Option Nat × List (Pos × String) × List (Option Expr)) → Bool
  | [] => true
  | (_, _, vals) :: r => jfVals vals && jfSpecs r

mutual
def jfS : Stmt → Bool
  | .empty _ => true
  | .expr _ e => jfE e
  | .incdec _ _ _ e => jfE e
  | .assign _ _ lhs rhs => jfEs lhs && jfEs rhs
  | .block _ body => jfSs body
  | .return_ _ e => (match e with | some x => jfE x | none => true)
  | .throw _ e => (match e with | some x => jfE x | none => true)
  | .declParam _ _ => true
  | .declGlobal _ _ => true
  | .declValue _ _ specs => jfSpecs specs
  | _ => false

def jfSs : List Stmt → Bool
  | [] => true
  | s :: r => jfS s && jfSs r
end

end UgoVerif.Ast

namespace UgoVerif.Compile
open UgoVerif UgoVerif.Go UgoVerif.Ast

/-- `Equi` plus a property of the normal result -/
def EquiP {α} (P : α → Prop) (m : CM α) : Prop := Equi m ∧ ∀ s a s', runCM m s = (.ok a, s') → P a

theorem Equi.bindP {α β} {P : α → Prop} {m : CM α} {f : α → CM β} (hm : EquiP P m) (hf : ∀ a, P a → Equi (f a)) :
    Equi (m >>= f) := by
  intro pre M s
  have h1 := hm.1 pre M s
  rw [runCM_bind, runCM_bind]
  unfold EquiOut at h1
  cases hr : runCM m s with
  | mk r s1 =>
    cases hr' : runCM m (withPre pre M s) with
    | mk r' s1' =>
      rw [hr, hr'] at h1
      cases r with
      | ok a =>
        cases r' with
        | ok a' =>
          obtain ⟨rfl, M1, rfl⟩ := h1
          exact hf a' (hm.2 s a' s1 hr) pre M1 s1
        | error e' => exact h1.elim
      | error e =>
        cases r' with
        | ok a' => exact h1.elim
        | error e' => exact h1

theorem EquiP.pure {α} {P : α → Prop} {a : α} (h : P a) : EquiP P (Pure.pure a : CM α) :=
  ⟨Equi.pure a, fun s a' s' hr => by rw [runCM_pure] at hr; injection hr with h1 _; injection h1 with h1; subst h1; exact h⟩

/-- `m >>= fun _ => pure a` -/
theorem EquiP.seq_pure {α β} {P : β → Prop} {m : CM α} {b : β} (hm : Equi m) (h : P b) :
    EquiP P (m >>= fun _ => (Pure.pure b : CM β)) := by
  refine ⟨Equi.bind hm fun _ => Equi.pure b, ?_⟩
  intro s a s' hr
  rw [runCM_bind] at hr
  cases h1 : runCM m s with
  | mk r s1 =>
    rw [h1] at hr
    cases r with
    | ok x => simp only [runCM_pure] at hr; injection hr with h2 _; injection h2 with h2; subst h2; exact h
    | error e => simp at hr

/-- `m >>= f` where every `f a` has the result property -/
theorem EquiP.bind {α β} {P : β → Prop} {m : CM α} {f : α → CM β} (hm : Equi m) (hf : ∀ a, EquiP P (f a)) :
    EquiP P (m >>= f) := by
  refine ⟨Equi.bind hm fun a => (hf a).1, ?_⟩
  intro s b s' hr
  rw [runCM_bind] at hr
  cases h1 : runCM m s with
  | mk r s1 =>
    rw [h1] at hr
    cases r with
    | ok x => exact (hf x).2 s1 b s' hr
    | error e => simp at hr

structure AllEqui (n : Nat) : Prop where
  expr : ∀ e, sizeOf e < n → jfE e = true → Equi (compileExpr e)
  exprs : ∀ es, sizeOf es < n → jfEs es = true → Equi (compileExprs es)
  mapElems : ∀ pos ms, sizeOf ms < n → jfMs ms = true → Equi (compileMapElems pos ms)
  indexChain : ∀ e self, sizeOf e < n → jfE e = true → Equi self → Equi (compileIndexChain e self)
  selChain : ∀ e, sizeOf e < n → jfE e = true → Equi (compileSelChain e)
  stmts : ∀ ss, sizeOf ss < n → jfSs ss = true → Equi (compileStmts ss)
  defineAssign : ∀ pos lhs kw op allow, sizeOf lhs < n → jfE lhs = true → Equi (compileDefineAssign pos lhs kw op allow)
  destructure : ∀ pos kw op num tmp es k found, sizeOf es < n → jfEs es = true →
    Equi (compileDestructure pos kw op num tmp es k found)
  valueIdents : ∀ pos tok ids vals last, sizeOf vals < n → jfVals vals = true → LastEqui last →
    EquiP LastEqui (compileValueIdents pos tok ids vals last)
  valueSpecs : ∀ pos tok specs last, sizeOf specs < n → jfSpecs specs = true → LastEqui last →
    Equi (compileValueSpecs pos tok specs last)
  stmt : ∀ st, sizeOf st < n → jfS st = true → Equi (compileStmt st)

theorem estep_exprs {n : Nat} (ih : AllEqui n) : ∀ es, sizeOf es < n + 1 → jfEs es = true → Equi (compileExprs es)
  | [], _, _ => by unfold compileExprs; equi
  | e :: r, hsz, hok => by
    simp only [jfEs, Bool.and_eq_true] at hok
    have h1 := ih.expr e (by sz) hok.1
    have h2 := ih.exprs r (by sz) hok.2
    unfold compileExprs
    equi

theorem estep_mapElems {n : Nat} (ih : AllEqui n) (pos : Pos) : ∀ ms, sizeOf ms < n + 1 → jfMs ms = true → Equi (compileMapElems pos ms)
  | [], _, _ => by unfold compileMapElems; equi
  | (k, v) :: r, hsz, hok => by
    simp only [jfMs, Bool.and_eq_true] at hok
    have h1 := ih.expr v (by sz) hok.1
    have h2 := ih.mapElems pos r (by sz) hok.2
    unfold compileMapElems
    equi

theorem estep_stmts {n : Nat} (ih : AllEqui n) : ∀ ss, sizeOf ss < n + 1 → jfSs ss = true → Equi (compileStmts ss)
  | [], _, _ => by unfold compileStmts; equi
  | st :: r, hsz, hok => by
    simp only [jfSs, Bool.and_eq_true] at hok
    have h1 := ih.stmt st (by sz) hok.1
    have h2 := ih.stmts r (by sz) hok.2
    unfold compileStmts
    equi

theorem estep_indexChain {n : Nat} (ih : AllEqui n) (e : Expr) (self : CM Unit) (hsz : sizeOf e < n + 1)
    (hok : jfE e = true) (hself : Equi self) : Equi (compileIndexChain e self) := by
  unfold compileIndexChain
  split
  · rename_i e' i
    simp only [jfE, Bool.and_eq_true] at hok
    have h0 := ih.expr e' (by sz) hok.1
    have h1 := ih.indexChain e' (compileExpr e') (by sz) hok.1 h0
    have h2 := ih.expr i (by sz) hok.2
    equi
  · equi

theorem estep_selChain {n : Nat} (ih : AllEqui n) (e : Expr) (hsz : sizeOf e < n + 1) (hok : jfE e = true) :
    Equi (compileSelChain e) := by
  unfold compileSelChain
  split
  · rename_i e' i
    simp only [jfE, Bool.and_eq_true] at hok
    have h1 := ih.selChain e' (by sz) hok.1
    have h2 := ih.expr i (by sz) hok.2
    equi
  · rename_i e' i
    simp only [jfE, Bool.and_eq_true] at hok
    have h1 := ih.selChain e' (by sz) hok.1
    have h2 := ih.expr i (by sz) hok.2
    equi
  · equi

theorem estep_defineAssign {n : Nat} (ih : AllEqui n) (pos : Pos) (lhs : Expr) (kw op : Nat) (allow : Bool)
    (hsz : sizeOf lhs < n + 1) (hok : jfE lhs = true) : Equi (compileDefineAssign pos lhs kw op allow) := by
  unfold compileDefineAssign
  split
  · rename_i e last
    simp only [jfE, Bool.and_eq_true] at hok
    have h1 := ih.selChain e (by sz) hok.1
    have h2 := ih.expr last (by sz) hok.2
    equi
  · rename_i e last
    simp only [jfE, Bool.and_eq_true] at hok
    have h1 := ih.selChain e (by sz) hok.1
    have h2 := ih.expr last (by sz) hok.2
    equi
  · equi

theorem estep_destructure {n : Nat} (ih : AllEqui n) (pos : Pos) (kw op num : Nat) (tmp : Int) :
    ∀ es k found, sizeOf es < n + 1 → jfEs es = true → Equi (compileDestructure pos kw op num tmp es k found)
  | [], _, _, _, _ => by unfold compileDestructure; equi
  | e :: r, k, found, hsz, hok => by
    simp only [jfEs, Bool.and_eq_true] at hok
    have h1 := ih.defineAssign pos e kw op (kw != tConst) (by sz) hok.1
    have h2 := fun k f => ih.destructure pos kw op num tmp r k f (by sz) hok.2
    unfold compileDestructure
    equi
    exact h2 _ _

theorem estep_valueIdents {n : Nat} (ih : AllEqui n) (pos : Pos) (tok : Nat) :
    ∀ (ids : List (Pos × String)) (vals : List (Option Expr)) (last : Option (CM Unit × VSum)),
      sizeOf vals < n + 1 → jfVals vals = true → LastEqui last → EquiP LastEqui (compileValueIdents pos tok ids vals last)
  | [], vals, last, _, _, hl => by
    unfold compileValueIdents
    exact EquiP.pure hl
  | id :: irest, [], last, _, _, hl => by
    unfold compileValueIdents
    exact EquiP.seq_pure (equi_compileIdentsNoValue pos tok hl _) hl
  | (ipos, name) :: irest, some e :: vrest, last, hsz, hok, hl => by
    simp only [jfVals, Bool.and_eq_true] at hok
    have he := ih.expr e (by sz) hok.1
    unfold compileValueIdents
    refine EquiP.bind (equi_compileValueIdent pos tok name he _) fun _ => ?_
    exact ih.valueIdents pos tok irest vrest _ (by sz) hok.2 (fun x hx => by injection hx with hx; subst hx; exact he)
  | (ipos, name) :: irest, none :: vrest, last, hsz, hok, hl => by
    simp only [jfVals, Bool.and_eq_true] at hok
    unfold compileValueIdents
    refine EquiP.bind (equi_lastMatch pos tok ipos name hl) fun _ => ?_
    exact ih.valueIdents pos tok irest vrest _ (by sz) hok.2 hl

theorem estep_valueSpecs {n : Nat} (ih : AllEqui n) (pos : Pos) (tok : Nat) :
    ∀ specs last, sizeOf specs < n + 1 → jfSpecs specs = true → LastEqui last → Equi (compileValueSpecs pos tok specs last)
  | [], _, _, _, _ => by unfold compileValueSpecs; equi
  | (iota, ids, vals) :: rest, last, hsz, hok, hl => by
    simp only [jfSpecs, Bool.and_eq_true] at hok
    have h1 := ih.valueIdents pos tok ids vals last (by sz) hok.1 hl
    have h2 := fun l hl => ih.valueSpecs pos tok rest l (by sz) hok.2 hl
    unfold compileValueSpecs
    refine Equi.bind ?_ (fun _ => ?_)
    · equi
    · exact Equi.bindP h1 fun l hl' => h2 l hl'

theorem estep_expr {n : Nat} (ih : AllEqui n) (e : Expr) (hsz : sizeOf e < n + 1) (hok : jfE e = true) :
    Equi (compileExpr e) := by
  cases e with
  | paren _ e =>
    rw [jfE] at hok
    have := ih.expr e (by sz) hok
    unfold compileExpr; exact this
  | binary pos tok l r =>
    simp only [jfE, Bool.and_eq_true, bne_iff_ne, ne_eq] at hok
    have h1 := ih.expr l (by sz) hok.1.2
    have h2 := ih.expr r (by sz) hok.2
    have hnl : ¬ (tok == tLAnd || tok == tLOr) = true := by
      simp only [Bool.or_eq_true, beq_iff_eq]
      rintro (h | h)
      · exact hok.1.1.1 h
      · exact hok.1.1.2 h
    unfold compileExpr
    rw [if_neg hnl]
    equi
  | int pos v => unfold compileExpr; equi
  | uint pos v => unfold compileExpr; equi
  | float pos v => unfold compileExpr; equi
  | bool pos b => unfold compileExpr; equi
  | str pos v => unfold compileExpr; equi
  | char pos v => unfold compileExpr; equi
  | undef pos => unfold compileExpr; equi
  | unary pos tok e =>
    rw [jfE] at hok
    have := ih.expr e (by sz) hok
    unfold compileExpr; equi
  | ident pos name => unfold compileExpr; equi
  | array pos es =>
    rw [jfE] at hok
    have := ih.exprs es (by sz) hok
    unfold compileExpr; equi
  | map pos ms =>
    rw [jfE] at hok
    have := ih.mapElems pos ms (by sz) hok
    unfold compileExpr; equi
  | selector pos e sel =>
    simp only [jfE, Bool.and_eq_true] at hok
    have h0 := ih.expr e (by sz) hok.1
    have h1 := ih.indexChain e (compileExpr e) (by sz) hok.1 h0
    have h2 := ih.expr sel (by sz) hok.2
    unfold compileExpr; equi
  | index pos e i =>
    simp only [jfE, Bool.and_eq_true] at hok
    have h0 := ih.expr e (by sz) hok.1
    have h1 := ih.indexChain e (compileExpr e) (by sz) hok.1 h0
    have h2 := ih.expr i (by sz) hok.2
    unfold compileExpr; equi
  | slice pos e lo hi =>
    unfold jfE at hok
    simp only [Bool.and_eq_true] at hok
    have h0 := ih.expr e (by sz) hok.1.1
    have hlo : Equi (match lo with | some x => compileExpr x | none => emit_ pos OpNull) := by
      cases lo with
      | none => equi
      | some x => exact ih.expr x (by sz) hok.1.2
    have hhi : Equi (match hi with | some x => compileExpr x | none => emit_ pos OpNull) := by
      cases hi with
      | none => equi
      | some x => exact ih.expr x (by sz) hok.2
    unfold compileExpr; equi
  | func pos variadic params bp body =>
    have hw := equi_withFn pos variadic params (blockOf body (compileStmts body))
    unfold compileExpr; equi
  | call pos ell f args =>
    simp only [jfE, Bool.and_eq_true] at hok
    have ha := ih.exprs args (by sz) hok.2
    have hf := ih.expr f (by sz) hok.1
    unfold compileExpr
    split
    · rename_i p se ssel
      have hok1 := hok.1
      simp only [jfE, Bool.and_eq_true] at hok1
      have h1 := ih.expr se (by sz) hok1.1
      have h2 := ih.expr ssel (by sz) hok1.2
      equi
    · equi
  | import_ pos name => unfold compileExpr; equi
  | cond pos c t f => simp [jfE] at hok

theorem estep_stmt {n : Nat} (ih : AllEqui n) (st : Stmt) (hsz : sizeOf st < n + 1) (hok : jfS st = true) :
    Equi (compileStmt st) := by
  cases st with
  | empty pos => rw [compileStmt_eq]; simp only; equi
  | expr pos e =>
    rw [jfS] at hok
    have := ih.expr e (by sz) hok
    rw [compileStmt_eq]; simp only; equi
  | incdec pos tok tokPos e =>
    rw [jfS] at hok
    have h1 := ih.expr e (by sz) hok
    have h2 := ih.defineAssign pos e tVar (if tok == tDec then tSubAssign else tAddAssign) false (by sz) hok
    rw [compileStmt_eq]; simp only; equi
  | assign pos tok lhs rhs =>
    simp only [jfS, Bool.and_eq_true] at hok
    have h1 := ih.exprs rhs (by sz) hok.2
    rw [compileStmt_eq]; simp only
    cases lhs with
    | nil =>
      apply equi_compileAssign
      · exact h1
      · exact Equi.cpanic _
      · exact Equi.cpanic _
      · intro i; unfold compileDestructure; equi
    | cons e0 rest =>
      have hl := hok.1
      simp only [jfEs, Bool.and_eq_true] at hl
      apply equi_compileAssign
      · exact h1
      · exact ih.expr e0 (by sz) hl.1
      · exact ih.defineAssign pos e0 tVar tok false (by sz) hl.1
      · intro i
        exact ih.destructure pos tVar tok _ i (e0 :: rest) 0 0 (by sz) hok.1
  | block pos body =>
    rw [jfS] at hok
    have := equi_blockOf (body := body) (ih.stmts body (by sz) hok)
    rw [compileStmt_eq]; simp only; exact this
  | return_ pos e =>
    unfold jfS at hok
    cases e with
    | none => rw [compileStmt_eq]; simp only; equi
    | some x =>
      have := ih.expr x (by sz) hok
      rw [compileStmt_eq]; simp only; equi
  | throw pos e =>
    unfold jfS at hok
    cases e with
    | none => rw [compileStmt_eq]; simp only; equi
    | some x =>
      have := ih.expr x (by sz) hok
      rw [compileStmt_eq]; simp only; equi
  | declParam pos specs => rw [compileStmt_eq]; simp only; equi
  | declGlobal pos specs => rw [compileStmt_eq]; simp only; equi
  | declValue pos tok specs =>
    rw [jfS] at hok
    have := ih.valueSpecs pos tok specs none (by sz) hok (fun x hx => by cases hx)
    rw [compileStmt_eq]; simp only; equi
  | if_ pos init cond bp body els => simp [jfS] at hok
  | for_ pos init cond post bp body => simp [jfS] at hok
  | forin pos key value iter bp body => simp [jfS] at hok
  | branch pos tok => simp [jfS] at hok
  | try_ pos bp body c f => simp [jfS] at hok

theorem allEqui : ∀ n, AllEqui n
  | 0 => ⟨fun _ h => by omega, fun _ h => by omega, fun _ _ h => by omega, fun _ _ h => by omega,
          fun _ h => by omega, fun _ h => by omega, fun _ _ _ _ _ h => by omega,
          fun _ _ _ _ _ _ _ _ h => by omega, fun _ _ _ _ _ h => by omega, fun _ _ _ _ h => by omega,
          fun _ h => by omega⟩
  | n + 1 =>
    have ih := allEqui n
    ⟨estep_expr ih, estep_exprs ih, fun pos => estep_mapElems ih pos, fun e self h1 h2 h3 => estep_indexChain ih e self h1 h2 h3,
     estep_selChain ih, estep_stmts ih, fun pos lhs kw op allow => estep_defineAssign ih pos lhs kw op allow,
     fun pos kw op num tmp => estep_destructure ih pos kw op num tmp,
     fun pos tok => estep_valueIdents ih pos tok, fun pos tok => estep_valueSpecs ih pos tok, estep_stmt ih⟩

/-- a jump-free statement list compiles the same way behind any prefix -/
theorem equi_compileStmts (ss : List Stmt) (hok : jfSs ss = true) : Equi (compileStmts ss) :=
  (allEqui (sizeOf ss + 1)).stmts ss (by omega) hok

end UgoVerif.Compile
