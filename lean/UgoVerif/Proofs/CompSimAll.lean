import UgoVerif.Proofs.CompSimCtl
/-
  C02, compile ⊑ Sem, statement slice — every statement (list) of the fragment `StmtF`:
  induction over the size of the statement, using the lemmas of CompSimStmts / CompSimCtl.
-/
set_option linter.unusedSimpArgs false
set_option linter.unusedVariables false
namespace UgoVerif.CompSim
open UgoVerif UgoVerif.Go UgoVerif.Ast UgoVerif.VM UgoVerif.Proofs.ModCache UgoVerif.Proofs.VMExec
open UgoVerif.Compile (CState runCM compileExpr compileStmt compileStmts IsPre Pre Table nextIndex)

structure AllS (F : FloatOps) (n : Nat) : Prop where
  stmt : ∀ st, sizeOf st < n → ∀ B, StmtF B st = true →
    GoodC F B (defsOf B st) (needS st) (compileStmt st) (fun fuel env => Sem.execStmt F fuel env st)
  els : ∀ e, sizeOf e < n → ∀ B, ElseF B e = true →
    GoodB F B (needS e) (compileStmt e) (fun fuel env => Sem.execStmt F fuel env e)
  stmts : ∀ ss, sizeOf ss < n → ∀ B, StmtsF B ss = true →
    GoodC F B (defsL B ss) (needL ss) (compileStmts ss) (fun fuel env => Sem.execList F fuel env ss)

syntax "ssz" : tactic
macro_rules | `(tactic| ssz) => `(tactic| (simp at *; omega))

theorem condF_split {B : List String} {c : Expr} (h : condF B c = true) (ht : ¬ isTrueLit c = true)
    (hf : ¬ isFalseLit c = true) : ExprF (bnd B) c = true ∧ isBoolLit c = false := by
  have h2 : (ExprF (bnd B) c && !isBoolLit c) = true := by simpa [condF, ht, hf] using h
  simpa [Bool.and_eq_true] using h2

theorem step_stmts {F : FloatOps} {n : Nat} (ih : AllS F n) : ∀ ss, sizeOf ss < n + 1 → ∀ B, StmtsF B ss = true →
    GoodC F B (defsL B ss) (needL ss) (compileStmts ss) (fun fuel env => Sem.execList F fuel env ss)
  | [], _, B, _ => good_nil F B
  | s :: r, hsz, B, h => by
    have h' : StmtF B s = true ∧ StmtsF (defsOf B s) r = true := by
      have : StmtsF B (s :: r) = (StmtF B s && StmtsF (defsOf B s) r) := rfl
      rw [this, Bool.and_eq_true] at h; exact h
    exact good_cons F B _ _ _ _ s r (ih.stmt s (by ssz) B h'.1) (ih.stmts r (by ssz) _ h'.2)

theorem step_if {F : FloatOps} {n : Nat} (ih : AllS F n) (B : List String) (pos bp : Pos) (c : Expr) (body : List Stmt)
    (hsz : sizeOf body < n) (hc : condF B c = true) (hb : StmtsF B body = true) :
    GoodB F B (max (need c) (needL body)) (compileStmt (.if_ pos none c bp body none))
      (fun fuel env => Sem.execStmt F fuel env (.if_ pos none c bp body none)) := by
  have hT := good_blockOf F B _ _ body (ih.stmts body hsz B hb)
  by_cases ht : isTrueLit c = true
  · obtain ⟨p, rfl⟩ := isTrueLit_inv ht
    exact (good_ifTrueStmt F B pos bp p body none _ hT).mono (Nat.le_max_right _ _)
  · by_cases hf : isFalseLit c = true
    · obtain ⟨p, rfl⟩ := isFalseLit_inv hf
      exact (good_ifFalseStmt F B pos bp p body).mono (Nat.zero_le _)
    · obtain ⟨h1, h2⟩ := condF_split hc ht hf
      exact good_ifStmt F B pos bp c body h1 h2 _ hT

theorem step_ifElse {F : FloatOps} {n : Nat} (ih : AllS F n) (B : List String) (pos bp : Pos) (c : Expr) (body : List Stmt)
    (e : Stmt) (hsz : sizeOf body < n) (hsze : sizeOf e < n) (hc : condF B c = true)
    (hb : StmtsF B body = true) (he : ElseF B e = true) :
    GoodB F B (max (need c) (max (needL body) (needS e))) (compileStmt (.if_ pos none c bp body (some e)))
      (fun fuel env => Sem.execStmt F fuel env (.if_ pos none c bp body (some e))) := by
  have hT := good_blockOf F B _ _ body (ih.stmts body hsz B hb)
  by_cases ht : isTrueLit c = true
  · obtain ⟨p, rfl⟩ := isTrueLit_inv ht
    exact (good_ifTrueStmt F B pos bp p body (some e) _ hT).mono
      (Nat.le_trans (Nat.le_max_left _ _) (Nat.le_max_right _ _))
  · by_cases hf : isFalseLit c = true
    · obtain ⟨p, rfl⟩ := isFalseLit_inv hf
      exact (good_ifFalseElseStmt F B pos bp p body e _ (ih.els e hsze B he)).mono
        (Nat.le_trans (Nat.le_max_right _ _) (Nat.le_max_right _ _))
    · obtain ⟨h1, h2⟩ := condF_split hc ht hf
      exact good_ifElseStmt F B pos bp c body e h1 h2 _ _ hT (ih.els e hsze B he)

theorem step_else {F : FloatOps} {n : Nat} (ih : AllS F n) (e : Stmt) (hsz : sizeOf e < n + 1) (B : List String)
    (h : ElseF B e = true) : GoodB F B (needS e) (compileStmt e) (fun fuel env => Sem.execStmt F fuel env e) := by
  cases e with
  | block pos body => exact good_blockStmt F B _ _ pos body (ih.stmts body (by ssz) B h)
  | if_ pos init c bp body els =>
    cases init with
    | some i => cases els <;> cases h
    | none =>
      cases els with
      | none =>
        have h' : (condF B c && StmtsF B body) = true := h
        simp only [Bool.and_eq_true] at h'
        exact step_if ih B pos bp c body (by ssz) h'.1 h'.2
      | some e' =>
        have h' : (condF B c && StmtsF B body && ElseF B e') = true := h
        simp only [Bool.and_eq_true] at h'
        exact step_ifElse ih B pos bp c body e' (by ssz) (by ssz) h'.1.1 h'.1.2 h'.2
  | _ => cases h

theorem step_stmt {F : FloatOps} {n : Nat} (ih : AllS F n) (st : Stmt) (hsz : sizeOf st < n + 1) (B : List String)
    (h : StmtF B st = true) :
    GoodC F B (defsOf B st) (needS st) (compileStmt st) (fun fuel env => Sem.execStmt F fuel env st) := by
  cases st with
  | empty pos => exact good_empty F B pos
  | expr pos e => exact good_exprStmt F B pos e h
  | block pos body => exact (good_blockStmt F B _ _ pos body (ih.stmts body (by ssz) B h)).toC
  | return_ pos e =>
    cases e with
    | none => exact good_return0 F B pos
    | some e => exact good_return1 F B pos e h
  | if_ pos init c bp body els =>
    cases init with
    | some i =>
      cases els with
      | none =>
        have h' : (StmtF B i && (ExprF (bnd (defsOf B i)) c && !isBoolLit c) && StmtsF (defsOf B i) body) = true := h
        simp only [Bool.and_eq_true, Bool.not_eq_true'] at h'
        have hI := ih.stmt i (by ssz) B h'.1.1
        have hT := good_blockOf F (defsOf B i) _ _ body (ih.stmts body (by ssz) _ h'.2)
        exact (good_ifInitStmt F B _ pos bp i c body h'.1.2.1 h'.1.2.2 _ _ hI hT).toC
      | some e' =>
        have h' : (StmtF B i && (ExprF (bnd (defsOf B i)) c && !isBoolLit c) && StmtsF (defsOf B i) body &&
          ElseF (defsOf B i) e') = true := h
        simp only [Bool.and_eq_true, Bool.not_eq_true'] at h'
        have hI := ih.stmt i (by ssz) B h'.1.1.1
        have hT := good_blockOf F (defsOf B i) _ _ body (ih.stmts body (by ssz) _ h'.1.2)
        exact (good_ifInitElseStmt F B _ pos bp i c body e' h'.1.1.2.1 h'.1.1.2.2 _ _ _ hI hT
          (ih.els e' (by ssz) _ h'.2)).toC
    | none =>
      cases els with
      | none =>
        have h' : (condF B c && StmtsF B body) = true := h
        simp only [Bool.and_eq_true] at h'
        exact (step_if ih B pos bp c body (by ssz) h'.1 h'.2).toC
      | some e' =>
        have h' : (condF B c && StmtsF B body && ElseF B e') = true := h
        simp only [Bool.and_eq_true] at h'
        exact (step_ifElse ih B pos bp c body e' (by ssz) (by ssz) h'.1.1 h'.1.2 h'.2).toC
  | assign pos tok lhs rhs =>
    cases lhs with
    | nil => cases h
    | cons a l =>
      cases l with
      | cons b l' => cases a <;> cases h
      | nil =>
        cases rhs with
        | nil => cases a <;> cases h
        | cons r rr =>
          cases rr with
          | cons r' rr' => cases a <;> cases h
          | nil =>
            cases a with
            | ident p x =>
              have h' : (ExprF (bnd B) r &&
                  (if tok == tDefine then x != "_"
                   else if tok == tAssign then B.contains x
                   else (Compile.compoundOp tok).isSome && B.contains x)) = true := h
              rw [Bool.and_eq_true] at h'
              obtain ⟨hr, hk⟩ := h'
              by_cases hd : (tok == tDefine) = true
              · have : tok = tDefine := by simpa using hd
                subst this
                simp only [hd, if_true] at hk
                have e1 : defsOf B (.assign pos tDefine [.ident p x] [r]) = x :: B := by simp [defsOf]
                rw [e1]
                exact good_define F B pos p x r hr (by simpa using hk)
              · have e1 : defsOf B (.assign pos tok [.ident p x] [r]) = B := by simp [defsOf, hd]
                rw [e1]
                simp only [hd, Bool.false_eq_true, if_false] at hk
                by_cases ha : (tok == tAssign) = true
                · have : tok = tAssign := by simpa using ha
                  subst this
                  simp only [ha, if_true] at hk
                  exact good_assign F B pos p x r hr (by simpa using hk)
                · simp only [ha, Bool.false_eq_true, if_false, Bool.and_eq_true] at hk
                  obtain ⟨op, hop⟩ := Option.isSome_iff_exists.mp hk.1
                  exact good_compound F B pos p x r tok op hr (by simpa using hk.2) hop
            | _ => cases h
  | declValue pos tok specs =>
    have h' : (tok == tVar && !specs.isEmpty && specsF B specs) = true := h
    simp only [Bool.and_eq_true, Bool.not_eq_true'] at h'
    have ht : tok = tVar := by simpa using h'.1.1
    subst ht
    exact good_varGroup F B pos specs h'.1.2 h'.2
  | incdec pos tok tp e =>
    cases e with
    | ident p x =>
      have hx : B.contains x = true := h
      exact good_incdec F B pos tok tp p x (by simpa using hx)
    | _ => cases h
  | _ => cases h

theorem allS (F : FloatOps) : ∀ n, AllS F n
  | 0 => ⟨fun _ h => by omega, fun _ h => by omega, fun _ h => by omega⟩
  | n + 1 =>
    have ih := allS F n
    ⟨step_stmt ih, step_else ih, step_stmts ih⟩

/-- every statement of the fragment -/
theorem good_stmt (F : FloatOps) (st : Stmt) (B : List String) (h : StmtF B st = true) :
    GoodC F B (defsOf B st) (needS st) (compileStmt st) (fun fuel env => Sem.execStmt F fuel env st) :=
  (allS F (sizeOf st + 1)).stmt st (Nat.lt_succ_self _) B h

/-- every statement list of the fragment -/
theorem good_stmts (F : FloatOps) (ss : List Stmt) (B : List String) (h : StmtsF B ss = true) :
    GoodC F B (defsL B ss) (needL ss) (compileStmts ss) (fun fuel env => Sem.execList F fuel env ss) :=
  (allS F (sizeOf ss + 1)).stmts ss (Nat.lt_succ_self _) B h

end UgoVerif.CompSim
