import UgoVerif.Proofs.VMCallSiteOps
/-
  Call-site invariant of the frame stack, part 2 (definitions, calculus, primitives, the three
  hand-proved leaves and the non-calling opcodes are in `VMCallSiteOps.lean`).

  * CALL / CALLNAME: `cstr_callCompiled`, `cstr_callAny`, `cstr_execCall`, `cstr_execCallName` — the fact
    "the opcode byte at `vm.ip` of the current function is CALL / CALLNAME, and `G` holds there"
    (`CsInv G (some p)`) is carried from the dispatch to the frame push.
  * `step_inv` / `step_callSites`: one instruction, all 44 opcodes, every path.
  * `handlePanic_inv` / `handlePanic_callSites`: recovered Go panics.
  * `callSites_init`, `callSites_prologue`: the first boundary.
  * `Boundary`, `reach_callSites`: every instruction boundary of a run.
  * `execReturn_resumes`: what a popping `return` finds.
  * `searchFrames_exact`, `searchFrames_result`: the frame search of `throw`, exactly.
-/
namespace UgoVerif.VM
open UgoVerif UgoVerif.Go

set_option maxHeartbeats 1600000
section
variable {G : Code → Nat → Prop}
local notation "PA" => CsInv G none

syntax "cs_prim" : tactic
macro_rules | `(tactic| cs_prim) => `(tactic| exact tr_callTail _ _ _ _ _)
macro_rules | `(tactic| cs_prim) => `(tactic| keeps_hyp)

/-- decomposition of the part of a CALL / CALLNAME before the frame push: the call-site part of
    the invariant (`CsInv G (some p0)`) is carried as long as the actions keep it, and dropped
    (`CsInv.weaken`) on the branches that do not push (builtin call, tail call, error) -/
syntax "trk" : tactic
set_option hygiene false in
macro_rules | `(tactic| trk) => `(tactic|
  repeat (first
    | with_reducible cs_prim
    | (refine CsTr.getIp_bind (fun _ h => h.1 _ rfl) ?_)
    | (refine CsTr.bind_keeps ?_ (fun _ h => CsInv.weaken h) ?_; (· ckeeps (CsInv G (some p0))))
    | (refine CsTr.bind_then ?_ ?_; (· with_reducible cs_prim); (· (intro _; ckeeps (CsInv G none))))
    | (refine CsTr.of_keeps ?_ (fun _ h => CsInv.weaken h); (· ckeeps (CsInv G none)))
    | apply CsTr.ite
    | ((first | lift_lets | skip); intro jp__;
       first
       | (have hjp__ : ∀ a__, CsTr (CsInv G (some p0)) (CsInv G none) (jp__ a__) := by
            (intro a__; dsimp only [jp__]; trk)
          clear_value jp__)
       | clear_value jp__)
    | intro _
    | split
    | dsimp only))

/-- `xOpCallCompiled`, every path: argument binding errors and the stack-overflow error return
    before any frame is touched, a self tail call reuses the current frame, the push stores
    `p0 + 2` in the caller's frame whose function has a CALL / CALLNAME opcode byte at `p0` -/
theorem cstr_callCompiled (p0 : Int) (fa : Addr) (na fl : Int) :
    CsTr (CsInv G (some p0)) PA (callCompiled fa na fl) := by
  unfold callCompiled; trk
macro_rules | `(tactic| cs_prim) => `(tactic| exact cstr_callCompiled _ _ _ _)

theorem cstr_callAny (p0 : Int) (c : V) (na fl : Int) : CsTr (CsInv G (some p0)) PA (callAny c na fl) := by
  unfold callAny; trk
macro_rules | `(tactic| cs_prim) => `(tactic| exact cstr_callAny _ _ _ _)

/-- `OpCall` dispatched at `p0` -/
theorem cstr_execCall (p0 : Int) : CsTr (CsInv G (some p0)) PA execCall := by
  unfold execCall; trk

/-- `OpCallName` dispatched at `p0` -/
theorem cstr_execCallName (p0 : Int) : CsTr (CsInv G (some p0)) PA execCallName := by
  unfold execCallName; trk

/-! ### `dispatch` and `step` -/

theorem Keeps.ite_cond {α} {X : State → Prop} {c : Prop} [Decidable c] {a b : M α}
    (ha : c → Keeps X a) (hb : ¬ c → Keeps X b) : Keeps X (if c then a else b) := by
  split
  · exact ha ‹_›
  · exact hb ‹_›

/-- every opcode but CALL / CALLNAME keeps the invariant -/
theorem ck_dispatch_other (F : FloatOps) (op : Nat) (h1 : op ≠ OpCall) (h2 : op ≠ OpCallName) :
    Keeps PA (dispatch F op) := by
  unfold dispatch
  repeat (first
    | with_reducible ck_prim
    | (apply Keeps.ite_cond <;> intro hc)
    | exact absurd (eq_of_beq hc) h1
    | exact absurd (eq_of_beq hc) h2)

/-- `dispatch`: at a CALL / CALLNAME the call-site part of the invariant is needed in addition -/
theorem cstr_dispatch (F : FloatOps) (op : Nat) (p0 : Int) :
    CsTr (fun s => CsInv G none s ∧ ((op = OpCall ∨ op = OpCallName) → CsInv G (some p0) s)) PA (dispatch F op) := by
  apply CsTr.intro'; intro s hs
  obtain ⟨hA, hB⟩ := hs
  by_cases h1 : op = OpCall
  · subst h1
    have e : dispatch F OpCall = execCall := rfl
    rw [e]; exact (cstr_execCall p0).elim s (hB (Or.inl rfl))
  · by_cases h2 : op = OpCallName
    · subst h2
      have e : dispatch F OpCallName = execCallName := rfl
      rw [e]; exact (cstr_execCallName p0).elim s (hB (Or.inr rfl))
    · exact (ck_dispatch_other F op h1 h2).elim s hA

theorem cs_instAt_ok {i : Int} {op : Nat} {s s' : State} (h : exec (instAt i) s = (.ok op, s')) :
    s' = s ∧ ∃ fa c fr, (s.frames[s.curFrame]!).fn = some fa ∧ s.heap[fa]? = some (Cell.fn c fr) ∧ 0 ≤ i ∧
      i < ((s.codes[c]!).insts.size : Int) ∧ ((s.codes[c]!).insts[i.toNat]!).toNat = op := by
  simp only [instAt, curCode, exec_bind, Live.exec_curFrame] at h
  cases hfn : (s.frames[s.curFrame]!).fn with
  | none => rw [hfn] at h; simp only [exec_panic] at h; cases h
  | some fa =>
    rw [hfn] at h
    simp only [exec_bind, exec_heapGet] at h
    cases hc : s.heap[fa]? with
    | none => rw [hc] at h; cases h
    | some x =>
      rw [hc] at h
      cases x with
      | fn c fr =>
        simp only [exec_bind, exec_getS, exec_pure] at h
        by_cases hb : (decide (i < 0) || decide (i ≥ ((s.codes[c]!).insts.size : Int))) = true
        · rw [if_pos hb] at h; cases h
        · rw [if_neg hb] at h
          simp only [Bool.or_eq_true, decide_eq_true_eq, not_or, Int.not_lt, ge_iff_le, Int.not_le] at hb
          have e1 := (Prod.mk.inj h).1
          have e2 := (Prod.mk.inj h).2
          refine ⟨e2.symm, fa, c, fr, rfl, hc, hb.1, hb.2, ?_⟩
          injection e1
      | _ => simp only [exec_unsupported] at h; cases h

/-- **one instruction, every path**: from an instruction boundary where the invariant holds and
    `G` is known for the instruction about to be dispatched, the invariant holds in the state
    `step` leaves — at the next boundary, at a `return` of the loop, at a Go panic site, and
    when the run leaves the model -/
theorem step_inv (F : FloatOps) :
    CsTr (fun s => CsInv G none s ∧ (s.err = none → DispG G s)) PA (step F) := by
  apply CsTr.intro'; intro s hs
  obtain ⟨hA, hD⟩ := hs
  unfold step
  have e1 : exec (bumpIp 1) s = (.ok (), { s with ip := s.ip + 1 }) := rfl
  rw [exec_bind, e1]
  simp only
  have e2 : exec getIp { s with ip := s.ip + 1 } = (.ok (s.ip + 1), { s with ip := s.ip + 1 }) := rfl
  rw [exec_bind, e2]
  simp only
  rw [exec_bind]
  have hA1 : CsInv G none { s with ip := s.ip + 1 } := ⟨fun _ hp => (nomatch hp), hA.2⟩
  have k1 := (ck_instAt (G := G) (o := none) (s.ip + 1)).elim _ hA1
  rcases hx : exec (instAt (s.ip + 1)) { s with ip := s.ip + 1 } with ⟨r, s2⟩
  rw [hx] at k1
  cases r with
  | error x => exact k1
  | ok op =>
    simp only
    obtain ⟨es, fa, c, fr, hfn, hheap, h0, hlt, hop⟩ := cs_instAt_ok hx
    subst es
    rw [exec_bind]
    have k2 := (ck_noteTrace (G := G) (o := none) op).elim _ hA1
    have k3 : (op = OpCall ∨ op = OpCallName) →
        CsInv G (some (s.ip + 1)) (exec (noteTrace op) { s with ip := s.ip + 1 }).2 := by
      intro hcall
      refine (ck_noteTrace (G := G) (o := some (s.ip + 1)) op).elim _ ?_
      refine ⟨fun p hp => ?_, fun he => ⟨(hA.2 he).1, fun p hp => ?_⟩⟩
      · cases hp; rfl
      · cases hp
        exact ⟨fa, c, fr, hfn, hheap, h0, hlt, by rw [hop]; exact hcall, hD he fa c fr hfn hheap⟩
    rcases hy : exec (noteTrace op) { s with ip := s.ip + 1 } with ⟨r3, s3⟩
    rw [hy] at k2 k3
    cases r3 with
    | error x => exact k2
    | ok u => exact (cstr_dispatch F op (s.ip + 1)).elim s3 ⟨k2, k3⟩

theorem CsInv.of_callSites {s : State} (h : CallSites G s) : CsInv G none s :=
  ⟨fun _ hp => (nomatch hp), fun _ => ⟨(callSites_iff G s).mp h, fun _ hp => (nomatch hp)⟩⟩

theorem CsInv.callSites {o : Option Int} {s : State} (h : CsInv G o s) (he : s.err = none) : CallSites G s :=
  (callSites_iff G s).mpr (h.2 he).1

/-- **`step_callSites`**: one instruction from an instruction boundary to the next one — any of the
    44 opcodes, with the frame push of a call, the pop of a return, and a thrown error taken by a
    handler of the current or a lower frame — keeps the call-site invariant. -/
theorem step_callSites (F : FloatOps) {s : State} (hcs : CallSites G s) (hd : DispG G s) (s' : State)
    (hstep : exec (step F) s = (.ok .next, s')) (herr : s'.err = none) : CallSites G s' := by
  have := (step_inv (G := G) F).elim s ⟨CsInv.of_callSites hcs, fun _ => hd⟩
  rw [hstep] at this
  exact this.callSites herr

/-- the same for every way `step` can end (`.ret`, a Go panic, leaving the model): if `vm.err`
    is not set in the state it leaves, the call-site invariant holds there -/
theorem step_callSites_any (F : FloatOps) {s : State} (hcs : CallSites G s) (hd : DispG G s)
    (he : (exec (step F) s).2.err = none) : CallSites G (exec (step F) s).2 :=
  ((step_inv (G := G) F).elim s ⟨CsInv.of_callSites hcs, fun _ => hd⟩).callSites he

/-! ### recovered Go panics -/

/-- `handlePanic` (run on the partial state a Go panic leaves) keeps the invariant: it throws a
    script error from that state, or sets `vm.err` -/
theorem handlePanic_inv (m : String) : Keeps PA (handlePanic m) := by
  unfold handlePanic; ckeeps (CsInv G none)

/-- **`handlePanic_callSites`**: an instruction panics (Go run-time panic at any panic site of any
    opcode), `handlePanic` turns the panic into a thrown script error which a handler takes
    (`vm.err` stays unset): the loop is re-entered at a state with the call-site invariant. -/
theorem handlePanic_callSites (F : FloatOps) {s : State} (hcs : CallSites G s) (hd : DispG G s)
    (msg : String) (s1 : State) (hstep : exec (step F) s = (.error (.panic msg), s1))
    (he : (exec (handlePanic msg) s1).2.err = none) : CallSites G (exec (handlePanic msg) s1).2 := by
  have h1 := (step_inv (G := G) F).elim s ⟨CsInv.of_callSites hcs, fun _ => hd⟩
  rw [hstep] at h1
  exact ((handlePanic_inv (G := G) msg).elim s1 h1).callSites he

/-! ### the initial state -/

/-- **`callSites_init`**: with one frame on the frame stack nothing is below the current frame -/
theorem callSites_init {s : State} (h0 : s.curFrame = 0) (h1 : s.frameIndex = 1)
    (hsz : s.frames.size = frameSize) : CallSites G s :=
  { link := by rw [h0, h1]; rfl
    size := hsz
    lt := by rw [h0]; decide
    inv := fun i hi => by rw [h0] at hi; exact absurd hi (Nat.not_lt_zero i) }

end

/-- the size of the frame array -/
@[reducible] def FramesSz (n : Nat) (s : State) : Prop := s.frames.size = n

section
variable {n : Nat}
theorem fs_alloc (c : Cell) : Keeps (FramesSz n) (alloc c) := by
  apply Keeps.intro'; intro s h; exact h
macro_rules | `(tactic| ck_prim) => `(tactic| exact fs_alloc _)
theorem fs_stackSet (i : Int) (v : V) : Keeps (FramesSz n) (stackSet i v) := by unfold stackSet; ckeeps (FramesSz n)
macro_rules | `(tactic| ck_prim) => `(tactic| exact fs_stackSet _ _)
theorem fs_heapGet (a : Addr) : Keeps (FramesSz n) (heapGet a) := by unfold heapGet; ckeeps (FramesSz n)
macro_rules | `(tactic| ck_prim) => `(tactic| exact fs_heapGet _)
theorem fs_fnCell (a : Addr) : Keeps (FramesSz n) (fnCell a) := by unfold fnCell; ckeeps (FramesSz n)
macro_rules | `(tactic| ck_prim) => `(tactic| exact fs_fnCell _)
theorem fs_fillUndefined (lo : Int) (k : Nat) : Keeps (FramesSz n) (fillUndefined lo k) := by unfold fillUndefined; ckeeps (FramesSz n)
macro_rules | `(tactic| ck_prim) => `(tactic| exact fs_fillUndefined _ _)
theorem fs_newArray (xs : List V) : Keeps (FramesSz n) (newArray xs) := by unfold newArray; ckeeps (FramesSz n)
macro_rules | `(tactic| ck_prim) => `(tactic| exact fs_newArray _)
theorem fs_setLocal (nl : Nat) (i : Int) (v : V) : Keeps (FramesSz n) (setLocal nl i v) := by unfold setLocal; ckeeps (FramesSz n)
macro_rules | `(tactic| ck_prim) => `(tactic| exact fs_setLocal _ _ _)
theorem fs_copyLocals (nl : Nat) (xs : List V) : Keeps (FramesSz n) (copyLocals nl xs) := by unfold copyLocals; ckeeps (FramesSz n)
macro_rules | `(tactic| ck_prim) => `(tactic| exact fs_copyLocals _ _)
theorem fs_initLocals (args : List V) : Keeps (FramesSz n) (initLocals args) := by unfold initLocals; ckeeps (FramesSz n)
macro_rules | `(tactic| ck_prim) => `(tactic| exact fs_initLocals _)
theorem fs_initCurrentFrame : Keeps (FramesSz n) initCurrentFrame := by
  unfold initCurrentFrame
  refine Keeps.bind Keeps.getS (fun s => Keeps.bind (fs_fnCell _) (fun x => ?_))
  exact Keeps.modS (fun s h => by show (s.frames.modify 0 _).size = n; simpa using h)
macro_rules | `(tactic| ck_prim) => `(tactic| exact fs_initCurrentFrame)
/-- `prologue` does not resize the frame array -/
theorem fs_prologue (g : V) (args : List V) : Keeps (FramesSz n) (prologue g args) := by unfold prologue; ckeeps (FramesSz n)
end

section
variable {G : Code → Nat → Prop}

theorem prologueB_ok {s s' : State} (h : exec prologueB s = (.ok (), s')) : s'.curFrame = 0 ∧ s'.frameIndex = 1 := by
  simp only [prologueB, initCurrentFrame, exec_bind, exec_getS, exec_fnCell] at h
  cases hc : s.heap[s.mainFn]? with
  | none => rw [hc] at h; simp at h
  | some x =>
    rw [hc] at h
    cases x with
    | fn c fr =>
      simp only [exec_modS, hc] at h
      have := (Prod.mk.inj h).2
      subst this
      exact ⟨rfl, rfl⟩
    | _ => simp at h

/-- **`callSites_prologue`**: the state a successful `prologue` (start of `Run`) leaves on a VM
    whose frame array has its Go size satisfies the call-site invariant -/
theorem callSites_prologue (g : V) (args : List V) {s s' : State} (hsz : s.frames.size = frameSize)
    (h : exec (prologue g args) s = (.ok (), s')) : CallSites G s' := by
  have hs := (fs_prologue (n := frameSize) g args).elim s hsz
  rw [h] at hs
  rw [prologue_eq, exec_bind] at h
  rcases h1 : exec (prologueA g) s with ⟨r1, s1⟩
  rw [h1] at h
  cases r1 with
  | error x => cases h
  | ok u1 =>
    simp only at h
    rw [exec_bind] at h
    rcases h2 : exec (initLocals args) s1 with ⟨r2, s2⟩
    rw [h2] at h
    cases r2 with
    | error x => cases h
    | ok u2 =>
      simp only at h
      obtain ⟨a, b⟩ := prologueB_ok h
      exact callSites_init a b hs

/-! ### all instruction boundaries of a run -/

/-- the states at which `loop` fetches an instruction: the state after the prologue; the state
    after an instruction that completed with `continue`; the state after a recovered Go panic
    (`run()` is called again) -/
inductive Boundary (F : FloatOps) (s0 : State) : State → Prop where
  | init : Boundary F s0 s0
  | step {s s' : State} : Boundary F s0 s → exec (step F) s = (.ok .next, s') → Boundary F s0 s'
  | recover {s s1 s' : State} {msg : String} : Boundary F s0 s → exec (step F) s = (.error (.panic msg), s1) →
      exec (handlePanic msg) s1 = (.ok (), s') → s'.err = none → Boundary F s0 s'

theorem reach_inv (F : FloatOps) {s0 : State} (h0 : CsInv G none s0)
    (hD : ∀ s, Boundary F s0 s → s.err = none → DispG G s) : ∀ s, Boundary F s0 s → CsInv G none s := by
  intro s hb
  induction hb with
  | init => exact h0
  | step hb hstep ih =>
    have := (step_inv (G := G) F).elim _ ⟨ih, hD _ hb⟩
    rw [hstep] at this; exact this
  | @recover s s1 s' msg hb hstep hp he ih =>
    have h1 := (step_inv (G := G) F).elim _ ⟨ih, hD _ hb⟩
    rw [hstep] at h1
    have h2 := (handlePanic_inv (G := G) msg).elim _ h1
    rw [hp] at h2; exact h2

/-- **`reach_callSites`**: the call-site invariant holds at every instruction boundary of a run
    (with `vm.err` unset, as it is whenever the loop goes on), provided `G` is known for the
    instruction dispatched at each boundary -/
theorem reach_callSites (F : FloatOps) {s0 : State} (h0 : CallSites G s0)
    (hD : ∀ s, Boundary F s0 s → s.err = none → DispG G s) (s : State) (hb : Boundary F s0 s)
    (he : s.err = none) : CallSites G s :=
  (reach_inv F (CsInv.of_callSites h0) hD s hb).callSites he

/-- `CallSites` is satisfiable: a new VM after `frameIndex = 1` -/
example (codes : Array Code) (heap : Array Cell) (consts : Array V) (mainFn : Addr) (nm : Nat) :
    CallSites (fun _ _ => True) { newState codes heap consts mainFn nm with frameIndex := 1 } :=
  callSites_init rfl rfl (by simp [newState, emptyFrames])

/-! ### `OpReturn` resumes the caller behind its call instruction -/

/-- a `return` that pops a frame: the new current frame is suspended at a CALL / CALLNAME of its
    own function, `vm.ip` is that frame's saved `ip` (the last operand byte of the call) -/
theorem execReturn_resumes {s s' : State} (hcs : CallSites G s)
    (h : exec execReturn s = (.ok .next, s')) (he : s'.err = none) :
    s'.ip = (s'.frames[s'.curFrame]!).ip ∧ CallAt G s' (s'.frames[s'.curFrame]!) (s'.ip - 2) := by
  rw [execReturn_eq, exec_bind] at h
  have k := (ck_retHead (G := G)).elim s (CsInv.of_callSites hcs)
  rcases hx : exec retHead s with ⟨r, s1⟩
  rw [hx] at h k
  cases r with
  | error x => cases h
  | ok u =>
    simp only at h k
    rw [exec_retTail] at h
    by_cases h1 : (s1.frameIndex == 1) = true
    · rw [if_pos h1] at h; cases h
    · rw [if_neg h1] at h
      by_cases h2 : (decide (s1.frameIndex - 2 < 0) || decide (s1.frameIndex - 2 ≥ (frameSize : Int))) = true
      · rw [if_pos h2] at h; cases h
      · rw [if_neg h2] at h
        simp only [Bool.or_eq_true, decide_eq_true_eq, not_or, Int.not_lt, ge_iff_le, Int.not_le] at h2
        cases hfn : ((s1.frames.modify s1.curFrame clearF)[(s1.frameIndex - 2).toNat]!).fn with
        | none => rw [hfn] at h; cases h
        | some a =>
          rw [hfn] at h
          have es := (Prod.mk.inj h).2
          subst es
          have he1 : s1.err = none := he
          obtain ⟨⟨hl, hsz, hlt, hinv⟩, _⟩ := k.2 he1
          have hlt' : (s1.frameIndex - 2).toNat < s1.curFrame := by omega
          have hfr : (s1.frames.modify s1.curFrame clearF)[(s1.frameIndex - 2).toNat]! =
              s1.frames[(s1.frameIndex - 2).toNat]! := by
            rw [getElem!_modify]
            have : ¬ (s1.curFrame = (s1.frameIndex - 2).toNat) := by omega
            simp [this]
          refine ⟨rfl, ?_⟩
          show CallAtF G s1.heap s1.codes ((s1.frames.modify s1.curFrame clearF)[(s1.frameIndex - 2).toNat]!).fn
            (((s1.frames.modify s1.curFrame clearF)[(s1.frameIndex - 2).toNat]!).ip - 2)
          rw [hfr]
          exact hinv _ hlt'

end

/-! ### the frame search of `throw` -/

/-- the first index below `n`, going down, whose frame has an error handler -/
def firstHandler (fr : Array Frame) : Nat → Option Nat
  | 0 => none
  | n+1 => if hasHandler (fr[n]!) = true then some n else firstHandler fr n

theorem firstHandler_congr {fr fr' : Array Frame} (n : Nat) (h : ∀ j, j < n → fr[j]! = fr'[j]!) :
    firstHandler fr n = firstHandler fr' n := by
  induction n with
  | zero => rfl
  | succ n ih =>
    simp only [firstHandler]
    rw [h n (Nat.lt_succ_self n), ih (fun j hj => h j (by omega))]

theorem firstHandler_some {fr : Array Frame} {n i : Nat} :
    firstHandler fr n = some i ↔
      i < n ∧ hasHandler (fr[i]!) = true ∧ ∀ j, i < j → j < n → hasHandler (fr[j]!) = false := by
  induction n with
  | zero => simp [firstHandler]
  | succ n ih =>
    simp only [firstHandler]
    by_cases h : hasHandler (fr[n]!) = true
    · rw [if_pos h]
      constructor
      · intro e
        have : n = i := by simpa using e
        subst this
        exact ⟨Nat.lt_succ_self _, h, fun j h1 h2 => by omega⟩
      · rintro ⟨h1, h2, h3⟩
        by_cases hin : i = n
        · rw [hin]
        · have := h3 n (by omega) (Nat.lt_succ_self _)
          rw [h] at this; cases this
    · rw [if_neg h, ih]
      have h' : hasHandler (fr[n]!) = false := by simpa using h
      constructor
      · rintro ⟨h1, h2, h3⟩
        refine ⟨by omega, h2, fun j hj1 hj2 => ?_⟩
        by_cases hjn : j = n
        · rw [hjn]; exact h'
        · exact h3 j hj1 (by omega)
      · rintro ⟨h1, h2, h3⟩
        have : i ≠ n := by intro e; rw [e] at h2; exact h h2
        exact ⟨by omega, h2, fun j hj1 hj2 => h3 j hj1 (by omega)⟩

theorem firstHandler_none {fr : Array Frame} {n : Nat} :
    firstHandler fr n = none ↔ ∀ j, j < n → hasHandler (fr[j]!) = false := by
  induction n with
  | zero => simp [firstHandler]
  | succ n ih =>
    simp only [firstHandler]
    by_cases h : hasHandler (fr[n]!) = true
    · rw [if_pos h]
      constructor
      · intro e; cases e
      · intro hall; have := hall n (Nat.lt_succ_self _); rw [h] at this; cases this
    · rw [if_neg h, ih]
      have h' : hasHandler (fr[n]!) = false := by simpa using h
      constructor
      · intro hall j hj
        by_cases hjn : j = n
        · rw [hjn]; exact h'
        · exact hall j (by omega)
      · intro hall j hj; exact hall j (by omega)

theorem modify_clrF (a : Array Frame) (c i : Nat) :
    (a.modify c clrF)[i]! = if c = i then clrF (a[i]!) else a[i]! := by
  rw [getElem!_modify]
  by_cases hci : c = i
  · by_cases hi : i < a.size
    · simp [hci, hi]
    · have : a[i]! = default := by simp [hi]
      simp only [hci, hi, and_false, if_false, if_true, this]
      rfl
  · simp [hci]

/-- the frames `searchFrames n` clears: those below `n` and above the frame it stops at -/
def SearchVisited (fr : Array Frame) (n j : Nat) : Prop :=
  j < n ∧ ∀ i, firstHandler fr n = some i → i < j

/-- **the frame search of `throw`, exactly**: called with `n = frameIndex - 1` (the index of the
    current frame) it never panics, returns the first index below `n` — going down from `n - 1` —
    whose frame has a handler (`none` if there is none), clears `fn` / `freeVars` of exactly the
    frames it passed, and leaves every other frame (and the rest of the state) alone -/
theorem searchFrames_exact (n : Nat) : ∀ s : State, n ≤ frameSize →
    (exec (searchFrames n) s).1 = .ok (firstHandler s.frames n) ∧
    (∀ j, SearchVisited s.frames n j → (exec (searchFrames n) s).2.frames[j]! = clrF (s.frames[j]!)) ∧
    (∀ j, ¬ SearchVisited s.frames n j → (exec (searchFrames n) s).2.frames[j]! = s.frames[j]!) := by
  induction n with
  | zero =>
    intro s _
    rw [exec_searchFrames_zero]
    exact ⟨rfl, fun j hv => absurd hv.1 (Nat.not_lt_zero j), fun _ _ => rfl⟩
  | succ n ih =>
    intro s hn
    rw [exec_searchFrames_succ]
    have h1 : ¬ (n ≥ frameSize) := by omega
    rw [if_neg h1]
    by_cases h2 : hasHandler (s.frames[n]!) = true
    · rw [if_pos h2]
      have hf : firstHandler s.frames (n + 1) = some n := by simp only [firstHandler]; rw [if_pos h2]
      refine ⟨by rw [hf], fun j hv => ?_, fun _ _ => rfl⟩
      have := hv.2 n hf
      have := hv.1
      omega
    · rw [if_neg h2]
      have hf : firstHandler s.frames (n + 1) = firstHandler s.frames n := by
        simp only [firstHandler]; rw [if_neg h2]
      have hc : firstHandler (s.frames.modify n clrF) n = firstHandler s.frames n :=
        firstHandler_congr n (fun j hj => by
          rw [modify_clrF]
          have : ¬ (n = j) := by omega
          simp [this])
      obtain ⟨e1, e2, e3⟩ := ih { s with frames := s.frames.modify n clrF } (by omega)
      have e1' : (exec (searchFrames n) { s with frames := s.frames.modify n clrF }).1 =
          .ok (firstHandler (s.frames.modify n clrF) n) := e1
      have hvis : ∀ j, SearchVisited (s.frames.modify n clrF) n j ↔ (j < n ∧ SearchVisited s.frames (n + 1) j) := by
        intro j
        unfold SearchVisited
        rw [hc, hf]
        constructor
        · rintro ⟨a, b⟩; exact ⟨a, by omega, b⟩
        · rintro ⟨a, _, b⟩; exact ⟨a, b⟩
      refine ⟨by rw [e1', hc, hf], fun j hv => ?_, fun j hv => ?_⟩
      · by_cases hjn : j = n
        · subst hjn
          have hnv : ¬ SearchVisited (s.frames.modify j clrF) j j := fun hv' => absurd hv'.1 (Nat.lt_irrefl j)
          rw [e3 j hnv]
          show (s.frames.modify j clrF)[j]! = _
          rw [modify_clrF]; simp
        · have hjlt : j < n := by have := hv.1; omega
          rw [e2 j ((hvis j).mpr ⟨hjlt, hv⟩)]
          show clrF ((s.frames.modify n clrF)[j]!) = _
          rw [modify_clrF]
          have : ¬ (n = j) := by omega
          simp [this]
      · have hjn : j ≠ n := by
          intro e; subst e
          apply hv
          refine ⟨Nat.lt_succ_self _, fun i hi => ?_⟩
          rw [hf] at hi
          exact (firstHandler_some.mp hi).1
        have hnv : ¬ SearchVisited (s.frames.modify n clrF) n j := fun hv' => hv ((hvis j).mp hv').2
        rw [e3 j hnv]
        show (s.frames.modify n clrF)[j]! = _
        rw [modify_clrF]
        have : ¬ (n = j) := by omega
        simp [this]

/-- read through `firstHandler_some` / `firstHandler_none`: the index returned is the first one
    below the current frame with a handler; all frames passed had none -/
theorem searchFrames_result (n : Nat) (s : State) (hn : n ≤ frameSize) :
    (∀ i, (exec (searchFrames n) s).1 = .ok (some i) ↔
      (i < n ∧ hasHandler (s.frames[i]!) = true ∧ ∀ j, i < j → j < n → hasHandler (s.frames[j]!) = false)) ∧
    ((exec (searchFrames n) s).1 = .ok none ↔ ∀ j, j < n → hasHandler (s.frames[j]!) = false) := by
  rw [(searchFrames_exact n s hn).1]
  refine ⟨fun i => ?_, ?_⟩
  · rw [← firstHandler_some]
    constructor
    · intro e; injection e
    · intro e; rw [e]
  · rw [← firstHandler_none]
    constructor
    · intro e; injection e
    · intro e; rw [e]

end UgoVerif.VM
