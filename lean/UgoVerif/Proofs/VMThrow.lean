import UgoVerif.Proofs.VMKeeps
/-
  C06 helper layer 3: the error path — `clearDown`, `searchFrames`, `throwF`/`handle`
  (vm.go throw / handleThrownError), `throwGenErr`, `failWith`, `handlePanic`, and the
  adequacy of the model's throw fuel.
-/
set_option linter.unusedSimpArgs false
set_option linter.unusedVariables false
set_option mvcgen.warning false
namespace UgoVerif.Proofs.VM
open UgoVerif UgoVerif.Go UgoVerif.VM Std.Do

theorem range_cur_lt {n : Nat} {pref suff : List Nat} {cur : Nat}
    (h : ([:n] : Std.Legacy.Range).toList = pref ++ cur :: suff) : cur < n := by
  have : cur ∈ ([:n] : Std.Legacy.Range).toList := by rw [h]; simp
  simp [Std.Legacy.Range.toList, List.mem_range'] at this
  omega

/-- `for i := hi; i >= lo; i-- { vm.stack[i] = nil }` keeps the control part and, when
    `0 ≤ lo` and `hi < 2048` (the guard `G`), does not panic -/
theorem clearDown_spec (hi lo : Int) (c0 : CP) (G : Prop) :
    ⦃fun s => ⌜c0 = cp s ∧ (G → 0 ≤ lo ∧ hi < 2048)⌝⦄ clearDown hi lo
    ⦃post⟨fun _ s => ⌜cp s = c0⌝, fun e s => ⌜cp s = c0 ∧ ¬G ∧ ∃ m, e = .panic m⌝⟩⦄ := by
  mvcgen [clearDown, stackSet, modS, UgoVerif.VM.panic]
  invariants
  · post⟨fun _ s => ⌜cp s = c0⌝, fun e s => ⌜cp s = c0 ∧ ¬G ∧ ∃ m, e = .panic m⌝⟩
  all_goals try (have hlt := range_cur_lt (by assumption))
  all_goals simp_all +zetaDelta [cp, stackSize]
  all_goals (intro g; simp_all; omega)

/-- everything of the control part except `frames`, `curFrame`, `frameIndex`, `sp` -/
def RestSame (c0 : CP) (s : State) : Prop :=
  s.err = c0.err ∧ s.noPanic = c0.noPanic ∧ s.mainFn = c0.mainFn ∧ s.codes = c0.codes ∧ s.abort = c0.abort

theorem searchFrames_spec (G : Prop) (n : Nat) : ∀ (c0 : CP),
    ⦃fun s => ⌜c0 = cp s ∧ VInv s ∧ (G → n ≤ frameSize)⌝⦄ searchFrames n
    ⦃post⟨fun r s => ⌜VInv s ∧ RestSame c0 s ∧ s.sp = c0.sp ∧ s.curFrame = c0.curFrame ∧ s.frameIndex = c0.frameIndex ∧
              totalH s.frames = totalH c0.frames ∧ (∀ i, r = some i → i < n ∧ hasHandler s.frames[i]! = true)⌝,
          fun e s => ⌜VInv s ∧ RestSame c0 s ∧ ¬G ∧ ∃ m, e = .panic m⌝⟩⦄ := by
  induction n with
  | zero =>
    intro c0; unfold searchFrames
    mvcgen
    rename_i h; obtain ⟨hc, hv, hg⟩ := h; subst hc
    simp_all [cp, RestSame]
  | succ n ih =>
    intro c0; unfold searchFrames
    mvcgen [getS, modS, UgoVerif.VM.panic, ih]
    · rename_i h1 s h; obtain ⟨hc, hv, hg⟩ := h
      subst hc
      exact ⟨hv, by simp [cp, RestSame], fun g => by have := hg g; omega, _, rfl⟩
    · rename_i s h f hh; obtain ⟨hc, hv, hg⟩ := h; subst hc
      refine ⟨hv, by simp [cp, RestSame], rfl, rfl, rfl, rfl, ?_⟩
      intro i hi; simp at hi; subst hi; exact ⟨by omega, hh⟩
    · rename_i s h f hh t; obtain ⟨hc, hv, hg⟩ := h
      refine ⟨trivial, ?_, fun g => by have := hg g; omega⟩
      simp only [VInv, t] at hv ⊢
      apply hv.modify
      exact frameOK_of_not_hasHandler (hv.get! n) _ rfl (by simpa using hh)
    · rename_i s1 h f hh t r s; obtain ⟨hc, hv, hg⟩ := h; subst hc
      intro hv' hrs hsp hcur hfi htot hr6
      have ht : totalH t.2.frames = totalH s1.frames := by
        simp only [t]; apply totalH_modify_same; intro f; rfl
      refine ⟨hv', ?_, ?_, ?_, ?_, ?_, ?_⟩ <;> simp_all +zetaDelta [cp, RestSame]
      intro i hi; have := hr6 i hi; omega
    · rename_i s1 h f hh t e s; obtain ⟨hc, hv, hg⟩ := h; subst hc
      intro hv' hrs hg' hm
      refine ⟨hv', ?_, hg', hm⟩
      simp_all +zetaDelta [cp, RestSame]

/-! ### throw / handleThrownError -/

/-- the thrown error is now pending in the innermost handler of the current frame and the VM
    continues at that handler's catch (or finally) block with the handler's stack pointer -/
def Delivered (err : Addr) (s : State) : Prop :=
  ∃ h, lastHandler (s.frames[s.curFrame]!) = some h ∧ h.err = some err ∧ s.sp = h.sp ∧
    ((0 < h.catch_ ∧ s.ip = h.catch_ - 1) ∨ (¬ 0 < h.catch_ ∧ 0 < h.finally_ ∧ s.ip = h.finally_ - 1))

/-- `G`: the guard of `handlePanic` holds (`sp < stackSize`, `frameIndex ≤ frameSize`);
    `H`: the fuel covers all handlers of all frames -/
def ThrowPre (G H : Prop) (fuel : Nat) (s : State) : Prop :=
  VInv s ∧ (G → s.sp < 2048 ∧ s.frameIndex ≤ 1024) ∧ (H → totalH s.frames < fuel)

def ThrowOk (c0 : CP) (err : Addr) (r : Option Addr) (s : State) : Prop :=
  VInv s ∧ RestSame c0 s ∧ (r = none → 0 ≤ s.sp ∧ curFn s ≠ none ∧ Delivered err s) ∧ (∀ e, r = some e → e = err)

def ThrowExc (G H : Prop) (c0 : CP) (e : Exc) (s : State) : Prop :=
  VInv s ∧ RestSame c0 s ∧ (match e with | .panic _ => ¬G | .unsupported _ => ¬H)

/-- `handler.err = err` on the innermost handler of the current frame -/
def setErrF (err : Addr) (f : Frame) : Frame :=
  setLast f fun h => { h with err := some err }

theorem handle_facts {fr : Array Frame} {c n : Nat} {err : Addr} {h : Handler} (hv : CInv fr c n)
    (hx : lastHandler (fr.modify c (setErrF err))[c]! = some h) :
    0 ≤ h.sp ∧ h.err = some err ∧ CInv (fr.modify c (setErrF err)) c n ∧ ((fr.modify c (setErrF err))[c]!).fn ≠ none ∧
      hasHandler ((fr.modify c (setErrF err))[c]!) = true ∧ totalH (fr.modify c (setErrF err)) = totalH fr := by
  have hc := hv.lt_size
  have hok : FrameOK (setErrF err fr[c]!) := frameOK_setLast (hv.get! c) _ (fun x hx => hx)
  have hv' : CInv (fr.modify c (setErrF err)) c n := hv.modify c _ hok
  rw [get!_modify_self _ _ _ hc] at hx ⊢
  have hh : hasHandler (setErrF err fr[c]!) = true := hasHandler_of_last hx
  refine ⟨lastHandler_sp hok hx, ?_, hv', hok.1 hh, hh, ?_⟩
  · simp only [setErrF, lastHandler_setLast] at hx
    cases hl : lastHandler fr[c]! with
    | none => simp [hl] at hx
    | some h0 => simp [hl] at hx; subst hx; rfl
  · exact totalH_modify_same _ _ _ (fun f => nh_setLast f _)

theorem handle_some {fr : Array Frame} {c n : Nat} {err : Addr} (hv : CInv fr c n) (hh : hasHandler fr[c]! = true) :
    lastHandler (fr.modify c (setErrF err))[c]! ≠ none := by
  rw [get!_modify_self _ _ _ hv.lt_size]
  obtain ⟨x, hx⟩ := lastHandler_some hh
  simp [setErrF, lastHandler_setLast, hx]

theorem pop_facts {fr : Array Frame} {c n : Nat} (hv : CInv fr c n) (hh : hasHandler fr[c]! = true) :
    CInv (fr.modify c popHandler) c n ∧ totalH (fr.modify c popHandler) + 1 = totalH fr := by
  have hc := hv.lt_size
  refine ⟨hv.modify c _ (frameOK_popHandler (hv.get! c)), ?_⟩
  have := totalH_modify fr c popHandler hc
  rw [getElem!_pos fr c hc] at hh
  have := nh_popHandler hh
  omega

theorem handle_done {s1 s : State} {err : Addr} {h : Handler} (hv : VInv s1)
    (x : lastHandler (s1.frames.modify s1.curFrame (setErrF err))[s1.curFrame]! = some h)
    (hfr : s.frames = s1.frames.modify s1.curFrame (setErrF err)) (hcur : s.curFrame = s1.curFrame)
    (hsz : s.stack.size = s1.stack.size) (hrest : RestSame (cp s1) s) (hsp : s.sp = h.sp)
    (hip : (0 < h.catch_ ∧ s.ip = h.catch_ - 1) ∨ (¬ 0 < h.catch_ ∧ 0 < h.finally_ ∧ s.ip = h.finally_ - 1)) :
    ThrowOk (cp s1) err none s := by
  have hf := handle_facts hv x
  refine ⟨?_, hrest, fun _ => ⟨by rw [hsp]; exact hf.1, ?_, ?_⟩, fun e he => by simp at he⟩
  · simp only [VInv]; rw [hfr, hcur, hsz]; exact hf.2.2.1
  · simp only [curFn]; rw [hfr, hcur]; exact hf.2.2.2.1
  · exact ⟨h, by rw [hfr, hcur]; exact x, hf.2.1, hsp, hip⟩

theorem handle_spec (G H : Prop) (fuel : Nat)
    (ih : ∀ (err : Addr) (c0 : CP), ⦃fun s => ⌜c0 = cp s ∧ ThrowPre G H fuel s⌝⦄ throwF fuel err
        ⦃post⟨fun r s => ⌜ThrowOk c0 err r s⌝, fun e s => ⌜ThrowExc G H c0 e s⌝⟩⦄) (err : Addr) :
    ∀ (c0 : CP),
    ⦃fun s => ⌜c0 = cp s ∧ (ThrowPre G H (fuel + 1) s ∧ hasHandler (s.frames[s.curFrame]!) = true)⌝⦄
      throwF.handle fuel err
    ⦃post⟨fun r s => ⌜ThrowOk c0 err r s⌝, fun e s => ⌜ThrowExc G H c0 e s⌝⟩⦄ := by
  apply triple_of_fixed
  intro s0 ⟨⟨hv, hG, hH⟩, hh⟩
  have cd := fun hi lo c0 => clearDown_spec hi lo c0 G
  unfold throwF.handle
  simp only [show ∀ f : Frame, (setLast f fun h => { h with err := some err }) = setErrF err f from fun _ => rfl]
  mvcgen [setCurFrame, curFrame, getS, modS, setIp, getSp, setSp, UgoVerif.VM.panic, ih, cd]
  all_goals subst_vars
  all_goals (try simp only [wrap_iff])
  · rename_i s t x; exact absurd x (handle_some hv hh)
  · rename_i s t1 h x hc t hge
    have hf := handle_facts hv x
    exact ⟨trivial, fun g => ⟨hf.1, (hG g).1⟩⟩
  · rename_i s1 t2 h x hc t1 hge r s hcp t
    have hs := (same_iff _ _).mp hcp
    apply handle_done hv x (s := t.2) hs.1 hs.2.2.1 hs.2.2.2.2.1 ?_ rfl (Or.inl ⟨hc, hs.2.2.2.2.2.2.2.2.2.2⟩)
    simp_all +zetaDelta [RestSame, cp]
  · rename_i s1 t1 h x hc t hge e s
    intro hcp hng hm
    have hs := (same_iff _ _).mp hcp
    have hf := handle_facts hv x
    obtain ⟨m, hm⟩ := hm; subst hm
    refine ⟨?_, ?_, hng⟩
    · simp only [VInv]; rw [hs.1, hs.2.2.1, hs.2.2.2.2.1]; exact hf.2.2.1
    · simp_all +zetaDelta [RestSame, cp]
  · rename_i s1 t2 h x hc t1 hge t
    apply handle_done hv x (s := t.2) rfl rfl rfl ?_ rfl (Or.inl ⟨hc, rfl⟩)
    simp +zetaDelta [RestSame, cp]
  · rename_i s t1 h x hc hf' t hge
    have hf := handle_facts hv x
    exact ⟨trivial, fun g => ⟨hf.1, (hG g).1⟩⟩
  · rename_i s1 t2 h x hc hf' t1 hge r s hcp t
    have hs := (same_iff _ _).mp hcp
    apply handle_done hv x (s := t.2) hs.1 hs.2.2.1 hs.2.2.2.2.1 ?_ rfl (Or.inr ⟨hc, hf', hs.2.2.2.2.2.2.2.2.2.2⟩)
    simp_all +zetaDelta [RestSame, cp]
  · rename_i s1 t1 h x hc hf' t hge e s
    intro hcp hng hm
    have hs := (same_iff _ _).mp hcp
    have hf := handle_facts hv x
    obtain ⟨m, hm⟩ := hm; subst hm
    refine ⟨?_, ?_, hng⟩
    · simp only [VInv]; rw [hs.1, hs.2.2.1, hs.2.2.2.2.1]; exact hf.2.2.1
    · simp_all +zetaDelta [RestSame, cp]
  · rename_i s1 t2 h x hc hf' t1 hge t
    apply handle_done hv x (s := t.2) rfl rfl rfl ?_ rfl (Or.inr ⟨hc, hf', rfl⟩)
    simp +zetaDelta [RestSame, cp]
  · rename_i s t1 h x hc hf' t
    have hf := handle_facts hv x
    have hp := pop_facts hf.2.2.1 hf.2.2.2.2.1
    refine ⟨trivial, hp.1, hG, fun hh' => ?_⟩
    have := hH hh'
    have h1 : totalH t.2.frames + 1 = totalH t1.2.frames := hp.2
    have h2 : totalH t1.2.frames = totalH s.frames := hf.2.2.2.2.2
    omega
  · rename_i s1 t1 h x hc hf' t r s
    intro hok
    obtain ⟨h1, h2, h3, h4⟩ := hok
    exact ⟨h1, by simp_all +zetaDelta [RestSame, cp], h3, h4⟩
  · rename_i s1 t1 h x hc hf' t e s
    intro hex
    obtain ⟨h1, h2, h3⟩ := hex
    exact ⟨h1, by simp_all +zetaDelta [RestSame, cp], h3⟩

theorem lt_of_hasHandler_get! {fr : Array Frame} {i : Nat} (h : hasHandler fr[i]! = true) : i < fr.size := by
  by_cases hi : i < fr.size
  · exact hi
  · rw [getElem!_neg fr i hi] at h
    have := frameOK_default
    simp [hasHandler, default, instInhabitedFrame, instInhabitedFrame.default] at h

theorem throwF_spec (G H : Prop) (fuel : Nat) : ∀ (err : Addr) (c0 : CP),
    ⦃fun s => ⌜c0 = cp s ∧ ThrowPre G H fuel s⌝⦄ throwF fuel err
    ⦃post⟨fun r s => ⌜ThrowOk c0 err r s⌝, fun e s => ⌜ThrowExc G H c0 e s⌝⟩⦄ := by
  induction fuel with
  | zero =>
    intro err
    apply triple_of_fixed
    intro s0 ⟨hv, hG, hH⟩
    unfold throwF
    mvcgen [unsupported]
    subst_vars
    simp only [wrap_iff]
    exact ⟨hv, by simp [RestSame, cp], fun h => by have := hH h; omega⟩
  | succ fuel ih =>
    intro err
    have hh := fun err => handle_spec G H fuel ih err
    have sf := fun n => searchFrames_spec G n
    apply triple_of_fixed
    intro s0 ⟨hv, hG, hH⟩
    unfold throwF
    mvcgen [curFrame, getS, modS, setIp, UgoVerif.VM.panic, hh, sf]
    all_goals subst_vars
    all_goals (try simp only [wrap_iff])
    · exact ⟨trivial, ⟨hv, hG, hH⟩, by assumption⟩
    · exact id
    · exact id
    · exact ⟨trivial, hv, fun g => by have := (hG g).2; simp only [frameSize]; omega⟩
    · rename_i s1 hnh s i hnn t jp x hpost
      obtain ⟨hv', hrs, hsp, hcur, hfi, htot, hfound⟩ := hpost
      have hi := hfound i rfl
      have hcast : ((i : Int)).toNat = i := by omega
      have hx : (s.frames[i]!).fn = none := by
        have := x; simp only [t] at this; rw [hcast] at this; exact this
      exact absurd hx ((hv'.get! i).1 hi.2)
    · rename_i s1 hnh s i hnn t1 jp val x t hpost
      obtain ⟨hv', hrs, hsp, hcur, hfi, htot, hfound⟩ := hpost
      have hi := hfound i rfl
      have hcast : ((i : Int)).toNat = i := by omega
      have hlt : i < frameSize := by have := lt_of_hasHandler_get! hi.2; rw [hv'.1] at this; exact this
      refine ⟨trivial, ⟨?_, fun g => ?_, fun h => ?_⟩, ?_⟩
      · show CInv s.frames ((i : Int)).toNat s.stack.size
        rw [hcast]; exact hv'.cur i hlt
      · have := hG g
        have h1 : s.sp = s1.sp := hsp
        have h2 : (i : Int) < s1.frameIndex - 1 := by have := hi.1; omega
        exact ⟨by show s.sp < 2048; omega, by show (i : Int) + 1 ≤ 1024; omega⟩
      · have := hH h
        have h1 : totalH s.frames = totalH s1.frames := htot
        show totalH s.frames < fuel + 1; omega
      · show hasHandler (s.frames[((i : Int)).toNat]!) = true
        rw [hcast]; exact hi.2
    · rename_i s1 hnh s i hnn t1 jp val x t r s' hpost
      obtain ⟨hv', hrs, hsp, hcur, hfi, htot, hfound⟩ := hpost
      intro ⟨h1, h2, h3, h4⟩
      exact ⟨h1, by simp_all +zetaDelta [RestSame, cp], h3, h4⟩
    · rename_i s1 hnh s i hnn t1 jp val x t e s' hpost
      obtain ⟨hv', hrs, hsp, hcur, hfi, htot, hfound⟩ := hpost
      intro ⟨h1, h2, h3⟩
      exact ⟨h1, by simp_all +zetaDelta [RestSame, cp], h3⟩
    · rename_i s1 hnh s hnn hpost
      obtain ⟨hv', hrs, _⟩ := hpost
      exact ⟨hv', hrs, by simp, by simp⟩
    · rename_i s1 hnh e s
      intro hv' hrs hng ⟨m, hm⟩
      subst hm
      exact ⟨hv', hrs, hng⟩

/-! ### fuel adequacy, throwGenErr, failWith, handlePanic -/

theorem totalH_lt_fuel (fr : Array Frame) (g : Nat → Frame → Nat) (hg : ∀ n f, g n f = n + nh f + 1) :
    totalH fr < fr.foldl g 4 := by
  rw [← Array.foldl_toList, foldl_fuel g hg]; unfold totalH; omega

theorem throwFuel_spec (c0 : CP) :
    ⦃fun s => ⌜c0 = cp s⌝⦄ throwFuel
    ⦃post⟨fun n s => ⌜cp s = c0 ∧ totalH s.frames < n⌝, fun _ _ => ⌜False⌝⟩⦄ := by
  mvcgen [throwFuel, getS]
  rename_i s h
  exact ⟨h.symm, totalH_lt_fuel _ _ (fun n f => by cases f with | mk fn free ip bp hs d => cases hs <;> rfl)⟩

/-- outcome of `failWith` (an operation's error is thrown): either a handler took it and the loop
    goes on at an instruction boundary, or `vm.err` is set and the loop returns -/
def FailOk (c0 : CP) (r : Ctl) (s : State) : Prop :=
  VInv s ∧ s.noPanic = c0.noPanic ∧
    (match r with
     | .next => 0 ≤ s.sp ∧ curFn s ≠ none ∧ s.err = c0.err
     | .ret => s.err ≠ none)

def FailExc (c0 : CP) (s : State) : Prop := VInv s ∧ s.noPanic = c0.noPanic

theorem throwGenErr_spec (e : OpErr) : ∀ (c0 : CP),
    ⦃fun s => ⌜c0 = cp s ∧ VInv s⌝⦄ throwGenErr e
    ⦃post⟨fun r s => ⌜VInv s ∧ RestSame c0 s ∧ (r = none → 0 ≤ s.sp ∧ curFn s ≠ none)⌝,
          fun _ s => ⌜FailExc c0 s⌝⟩⦄ := by
  have tf := throwF_spec False True
  have fs := throwFuel_spec
  apply triple_of_fixed
  intro s0 hv
  mvcgen [throwGenErr, tf, fs]
  all_goals subst_vars
  all_goals (try simp only [wrap_iff])
  · rename_i s2 ra s1 h1 n s h
    have hs1 := (same_iff _ _).mp h1
    have hs := (same_iff _ _).mp h.1
    refine ⟨trivial, ?_, fun f => f.elim, fun _ => h.2⟩
    simp only [VInv] at hv ⊢; rw [hs.1, hs.2.2.1, hs.2.2.2.2.1, hs1.1, hs1.2.2.1, hs1.2.2.2.2.1]; exact hv
  · rename_i s3 ra s2 h2 n s1 h1 s h
    obtain ⟨a, b, c, d⟩ := h
    have c' := c rfl
    exact ⟨a, by simp_all +zetaDelta [RestSame, cp], c'.1, c'.2.1⟩
  · rename_i s3 ra s2 h2 n s1 h1 v s h
    obtain ⟨a, b, c, d⟩ := h
    exact ⟨a, by simp_all +zetaDelta [RestSame, cp], by simp⟩
  · rename_i s3 ra s2 h2 n s1 h1 e s
    intro ⟨a, b, c⟩
    exact ⟨a, by simp_all +zetaDelta [RestSame, cp]⟩
  · rename_i s1 e s
    intro h
    have hs := (same_iff _ _).mp h
    refine ⟨?_, by simp [cp, hs.2.2.2.2.2.2.1]⟩
    simp only [VInv] at hv ⊢; rw [hs.1, hs.2.2.1, hs.2.2.2.2.1]; exact hv

theorem failWith_spec (e : OpErr) : ∀ (c0 : CP),
    ⦃fun s => ⌜c0 = cp s ∧ VInv s⌝⦄ failWith e
    ⦃post⟨fun r s => ⌜FailOk c0 r s⌝, fun _ s => ⌜FailExc c0 s⌝⟩⦄ := by
  have tg := throwGenErr_spec e
  apply triple_of_fixed
  intro s0 hv
  mvcgen [failWith, modS, tg]
  all_goals subst_vars
  all_goals (try simp only [wrap_iff])
  · exact ⟨trivial, hv⟩
  · rename_i s1 s h
    obtain ⟨a, b, c, d⟩ := h
    exact ⟨a, b.2.1, c, d, b.1⟩
  · rename_i s1 ve s h t
    obtain ⟨a, b, c⟩ := h
    exact ⟨a, b.2.1, by simp +zetaDelta⟩
  · exact id

/-- **recovery is total**: under `VInv`, `handlePanic` raises no exception at all (neither a Go
    panic nor a model artefact); if it leaves `vm.err` unset, a handler took the error and the
    VM is at an instruction boundary with the error delivered. -/
theorem handlePanic_spec (msg : String) : ∀ (c0 : CP),
    ⦃fun s => ⌜c0 = cp s ∧ VInv s⌝⦄ handlePanic msg
    ⦃post⟨fun _ s => ⌜VInv s ∧ s.noPanic = c0.noPanic ∧ (s.err = none → VInvB s ∧ ∃ ra, Delivered ra s)⌝,
          fun _ _ => ⌜False⌝⟩⦄ := by
  have tf := throwF_spec True True
  have fs := throwFuel_spec
  apply triple_of_fixed
  intro s0 hv
  mvcgen [handlePanic, getS, modS, tf, fs]
  all_goals subst_vars
  all_goals (try simp only [wrap_iff])
  · rename_i s3 hg r2 s2 h2 r1 s1 h1 n s h
    have e2 := (same_iff _ _).mp h2
    have e1 := (same_iff _ _).mp h1
    have e0 := (same_iff _ _).mp h.1
    simp only [Bool.and_eq_true, decide_eq_true_eq, stackSize, frameSize] at hg
    refine ⟨trivial, ?_, fun _ => ⟨?_, ?_⟩, fun _ => h.2⟩
    · simp only [VInv] at hv ⊢
      rw [e0.1, e0.2.2.1, e0.2.2.2.2.1, e1.1, e1.2.2.1, e1.2.2.2.2.1, e2.1, e2.2.2.1, e2.2.2.2.2.1]; exact hv
    · rw [e0.2.1, e1.2.1, e2.2.1]; exact of_decide_eq_true hg.1.1
    · rw [e0.2.2.2.1, e1.2.2.2.1, e2.2.2.2.1]; exact of_decide_eq_true hg.1.2
  · rename_i s4 hg r2 s3 h3 r1 s2 h2 n s1 h1 s h
    obtain ⟨a, b, c, d⟩ := h
    have c' := c rfl
    refine ⟨a, by simp_all +zetaDelta [RestSame, cp], fun _ => ⟨⟨a, c'.1, c'.2.1⟩, _, c'.2.2⟩⟩
  · rename_i s4 hg r2 s3 h3 r1 s2 h2 n s1 h1 v s h t
    obtain ⟨a, b, c, d⟩ := h
    exact ⟨a, by simp_all +zetaDelta [RestSame, cp], by simp +zetaDelta⟩
  · rename_i s4 hg r2 s3 h3 r1 s2 h2 n s1 h1 e s
    intro ⟨a, b, c⟩
    cases e <;> exact c trivial
  · rename_i s hg t
    exact ⟨hv, by simp +zetaDelta [cp], by simp +zetaDelta⟩

end UgoVerif.Proofs.VM