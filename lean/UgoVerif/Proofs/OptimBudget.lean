import UgoVerif.Proofs.OptimTransform
/-
  The pass loop of `optimize`: statements, passes, the budget.
-/
namespace UgoVerif.Proofs.OptimSem
open UgoVerif UgoVerif.Go UgoVerif.Ast UgoVerif.VM UgoVerif.Sem UgoVerif.Proofs.ModCache
open UgoVerif.Model.Optim
set_option linter.unusedSimpArgs false
set_option linter.unusedVariables false

/-- two statements of the fragment with interchangeable operand expressions -/
inductive StmtRel (F : FloatOps) : Stmt → Stmt → Prop where
  | expr {p p' : Pos} {e e' : Expr} : EvalEq F e e' → StmtRel F (.expr p e) (.expr p' e')
  | ret {p : Pos} {e e' : Expr} : EvalEq F e e' → StmtRel F (.return_ p (some e)) (.return_ p (some e'))
  | same (s : Stmt) : StmtRel F s s

theorem StmtRel.trans {F : FloatOps} {a b c : Stmt} (h1 : StmtRel F a b) (h2 : StmtRel F b c) : StmtRel F a c := by
  cases h1 with
  | same => exact h2
  | expr he =>
    cases h2 with
    | same => exact .expr he
    | expr he2 => exact .expr (EvalEq.trans he he2)
  | ret he =>
    cases h2 with
    | same => exact .ret he
    | ret he2 => exact .ret (EvalEq.trans he he2)

inductive FileRel (F : FloatOps) : List Stmt → List Stmt → Prop where
  | nil : FileRel F [] []
  | cons {s s' : Stmt} {ss ss' : List Stmt} : StmtRel F s s' → FileRel F ss ss' → FileRel F (s :: ss) (s' :: ss')

theorem FileRel.refl (F : FloatOps) (ss : List Stmt) : FileRel F ss ss := by
  induction ss with
  | nil => exact .nil
  | cons s ss ih => exact .cons (.same s) ih

theorem FileRel.trans {F : FloatOps} {a b c : List Stmt} (h1 : FileRel F a b) (h2 : FileRel F b c) : FileRel F a c := by
  induction h1 generalizing c with
  | nil => cases h2; exact .nil
  | cons hs _ ih =>
    cases h2 with
    | cons hs2 ht2 => exact .cons (StmtRel.trans hs hs2) (ih ht2)

theorem transformStmt_sound (F : FloatOps) (hfact : BinFoldFact F) (lineOf : Pos → Nat) {st st' : OSt} {s s' : Stmt}
    (h : transformStmt F lineOf st s = some (s', st')) : StmtRel F s s' := by
  cases s <;> simp only [transformStmt, reduceCtorEq] at h
  case expr p e =>
    cases ht : transform F lineOf st e with
    | none => simp [ht] at h
    | some r =>
      obtain ⟨e1, ok, st1⟩ := r
      simp only [ht] at h
      cases hs : evalStep F lineOf st1 e1 with
      | none => simp [hs] at h
      | some r2 =>
        obtain ⟨e2, st2⟩ := r2
        simp only [hs, Option.some.injEq, Prod.mk.injEq] at h
        obtain ⟨rfl, rfl⟩ := h
        exact .expr (EvalEq.trans (transform_sound F hfact lineOf e _ _ _ _ ht).eq (evalStep_sound F lineOf hs).1)
  case return_ p eo =>
    cases eo with
    | none =>
      simp only [transformStmt, Option.some.injEq, Prod.mk.injEq] at h
      obtain ⟨rfl, rfl⟩ := h
      exact .same _
    | some e =>
      simp only [transformStmt] at h
      cases ht : transform F lineOf st e with
      | none => simp [ht] at h
      | some r =>
        obtain ⟨e1, ok, st1⟩ := r
        simp only [ht] at h
        cases hs : evalStep F lineOf st1 e1 with
        | none => simp [hs] at h
        | some r2 =>
          obtain ⟨e2, st2⟩ := r2
          simp only [hs, Option.some.injEq, Prod.mk.injEq] at h
          obtain ⟨rfl, rfl⟩ := h
          exact .ret (EvalEq.trans (transform_sound F hfact lineOf e _ _ _ _ ht).eq (evalStep_sound F lineOf hs).1)
  case empty p =>
    simp only [Option.some.injEq, Prod.mk.injEq] at h
    obtain ⟨rfl, rfl⟩ := h
    exact .same _
  case declParam p specs =>
    simp only [Option.some.injEq, Prod.mk.injEq] at h
    obtain ⟨rfl, rfl⟩ := h
    exact .same _
  case declGlobal p specs =>
    simp only [Option.some.injEq, Prod.mk.injEq] at h
    obtain ⟨rfl, rfl⟩ := h
    exact .same _

theorem transformStmts_sound (F : FloatOps) (hfact : BinFoldFact F) (lineOf : Pos → Nat) :
    ∀ (ss : List Stmt) (st : OSt) (ss' : List Stmt) (st' : OSt),
      transformStmts F lineOf st ss = some (ss', st') → FileRel F ss ss'
  | [], st, ss', st', h => by
    simp only [transformStmts, Option.some.injEq, Prod.mk.injEq] at h
    obtain ⟨rfl, rfl⟩ := h
    exact .nil
  | s :: ss, st, ss', st', h => by
    simp only [transformStmts] at h
    cases hs : transformStmt F lineOf st s with
    | none => simp [hs] at h
    | some r =>
      obtain ⟨s1, st1⟩ := r
      simp only [hs] at h
      cases hss : transformStmts F lineOf st1 ss with
      | none => simp [hss] at h
      | some r2 =>
        obtain ⟨ss1, st2⟩ := r2
        simp only [hss, Option.some.injEq, Prod.mk.injEq] at h
        obtain ⟨rfl, rfl⟩ := h
        exact .cons (transformStmt_sound F hfact lineOf hs) (transformStmts_sound F hfact lineOf ss _ _ _ hss)

theorem pass_sound (F : FloatOps) (hfact : BinFoldFact F) (lineOf : Pos → Nat) {st st' : OSt} {file file' : List Stmt}
    (h : pass F lineOf st file = some (file', st')) : FileRel F file file' := by
  unfold pass at h
  split at h
  · cases h
  · rename_i f1 st1 heq
    simp only [Option.some.injEq, Prod.mk.injEq] at h
    obtain ⟨rfl, rfl⟩ := h
    exact transformStmts_sound F hfact lineOf _ _ _ _ heq

/-- `n` passes, whatever the budget -/
def passN (F : FloatOps) (lineOf : Pos → Nat) : Nat → List Stmt × OSt → Option (List Stmt × OSt)
  | 0, x => some x
  | n+1, (file, st) =>
    match pass F lineOf st file with
    | none => none
    | some x => passN F lineOf n x

theorem passN_sound (F : FloatOps) (hfact : BinFoldFact F) (lineOf : Pos → Nat) :
    ∀ (n : Nat) (file : List Stmt) (st : OSt) (file' : List Stmt) (st' : OSt),
      passN F lineOf n (file, st) = some (file', st') → FileRel F file file'
  | 0, file, st, file', st', h => by
    simp only [passN, Option.some.injEq, Prod.mk.injEq] at h
    obtain ⟨rfl, rfl⟩ := h
    exact FileRel.refl F _
  | n+1, file, st, file', st', h => by
    simp only [passN] at h
    cases hp : pass F lineOf st file with
    | none => simp [hp] at h
    | some x =>
      obtain ⟨f1, st1⟩ := x
      simp only [hp] at h
      exact FileRel.trans (pass_sound F hfact lineOf hp) (passN_sound F hfact lineOf n f1 st1 file' st' h)

/-- the loop runs `k` passes -/
theorem loop_is_passN (F : FloatOps) (lineOf : Pos → Nat) :
    ∀ (fuel : Nat) (o r : Out), loop F lineOf fuel o = some r →
      ∃ k, r.passes = o.passes + k ∧ passN F lineOf k (o.file, o.st) = some (r.file, r.st)
  | 0, o, r, h => by
    simp only [loop, Option.some.injEq] at h
    subst h
    exact ⟨0, rfl, rfl⟩
  | fuel+1, o, r, h => by
    simp only [loop] at h
    split at h
    · simp only [Option.some.injEq] at h
      subst h
      exact ⟨0, rfl, rfl⟩
    · cases hp : pass F lineOf o.st o.file with
      | none => simp [hp] at h
      | some x =>
        obtain ⟨f1, st1⟩ := x
        simp only [hp] at h
        split at h
        · simp only [Option.some.injEq] at h
          subst h
          exact ⟨1, rfl, by simp [passN, hp]⟩
        · split at h
          · simp only [Option.some.injEq] at h
            subst h
            exact ⟨1, rfl, by simp [passN, hp]⟩
          · obtain ⟨k, hk1, hk2⟩ := loop_is_passN F lineOf fuel _ r h
            refine ⟨k+1, by simp only [hk1]; omega, ?_⟩
            simp only [passN, hp]
            exact hk2

theorem loop_passes_ge (F : FloatOps) (lineOf : Pos → Nat) (fuel : Nat) (o r : Out)
    (h : loop F lineOf fuel o = some r) : o.passes ≤ r.passes := by
  obtain ⟨k, hk, _⟩ := loop_is_passN F lineOf fuel o r h
  omega

/-- lock step of two loops that differ only in the remaining budget -/
theorem loop_mono (F : FloatOps) (lineOf : Pos → Nat) :
    ∀ (fuel fuel' : Nat) (o o' r r' : Out),
      o.file = o'.file → o.st = o'.st → o.passes = o'.passes → o.limit ≤ o'.limit →
      o'.limit.toNat ≤ fuel' →
      loop F lineOf fuel o = some r → loop F lineOf fuel' o' = some r' → r.passes ≤ r'.passes
  | 0, fuel', o, o', r, r', hf, hs, hp, hl, hfu, h, h' => by
    simp only [loop, Option.some.injEq] at h
    subst h
    rw [hp]
    exact loop_passes_ge F lineOf fuel' o' r' h'
  | fuel+1, fuel', o, o', r, r', hf, hs, hp, hl, hfu, h, h' => by
    simp only [loop] at h
    split at h
    · simp only [Option.some.injEq] at h
      subst h
      rw [hp]
      exact loop_passes_ge F lineOf fuel' o' r' h'
    · rename_i hpos
      have hpos' : ¬ o'.limit ≤ 0 := by omega
      cases fuel' with
      | zero => omega
      | succ g =>
        simp only [loop, hpos', if_false] at h'
        rw [← hf, ← hs] at h'
        cases hpp : pass F lineOf o.st o.file with
        | none => simp [hpp] at h
        | some x =>
          obtain ⟨f1, st1⟩ := x
          simp only [hpp] at h h'
          by_cases hc : (st1.count == 0) = true
          · simp only [hc, if_true, Option.some.injEq] at h h'
            subst h; subst h'
            simp only [hp]; exact Nat.le_refl _
          · simp only [hc, Bool.false_eq_true, if_false] at h h'
            by_cases he : st1.errors.length > 2
            · simp only [he, if_true, Option.some.injEq] at h h'
              subst h; subst h'
              simp only [hp]; exact Nat.le_refl _
            · simp only [he, if_false] at h h'
              have hcne : st1.count ≠ 0 := by
                intro h0; apply hc; simp [h0]
              refine loop_mono F lineOf fuel g _ _ r r' ?_ ?_ ?_ ?_ ?_ h h'
              · rfl
              · rfl
              · simp only [hp]
              · simp only; omega
              · simp only; omega

end UgoVerif.Proofs.OptimSem
