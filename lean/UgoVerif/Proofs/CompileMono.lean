import UgoVerif.Proofs.CompilePrims
/-
  C10 helper: the ROOT symbol table and the constant pool only grow during a compile.

  `Ext s s'`: the root table (last table of the compiler's chain) of `s'` extends that of `s`
  (`RootExt`), and the constant pool of `s'` is that of `s` with constants appended.
  `MonoP P m`: from every state with a table, `m` ends — normally, with an error or with a Go
  panic — in a state that extends the start state; on normal termination the chain of tables is
  as long as before and the result satisfies `P`.
  Proved for every function of the compiler model (`allMono`), by the size induction that
  `Proofs/CompileMain.lean` uses for C05.
-/
namespace UgoVerif.Compile
open UgoVerif UgoVerif.Go UgoVerif.Ast

/-! ### the relation -/

def rootOf (ts : List Table) : Table := (ts.getLast?).getD {}

@[simp] theorem rootOf_single (t : Table) : rootOf [t] = t := rfl
@[simp] theorem rootOf_cons_cons (t t2 : Table) (r : List Table) : rootOf (t :: t2 :: r) = rootOf (t2 :: r) := by
  simp [rootOf, List.getLast?_cons_cons]

theorem rootOf_cons_ne {t : Table} {r : List Table} (h : r ≠ []) : rootOf (t :: r) = rootOf r := by
  cases r with
  | nil => exact absurd rfl h
  | cons t2 r2 => simp

/-- what an earlier binding keeps: scope, constness, literal value, name, and the index unless it
    is a global (a `global` re-declaration re-computes the index of the name constant) -/
structure SymKeep (y y' : Symbol) : Prop where
  scope : y'.scope = y.scope
  constant : y'.constant = y.constant
  constLit : y'.constLit = y.constLit
  name : y'.name = y.name
  index : y'.index = y.index ∨ y.scope = .global

theorem SymKeep.refl (y : Symbol) : SymKeep y y := ⟨rfl, rfl, rfl, rfl, .inl rfl⟩

theorem SymKeep.trans {a b c : Symbol} (h : SymKeep a b) (h' : SymKeep b c) : SymKeep a c := by
  refine ⟨h'.scope.trans h.scope, h'.constant.trans h.constant, h'.constLit.trans h.constLit,
    h'.name.trans h.name, ?_⟩
  rcases h'.index with h1 | h1
  · rcases h.index with h2 | h2
    · exact .inl (h1.trans h2)
    · exact .inr h2
  · exact .inr (h.scope ▸ h1)

/-- no global symbol still waits for its name constant (`SetGlobalSymbolsIndex` finds nothing) -/
def NoPending (t : Table) : Prop := ∀ p ∈ t.store, p.2.scope = .global → p.2.index ≠ -1

/-- `t'` extends `t`: every binding of `t` that is not merely the cache of a builtin is kept
    (`SymKeep`), the disabled builtins are the same, the counters of local slots do not go down -/
structure RootExt (t t' : Table) : Prop where
  keep : ∀ n y, lookupSym n t.store = some y → y.scope ≠ .builtin →
    ∃ y', lookupSym n t'.store = some y' ∧ SymKeep y y'
  disabled : t'.disabled = t.disabled
  maxDef : t.maxDefinition ≤ t'.maxDefinition
  numDef : t.numDefinition ≤ t'.numDefinition
  pend : NoPending t → NoPending t'

theorem RootExt.refl (t : Table) : RootExt t t :=
  ⟨fun _ y h _ => ⟨y, h, SymKeep.refl y⟩, rfl, Nat.le_refl _, Nat.le_refl _, id⟩

theorem RootExt.trans {a b c : Table} (h : RootExt a b) (h' : RootExt b c) : RootExt a c := by
  refine ⟨?_, h'.disabled.trans h.disabled, Nat.le_trans h.maxDef h'.maxDef, Nat.le_trans h.numDef h'.numDef,
    fun hp => h'.pend (h.pend hp)⟩
  intro n y hy hb
  obtain ⟨y1, h1, k1⟩ := h.keep n y hy hb
  obtain ⟨y2, h2, k2⟩ := h'.keep n y1 h1 (by rw [k1.scope]; exact hb)
  exact ⟨y2, h2, k1.trans k2⟩

/-- the second pool is the first with constants appended -/
def IsPre (a b : Array Const) : Prop := ∃ ext : Array Const, b = a ++ ext

theorem IsPre.refl (a : Array Const) : IsPre a a := ⟨#[], by simp⟩
theorem IsPre.trans {a b c : Array Const} (h : IsPre a b) (h' : IsPre b c) : IsPre a c := by
  obtain ⟨e1, rfl⟩ := h
  obtain ⟨e2, rfl⟩ := h'
  exact ⟨e1 ++ e2, by simp [Array.append_assoc]⟩
theorem IsPre.push (a : Array Const) (c : Const) : IsPre a (a.push c) := ⟨#[c], by simp⟩

structure Ext (s s' : CState) : Prop where
  ne : s'.tables ≠ []
  root : RootExt (rootOf s.tables) (rootOf s'.tables)
  consts : IsPre s.constants s'.constants

theorem Ext.refl {s : CState} (h : s.tables ≠ []) : Ext s s := ⟨h, RootExt.refl _, IsPre.refl _⟩
theorem Ext.trans {a b c : CState} (h : Ext a b) (h' : Ext b c) : Ext a c :=
  ⟨h'.ne, h.root.trans h'.root, h.consts.trans h'.consts⟩

/-- a step that touches neither the tables nor the constants -/
theorem Ext.of_same {s s' : CState} (hne : s.tables ≠ []) (h1 : s'.tables = s.tables) (h2 : s'.constants = s.constants) :
    Ext s s' := ⟨by rw [h1]; exact hne, by rw [h1]; exact RootExt.refl _, by rw [h2]; exact IsPre.refl _⟩

/-! ### the judgment -/

/-- `SatX m s Q`: `m` from `s` ends normally in a state satisfying `Q`, or abnormally in a state
    that extends `s` -/
def SatX {α} (m : CM α) (s : CState) (Q : α → CState → Prop) : Prop :=
  match runCM m s with
  | (.ok a, s') => Q a s'
  | (.error _, s') => Ext s s'

theorem SatX.pure {α} {a : α} {s : CState} {Q : α → CState → Prop} (h : Q a s) : SatX (Pure.pure a : CM α) s Q := by
  simp [SatX, runCM_pure, h]

theorem SatX.mono {α} {m : CM α} {s : CState} {Q Q' : α → CState → Prop}
    (h : SatX m s Q) (hq : ∀ a s', Q a s' → Q' a s') : SatX m s Q' := by
  unfold SatX at h ⊢
  cases hr : runCM m s with
  | mk r s' =>
    rw [hr] at h
    cases r with
    | ok a => exact hq _ _ h
    | error e => exact h

theorem SatX.bind {α β} {m : CM α} {f : α → CM β} {s : CState} {Q : β → CState → Prop}
    (h : SatX m s (fun a s1 => Ext s s1 ∧ SatX (f a) s1 Q)) : SatX (m >>= f) s Q := by
  unfold SatX at h ⊢
  rw [runCM_bind]
  cases hr : runCM m s with
  | mk r s1 =>
    rw [hr] at h
    cases r with
    | ok a =>
      simp only at h ⊢
      obtain ⟨he, h2⟩ := h
      cases hr2 : runCM (f a) s1 with
      | mk r2 s2 =>
        rw [hr2] at h2
        cases r2 with
        | ok b => exact h2
        | error e => exact he.trans h2
    | error e => exact h

theorem SatX.throw {α} {e : CErr} {s : CState} {Q : α → CState → Prop} (h : s.tables ≠ []) :
    SatX (throw e : CM α) s Q := by
  simp [SatX, runCM_throw]; exact Ext.refl h

theorem SatX.of_run {α} {m : CM α} {s s' : CState} {a : α} {Q : α → CState → Prop}
    (hr : runCM m s = (.ok a, s')) (h : Q a s') : SatX m s Q := by
  simp [SatX, hr, h]

/-- `MonoP P m` -/
def MonoP {α} (P : α → Prop) (m : CM α) : Prop :=
  ∀ s, s.tables ≠ [] → SatX m s (fun a s' => s'.tables.length = s.tables.length ∧ Ext s s' ∧ P a)

abbrev Mono {α} (m : CM α) : Prop := MonoP (fun _ => True) m

theorem ne_of_len {s s' : CState} (h : s'.tables.length = s.tables.length) (hne : s.tables ≠ []) : s'.tables ≠ [] := by
  intro h0; rw [h0] at h; exact hne (List.length_eq_zero_iff.mp h.symm)

theorem MonoP.pure {α} {P : α → Prop} {a : α} (h : P a) : MonoP P (Pure.pure a : CM α) :=
  fun _ hs => SatX.pure ⟨rfl, Ext.refl hs, h⟩

theorem MonoP.bind {α β} {P : α → Prop} {R : β → Prop} {m : CM α} {f : α → CM β}
    (hm : MonoP P m) (hf : ∀ a, P a → MonoP R (f a)) : MonoP R (m >>= f) := by
  intro s hs
  apply SatX.bind
  apply SatX.mono (hm s hs)
  intro a s1 ⟨hl, he, hp⟩
  refine ⟨he, ?_⟩
  apply SatX.mono (hf a hp s1 (ne_of_len hl hs))
  intro b s2 ⟨hl2, he2, hb⟩
  exact ⟨hl2.trans hl, he.trans he2, hb⟩

theorem MonoP.weaken {α} {P P' : α → Prop} {m : CM α} (h : MonoP P m) (hp : ∀ a, P a → P' a) : MonoP P' m :=
  fun s hs => SatX.mono (h s hs) fun a _ ⟨h1, h2, h3⟩ => ⟨h1, h2, hp a h3⟩

theorem MonoP.mono {α} {P : α → Prop} {m : CM α} (h : MonoP P m) : Mono m := h.weaken fun _ _ => trivial

theorem MonoP.throw {α} {P : α → Prop} {e : CErr} : MonoP P (throw e : CM α) := fun _ hs => SatX.throw hs
theorem MonoP.cerr {α} {P : α → Prop} {pos : Pos} {msg : String} : MonoP P (cerr pos msg : CM α) := fun _ hs => SatX.throw hs
theorem MonoP.cpanic {α} {P : α → Prop} {msg : String} : MonoP P (cpanic msg : CM α) := fun _ hs => SatX.throw hs
theorem MonoP.cunsupported {α} {P : α → Prop} {msg : String} : MonoP P (cunsupported msg : CM α) :=
  fun _ hs => SatX.throw hs

/-- an action whose every outcome leaves tables and constants as they were -/
theorem mono_of_frame {α} {m : CM α}
    (h : ∀ s, (runCM m s).2.tables = s.tables ∧ (runCM m s).2.constants = s.constants) : Mono m := by
  intro s hs
  have := h s
  unfold SatX
  cases hr : runCM m s with
  | mk r s' =>
    rw [hr] at this
    cases r with
    | ok a => exact ⟨by rw [this.1], Ext.of_same hs this.1 this.2, trivial⟩
    | error e => exact Ext.of_same hs this.1 this.2

/-- the frame property itself is compositional -/
def Frame {α} (m : CM α) : Prop := ∀ s, (runCM m s).2.tables = s.tables ∧ (runCM m s).2.constants = s.constants

theorem Frame.pure {α} (a : α) : Frame (Pure.pure a : CM α) := fun _ => ⟨rfl, rfl⟩
theorem Frame.throw {α} (e : CErr) : Frame (throw e : CM α) := fun _ => ⟨rfl, rfl⟩
theorem Frame.get : Frame (get : CM CState) := fun _ => ⟨rfl, rfl⟩
theorem Frame.modify {f : CState → CState} (h1 : ∀ s, (f s).tables = s.tables) (h2 : ∀ s, (f s).constants = s.constants) :
    Frame (modify f : CM Unit) := fun s => ⟨h1 s, h2 s⟩
theorem Frame.bind {α β} {m : CM α} {f : α → CM β} (hm : Frame m) (hf : ∀ a, Frame (f a)) : Frame (m >>= f) := by
  intro s
  rw [runCM_bind]
  have := hm s
  cases hr : runCM m s with
  | mk r s1 =>
    rw [hr] at this
    cases r with
    | ok a =>
      have h2 := hf a s1
      simp only
      exact ⟨h2.1.trans this.1, h2.2.trans this.2⟩
    | error e => exact this

theorem Frame.mono {α} {m : CM α} (h : Frame m) : Mono m := mono_of_frame h

theorem Frame.cerr {α} (pos : Pos) (msg : String) : Frame (Compile.cerr pos msg : CM α) := fun _ => ⟨rfl, rfl⟩
theorem Frame.cpanic {α} (msg : String) : Frame (Compile.cpanic msg : CM α) := fun _ => ⟨rfl, rfl⟩
theorem Frame.ite {α} {c : Prop} [Decidable c] {a b : CM α} (ha : Frame a) (hb : Frame b) : Frame (if c then a else b) := by
  split <;> assumption

/-- `let s ← get; set (g s); k` where `g` keeps tables and constants -/
theorem Frame.get_set {β} {g : CState → CState} {k : CState → CM β}
    (h1 : ∀ s, (g s).tables = s.tables) (h2 : ∀ s, (g s).constants = s.constants) (hk : ∀ s, Frame (k s)) :
    Frame (do let s ← MonadState.get; set (g s); k s) := by
  intro s
  simp only [runCM_bind, runCM_get, runCM_set]
  have := hk s (g s)
  exact ⟨this.1.trans (h1 s), this.2.trans (h2 s)⟩

syntax "frame_leaf" : tactic
macro_rules | `(tactic| frame_leaf) => `(tactic| first
  | with_reducible assumption
  | with_reducible exact Frame.pure _ | with_reducible exact Frame.throw _ | with_reducible exact Frame.get
  | with_reducible exact Frame.cerr _ _ | with_reducible exact Frame.cpanic _)

syntax "frame" : tactic
macro_rules | `(tactic| frame) => `(tactic| repeat' (first | frame_leaf | (refine Frame.bind ?_ (fun _ => ?_)) | split))

theorem frame_emit (pos : Pos) (op : Nat) (args : List Int) : Frame (emit pos op args) := by
  unfold emit
  split
  · frame
  · split
    · frame
    · exact Frame.get_set (g := fun s => { s with insts := _, sourceMap := _ }) (fun _ => rfl) (fun _ => rfl)
        (fun _ => Frame.pure _)

theorem frame_emit_ (pos : Pos) (op : Nat) (args : List Int) : Frame (emit_ pos op args) := by
  unfold emit_
  exact Frame.bind (frame_emit pos op args) fun _ => Frame.pure _

macro_rules | `(tactic| frame_leaf) => `(tactic| first
  | with_reducible exact frame_emit _ _ _ | with_reducible exact frame_emit_ _ _ _)

theorem frame_curPos : Frame curPos := by unfold curPos; frame
theorem frame_currentLoop : Frame currentLoop := by unfold currentLoop; frame
theorem frame_headTable : Frame headTable := by unfold headTable; frame
theorem frame_hasAnyConstLit : Frame hasAnyConstLit := by
  unfold hasAnyConstLit; exact Frame.bind frame_headTable fun _ => Frame.pure _
theorem frame_findSymbolSelf (n : String) : Frame (findSymbolSelf n) := by
  unfold findSymbolSelf; exact Frame.bind frame_headTable fun _ => Frame.pure _

theorem frame_changeOperand (p : Nat) (args : List Int) : Frame (changeOperand p args) := by
  unfold changeOperand
  intro s
  simp only [runCM_bind, runCM_get]
  split
  · exact ⟨rfl, rfl⟩
  · split
    · exact ⟨rfl, rfl⟩
    · split
      · exact ⟨rfl, rfl⟩
      · exact ⟨rfl, rfl⟩

macro_rules | `(tactic| frame_leaf) => `(tactic| first
  | with_reducible exact frame_curPos | with_reducible exact frame_currentLoop | with_reducible exact frame_headTable
  | with_reducible exact frame_hasAnyConstLit | with_reducible exact frame_findSymbolSelf _
  | with_reducible exact frame_changeOperand _ _)

theorem frame_patchAll (target : Nat) : ∀ l, Frame (patchAll target l)
  | [] => by unfold patchAll; frame
  | p :: r => by
    have := frame_patchAll target r
    unfold patchAll; frame

theorem frame_modLoop (f : Loop → Loop) : Frame (modLoop f) := Frame.modify (fun _ => rfl) (fun _ => rfl)
theorem frame_pushLoop : Frame pushLoop := Frame.modify (fun _ => rfl) (fun _ => rfl)
theorem frame_popLoop : Frame popLoop := by
  unfold popLoop
  exact Frame.get_set (g := fun s => { s with loops := s.loops.drop 1 }) (fun _ => rfl) (fun _ => rfl) (fun _ => Frame.pure _)

theorem frame_emitFreePtrs (pos : Pos) : ∀ l, Frame (emitFreePtrs pos l)
  | [] => by unfold emitFreePtrs; frame
  | y :: r => by
    have := frame_emitFreePtrs pos r
    unfold emitFreePtrs; frame

theorem frame_compileAssignSym (pos : Pos) (sym : Symbol) (ident : String) : Frame (compileAssignSym pos sym ident) := by
  unfold compileAssignSym; frame

macro_rules | `(tactic| frame_leaf) => `(tactic| first
  | with_reducible exact frame_patchAll _ _ | with_reducible exact frame_modLoop _ | with_reducible exact frame_pushLoop
  | with_reducible exact frame_popLoop | with_reducible exact frame_emitFreePtrs _ _
  | with_reducible exact frame_compileAssignSym _ _ _)

theorem frame_compileBranch (pos : Pos) (tok : Nat) : Frame (compileBranch pos tok) := by
  unfold compileBranch; frame

theorem frame_declParamVariadic (pos : Pos) : ∀ l, Frame (declParamVariadic pos l)
  | [] => by unfold declParamVariadic; frame
  | (_, _, va) :: r => by
    have := frame_declParamVariadic pos r
    have hm : Frame (modify (fun s : CState => { s with variadic := true }) : CM Unit) :=
      Frame.modify (fun _ => rfl) (fun _ => rfl)
    unfold declParamVariadic; frame

theorem frame_finishTail (lastOp : Nat) (pend : List Nat) : Frame (finishTail lastOp pend) := by
  unfold finishTail; frame

theorem frame_finishFn : Frame finishFn := by
  have := frame_finishTail
  unfold finishFn; frame

theorem frame_enterFn (v : Bool) : Frame (enterFn v) := by
  unfold enterFn
  exact Frame.get_set
    (g := fun outer => { outer with insts := #[], sourceMap := [], loops := [], tryCatchIndex := -1, iotaVal := -1, variadic := v })
    (fun _ => rfl) (fun _ => rfl) (fun _ => Frame.pure _)

/-! ### tables -/

theorem lookupSym_putSym_other (n m : String) (y : Symbol) (hne : m ≠ n) :
    ∀ st, lookupSym n (putSym m y st) = lookupSym n st
  | [] => by
    have : (m == n) = false := by simpa using hne
    simp [putSym, lookupSym, this]
  | (k, v) :: r => by
    by_cases h : k = m
    · subst h
      have : (k == n) = false := by simpa using hne
      simp [putSym, lookupSym, this]
    · have h' : (k == m) = false := by simpa using h
      by_cases hk : k = n
      · subst hk
        simp [putSym, lookupSym, h]
      · have hk' : (k == n) = false := by simpa using hk
        simp [putSym, lookupSym, h', hk', lookupSym_putSym_other n m y hne r]

theorem mem_putSym {n : String} {y : Symbol} {p : String × Symbol} :
    ∀ {st : List (String × Symbol)}, p ∈ putSym n y st → p = (n, y) ∨ p ∈ st
  | [], h => by simp [putSym] at h; exact .inl h
  | (k, v) :: r, h => by
    simp only [putSym] at h
    split at h
    · simp at h
      rcases h with h | h
      · exact .inl h
      · exact .inr (by simp [h])
    · simp at h
      rcases h with h | h
      · exact .inr (by simp [h])
      · rcases mem_putSym h with h | h
        · exact .inl h
        · exact .inr (by simp [h])

/-- the store of `t'` is that of `t` with `name ↦ y` put; what was bound to `name` before was only
    a builtin's cache entry, or is kept by `y` -/
theorem rootExt_putSym {t t' : Table} {name : String} {y : Symbol} (hs : t'.store = putSym name y t.store)
    (hnew : ∀ y0, lookupSym name t.store = some y0 → y0.scope = .builtin ∨ SymKeep y0 y)
    (hd : t'.disabled = t.disabled) (hm : t.maxDefinition ≤ t'.maxDefinition) (hn : t.numDefinition ≤ t'.numDefinition)
    (hp : y.scope = .global → y.index ≠ -1) : RootExt t t' := by
  refine ⟨?_, hd, hm, hn, ?_⟩
  · intro n y0 h0 hb
    by_cases hnn : name = n
    · subst hnn
      rcases hnew y0 h0 with h | h
      · exact absurd h hb
      · exact ⟨y, by rw [hs]; exact lookupSym_putSym_self _ _ _, h⟩
    · exact ⟨y0, by rw [hs, lookupSym_putSym_other n name y hnn]; exact h0, SymKeep.refl _⟩
  · intro hpend p hp'
    rw [hs] at hp'
    rcases mem_putSym hp' with h | h
    · subst h; exact hp
    · exact hpend p h

/-- same store -/
theorem rootExt_sameStore {t t' : Table} (hs : t'.store = t.store) (hd : t'.disabled = t.disabled)
    (hm : t.maxDefinition ≤ t'.maxDefinition) (hn : t.numDefinition ≤ t'.numDefinition) : RootExt t t' :=
  ⟨fun n y h _ => ⟨y, by rw [hs]; exact h, SymKeep.refl _⟩, hd, hm, hn, fun hp p h => hp p (by rw [← hs]; exact h)⟩

/-- chains of the same length whose roots are related -/
structure TabsExt (ts ts' : List Table) : Prop where
  len : ts'.length = ts.length
  root : RootExt (rootOf ts) (rootOf ts')

theorem TabsExt.refl (ts : List Table) : TabsExt ts ts := ⟨rfl, RootExt.refl _⟩
theorem TabsExt.trans {a b c : List Table} (h : TabsExt a b) (h' : TabsExt b c) : TabsExt a c :=
  ⟨h'.len.trans h.len, h.root.trans h'.root⟩

theorem TabsExt.head {t t' : Table} (r : List Table) (h : RootExt t t') : TabsExt (t :: r) (t' :: r) := by
  refine ⟨rfl, ?_⟩
  cases r with
  | nil => simpa using h
  | cons t2 r2 => simp; exact RootExt.refl _

theorem TabsExt.cons {t t' : Table} {r r' : List Table} (hne : r ≠ []) (h : TabsExt r r') : TabsExt (t :: r) (t' :: r') := by
  have hne' : r' ≠ [] := by
    intro h0; rw [h0] at h; exact hne (List.length_eq_zero_iff.mp h.len.symm)
  exact ⟨by simp [h.len], by rw [rootOf_cons_ne hne, rootOf_cons_ne hne']; exact h.root⟩

theorem Ext.of_tabs {s s' : CState} (hne : s.tables ≠ []) (h : TabsExt s.tables s'.tables)
    (hc : IsPre s.constants s'.constants) : Ext s s' := by
  refine ⟨?_, h.root, hc⟩
  intro h0; have := h.len; rw [h0] at this; exact hne (List.length_eq_zero_iff.mp this.symm)

theorem tabsExt_updateMaxDefs (n : Nat) : ∀ ts : List Table, TabsExt ts (updateMaxDefs n ts)
  | [] => TabsExt.refl _
  | t :: rest => by
    have hroot : RootExt t (if n > t.maxDefinition then { t with maxDefinition := n } else t) := by
      split
      · exact rootExt_sameStore rfl rfl (by simp; omega) (Nat.le_refl _)
      · exact RootExt.refl _
    simp only [updateMaxDefs]
    split
    · cases rest with
      | nil => simpa [updateMaxDefs] using TabsExt.head [] hroot
      | cons t2 r2 => exact TabsExt.cons (by simp) (tabsExt_updateMaxDefs n (t2 :: r2))
    · exact TabsExt.head rest hroot

theorem tabsExt_resolveIn (bs : List (String × Nat)) (d : List String) (n : String) :
    ∀ ts : List Table, TabsExt ts (resolveIn bs d n ts).2
  | [] => by simp [resolveIn]; exact TabsExt.refl _
  | t :: rest => by
    unfold resolveIn
    split
    · exact TabsExt.refl _
    · rename_i hl
      cases rest with
      | nil =>
        simp only
        split
        · split
          · rename_i idx _
            apply TabsExt.head
            exact rootExt_putSym (y := { name := n, index := idx, scope := .builtin }) rfl
              (fun y0 h0 => by rw [hl] at h0; cases h0) rfl (Nat.le_refl _) (Nat.le_refl _) (fun h => by cases h)
          · exact TabsExt.refl _
        · exact TabsExt.refl _
      | cons t2 r2 =>
        simp only
        have ih := tabsExt_resolveIn bs d n (t2 :: r2)
        cases hres : resolveIn bs d n (t2 :: r2) with
        | mk r rest' =>
          rw [hres] at ih
          simp only at ih ⊢
          cases r with
          | none => exact TabsExt.cons (by simp) ih
          | some sym =>
            simp only
            split
            · exact TabsExt.cons (by simp) ih
            · exact TabsExt.cons (by simp) ih

/-! ### leaves that touch tables or constants -/

theorem mono_addConstant (k : CVal) : Mono (addConstant k) := by
  intro s hs
  unfold addConstant
  apply SatX.bind
  apply SatX.of_run (runCM_get s)
  refine ⟨Ext.refl hs, ?_⟩
  split
  · exact SatX.pure ⟨rfl, Ext.refl hs, trivial⟩
  · apply SatX.bind
    apply SatX.of_run (runCM_set s _)
    have he : Ext s { s with constants := s.constants.push (.val k) } :=
      ⟨hs, RootExt.refl _, IsPre.push _ _⟩
    exact ⟨he, SatX.pure ⟨rfl, he, trivial⟩⟩

theorem mono_addFnConstant (f : CFn) : Mono (addFnConstant f) := by
  intro s hs
  unfold addFnConstant
  apply SatX.bind
  apply SatX.of_run (runCM_get s)
  refine ⟨Ext.refl hs, ?_⟩
  split
  · exact SatX.pure ⟨rfl, Ext.refl hs, trivial⟩
  · apply SatX.bind
    apply SatX.of_run (runCM_set s _)
    have he : Ext s { s with constants := s.constants.push (.fn f) } :=
      ⟨hs, RootExt.refl _, IsPre.push _ _⟩
    exact ⟨he, SatX.pure ⟨rfl, he, trivial⟩⟩

theorem mono_modTables {g : List Table → List Table} (h : ∀ ts, TabsExt ts (g ts)) : Mono (modTables g) := by
  intro s hs
  apply SatX.of_run (runCM_modTables g s)
  exact ⟨(h _).len, Ext.of_tabs hs (h _) (IsPre.refl _), trivial⟩

theorem mono_updateMaxDefs (n : Nat) : Mono (modTables (updateMaxDefs n)) := mono_modTables (tabsExt_updateMaxDefs n)

theorem mono_resolve (name : String) : Mono (resolve name) := by
  intro s hs
  unfold resolve
  apply SatX.bind
  apply SatX.of_run (runCM_get s)
  refine ⟨Ext.refl hs, ?_⟩
  have h := tabsExt_resolveIn s.builtins (rootDisabled s.tables) name s.tables
  cases hres : resolveIn s.builtins (rootDisabled s.tables) name s.tables with
  | mk r ts =>
    rw [hres] at h
    simp only
    apply SatX.bind
    apply SatX.of_run (runCM_set s _)
    have he : Ext s { s with tables := ts } := Ext.of_tabs hs h (IsPre.refl _)
    exact ⟨he, SatX.pure ⟨h.len, he, trivial⟩⟩

/-- `modHead f` when `f` extends the current head -/
theorem satx_modHead {f : Table → Table} {s : CState} {t : Table} {r : List Table} (h : s.tables = t :: r)
    (hf : RootExt t (f t)) {Q : Unit → CState → Prop} (hq : Q () { s with tables := f t :: r }) :
    SatX (modHead f) s Q := SatX.of_run (runCM_modHead f h) hq

theorem ext_modHead {s : CState} {t t' : Table} {r : List Table} (h : s.tables = t :: r)
    (hf : RootExt t t') : Ext s { s with tables := t' :: r } :=
  Ext.of_tabs (by simp [h]) (by rw [h]; exact TabsExt.head r hf) (IsPre.refl _)

theorem mono_modHead {f : Table → Table} (hf : ∀ t, RootExt t (f t)) : Mono (modHead f) := by
  intro s hs
  obtain ⟨t, r, htr⟩ : ∃ t r, s.tables = t :: r := by
    cases h : s.tables with
    | nil => exact absurd h hs
    | cons t r => exact ⟨t, r, rfl⟩
  exact satx_modHead htr (hf t) ⟨by simp [htr], ext_modHead htr (hf t), trivial⟩

theorem exists_head {s : CState} (hs : s.tables ≠ []) : ∃ t r, s.tables = t :: r := by
  cases h : s.tables with
  | nil => exact absurd h hs
  | cons t r => exact ⟨t, r, rfl⟩

/-- one computed step followed by a monotone rest -/
theorem satx_step {α β} {m : CM α} {f : α → CM β} {s s1 : CState} {a : α} {P : β → Prop}
    (hr : runCM m s = (.ok a, s1)) (he : Ext s s1) (hl : s1.tables.length = s.tables.length) (hf : MonoP P (f a)) :
    SatX (m >>= f) s (fun b s' => s'.tables.length = s.tables.length ∧ Ext s s' ∧ P b) := by
  apply SatX.bind
  apply SatX.of_run hr
  refine ⟨he, ?_⟩
  apply SatX.mono (hf s1 he.ne)
  intro b s2 ⟨h1, h2, h3⟩
  exact ⟨h1.trans hl, he.trans h2, h3⟩

@[simp] theorem shadowBuiltin_disabled (bs : List (String × Nat)) (n : String) (t : Table) :
    (shadowBuiltin bs n t).disabled = t.disabled := by unfold shadowBuiltin; split <;> rfl
@[simp] theorem shadowBuiltin_maxDef (bs : List (String × Nat)) (n : String) (t : Table) :
    (shadowBuiltin bs n t).maxDefinition = t.maxDefinition := by unfold shadowBuiltin; split <;> rfl
@[simp] theorem shadowBuiltin_numDef (bs : List (String × Nat)) (n : String) (t : Table) :
    (shadowBuiltin bs n t).numDefinition = t.numDefinition := by unfold shadowBuiltin; split <;> rfl

theorem putSym_putSym (n : String) (x y : Symbol) : ∀ st, putSym n y (putSym n x st) = putSym n y st
  | [] => by simp [putSym]
  | (k, v) :: r => by
    by_cases h : k = n
    · simp [putSym, h]
    · have h' : (k == n) = false := by simpa using h
      simp [putSym, h', putSym_putSym n x y r]

theorem updateMaxDefs_cons_spec (n : Nat) (t : Table) (r : List Table) :
    ∃ t1 r1, updateMaxDefs n (t :: r) = t1 :: r1 ∧ t1.store = t.store ∧ t1.disabled = t.disabled ∧
      t.maxDefinition ≤ t1.maxDefinition ∧ t1.numDefinition = t.numDefinition ∧ TabsExt r r1 := by
  simp only [updateMaxDefs]
  split
  · refine ⟨_, _, rfl, ?_, ?_, ?_, ?_, tabsExt_updateMaxDefs n r⟩ <;> split <;> simp <;> omega
  · refine ⟨_, _, rfl, ?_, ?_, ?_, ?_, TabsExt.refl r⟩ <;> split <;> simp <;> omega

theorem tabsExt_of_head {t t1 : Table} {r r1 : List Table} (hr : TabsExt r r1) (hh : r = [] → RootExt t t1) :
    TabsExt (t :: r) (t1 :: r1) := by
  cases r with
  | nil =>
    have : r1 = [] := List.length_eq_zero_iff.mp hr.len
    subst this
    exact TabsExt.head [] (hh rfl)
  | cons t2 r2 => exact TabsExt.cons (by simp) hr

theorem definedSym_none {name : String} {t : Table} (h : definedSym name t = none) :
    ∀ y0, lookupSym name t.store = some y0 → y0.scope = .builtin := by
  intro y0 hl
  unfold definedSym at h
  rw [hl] at h
  simp only at h
  split at h
  · rename_i hb; simpa using hb
  · cases h

theorem definedSym_some {name : String} {t : Table} {sym : Symbol} (h : definedSym name t = some sym) :
    lookupSym name t.store = some sym ∧ sym.scope ≠ .builtin := by
  unfold definedSym at h
  split at h
  · rename_i y hl
    split at h
    · cases h
    · rename_i hb
      injection h with h; subst h
      exact ⟨hl, by simpa using hb⟩
  · cases h

/-- the head table after `DefineLocal` of a new name, before `updateMaxDefs` -/
def defLocalTable (bs : List (String × Nat)) (name : String) (sym : Symbol) (t : Table) : Table :=
  shadowBuiltin bs name { t with numDefinition := t.numDefinition + 1, store := putSym name sym t.store }

def newLocal (name : String) (ts : List Table) : Symbol := { name := name, index := (nextIndex ts : Int), scope := .local_ }

theorem runCM_defineLocal_ex {name : String} {s : CState} {t : Table} {r : List Table} (htr : s.tables = t :: r)
    {sym : Symbol} (hd : definedSym name t = some sym) : runCM (defineLocal name) s = (.ok (sym, true), s) := by
  unfold defineLocal
  rw [runCM_bind, runCM_get]
  simp only
  rw [runCM_bind, runCM_headTable htr]
  simp only [hd, runCM_pure]

theorem runCM_defineLocal_new {name : String} {s : CState} {t : Table} {r : List Table} (htr : s.tables = t :: r)
    (hd : definedSym name t = none) :
    runCM (defineLocal name) s = (.ok (newLocal name s.tables, false),
      { s with tables := updateMaxDefs (nextIndex s.tables + 1) (defLocalTable s.builtins name (newLocal name s.tables) t :: r) }) := by
  unfold defineLocal
  rw [runCM_bind, runCM_get]
  simp only
  rw [runCM_bind, runCM_headTable htr]
  simp only [hd]
  rw [runCM_bind, runCM_modHead _ htr]
  simp only
  rw [runCM_bind, runCM_modTables]
  simp only [runCM_pure]
  rfl

/-- `DefineLocal`, with the shape of the state it leaves -/
theorem satx_defineLocal {name : String} {s : CState} {t : Table} {r : List Table} (htr : s.tables = t :: r)
    {Q : Symbol × Bool → CState → Prop}
    (hex : ∀ sym, definedSym name t = some sym → Q (sym, true) s)
    (hnew : definedSym name t = none → ∀ t1 r1,
      t1.store = putSym name (newLocal name s.tables) t.store →
      t1.disabled = t.disabled → t.maxDefinition ≤ t1.maxDefinition → t.numDefinition ≤ t1.numDefinition → TabsExt r r1 →
      Q (newLocal name s.tables, false) { s with tables := t1 :: r1 }) :
    SatX (defineLocal name) s Q := by
  cases hd : definedSym name t with
  | some sym => exact SatX.of_run (runCM_defineLocal_ex htr hd) (hex sym hd)
  | none =>
    obtain ⟨t1, r1, hu, h1, h2, h3, h4, h5⟩ :=
      updateMaxDefs_cons_spec (nextIndex s.tables + 1) (defLocalTable s.builtins name (newLocal name s.tables) t) r
    apply SatX.of_run (runCM_defineLocal_new htr hd)
    rw [hu]
    have e1 : (defLocalTable s.builtins name (newLocal name s.tables) t).store = putSym name (newLocal name s.tables) t.store := by
      simp [defLocalTable]
    have e2 : (defLocalTable s.builtins name (newLocal name s.tables) t).disabled = t.disabled := by simp [defLocalTable]
    have e3 : (defLocalTable s.builtins name (newLocal name s.tables) t).maxDefinition = t.maxDefinition := by simp [defLocalTable]
    have e4 : (defLocalTable s.builtins name (newLocal name s.tables) t).numDefinition = t.numDefinition + 1 := by simp [defLocalTable]
    exact hnew hd t1 r1 (h1.trans e1) (h2.trans e2) (by omega) (by omega) h5

theorem mono_defineLocal (name : String) : Mono (defineLocal name) := by
  intro s hs
  obtain ⟨t, r, htr⟩ := exists_head hs
  apply satx_defineLocal htr
  · intro sym _
    exact ⟨rfl, Ext.refl hs, trivial⟩
  · intro hd t1 r1 h1 h2 h3 h4 h5
    have hte : TabsExt (t :: r) (t1 :: r1) := tabsExt_of_head h5 (fun _ =>
      rootExt_putSym h1 (fun y0 h0 => .inl (definedSym_none hd y0 h0)) h2 h3 h4 (by intro h; cases h))
    exact ⟨by simpa [htr] using hte.len, Ext.of_tabs hs (by rw [htr]; exact hte) (IsPre.refl _), trivial⟩

/-- a monotone step, then a continuation that may use what the step established -/
theorem satx_seq {α β} {P : α → Prop} {m : CM α} {f : α → CM β} {s : CState} {Q : β → CState → Prop}
    (hm : MonoP P m) (hne : s.tables ≠ [])
    (h : ∀ a s', s'.tables.length = s.tables.length → Ext s s' → P a → SatX (f a) s' Q) : SatX (m >>= f) s Q := by
  apply SatX.bind
  apply SatX.mono (hm s hne)
  intro a s' ⟨h1, h2, h3⟩
  exact ⟨h2, h a s' h1 h2 h3⟩

/-- a frame step inside a computed chain -/
theorem satx_frame {α β} {m : CM α} {f : α → CM β} {s : CState} {Q : β → CState → Prop} (hm : Frame m) (hne : s.tables ≠ [])
    (h : ∀ a s', s'.tables = s.tables → s'.constants = s.constants → SatX (f a) s' Q) : SatX (m >>= f) s Q := by
  apply SatX.bind
  have := hm s
  unfold SatX
  cases hr : runCM m s with
  | mk r s1 =>
    rw [hr] at this
    cases r with
    | ok a => exact ⟨Ext.of_same hne this.1 this.2, h a s1 this.1 this.2⟩
    | error e => exact Ext.of_same hne this.1 this.2

theorem runCM_updateSym {name : String} {g : Symbol → Symbol} {s : CState} {t : Table} {r : List Table} {y : Symbol}
    (htr : s.tables = t :: r) (hl : lookupSym name t.store = some y) :
    runCM (updateSym name g) s = (.ok (), { s with tables := { t with store := putSym name (g y) t.store } :: r }) := by
  unfold updateSym
  rw [runCM_modHead _ htr]
  simp only [hl]

theorem ext_push {s : CState} (hs : s.tables ≠ []) (x : Table) : Ext s { s with tables := x :: s.tables } := by
  refine ⟨by simp, ?_, IsPre.refl _⟩
  simp only
  rw [rootOf_cons_ne hs]
  exact RootExt.refl _

theorem ext_pop {s : CState} {t : Table} {r : List Table} (htr : s.tables = t :: r) (hr : r ≠ []) :
    Ext s { s with tables := r } := by
  refine ⟨hr, ?_, IsPre.refl _⟩
  simp only [htr]
  rw [rootOf_cons_ne hr]
  exact RootExt.refl _

theorem mono_withBlock {body : CM Unit} (hb : Mono body) : Mono (withBlock body) := by
  intro s hs
  obtain ⟨t, r, htr⟩ := exists_head hs
  unfold withBlock
  apply SatX.bind
  apply SatX.of_run (runCM_forkTable true htr)
  refine ⟨ext_push hs _, ?_⟩
  apply satx_seq hb (by simp)
  intro _ s2 hl2 he2 _
  simp only [List.length_cons] at hl2
  obtain ⟨t2, r2, htr2⟩ := exists_head he2.ne
  have hr2 : r2 ≠ [] := by
    intro h0; rw [htr2, h0] at hl2; simp at hl2; exact hs hl2
  apply SatX.bind
  apply SatX.of_run (runCM_popTable htr2)
  refine ⟨ext_pop htr2 hr2, ?_⟩
  apply SatX.pure
  refine ⟨?_, (ext_push hs _).trans (he2.trans (ext_pop htr2 hr2)), trivial⟩
  rw [htr2] at hl2
  simp at hl2 ⊢
  omega

theorem mono_blockOf {body : List Stmt} {act : CM Unit} (h : Mono act) : Mono (blockOf body act) := by
  unfold blockOf
  split
  · exact MonoP.pure trivial
  · exact mono_withBlock h

theorem mono_withLoop {body : CM Unit} (hb : Mono body) : Mono (withLoop body) := by
  unfold withLoop
  exact MonoP.bind (Frame.mono frame_pushLoop) fun _ _ => MonoP.bind hb fun _ _ => (Frame.mono frame_popLoop)

theorem runCM_leaveFn (outer : CState) {s : CState} {t : Table} {r : List Table} (htr : s.tables = t :: r) :
    runCM (leaveFn outer) s = (.ok t, { outer with tables := r, constants := s.constants }) := by
  unfold leaveFn
  rw [runCM_bind, runCM_get]
  simp only
  rw [runCM_bind, runCM_popTable htr]
  simp only
  rw [runCM_bind, runCM_get]
  simp only
  rw [runCM_bind, runCM_set]
  simp only [runCM_pure]

theorem runCM_enterFn (v : Bool) (s : CState) :
    runCM (enterFn v) s = (.ok s, { s with insts := #[], sourceMap := [], loops := [], tryCatchIndex := -1, iotaVal := -1, variadic := v }) := by
  unfold enterFn
  rw [runCM_bind, runCM_get]
  simp only
  rw [runCM_bind, runCM_set]
  simp only [runCM_pure]


theorem tabsExt_len_eq {ts ts' : List Table} (h : TabsExt ts ts') : ts'.length = ts.length := h.len

theorem rootExt_defLocalTable {bs : List (String × Nat)} {name : String} {sym : Symbol} {t : Table}
    (hnew : ∀ y0, lookupSym name t.store = some y0 → y0.scope = .builtin) (hg : sym.scope ≠ .global) :
    RootExt t (defLocalTable bs name sym t) :=
  rootExt_putSym (by simp [defLocalTable]) (fun y0 h0 => .inl (hnew y0 h0)) (by simp [defLocalTable])
    (by simp [defLocalTable]) (by simp [defLocalTable]) (fun h => absurd h hg)

theorem mono_setParamsLoop (pos : Pos) : ∀ (ps : List String) (k : Nat), Mono (setParamsLoop pos ps k)
  | [], _ => by unfold setParamsLoop; exact MonoP.pure trivial
  | p :: rest, k => by
    intro s hs
    obtain ⟨t, r, htr⟩ := exists_head hs
    unfold setParamsLoop
    apply SatX.bind
    apply SatX.of_run (runCM_get s)
    refine ⟨Ext.refl hs, ?_⟩
    apply SatX.bind
    apply SatX.of_run (runCM_headTable htr)
    refine ⟨Ext.refl hs, ?_⟩
    split
    · have hf : RootExt t { t with numParams := k } := rootExt_sameStore rfl rfl (Nat.le_refl _) (Nat.le_refl _)
      exact satx_step (runCM_modHead _ htr) (ext_modHead htr hf) (by simp [htr]) MonoP.cerr
    · rename_i hl
      have hnone : lookupSym p t.store = none := by simpa using hl
      have hf : RootExt t (defLocalTable s.builtins p { name := p, index := (nextIndex s.tables : Int), scope := .local_ } t) :=
        rootExt_defLocalTable (fun y0 h0 => by rw [hnone] at h0; cases h0) (by intro h; cases h)
      exact satx_step (runCM_modHead _ htr) (ext_modHead htr hf) (by simp [htr])
        (MonoP.bind (mono_updateMaxDefs _) fun _ _ => mono_setParamsLoop pos rest (k + 1))

theorem mono_setParams (pos : Pos) (ps : List String) : Mono (setParams pos ps) := by
  unfold setParams
  split
  · exact MonoP.pure trivial
  · refine MonoP.bind (P := fun _ => True) (Frame.mono frame_headTable) fun t _ => ?_
    split
    · exact MonoP.cerr
    · split
      · exact MonoP.cerr
      · refine MonoP.bind (P := fun _ => True) (mono_setParamsLoop pos ps 0) fun _ _ => ?_
        exact mono_modHead fun t => rootExt_sameStore rfl rfl (Nat.le_refl _) (Nat.le_refl _)

def constLitTable (bs : List (String × Nat)) (name : String) (sym : Symbol) (t : Table) : Table :=
  shadowBuiltin bs name { t with hasConstLit := true, store := putSym name sym t.store }

theorem mono_defineConstLitSym (name : String) (v : Option CVal) : Mono (defineConstLitSym name v) := by
  intro s hs
  obtain ⟨t, r, htr⟩ := exists_head hs
  unfold defineConstLitSym
  apply SatX.bind
  apply SatX.of_run (runCM_get s)
  refine ⟨Ext.refl hs, ?_⟩
  apply SatX.bind
  apply SatX.of_run (runCM_headTable htr)
  refine ⟨Ext.refl hs, ?_⟩
  split
  · exact SatX.pure ⟨rfl, Ext.refl hs, trivial⟩
  · rename_i hnone
    have hf : RootExt t (constLitTable s.builtins name
        { name := name, index := -1, scope := .constLit, constant := true, constLit := v } t) :=
      rootExt_putSym (name := name) (y := { name := name, index := -1, scope := .constLit, constant := true, constLit := v })
        (by simp [constLitTable]) (fun y0 h0 => by rw [hnone] at h0; cases h0) (by simp [constLitTable])
        (by simp [constLitTable]) (by simp [constLitTable]) (by intro h; cases h)
    exact satx_step (runCM_modHead _ htr) (ext_modHead htr hf) (by simp [htr]) (MonoP.pure trivial)

/-- `compileDefine`: a new name is put with its final constness; an existing one (only with
    `allowRedefine`, i.e. not for `const`, or `_`) keeps it -/
theorem mono_compileDefine (pos : Pos) (ident : String) (allow : Bool) (keyword : Nat)
    (hak : allow = true → keyword ≠ tConst) : Mono (compileDefine pos ident allow keyword) := by
  intro s hs
  obtain ⟨t, r, htr⟩ := exists_head hs
  unfold compileDefine
  apply SatX.bind
  apply satx_defineLocal htr
  · -- the name exists
    intro sym hd
    obtain ⟨hl, _⟩ := definedSym_some hd
    refine ⟨Ext.refl hs, ?_⟩
    simp only
    split
    · exact SatX.throw hs
    · rename_i h1
      split
      · exact SatX.throw hs
      · rename_i h2
        split
        · exact SatX.throw hs
        · rename_i hc
          apply SatX.bind
          apply SatX.of_run (runCM_get s)
          refine ⟨Ext.refl hs, ?_⟩
          split
          · exact SatX.throw hs
          · apply satx_frame (frame_emit_ _ _ _) hs
            intro _ s2 ht2 hc2
            have hsc : sym.constant = false := by simpa using hc
            have hcf : (keyword == tConst && ident != "_") = sym.constant := by
              rw [hsc]
              by_cases ha : allow = true
              · have := hak ha
                simp [this]
              · by_cases hid : ident = "_"
                · simp [hid]
                · exfalso
                  apply h1
                  simp [ha, hid]
            have hng : sym.scope ≠ .global := by
              intro hg
              apply h2
              simp [hg]
            apply SatX.of_run (runCM_updateSym (ht2.trans htr) hl)
            have hf : RootExt t { t with store := putSym ident { sym with constant := keyword == tConst && ident != "_" } t.store } :=
              rootExt_putSym rfl (fun y0 h0 => by
                rw [hl] at h0; injection h0 with h0; subst h0
                exact .inr ⟨rfl, hcf, rfl, rfl, .inl rfl⟩) rfl (Nat.le_refl _) (Nat.le_refl _)
                (fun hg => absurd hg hng)
            have hte : TabsExt s.tables ({ t with store := putSym ident { sym with constant := keyword == tConst && ident != "_" } t.store } :: r) := by
              rw [htr]; exact TabsExt.head r hf
            refine ⟨by simp [htr], Ext.of_tabs hs hte ?_, trivial⟩
            simp only [hc2]; exact IsPre.refl _
  · -- a new name
    intro hd t1 r1 h1 h2 h3 h4 h5
    have hext1 : TabsExt (t :: r) (t1 :: r1) := tabsExt_of_head h5 (fun _ =>
      rootExt_putSym h1 (fun y0 h0 => .inl (definedSym_none hd y0 h0)) h2 h3 h4 (by intro h; cases h))
    have hs1 : ({ s with tables := t1 :: r1 } : CState).tables ≠ [] := by simp
    have he1 : Ext s { s with tables := t1 :: r1 } := Ext.of_tabs hs (by rw [htr]; exact hext1) (IsPre.refl _)
    refine ⟨he1, ?_⟩
    simp only [newLocal, Bool.and_false, Bool.false_and, Bool.false_eq_true, ↓reduceIte]
    apply SatX.bind
    apply SatX.of_run (runCM_get _)
    refine ⟨Ext.refl hs1, ?_⟩
    split
    · exact SatX.throw hs1
    · apply satx_frame (frame_emit_ _ _ _) hs1
      intro _ s2 ht2 hc2
      have hl1 : lookupSym ident t1.store = some (newLocal ident s.tables) := by
        rw [h1]; exact lookupSym_putSym_self _ _ _
      apply SatX.of_run (runCM_updateSym (y := newLocal ident s.tables) ht2 hl1)
      have hst : ({ t1 with store := putSym ident { newLocal ident s.tables with constant := keyword == tConst && ident != "_" } t1.store } : Table).store
          = putSym ident { newLocal ident s.tables with constant := keyword == tConst && ident != "_" } t.store := by
        simp only [h1, putSym_putSym]
      have hte : TabsExt (t :: r) ({ t1 with store := putSym ident { newLocal ident s.tables with constant := keyword == tConst && ident != "_" } t1.store } :: r1) :=
        tabsExt_of_head h5 (fun _ =>
          rootExt_putSym hst (fun y0 h0 => .inl (definedSym_none hd y0 h0)) h2 h3 h4 (by intro h; cases h))
      refine ⟨by simpa [htr] using hte.len, Ext.of_tabs hs (by simpa only [htr] using hte) ?_, trivial⟩
      simp only [hc2]; exact IsPre.refl _

theorem runCM_addConstant (k : CVal) (s : CState) :
    ∃ (i : Nat) (cs' : Array Const), runCM (addConstant k) s = (.ok i, { s with constants := cs' }) ∧ IsPre s.constants cs' := by
  unfold addConstant
  rw [runCM_bind, runCM_get]
  simp only
  split
  · rename_i i _
    exact ⟨i, s.constants, rfl, IsPre.refl _⟩
  · refine ⟨s.constants.size, s.constants.push (.val k), ?_, IsPre.push _ _⟩
    rw [runCM_bind, runCM_set]
    simp only [runCM_pure]

def globalTable (bs : List (String × Nat)) (name : String) (sym : Symbol) (t : Table) : Table :=
  shadowBuiltin bs name { t with store := putSym name sym t.store }

/-- like `SatX`, with the abnormal outcomes measured against an earlier state `base` -/
def SatB {α} (base : CState) (m : CM α) (s : CState) (Q : α → CState → Prop) : Prop :=
  match runCM m s with
  | (.ok a, s') => Q a s'
  | (.error _, s') => Ext base s'

theorem SatB.toX {α} {m : CM α} {s : CState} {Q : α → CState → Prop} (h : SatB s m s Q) : SatX m s Q := h
theorem SatB.ofX {α} {m : CM α} {s : CState} {Q : α → CState → Prop} (h : SatX m s Q) : SatB s m s Q := h

theorem SatB.bind_run {α β} {base : CState} {m : CM α} {f : α → CM β} {s s1 : CState} {a : α} {Q : β → CState → Prop}
    (hr : runCM m s = (.ok a, s1)) (h : SatB base (f a) s1 Q) : SatB base (m >>= f) s Q := by
  unfold SatB at h ⊢
  rw [runCM_bind, hr]
  exact h

theorem SatB.of_mono {α} {base : CState} {P : α → Prop} {m : CM α} {s : CState} (hm : MonoP P m) (he : Ext base s) :
    SatB base m s (fun b s' => s'.tables.length = s.tables.length ∧ Ext base s' ∧ P b) := by
  have := hm s he.ne
  unfold SatX at this
  unfold SatB
  cases hr : runCM m s with
  | mk r s' =>
    rw [hr] at this
    cases r with
    | ok a => exact ⟨this.1, he.trans this.2.1, this.2.2⟩
    | error e => exact he.trans this

theorem SatB.mono {α} {base : CState} {m : CM α} {s : CState} {Q Q' : α → CState → Prop}
    (h : SatB base m s Q) (hq : ∀ a s', Q a s' → Q' a s') : SatB base m s Q' := by
  unfold SatB at h ⊢
  cases hr : runCM m s with
  | mk r s' =>
    rw [hr] at h
    cases r with
    | ok a => exact hq _ _ h
    | error e => exact h

theorem mono_declGlobals (pos : Pos) : ∀ l : List (Pos × String × Bool), Mono (declGlobals pos l)
  | [] => by unfold declGlobals; exact MonoP.pure trivial
  | (_, name, _) :: rest => by
    have ih := mono_declGlobals pos rest
    intro s hs
    obtain ⟨t, r, htr⟩ := exists_head hs
    unfold declGlobals
    apply SatB.toX
    apply SatB.bind_run (runCM_get s)
    apply SatB.bind_run (runCM_headTable htr)
    split
    · rename_i sym hl
      split
      · exact SatB.ofX (SatX.throw hs)
      · rename_i hg
        have hsg : sym.scope = .global := by simpa using hg
        obtain ⟨i, cs', hrun, hpre⟩ := runCM_addConstant (.str name.toUTF8.toList) s
        apply SatB.bind_run hrun
        have htr1 : ({ s with constants := cs' } : CState).tables = t :: r := htr
        apply SatB.bind_run (runCM_updateSym htr1 hl)
        have hf : RootExt t { t with store := putSym name { sym with index := (i : Int) } t.store } :=
          rootExt_putSym rfl (fun y0 h0 => by
            rw [hl] at h0; injection h0 with h0; subst h0
            exact .inr ⟨rfl, rfl, rfl, rfl, .inr hsg⟩) rfl (Nat.le_refl _) (Nat.le_refl _)
            (fun _ => by simp)
        have he : Ext s { s with constants := cs', tables := { t with store := putSym name { sym with index := (i : Int) } t.store } :: r } :=
          Ext.of_tabs hs (by rw [htr]; exact TabsExt.head r hf) hpre
        apply SatB.mono (SatB.of_mono ih he)
        intro b s' ⟨h1, h2, h3⟩
        exact ⟨by simpa [htr] using h1, h2, h3⟩
    · rename_i hnone
      apply SatB.bind_run (runCM_modHead _ htr)
      obtain ⟨i, cs', hrun, hpre⟩ := runCM_addConstant (.str name.toUTF8.toList)
        { s with tables := globalTable s.builtins name { name := name, index := -1, scope := .global } t :: r }
      apply SatB.bind_run hrun
      have hl1 : lookupSym name (globalTable s.builtins name { name := name, index := -1, scope := .global } t).store
          = some { name := name, index := -1, scope := .global } := by
        simp only [globalTable, shadowBuiltin_store]
        exact lookupSym_putSym_self _ _ _
      apply SatB.bind_run (runCM_updateSym (t := globalTable s.builtins name { name := name, index := -1, scope := .global } t) (r := r) rfl hl1)
      have hf : RootExt t { globalTable s.builtins name { name := name, index := -1, scope := .global } t with
          store := putSym name { name := name, index := (i : Int), scope := .global }
            (globalTable s.builtins name { name := name, index := -1, scope := .global } t).store } :=
        rootExt_putSym (name := name) (y := { name := name, index := (i : Int), scope := .global })
          (by simp [globalTable, putSym_putSym]) (fun y0 h0 => by rw [hnone] at h0; cases h0)
          (by simp [globalTable]) (by simp [globalTable]) (by simp [globalTable]) (fun _ => by simp)
      have he : Ext s { s with constants := cs', tables := { globalTable s.builtins name { name := name, index := -1, scope := .global } t with
          store := putSym name { name := name, index := (i : Int), scope := .global }
            (globalTable s.builtins name { name := name, index := -1, scope := .global } t).store } :: r } :=
        Ext.of_tabs hs (by rw [htr]; exact TabsExt.head r hf) hpre
      apply SatB.mono (SatB.of_mono ih he)
      intro b s' ⟨h1, h2, h3⟩
      exact ⟨by simpa [htr] using h1, h2, h3⟩

theorem SatB.seq {α β} {base : CState} {P : α → Prop} {m : CM α} {f : α → CM β} {s : CState} {Q : β → CState → Prop}
    (hm : MonoP P m) (he : Ext base s)
    (h : ∀ a s', s'.tables.length = s.tables.length → Ext base s' → P a → SatB base (f a) s' Q) :
    SatB base (m >>= f) s Q := by
  have h1 := SatB.of_mono hm he
  unfold SatB at h1 ⊢
  rw [runCM_bind]
  cases hr : runCM m s with
  | mk r s' =>
    rw [hr] at h1
    cases r with
    | ok a => exact h a s' h1.1 h1.2.1 h1.2.2
    | error e => exact h1

theorem SatB.pure {α} {base : CState} {a : α} {s : CState} {Q : α → CState → Prop} (h : Q a s) :
    SatB base (Pure.pure a : CM α) s Q := by
  simp [SatB, runCM_pure, h]

theorem mono_withFn (pos : Pos) (variadic : Bool) (params : List String) {body : CM Unit} (hb : Mono body) :
    Mono (withFn pos variadic params body) := by
  intro s hs
  obtain ⟨t, r, htr⟩ := exists_head hs
  unfold withFn
  apply SatB.toX
  apply SatB.bind_run (runCM_enterFn variadic s)
  generalize he0 : ({ tables := s.tables, constants := s.constants, variadic := variadic, builtins := s.builtins } : CState) = e0
  have ht0 : e0.tables = t :: r := by subst he0; exact htr
  have hc0 : e0.constants = s.constants := by subst he0; rfl
  have hs0 : e0.tables ≠ [] := by rw [ht0]; simp
  have hext0 : Ext s e0 := Ext.of_same hs (by rw [ht0, htr]) hc0
  apply SatB.bind_run (runCM_forkTable false ht0)
  apply SatB.seq (mono_setParams pos params) (hext0.trans (ext_push hs0 _))
  intro _ s2 hl2 he2 _
  apply SatB.seq hb he2
  intro _ s4 hl4 he4 _
  apply SatB.seq (Frame.mono frame_finishFn) he4
  intro fn s5 hl5 he5 _
  obtain ⟨t5, r5, htr5⟩ := exists_head he5.ne
  have hlen : r5.length = s.tables.length := by
    have : s5.tables.length = s.tables.length + 1 := by
      rw [hl5, hl4, hl2]; simp [ht0, htr]
    rw [htr5] at this
    simpa using this
  have hr5 : r5 ≠ [] := by
    intro h0; rw [h0] at hlen; exact hs (List.length_eq_zero_iff.mp hlen.symm)
  apply SatB.bind_run (runCM_leaveFn s htr5)
  apply SatB.pure
  refine ⟨hlen, ⟨hr5, ?_, he5.consts⟩, trivial⟩
  have := he5.root
  rw [htr5, rootOf_cons_ne hr5] at this
  exact this

/-! ### the compositional tactic -/

syntax "mono_leaf" : tactic
macro_rules | `(tactic| mono_leaf) => `(tactic| first
  | with_reducible assumption
  | with_reducible exact MonoP.pure trivial
  | with_reducible exact MonoP.cerr | with_reducible exact MonoP.throw
  | with_reducible exact MonoP.cpanic | with_reducible exact MonoP.cunsupported
  | with_reducible exact Frame.mono (frame_emit_ _ _ _) | with_reducible exact Frame.mono (frame_emit _ _ _)
  | with_reducible exact Frame.mono Frame.get | with_reducible exact Frame.mono frame_curPos
  | with_reducible exact Frame.mono frame_currentLoop | with_reducible exact Frame.mono frame_headTable
  | with_reducible exact Frame.mono frame_hasAnyConstLit | with_reducible exact Frame.mono (frame_findSymbolSelf _)
  | with_reducible exact Frame.mono (frame_changeOperand _ _) | with_reducible exact Frame.mono (frame_patchAll _ _)
  | with_reducible exact Frame.mono (frame_emitFreePtrs _ _) | with_reducible exact Frame.mono (frame_compileAssignSym _ _ _)
  | with_reducible exact Frame.mono (frame_compileBranch _ _) | with_reducible exact Frame.mono (frame_declParamVariadic _ _)
  | with_reducible exact Frame.mono frame_finishFn
  | with_reducible exact mono_addConstant _ | with_reducible exact mono_addFnConstant _
  | with_reducible exact mono_resolve _ | with_reducible exact mono_defineLocal _
  | with_reducible exact mono_setParams _ _ | with_reducible exact mono_declGlobals _ _
  | with_reducible exact mono_defineConstLitSym _ _
  | (with_reducible apply mono_withBlock) | (with_reducible apply mono_blockOf) | (with_reducible apply mono_withLoop))

syntax "mono_bind" : tactic
macro_rules | `(tactic| mono_bind) => `(tactic| (refine MonoP.bind (P := fun _ => True) ?_ (fun _ _ => ?_)))

syntax "mono" : tactic
macro_rules | `(tactic| mono) => `(tactic| repeat' (first | mono_leaf | mono_bind | split))

theorem mono_emitConstant (pos : Pos) (v : CVal) : Mono (emitConstant pos v) := by unfold emitConstant; mono
theorem mono_emitFnConstant (pos : Pos) (fn : CFn) (n : Nat) : Mono (emitFnConstant pos fn n) := by unfold emitFnConstant; mono
macro_rules | `(tactic| mono_leaf) => `(tactic| first
  | with_reducible exact mono_emitConstant _ _ | with_reducible exact mono_emitFnConstant _ _ _)
theorem mono_emitConstLit (pos : Pos) (v : CVal) : Mono (emitConstLit pos v) := by unfold emitConstLit; mono
macro_rules | `(tactic| mono_leaf) => `(tactic| with_reducible exact mono_emitConstLit _ _)
theorem mono_compileIdent (pos : Pos) (name : String) : Mono (compileIdent pos name) := by unfold compileIdent; mono
theorem mono_defineCatchIdent (pos : Pos) (name : String) : Mono (defineCatchIdent pos name) := by unfold defineCatchIdent; mono
theorem mono_forinVar (pos : Pos) (it : Int) (op : Nat) (name : String) : Mono (forinVar pos it op name) := by unfold forinVar; mono
theorem mono_defineConstLit (name : String) (v : VSum) : Mono (defineConstLit name v) := by unfold defineConstLit; mono
macro_rules | `(tactic| mono_leaf) => `(tactic| first
  | with_reducible exact mono_compileIdent _ _ | with_reducible exact mono_defineCatchIdent _ _
  | with_reducible exact mono_forinVar _ _ _ _ | with_reducible exact mono_defineConstLit _ _)

theorem mono_compileValueIdent (pos : Pos) (tok : Nat) (name : String) {act : CM Unit} (ha : Mono act) (sum : VSum) :
    Mono (compileValueIdent pos tok name act sum) := by
  have := mono_compileDefine pos name false tok (by intro h; cases h)
  unfold compileValueIdent; mono

abbrev LastMono (last : Option (CM Unit × VSum)) : Prop := ∀ x, last = some x → Mono x.1

theorem mono_lastMatch (pos : Pos) (tok : Nat) (ipos : Pos) (name : String) {last : Option (CM Unit × VSum)}
    (hl : LastMono last) :
    Mono (match (if tok == tConst then last else none) with
     | some (act, sum) => compileValueIdent pos tok name act sum
     | none => compileValueIdent pos tok name (emit_ ipos OpNull) (.lit .undefined)) := by
  split
  · rename_i act sum h
    refine mono_compileValueIdent pos tok name (hl (act, sum) ?_) sum
    split at h
    · exact h
    · cases h
  · exact mono_compileValueIdent pos tok name (Frame.mono (frame_emit_ _ _ _)) _

theorem mono_compileIdentsNoValue (pos : Pos) (tok : Nat) {last : Option (CM Unit × VSum)} (hl : LastMono last) :
    ∀ l : List (Pos × String), Mono (compileIdentsNoValue pos tok last l)
  | [] => by unfold compileIdentsNoValue; mono
  | (ipos, name) :: rest => by
    have h1 := mono_lastMatch pos tok ipos name hl
    have h2 := mono_compileIdentsNoValue pos tok hl rest
    unfold compileIdentsNoValue
    exact MonoP.bind h1 fun _ _ => h2

theorem mono_compileAssign (pos : Pos) (lhs : List Expr) (nrhs : Nat) {rhsAct lhs0Act defAssign0 : CM Unit}
    {destruct : Int → CM Unit} (h1 : Mono rhsAct) (h2 : Mono lhs0Act) (h3 : Mono defAssign0) (h4 : ∀ i, Mono (destruct i))
    (op : Nat) : Mono (compileAssign pos lhs nrhs rhsAct lhs0Act defAssign0 destruct op) := by
  unfold compileAssign
  mono
  exact h4 _

end UgoVerif.Compile
