import UgoVerif.Proofs.C08Ops
/-
  C08, shared heap segment: every opcode function preserves `Inv` (CONSTANT, LOADMODULE and
  STOREMODULE, which handle the constants that may be shared maps, are in Proofs/C08Mod.lean).
-/
set_option linter.unusedVariables false
set_option linter.unusedSimpArgs false
set_option maxHeartbeats 1600000
namespace UgoVerif.VM
open UgoVerif UgoVerif.Go

section
variable {n : Nat} {h0 : Array Cell}

theorem tr_execGetLocal : Tr n h0 (good n) execGetLocal := by unfold execGetLocal; trsg
theorem tr_execSetLocal : Tr n h0 (good n) execSetLocal := by unfold execSetLocal; trsg
theorem tr_execAndJump : Tr n h0 (good n) execAndJump := by unfold execAndJump; trsg
theorem tr_execOrJump : Tr n h0 (good n) execOrJump := by unfold execOrJump; trsg
theorem tr_execTrue : Tr n h0 (good n) execTrue := by unfold execTrue; trsg
theorem tr_execFalse : Tr n h0 (good n) execFalse := by unfold execFalse; trsg
theorem tr_execCall : Tr n h0 (good n) execCall := by unfold execCall; trsg
theorem tr_execCallName : Tr n h0 (good n) execCallName := by unfold execCallName; trsg
theorem tr_execReturn : Tr n h0 (good n) execReturn := by unfold execReturn; trsg
theorem tr_execGetBuiltin : Tr n h0 (good n) execGetBuiltin := by unfold execGetBuiltin; trsg
theorem tr_execClosure : Tr n h0 (good n) execClosure := by unfold execClosure; trsg
theorem tr_execJump : Tr n h0 (good n) execJump := by unfold execJump; trsg
theorem tr_execJumpFalsy : Tr n h0 (good n) execJumpFalsy := by unfold execJumpFalsy; trsg
theorem tr_execGetGlobal : Tr n h0 (good n) execGetGlobal := by unfold execGetGlobal; trsg
theorem tr_execSetGlobal : Tr n h0 (good n) execSetGlobal := by unfold execSetGlobal; trsg
theorem tr_execArray : Tr n h0 (good n) execArray := by unfold execArray; trsg
theorem tr_execMap : Tr n h0 (good n) execMap := by unfold execMap; trsg
theorem tr_execGetIndex : Tr n h0 (good n) execGetIndex := by unfold execGetIndex; trsg
theorem tr_execSetIndex : Tr n h0 (good n) execSetIndex := by unfold execSetIndex; trsg
theorem tr_execSliceIndex : Tr n h0 (good n) execSliceIndex := by unfold execSliceIndex; trsg
theorem tr_execGetFree : Tr n h0 (good n) execGetFree := by unfold execGetFree; trsg
theorem tr_execSetFree : Tr n h0 (good n) execSetFree := by unfold execSetFree; trsg
theorem tr_execGetLocalPtr : Tr n h0 (good n) execGetLocalPtr := by unfold execGetLocalPtr; trsg
theorem tr_execGetFreePtr : Tr n h0 (good n) execGetFreePtr := by unfold execGetFreePtr; trsg
theorem tr_execDefineLocal : Tr n h0 (good n) execDefineLocal := by unfold execDefineLocal; trsg
theorem tr_execNull : Tr n h0 (good n) execNull := by unfold execNull; trsg
theorem tr_execPop : Tr n h0 (good n) execPop := by unfold execPop; trsg
theorem tr_execIterInit : Tr n h0 (good n) execIterInit := by unfold execIterInit; trsg
theorem tr_execSetupTry : Tr n h0 (good n) execSetupTry := by unfold execSetupTry; trsg
theorem tr_execSetupCatch : Tr n h0 (good n) execSetupCatch := by unfold execSetupCatch; trsg
theorem tr_execSetupFinally : Tr n h0 (good n) execSetupFinally := by unfold execSetupFinally; trsg
theorem tr_execThrow : Tr n h0 (good n) execThrow := by unfold execThrow; trsg
theorem tr_execFinalizer : Tr n h0 (good n) execFinalizer := by unfold execFinalizer; trsg
theorem tr_execNoOp : Tr n h0 (good n) execNoOp := by unfold execNoOp; trsg
theorem tr_execBinaryOp (F : FloatOps) : Tr n h0 (good n) (execBinaryOp F) := by unfold execBinaryOp; trsg
theorem tr_execUnary (F : FloatOps) : Tr n h0 (good n) (execUnary F) := by unfold execUnary; trsg
theorem tr_execEqual (F : FloatOps) (op : Nat) : Tr n h0 (good n) (execEqual F op) := by unfold execEqual; trsg
theorem tr_execIterNext (op : Nat) : Tr n h0 (good n) (execIterNext op) := by unfold execIterNext; trsg
theorem tr_execUnknown (op : Nat) : Tr n h0 (good n) (execUnknown op) := by unfold execUnknown; trsg

end
end UgoVerif.VM
