import UgoVerif.Model.Eval
/-
  Helper lemmas about the root symbol table of an Eval session (the pure functions of
  Model/Compile.lean that every table operation of the compiler is built from).
-/
namespace UgoVerif.Proofs.EvalSym
open UgoVerif UgoVerif.Compile

theorem lookup_putSym_same (n : String) (s : Symbol) : ∀ st, lookupSym n (putSym n s st) = some s := by
  intro st
  induction st with
  | nil => simp [putSym, lookupSym]
  | cons kv r ih =>
    obtain ⟨k, v⟩ := kv
    by_cases h : k = n
    · simp [putSym, lookupSym, h]
    · have h' : (k == n) = false := by simpa using h
      simp [putSym, lookupSym, h', ih]

theorem lookup_putSym_other (n m : String) (s : Symbol) (hne : m ≠ n) :
    ∀ st, lookupSym n (putSym m s st) = lookupSym n st := by
  intro st
  induction st with
  | nil =>
    have : (m == n) = false := by simpa using hne
    simp [putSym, lookupSym, this]
  | cons kv r ih =>
    obtain ⟨k, v⟩ := kv
    by_cases h : k = m
    · subst h
      have : (k == n) = false := by simpa using hne
      simp [putSym, lookupSym, this]
    · have h' : (k == m) = false := by simpa using h
      by_cases hk : k = n
      · subst hk
        have h2 : ¬ k = m := h
        simp [putSym, lookupSym, h2]
      · have hk' : (k == n) = false := by simpa using hk
        simp [putSym, lookupSym, h', hk', ih]

/-- a name bound in the root table resolves to its symbol; the table is not touched -/
theorem resolve_bound (bs : List (String × Nat)) (dis : List String) (n : String) (t : Table) (sym : Symbol)
    (h : lookupSym n t.store = some sym) : resolveIn bs dis n [t] = (some sym, [t]) := by
  simp [resolveIn, h]

/-- resolving ANY name in the root table (this may cache a builtin symbol) keeps every existing
    binding, the disabled set and the definition counters -/
theorem resolve_keeps (bs : List (String × Nat)) (dis : List String) (m : String) (t : Table) :
    ∃ t', (resolveIn bs dis m [t]).2 = [t'] ∧ t'.disabled = t.disabled ∧
      t'.maxDefinition = t.maxDefinition ∧ t'.numDefinition = t.numDefinition ∧ t'.numParams = t.numParams ∧
      ∀ n sym, lookupSym n t.store = some sym → lookupSym n t'.store = some sym := by
  unfold resolveIn
  cases hm : lookupSym m t.store with
  | some s => exact ⟨t, by simp, rfl, rfl, rfl, rfl, fun _ _ h => h⟩
  | none =>
    by_cases hd : m ∈ dis
    · exact ⟨t, by simp [hd], rfl, rfl, rfl, rfl, fun _ _ h => h⟩
    · cases hb : bs.find? (·.1 == m) with
      | none => exact ⟨t, by simp [hd, hb], rfl, rfl, rfl, rfl, fun _ _ h => h⟩
      | some p =>
        obtain ⟨nm, idx⟩ := p
        refine ⟨{ t with store := putSym m { name := m, index := idx, scope := .builtin } t.store },
          by simp [hd, hb], rfl, rfl, rfl, rfl, ?_⟩
        intro n sym h
        by_cases hnm : m = n
        · subst hnm; rw [hm] at h; cases h
        · simp only
          rw [lookup_putSym_other n m _ hnm]; exact h

/-- a disabled builtin that no declaration shadows cannot be resolved in the root table -/
theorem resolve_disabled_root (bs : List (String × Nat)) (dis : List String) (n : String) (t : Table)
    (hd : n ∈ dis) (hs : lookupSym n t.store = none) : (resolveIn bs dis n [t]).1 = none := by
  simp [resolveIn, hs, hd]

/-- `updateMaxDefs` never lowers a table's `maxDefinition` (NumLocals of the session only grows) -/
theorem updateMaxDefs_head (k : Nat) (t : Table) (r : List Table) :
    ∃ t' r', updateMaxDefs k (t :: r) = t' :: r' ∧ t.maxDefinition ≤ t'.maxDefinition ∧ k ≤ t'.maxDefinition ∧
      t'.store = t.store ∧ t'.disabled = t.disabled := by
  unfold updateMaxDefs
  by_cases hk : k > t.maxDefinition
  · by_cases hb : t.block <;> simp [hk, hb] <;> omega
  · by_cases hb : t.block <;> simp [hk, hb] <;> omega

/-- `DefineLocal` of a name the root table already holds (a binding, not the entry `Resolve` caches for
    a builtin that was used) returns the old symbol and changes nothing -/
theorem defineLocal_existing (n : String) (s : CState) (t : Table) (sym : Symbol)
    (ht : s.tables = [t]) (h : lookupSym n t.store = some sym) (hb : sym.scope ≠ .builtin) :
    (defineLocal n).run.run s = (.ok (sym, true), s) := by
  have hd : definedSym n t = some sym := by
    unfold definedSym
    rw [h]
    simp only
    rw [if_neg]
    intro hc
    exact hb (by simpa using hc)
  simp [defineLocal, headTable, ht, hd, ExceptT.run, StateT.run, bind, ExceptT.bind, ExceptT.mk,
    ExceptT.bindCont, StateT.bind, get, getThe, MonadStateOf.get, StateT.get, liftM, monadLift, MonadLift.monadLift,
    ExceptT.lift, pure, ExceptT.pure, StateT.pure, Functor.map, StateT.map]

end UgoVerif.Proofs.EvalSym
