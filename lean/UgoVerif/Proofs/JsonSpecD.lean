import UgoVerif.Spec.JsonDepth
/-
  Helper lemmas for C17 about the recogniser itself (`Spec/Json.lean`, `Spec/JsonDepth.lean`):
  every phrase function returns a shorter input, the fuel does not matter once it exceeds
  the input length, fuel-free unfolding equations (`valueC`, `arrTailC`, `memberC`,
  `objTailC`), and the relation between the budgeted recogniser and the plain one.
-/
namespace UgoVerif.Proofs.Json
open UgoVerif UgoVerif.Go UgoVerif.Spec.Json

/-! ### every phrase function returns a suffix that is shorter -/

theorem skipWs_le (bs : Bytes) : (skipWs bs).length ≤ bs.length := by
  induction bs with
  | nil => simp [skipWs]
  | cons c r ih => simp only [skipWs]; split <;> simp <;> omega

theorem skipDigits_le (bs : Bytes) : (skipDigits bs).length ≤ bs.length := by
  induction bs with
  | nil => simp [skipDigits]
  | cons c r ih => simp only [skipDigits]; split <;> simp <;> omega

theorem strRest_lt : ∀ (bs r : Bytes), strRest bs = some r → r.length < bs.length := by
  intro bs
  fun_induction strRest bs <;> intro r h <;> simp_all <;> (try subst h) <;> (try simp) <;> (try omega)

theorem string_lt (bs r : Bytes) (h : string bs = some r) : r.length < bs.length := by
  cases bs with
  | nil => simp [string] at h
  | cons c t =>
    simp only [string] at h
    split at h
    · have := strRest_lt _ _ h; simp; omega
    · cases h

theorem lit_le : ∀ (w bs r : Bytes), lit w bs = some r → r.length ≤ bs.length
  | [], bs, r, h => by simp [lit] at h; subst h; exact Nat.le_refl _
  | _ :: _, [], r, h => by simp [lit] at h
  | w :: ws, c :: t, r, h => by
    simp only [lit] at h
    split at h
    · have := lit_le ws t r h; simp; omega
    · cases h

theorem digits1_lt (bs r : Bytes) (h : digits1 bs = some r) : r.length < bs.length := by
  cases bs with
  | nil => simp [digits1] at h
  | cons c t =>
    simp only [digits1] at h
    split at h
    · injection h with h; subst h; have := skipDigits_le t; simp; omega
    · cases h

theorem intPart_lt (bs r : Bytes) (h : intPart bs = some r) : r.length < bs.length := by
  cases bs with
  | nil => simp [intPart] at h
  | cons c t =>
    simp only [intPart] at h
    split at h
    · injection h with h; subst h; simp
    · split at h
      · injection h with h; subst h; have := skipDigits_le t; simp; omega
      · cases h

theorem fracPart_le (bs r : Bytes) (h : fracPart bs = some r) : r.length ≤ bs.length := by
  cases bs with
  | nil => simp [fracPart] at h; subst h; simp
  | cons c t =>
    simp only [fracPart] at h
    split at h
    · have := digits1_lt _ _ h; simp; omega
    · injection h with h; subst h; simp

theorem expPart_le (bs r : Bytes) (h : expPart bs = some r) : r.length ≤ bs.length := by
  cases bs with
  | nil => simp [expPart] at h; subst h; simp
  | cons c t =>
    simp only [expPart] at h
    split at h
    · split at h
      · cases h
      · split at h
        · have := digits1_lt _ _ h; simp at *; omega
        · have := digits1_lt _ _ h; simp at *; omega
    · injection h with h; subst h; simp

theorem optMinus_le (bs : Bytes) : (optMinus bs).length ≤ bs.length := by
  cases bs with
  | nil => simp [optMinus]
  | cons c t => simp only [optMinus]; split <;> simp

theorem number_lt (bs r : Bytes) (h : number bs = some r) : r.length < bs.length := by
  unfold number at h
  split at h
  · cases h
  · rename_i r1 h1
    split at h
    · cases h
    · rename_i r2 h2
      have := intPart_lt _ _ h1
      have := fracPart_le _ _ h2
      have := expPart_le _ _ h
      have := optMinus_le bs
      omega

/-! ### one-level unfoldings -/

theorem valueD_cons (f d : Nat) (c : UInt8) (r : Bytes) :
    valueD (f + 1) d (c :: r) =
      if c == 0x22 then strRest r
      else if c == 0x5B then
        match d with
        | 0 => none
        | d + 1 =>
          match skipWs r with
          | [] => none
          | c' :: r' =>
            if c' == 0x5D then some r'
            else (valueD f d (c' :: r')).bind (arrTailD f d)
      else if c == 0x7B then
        match d with
        | 0 => none
        | d + 1 =>
          match skipWs r with
          | [] => none
          | c' :: r' =>
            if c' == 0x7D then some r'
            else (memberD f d (c' :: r')).bind (objTailD f d)
      else if c == 0x74 then lit [0x72, 0x75, 0x65] r
      else if c == 0x66 then lit [0x61, 0x6C, 0x73, 0x65] r
      else if c == 0x6E then lit [0x75, 0x6C, 0x6C] r
      else if c == 0x2D || isDigit c then number (c :: r)
      else none := by
  rw [valueD.eq_def]; rfl

theorem valueD_nil (f d : Nat) : valueD f d [] = none := by
  cases f <;> rw [valueD.eq_def]

theorem arrTailD_succ (f d : Nat) (bs : Bytes) :
    arrTailD (f + 1) d bs =
      match skipWs bs with
      | [] => none
      | c :: r =>
        if c == 0x5D then some r
        else if c == 0x2C then (valueD f d (skipWs r)).bind (arrTailD f d)
        else none := by
  rw [arrTailD.eq_def]; rfl

theorem memberD_succ (f d : Nat) (bs : Bytes) :
    memberD (f + 1) d bs =
      (string bs).bind fun r1 =>
        match skipWs r1 with
        | [] => none
        | c :: r2 => if c == 0x3A then valueD f d (skipWs r2) else none := by
  rw [memberD.eq_def]; rfl

theorem objTailD_succ (f d : Nat) (bs : Bytes) :
    objTailD (f + 1) d bs =
      match skipWs bs with
      | [] => none
      | c :: r =>
        if c == 0x7D then some r
        else if c == 0x2C then (memberD f d (skipWs r)).bind (objTailD f d)
        else none := by
  rw [objTailD.eq_def]; rfl

/-! ### results are shorter -/

theorem specD_lt : ∀ (f d : Nat) (bs r : Bytes),
    (valueD f d bs = some r → r.length < bs.length) ∧
    (arrTailD f d bs = some r → r.length < bs.length) ∧
    (memberD f d bs = some r → r.length < bs.length) ∧
    (objTailD f d bs = some r → r.length < bs.length) := by
  intro f
  induction f with
  | zero => intro d bs r; simp [valueD, arrTailD, memberD, objTailD]
  | succ f ih =>
    intro d bs r
    refine ⟨?_, ?_, ?_, ?_⟩
    · intro h
      cases bs with
      | nil => rw [valueD_nil] at h; cases h
      | cons c t =>
        rw [valueD_cons] at h
        split at h
        · have := strRest_lt _ _ h; simp; omega
        split at h
        · cases d with
          | zero => cases h
          | succ d =>
            simp only [] at h
            split at h
            · cases h
            · rename_i c' r' hs
              have hle := skipWs_le t; rw [hs] at hle
              split at h
              · injection h with h; subst h; simp at *; omega
              · cases hv : valueD f d (c' :: r') with
                | none => simp [hv] at h
                | some r1 =>
                  simp only [hv, Option.bind] at h
                  have := (ih d (c' :: r') r1).1 hv
                  have := (ih d r1 r).2.1 h
                  simp at *; omega
        split at h
        · cases d with
          | zero => cases h
          | succ d =>
            simp only [] at h
            split at h
            · cases h
            · rename_i c' r' hs
              have hle := skipWs_le t; rw [hs] at hle
              split at h
              · injection h with h; subst h; simp at *; omega
              · cases hv : memberD f d (c' :: r') with
                | none => simp [hv] at h
                | some r1 =>
                  simp only [hv, Option.bind] at h
                  have := (ih d (c' :: r') r1).2.2.1 hv
                  have := (ih d r1 r).2.2.2 h
                  simp at *; omega
        split at h
        · have := lit_le _ _ _ h; simp; omega
        split at h
        · have := lit_le _ _ _ h; simp; omega
        split at h
        · have := lit_le _ _ _ h; simp; omega
        split at h
        · exact number_lt _ _ h
        · cases h
    · intro h
      rw [arrTailD_succ] at h
      split at h
      · cases h
      · rename_i c t hs
        have hle := skipWs_le bs; rw [hs] at hle
        split at h
        · injection h with h; subst h; simp at *; omega
        split at h
        · cases hv : valueD f d (skipWs t) with
          | none => simp [hv] at h
          | some r1 =>
            simp only [hv, Option.bind] at h
            have := (ih d (skipWs t) r1).1 hv
            have := (ih d r1 r).2.1 h
            have := skipWs_le t
            simp at *; omega
        · cases h
    · intro h
      rw [memberD_succ] at h
      cases hs : string bs with
      | none => simp [hs] at h
      | some r1 =>
        simp only [hs, Option.bind] at h
        have h1 := string_lt _ _ hs
        split at h
        · cases h
        · rename_i c r2 hw
          have hle := skipWs_le r1; rw [hw] at hle
          split at h
          · have := (ih d (skipWs r2) r).1 h
            have := skipWs_le r2
            simp at *; omega
          · cases h
    · intro h
      rw [objTailD_succ] at h
      split at h
      · cases h
      · rename_i c t hs
        have hle := skipWs_le bs; rw [hs] at hle
        split at h
        · injection h with h; subst h; simp at *; omega
        split at h
        · cases hv : memberD f d (skipWs t) with
          | none => simp [hv] at h
          | some r1 =>
            simp only [hv, Option.bind] at h
            have := (ih d (skipWs t) r1).2.2.1 hv
            have := (ih d r1 r).2.2.2 h
            have := skipWs_le t
            simp at *; omega
        · cases h

theorem valueD_lt {f d : Nat} {bs r : Bytes} (h : valueD f d bs = some r) : r.length < bs.length :=
  (specD_lt f d bs r).1 h
theorem arrTailD_lt {f d : Nat} {bs r : Bytes} (h : arrTailD f d bs = some r) : r.length < bs.length :=
  (specD_lt f d bs r).2.1 h
theorem memberD_lt {f d : Nat} {bs r : Bytes} (h : memberD f d bs = some r) : r.length < bs.length :=
  (specD_lt f d bs r).2.2.1 h
theorem objTailD_lt {f d : Nat} {bs r : Bytes} (h : objTailD f d bs = some r) : r.length < bs.length :=
  (specD_lt f d bs r).2.2.2 h


/-! ### the fuel does not matter once it exceeds the input length -/

theorem bind_congr_some {α β : Type} (a : Option α) (k k' : α → Option β)
    (h : ∀ r, a = some r → k r = k' r) : a.bind k = a.bind k' := by
  cases a with
  | none => rfl
  | some r => exact h r rfl

theorem specD_fuel_succ : ∀ (f d : Nat) (bs : Bytes), bs.length < f →
    valueD (f + 1) d bs = valueD f d bs ∧ arrTailD (f + 1) d bs = arrTailD f d bs ∧
    memberD (f + 1) d bs = memberD f d bs ∧ objTailD (f + 1) d bs = objTailD f d bs := by
  intro f
  induction f with
  | zero => intro d bs h; simp at h
  | succ f ih =>
    intro d bs hlen
    refine ⟨?_, ?_, ?_, ?_⟩
    · cases bs with
      | nil => rw [valueD_nil, valueD_nil]
      | cons c t =>
        rw [valueD_cons (f + 1), valueD_cons f]
        simp only [List.length_cons] at hlen
        by_cases h1 : (c == 0x22) = true
        · simp only [h1, if_true]
        simp only [h1, Bool.false_eq_true, if_false]
        by_cases h2 : (c == 0x5B) = true
        · simp only [h2, if_true]
          cases d with
          | zero => rfl
          | succ d =>
            simp only []
            have hle := skipWs_le t
            cases hs : skipWs t with
            | nil => rfl
            | cons c' r' =>
              rw [hs] at hle; simp only [List.length_cons] at hle
              simp only []
              by_cases h3 : (c' == 0x5D) = true
              · simp only [h3, if_true]
              simp only [h3, Bool.false_eq_true, if_false]
              rw [(ih d (c' :: r') (by simp only [List.length_cons]; omega)).1]
              apply bind_congr_some
              intro r1 hr1
              have := valueD_lt hr1
              simp only [List.length_cons] at this
              exact (ih d r1 (by omega)).2.1
        simp only [h2, Bool.false_eq_true, if_false]
        by_cases h4 : (c == 0x7B) = true
        · simp only [h4, if_true]
          cases d with
          | zero => rfl
          | succ d =>
            simp only []
            have hle := skipWs_le t
            cases hs : skipWs t with
            | nil => rfl
            | cons c' r' =>
              rw [hs] at hle; simp only [List.length_cons] at hle
              simp only []
              by_cases h3 : (c' == 0x7D) = true
              · simp only [h3, if_true]
              simp only [h3, Bool.false_eq_true, if_false]
              rw [(ih d (c' :: r') (by simp only [List.length_cons]; omega)).2.2.1]
              apply bind_congr_some
              intro r1 hr1
              have := memberD_lt hr1
              simp only [List.length_cons] at this
              exact (ih d r1 (by omega)).2.2.2
        simp only [h4, Bool.false_eq_true, if_false]
    · rw [arrTailD_succ (f + 1), arrTailD_succ f]
      have hle := skipWs_le bs
      cases hs : skipWs bs with
      | nil => rfl
      | cons c t =>
        rw [hs] at hle; simp only [List.length_cons] at hle
        simp only []
        by_cases h1 : (c == 0x5D) = true
        · simp only [h1, if_true]
        simp only [h1, Bool.false_eq_true, if_false]
        by_cases h2 : (c == 0x2C) = true
        · simp only [h2, if_true]
          have := skipWs_le t
          rw [(ih d (skipWs t) (by omega)).1]
          apply bind_congr_some
          intro r1 hr1
          have := valueD_lt hr1
          exact (ih d r1 (by omega)).2.1
        simp only [h2, Bool.false_eq_true, if_false]
    · rw [memberD_succ (f + 1), memberD_succ f]
      apply bind_congr_some
      intro r1 hr1
      have h1 := string_lt _ _ hr1
      have hle := skipWs_le r1
      cases hs : skipWs r1 with
      | nil => rfl
      | cons c r2 =>
        rw [hs] at hle; simp only [List.length_cons] at hle
        simp only []
        by_cases h2 : (c == 0x3A) = true
        · simp only [h2, if_true]
          have := skipWs_le r2
          exact (ih d (skipWs r2) (by omega)).1
        simp only [h2, Bool.false_eq_true, if_false]
    · rw [objTailD_succ (f + 1), objTailD_succ f]
      have hle := skipWs_le bs
      cases hs : skipWs bs with
      | nil => rfl
      | cons c t =>
        rw [hs] at hle; simp only [List.length_cons] at hle
        simp only []
        by_cases h1 : (c == 0x7D) = true
        · simp only [h1, if_true]
        simp only [h1, Bool.false_eq_true, if_false]
        by_cases h2 : (c == 0x2C) = true
        · simp only [h2, if_true]
          have := skipWs_le t
          rw [(ih d (skipWs t) (by omega)).2.2.1]
          apply bind_congr_some
          intro r1 hr1
          have := memberD_lt hr1
          exact (ih d r1 (by omega)).2.2.2
        simp only [h2, Bool.false_eq_true, if_false]

theorem specD_fuel_add (k : Nat) : ∀ (f d : Nat) (bs : Bytes), bs.length < f →
    valueD (f + k) d bs = valueD f d bs ∧ arrTailD (f + k) d bs = arrTailD f d bs ∧
    memberD (f + k) d bs = memberD f d bs ∧ objTailD (f + k) d bs = objTailD f d bs := by
  induction k with
  | zero => intro f d bs _; exact ⟨rfl, rfl, rfl, rfl⟩
  | succ k ih =>
    intro f d bs h
    have h1 := specD_fuel_succ (f + k) d bs (by omega)
    have h2 := ih f d bs h
    rw [← Nat.add_assoc]
    exact ⟨h1.1.trans h2.1, h1.2.1.trans h2.2.1, h1.2.2.1.trans h2.2.2.1, h1.2.2.2.trans h2.2.2.2⟩

/-- canonical fuel: one more than the input length -/
def valueC (d : Nat) (bs : Bytes) : Option Bytes := valueD (bs.length + 1) d bs
def arrTailC (d : Nat) (bs : Bytes) : Option Bytes := arrTailD (bs.length + 1) d bs
def memberC (d : Nat) (bs : Bytes) : Option Bytes := memberD (bs.length + 1) d bs
def objTailC (d : Nat) (bs : Bytes) : Option Bytes := objTailD (bs.length + 1) d bs

theorem valueD_eq_C {f d : Nat} {bs : Bytes} (h : bs.length < f) : valueD f d bs = valueC d bs := by
  have := (specD_fuel_add (f - (bs.length + 1)) (bs.length + 1) d bs (by omega)).1
  rw [show bs.length + 1 + (f - (bs.length + 1)) = f by omega] at this
  exact this
theorem arrTailD_eq_C {f d : Nat} {bs : Bytes} (h : bs.length < f) : arrTailD f d bs = arrTailC d bs := by
  have := (specD_fuel_add (f - (bs.length + 1)) (bs.length + 1) d bs (by omega)).2.1
  rw [show bs.length + 1 + (f - (bs.length + 1)) = f by omega] at this
  exact this
theorem memberD_eq_C {f d : Nat} {bs : Bytes} (h : bs.length < f) : memberD f d bs = memberC d bs := by
  have := (specD_fuel_add (f - (bs.length + 1)) (bs.length + 1) d bs (by omega)).2.2.1
  rw [show bs.length + 1 + (f - (bs.length + 1)) = f by omega] at this
  exact this
theorem objTailD_eq_C {f d : Nat} {bs : Bytes} (h : bs.length < f) : objTailD f d bs = objTailC d bs := by
  have := (specD_fuel_add (f - (bs.length + 1)) (bs.length + 1) d bs (by omega)).2.2.2
  rw [show bs.length + 1 + (f - (bs.length + 1)) = f by omega] at this
  exact this

theorem valueC_lt {d : Nat} {bs r : Bytes} (h : valueC d bs = some r) : r.length < bs.length := valueD_lt h
theorem arrTailC_lt {d : Nat} {bs r : Bytes} (h : arrTailC d bs = some r) : r.length < bs.length := arrTailD_lt h
theorem memberC_lt {d : Nat} {bs r : Bytes} (h : memberC d bs = some r) : r.length < bs.length := memberD_lt h
theorem objTailC_lt {d : Nat} {bs r : Bytes} (h : objTailC d bs = some r) : r.length < bs.length := objTailD_lt h

/-! ### fuel-free unfolding equations -/

theorem valueC_nil (d : Nat) : valueC d [] = none := valueD_nil _ _

theorem valueC_cons (d : Nat) (c : UInt8) (r : Bytes) :
    valueC d (c :: r) =
      if c == 0x22 then strRest r
      else if c == 0x5B then
        match d with
        | 0 => none
        | d + 1 =>
          match skipWs r with
          | [] => none
          | c' :: r' =>
            if c' == 0x5D then some r'
            else (valueC d (c' :: r')).bind (arrTailC d)
      else if c == 0x7B then
        match d with
        | 0 => none
        | d + 1 =>
          match skipWs r with
          | [] => none
          | c' :: r' =>
            if c' == 0x7D then some r'
            else (memberC d (c' :: r')).bind (objTailC d)
      else if c == 0x74 then lit [0x72, 0x75, 0x65] r
      else if c == 0x66 then lit [0x61, 0x6C, 0x73, 0x65] r
      else if c == 0x6E then lit [0x75, 0x6C, 0x6C] r
      else if c == 0x2D || isDigit c then number (c :: r)
      else none := by
  unfold valueC
  rw [valueD_cons]
  by_cases h1 : (c == 0x22) = true
  · simp only [h1, if_true]
  simp only [h1, Bool.false_eq_true, if_false]
  by_cases h2 : (c == 0x5B) = true
  · simp only [h2, if_true]
    cases d with
    | zero => rfl
    | succ d =>
      simp only []
      have hle := skipWs_le r
      cases hs : skipWs r with
      | nil => rfl
      | cons c' r' =>
        rw [hs] at hle
        simp only []
        by_cases h3 : (c' == 0x5D) = true
        · simp only [h3, if_true]
        simp only [h3, Bool.false_eq_true, if_false]
        rw [valueD_eq_C (by simp only [List.length_cons] at hle ⊢; omega)]
        apply bind_congr_some
        intro r1 hr1
        have := valueC_lt hr1
        exact arrTailD_eq_C (by simp only [List.length_cons] at hle this ⊢; omega)
  simp only [h2, Bool.false_eq_true, if_false]
  by_cases h4 : (c == 0x7B) = true
  · simp only [h4, if_true]
    cases d with
    | zero => rfl
    | succ d =>
      simp only []
      have hle := skipWs_le r
      cases hs : skipWs r with
      | nil => rfl
      | cons c' r' =>
        rw [hs] at hle
        simp only []
        by_cases h3 : (c' == 0x7D) = true
        · simp only [h3, if_true]
        simp only [h3, Bool.false_eq_true, if_false]
        rw [memberD_eq_C (by simp only [List.length_cons] at hle ⊢; omega)]
        apply bind_congr_some
        intro r1 hr1
        have := memberC_lt hr1
        exact objTailD_eq_C (by simp only [List.length_cons] at hle this ⊢; omega)
  simp only [h4, Bool.false_eq_true, if_false]

theorem arrTailC_eq (d : Nat) (bs : Bytes) :
    arrTailC d bs =
      match skipWs bs with
      | [] => none
      | c :: r =>
        if c == 0x5D then some r
        else if c == 0x2C then (valueC d (skipWs r)).bind (arrTailC d)
        else none := by
  unfold arrTailC
  rw [arrTailD_succ]
  have hle := skipWs_le bs
  cases hs : skipWs bs with
  | nil => rfl
  | cons c t =>
    rw [hs] at hle; simp only [List.length_cons] at hle
    simp only []
    by_cases h1 : (c == 0x5D) = true
    · simp only [h1, if_true]
    simp only [h1, Bool.false_eq_true, if_false]
    by_cases h2 : (c == 0x2C) = true
    · simp only [h2, if_true]
      have := skipWs_le t
      rw [valueD_eq_C (by omega)]
      apply bind_congr_some
      intro r1 hr1
      have := valueC_lt hr1
      exact arrTailD_eq_C (by omega)
    simp only [h2, Bool.false_eq_true, if_false]

theorem memberC_eq (d : Nat) (bs : Bytes) :
    memberC d bs =
      (string bs).bind fun r1 =>
        match skipWs r1 with
        | [] => none
        | c :: r2 => if c == 0x3A then valueC d (skipWs r2) else none := by
  unfold memberC
  rw [memberD_succ]
  apply bind_congr_some
  intro r1 hr1
  have h1 := string_lt _ _ hr1
  have hle := skipWs_le r1
  cases hs : skipWs r1 with
  | nil => rfl
  | cons c r2 =>
    rw [hs] at hle; simp only [List.length_cons] at hle
    simp only []
    by_cases h2 : (c == 0x3A) = true
    · simp only [h2, if_true]
      have := skipWs_le r2
      exact valueD_eq_C (by omega)
    simp only [h2, Bool.false_eq_true, if_false]

theorem objTailC_eq (d : Nat) (bs : Bytes) :
    objTailC d bs =
      match skipWs bs with
      | [] => none
      | c :: r =>
        if c == 0x7D then some r
        else if c == 0x2C then (memberC d (skipWs r)).bind (objTailC d)
        else none := by
  unfold objTailC
  rw [objTailD_succ]
  have hle := skipWs_le bs
  cases hs : skipWs bs with
  | nil => rfl
  | cons c t =>
    rw [hs] at hle; simp only [List.length_cons] at hle
    simp only []
    by_cases h1 : (c == 0x7D) = true
    · simp only [h1, if_true]
    simp only [h1, Bool.false_eq_true, if_false]
    by_cases h2 : (c == 0x2C) = true
    · simp only [h2, if_true]
      have := skipWs_le t
      rw [memberD_eq_C (by omega)]
      apply bind_congr_some
      intro r1 hr1
      have := memberC_lt hr1
      exact objTailD_eq_C (by omega)
    simp only [h2, Bool.false_eq_true, if_false]


/-! ### the budgeted recogniser and the plain one -/

theorem value_cons (f : Nat) (c : UInt8) (r : Bytes) :
    value (f + 1) (c :: r) =
      if c == 0x22 then strRest r
      else if c == 0x5B then
        match skipWs r with
        | [] => none
        | c' :: r' =>
          if c' == 0x5D then some r'
          else match value f (c' :: r') with
            | none => none
            | some r1 => arrTail f r1
      else if c == 0x7B then
        match skipWs r with
        | [] => none
        | c' :: r' =>
          if c' == 0x7D then some r'
          else match member f (c' :: r') with
            | none => none
            | some r1 => objTail f r1
      else if c == 0x74 then lit [0x72, 0x75, 0x65] r
      else if c == 0x66 then lit [0x61, 0x6C, 0x73, 0x65] r
      else if c == 0x6E then lit [0x75, 0x6C, 0x6C] r
      else if c == 0x2D || isDigit c then number (c :: r)
      else none := by
  rw [value.eq_def]; rfl

theorem value_nil (f : Nat) : value f [] = none := by
  cases f <;> rw [value.eq_def]

theorem arrTail_succ (f : Nat) (bs : Bytes) :
    arrTail (f + 1) bs =
      match skipWs bs with
      | [] => none
      | c :: r =>
        if c == 0x5D then some r
        else if c == 0x2C then
          match value f (skipWs r) with
          | none => none
          | some r1 => arrTail f r1
        else none := by
  rw [arrTail.eq_def]; rfl

theorem member_succ (f : Nat) (bs : Bytes) :
    member (f + 1) bs =
      match string bs with
      | none => none
      | some r1 =>
        match skipWs r1 with
        | [] => none
        | c :: r2 => if c == 0x3A then value f (skipWs r2) else none := by
  rw [member.eq_def]; rfl

theorem objTail_succ (f : Nat) (bs : Bytes) :
    objTail (f + 1) bs =
      match skipWs bs with
      | [] => none
      | c :: r =>
        if c == 0x7D then some r
        else if c == 0x2C then
          match member f (skipWs r) with
          | none => none
          | some r1 => objTail f r1
        else none := by
  rw [objTail.eq_def]; rfl

theorem bind_eq_match {α β : Type} (a : Option α) (k : α → Option β) :
    a.bind k = match a with | none => none | some r => k r := by
  cases a <;> rfl

/-- with a budget that is at least the fuel the budget never runs out -/
theorem specD_eq_value : ∀ (f d : Nat) (bs : Bytes), f ≤ d →
    valueD f d bs = value f bs ∧ arrTailD f d bs = arrTail f bs ∧
    memberD f d bs = member f bs ∧ objTailD f d bs = objTail f bs := by
  intro f
  induction f with
  | zero => intro d bs _; simp [valueD, arrTailD, memberD, objTailD, value, arrTail, member, objTail]
  | succ f ih =>
    intro d bs hd
    refine ⟨?_, ?_, ?_, ?_⟩
    · cases bs with
      | nil => rw [valueD_nil, value_nil]
      | cons c t =>
        rw [valueD_cons, value_cons]
        cases d with
        | zero => omega
        | succ d =>
          have hd' : f ≤ d := by omega
          simp only []
          by_cases h1 : (c == 0x22) = true
          · simp only [h1, if_true]
          simp only [h1, Bool.false_eq_true, if_false]
          by_cases h2 : (c == 0x5B) = true
          · simp only [h2, if_true]
            cases hs : skipWs t with
            | nil => rfl
            | cons c' r' =>
              simp only []
              by_cases h3 : (c' == 0x5D) = true
              · simp only [h3, if_true]
              simp only [h3, Bool.false_eq_true, if_false]
              rw [(ih d (c' :: r') hd').1, bind_eq_match]
              cases value f (c' :: r') with
              | none => rfl
              | some r1 => exact (ih d r1 hd').2.1
          simp only [h2, Bool.false_eq_true, if_false]
          by_cases h4 : (c == 0x7B) = true
          · simp only [h4, if_true]
            cases hs : skipWs t with
            | nil => rfl
            | cons c' r' =>
              simp only []
              by_cases h3 : (c' == 0x7D) = true
              · simp only [h3, if_true]
              simp only [h3, Bool.false_eq_true, if_false]
              rw [(ih d (c' :: r') hd').2.2.1, bind_eq_match]
              cases member f (c' :: r') with
              | none => rfl
              | some r1 => exact (ih d r1 hd').2.2.2
          simp only [h4, Bool.false_eq_true, if_false]
    · rw [arrTailD_succ, arrTail_succ]
      have hd' : f ≤ d := by omega
      cases hs : skipWs bs with
      | nil => rfl
      | cons c t =>
        simp only []
        by_cases h1 : (c == 0x5D) = true
        · simp only [h1, if_true]
        simp only [h1, Bool.false_eq_true, if_false]
        by_cases h2 : (c == 0x2C) = true
        · simp only [h2, if_true]
          rw [(ih d (skipWs t) hd').1, bind_eq_match]
          cases value f (skipWs t) with
          | none => rfl
          | some r1 => exact (ih d r1 hd').2.1
        simp only [h2, Bool.false_eq_true, if_false]
    · rw [memberD_succ, member_succ, bind_eq_match]
      have hd' : f ≤ d := by omega
      cases string bs with
      | none => rfl
      | some r1 =>
        simp only []
        cases hs : skipWs r1 with
        | nil => rfl
        | cons c r2 =>
          simp only []
          by_cases h2 : (c == 0x3A) = true
          · simp only [h2, if_true]
            exact (ih d (skipWs r2) hd').1
          simp only [h2, Bool.false_eq_true, if_false]
    · rw [objTailD_succ, objTail_succ]
      have hd' : f ≤ d := by omega
      cases hs : skipWs bs with
      | nil => rfl
      | cons c t =>
        simp only []
        by_cases h1 : (c == 0x7D) = true
        · simp only [h1, if_true]
        simp only [h1, Bool.false_eq_true, if_false]
        by_cases h2 : (c == 0x2C) = true
        · simp only [h2, if_true]
          rw [(ih d (skipWs t) hd').2.2.1, bind_eq_match]
          cases member f (skipWs t) with
          | none => rfl
          | some r1 => exact (ih d r1 hd').2.2.2
        simp only [h2, Bool.false_eq_true, if_false]

theorem bind_mono {α β : Type} (a a' : Option α) (k k' : α → Option β) (r : β)
    (ha : ∀ x, a = some x → a' = some x) (hk : ∀ x y, k x = some y → k' x = some y)
    (h : a.bind k = some r) : a'.bind k' = some r := by
  cases a with
  | none => cases h
  | some x => rw [ha x rfl]; exact hk x r h

/-- a larger budget accepts at least as much -/
theorem specD_mono : ∀ (f d d' : Nat) (bs r : Bytes), d ≤ d' →
    (valueD f d bs = some r → valueD f d' bs = some r) ∧
    (arrTailD f d bs = some r → arrTailD f d' bs = some r) ∧
    (memberD f d bs = some r → memberD f d' bs = some r) ∧
    (objTailD f d bs = some r → objTailD f d' bs = some r) := by
  intro f
  induction f with
  | zero => intro d d' bs r _; simp [valueD, arrTailD, memberD, objTailD]
  | succ f ih =>
    intro d d' bs r hd
    refine ⟨?_, ?_, ?_, ?_⟩
    · cases bs with
      | nil => rw [valueD_nil]; intro h; cases h
      | cons c t =>
        rw [valueD_cons, valueD_cons]
        by_cases h1 : (c == 0x22) = true
        · simp only [h1, if_true]; exact id
        simp only [h1, Bool.false_eq_true, if_false]
        by_cases h2 : (c == 0x5B) = true
        · simp only [h2, if_true]
          cases d with
          | zero => intro h; cases h
          | succ d =>
            cases d' with
            | zero => omega
            | succ d' =>
              simp only []
              cases hs : skipWs t with
              | nil => exact id
              | cons c' r' =>
                simp only []
                by_cases h3 : (c' == 0x5D) = true
                · simp only [h3, if_true]; exact id
                simp only [h3, Bool.false_eq_true, if_false]
                exact bind_mono _ _ _ _ _ (fun x => (ih d d' _ x (by omega)).1)
                  (fun x y => (ih d d' x y (by omega)).2.1)
        simp only [h2, Bool.false_eq_true, if_false]
        by_cases h4 : (c == 0x7B) = true
        · simp only [h4, if_true]
          cases d with
          | zero => intro h; cases h
          | succ d =>
            cases d' with
            | zero => omega
            | succ d' =>
              simp only []
              cases hs : skipWs t with
              | nil => exact id
              | cons c' r' =>
                simp only []
                by_cases h3 : (c' == 0x7D) = true
                · simp only [h3, if_true]; exact id
                simp only [h3, Bool.false_eq_true, if_false]
                exact bind_mono _ _ _ _ _ (fun x => (ih d d' _ x (by omega)).2.2.1)
                  (fun x y => (ih d d' x y (by omega)).2.2.2)
        simp only [h4, Bool.false_eq_true, if_false]; exact id
    · rw [arrTailD_succ, arrTailD_succ]
      cases hs : skipWs bs with
      | nil => exact id
      | cons c t =>
        simp only []
        by_cases h1 : (c == 0x5D) = true
        · simp only [h1, if_true]; exact id
        simp only [h1, Bool.false_eq_true, if_false]
        by_cases h2 : (c == 0x2C) = true
        · simp only [h2, if_true]
          exact bind_mono _ _ _ _ _ (fun x => (ih d d' _ x hd).1) (fun x y => (ih d d' x y hd).2.1)
        simp only [h2, Bool.false_eq_true, if_false]; exact id
    · rw [memberD_succ, memberD_succ]
      apply bind_mono _ _ _ _ _ (fun x h => h)
      intro r1 y
      cases hs : skipWs r1 with
      | nil => exact id
      | cons c r2 =>
        simp only []
        by_cases h2 : (c == 0x3A) = true
        · simp only [h2, if_true]
          exact (ih d d' _ y hd).1
        simp only [h2, Bool.false_eq_true, if_false]; exact id
    · rw [objTailD_succ, objTailD_succ]
      cases hs : skipWs bs with
      | nil => exact id
      | cons c t =>
        simp only []
        by_cases h1 : (c == 0x7D) = true
        · simp only [h1, if_true]; exact id
        simp only [h1, Bool.false_eq_true, if_false]
        by_cases h2 : (c == 0x2C) = true
        · simp only [h2, if_true]
          exact bind_mono _ _ _ _ _ (fun x => (ih d d' _ x hd).2.2.1) (fun x y => (ih d d' x y hd).2.2.2)
        simp only [h2, Bool.false_eq_true, if_false]; exact id

/-- a depth-limited JSON text is a JSON text -/
theorem isJsonD_isJson (d : Nat) (bs : Bytes) (h : isJsonD d bs = true) : isJson bs = true := by
  unfold isJsonD at h
  unfold isJson
  cases hv : valueD (bs.length + 1) d (skipWs bs) with
  | none => rw [hv] at h; cases h
  | some r =>
    rw [hv] at h
    have h1 := (specD_mono (bs.length + 1) d (max d (bs.length + 1)) (skipWs bs) r (Nat.le_max_left _ _)).1 hv
    rw [(specD_eq_value (bs.length + 1) _ (skipWs bs) (Nat.le_max_right _ _)).1] at h1
    rw [h1]; exact h

/-- every JSON text has some nesting depth (at most its length + 1) -/
theorem isJson_isJsonD (bs : Bytes) (h : isJson bs = true) : isJsonD (bs.length + 1) bs = true := by
  unfold isJson at h
  unfold isJsonD
  rw [(specD_eq_value (bs.length + 1) _ (skipWs bs) (Nat.le_refl _)).1]
  exact h

theorem isJsonD_mono (d d' : Nat) (bs : Bytes) (hd : d ≤ d') (h : isJsonD d bs = true) : isJsonD d' bs = true := by
  unfold isJsonD at h ⊢
  cases hv : valueD (bs.length + 1) d (skipWs bs) with
  | none => rw [hv] at h; cases h
  | some r =>
    rw [hv] at h
    rw [(specD_mono _ d d' _ r hd).1 hv]; exact h

/-- `isJsonD` through the canonical-fuel function -/
theorem isJsonD_eq (d : Nat) (bs : Bytes) :
    isJsonD d bs = match valueC d (skipWs bs) with
      | none => false
      | some r => (skipWs r).isEmpty := by
  unfold isJsonD
  rw [valueD_eq_C (by have := skipWs_le bs; omega)]
  rfl

/-- the fuel of the plain recogniser does not matter either -/
theorem value_fuel {f f' : Nat} {bs : Bytes} (h : bs.length < f) (h' : bs.length < f') :
    value f bs = value f' bs := by
  rw [← (specD_eq_value f (max f f') bs (Nat.le_max_left _ _)).1,
      ← (specD_eq_value f' (max f f') bs (Nat.le_max_right _ _)).1,
      valueD_eq_C h, valueD_eq_C h']

end UgoVerif.Proofs.Json
