import UgoVerif.Proofs.CompSimStmt
import UgoVerif.Proofs.CompSimTab
/-
  C02, compile ⊑ Sem, statement slice — the fragment `StmtF`, the relation between a VM state and
  a state of the reference semantics, and the statement of the simulation.

  * `HeapRel s t`: the reference heap `t.heap` is the VM heap `s.heap` followed by variable boxes
    (the reference semantics allocates one box per executed declaration, the VM keeps uncaptured
    locals in stack slots; the fragment allocates nothing else until an error is thrown).
  * `Static σ N env binds` / `Dyn binds t s bp`: `binds` lists the (slot, box address) pairs of the
    variables in scope (also the shadowed ones).  Every name the compiler resolves to slot `i`
    (`σ = localIdx cs`) is bound in `env` to a box `a` with `(i, a) ∈ binds`; slots are below
    `N = nextIndex`; distinct pairs have distinct slots and distinct boxes; box `a` lies behind the
    VM heap and holds the scalar that stack slot `bp + i` holds.
  * `OutS`: what the VM does when the reference semantics completes with `normal` / `ret v` / `thr a`.
-/
set_option linter.unusedSimpArgs false
set_option linter.unusedVariables false
namespace UgoVerif.CompSim
open UgoVerif UgoVerif.Go UgoVerif.Ast UgoVerif.VM UgoVerif.Proofs.ModCache UgoVerif.Proofs.VMExec
open UgoVerif.Compile (CState runCM compileExpr compileStmt compileStmts IsPre Pre Table nextIndex)

/-! ### the statement fragment -/

/-- the symbol environment "the names of `B` are known" (only `isSome` matters to `ExprF`) -/
def bnd (B : List String) : String → Option Nat := fun n => if B.contains n then some 0 else none

def isBoolLit : Expr → Bool
  | .bool .. => true
  | _ => false

/-- the condition of an `if` is the literal `true` (the compiler then emits the body only) -/
def isTrueLit : Expr → Bool
  | .bool _ true => true
  | _ => false

/-- the condition of an `if` is the literal `false` (the compiler then emits a JUMP and the else part only) -/
def isFalseLit : Expr → Bool
  | .bool _ false => true
  | _ => false

/-- conditions of `if`: the literals `true` / `false`, or an expression of the fragment that is not a boolean literal -/
def condF (B : List String) (c : Expr) : Bool := isTrueLit c || isFalseLit c || (ExprF (bnd B) c && !isBoolLit c)

/-- one specification of a `var` declaration -/
abbrev Spec := Option Nat × List (Pos × String) × List (Option Expr)

def specF (B : List String) : Spec → Bool
  | (_, [(_, x)], [some e]) => ExprF (bnd B) e && x != "_"
  | (_, [(_, x)], []) => x != "_"
  | _ => false

def defsSpec (B : List String) : Spec → List String
  | (_, [(_, x)], _) => x :: B
  | _ => B

def specsF : List String → List Spec → Bool
  | _, [] => true
  | B, sp :: r => specF B sp && specsF (defsSpec B sp) r

def defsSpecs : List String → List Spec → List String
  | B, [] => B
  | B, sp :: r => defsSpecs (defsSpec B sp) r

def needSpec : Spec → Nat
  | (_, _, [some e]) => need e + 1
  | _ => 2

def needSpecs : List Spec → Nat
  | [] => 0
  | sp :: r => max (needSpec sp) (needSpecs r)

/-- `var` declarations of the slice: a non-empty group of specifications, each with one name, with a value or without -/
def declF (B : List String) (tok : Nat) (specs : List Spec) : Bool := tok == tVar && !specs.isEmpty && specsF B specs

/-- the names in scope behind a statement -/
def defsOf (B : List String) : Stmt → List String
  | .assign _ tok [.ident _ x] _ => if tok == tDefine then x :: B else B
  | .declValue _ _ specs => defsSpecs B specs
  | _ => B

/-- `x++` / `x--` on a name in scope -/
def incF (B : List String) : Expr → Bool
  | .ident _ x => B.contains x
  | _ => false

mutual
/-- statements of the slice: `e;`, `x := e`, `var x = e`, `var x`, `var ( … )` groups of them, `x = e`, `x op= e`, `x++`, `x--` (uncaptured locals),
    blocks, `if c { … }`, `if c { … } else { … }`, `else if` (also with the literal `true` as condition), `if init; c { … }` (init a statement of the slice), `return`,
    `return e`, the empty statement -/
def StmtF : List String → Stmt → Bool
  | _, .empty _ => true
  | B, .expr _ e => ExprF (bnd B) e
  | B, .incdec _ _ _ e => incF B e
  | B, .assign _ tok [.ident _ x] [r] =>
      ExprF (bnd B) r &&
      (if tok == tDefine then x != "_"
       else if tok == tAssign then B.contains x
       else (Compile.compoundOp tok).isSome && B.contains x)
  | B, .declValue _ tok specs => declF B tok specs
  | B, .block _ body => StmtsF B body
  | B, .if_ _ none c _ body none => condF B c && StmtsF B body
  | B, .if_ _ none c _ body (some e) => condF B c && StmtsF B body && ElseF B e
  | B, .if_ _ (some i) c _ body none =>
      StmtF B i && (ExprF (bnd (defsOf B i)) c && !isBoolLit c) && StmtsF (defsOf B i) body
  | B, .if_ _ (some i) c _ body (some e) =>
      StmtF B i && (ExprF (bnd (defsOf B i)) c && !isBoolLit c) && StmtsF (defsOf B i) body && ElseF (defsOf B i) e
  | _, .return_ _ none => true
  | B, .return_ _ (some e) => ExprF (bnd B) e
  | _, _ => false
/-- what may follow `else`: a block or another `if` -/
def ElseF : List String → Stmt → Bool
  | B, .block _ body => StmtsF B body
  | B, .if_ _ none c _ body none => condF B c && StmtsF B body
  | B, .if_ _ none c _ body (some e) => condF B c && StmtsF B body && ElseF B e
  | _, _ => false
def StmtsF : List String → List Stmt → Bool
  | _, [] => true
  | B, s :: r => StmtF B s && StmtsF (defsOf B s) r
end

def defsL : List String → List Stmt → List String
  | B, [] => B
  | B, s :: r => defsL (defsOf B s) r

mutual
/-- stack slots the code of a statement uses above `sp` -/
def needS : Stmt → Nat
  | .expr _ e => need e
  | .assign _ _ _ [r] => need r + 1
  | .declValue _ _ specs => needSpecs specs
  | .incdec _ _ _ _ => 2
  | .block _ body => needL body
  | .if_ _ (some i) c _ body none => max (needS i) (max (need c) (needL body))
  | .if_ _ (some i) c _ body (some e) => max (needS i) (max (need c) (max (needL body) (needS e)))
  | .if_ _ _ c _ body none => max (need c) (needL body)
  | .if_ _ _ c _ body (some e) => max (need c) (max (needL body) (needS e))
  | .return_ _ (some e) => need e
  | _ => 0
def needL : List Stmt → Nat
  | [] => 0
  | s :: r => max (needS s) (needL r)
end

/-- every name of `B` resolves to a local slot -/
def Cov (B : List String) (σ : String → Option Nat) : Prop := ∀ n, n ∈ B → (σ n).isSome

theorem exprF_mono {σ σ' : String → Option Nat} (h : ∀ n, (σ n).isSome → (σ' n).isSome) :
    ∀ e : Expr, ExprF σ e = true → ExprF σ' e = true
  | .int .. | .uint .. | .float .. | .char .. | .bool .. | .str .. | .undef _ => fun _ => rfl
  | .paren _ e => by simp only [ExprF]; exact exprF_mono h e
  | .ident _ n => by simp only [ExprF]; exact h n
  | .unary _ _ e => by simp only [ExprF]; exact exprF_mono h e
  | .binary _ _ l r => by
    simp only [ExprF, Bool.and_eq_true]
    exact fun ⟨a, b⟩ => ⟨exprF_mono h l a, exprF_mono h r b⟩
  | .cond _ c t f => by
    simp only [ExprF, Bool.and_eq_true]
    exact fun ⟨⟨a, b⟩, c'⟩ => ⟨⟨exprF_mono h c a, exprF_mono h t b⟩, exprF_mono h f c'⟩
  | .array .. | .map .. | .index .. | .selector .. | .slice .. | .call .. | .func .. | .import_ .. => by
    simp [ExprF]

theorem exprF_of_cov {B : List String} {σ : String → Option Nat} (hc : Cov B σ) {e : Expr} (h : ExprF (bnd B) e = true) :
    ExprF σ e = true := by
  refine exprF_mono ?_ e h
  intro n hn
  apply hc
  unfold bnd at hn
  split at hn
  · rename_i hb; simpa using hb
  · simp at hn

theorem Cov.cons {B : List String} {σ σ' : String → Option Nat} {x : String} (hc : Cov B σ)
    (hx : (σ' x).isSome) (hne : ∀ m, m ≠ x → σ' m = σ m) : Cov (x :: B) σ' := by
  intro n hn
  by_cases h : n = x
  · subst h; exact hx
  · rw [hne n h]
    exact hc n (by simpa [h] using hn)

/-! ### runs in the reference semantics' monad -/

theorem sm_bind_inv {α β} {x : Sem.SM α} {f : α → Sem.SM β} {ss ss' : Sem.SemSt} {t t' : State} {b : β}
    (h : exec ((x >>= f).run ss) t = (.ok (b, ss'), t')) :
    ∃ a ss1 t1, exec (x.run ss) t = (.ok (a, ss1), t1) ∧ exec ((f a).run ss1) t1 = (.ok (b, ss'), t') := by
  rw [StateT.run_bind] at h
  obtain ⟨⟨a, ss1⟩, t1, h1, h2⟩ := exec_bind_inv h
  exact ⟨a, ss1, t1, h1, h2⟩

theorem sm_pure_inv {α} {a b : α} {ss ss' : Sem.SemSt} {t t' : State}
    (h : exec ((pure a : Sem.SM α).run ss) t = (.ok (b, ss'), t')) : a = b ∧ ss = ss' ∧ t = t' := by
  rw [run_pure] at h
  unfold withSt at h
  obtain ⟨x, t1, h1, h2⟩ := exec_bind_inv h
  obtain ⟨rfl, rfl⟩ := exec_pure_inv h1
  obtain ⟨h3, rfl⟩ := exec_pure_inv h2
  simp only [Prod.mk.injEq] at h3
  exact ⟨h3.1.symm, h3.2.symm, rfl⟩

theorem withSt_inv {α} {m : M α} {a : α} {ss ss' : Sem.SemSt} {t t' : State}
    (h : exec (withSt ss m) t = (.ok (a, ss'), t')) : ss = ss' ∧ exec m t = (.ok a, t') := by
  unfold withSt at h
  obtain ⟨x, t1, h1, h2⟩ := exec_bind_inv h
  obtain ⟨h3, rfl⟩ := exec_pure_inv h2
  simp only [Prod.mk.injEq] at h3
  obtain ⟨rfl, rfl⟩ := h3
  exact ⟨rfl, h1⟩

theorem sm_liftM_inv {α} {m : M α} {a : α} {ss ss' : Sem.SemSt} {t t' : State}
    (h : exec ((Sem.liftM m).run ss) t = (.ok (a, ss'), t')) : ss = ss' ∧ exec m t = (.ok a, t') := by
  rw [run_liftM] at h
  exact withSt_inv h

theorem sm_unsupported_ne {α} {msg : String} {a : α} {ss ss' : Sem.SemSt} {t t' : State}
    (h : exec ((Sem.liftM (VM.unsupported msg : M α)).run ss) t = (.ok (a, ss'), t')) : False := by
  obtain ⟨_, h⟩ := sm_liftM_inv h
  have : exec (VM.unsupported msg : M α) t = (.error (.unsupported msg), t) := rfl
  rw [this] at h
  simp at h

/-! ### environments of the reference semantics -/

theorem lookupEnv_nil_cons (n : String) (env : Sem.Env) : Sem.lookupEnv n ([] :: env) = Sem.lookupEnv n env := by
  simp [Sem.lookupEnv]

theorem find_filter_ne (x m : String) (h : m ≠ x) : ∀ sc : List (String × Addr),
    (sc.filter (fun p => p.1 != x)).find? (fun p => p.1 == m) = sc.find? (fun p => p.1 == m)
  | [] => rfl
  | p :: r => by
    simp only [List.filter]
    cases hp : (p.1 != x) with
    | true =>
      simp only [List.find?]
      cases hm : (p.1 == m) with
      | true => rfl
      | false => exact find_filter_ne x m h r
    | false =>
      have hpx : p.1 = x := by simpa using hp
      have : (p.1 == m) = false := by simpa [hpx] using fun e => h e.symm
      simp only [List.find?, this]
      exact find_filter_ne x m h r

/-- `declare`: a fresh box at the end of the heap; the other names keep their boxes -/
theorem declare_inv {env env' : Sem.Env} {x : String} {v : V} {ss ss' : Sem.SemSt} {t t' : State}
    (h : exec ((Sem.declare env x v).run ss) t = (.ok (env', ss'), t')) :
    ss = ss' ∧ t' = { t with heap := t.heap.push (.box v) } ∧ Sem.lookupEnv x env' = some t.heap.size ∧
    ∀ m, m ≠ x → Sem.lookupEnv m env' = Sem.lookupEnv m env := by
  unfold Sem.declare at h
  obtain ⟨a, ss1, t1, h1, h2⟩ := sm_bind_inv h
  obtain ⟨rfl, h1a⟩ := sm_liftM_inv h1
  rw [exec_alloc] at h1a
  simp only [Prod.mk.injEq, Except.ok.injEq] at h1a
  obtain ⟨rfl, rfl⟩ := h1a
  cases env with
  | nil =>
    obtain ⟨rfl, rfl, rfl⟩ := sm_pure_inv h2
    refine ⟨rfl, rfl, by simp [Sem.lookupEnv], ?_⟩
    intro m hm
    have : (x == m) = false := by simpa using fun e => hm e.symm
    simp [Sem.lookupEnv, this]
  | cons sc rest =>
    obtain ⟨rfl, rfl, rfl⟩ := sm_pure_inv h2
    refine ⟨rfl, rfl, by simp [Sem.lookupEnv], ?_⟩
    intro m hm
    have : (x == m) = false := by simpa using fun e => hm e.symm
    simp only [Sem.lookupEnv, List.find?, this]
    rw [find_filter_ne x m hm sc]

/-! ### the relation between the two states -/

/-- the reference heap is the VM heap followed by variable boxes -/
structure HeapRel (s t : State) : Prop where
  le : s.heap.size ≤ t.heap.size
  pre : ∀ a, a < s.heap.size → t.heap[a]? = s.heap[a]?
  box : ∀ a, s.heap.size ≤ a → a < t.heap.size → ∃ v, t.heap[a]? = some (.box v)

theorem HeapRel.of_eq {s s' t : State} (h : HeapRel s t) (hh : s'.heap = s.heap) : HeapRel s' t :=
  ⟨by rw [hh]; exact h.le, by rw [hh]; exact h.pre, by rw [hh]; exact h.box⟩

/-- a box appended on the reference side -/
theorem HeapRel.push {s t : State} (h : HeapRel s t) (v : V) : HeapRel s { t with heap := t.heap.push (.box v) } := by
  refine ⟨by simp; have := h.le; omega, ?_, ?_⟩
  · intro a ha
    have := h.le
    show (t.heap.push _)[a]? = _
    rw [Array.getElem?_push_lt (by omega)]
    rw [← h.pre a ha, Array.getElem?_eq_getElem (by omega)]
  · intro a h1 h2
    simp only [Array.size_push] at h2
    show ∃ w, (t.heap.push _)[a]? = _
    by_cases hlt : a < t.heap.size
    · rw [Array.getElem?_push_lt hlt]
      obtain ⟨w, hw⟩ := h.box a h1 hlt
      exact ⟨w, by rw [← hw, Array.getElem?_eq_getElem hlt]⟩
    · have : a = t.heap.size := by omega
      subst this
      exact ⟨v, by simp⟩

theorem set!_getElem?_ne {α} (a : Array α) (i j : Nat) (v : α) (h : i ≠ j) : (a.set! i v)[j]? = a[j]? := by
  simp [Array.set!, Array.getElem?_setIfInBounds, h]

theorem set!_getElem?_eq {α} (a : Array α) (i : Nat) (v : α) (h : i < a.size) : (a.set! i v)[i]? = some v := by
  simp [Array.set!, Array.getElem?_setIfInBounds, h]

/-- a box overwritten on the reference side, behind the VM heap -/
theorem HeapRel.set {s t : State} (h : HeapRel s t) (a : Addr) (v : V) (ha : s.heap.size ≤ a) :
    HeapRel s { t with heap := t.heap.set! a (.box v) } := by
  refine ⟨by simp [set!_size]; exact h.le, ?_, ?_⟩
  · intro b hb
    show (t.heap.set! a _)[b]? = _
    rw [set!_getElem?_ne _ _ _ _ (by omega)]
    exact h.pre b hb
  · intro b h1 h2
    simp only [set!_size] at h2
    show ∃ w, (t.heap.set! a _)[b]? = _
    by_cases hab : a = b
    · subst hab
      exact ⟨v, set!_getElem?_eq _ _ _ h2⟩
    · rw [set!_getElem?_ne _ _ _ _ hab]
      exact h.box b h1 h2

/-- the compile-time part of the invariant -/
structure Static (σ : String → Option Nat) (N : Nat) (env : Sem.Env) (binds : List (Nat × Addr)) : Prop where
  look : ∀ n i, σ n = some i → ∃ a, Sem.lookupEnv n env = some a ∧ (i, a) ∈ binds
  lt : ∀ i a, (i, a) ∈ binds → i < N
  inj : binds.Pairwise (fun p q => p.1 ≠ q.1 ∧ p.2 ≠ q.2)

/-- the run-time part: every pair of `binds` relates a box behind the VM heap to a stack slot -/
structure Dyn (binds : List (Nat × Addr)) (t s : State) (bp : Nat) : Prop where
  cell : ∀ i a, (i, a) ∈ binds → s.heap.size ≤ a ∧ ∃ v, t.heap[a]? = some (.box v) ∧ s.stack[bp + i]! = v ∧ Scalar v
  rel : HeapRel s t

theorem locals_of {σ : String → Option Nat} {N : Nat} {env : Sem.Env} {binds : List (Nat × Addr)} {t s : State} {bp L : Nat}
    (hs : Static σ N env binds) (hd : Dyn binds t s bp) (hN : N ≤ L) : LocalsOK σ env t s bp (bp + L) := by
  intro n i hi
  obtain ⟨a, hl, hm⟩ := hs.look n i hi
  obtain ⟨_, v, h1, h2, h3⟩ := hd.cell i a hm
  have := hs.lt i a hm
  exact ⟨a, v, hl, h1, by omega, h2, h3⟩

theorem Dyn.sub {binds binds' : List (Nat × Addr)} {t s : State} {bp : Nat} (h : Dyn binds' t s bp)
    (hsub : ∀ p, p ∈ binds → p ∈ binds') : Dyn binds t s bp :=
  ⟨fun i a hm => h.cell i a (hsub _ hm), h.rel⟩

/-- the VM moved on, keeping its heap and the local slots -/
theorem Dyn.carry {binds : List (Nat × Addr)} {t s s' : State} {bp L N : Nat} (h : Dyn binds t s bp)
    (hlt : ∀ i a, (i, a) ∈ binds → i < N) (hN : N ≤ L) (hh : s'.heap = s.heap)
    (hst : ∀ j, bp ≤ j → j < bp + L → s'.stack[j]! = s.stack[j]!) : Dyn binds t s' bp := by
  refine ⟨?_, h.rel.of_eq hh⟩
  intro i a hm
  obtain ⟨h0, v, h1, h2, h3⟩ := h.cell i a hm
  have := hlt i a hm
  exact ⟨by rw [hh]; exact h0, v, h1, by rw [hst _ (by omega) (by omega)]; exact h2, h3⟩

/-! ### what a statement leaves alone on the VM side -/

/-- control part and heap unchanged; the stack below `s.sp` unchanged outside the local slots
    `[bp, bp + L)` -/
structure Frm (s s' : State) (bp L : Nat) : Prop where
  same : Same s s'
  heap : s'.heap = s.heap
  size : s'.stack.size = s.stack.size
  out : ∀ j, j < s.sp.toNat → (j < bp ∨ bp + L ≤ j) → s'.stack[j]! = s.stack[j]!

theorem Frm.refl (s : State) (bp L : Nat) : Frm s s bp L := ⟨Same.refl s, rfl, rfl, fun _ _ _ => rfl⟩

theorem Frm.trans {a b c : State} {bp L : Nat} (h1 : Frm a b bp L) (h2 : Frm b c bp L) (hsp : a.sp ≤ b.sp) : Frm a c bp L :=
  ⟨h1.same.trans h2.same, h2.heap.trans h1.heap, h2.size.trans h1.size,
   fun j hj ho => (h2.out j (by omega) ho).trans (h1.out j hj ho)⟩

theorem Frm.of_agree {s s' : State} {bp L : Nat} (hs : Same s s') (hh : s'.heap = s.heap)
    (hag : AgreeBelow s.sp.toNat s.stack s'.stack) : Frm s s' bp L :=
  ⟨hs, hh, hag.1, fun j hj _ => hag.2 j hj⟩

/-- the VM stands in front of a RETURN instruction with the value to return -/
def AtReturn (code : Code) (s' : State) (sp0 : Int) (v : V) : Prop :=
  ∃ (p : Nat) (b0 b1 : UInt8), s'.ip + 1 = (p : Int) ∧ code.insts[p]? = some b0 ∧ b0.toNat = 39 ∧
    code.insts[p + 1]? = some b1 ∧
    ((b1.toNat = 1 ∧ s'.sp = sp0 + 1 ∧ s'.stack[sp0.toNat]! = v) ∨ (b1.toNat = 0 ∧ s'.sp = sp0 ∧ v = .undefined))

/-- what the VM does when a statement of the fragment completes with `c` in the reference state `t'`
    and the environment `env'`:
    * `normal`: it stands behind the code (`q`) with `sp` where it was, related to `t'` and `env'`
      through an extension `binds'` of `binds`;
    * `ret v`: it stands in front of a RETURN instruction with the scalar `v`;
    * `thr a`: it is at the call `failWith oe`, `oe` a `named` error, in a state related to the
      reference state `tx` in which the reference semantics makes its error object (`a`, `t'`) from `oe`;
    * `break` / `continue` do not occur. -/
def OutS (F : FloatOps) (code : Code) (q : Nat) (bp L : Nat) (σ' : String → Option Nat) (N' : Nat)
    (binds : List (Nat × Addr)) (s t' : State) (env' : Sem.Env) : Sem.Comp → Prop
  | .normal => ∃ (binds' : List (Nat × Addr)) (s' : State), Reach F s s' ∧ Frm s s' bp L ∧ s'.ip + 1 = (q : Int) ∧
      s'.sp = s.sp ∧ (∀ p, p ∈ binds → p ∈ binds') ∧ Static σ' N' env' binds' ∧ Dyn binds' t' s' bp
  | .ret v => ∃ s', Reach F s s' ∧ Frm s s' bp L ∧ HeapRel s' t' ∧ Scalar v ∧ AtReturn code s' s.sp v
  | .thr a => ∃ (u : State) (oe : OpErr) (tx : State), ReachFail F s oe u ∧ (∃ n m, oe = .named n m) ∧ Frm s u bp L ∧
      s.sp ≤ u.sp ∧ HeapRel u tx ∧ exec (rtErrOfOpErr oe) tx = (.ok a, t')
  | _ => False

/-- the outcome of a later piece of code, seen from an earlier state with the same `sp` -/
theorem OutS.via {F : FloatOps} {code : Code} {q bp L : Nat} {σ' : String → Option Nat} {N' : Nat}
    {binds binds1 : List (Nat × Addr)} {s s1 t' : State} {env' : Sem.Env} {c : Sem.Comp}
    (hr : Reach F s s1) (hf : Frm s s1 bp L) (hsp : s1.sp = s.sp) (hsub : ∀ p, p ∈ binds → p ∈ binds1)
    (h : OutS F code q bp L σ' N' binds1 s1 t' env' c) : OutS F code q bp L σ' N' binds s t' env' c := by
  cases c with
  | normal =>
    obtain ⟨binds', s', hr', hf', hip, hsp', hsub', hst, hdy⟩ := h
    exact ⟨binds', s', hr.trans hr', hf.trans hf' (by omega), hip, by omega, fun p hp => hsub' p (hsub p hp), hst, hdy⟩
  | ret v =>
    obtain ⟨s', hr', hf', hrel, hsv, hat⟩ := h
    rw [hsp] at hat
    exact ⟨s', hr.trans hr', hf.trans hf' (by omega), hrel, hsv, hat⟩
  | thr a =>
    obtain ⟨u, oe, tx, hfail, hnm, hf', hspu, hrel, hrt⟩ := h
    exact ⟨u, oe, tx, ReachFail.of_reach hr hfail, hnm, hf.trans hf' (by omega), by omega, hrel, hrt⟩
  | brk => exact h
  | cont => exact h

/-- an error of an expression of the statement is the statement's thrown completion -/
theorem OutS.of_thr {F : FloatOps} {code : Code} {q q' bp L : Nat} {σ' : String → Option Nat} {N' : Nat}
    {binds : List (Nat × Addr)} {s t t' : State} {env' : Sem.Env} {a : Addr}
    (h : Outcome F s t t' q' (.thr a)) (hrel : HeapRel s t) : OutS F code q bp L σ' N' binds s t' env' (.thr a) := by
  obtain ⟨u, oe, hfail, hnm, hsu, hhu, hag, hsp, hrt⟩ := h
  exact ⟨u, oe, t, hfail, hnm, Frm.of_agree hsu hhu hag, hsp, hrel.of_eq hhu, hrt⟩

/-! ### the effect of compiling a statement on the compiler state -/

/-- instructions and constants are appended (patches stay behind the old end), the tables change as
    `TEff` says, nothing else changes -/
structure StEff (cs cs' : CState) : Prop where
  eq : cs' = { cs with insts := cs'.insts, sourceMap := cs'.sourceMap, constants := cs'.constants, tables := cs'.tables }
  pre : Pre cs.insts cs'.insts
  cpre : IsPre cs.constants cs'.constants
  tabs : TEff cs.tables cs'.tables

theorem StEff.trans {a b c : CState} (h1 : StEff a b) (h2 : StEff b c) : StEff a c :=
  ⟨by have e2 := h2.eq; rw [h1.eq] at e2; exact e2, h1.pre.trans h2.pre, h1.cpre.trans h2.cpre, h1.tabs.trans h2.tabs⟩

theorem StEff.of_shape {cs cs' : CState} (h : Shape cs cs') (hne : cs.tables ≠ []) : StEff cs cs' := by
  have ht : cs'.tables = cs.tables := by rw [h.eq]
  refine ⟨?_, h.pre, h.cpre, by rw [ht]; exact TEff.refl hne⟩
  conv => lhs; rw [h.eq]
  rw [ht]

theorem StEff.refl {cs : CState} (hne : cs.tables ≠ []) : StEff cs cs := StEff.of_shape (Shape.refl cs) hne

theorem StEff.tci {cs cs' : CState} (h : StEff cs cs') : cs'.tryCatchIndex = cs.tryCatchIndex := by rw [h.eq]
theorem StEff.builtins {cs cs' : CState} (h : StEff cs cs') : cs'.builtins = cs.builtins := by rw [h.eq]

/-- what the simulation needs of the compiler state: there is a function table, the statement is
    not inside `try`, the slots in use fit the function's `NumLocals` -/
structure CsOK (cs : CState) : Prop where
  fn : hasFn cs.tables = true
  tci : cs.tryCatchIndex ≤ -1
  ni : nextIndex cs.tables ≤ fnMax cs.tables

theorem CsOK.ne {cs : CState} (h : CsOK cs) : cs.tables ≠ [] := by
  intro e
  have := h.fn
  rw [e] at this
  simp [hasFn] at this

theorem CsOK.of_shape {cs cs' : CState} (h : CsOK cs) (sh : Shape cs cs') : CsOK cs' := by
  have ht : cs'.tables = cs.tables := by rw [sh.eq]
  have hi : cs'.tryCatchIndex = cs.tryCatchIndex := by rw [sh.eq]
  exact ⟨by rw [ht]; exact h.fn, by rw [hi]; exact h.tci, by rw [ht]; exact h.ni⟩

/-! ### the simulation statement -/

/-- the code compiled from `cs` to `cs'` simulates the computation `sem` of the reference semantics -/
def SimRun (F : FloatOps) (nd : Nat) (cs cs' : CState) (sem : Sem.Env → Sem.SM (Sem.Comp × Sem.Env)) : Prop :=
  ∀ (K : Array Compile.Const) (code : Code) (bp L : Nat) (env : Sem.Env) (binds : List (Nat × Addr)) (s t : State)
    (ss ss' : Sem.SemSt) (c : Sem.Comp) (env' : Sem.Env) (t' : State),
    IsPre cs'.constants K → CodeHas code cs'.insts cs.insts.size → VMOk K code bp (bp + L) s →
    s.ip + 1 = (cs.insts.size : Int) → s.sp + nd ≤ 2048 → fnMax cs'.tables ≤ L →
    Static (localIdx cs) (nextIndex cs.tables) env binds → Dyn binds t s bp →
    exec ((sem env).run ss) t = (.ok ((c, env'), ss'), t') →
    ss = ss' ∧ OutS F code cs'.insts.size bp L (localIdx cs') (nextIndex cs'.tables) binds s t' env' c

/-- a compile action and the reference computation it implements -/
def GoodC (F : FloatOps) (B B' : List String) (nd : Nat) (act : Compile.CM Unit)
    (sem : Nat → Sem.Env → Sem.SM (Sem.Comp × Sem.Env)) : Prop :=
  ∀ cs cs' : CState, runCM act cs = (.ok (), cs') → Cov B (localIdx cs) → CsOK cs →
    StEff cs cs' ∧ CsOK cs' ∧ Cov B' (localIdx cs') ∧ ∀ fuel, SimRun F nd cs cs' (sem fuel)

/-- … that moreover leaves the symbol tables as they were (up to `maxDefinition`): blocks -/
def GoodB (F : FloatOps) (B : List String) (nd : Nat) (act : Compile.CM Unit)
    (sem : Nat → Sem.Env → Sem.SM (Sem.Comp × Sem.Env)) : Prop :=
  ∀ cs cs' : CState, runCM act cs = (.ok (), cs') → Cov B (localIdx cs) → CsOK cs →
    StEff cs cs' ∧ CsOK cs' ∧ Tl cs.tables cs'.tables ∧ ∀ fuel, SimRun F nd cs cs' (sem fuel)

theorem localIdx_of_tl {cs cs' : CState} (h : Tl cs.tables cs'.tables) : localIdx cs' = localIdx cs := by
  funext n
  rw [localIdx_eq, localIdx_eq, h.locOf]

theorem GoodB.toC {F : FloatOps} {B : List String} {nd : Nat} {act : Compile.CM Unit}
    {sem : Nat → Sem.Env → Sem.SM (Sem.Comp × Sem.Env)} (h : GoodB F B nd act sem) : GoodC F B B nd act sem := by
  intro cs cs' hc hcov hok
  obtain ⟨h1, h2, h3, h4⟩ := h cs cs' hc hcov hok
  exact ⟨h1, h2, by rw [localIdx_of_tl h3]; exact hcov, h4⟩

theorem SimRun.mono {F : FloatOps} {nd nd' : Nat} {cs cs' : CState} {sem : Sem.Env → Sem.SM (Sem.Comp × Sem.Env)}
    (h : SimRun F nd cs cs' sem) (hle : nd ≤ nd') : SimRun F nd' cs cs' sem := by
  intro K code bp L env binds s t ss ss' c env' t' hK hcode hvm hip hsp hL hst hdy hsem
  exact h K code bp L env binds s t ss ss' c env' t' hK hcode hvm hip (by omega) hL hst hdy hsem

theorem GoodC.mono {F : FloatOps} {B B' : List String} {nd nd' : Nat} {act : Compile.CM Unit}
    {sem : Nat → Sem.Env → Sem.SM (Sem.Comp × Sem.Env)} (h : GoodC F B B' nd act sem) (hle : nd ≤ nd') :
    GoodC F B B' nd' act sem := by
  intro cs cs' hc hcov hok
  obtain ⟨h1, h2, h3, h4⟩ := h cs cs' hc hcov hok
  exact ⟨h1, h2, h3, fun fuel => (h4 fuel).mono hle⟩

theorem GoodB.mono {F : FloatOps} {B : List String} {nd nd' : Nat} {act : Compile.CM Unit}
    {sem : Nat → Sem.Env → Sem.SM (Sem.Comp × Sem.Env)} (h : GoodB F B nd act sem) (hle : nd ≤ nd') :
    GoodB F B nd' act sem := by
  intro cs cs' hc hcov hok
  obtain ⟨h1, h2, h3, h4⟩ := h cs cs' hc hcov hok
  exact ⟨h1, h2, h3, fun fuel => (h4 fuel).mono hle⟩

/-- abrupt completions do not mention the end of the code, the symbols or the environment -/
theorem OutS.abrupt {F : FloatOps} {code : Code} {q q' bp L : Nat} {σ σ' : String → Option Nat} {N N' : Nat}
    {binds : List (Nat × Addr)} {s t' : State} {env env' : Sem.Env} {c : Sem.Comp} (hc : c ≠ .normal)
    (h : OutS F code q bp L σ N binds s t' env c) : OutS F code q' bp L σ' N' binds s t' env' c := by
  cases c with
  | normal => exact (hc rfl).elim
  | ret v => exact h
  | thr a => exact h
  | brk => exact h
  | cont => exact h

theorem StEff.patch {cs0 cs : CState} (h : StEff cs0 cs) (p : Nat) (bs : List UInt8) (hp : cs0.insts.size ≤ p) :
    StEff cs0 { cs with insts := Compile.patch cs.insts p bs } :=
  ⟨by have e := h.eq; conv => lhs; rw [e], h.pre.patch hp, h.cpre, h.tabs⟩

theorem VMOk.of_frm {K : Array Compile.Const} {code : Code} {bp lo : Nat} {s s' : State} {L : Nat}
    (hvm : VMOk K code bp lo s) (hf : Frm s s' bp L) (hsp : s'.sp = s.sp) : VMOk K code bp lo s' :=
  ⟨by rw [hf.same.abort]; exact hvm.abort, by rw [hf.size]; exact hvm.size, hvm.code.of_same hf.same hf.heap,
   by rw [hf.same.frames, hf.same.curFrame]; exact hvm.bp, by rw [hf.same.consts]; exact hvm.consts,
   by rw [hsp]; exact hvm.lo⟩

theorem TEff.cons_inv {h : Table} {r ts' : List Table} (he : TEff (h :: r) ts') :
    ∃ h' r', ts' = h' :: r' ∧ h'.block = h.block ∧ h.numDefinition ≤ h'.numDefinition ∧
      h.maxDefinition ≤ h'.maxDefinition ∧ Tl r r' := by
  generalize hts : h :: r = ts at he
  cases he with
  | mk hb hn hm hr hp =>
    simp only [List.cons.injEq] at hts
    obtain ⟨rfl, rfl⟩ := hts
    exact ⟨_, _, rfl, hb, hn, hm, hr⟩

end UgoVerif.CompSim
