import UgoVerif.Proofs.JsonNum
/-
  Helper lemmas for C17: every encoder of Model/JsonEnc writes one JSON value.
-/
namespace UgoVerif.Proofs.Json
open UgoVerif UgoVerif.Go UgoVerif.Model.JsonEnc UgoVerif.Model.JsonScan UgoVerif.Spec.Json

theorem isVal_null : IsVal nullB :=
  ⟨⟨_, _, rfl, by decide, by decide⟩, fun rest f _ hf => by
    cases f with
    | zero => simp at hf
    | succ f => simp [nullB, value, lit]⟩
theorem isVal_true : IsVal trueB :=
  ⟨⟨_, _, rfl, by decide, by decide⟩, fun rest f _ hf => by
    cases f with
    | zero => simp at hf
    | succ f => simp [trueB, value, lit]⟩
theorem isVal_false : IsVal falseB :=
  ⟨⟨_, _, rfl, by decide, by decide⟩, fun rest f _ hf => by
    cases f with
    | zero => simp at hf
    | succ f => simp [falseB, value, lit]⟩

/-- a quoted run of plain bytes is a string token -/
theorem isVal_quoted (tok : Bytes) (h : ∀ x ∈ tok, plain x) : IsVal (0x22 :: (tok ++ [0x22])) :=
  ⟨⟨_, _, rfl, by decide, by decide⟩, fun rest f _ hf => by
    cases f with
    | zero => simp at hf
    | succ f =>
      simp only [List.cons_append, List.append_assoc, value, beq_self_eq_true, if_true]
      rw [strRest_plain_prefix tok _ h]
      conv => lhs; rw [strRest.eq_def]
      simp⟩

theorem isVal_quoteString (esc : Bool) (s : Bytes) : IsVal (quoteString esc s) :=
  ⟨⟨_, _, rfl, by decide, by decide⟩, fun rest f _ hf => by
    cases f with
    | zero => simp at hf
    | succ f =>
      have := quoteString_string esc s rest
      unfold quoteString at this ⊢
      simp only [List.cons_append, Spec.Json.string, beq_self_eq_true, if_true] at this
      simp only [List.cons_append, value, beq_self_eq_true, if_true]
      exact this⟩

/-! ### integers -/

theorem digitByte_toNat (n : Nat) : (digitByte n).toNat = 0x30 + n % 10 := by
  unfold digitByte
  rw [UInt8.toNat_ofNat']
  have : n % 10 < 10 := Nat.mod_lt _ (by decide)
  omega

theorem digitByte_isDigit (n : Nat) : isDigit (digitByte n) = true := by
  have := digitByte_toNat n
  have : n % 10 < 10 := Nat.mod_lt _ (by decide)
  simp only [isDigit, Bool.and_eq_true, decide_eq_true_eq, UInt8.le_iff_toNat_le]
  constructor <;> (simp; omega)

theorem isDigit_plain (c : UInt8) (h : isDigit c = true) : plain c := by
  simp only [isDigit, Bool.and_eq_true, decide_eq_true_eq, UInt8.le_iff_toNat_le] at h
  have h1 : (0x30 : UInt8).toNat = 48 := rfl
  have h2 : (0x39 : UInt8).toNat = 57 := rfl
  unfold plain; omega

/-- shape of the decimal text: a non-empty run of digits; a leading `0` only for zero itself -/
theorem decDigitsAux_shape : ∀ (fuel n : Nat) (acc : Bytes), n < fuel →
    ∃ d ds, decDigitsAux fuel n acc = d :: (ds ++ acc) ∧ isDigit d = true ∧
      (∀ x ∈ ds, isDigit x = true) ∧ ((d == 0x30) = true → n = 0 ∧ ds = []) := by
  intro fuel
  induction fuel with
  | zero => intro n acc h; omega
  | succ k ih =>
    intro n acc h
    unfold decDigitsAux
    split
    · rename_i hlt
      refine ⟨digitByte n, [], rfl, digitByte_isDigit n, by simp, fun hz => ⟨?_, rfl⟩⟩
      have hz' : digitByte n = 0x30 := by simpa using hz
      have := digitByte_toNat n
      rw [hz'] at this
      have h48 : (0x30 : UInt8).toNat = 48 := rfl
      rw [h48] at this
      omega
    · rename_i h10
      obtain ⟨d, ds, e, hd, hds, h0⟩ := ih (n / 10) (digitByte n :: acc) (by omega)
      refine ⟨d, ds ++ [digitByte n], by rw [e]; simp, hd, ?_, ?_⟩
      · intro x hx
        rcases List.mem_append.mp hx with hx | hx
        · exact hds x hx
        · simp at hx; subst hx; exact digitByte_isDigit n
      · intro hz
        have := (h0 hz).1
        omega

theorem skipDigits_all (ds rest : Bytes) (h : ∀ x ∈ ds, isDigit x = true) (hr : Delim rest) :
    skipDigits (ds ++ rest) = rest := by
  induction ds with
  | nil =>
    cases rest with
    | nil => rfl
    | cons c r => simp [skipDigits, hr.notDigit.1]
  | cons c ds ih =>
    simp only [List.cons_append, skipDigits, h c (by simp), if_true]
    exact ih (fun x hx => h x (by simp [hx]))

/-- a digit run without a superfluous leading zero is a number token -/
theorem isNumber_digits (d : UInt8) (ds : Bytes) (hd : isDigit d = true)
    (hds : ∀ x ∈ ds, isDigit x = true) (h0 : (d == 0x30) = true → ds = []) :
    isNumber (d :: ds) = true := by
  have hm : (d == 0x2D) = false := by
    simp only [beq_eq_false_iff_ne, ne_eq]; intro hx; subst hx; revert hd; decide
  unfold isNumber number
  simp only [optMinus, hm, Bool.false_eq_true, if_false, intPart]
  by_cases hz : (d == 0x30) = true
  · rw [if_pos hz, h0 hz]; rfl
  · rw [if_neg hz, if_pos hd]
    have := skipDigits_all ds [] hds trivial
    simp only [List.append_nil] at this
    rw [this]; rfl

theorem isNumber_neg (tok : Bytes) (c : UInt8) (r : Bytes) (ht : tok = c :: r) (hc : isDigit c = true)
    (h : isNumber tok = true) : isNumber (0x2D :: tok) = true := by
  subst ht
  have hm : (c == 0x2D) = false := by
    simp only [beq_eq_false_iff_ne, ne_eq]; intro hx; subst hx; revert hc; decide
  unfold isNumber number at h ⊢
  simp only [optMinus, hm, Bool.false_eq_true, if_false] at h
  simp only [optMinus, beq_self_eq_true, if_true]
  exact h

theorem fmtNat_shape (n : Nat) : ∃ d ds, fmtNat n = d :: ds ∧ isDigit d = true ∧
    (∀ x ∈ ds, isDigit x = true) ∧ ((d == 0x30) = true → ds = []) := by
  obtain ⟨d, ds, e, hd, hds, h0⟩ := decDigitsAux_shape (n + 1) n [] (by omega)
  exact ⟨d, ds, by rw [fmtNat, e]; simp, hd, hds, fun hz => (h0 hz).2⟩

theorem fmtNat_number (n : Nat) : isNumber (fmtNat n) = true := by
  obtain ⟨d, ds, e, hd, hds, h0⟩ := fmtNat_shape n
  rw [e]; exact isNumber_digits d ds hd hds h0

theorem fmtNat_plain (n : Nat) : ∀ x ∈ fmtNat n, plain x := by
  obtain ⟨d, ds, e, hd, hds, _⟩ := fmtNat_shape n
  rw [e]; intro x hx
  simp at hx; rcases hx with rfl | hx
  · exact isDigit_plain _ hd
  · exact isDigit_plain _ (hds x hx)

theorem fmtInt_number (i : Int) : isNumber (fmtInt i) = true := by
  unfold fmtInt
  split
  · obtain ⟨d, ds, e, hd, _, _⟩ := fmtNat_shape i.natAbs
    exact isNumber_neg _ d ds e hd (fmtNat_number _)
  · exact fmtNat_number _

theorem fmtInt_plain (i : Int) : ∀ x ∈ fmtInt i, plain x := by
  unfold fmtInt
  split
  · intro x hx
    simp at hx; rcases hx with rfl | hx
    · unfold plain; decide
    · exact fmtNat_plain _ x hx
  · exact fmtNat_plain _

/-- `quoteIf`: a number (or literal) token, possibly inside quotes -/
theorem isVal_quoteIf (q : Bool) (tok : Bytes) (hv : IsVal tok) (hp : ∀ x ∈ tok, plain x) :
    IsVal (quoteIf q tok) := by
  unfold quoteIf
  split
  · exact isVal_quoted tok hp
  · exact hv

/-! ### base64 -/

theorem b64char_plain (n : Nat) : plain (b64char n) := by
  unfold b64char
  split
  · unfold plain; rw [UInt8.toNat_ofNat']; omega
  split
  · unfold plain; rw [UInt8.toNat_ofNat']; omega
  split
  · unfold plain; rw [UInt8.toNat_ofNat']; omega
  split <;> (unfold plain; decide)

theorem base64_plain : ∀ (s : Bytes), ∀ x ∈ base64 s, plain x
  | [] => by simp [base64]
  | [a] => by
    intro x hx; simp [base64] at hx
    rcases hx with rfl | rfl | rfl <;> first | exact b64char_plain _ | (unfold plain; decide)
  | [a, b] => by
    intro x hx; simp [base64] at hx
    rcases hx with rfl | rfl | rfl | rfl <;> first | exact b64char_plain _ | (unfold plain; decide)
  | a :: b :: c :: r => by
    intro x hx; simp only [base64, List.mem_cons] at hx
    rcases hx with rfl | rfl | rfl | rfl | hx
    · exact b64char_plain _
    · exact b64char_plain _
    · exact b64char_plain _
    · exact b64char_plain _
    · exact base64_plain r x hx

/-! ### arrays -/

/-- what follows the first element: `,elem` ... `]` -/
def arrTailText : List Bytes → Bytes
  | [] => [0x5D]
  | e :: es => 0x2C :: (e ++ arrTailText es)

theorem joinElems_tail (e : Bytes) (es : List Bytes) :
    joinElems (e :: es) ++ [0x5D] = e ++ arrTailText es := by
  induction es generalizing e with
  | nil => simp [joinElems, arrTailText]
  | cons e' es ih =>
    simp only [joinElems, arrTailText, List.append_assoc, List.cons_append]
    rw [ih e']

theorem delim_arrTailText (es : List Bytes) (rest : Bytes) : Delim (arrTailText es ++ rest) := by
  cases es <;> simp [arrTailText, Delim]

theorem arrTail_text : ∀ (es : List Bytes), (∀ e ∈ es, IsVal e) → ∀ (rest : Bytes) (f : Nat),
    (arrTailText es ++ rest).length < f → arrTail f (arrTailText es ++ rest) = some rest := by
  intro es
  induction es with
  | nil =>
    intro _ rest f hf
    cases f with
    | zero => simp at hf
    | succ f => simp [arrTailText, arrTail, Spec.Json.skipWs, isWs]
  | cons e es ih =>
    intro hall rest f hf
    cases f with
    | zero => simp at hf
    | succ f =>
      have he := hall e (by simp)
      simp only [arrTailText, List.cons_append, List.append_assoc] at hf ⊢
      have hlen : (e ++ (arrTailText es ++ rest)).length < f := by simp at hf ⊢; omega
      have hlen2 : (arrTailText es ++ rest).length < f := by simp at hlen ⊢; omega
      unfold arrTail
      simp only [Spec.Json.skipWs, show isWs 0x2C = false by decide, Bool.false_eq_true, if_false,
        show ((0x2C : UInt8) == 0x5D) = false by decide, beq_self_eq_true, if_true]
      rw [he.skipWs, he.parse _ f (delim_arrTailText es rest) hlen]
      exact ih (fun x hx => hall x (by simp [hx])) rest f hlen2

theorem isVal_array (es : List Bytes) (hall : ∀ e ∈ es, IsVal e) :
    IsVal (0x5B :: (joinElems es ++ [0x5D])) :=
  ⟨⟨_, _, rfl, by decide, by decide⟩, fun rest f _ hf => by
    cases f with
    | zero => simp at hf
    | succ f =>
      cases es with
      | nil => simp [joinElems, value, Spec.Json.skipWs, isWs]
      | cons e es =>
        have he := hall e (by simp)
        rw [joinElems_tail] at hf ⊢
        simp only [List.cons_append, List.append_assoc] at hf ⊢
        have hlen : (e ++ (arrTailText es ++ rest)).length < f := by simp at hf ⊢; omega
        have hlen2 : (arrTailText es ++ rest).length < f := by simp at hlen ⊢; omega
        obtain ⟨c, r, hcr, hw, h5d⟩ := he.head
        have hsk := he.skipWs (arrTailText es ++ rest)
        have hp := he.parse _ f (delim_arrTailText es rest) hlen
        subst hcr
        simp only [List.cons_append] at hsk hp
        simp only [value, show ((0x5B : UInt8) == 0x22) = false by decide, Bool.false_eq_true, if_false,
          beq_self_eq_true, if_true, List.cons_append, hsk, h5d, hp]
        exact arrTail_text es (fun x hx => hall x (by simp [hx])) rest f hlen2⟩

/-! ### objects -/

def memberText (esc : Bool) (m : Bytes × Bytes) : Bytes := quoteString esc m.1 ++ 0x3A :: m.2

def objTailText (esc : Bool) : List (Bytes × Bytes) → Bytes
  | [] => [0x7D]
  | m :: ms => 0x2C :: (memberText esc m ++ objTailText esc ms)

theorem joinMembers_tail (esc : Bool) (m : Bytes × Bytes) (ms : List (Bytes × Bytes)) :
    joinMembers esc (m :: ms) ++ [0x7D] = memberText esc m ++ objTailText esc ms := by
  induction ms generalizing m with
  | nil => obtain ⟨k, v⟩ := m; simp [joinMembers, objTailText, memberText]
  | cons m' ms ih =>
    obtain ⟨k, v⟩ := m
    simp only [joinMembers, objTailText, memberText, List.append_assoc, List.cons_append]
    rw [ih m']
    simp [memberText]

theorem delim_objTailText (esc : Bool) (ms : List (Bytes × Bytes)) (rest : Bytes) :
    Delim (objTailText esc ms ++ rest) := by
  cases ms <;> simp [objTailText, Delim]

theorem member_text (esc : Bool) (m : Bytes × Bytes) (hv : IsVal m.2) (rest : Bytes) (f : Nat)
    (hd : Delim rest) (hf : (memberText esc m ++ rest).length < f) :
    member f (memberText esc m ++ rest) = some rest := by
  cases f with
  | zero => simp at hf
  | succ f =>
    unfold memberText at hf ⊢
    simp only [List.append_assoc, List.cons_append] at hf ⊢
    unfold member
    rw [quoteString_string]
    simp only [Spec.Json.skipWs, show isWs 0x3A = false by decide, Bool.false_eq_true, if_false,
      beq_self_eq_true, if_true]
    rw [hv.skipWs]
    exact hv.parse rest f hd (by simp at hf ⊢; omega)

theorem quoteString_head (esc : Bool) (k X : Bytes) :
    ∃ r, quoteString esc k ++ X = 0x22 :: r := ⟨_, rfl⟩

theorem objTail_text (esc : Bool) : ∀ (ms : List (Bytes × Bytes)), (∀ m ∈ ms, IsVal m.2) →
    ∀ (rest : Bytes) (f : Nat), (objTailText esc ms ++ rest).length < f →
      objTail f (objTailText esc ms ++ rest) = some rest := by
  intro ms
  induction ms with
  | nil =>
    intro _ rest f hf
    cases f with
    | zero => simp at hf
    | succ f => simp [objTailText, objTail, Spec.Json.skipWs, isWs]
  | cons m ms ih =>
    intro hall rest f hf
    cases f with
    | zero => simp at hf
    | succ f =>
      have hm := hall m (by simp)
      simp only [objTailText, List.cons_append, List.append_assoc] at hf ⊢
      have hlen : (memberText esc m ++ (objTailText esc ms ++ rest)).length < f := by
        simp at hf ⊢; omega
      have hlen2 : (objTailText esc ms ++ rest).length < f := by simp at hlen ⊢; omega
      unfold objTail
      simp only [Spec.Json.skipWs, show isWs 0x2C = false by decide, Bool.false_eq_true, if_false,
        show ((0x2C : UInt8) == 0x7D) = false by decide, beq_self_eq_true, if_true]
      have hsk : Spec.Json.skipWs (memberText esc m ++ (objTailText esc ms ++ rest))
          = memberText esc m ++ (objTailText esc ms ++ rest) := by
        unfold memberText quoteString
        simp [Spec.Json.skipWs, isWs]
      rw [hsk, member_text esc m hm _ f (delim_objTailText esc ms rest) hlen]
      exact ih (fun x hx => hall x (by simp [hx])) rest f hlen2

theorem isVal_object (esc : Bool) (ms : List (Bytes × Bytes)) (hall : ∀ m ∈ ms, IsVal m.2) :
    IsVal (0x7B :: (joinMembers esc ms ++ [0x7D])) :=
  ⟨⟨_, _, rfl, by decide, by decide⟩, fun rest f _ hf => by
    cases f with
    | zero => simp at hf
    | succ f =>
      cases ms with
      | nil => simp [joinMembers, value, Spec.Json.skipWs, isWs]
      | cons m ms =>
        have hm := hall m (by simp)
        rw [joinMembers_tail] at hf ⊢
        simp only [List.cons_append, List.append_assoc] at hf ⊢
        have hlen : (memberText esc m ++ (objTailText esc ms ++ rest)).length < f := by
          simp at hf ⊢; omega
        have hlen2 : (objTailText esc ms ++ rest).length < f := by simp at hlen ⊢; omega
        have hp := member_text esc m hm _ f (delim_objTailText esc ms rest) hlen
        have hhead : memberText esc m ++ (objTailText esc ms ++ rest)
            = 0x22 :: (escapeAux esc m.1.length m.1 ++ [0x22] ++ 0x3A :: m.2 ++ (objTailText esc ms ++ rest)) := by
          unfold memberText quoteString; simp
        rw [hhead] at hp ⊢
        simp only [value, show ((0x7B : UInt8) == 0x22) = false by decide,
          show ((0x7B : UInt8) == 0x5B) = false by decide, Bool.false_eq_true, if_false,
          beq_self_eq_true, if_true, Spec.Json.skipWs, show isWs 0x22 = false by decide,
          show ((0x22 : UInt8) == 0x7D) = false by decide, hp]
        exact objTail_text esc ms (fun x hx => hall x (by simp [hx])) rest f hlen2⟩

theorem mem_insertSorted (p x : Bytes × Bytes) (l : List (Bytes × Bytes)) (h : x ∈ insertSorted p l) :
    x = p ∨ x ∈ l := by
  induction l with
  | nil => simp [insertSorted] at h; exact Or.inl h
  | cons q r ih =>
    simp only [insertSorted] at h
    split at h
    · simp at h ⊢; exact h
    · simp at h ⊢
      rcases h with h | h
      · exact Or.inr (Or.inl h)
      · rcases ih h with h | h
        · exact Or.inl h
        · exact Or.inr (Or.inr h)

theorem mem_sortMembers (x : Bytes × Bytes) (l : List (Bytes × Bytes)) (h : x ∈ sortMembers l) : x ∈ l := by
  induction l with
  | nil => simp [sortMembers] at h
  | cons p r ih =>
    simp only [sortMembers, List.foldr] at h
    rcases mem_insertSorted p x _ h with h | h
    · simp [h]
    · simp [ih h]

/-! ### the encoder writes one JSON value -/

/-- `compact` writes one JSON value for this input whenever it succeeds -/
def CompactValidOn (src : Bytes) : Prop := ∀ (esc : Bool) (out : Bytes), compact esc src = .ok (some out) → IsVal out

theorem encRaw_valid (e : Bool) (b bs : Bytes) (hC : CompactValidOn b) (h : encRaw e b = .ok bs) : IsVal bs := by
  unfold encRaw at h
  split at h
  · rename_i o ho; injection h with h; subst h; exact hC e _ ho
  · cases h
  · cases h
  · cases h

theorem plain_lit_true : ∀ x ∈ trueB, plain x := by
  intro x hx; simp [trueB] at hx; rcases hx with rfl | rfl | rfl | rfl <;> (unfold plain; decide)
theorem plain_lit_false : ∀ x ∈ falseB, plain x := by
  intro x hx; simp [falseB] at hx; rcases hx with rfl | rfl | rfl | rfl | rfl <;> (unfold plain; decide)

mutual
theorem enc_valid (L : JsonLib) (hL : L.OK) (P : Bytes → Prop) (hC : ∀ b, P b → CompactValidOn b) :
    ∀ (v : JV) (q e empty : Bool) (bs : Bytes), rawsOK P v → enc L q e empty v = .ok bs →
      (empty = false ∨ isTopErr v = false) → IsVal bs
  | .undefined, q, e, empty, bs, hR, h, _ => by
    simp only [enc] at h; injection h with h; subst h; exact isVal_null
  | .nil, q, e, empty, bs, hR, h, _ => by
    simp only [enc] at h; injection h with h; subst h; exact isVal_null
  | .bool b, q, e, empty, bs, hR, h, _ => by
    simp only [enc] at h; injection h with h; subst h
    cases b
    · exact isVal_quoteIf q _ isVal_false plain_lit_false
    · exact isVal_quoteIf q _ isVal_true plain_lit_true
  | .int v, q, e, empty, bs, hR, h, _ => by
    simp only [enc] at h; injection h with h; subst h
    exact isVal_quoteIf q _ (isVal_number _ (fmtInt_number _)) (fmtInt_plain _)
  | .uint v, q, e, empty, bs, hR, h, _ => by
    simp only [enc] at h; injection h with h; subst h
    exact isVal_quoteIf q _ (isVal_number _ (fmtNat_number _)) (fmtNat_plain _)
  | .char v, q, e, empty, bs, hR, h, _ => by
    simp only [enc] at h; injection h with h; subst h
    exact isVal_quoteIf q _ (isVal_number _ (fmtInt_number _)) (fmtInt_plain _)
  | .float f, q, e, empty, bs, hR, h, _ => by
    simp only [enc] at h
    split at h
    · cases h
    · rename_i hc
      injection h with h; subst h
      have h1 : F64.isInf f = false := by
        cases hh : F64.isInf f <;> simp_all
      have h2 : f.isNaN = false := by
        cases hh : f.isNaN <;> simp_all
      exact isVal_quoteIf q _ (isVal_number _ (hL.float_token f h1 h2)) (hL.float_plain f h1 h2)
  | .str s, q, e, empty, bs, hR, h, _ => by
    simp only [enc] at h
    split at h <;> (injection h with h; subst h; exact isVal_quoteString _ _)
  | .bytes s, q, e, empty, bs, hR, h, _ => by
    simp only [enc] at h; injection h with h; subst h
    exact isVal_quoted _ (base64_plain s)
  | .array xs, q, e, empty, bs, hR, h, _ => by
    simp only [enc] at h
    cases hx : encList L q e xs with
    | ok es =>
      rw [hx] at h; injection h with h; subst h
      exact isVal_array es (encList_valid L hL P hC xs q e es (by simpa [rawsOK] using hR) hx)
    | err _ => rw [hx] at h; cases h
    | panic _ => rw [hx] at h; cases h
  | .map kvs, q, e, empty, bs, hR, h, _ => by
    simp only [enc] at h
    cases hx : encMembers L q e kvs with
    | ok ms =>
      rw [hx] at h; injection h with h; subst h
      exact isVal_object e _ (fun m hm => encMembers_valid L hL P hC kvs q e ms (by simpa [rawsOK] using hR) hx m (mem_sortMembers m ms hm))
    | err _ => rw [hx] at h; cases h
    | panic _ => rw [hx] at h; cases h
  | .opts q' e' v, q, e, empty, bs, hR, h, ht => by
    simp only [enc] at h
    exact enc_valid L hL P hC v q' e' empty bs (by simpa [rawsOK] using hR) h (by simpa [isTopErr] using ht)
  | .ptrNil, q, e, empty, bs, hR, h, _ => by
    simp only [enc] at h; injection h with h; subst h; exact isVal_null
  | .ptr v, q, e, empty, bs, hR, h, ht => by
    simp only [enc] at h
    exact enc_valid L hL P hC v q e empty bs (by simpa [rawsOK] using hR) h (by simpa [isTopErr] using ht)
  | .rawNil, q, e, empty, bs, hR, h, _ => by
    simp only [enc] at h; exact encRaw_valid _ _ _ (hC _ (by simpa [rawsOK] using hR)) h
  | .raw b, q, e, empty, bs, hR, h, _ => by
    simp only [enc] at h; exact encRaw_valid _ _ _ (hC _ (by simpa [rawsOK] using hR)) h
  | .errval, q, e, empty, bs, hR, h, ht => by
    simp only [enc] at h
    have : empty = false := by simpa [isTopErr] using ht
    subst this
    simp at h
  | .opaque tn, q, e, empty, bs, hR, h, _ => by
    simp only [enc] at h; cases h
theorem encList_valid (L : JsonLib) (hL : L.OK) (P : Bytes → Prop) (hC : ∀ b, P b → CompactValidOn b) :
    ∀ (xs : List JV) (q e : Bool) (es : List Bytes), rawsOKL P xs → encList L q e xs = .ok es → ∀ x ∈ es, IsVal x
  | [], q, e, es, _, h => by
    simp only [encList] at h; injection h with h; subst h; simp
  | x :: xs, q, e, es, hR, h => by
    simp only [rawsOKL] at hR
    simp only [encList] at h
    cases hx : enc L q e false x with
    | ok b =>
      rw [hx] at h
      simp only [] at h
      cases hxs : encList L q e xs with
      | ok bs =>
        rw [hxs] at h; injection h with h; subst h
        intro y hy
        simp at hy
        rcases hy with rfl | hy
        · exact enc_valid L hL P hC x q e false _ hR.1 hx (Or.inl rfl)
        · exact encList_valid L hL P hC xs q e bs hR.2 hxs y hy
      | err _ => rw [hxs] at h; cases h
      | panic _ => rw [hxs] at h; cases h
    | err _ => rw [hx] at h; cases h
    | panic _ => rw [hx] at h; cases h
theorem encMembers_valid (L : JsonLib) (hL : L.OK) (P : Bytes → Prop) (hC : ∀ b, P b → CompactValidOn b) :
    ∀ (kvs : List (Bytes × JV)) (q e : Bool) (ms : List (Bytes × Bytes)), rawsOKM P kvs →
      encMembers L q e kvs = .ok ms → ∀ m ∈ ms, IsVal m.2
  | [], q, e, ms, _, h => by
    simp only [encMembers] at h; injection h with h; subst h; simp
  | (k, x) :: xs, q, e, ms, hR, h => by
    simp only [rawsOKM] at hR
    simp only [encMembers] at h
    cases hx : enc L q e false x with
    | ok b =>
      rw [hx] at h
      simp only [] at h
      cases hxs : encMembers L q e xs with
      | ok bs =>
        rw [hxs] at h; injection h with h; subst h
        intro y hy
        simp at hy
        rcases hy with rfl | hy
        · exact enc_valid L hL P hC x q e false _ hR.1 hx (Or.inl rfl)
        · exact encMembers_valid L hL P hC xs q e bs hR.2 hxs y hy
      | err _ => rw [hxs] at h; cases h
      | panic _ => rw [hxs] at h; cases h
    | err _ => rw [hx] at h; cases h
    | panic _ => rw [hx] at h; cases h
end

/-! ### unsupported objects abort the encoding -/

mutual
theorem enc_unsupported (L : JsonLib) :
    ∀ (v : JV) (q e empty : Bool), hasUnsupported v = true → (empty = false ∨ isTopErr v = false) →
      ∀ bs, enc L q e empty v ≠ .ok bs
  | .opaque tn, q, e, empty, _, _, bs => by simp [enc]
  | .errval, q, e, empty, _, ht, bs => by
    have : empty = false := by simpa [isTopErr] using ht
    subst this; simp [enc]
  | .array xs, q, e, empty, hu, _, bs => by
    simp only [hasUnsupported] at hu
    simp only [enc]
    cases hx : encList L q e xs with
    | ok es => exact absurd hx (encList_unsupported L xs q e hu es)
    | err _ => simp
    | panic _ => simp
  | .map kvs, q, e, empty, hu, _, bs => by
    simp only [hasUnsupported] at hu
    simp only [enc]
    cases hx : encMembers L q e kvs with
    | ok ms => exact absurd hx (encMembers_unsupported L kvs q e hu ms)
    | err _ => simp
    | panic _ => simp
  | .opts q' e' v, q, e, empty, hu, ht, bs => by
    simp only [enc]
    exact enc_unsupported L v q' e' empty (by simpa [hasUnsupported] using hu) (by simpa [isTopErr] using ht) bs
  | .ptr v, q, e, empty, hu, ht, bs => by
    simp only [enc]
    exact enc_unsupported L v q e empty (by simpa [hasUnsupported] using hu) (by simpa [isTopErr] using ht) bs
  | .undefined, _, _, _, hu, _, _ => by simp [hasUnsupported] at hu
  | .nil, _, _, _, hu, _, _ => by simp [hasUnsupported] at hu
  | .int _, _, _, _, hu, _, _ => by simp [hasUnsupported] at hu
  | .uint _, _, _, _, hu, _, _ => by simp [hasUnsupported] at hu
  | .float _, _, _, _, hu, _, _ => by simp [hasUnsupported] at hu
  | .char _, _, _, _, hu, _, _ => by simp [hasUnsupported] at hu
  | .bool _, _, _, _, hu, _, _ => by simp [hasUnsupported] at hu
  | .str _, _, _, _, hu, _, _ => by simp [hasUnsupported] at hu
  | .bytes _, _, _, _, hu, _, _ => by simp [hasUnsupported] at hu
  | .ptrNil, _, _, _, hu, _, _ => by simp [hasUnsupported] at hu
  | .rawNil, _, _, _, hu, _, _ => by simp [hasUnsupported] at hu
  | .raw _, _, _, _, hu, _, _ => by simp [hasUnsupported] at hu
theorem encList_unsupported (L : JsonLib) :
    ∀ (xs : List JV) (q e : Bool), anyUnsupported xs = true → ∀ es, encList L q e xs ≠ .ok es
  | [], q, e, hu, es => by simp [anyUnsupported] at hu
  | x :: xs, q, e, hu, es => by
    simp only [anyUnsupported, Bool.or_eq_true] at hu
    simp only [encList]
    cases hx : enc L q e false x with
    | ok b =>
      simp only []
      rcases hu with hu | hu
      · exact absurd hx (enc_unsupported L x q e false hu (Or.inl rfl) b)
      · cases hxs : encList L q e xs with
        | ok bs => exact absurd hxs (encList_unsupported L xs q e hu bs)
        | err _ => simp
        | panic _ => simp
    | err _ => simp
    | panic _ => simp
theorem encMembers_unsupported (L : JsonLib) :
    ∀ (kvs : List (Bytes × JV)) (q e : Bool), anyUnsupportedM kvs = true → ∀ ms, encMembers L q e kvs ≠ .ok ms
  | [], q, e, hu, ms => by simp [anyUnsupportedM] at hu
  | (k, x) :: xs, q, e, hu, ms => by
    simp only [anyUnsupportedM, Bool.or_eq_true] at hu
    simp only [encMembers]
    cases hx : enc L q e false x with
    | ok b =>
      simp only []
      rcases hu with hu | hu
      · exact absurd hx (enc_unsupported L x q e false hu (Or.inl rfl) b)
      · cases hxs : encMembers L q e xs with
        | ok bs => exact absurd hxs (encMembers_unsupported L xs q e hu bs)
        | err _ => simp
        | panic _ => simp
    | err _ => simp
    | panic _ => simp
end

end UgoVerif.Proofs.Json
