import UgoVerif.Proofs.ShiftTry
/-
  C14, `frame_shift`: CALL / CALLNAME (compiled callee without spread: a new frame above the invoked
  function's frame on both sides; builtin callee) and RETURN of a nested call under the offset relation `Sh`.
-/
set_option linter.unusedSimpArgs false
set_option linter.unusedVariables false
set_option maxHeartbeats 1600000
namespace UgoVerif.Proofs.Shift
open UgoVerif UgoVerif.Go UgoVerif.VM

/-! ### loops whose invariant depends on the iteration -/

theorem RelS.forIn_range'_inv {A : Nat → State → State → Prop} (f g : Nat → PUnit → M (ForInStep PUnit)) :
    ∀ (m st : Nat), (∀ i, st ≤ i → i < st + m → RelS (A i) (fun x y s t => x = .yield ⟨⟩ ∧ y = .yield ⟨⟩ ∧ A (i + 1) s t) (f i ⟨⟩) (g i ⟨⟩)) →
    RelS (A st) (fun _ _ s t => A (st + m) s t) (forIn (List.range' st m) PUnit.unit f) (forIn (List.range' st m) PUnit.unit g) := by
  intro m
  induction m with
  | zero =>
    intro st _
    simp only [List.range'_zero, List.forIn_nil]
    exact RelS.pure (fun s t h => h)
  | succ m ih =>
    intro st hf
    rw [List.range'_succ, List.forIn_cons, List.forIn_cons]
    refine RelS.bind (hf st (Nat.le_refl _) (by omega)) ?_
    intro x y
    refine RelS.pre_and fun hx => RelS.pre_and fun hy => ?_
    subst hx; subst hy
    have := ih (st + 1) (fun i h1 h2 => hf i (by omega) (by omega))
    have e : st + 1 + m = st + (m + 1) := by omega
    rw [e] at this
    exact this

theorem range_size (n : Nat) : [:n].size = n := by simp [Std.Legacy.Range.size]

/-- `for k := 0; k < n; k++ { … }` with an invariant that depends on `k` -/
theorem RelS.forIn_upto_inv {A : Nat → State → State → Prop} (n : Nat) (f g : Nat → PUnit → M (ForInStep PUnit))
    (hf : ∀ i, i < n → RelS (A i) (fun x y s t => x = .yield ⟨⟩ ∧ y = .yield ⟨⟩ ∧ A (i + 1) s t) (f i ⟨⟩) (g i ⟨⟩)) :
    RelS (A 0) (fun _ _ s t => A n s t) (forIn [:n] PUnit.unit f) (forIn [:n] PUnit.unit g) := by
  rw [Std.Legacy.Range.forIn_eq_forIn_range', Std.Legacy.Range.forIn_eq_forIn_range', range_size]
  have := RelS.forIn_range'_inv (A := A) f g n 0 (fun i _ h => hf i (by omega))
  simpa using this

section
variable {T0 : State} {bp k d H N : Nat} {a : Int}

/-! ### `fillUndefined`, `popArgs` -/

theorem sh_fillUndefined (lo : Int) (n : Nat) (hlo : lo ≤ N) :
    RelS (Sh T0 bp k d H N a) (fun _ _ s t => ∃ N', N ≤ N' ∧ lo + n ≤ N' ∧ Sh T0 bp k d H N' a s t)
      (fillUndefined lo n) (fillUndefined (lo + bp) n) := by
  unfold fillUndefined
  refine RelS.bind (Q := fun _ _ s t => ∃ N', N ≤ N' ∧ lo + n ≤ N' ∧ Sh T0 bp k d H N' a s t)
    (RelS.conseq (RelS.forIn_upto_inv (A := fun i s t => ∃ N', N ≤ N' ∧ lo + i ≤ N' ∧ Sh T0 bp k d H N' a s t) n _ _ ?_)
      (fun s t h => ⟨N, Nat.le_refl _, by omega, h⟩) (fun _ _ _ _ h => h)) ?_
  · intro i hi
    refine RelS.pre_exists fun N' => RelS.pre_and fun h1 => RelS.pre_and fun h2 => ?_
    refine RelS.bindV (sh_stackSet_grow _ _ _ (by omega) (by omega)) ?_
    intro _ _ _
    exact RelS.pure (fun s t h => ⟨rfl, rfl, _, by omega, by omega, h⟩)
  · intro _ _
    exact RelS.pure (fun s t h => h)

theorem sh_popArgs (n : Nat) :
    RelS (Sh T0 bp k d H N a) (PQ (fun _ _ => True) (Sh T0 bp k d H N (a - n))) (popArgs n) (popArgs n) := by
  unfold popArgs
  refine RelS.bind (Q := fun _ _ s t => Sh T0 bp k d H N (a - n) s t)
    (RelS.conseq (RelS.forIn_upto_inv (A := fun i s t => Sh T0 bp k d H N (a - i) s t) n _ _ ?_)
      (fun s t h => by simpa using h) (fun _ _ _ _ h => h)) ?_
  · intro i hi
    sh1; sh1; sh1
    exact RelS.pure (fun s t h => ⟨rfl, rfl, by
      have e : a - ((i + 1 : Nat) : Int) = a - (i : Int) - 1 := by omega
      rw [e]; exact h⟩)
  · intro _ _
    exact RelS.pure (fun s t h => ⟨trivial, h⟩)

/-! ### argument binding without spread -/

theorem foot_fnCell (fa : Addr) : Foot (fnCell fa) := by
  unfold fnCell
  refine Foot.bind (Foot.heapGet _) ?_
  intro c
  split
  · refine Foot.getS_bind (fun _ => Foot.pure _) ?_
    intro s t hv
    have hc : s.codes = t.codes := congrArg (·.2.2.2.1) hv
    simp only [hc]
  · exact Foot.unsupported _
macro_rules | `(tactic| foot_prim) => `(tactic| exact foot_fnCell _)

syntax "shb" : tactic
macro_rules | `(tactic| shb) => `(tactic| repeat (first
  | exact RelS.pure (fun _ _ h => ⟨rfl, _, by omega, h, fun _ => by omega⟩)
  | exact RelS.pure (fun _ _ h => ⟨rfl, _, by omega, h, fun hx => by cases hx⟩)
  | sh1))

/-- `bindArgs` of a call without spread: same outcome; on success the parameter slots lie inside the
    related region -/
theorem sh_bindArgs0 (code : Code) (b numArgs : Int) (hb : b + numArgs = a) (ha : a ≤ N) :
    RelS (Sh T0 bp k d H N a)
      (fun x y s t => x = y ∧ ∃ N', N ≤ N' ∧ Sh T0 bp k d H N' a s t ∧ (x = .ok () → b + code.numParams ≤ N'))
      (bindArgs code b numArgs 0) (bindArgs code (b + bp) numArgs 0) := by
  unfold bindArgs
  have e0 : ((0 : Int) == 0) = true := rfl
  simp only [e0, if_true]
  cases hv : code.variadic with
  | false =>
    simp only [Bool.not_false, if_true]
    by_cases heq : numArgs = code.numParams
    · subst heq
      simp only [bne_self_eq_false, Bool.false_eq_true, if_false]
      shb
    · have hne : (numArgs != (code.numParams : Int)) = true := by simpa [bne_iff_ne] using heq
      simp only [hne, if_true]
      shb
  | true =>
    simp only [Bool.not_true, Bool.false_eq_true, if_false]
    by_cases h1 : numArgs < (code.numParams : Int) - 1
    · simp only [h1, if_true]
      shb
    · simp only [h1, if_false]
      by_cases h2 : numArgs = (code.numParams : Int) - 1
      · have h2' : (numArgs == (code.numParams : Int) - 1) = true := by simpa using h2
        simp only [h2', if_true]
        shb
      · have h2' : (numArgs == (code.numParams : Int) - 1) = false := by simpa using h2
        simp only [h2', Bool.false_eq_true, if_false]
        shb

/-! ### entering the callee's frame -/

theorem getElem!_modify2 (fr : Array Frame) (c1 c2 i : Nat) (f1 f2 : Frame → Frame) :
    ((fr.modify c1 f1).modify c2 f2)[i]! =
      if c2 = i ∧ i < fr.size then f2 (if c1 = i ∧ i < fr.size then f1 fr[i]! else fr[i]!)
      else (if c1 = i ∧ i < fr.size then f1 fr[i]! else fr[i]!) := by
  rw [getElem!_modify, getElem!_modify]
  simp

/-- the end of `xOpCallCompiled` (not a tail call): a new frame above the current one, on both sides -/
theorem Sh.enter {s t : State} (h : Sh T0 bp k d H N a s t) (fa : Addr) (free : Option (List Addr)) (b : Int) (nl : Int)
    (hb : 1 ≤ b) (hroom : k + d + 1 < frameSize) (ipv : Int) :
    Sh T0 bp k (d + 1) (max H b.toNat) N (b + nl)
      { s with frameIndex := s.frameIndex + 1,
               frames := (s.frames.modify s.curFrame fun f => { f with ip := ipv }).modify s.frameIndex.toNat fun f =>
                  { f with fn := some fa, free := free, handlers := none, bp := b, discard := false },
               curFrame := s.frameIndex.toNat, sp := b + nl, ip := -1 }
      { t with frameIndex := t.frameIndex + 1,
               frames := (t.frames.modify t.curFrame fun f => { f with ip := ipv }).modify t.frameIndex.toNat fun f =>
                  { f with fn := some fa, free := free, handlers := none, bp := b + bp, discard := false },
               curFrame := t.frameIndex.toNat, sp := b + bp + nl, ip := -1 } := by
  have hsS := h.shapeS.frames
  have hsT := h.shapeT.frames
  have hfs := h.fiS
  have hft := h.fiT
  have e1 : s.frameIndex.toNat = d + 1 := by omega
  have e2 : t.frameIndex.toNat = k + (d + 1) := by omega
  refine { h with ip := rfl, spS := rfl, spT := by show b + (bp : Int) + nl = b + nl + bp; omega,
                  curS := e1, curT := e2, fiS := by show s.frameIndex + 1 = _; omega,
                  fiT := by show t.frameIndex + 1 = _; omega,
                  shapeS := ⟨h.shapeS.stack, by simp [hsS]⟩, shapeT := ⟨h.shapeT.stack, by simp [hsT]⟩,
                  kLt := by omega, frames := ?_, ips := ?_, bp0 := ?_, bpPos := ?_, lowF := ?_ }
  rotate_right
  · intro j hj
    show ((t.frames.modify t.curFrame _).modify t.frameIndex.toNat _)[j]! = T0.frames[j]!
    rw [getElem!_modify2, e2, h.curT, hsT]
    have c1 : ¬ (k + (d + 1) = j ∧ j < frameSize) := fun c => by omega
    have c2 : ¬ (k + d = j ∧ j < frameSize) := fun c => by omega
    rw [if_neg c1, if_neg c2]
    exact h.lowF j hj
  · intro j hj
    show FrameSh bp (max H b.toNat) (((s.frames.modify s.curFrame _).modify s.frameIndex.toNat _)[j]!)
      (((t.frames.modify t.curFrame _).modify t.frameIndex.toNat _)[k + j]!)
    rw [getElem!_modify2, getElem!_modify2, e1, e2, h.curS, h.curT, hsS, hsT]
    by_cases hj1 : d + 1 = j
    · subst hj1
      have c1 : d + 1 = d + 1 ∧ d + 1 < frameSize := ⟨rfl, by omega⟩
      have c2 : k + (d + 1) = k + (d + 1) ∧ k + (d + 1) < frameSize := ⟨rfl, by omega⟩
      rw [if_pos c1, if_pos c2]
      exact ⟨rfl, rfl, rfl, trivial, rfl, by show b ≤ ((max H b.toNat : Nat) : Int); omega⟩
    · have c1 : ¬ (d + 1 = j ∧ j < frameSize) := fun c => hj1 c.1
      have c2 : ¬ (k + (d + 1) = k + j ∧ k + j < frameSize) := fun c => hj1 (by omega)
      rw [if_neg c1, if_neg c2]
      have hf := (h.frames j (by omega)).mono (Nat.le_max_left H b.toNat)
      by_cases hj2 : d = j
      · subst hj2
        have c3 : d = d ∧ d < frameSize := ⟨rfl, by omega⟩
        have c4 : k + d = k + d ∧ k + d < frameSize := ⟨rfl, by omega⟩
        rw [if_pos c3, if_pos c4]
        exact ⟨hf.fn, hf.free, hf.bpT, hf.hs, hf.discard, hf.bpH⟩
      · have c3 : ¬ (d = j ∧ j < frameSize) := fun c => hj2 c.1
        have c4 : ¬ (k + d = k + j ∧ k + j < frameSize) := fun c => hj2 (by omega)
        rw [if_neg c3, if_neg c4]
        exact hf
  · intro j hj
    show (((s.frames.modify s.curFrame _).modify s.frameIndex.toNat _)[j]!).ip =
      (((t.frames.modify t.curFrame _).modify t.frameIndex.toNat _)[k + j]!).ip
    rw [getElem!_modify2, getElem!_modify2, e1, e2, h.curS, h.curT, hsS, hsT]
    have c1 : ¬ (d + 1 = j ∧ j < frameSize) := fun c => by omega
    have c2 : ¬ (k + (d + 1) = k + j ∧ k + j < frameSize) := fun c => by omega
    rw [if_neg c1, if_neg c2]
    by_cases hj2 : d = j
    · subst hj2
      have c3 : d = d ∧ d < frameSize := ⟨rfl, by omega⟩
      have c4 : k + d = k + d ∧ k + d < frameSize := ⟨rfl, by omega⟩
      rw [if_pos c3, if_pos c4]
    · have c3 : ¬ (d = j ∧ j < frameSize) := fun c => hj2 c.1
      have c4 : ¬ (k + d = k + j ∧ k + j < frameSize) := fun c => hj2 (by omega)
      rw [if_neg c3, if_neg c4]
      exact h.ips j (by omega)
  · show (((s.frames.modify s.curFrame _).modify s.frameIndex.toNat _)[0]!).bp = 0
    rw [getElem!_modify2, e1, h.curS, hsS]
    have c1 : ¬ (d + 1 = 0 ∧ 0 < frameSize) := fun c => by omega
    rw [if_neg c1]
    split <;> exact h.bp0
  · intro j h1 hj
    show 1 ≤ (((s.frames.modify s.curFrame _).modify s.frameIndex.toNat _)[j]!).bp
    rw [getElem!_modify2, e1, h.curS, hsS]
    by_cases hj1 : d + 1 = j
    · subst hj1
      have c1 : d + 1 = d + 1 ∧ d + 1 < frameSize := ⟨rfl, by omega⟩
      rw [if_pos c1]
      exact hb
    · have c1 : ¬ (d + 1 = j ∧ j < frameSize) := fun c => hj1 c.1
      rw [if_neg c1]
      split <;> exact h.bpPos j h1 (by omega)

/-! ### `xOpCallCompiled` -/

/-- the result of dispatching a call: the callee's frame is entered / a builtin was applied (both continue in
    related states), or the same uGO error on both sides, to be thrown by the call instruction -/
def CallQ (T0 : State) (bp k d : Nat) (x y : Except OpErr Unit) (s t : State) : Prop :=
  (x = .ok () ∧ y = .ok () ∧ ∃ d', ShB T0 bp k d' s t) ∨
  (∃ e, x = .error e ∧ y = .error e ∧ ∃ H N a, Sh T0 bp k d H N a s t ∧ a ≤ N ∧ H ≤ N)

theorem Sh.enter' {s t : State} (h : Sh T0 bp k d H N a s t) (fa : Addr) (free : Option (List Addr)) (b : Int) (nl : Int)
    (hb : 1 ≤ b) (hroom : k + d + 1 < frameSize) (ipv fi fi' : Int) (h1 : s.frameIndex = fi) (h2 : t.frameIndex = fi') :
    Sh T0 bp k (d + 1) (max H b.toNat) N (b + nl)
      { s with frameIndex := fi + 1,
               frames := (s.frames.modify s.curFrame fun f => { f with ip := ipv }).modify fi.toNat fun f =>
                  { f with fn := some fa, free := free, handlers := none, bp := b, discard := false },
               curFrame := fi.toNat, sp := b + nl, ip := -1 }
      { t with frameIndex := fi' + 1,
               frames := (t.frames.modify t.curFrame fun f => { f with ip := ipv }).modify fi'.toNat fun f =>
                  { f with fn := some fa, free := free, handlers := none, bp := b + bp, discard := false },
               curFrame := fi'.toNat, sp := b + bp + nl, ip := -1 } := by
  subst h1; subst h2
  exact h.enter fa free b nl hb hroom ipv

theorem sh_curFrame_P (P : Frame → Prop) :
    RelS (fun s t => Sh T0 bp k d H N a s t ∧ P (s.frames[d]!))
      (PQ (fun f g => FrameSh bp H f g ∧ P f) (Sh T0 bp k d H N a)) curFrame curFrame := by
  intro s t h f s' g t' h1 h2
  have e1 : exec curFrame s = (.ok (s.frames[s.curFrame]!), s) := rfl
  have e2 : exec curFrame t = (.ok (t.frames[t.curFrame]!), t) := rfl
  rw [e1] at h1; rw [e2] at h2
  simp only [Prod.mk.injEq, Except.ok.injEq] at h1 h2
  obtain ⟨rfl, rfl⟩ := h1
  obtain ⟨rfl, rfl⟩ := h2
  refine ⟨⟨?_, ?_⟩, h.1⟩
  · rw [h.1.curS, h.1.curT]; exact h.1.frame
  · rw [h.1.curS]; exact h.2

theorem sh_clearDown' (hi lo hi' lo' : Int) (h1 : hi' = hi + bp) (h2 : lo' = lo + bp) (hiN : hi ≤ N) :
    RelS (Sh T0 bp k d H N a) (PQ (fun _ _ => True) (Sh T0 bp k d H N a)) (clearDown hi lo) (clearDown hi' lo') := by
  subst h1; subst h2
  exact sh_clearDown hi lo hiN
macro_rules | `(tactic| sh_prim) => `(tactic| exact sh_clearDown' _ _ _ _ (by omega) (by omega) (by omega))

theorem sh_copySlots (dst dst' : Int) (src : List V) (hd : dst' = dst + bp) :
    RelS (Sh T0 bp k d H N a) (PQ (fun _ _ => True) (Sh T0 bp k d H N a)) (copySlots dst src) (copySlots dst' src) := by
  subst hd
  unfold copySlots
  refine RelS.bindV (RelS.forIn_list (VR := Eq) _ _ _ _ _ rfl ?_) ?_
  · intro x b b' hb
    subst hb
    shrun
  · intro _ _ _
    exact RelS.pure (fun _ _ h => ⟨trivial, h⟩)
macro_rules | `(tactic| sh_prim) => `(tactic| exact sh_copySlots _ _ _ (by omega))

theorem sh_dropHandlers :
    RelS (Sh T0 bp k d H N a) (PQ (fun _ _ => True) (Sh T0 bp k d H N a))
      (setCurFrame fun f => { f with handlers := none }) (setCurFrame fun f => { f with handlers := none }) :=
  sh_setCurFrame _ _ H (fun f g x => ⟨x.fn, x.free, x.bpT, trivial, x.discard, x.bpH⟩) (Nat.le_refl _) (fun f => rfl)
macro_rules | `(tactic| sh_prim) => `(tactic| exact sh_dropHandlers)

theorem sh_setDiscard :
    RelS (Sh T0 bp k d H N a) (PQ (fun _ _ => True) (Sh T0 bp k d H N a))
      (setCurFrame fun f => { f with discard := true }) (setCurFrame fun f => { f with discard := true }) :=
  sh_setCurFrame _ _ H (fun f g x => ⟨x.fn, x.free, x.bpT, x.hs, rfl, x.bpH⟩) (Nat.le_refl _) (fun f => rfl)
macro_rules | `(tactic| sh_prim) => `(tactic| exact sh_setDiscard)

syntax "shc" : tactic
macro_rules | `(tactic| shc) => `(tactic| repeat (first
  | exact RelS.pure (fun s t h => Or.inl ⟨rfl, rfl, _, _, _, _, h, by omega, by omega⟩)
  | exact RelS.pure (fun s t h => Or.inr ⟨_, rfl, rfl, _, _, _, h, by omega, by omega⟩)
  | sh1))

/-- **xOpCallCompiled** without spread (`hroom`: the parent has a free frame — otherwise it answers
    StackOverflowError where the child, which has `k` more frames, enters the callee) -/
theorem sh_callCompiled (fa : Addr) (numArgs : Int) (hn : 0 ≤ numArgs) (hb : 1 ≤ a - numArgs) (ha : a ≤ N) (hH : H ≤ N)
    (hroom : k + d + 2 < frameSize) :
    RelS (Sh T0 bp k d H N a) (CallQ T0 bp k d) (callCompiled fa numArgs 0) (callCompiled fa numArgs 0) := by
  unfold callCompiled
  refine RelS.bindV (sh_foot (foot_fnCell fa)) ?_
  intro cf cf' hcf
  subst hcf
  obtain ⟨code, free⟩ := cf
  dsimp only
  refine RelS.bindV sh_getSp ?_
  intro sp sp' hsp
  obtain ⟨hsp1, hsp2⟩ := hsp
  subst hsp1; subst hsp2
  have eb : a + (bp : Int) - numArgs = (a - numArgs) + bp := by omega
  rw [eb]
  refine RelS.bind (sh_bindArgs0 code (a - numArgs) numArgs (by omega) ha) ?_
  intro x y
  refine RelS.pre_and fun hxy => ?_
  subst hxy
  cases x with
  | error e =>
    dsimp only
    exact RelS.pure (fun s t h => by
      obtain ⟨N', h1, h2, _⟩ := h
      exact Or.inr ⟨e, rfl, rfl, H, N', a, h2, by omega, by omega⟩)
  | ok u =>
    dsimp only
    refine RelS.conseq (A := fun s t => ∃ N', (N ≤ N' ∧ a - numArgs + ↑code.numParams ≤ (N' : Int)) ∧ Sh T0 bp k d H N' a s t) ?_
      (fun s t h => by
        obtain ⟨N', h1, h2, h3⟩ := h
        exact ⟨N', ⟨h1, h3 rfl⟩, h2⟩) (fun _ _ _ _ h => h)
    refine RelS.pre_exists fun N' => RelS.pre_and fun hN' => ?_
    obtain ⟨hN1, hN2⟩ := hN'
    have ef : a - numArgs + (bp : Int) + (code.numParams : Int) = (a - numArgs + (code.numParams : Int)) + bp := by omega
    rw [ef]
    refine RelS.bind (sh_fillUndefined _ _ hN2) ?_
    intro _ _
    refine RelS.conseq (A := fun s t => ∃ N'', (N' ≤ N'' ∧
        a - numArgs + ↑code.numParams + ((((code.numLocals : Int) - (code.numParams : Int)).toNat : Nat) : Int) ≤ (N'' : Int)) ∧
        Sh T0 bp k d H N'' a s t) ?_
      (fun s t h => by
        obtain ⟨N'', h1, h2, h3⟩ := h
        exact ⟨N'', ⟨h1, h2⟩, h3⟩) (fun _ _ _ _ h => h)
    refine RelS.pre_exists fun N'' => RelS.pre_and fun hN'' => ?_
    obtain ⟨hM1, hM2⟩ := hN''
    -- from here on the related region is `N''`; it fits into the parent's stack
    refine RelS.conseq (A := fun s t => (N'' + bp ≤ stackSize) ∧ Sh T0 bp k d H N'' a s t) ?_
      (fun s t h => ⟨h.room, h⟩) (fun _ _ _ _ h => h)
    refine RelS.pre_and fun hrm => ?_
    have m1 : min ((stackSize : Nat) : Int) (a - numArgs + (code.numLocals : Int)) = a - numArgs + (code.numLocals : Int) := by
      omega
    have m2 : min ((stackSize : Nat) : Int) (a - numArgs + (bp : Int) + (code.numLocals : Int)) =
        a - numArgs + (bp : Int) + (code.numLocals : Int) := by
      omega
    rw [m1, m2]
    refine RelS.bindV sh_curFrame ?_
    intro f g hfg
    rw [← hfg.fn]
    obtain ⟨fn1, fr1, ip1, bp1, hs1, d1⟩ := f
    obtain ⟨fn2, fr2, ip2, bp2, hs2, d2⟩ := g
    obtain ⟨e1, e2, e3, e4, e5, e6⟩ := hfg
    simp only at e1 e2 e3 e4 e5 e6
    subst e1 e2 e3 e5
    dsimp only
    refine RelS.bindV sh_getIp ?_
    intro ip _ hip
    subst hip
    have nontail : RelS (Sh T0 bp k d H N'' a) (CallQ T0 bp k d)
        (do
          let s ← getS
          if s.frameIndex + 1 > ↑frameSize - 1 then pure (Except.error OpErr.stackOverflow)
            else
              if (decide (s.frameIndex < 0) || decide (s.frameIndex ≥ ↑frameSize)) = true then do
                VM.panic
                    (toString "runtime error: index out of range [" ++ toString s.frameIndex ++
                        toString "] with length " ++
                      toString frameSize)
                modS fun s_1 => { s_1 with frameIndex := s.frameIndex + 1 }
                setCurFrame fun f => { f with ip := ip + 2 }
                enterFrame s.frameIndex.toNat fa free (a - numArgs)
                setSp (a - numArgs + ↑code.numLocals)
                setIp (-1)
                pure (Except.ok ())
              else do
                modS fun s_1 => { s_1 with frameIndex := s.frameIndex + 1 }
                setCurFrame fun f => { f with ip := ip + 2 }
                enterFrame s.frameIndex.toNat fa free (a - numArgs)
                setSp (a - numArgs + ↑code.numLocals)
                setIp (-1)
                pure (Except.ok ()))
        (do
          let s ← getS
          if s.frameIndex + 1 > ↑frameSize - 1 then pure (Except.error OpErr.stackOverflow)
            else
              if (decide (s.frameIndex < 0) || decide (s.frameIndex ≥ ↑frameSize)) = true then do
                VM.panic
                    (toString "runtime error: index out of range [" ++ toString s.frameIndex ++
                        toString "] with length " ++
                      toString frameSize)
                modS fun s_1 => { s_1 with frameIndex := s.frameIndex + 1 }
                setCurFrame fun f => { f with ip := ip + 2 }
                enterFrame s.frameIndex.toNat fa free (a - numArgs + ↑bp)
                setSp (a - numArgs + ↑bp + ↑code.numLocals)
                setIp (-1)
                pure (Except.ok ())
              else do
                modS fun s_1 => { s_1 with frameIndex := s.frameIndex + 1 }
                setCurFrame fun f => { f with ip := ip + 2 }
                enterFrame s.frameIndex.toNat fa free (a - numArgs + ↑bp)
                setSp (a - numArgs + ↑bp + ↑code.numLocals)
                setIp (-1)
                pure (Except.ok ())) := by
      intro s t h r s' r' t' h1 h2
      have hfs := h.fiS
      have hft := h.fiT
      have c1 : ¬ (s.frameIndex + 1 > (frameSize : Int) - 1) := by simp only [frameSize] at hroom ⊢; omega
      have c2 : ¬ (t.frameIndex + 1 > (frameSize : Int) - 1) := by simp only [frameSize] at hroom ⊢; omega
      have c3 : (decide (s.frameIndex < 0) || decide (s.frameIndex ≥ (frameSize : Int))) = false := by
        simp only [frameSize] at hroom ⊢; simp; omega
      have c4 : (decide (t.frameIndex < 0) || decide (t.frameIndex ≥ (frameSize : Int))) = false := by
        simp only [frameSize] at hroom ⊢; simp; omega
      have es : ∀ (v : Int) (u : State), exec (setSp v) u = (.ok (), { u with sp := v }) := fun _ _ => rfl
      have ei : ∀ (v : Int) (u : State), exec (setIp v) u = (.ok (), { u with ip := v }) := fun _ _ => rfl
      have ec : ∀ (F : Frame → Frame) (u : State), exec (setCurFrame F) u = (.ok (), { u with frames := u.frames.modify u.curFrame F }) :=
        fun _ _ => rfl
      simp only [exec_bind, exec_getS, c1, c2, c3, c4, if_false, Bool.false_eq_true, exec_modS, ec, enterFrame, es, ei, exec_pure,
        Prod.mk.injEq, Except.ok.injEq] at h1 h2
      obtain ⟨rfl, rfl⟩ := h1
      obtain ⟨rfl, rfl⟩ := h2
      have hen := h.enter' fa free (a - numArgs) code.numLocals hb (by omega) (ip + 2) s.frameIndex t.frameIndex rfl rfl
      exact Or.inl ⟨rfl, rfl, d + 1, max H (a - numArgs).toNat, N'', a - numArgs + code.numLocals, hen, by omega, by omega⟩
    apply RelS.ite
    · -- the callee is the running function: a tail call reuses the frame
      sh1; sh1
      apply RelS.ite
      · shc
      · exact nontail
    · exact nontail

/-! ### builtin callees, `callAny`, CALL, CALLNAME -/

set_option maxHeartbeats 3200000 in
theorem foot_callBuiltin (i : Nat) (args : List V) : Foot (callBuiltin i args) := by unfold callBuiltin; foot
macro_rules | `(tactic| foot_prim) => `(tactic| exact foot_callBuiltin _ _)
macro_rules | `(tactic| sh_prim) => `(tactic| exact sh_popArgs _)

theorem sh_callObject (callee : V) (numArgs : Int) (ha : a ≤ N) (hH : H ≤ N) :
    RelS (Sh T0 bp k d H N a) (CallQ T0 bp k d) (callObject callee numArgs 0) (callObject callee numArgs 0) := by
  unfold callObject
  have e0 : ¬ ((0 : Int) > 0) := by decide
  split
  · exact RelS.errL _
  · simp only [e0, if_false]
    shc
  · exact RelS.errL _
  · exact RelS.errL _
  · shc

theorem sh_callAny (callee : V) (numArgs : Int) (hn : 0 ≤ numArgs) (hb : 1 ≤ a - numArgs) (ha : a ≤ N) (hH : H ≤ N)
    (hroom : k + d + 2 < frameSize) :
    RelS (Sh T0 bp k d H N a) (CallQ T0 bp k d) (callAny callee numArgs 0) (callAny callee numArgs 0) := by
  unfold callAny
  split
  · exact sh_callCompiled _ numArgs hn hb ha hH hroom
  · exact sh_callObject _ numArgs ha hH

/-- the end of CALL / CALLNAME: continue, or throw the error of the dispatch -/
theorem sh_callEnd (x y : Except OpErr Unit) :
    RelS (CallQ T0 bp k d x y) (PostC T0 bp k)
      (match x with | .ok () => pure Ctl.next | .error e => failWith e)
      (match y with | .ok () => pure Ctl.next | .error e => failWith e) := by
  intro s t h r s' r' t' h1 h2
  rcases h with ⟨rfl, rfl, hsh⟩ | ⟨e, rfl, rfl, H', N', a', hsh, ha', hH'⟩
  · simp only [exec_pure, Prod.mk.injEq, Except.ok.injEq] at h1 h2
    obtain ⟨rfl, rfl⟩ := h1
    obtain ⟨rfl, rfl⟩ := h2
    exact Or.inl ⟨rfl, rfl, hsh⟩
  · exact sh_failWith e ha' hH' s t hsh r s' r' t' h1 h2

/-- reading a slot: the index was not negative -/
theorem sh_stackGet_nn (i j : Int) (hj : j = i + bp) (hN : 0 ≤ i → i < N) :
    RelS (Sh T0 bp k d H N a) (PQ (fun x y => x = y ∧ 0 ≤ i) (Sh T0 bp k d H N a)) (stackGet i) (stackGet j) := by
  intro s t h x s' y t' h1 h2
  have := sh_stackGet i j hj hN s t h x s' y t' h1 h2
  refine ⟨⟨this.1, ?_⟩, this.2⟩
  rw [exec_stackGet'] at h1
  split at h1
  · simp at h1
  · rename_i hb
    simp only [Bool.or_eq_true, decide_eq_true_eq, not_or, Int.not_lt] at hb
    exact hb.1

/-- the two operands of CALL / CALLNAME: argument count and flags -/
def callOperands : M (Nat × Nat) := do
  let n ← opnd1 1
  let fl ← opnd1 2
  pure (n, fl)

/-- the call instruction about to be executed has no spread argument (`flags = 0`) -/
def NoSpread (s : State) : Prop := ∀ p s', exec callOperands s = (.ok p, s') → p.2 = 0

theorem sh_callOperands :
    RelS (fun s t => Sh T0 bp k d H N a s t ∧ NoSpread s) (PQ (fun x y => x = y ∧ x.2 = 0) (Sh T0 bp k d H N a)) callOperands callOperands := by
  intro s t h x s' y t' h1 h2
  have hf : Foot callOperands := by unfold callOperands; foot
  have := sh_foot hf s t h.1 x s' y t' h1 h2
  exact ⟨⟨this.1, h.2 x s' h1⟩, this.2⟩

theorem execCall_eq : execCall = (callOperands >>= fun p => do
    let callee ← stackGet ((← getSp) - (p.1 : Int) - 1)
    match (← callAny callee p.1 p.2) with
    | .ok () => return .next
    | .error e => failWith e) := by
  unfold execCall callOperands
  simp only [bind_assoc, pure_bind]
  rfl

/-- **CALL** without spread, the parent having a free frame -/
theorem sh_execCall (ha : a ≤ N) (hH : H ≤ N) (hroom : k + d + 2 < frameSize) :
    RelS (fun s t => Sh T0 bp k d H N a s t ∧ NoSpread s) (PostC T0 bp k) execCall execCall := by
  rw [execCall_eq]
  refine RelS.bindV sh_callOperands ?_
  rintro ⟨n, fl⟩ _ ⟨h1, h2⟩
  subst h1
  simp only at h2
  subst h2
  dsimp only
  refine RelS.bindV sh_getSp ?_
  intro sp sp' hsp
  obtain ⟨hsp1, hsp2⟩ := hsp
  subst hsp1; subst hsp2
  refine RelS.bindV (sh_stackGet_nn _ _ (by omega) (by omega)) ?_
  intro callee _ hc
  obtain ⟨hc1, hc2⟩ := hc
  subst hc1
  refine RelS.bind (sh_callAny callee n (by omega) (by omega) ha hH hroom) ?_
  intro x y
  exact sh_callEnd x y

theorem execCallName_eq : execCallName = (callOperands >>= fun p => do
    let numArgs : Int := p.1
    let flags : Int := p.2
    let sp ← getSp
    let obj ← stackGet (sp - numArgs - 2)
    let name ← stackGet (sp - 1)
    setSp (sp - 1); stackSet (sp - 1) .nil
    match obj with
    | .host _ => unsupported "CallName on a host object"
    | _ => pure ()
    match (← vIndexGet obj name) with
    | .error e => failWith e
    | .ok v =>
      stackSet ((← getSp) - numArgs - 1) v
      match (← callAny v numArgs flags) with
      | .ok () => return .next
      | .error e => failWith e) := by
  unfold execCallName callOperands
  simp only [bind_assoc, pure_bind]
  rfl

/-- **CALLNAME** without spread, the parent having a free frame -/
theorem sh_execCallName (ha : a ≤ N) (hH : H ≤ N) (hroom : k + d + 2 < frameSize) :
    RelS (fun s t => Sh T0 bp k d H N a s t ∧ NoSpread s) (PostC T0 bp k) execCallName execCallName := by
  rw [execCallName_eq]
  refine RelS.bindV sh_callOperands ?_
  rintro ⟨n, fl⟩ _ ⟨h1, h2⟩
  subst h1
  simp only at h2
  subst h2
  dsimp only
  refine RelS.bindV sh_getSp ?_
  intro sp sp' hsp
  obtain ⟨hsp1, hsp2⟩ := hsp
  subst hsp1; subst hsp2
  refine RelS.bindV (sh_stackGet_nn _ _ (by omega) (by omega)) ?_
  intro obj _ hc
  obtain ⟨hc1, hc2⟩ := hc
  subst hc1
  refine RelS.bindV (sh_stackGet _ _ (by omega) (by omega)) ?_
  intro x__ _ hnm
  subst hnm
  sh1; sh1
  have rest : ∀ (N1 : Nat), N ≤ N1 → RelS (Sh T0 bp k d H N1 (a - 1)) (PostC T0 bp k)
      (do
        let r ← vIndexGet obj x__
        match r with
        | .error e => failWith e
        | .ok v => do
          stackSet ((← getSp) - (n : Int) - 1) v
          match (← callAny v n ((0 : Nat) : Int)) with
          | .ok () => pure Ctl.next
          | .error e => failWith e)
      (do
        let r ← vIndexGet obj x__
        match r with
        | .error e => failWith e
        | .ok v => do
          stackSet ((← getSp) - (n : Int) - 1) v
          match (← callAny v n ((0 : Nat) : Int)) with
          | .ok () => pure Ctl.next
          | .error e => failWith e) := by
    intro N1 hN1
    sh1
    split
    · sh1
    · sh1; sh1
      refine RelS.bind (sh_callAny _ n (by omega) (by omega) (by omega) (by omega) hroom) ?_
      intro x y
      exact sh_callEnd x y
  split
  · exact RelS.errL_bind' _ _
  · exact rest _ (by omega)

end
end UgoVerif.Proofs.Shift
