import UgoVerif.Proofs.ShiftRet
import UgoVerif.Proofs.ShiftOps
/-
  C14, `frame_shift`: one `step` for EVERY opcode under the offset relation, and its iteration over a run of
  the invoked function up to the instruction that ends it (`invoke_eq_call_partial`).
-/
set_option linter.unusedSimpArgs false
set_option linter.unusedVariables false
set_option maxHeartbeats 1600000
namespace UgoVerif.Proofs.Shift
open UgoVerif UgoVerif.Go UgoVerif.VM

/-- after one instruction: `PostC` (both continue related / the error leaves the function / same Go error), or
    the invoked function itself returned (`RetQ`: the child's loop ends without error, the parent is back in
    the caller's frame with the same value in the call's slot) -/
def PostG (T0 : State) (bp k : Nat) (r r' : Ctl) (s t : State) : Prop := PostC T0 bp k r r' s t ∨ RetQ T0 bp k r r' s t

/-- an opcode number outside opcodes.go: `unknown opcode` on both sides -/
theorem dispatch_unknown (F : FloatOps) (op : Nat) (h : 44 ≤ op) : dispatch F op = execUnknown op := by
  have hne : ∀ c, c < 44 → (op == c) = false := fun c hc => by rw [beq_eq_false_iff_ne]; omega
  unfold dispatch
  simp only [OpNoOp, OpConstant, OpCall, OpGetGlobal, OpSetGlobal, OpGetLocal, OpSetLocal, OpGetBuiltin, OpBinaryOp, OpUnary, OpEqual, OpNotEqual, OpJump, OpJumpFalsy, OpAndJump, OpOrJump, OpMap, OpArray, OpSliceIndex, OpGetIndex, OpSetIndex, OpNull, OpPop, OpGetFree, OpSetFree, OpGetLocalPtr, OpGetFreePtr, OpClosure, OpIterInit, OpIterNext, OpIterKey, OpIterValue, OpLoadModule, OpStoreModule, OpSetupTry, OpSetupCatch, OpSetupFinally, OpThrow, OpFinalizer, OpReturn, OpDefineLocal, OpTrue, OpFalse, OpCallName]
  simp only [hne 0 (by decide), hne 1 (by decide), hne 2 (by decide), hne 3 (by decide), hne 4 (by decide), hne 5 (by decide), hne 6 (by decide), hne 7 (by decide), hne 8 (by decide), hne 9 (by decide), hne 10 (by decide), hne 11 (by decide), hne 12 (by decide), hne 13 (by decide), hne 14 (by decide), hne 15 (by decide), hne 16 (by decide), hne 17 (by decide), hne 18 (by decide), hne 19 (by decide), hne 20 (by decide), hne 21 (by decide), hne 22 (by decide), hne 23 (by decide), hne 24 (by decide), hne 25 (by decide), hne 26 (by decide), hne 27 (by decide), hne 28 (by decide), hne 29 (by decide), hne 30 (by decide), hne 31 (by decide), hne 32 (by decide), hne 33 (by decide), hne 34 (by decide), hne 35 (by decide), hne 36 (by decide), hne 37 (by decide), hne 38 (by decide), hne 39 (by decide), hne 40 (by decide), hne 41 (by decide), hne 42 (by decide), hne 43 (by decide), Bool.false_eq_true, if_false, Bool.or_self]

section
variable {T0 : State} {bp k d H N : Nat} {a : Int}

theorem sh_execUnknown (op : Nat) : RelS (Sh T0 bp k d H N a) (PostG T0 bp k) (execUnknown op) (execUnknown op) := by
  intro s t h r s' r' t' h1 h2
  simp only [execUnknown, exec_bind, exec_modS, exec_pure, Prod.mk.injEq, Except.ok.injEq] at h1 h2
  obtain ⟨rfl, rfl⟩ := h1
  obtain ⟨rfl, rfl⟩ := h2
  exact Or.inl (Or.inr (Or.inr ⟨rfl, rfl, ⟨_, rfl, rfl⟩, h.heap, h.globals, h.modules⟩))

/-- the opcodes whose operand `flags` must be 0 and which need a free frame in the parent -/
def callOps : List Nat := [OpCall, OpCallName]

/-- **every opcode.**  (`hk`, `hbp`: the parent has a caller frame and the callee value below the frame — as
    after `xOpCallCompiled`.) -/
theorem sh_dispatch_all (F : FloatOps) (op : Nat) (ha : a ≤ N) (hH : H ≤ N) (hk : 1 ≤ k) (hbp : 1 ≤ bp) :
    RelS (fun s t => Sh T0 bp k d H N a s t ∧ (op ∈ localReadOps → OpLt s) ∧ (op = OpMap → OpEven s) ∧
        (op ∈ callOps → NoSpread s ∧ k + d + 2 < frameSize)) (PostG T0 bp k) (dispatch F op) (dispatch F op) := by
  have weak : ∀ {m : M Ctl}, RelS (Sh T0 bp k d H N a) (PostC T0 bp k) m m →
      RelS (fun s t => Sh T0 bp k d H N a s t ∧ (op ∈ localReadOps → OpLt s) ∧ (op = OpMap → OpEven s) ∧
        (op ∈ callOps → NoSpread s ∧ k + d + 2 < frameSize)) (PostG T0 bp k) m m :=
    fun h => h.conseq (fun _ _ h => h.1) (fun _ _ _ _ h => Or.inl h)
  by_cases hcov : op ∈ coveredOps
  · exact (sh_dispatch F op hcov ha hH).conseq (fun _ _ h => ⟨h.1, h.2.1, h.2.2.1⟩) (fun _ _ _ _ h => Or.inl h)
  · by_cases h44 : 44 ≤ op
    · rw [dispatch_unknown F op h44]
      exact (sh_execUnknown op).conseq (fun _ _ h => h.1) (fun _ _ _ _ h => h)
    · have hlt : op < 44 := by omega
      have hcases : op = OpCall ∨ op = OpCallName ∨ op = OpReturn ∨ op = OpSetupTry ∨ op = OpSetupCatch ∨
          op = OpSetupFinally ∨ op = OpThrow ∨ op = OpFinalizer := by
        simp only [coveredOps, List.mem_cons, List.not_mem_nil, or_false, not_or] at hcov
        simp only [OpNoOp, OpConstant, OpCall, OpGetGlobal, OpSetGlobal, OpGetLocal, OpSetLocal, OpGetBuiltin, OpBinaryOp, OpUnary, OpEqual, OpNotEqual, OpJump, OpJumpFalsy, OpAndJump, OpOrJump, OpMap, OpArray, OpSliceIndex, OpGetIndex, OpSetIndex, OpNull, OpPop, OpGetFree, OpSetFree, OpGetLocalPtr, OpGetFreePtr, OpClosure, OpIterInit, OpIterNext, OpIterKey, OpIterValue, OpLoadModule, OpStoreModule, OpSetupTry, OpSetupCatch, OpSetupFinally, OpThrow, OpFinalizer, OpReturn, OpDefineLocal, OpTrue, OpFalse, OpCallName] at hcov ⊢
        omega
      rcases hcases with h | h | h | h | h | h | h | h <;> subst h
      · intro s t hpre
        obtain ⟨hsh, _, _, hc⟩ := hpre
        obtain ⟨hns, hroom⟩ := hc (by simp [callOps])
        exact ((sh_execCall ha hH hroom).conseq (fun _ _ h => h) (fun _ _ _ _ h => Or.inl h)) s t ⟨hsh, hns⟩
      · intro s t hpre
        obtain ⟨hsh, _, _, hc⟩ := hpre
        obtain ⟨hns, hroom⟩ := hc (by simp [callOps])
        exact ((sh_execCallName ha hH hroom).conseq (fun _ _ h => h) (fun _ _ _ _ h => Or.inl h)) s t ⟨hsh, hns⟩
      · cases d with
        | zero => exact (sh_execReturn ha hk hbp).conseq (fun _ _ h => h.1) (fun _ _ _ _ h => Or.inr h)
        | succ d' => exact weak (sh_execReturnUp ha hH)
      · exact weak (sh_execSetupTry ha hH)
      · exact weak (sh_execSetupCatch ha hH)
      · exact weak (sh_execSetupFinally ha hH)
      · exact weak (sh_execThrow ha hH)
      · exact weak (sh_execFinalizer ha hH)

/-! ### `step` -/

theorem NoSpread_noteTrace (op : Nat) (s s' : State) (r : Unit) (h : NoSpread s) (e : exec (noteTrace op) s = (.ok r, s')) :
    NoSpread s' := by
  have : ∃ tr st, exec (noteTrace op) s = (.ok (), { s with trace := tr, steps := st }) := by
    unfold noteTrace
    simp only [exec_bind, exec_getS]
    split
    · exact ⟨_, _, rfl⟩
    · exact ⟨_, _, rfl⟩
  obtain ⟨tr, st, e'⟩ := this
  rw [e'] at e
  simp only [Prod.mk.injEq, Except.ok.injEq] at e
  obtain ⟨_, rfl⟩ := e
  intro p s'' e1
  have hf : Foot callOperands := by unfold callOperands; foot
  have d := hf.dep { s with trace := tr, steps := st } s rfl
  rw [e1] at d
  rcases e2 : exec callOperands s with ⟨r2, s2⟩
  rw [e2] at d
  simp only at d
  exact h p s2 (by rw [e2, ← d.1])

/-- what is asked of the instruction the child is about to execute: a GETLOCAL / SETLOCAL / GETLOCALPTR reads
    a slot below the stack pointer; the operand of MAP is even; CALL / CALLNAME have no spread argument.
    (Nothing is asked of the opcode itself: all 44 opcodes and unknown ones are covered.) -/
def StepOk (s : State) : Prop :=
  ∀ op s1, exec fetchOp s = (.ok op, s1) →
    (op ∈ localReadOps → OpLt s1) ∧ (op = OpMap → OpEven s1) ∧ (op ∈ callOps → NoSpread s1)

/-- the resource hypothesis on the PARENT: when the instruction is a call, the parent has a free frame.
    (Without it the parent's `xOpCallCompiled` answers StackOverflowError where the child, whose frame stack
    starts at the invoked function, still has room: a legitimate difference at the frame limit.) -/
def CallRoom (s t : State) : Prop :=
  ∀ op s1, exec fetchOp s = (.ok op, s1) → op ∈ callOps → t.frameIndex + 1 < (frameSize : Int)

/-- **frame_shift.**  One instruction — ANY opcode — of the child (the invoked function's frame is its frame 0)
    and of the parent (the function's frame is frame `k`, `bp` slots up), both `d` frames above the function's
    frame, from `ShB`-related states: if both `step`s end normally then `PostG`. -/
theorem frame_shift (F : FloatOps) (hk : 1 ≤ k) (hbp : 1 ≤ bp) :
    RelS (fun s t => ShB T0 bp k d s t ∧ StepOk s ∧ CallRoom s t) (PostG T0 bp k) (step F) (step F) := by
  intro s t ⟨⟨H, N, a, h, ha, hH⟩, hok, hcr⟩ r s' r' t' h1 h2
  rw [step_eq, exec_bind] at h1 h2
  rcases e1 : exec fetchOp s with ⟨r1, s1⟩
  rcases e2 : exec fetchOp t with ⟨r2, t1⟩
  rw [e1] at h1
  rw [e2] at h2
  cases r1 with
  | error e => simp at h1
  | ok op =>
    cases r2 with
    | error e => simp at h2
    | ok op' =>
      simp only at h1 h2
      obtain ⟨hop, hs1⟩ := sh_fetchOp s t h op s1 op' t1 e1 e2
      subst hop
      obtain ⟨hloc, hev, hns⟩ := hok op s1 e1
      rw [exec_bind] at h1 h2
      rcases e3 : exec (noteTrace op) s1 with ⟨r3, s2⟩
      rcases e4 : exec (noteTrace op) t1 with ⟨r4, t2⟩
      rw [e3] at h1
      rw [e4] at h2
      cases r3 with
      | error e => simp at h1
      | ok u =>
        cases r4 with
        | error e => simp at h2
        | ok u' =>
          simp only at h1 h2
          have hs2 := (sh_noteTrace op s1 t1 hs1 u s2 u' t2 e3 e4).2
          refine sh_dispatch_all F op ha hH hk hbp s2 t2 ⟨hs2, fun hl => OpLt_noteTrace op s1 s2 u (hloc hl) e3,
            fun hm => OpEven_noteTrace op s1 s2 u (hev hm) e3, fun hc => ⟨NoSpread_noteTrace op s1 s2 u (hns hc) e3, ?_⟩⟩
            r s' r' t' h1 h2
          have := hcr op s1 e1 hc
          have hft := h.fiT
          simp only [frameSize] at this ⊢
          omega

end

/-! ### runs -/

/-- `n` iterations of the loop body (no abort check): `none` = a Go panic / outside the model -/
def runSteps (F : FloatOps) : Nat → State → Option (Ctl × State)
  | 0, s => some (.next, s)
  | n+1, s =>
    match exec (step F) s with
    | (.ok .next, s') => runSteps F n s'
    | (.ok .ret, s') => some (.ret, s')
    | (.error _, _) => none

/-- every instruction the two VMs meet during their next `n` lock-steps satisfies `StepOk` / `CallRoom` -/
def OkRun (F : FloatOps) : Nat → State → State → Prop
  | 0, _, _ => True
  | n+1, s, t => StepOk s ∧ CallRoom s t ∧
      ∀ s' t', exec (step F) s = (.ok .next, s') → exec (step F) t = (.ok .next, t') → OkRun F n s' t'

section
variable {T0 : State} {bp k : Nat}

/-- the running phase: while the child's loop goes on, so does the parent's, in related states -/
theorem steps_shift (F : FloatOps) (hk : 1 ≤ k) (hbp : 1 ≤ bp) (m j : Nat) : ∀ s t, (∃ d, ShB T0 bp k d s t) → OkRun F (m + j) s t →
    ∀ s0, runSteps F m s = some (.next, s0) → ∀ r0 t0, runSteps F m t = some (r0, t0) →
      r0 = .next ∧ (∃ d, ShB T0 bp k d s0 t0) ∧ OkRun F j s0 t0 := by
  induction m with
  | zero =>
    intro s t h hok s0 h1 r0 t0 h2
    simp only [runSteps, Option.some.injEq, Prod.mk.injEq] at h1 h2
    obtain ⟨_, rfl⟩ := h1
    obtain ⟨rfl, rfl⟩ := h2
    exact ⟨rfl, h, by simpa using hok⟩
  | succ m ih =>
    intro s t h hok s0 h1 r0 t0 h2
    have e : m + 1 + j = (m + j) + 1 := by omega
    rw [e] at hok
    obtain ⟨hso, hcr, hnext⟩ := hok
    obtain ⟨d, hd⟩ := h
    simp only [runSteps] at h1 h2
    rcases e1 : exec (step F) s with ⟨r1, s1⟩
    rcases e2 : exec (step F) t with ⟨r2, t1⟩
    rw [e1] at h1
    rw [e2] at h2
    cases r1 with
    | error x => simp at h1
    | ok c1 =>
      cases r2 with
      | error x => simp at h2
      | ok c2 =>
        cases c1 with
        | ret => simp at h1
        | next =>
          have hp := frame_shift F hk hbp s t ⟨hd, hso, hcr⟩ .next s1 c2 t1 e1 e2
          rcases hp with (⟨_, rfl, hsh⟩ | ⟨hr, _⟩ | ⟨hr, _⟩) | ⟨hr, _⟩
          · simp only at h1 h2
            exact ih s1 t1 hsh (hnext s1 t1 e1 e2) s0 h1 r0 t0 h2
          · cases hr
          · cases hr
          · cases hr

/-- the child's run that ends: the step at which it ends -/
theorem runSteps_ret_split (F : FloatOps) (n : Nat) : ∀ s s', runSteps F n s = some (.ret, s') →
    ∃ m s0, m < n ∧ runSteps F m s = some (.next, s0) ∧ exec (step F) s0 = (.ok .ret, s') := by
  induction n with
  | zero => intro s s' h; simp [runSteps] at h
  | succ n ih =>
    intro s s' h
    simp only [runSteps] at h
    rcases e1 : exec (step F) s with ⟨r1, s1⟩
    rw [e1] at h
    cases r1 with
    | error x => simp at h
    | ok c1 =>
      cases c1 with
      | ret =>
        simp only [Option.some.injEq, Prod.mk.injEq] at h
        obtain ⟨_, rfl⟩ := h
        exact ⟨0, s, by omega, rfl, e1⟩
      | next =>
        simp only at h
        obtain ⟨m, s0, hm, h1, h2⟩ := ih s1 s' h
        refine ⟨m + 1, s0, by omega, ?_, h2⟩
        simp only [runSteps, e1]
        exact h1

/-- how the invoked function ends (the child's loop returned, `r'` / `t'` are the parent's control result and
    state after the same instruction): it RETURNed (`RetQ`); or an error `e` left its frame (`EscQ`); or both
    loops stopped with the same Go error -/
def EndQ (T0 : State) (bp k : Nat) (r' : Ctl) (s' t' : State) : Prop :=
  RetQ T0 bp k .ret r' s' t' ∨ (∃ e, s'.err = some (.rt e) ∧ EscQ T0 bp k e r' s' t') ∨
  (r' = .ret ∧ (∃ m, s'.err = some (.goerr m) ∧ t'.err = some (.goerr m)) ∧
    s'.heap = t'.heap ∧ s'.globals = t'.globals ∧ s'.modules = t'.modules)

/-- **invoke_eq_call_partial.**  From related states at the entry of the function (`prologue_eq_callbind`), for every
    number of instructions `n`: if the child's loop ends within `n` instructions — at its instruction number
    `m + 1` — then, provided the parent did not panic / leave the model before, the parent is still running
    after `m` instructions and its instruction number `m + 1` ends as `EndQ` says. -/
theorem invoke_eq_call_partial (F : FloatOps) (hk : 1 ≤ k) (hbp : 1 ≤ bp) (n : Nat) (s t : State) (h : ∃ d, ShB T0 bp k d s t)
    (hok : OkRun F n s t) (s' : State) (hs : runSteps F n s = some (.ret, s')) :
    ∃ m s0, m < n ∧ runSteps F m s = some (.next, s0) ∧ exec (step F) s0 = (.ok .ret, s') ∧
      ∀ r0 t0, runSteps F m t = some (r0, t0) → r0 = .next ∧
        ∀ r' t', exec (step F) t0 = (.ok r', t') → EndQ T0 bp k r' s' t' := by
  obtain ⟨m, s0, hm, h1, h2⟩ := runSteps_ret_split F n s s' hs
  refine ⟨m, s0, hm, h1, h2, ?_⟩
  intro r0 t0 h3
  have e : n = m + (n - m) := by omega
  rw [e] at hok
  obtain ⟨hr0, ⟨d, hd⟩, hok'⟩ := steps_shift F hk hbp m (n - m) s t h hok s0 h1 r0 t0 h3
  refine ⟨hr0, ?_⟩
  intro r' t' h4
  have e' : n - m = (n - m - 1) + 1 := by omega
  rw [e'] at hok'
  obtain ⟨hso, hcr, _⟩ := hok'
  have hp := frame_shift F hk hbp s0 t0 ⟨hd, hso, hcr⟩ .ret s' r' t' h2 h4
  rcases hp with (⟨hr, _⟩ | ⟨_, hq⟩ | ⟨_, hq⟩) | hq
  · cases hr
  · exact Or.inr (Or.inl hq)
  · exact Or.inr (Or.inr hq)
  · exact Or.inl hq

end
end UgoVerif.Proofs.Shift
