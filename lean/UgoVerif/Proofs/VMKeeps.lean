import UgoVerif.Proofs.VMInv
import UgoVerif.VM.Copy
/-
  C06 helper layer 2: the helpers of the VM model that never touch the control part
  (frames, sp, curFrame, frameIndex, err, …) — `Keeps` lemmas proved with `mvcgen`,
  and the derived `@[spec]` triples used when verifying the opcodes.
-/
set_option linter.unusedSimpArgs false
set_option linter.unusedVariables false
set_option mvcgen.warning false
namespace UgoVerif.Proofs.VM
open UgoVerif UgoVerif.Go UgoVerif.VM Std.Do

/-- closes the verification conditions of `Keeps` proofs -/
macro "vm_same" : tactic => `(tactic| (simp_all +zetaDelta [cp]))

/-- start a `Keeps` proof -/
macro "keeps_start" : tactic => `(tactic| (apply keeps_of_triple; intro c0))

theorem keeps_stackGet (i : Int) : Keeps (stackGet i) := by
  keeps_start; mvcgen [stackGet, getS, UgoVerif.VM.panic]; all_goals vm_same
theorem keeps_stackSet (i : Int) (v : V) : Keeps (stackSet i v) := by
  keeps_start; mvcgen [stackSet, modS, UgoVerif.VM.panic]; all_goals vm_same
theorem keeps_heapGet (a : Addr) : Keeps (heapGet a) := by
  keeps_start; mvcgen [heapGet, getS, unsupported]; all_goals vm_same
theorem keeps_heapSet (a : Addr) (c : Cell) : Keeps (heapSet a c) := by
  keeps_start; mvcgen [heapSet, modS]; all_goals vm_same
theorem keeps_alloc (c : Cell) : Keeps (alloc c) := by
  keeps_start; mvcgen [alloc, getS]; all_goals vm_same

@[spec] theorem heapGet_spec (a : Addr) (c0 : CP) :
    ⦃fun s => ⌜c0 = cp s⌝⦄ heapGet a ⦃post⟨fun _ s => ⌜cp s = c0⌝, fun _ s => ⌜cp s = c0⌝⟩⦄ := (keeps_heapGet a).spec c0
@[spec] theorem heapSet_spec (a : Addr) (c : Cell) (c0 : CP) :
    ⦃fun s => ⌜c0 = cp s⌝⦄ heapSet a c ⦃post⟨fun _ s => ⌜cp s = c0⌝, fun _ s => ⌜cp s = c0⌝⟩⦄ := (keeps_heapSet a c).spec c0
theorem keeps_heapUpd (a : Addr) (c : Cell) : Keeps (heapUpd a c) := by
  keeps_start; mvcgen [heapUpd, unsupported]; all_goals vm_same
@[spec] theorem heapUpd_spec (a : Addr) (c : Cell) (c0 : CP) :
    ⦃fun s => ⌜c0 = cp s⌝⦄ heapUpd a c ⦃post⟨fun _ s => ⌜cp s = c0⌝, fun _ s => ⌜cp s = c0⌝⟩⦄ := (keeps_heapUpd a c).spec c0
theorem keeps_boxSet (a : Addr) (v : V) : Keeps (boxSet a v) := by
  keeps_start; mvcgen [boxSet, unsupported]; all_goals vm_same
@[spec] theorem boxSet_spec (a : Addr) (v : V) (c0 : CP) :
    ⦃fun s => ⌜c0 = cp s⌝⦄ boxSet a v ⦃post⟨fun _ s => ⌜cp s = c0⌝, fun _ s => ⌜cp s = c0⌝⟩⦄ := (keeps_boxSet a v).spec c0
/-- `alloc` keeps the control part and raises nothing -/
@[spec] theorem alloc_spec (c : Cell) (c0 : CP) :
    ⦃fun s => ⌜c0 = cp s⌝⦄ alloc c ⦃post⟨fun _ s => ⌜cp s = c0⌝, fun _ _ => ⌜False⌝⟩⦄ := by
  mvcgen [alloc, getS]; all_goals vm_same

theorem keeps_curCode : Keeps curCode := by
  keeps_start; mvcgen [curCode, curFrame, getS, UgoVerif.VM.panic, unsupported]; all_goals vm_same
@[spec] theorem curCode_spec (c0 : CP) :
    ⦃fun s => ⌜c0 = cp s⌝⦄ curCode ⦃post⟨fun _ s => ⌜cp s = c0⌝, fun _ s => ⌜cp s = c0⌝⟩⦄ := keeps_curCode.spec c0

theorem keeps_instAt (i : Int) : Keeps (instAt i) := by
  keeps_start; mvcgen [instAt, UgoVerif.VM.panic]; all_goals vm_same
@[spec] theorem instAt_spec (i : Int) (c0 : CP) :
    ⦃fun s => ⌜c0 = cp s⌝⦄ instAt i ⦃post⟨fun _ s => ⌜cp s = c0⌝, fun _ s => ⌜cp s = c0⌝⟩⦄ := (keeps_instAt i).spec c0

theorem keeps_opnd1 (k : Int) : Keeps (opnd1 k) := by
  keeps_start; mvcgen [opnd1, getIp, getS]; all_goals vm_same
theorem keeps_opnd2 (k : Int) : Keeps (opnd2 k) := by
  keeps_start; mvcgen [opnd2, getIp, getS]; all_goals vm_same
theorem keeps_opnd4 (k : Int) : Keeps (opnd4 k) := by
  keeps_start; mvcgen [opnd4, getIp, getS]; all_goals vm_same
@[spec] theorem opnd1_spec (k : Int) (c0 : CP) :
    ⦃fun s => ⌜c0 = cp s⌝⦄ opnd1 k ⦃post⟨fun _ s => ⌜cp s = c0⌝, fun _ s => ⌜cp s = c0⌝⟩⦄ := (keeps_opnd1 k).spec c0
@[spec] theorem opnd2_spec (k : Int) (c0 : CP) :
    ⦃fun s => ⌜c0 = cp s⌝⦄ opnd2 k ⦃post⟨fun _ s => ⌜cp s = c0⌝, fun _ s => ⌜cp s = c0⌝⟩⦄ := (keeps_opnd2 k).spec c0
@[spec] theorem opnd4_spec (k : Int) (c0 : CP) :
    ⦃fun s => ⌜c0 = cp s⌝⦄ opnd4 k ⦃post⟨fun _ s => ⌜cp s = c0⌝, fun _ s => ⌜cp s = c0⌝⟩⦄ := (keeps_opnd4 k).spec c0

theorem keeps_jumpTarget : Keeps jumpTarget := by
  keeps_start; mvcgen [jumpTarget]; all_goals vm_same
@[spec] theorem jumpTarget_spec (c0 : CP) :
    ⦃fun s => ⌜c0 = cp s⌝⦄ jumpTarget ⦃post⟨fun _ s => ⌜cp s = c0⌝, fun _ s => ⌜cp s = c0⌝⟩⦄ := keeps_jumpTarget.spec c0

theorem keeps_constAt (i : Nat) : Keeps (constAt i) := by
  keeps_start; mvcgen [constAt, getS, UgoVerif.VM.panic]; all_goals vm_same
@[spec] theorem constAt_spec (i : Nat) (c0 : CP) :
    ⦃fun s => ⌜c0 = cp s⌝⦄ constAt i ⦃post⟨fun _ s => ⌜cp s = c0⌝, fun _ s => ⌜cp s = c0⌝⟩⦄ := (keeps_constAt i).spec c0

theorem keeps_arrElems (a : Addr) (o l : Nat) : Keeps (arrElems a o l) := by
  keeps_start; mvcgen [arrElems, unsupported]; all_goals vm_same
@[spec] theorem arrElems_spec (a : Addr) (o l : Nat) (c0 : CP) :
    ⦃fun s => ⌜c0 = cp s⌝⦄ arrElems a o l ⦃post⟨fun _ s => ⌜cp s = c0⌝, fun _ s => ⌜cp s = c0⌝⟩⦄ := (keeps_arrElems a o l).spec c0

theorem keeps_mapEntries (a : Addr) : Keeps (mapEntries a) := by
  keeps_start; mvcgen [mapEntries, unsupported]; all_goals vm_same
@[spec] theorem mapEntries_spec (a : Addr) (c0 : CP) :
    ⦃fun s => ⌜c0 = cp s⌝⦄ mapEntries a ⦃post⟨fun _ s => ⌜cp s = c0⌝, fun _ s => ⌜cp s = c0⌝⟩⦄ := (keeps_mapEntries a).spec c0

theorem keeps_vString (v : V) : Keeps (vString v) := by
  keeps_start; mvcgen [vString, UgoVerif.VM.panic, unsupported]; all_goals vm_same
@[spec] theorem vString_spec (v : V) (c0 : CP) :
    ⦃fun s => ⌜c0 = cp s⌝⦄ vString v ⦃post⟨fun _ s => ⌜cp s = c0⌝, fun _ s => ⌜cp s = c0⌝⟩⦄ := (keeps_vString v).spec c0

theorem keeps_isFalsy (v : V) : Keeps (isFalsy v) := by
  keeps_start; mvcgen [isFalsy, UgoVerif.VM.panic, unsupported]; all_goals vm_same
@[spec] theorem isFalsy_spec (v : V) (c0 : CP) :
    ⦃fun s => ⌜c0 = cp s⌝⦄ isFalsy v ⦃post⟨fun _ s => ⌜cp s = c0⌝, fun _ s => ⌜cp s = c0⌝⟩⦄ := (keeps_isFalsy v).spec c0

theorem keeps_vEqual (F : FloatOps) (l r : V) : Keeps (vEqual F l r) := by
  keeps_start; mvcgen [vEqual, getS, UgoVerif.VM.panic, unsupported]; all_goals vm_same
@[spec] theorem vEqual_spec (F : FloatOps) (l r : V) (c0 : CP) :
    ⦃fun s => ⌜c0 = cp s⌝⦄ vEqual F l r ⦃post⟨fun _ s => ⌜cp s = c0⌝, fun _ s => ⌜cp s = c0⌝⟩⦄ := (keeps_vEqual F l r).spec c0

theorem keeps_vBinaryOp (F : FloatOps) (tok : Tok) (l r : V) : Keeps (vBinaryOp F tok l r) := by
  keeps_start; mvcgen [vBinaryOp, UgoVerif.VM.panic, unsupported]; all_goals vm_same
@[spec] theorem vBinaryOp_spec (F : FloatOps) (tok : Tok) (l r : V) (c0 : CP) :
    ⦃fun s => ⌜c0 = cp s⌝⦄ vBinaryOp F tok l r ⦃post⟨fun _ s => ⌜cp s = c0⌝, fun _ s => ⌜cp s = c0⌝⟩⦄ := (keeps_vBinaryOp F tok l r).spec c0

theorem keeps_vIndexGet (t i : V) : Keeps (vIndexGet t i) := by
  keeps_start; mvcgen [vIndexGet, UgoVerif.VM.panic, unsupported]; all_goals vm_same
@[spec] theorem vIndexGet_spec (t i : V) (c0 : CP) :
    ⦃fun s => ⌜c0 = cp s⌝⦄ vIndexGet t i ⦃post⟨fun _ s => ⌜cp s = c0⌝, fun _ s => ⌜cp s = c0⌝⟩⦄ := (keeps_vIndexGet t i).spec c0

theorem keeps_vIndexSet (t i v : V) : Keeps (vIndexSet t i v) := by
  keeps_start; mvcgen [vIndexSet, UgoVerif.VM.panic, unsupported]; all_goals vm_same
@[spec] theorem vIndexSet_spec (t i v : V) (c0 : CP) :
    ⦃fun s => ⌜c0 = cp s⌝⦄ vIndexSet t i v ⦃post⟨fun _ s => ⌜cp s = c0⌝, fun _ s => ⌜cp s = c0⌝⟩⦄ := (keeps_vIndexSet t i v).spec c0

theorem keeps_mkErr (n m : String) (c : Option Addr) : Keeps (mkErr n m c) := by
  keeps_start; mvcgen [mkErr]; all_goals vm_same
@[spec] theorem mkErr_spec (n m : String) (c : Option Addr) (c0 : CP) :
    ⦃fun s => ⌜c0 = cp s⌝⦄ mkErr n m c ⦃post⟨fun _ s => ⌜cp s = c0⌝, fun _ s => ⌜cp s = c0⌝⟩⦄ := (keeps_mkErr n m c).spec c0

theorem keeps_rtErrOfOpErr (e : OpErr) : Keeps (rtErrOfOpErr e) := by
  keeps_start; mvcgen [rtErrOfOpErr]; all_goals vm_same
@[spec] theorem rtErrOfOpErr_spec (e : OpErr) (c0 : CP) :
    ⦃fun s => ⌜c0 = cp s⌝⦄ rtErrOfOpErr e ⦃post⟨fun _ s => ⌜cp s = c0⌝, fun _ s => ⌜cp s = c0⌝⟩⦄ := (keeps_rtErrOfOpErr e).spec c0

theorem keeps_fnCell (a : Addr) : Keeps (fnCell a) := by
  keeps_start; mvcgen [fnCell, getS, unsupported]; all_goals vm_same
@[spec] theorem fnCell_spec (a : Addr) (c0 : CP) :
    ⦃fun s => ⌜c0 = cp s⌝⦄ fnCell a ⦃post⟨fun _ s => ⌜cp s = c0⌝, fun _ s => ⌜cp s = c0⌝⟩⦄ := (keeps_fnCell a).spec c0

theorem keeps_newArray (xs : List V) : Keeps (newArray xs) := by
  keeps_start; mvcgen [newArray]; all_goals vm_same
@[spec] theorem newArray_spec (xs : List V) (c0 : CP) :
    ⦃fun s => ⌜c0 = cp s⌝⦄ newArray xs ⦃post⟨fun _ s => ⌜cp s = c0⌝, fun _ s => ⌜cp s = c0⌝⟩⦄ := (keeps_newArray xs).spec c0

theorem keeps_callBuiltin (i : Nat) (args : List V) : Keeps (callBuiltin i args) := by
  keeps_start; mvcgen [callBuiltin, UgoVerif.VM.panic, unsupported]; all_goals vm_same
@[spec] theorem callBuiltin_spec (i : Nat) (args : List V) (c0 : CP) :
    ⦃fun s => ⌜c0 = cp s⌝⦄ callBuiltin i args ⦃post⟨fun _ s => ⌜cp s = c0⌝, fun _ s => ⌜cp s = c0⌝⟩⦄ := (keeps_callBuiltin i args).spec c0

theorem keeps_noteTrace (op : Nat) : Keeps (noteTrace op) := by
  keeps_start; mvcgen [noteTrace, getS]; all_goals vm_same
@[spec] theorem noteTrace_spec (op : Nat) (c0 : CP) :
    ⦃fun s => ⌜c0 = cp s⌝⦄ noteTrace op ⦃post⟨fun _ s => ⌜cp s = c0⌝, fun _ s => ⌜cp s = c0⌝⟩⦄ := (keeps_noteTrace op).spec c0

/-- the stack-clearing loop `for i := hi; i >= lo; i-- { vm.stack[i] = nil }` -/
theorem keeps_clearDown (hi lo : Int) : Keeps (clearDown hi lo) := by
  apply keeps_of_triple; intro c0
  mvcgen [clearDown, stackSet, modS, UgoVerif.VM.panic]
  invariants
  · post⟨fun _ s => ⌜cp s = c0⌝, fun _ s => ⌜cp s = c0⌝⟩
  all_goals vm_same

theorem keeps_copyToStack (at_ : Int) (xs : List V) : Keeps (copyToStack at_ xs) := by
  apply keeps_of_triple; intro c0
  mvcgen [copyToStack, stackSet, modS, UgoVerif.VM.panic]
  invariants
  · post⟨fun _ s => ⌜cp s = c0⌝, fun _ s => ⌜cp s = c0⌝⟩
  all_goals vm_same
@[spec] theorem copyToStack_spec (at_ : Int) (xs : List V) (c0 : CP) :
    ⦃fun s => ⌜c0 = cp s⌝⦄ copyToStack at_ xs ⦃post⟨fun _ s => ⌜cp s = c0⌝, fun _ s => ⌜cp s = c0⌝⟩⦄ := (keeps_copyToStack at_ xs).spec c0

theorem keeps_fillUndefined (lo : Int) (n : Nat) : Keeps (fillUndefined lo n) := by
  apply keeps_of_triple; intro c0
  mvcgen [fillUndefined, stackSet, modS, UgoVerif.VM.panic]
  invariants
  · post⟨fun _ s => ⌜cp s = c0⌝, fun _ s => ⌜cp s = c0⌝⟩
  all_goals vm_same
@[spec] theorem fillUndefined_spec (lo : Int) (n : Nat) (c0 : CP) :
    ⦃fun s => ⌜c0 = cp s⌝⦄ fillUndefined lo n ⦃post⟨fun _ s => ⌜cp s = c0⌝, fun _ s => ⌜cp s = c0⌝⟩⦄ := (keeps_fillUndefined lo n).spec c0

theorem keeps_copySlots (dst : Int) (src : List V) : Keeps (copySlots dst src) := by
  apply keeps_of_triple; intro c0
  mvcgen [copySlots, stackSet, modS, UgoVerif.VM.panic]
  invariants
  · post⟨fun _ s => ⌜cp s = c0⌝, fun _ s => ⌜cp s = c0⌝⟩
  all_goals vm_same
@[spec] theorem copySlots_spec (dst : Int) (src : List V) (c0 : CP) :
    ⦃fun s => ⌜c0 = cp s⌝⦄ copySlots dst src ⦃post⟨fun _ s => ⌜cp s = c0⌝, fun _ s => ⌜cp s = c0⌝⟩⦄ := (keeps_copySlots dst src).spec c0

theorem keeps_stackSlice (lo hi : Int) : Keeps (stackSlice lo hi) := by
  keeps_start; mvcgen [stackSlice, getS, UgoVerif.VM.panic]; all_goals vm_same
theorem stackSlice_spec (lo hi : Int) (c0 : CP) :
    ⦃fun s => ⌜c0 = cp s⌝⦄ stackSlice lo hi ⦃post⟨fun _ s => ⌜cp s = c0⌝, fun _ s => ⌜cp s = c0⌝⟩⦄ := (keeps_stackSlice lo hi).spec c0

theorem keeps_bindArgs (code : Code) (bp numArgs flags : Int) : Keeps (bindArgs code bp numArgs flags) := by
  have ss := stackSlice_spec
  keeps_start
  mvcgen [bindArgs, stackGet, stackSet, getS, modS, UgoVerif.VM.panic, ss]
  all_goals vm_same
@[spec] theorem bindArgs_spec (code : Code) (bp numArgs flags : Int) (c0 : CP) :
    ⦃fun s => ⌜c0 = cp s⌝⦄ bindArgs code bp numArgs flags ⦃post⟨fun _ s => ⌜cp s = c0⌝, fun _ s => ⌜cp s = c0⌝⟩⦄ :=
  (keeps_bindArgs code bp numArgs flags).spec c0

/-- `Copier.Copy()` of OpStoreModule only allocates -/
theorem keeps_copyV (v : V) : Keeps (copyV v) := by
  keeps_start; mvcgen [copyV, getS, unsupported]; all_goals vm_same
@[spec] theorem copyV_spec (v : V) (c0 : CP) :
    ⦃fun s => ⌜c0 = cp s⌝⦄ copyV v ⦃post⟨fun _ s => ⌜cp s = c0⌝, fun _ s => ⌜cp s = c0⌝⟩⦄ := (keeps_copyV v).spec c0

/-- xOpUnary touches nothing -/
theorem keeps_vUnary (F : FloatOps) (tok : Tok) (r : V) : Keeps (vUnary F tok r) := by
  keeps_start; mvcgen [vUnary, UgoVerif.VM.panic, unsupported]; all_goals vm_same
@[spec] theorem vUnary_spec (F : FloatOps) (tok : Tok) (r : V) (c0 : CP) :
    ⦃fun s => ⌜c0 = cp s⌝⦄ vUnary F tok r ⦃post⟨fun _ s => ⌜cp s = c0⌝, fun _ s => ⌜cp s = c0⌝⟩⦄ :=
  (keeps_vUnary F tok r).spec c0

end UgoVerif.Proofs.VM
