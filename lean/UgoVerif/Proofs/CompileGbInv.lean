import UgoVerif.Proofs.CompileSat
import UgoVerif.Proofs.CompileWalk
/-
  C13 over the compiler model (`Model/Compile.lean`): the invariant "every GETBUILTIN operand in the
  instruction stream emitted so far (and in every compiled function of the constant pool) is the
  private `:makeArray` or the index of a builtin name that is NOT in the disabled set `D`", carried
  through every primitive of the compiler.

  The framework follows `Proofs/CompileInv.lean` (builder-c05) — decodable stream (`Walk`), pending
  jump positions (`Bd`/`Jumpy`), the step relation `Rel` — with two differences:
    * the judgment `Sat c` is outcome-agnostic: an error or a Go panic of the compiler is acceptable
      (C13 speaks about successful compilations), so no hypothesis on the AST is needed; on an
      abnormal end the symbol tables still satisfy their part of the invariant (`TabsInv`), which is
      what an Eval session hands to the next fragment;
    * `TargetsOK` (jump targets) is replaced by `GbOK` (GETBUILTIN operands), `SymOK` speaks about
      BUILTIN-scope symbols, and the root table's disabled set contains `D` (`DisOK`).
-/
namespace UgoVerif.Compile.GB
open UgoVerif UgoVerif.Go UgoVerif.Ast UgoVerif.Compile

/-- the builtin table of the compilation and the names that must stay unreachable -/
structure Ctx where
  bs : List (String × Nat)
  D : List String

/-- `i` is the index of a builtin name that is not disabled -/
def OkIdx (c : Ctx) (i : Nat) : Prop := ∃ n, (n, i) ∈ c.bs ∧ n ∉ c.D

/-- an acceptable GETBUILTIN operand: the private `:makeArray` of destructuring, or `OkIdx` -/
def OpOK (c : Ctx) (i : Nat) : Prop := i = Gen.builtinMakeArray ∨ OkIdx c i

/-! ### symbol tables -/

/-- a BUILTIN-scope symbol (only `Resolve` makes them) carries the index of a non-disabled builtin -/
def SymOK (c : Ctx) (y : Symbol) : Prop := y.scope = .builtin → ∃ i : Nat, y.index = (i : Int) ∧ OkIdx c i
def StoreOK (c : Ctx) (st : List (String × Symbol)) : Prop := ∀ p ∈ st, SymOK c p.2
def TablesOK (c : Ctx) (ts : List Table) : Prop := ∀ t ∈ ts, StoreOK c t.store
/-- the root table's disabled set contains `D` -/
def DisOK (c : Ctx) (ts : List Table) : Prop := ∀ n ∈ c.D, n ∈ rootDisabled ts

variable {c : Ctx}

theorem symOK_of_ne {y : Symbol} (h : y.scope ≠ .builtin) : SymOK c y := fun hb => absurd hb h

theorem lookupSym_ok {n : String} {y : Symbol} : ∀ {st : List (String × Symbol)}, StoreOK c st → lookupSym n st = some y → SymOK c y
  | [], _, h => by simp [lookupSym] at h
  | (k, v) :: r, hs, h => by
    simp only [lookupSym] at h
    split at h
    · injection h with h; subst h; exact hs (k, v) (by simp)
    · exact lookupSym_ok (fun p hp => hs p (by simp [hp])) h

theorem putSym_ok {n : String} {y : Symbol} (hy : SymOK c y) : ∀ {st : List (String × Symbol)}, StoreOK c st → StoreOK c (putSym n y st)
  | [], _ => by intro p hp; simp [putSym] at hp; subst hp; exact hy
  | (k, v) :: r, hs => by
    simp only [putSym]
    split
    · intro p hp
      simp at hp
      rcases hp with hp | hp
      · subst hp; exact hy
      · exact hs p (by simp [hp])
    · intro p hp
      simp at hp
      rcases hp with hp | hp
      · subst hp; exact hs (k, v) (by simp)
      · exact putSym_ok hy (fun p hp => hs p (by simp [hp])) p hp

@[simp] theorem shadowBuiltin_store (bs : List (String × Nat)) (n : String) (t : Table) :
    (shadowBuiltin bs n t).store = t.store := by
  unfold shadowBuiltin; split <;> rfl

@[simp] theorem shadowBuiltin_disabled (bs : List (String × Nat)) (n : String) (t : Table) :
    (shadowBuiltin bs n t).disabled = t.disabled := by
  unfold shadowBuiltin; split <;> rfl

theorem rootDisabled_cons_ne {t : Table} {r : List Table} (h : r ≠ []) : rootDisabled (t :: r) = rootDisabled r := by
  cases r with
  | nil => exact absurd rfl h
  | cons t2 r2 => rfl

theorem rootDisabled_head {t t' : Table} (r : List Table) (h : t'.disabled = t.disabled) :
    rootDisabled (t' :: r) = rootDisabled (t :: r) := by
  cases r with
  | nil => exact h
  | cons t2 r2 => rfl

theorem ne_nil_of_length_eq {α β} {a : List α} {b : List β} (h : a.length = b.length) (hb : b ≠ []) : a ≠ [] := by
  intro h0; rw [h0] at h; exact hb (List.length_eq_zero_iff.mp h.symm)

theorem updateMaxDefs_length (n : Nat) : ∀ ts : List Table, (updateMaxDefs n ts).length = ts.length
  | [] => rfl
  | t :: r => by
    simp only [updateMaxDefs]
    split <;> simp [updateMaxDefs_length n r]

theorem updateMaxDefs_dis (n : Nat) : ∀ ts : List Table, rootDisabled (updateMaxDefs n ts) = rootDisabled ts
  | [] => rfl
  | t :: r => by
    have h1 : (if n > t.maxDefinition then { t with maxDefinition := n } else t).disabled = t.disabled := by
      split <;> rfl
    simp only [updateMaxDefs]
    split
    · cases r with
      | nil => simp only [updateMaxDefs]; exact h1
      | cons t2 r2 =>
        have hne : updateMaxDefs n (t2 :: r2) ≠ [] :=
          ne_nil_of_length_eq (updateMaxDefs_length n (t2 :: r2)) (by simp)
        rw [rootDisabled_cons_ne hne, updateMaxDefs_dis n (t2 :: r2)]
        rfl
    · exact rootDisabled_head r h1

theorem updateMaxDefs_ok (n : Nat) : ∀ {ts : List Table}, TablesOK c ts → TablesOK c (updateMaxDefs n ts)
  | [], _ => by intro t ht; simp [updateMaxDefs] at ht
  | t :: r, h => by
    have ht : StoreOK c t.store := h t (by simp)
    have hr : TablesOK c r := fun t' ht' => h t' (by simp [ht'])
    have h1 : StoreOK c (if n > t.maxDefinition then { t with maxDefinition := n } else t).store := by
      split <;> exact ht
    simp only [updateMaxDefs]
    split
    · intro t' ht'
      simp at ht'
      rcases ht' with ht' | ht'
      · subst ht'; exact h1
      · exact updateMaxDefs_ok n hr t' ht'
    · intro t' ht'
      simp at ht'
      rcases ht' with ht' | ht'
      · subst ht'; exact h1
      · exact hr t' ht'

/-- `Resolve`: the tables stay fine, the governing disabled set is untouched, and a BUILTIN-scope
    answer is the index of a name that is in the builtin table and not in the disabled set `d ⊇ D` -/
theorem resolveIn_spec (d : List String) (n : String) (hd : ∀ x ∈ c.D, x ∈ d) :
    ∀ {ts : List Table}, TablesOK c ts →
      TablesOK c (resolveIn c.bs d n ts).2 ∧ (resolveIn c.bs d n ts).2.length = ts.length ∧
      rootDisabled (resolveIn c.bs d n ts).2 = rootDisabled ts ∧
      ∀ y, (resolveIn c.bs d n ts).1 = some y → SymOK c y
  | [], _ => by simp [resolveIn, TablesOK]
  | t :: rest, h => by
    have ht : StoreOK c t.store := h t (by simp)
    have hr : TablesOK c rest := fun t' ht' => h t' (by simp [ht'])
    unfold resolveIn
    split
    · rename_i sym hl
      exact ⟨h, rfl, rfl, fun y hy => by injection hy with hy; subst hy; exact lookupSym_ok ht hl⟩
    · cases rest with
      | nil =>
        simp only
        split
        · rename_i hnd
          split
          · rename_i k idx hfind
            have hk : k = n := by
              have := List.find?_some hfind
              simpa using this
            have hmem : (n, idx) ∈ c.bs := by
              have := List.mem_of_find?_eq_some hfind
              rw [hk] at this; exact this
            have hnD : n ∉ c.D := by
              intro hin
              have := hd n hin
              simp [List.contains_iff_mem, this] at hnd
            have hsym : SymOK c { name := n, index := (idx : Int), scope := .builtin } :=
              fun _ => ⟨idx, rfl, n, hmem, hnD⟩
            refine ⟨?_, rfl, rfl, ?_⟩
            · intro t' ht'
              simp at ht'
              subst ht'
              exact putSym_ok hsym ht
            · intro y hy; injection hy with hy; subst hy; exact hsym
          · exact ⟨h, rfl, rfl, fun y hy => by simp at hy⟩
        · exact ⟨h, rfl, rfl, fun y hy => by simp at hy⟩
      | cons t2 r2 =>
        simp only
        have ih := resolveIn_spec d n hd hr
        cases hres : resolveIn c.bs d n (t2 :: r2) with
        | mk r rest' =>
          rw [hres] at ih
          simp only at ih ⊢
          obtain ⟨ih1, ih2, ih4, ih3⟩ := ih
          have hne : rest' ≠ [] := ne_nil_of_length_eq ih2 (by simp)
          have hdis : ∀ x : Table, rootDisabled (x :: rest') = rootDisabled (t :: t2 :: r2) := by
            intro x; rw [rootDisabled_cons_ne hne, ih4]; rfl
          cases r with
          | none =>
            refine ⟨?_, by simp [ih2], hdis _, fun y hy => by simp at hy⟩
            intro t' ht'
            simp at ht'
            rcases ht' with ht' | ht'
            · subst ht'; exact ht
            · exact ih1 t' ht'
          | some sym =>
            simp only
            split
            · refine ⟨?_, by simp [ih2], hdis _, ?_⟩
              · intro t' ht'
                simp at ht'
                rcases ht' with ht' | ht'
                · subst ht'
                  simp only [shadowBuiltin_store]
                  exact putSym_ok (symOK_of_ne (by simp)) ht
                · exact ih1 t' ht'
              · intro y hy; injection hy with hy; subst hy; exact symOK_of_ne (by simp)
            · refine ⟨?_, by simp [ih2], hdis _, fun y hy => by injection hy with hy; subst hy; exact ih3 _ rfl⟩
              intro t' ht'
              simp at ht'
              rcases ht' with ht' | ht'
              · subst ht'; exact ht
              · exact ih1 t' ht'

/-! ### GETBUILTIN operands of a stream -/

/-- every GETBUILTIN instruction of the (decoded) stream has an acceptable operand -/
def GbOK (c : Ctx) (a : Array UInt8) : Prop :=
  ∀ p op b, Walk a 0 p → a[p]? = some op → op.toNat = OpGetBuiltin → a[p + 1]? = some b → OpOK c b.toNat

theorem gbOK_empty : GbOK c #[] := by
  intro p op b _ h; simp at h

theorem opWidth_getBuiltin : opWidth OpGetBuiltin = 1 := by decide

theorem GbOK.append_inst {a : Array UInt8} {op : Nat} {args : List Int} {bs : List UInt8}
    (hw : Walk a 0 a.size) (hg : GbOK c a) (hop : op < numOpcodes)
    (hm : makeInstruction op args = .ok bs)
    (ha : op = OpGetBuiltin → ∃ i : Nat, args = [(i : Int)] ∧ OpOK c i) : GbOK c (a ++ bs.toArray) := by
  obtain ⟨rest, hbs, hl⟩ := makeInstruction_ok hm
  subst hbs
  have hpre : Pre a (a ++ (UInt8.ofNat op :: rest).toArray) :=
    ⟨by simp, fun k hk => by simp [Array.getElem?_append, hk]⟩
  have hto : (UInt8.ofNat op).toNat = op := by
    simp [UInt8.toNat_ofNat']
    unfold numOpcodes at hop
    omega
  have hw' := hw.pre hpre
  have hnew : (a ++ (UInt8.ofNat op :: rest).toArray)[a.size]? = some (UInt8.ofNat op) := by
    simp [Array.getElem?_append]
  intro p opb b hwp hget hopb hb1
  rcases Nat.lt_or_ge p a.size with hlt | hge
  · have hbdp : Walk a 0 p := Walk.restrict hw hpre hwp (by omega)
    have hgeta : a[p]? = some opb := by rw [← hpre.2 p hlt]; exact hget
    have hfit := Bd.fit ⟨hbdp, hlt⟩ hw hgeta
    rw [hopb, opWidth_getBuiltin] at hfit
    have hb1a : a[p + 1]? = some b := by rw [← hpre.2 (p + 1) (by omega)]; exact hb1
    exact hg p opb b hbdp hgeta hopb hb1a
  · have hps := getElem?_lt_of_some hget
    have hpe : p = a.size := by
      rcases hw'.comparable hwp with h | h
      · cases h with
        | refl => rfl
        | step op' h1 h2 h3 h4 =>
          have : op' = UInt8.ofNat op := by rw [hnew] at h1; injection h1 with h; exact h.symm
          subst this
          have hle := h4.le
          rw [hto] at hle
          simp [hl] at hps
          omega
      · have := h.le; omega
    subst hpe
    have hopb' : opb = UInt8.ofNat op := by rw [hnew] at hget; injection hget with h; exact h.symm
    subst hopb'
    rw [hto] at hopb
    subst hopb
    obtain ⟨i, hargs, hok⟩ := ha rfl
    have hr := makeInstruction_read hm
    have hw1 : operandWidths OpGetBuiltin = [1] := by decide
    rw [hw1] at hr
    rw [opWidth_getBuiltin] at hl
    match rest, hl with
    | [r0], _ =>
      simp only [readOperands, hargs] at hr
      have hb : b = r0 := by
        rw [Array.getElem?_append_right (by omega)] at hb1
        simp at hb1
        exact hb1.symm
      subst hb
      have hr1 : Int.ofNat (beVal (List.take 1 [b])) = (i : Int) := by injection hr
      simp only [List.take, beVal, List.foldl, Nat.zero_mul, Nat.zero_add] at hr1
      have : b.toNat = i := Int.ofNat.inj hr1
      rw [this]; exact hok

theorem GbOK.patch_inst {a : Array UInt8} {q : Nat} {opq : UInt8} {rest : List UInt8}
    (hw : Walk a 0 a.size) (hg : GbOK c a) (hq : Walk a 0 q) (hop : a[q]? = some opq)
    (hl : rest.length = opWidth opq.toNat) (hne : opq.toNat ≠ OpGetBuiltin) : GbOK c (patch a q (opq :: rest)) := by
  have hqs := getElem?_lt_of_some hop
  have hfit := Bd.fit ⟨hq, hqs⟩ hw hop
  intro p opb b hwp hget hopb hb1
  have hbdp : Walk a 0 p := Walk.unpatch_inst hwp hq hop hl hfit
  rcases Nat.lt_trichotomy p q with hlt | heq | hgt
  · have hgeta : a[p]? = some opb := by rw [← patch_get_lt _ _ _ _ hlt]; exact hget
    have hnext : p + 1 + opWidth opb.toNat ≤ q := by
      rcases hbdp.comparable hq with h | h
      · cases h with
        | refl => omega
        | step op' h1 h2 h3 h4 =>
          have : op' = opb := by rw [hgeta] at h1; injection h1 with h; exact h.symm
          subst this; exact h4.le
      · have := h.le; omega
    rw [hopb, opWidth_getBuiltin] at hnext
    have hb1a : a[p + 1]? = some b := by rw [← patch_get_lt (opq :: rest) a q (p + 1) (by omega)]; exact hb1
    exact hg p opb b hbdp hgeta hopb hb1a
  · subst heq
    have hopb' : opb = opq := by rw [patch_get_head _ _ _ _ hqs] at hget; injection hget with h; exact h.symm
    subst hopb'
    exact absurd hopb hne
  · have hnext : q + 1 + opWidth opq.toNat ≤ p := by
      rcases hq.comparable hbdp with h | h
      · cases h with
        | refl => omega
        | step op' h1 h2 h3 h4 =>
          have : op' = opq := by rw [hop] at h1; injection h1 with h; exact h.symm
          subst this; exact h4.le
      · have := h.le; omega
    have hgeta : a[p]? = some opb := by
      rw [← patch_get_ge (opq :: rest) a q p (by simp [hl]; omega)]; exact hget
    have hb1a : a[p + 1]? = some b := by
      rw [← patch_get_ge (opq :: rest) a q (p + 1) (by simp [hl]; omega)]; exact hb1
    exact hg p opb b hbdp hgeta hopb hb1a

/-! ### the judgment -/

/-- the part of the invariant that speaks about the symbol tables only; it also holds in the state
    an error or a Go panic leaves behind -/
structure TabsInv (c : Ctx) (ts : List Table) : Prop where
  ne : ts ≠ []
  ok : TablesOK c ts
  dis : DisOK c ts

/-- `Sat c m s Q`: when `m` from `s` ends normally with value `a` in state `s'`, `Q a s'` holds;
    when it ends with an error or a Go panic, the tables of the final state are still fine -/
def Sat (c : Ctx) {α} (m : CM α) (s : CState) (Q : α → CState → Prop) : Prop :=
  match runCM m s with
  | (.ok a, s') => Q a s'
  | (.error _, s') => TabsInv c s'.tables

theorem Sat.pure {α} {a : α} {s : CState} {Q : α → CState → Prop} (h : Q a s) : Sat c (Pure.pure a : CM α) s Q := by
  simp [Sat, runCM_pure, h]

theorem Sat.bind {α β} {m : CM α} {f : α → CM β} {s : CState} {Q : β → CState → Prop}
    (h : Sat c m s (fun a s' => Sat c (f a) s' Q)) : Sat c (m >>= f) s Q := by
  unfold Sat at h ⊢
  rw [runCM_bind]
  cases hr : runCM m s with
  | mk r s' =>
    rw [hr] at h
    cases r with
    | ok a => simpa using h
    | error e => simpa using h

theorem Sat.mono {α} {m : CM α} {s : CState} {Q Q' : α → CState → Prop}
    (h : Sat c m s Q) (hq : ∀ a s', Q a s' → Q' a s') : Sat c m s Q' := by
  unfold Sat at h ⊢
  cases hr : runCM m s with
  | mk r s' =>
    rw [hr] at h
    cases r with
    | ok a => exact hq _ _ h
    | error e => exact h

theorem Sat.get {s : CState} {Q : CState → CState → Prop} (h : Q s s) : Sat c (get : CM CState) s Q := by
  simp [Sat, runCM_get, h]
theorem Sat.set {s t : CState} {Q : Unit → CState → Prop} (h : Q () t) : Sat c (set t : CM Unit) s Q := by
  simp [Sat, runCM_set, h]
theorem Sat.modify {f : CState → CState} {s : CState} {Q : Unit → CState → Prop} (h : Q () (f s)) :
    Sat c (modify f : CM Unit) s Q := by
  simp [Sat, runCM_modify, h]
theorem Sat.throw {α} {e : CErr} {s : CState} {Q : α → CState → Prop} (h : TabsInv c s.tables) :
    Sat c (throw e : CM α) s Q := by
  simp [Sat, runCM_throw, h]
theorem Sat.cerr {α} {pos : Pos} {msg : String} {s : CState} {Q : α → CState → Prop} (h : TabsInv c s.tables) :
    Sat c (cerr pos msg : CM α) s Q := Sat.throw h
theorem Sat.cpanic {α} {msg : String} {s : CState} {Q : α → CState → Prop} (h : TabsInv c s.tables) :
    Sat c (cpanic msg : CM α) s Q := Sat.throw h
theorem Sat.cunsupported {α} {msg : String} {s : CState} {Q : α → CState → Prop} (h : TabsInv c s.tables) :
    Sat c (cunsupported msg : CM α) s Q := Sat.throw h

theorem Sat.of_run {α} {m : CM α} {s s' : CState} {a : α} {Q : α → CState → Prop}
    (hr : runCM m s = (.ok a, s')) (h : Q a s') : Sat c m s Q := by
  simp [Sat, hr, h]

theorem Sat.bind_of_run {α β} {m : CM α} {f : α → CM β} {s s' : CState} {a : α} {Q : β → CState → Prop}
    (hr : runCM m s = (.ok a, s')) (h : Sat c (f a) s' Q) : Sat c (m >>= f) s Q :=
  Sat.bind (Sat.of_run hr h)

/-! ### the invariant and the step relation -/

def ConstsOK (c : Ctx) (cs : Array Const) : Prop := ∀ f, Const.fn f ∈ cs.toList → GbOK c f.insts

theorem ConstsOK.push {cs : Array Const} (h : ConstsOK c cs) {k : Const} (hk : ∀ f, k = .fn f → GbOK c f.insts) :
    ConstsOK c (cs.push k) := by
  intro f hf
  simp at hf
  rcases hf with hf | hf
  · exact h f (by simpa using hf)
  · exact hk f hf.symm

structure Inv (c : Ctx) (s : CState) : Prop where
  ne : s.tables ≠ []
  bs : s.builtins = c.bs
  tabs : TablesOK c s.tables
  dis : DisOK c s.tables
  walk : Walk s.insts 0 s.insts.size
  loops : ∀ l ∈ s.loops, ∀ p, (p ∈ l.breaks ∨ p ∈ l.continues) → Bd s.insts p ∧ Jumpy s.insts p
  consts : ConstsOK c s.constants
  gb : GbOK c s.insts

theorem Inv.tinv {s : CState} (h : Inv c s) : TabsInv c s.tables := ⟨h.ne, h.tabs, h.dis⟩

structure Rel (s s' : CState) : Prop where
  tlen : s'.tables.length = s.tables.length
  pre : Pre s.insts s'.insts
  llen : s'.loops.length = s.loops.length
  ltail : s'.loops.tail = s.loops.tail
  lhead : ∀ l l', s.loops.head? = some l → s'.loops.head? = some l' → ∀ p,
    (p ∈ l'.breaks → p ∈ l.breaks ∨ s.insts.size ≤ p) ∧ (p ∈ l'.continues → p ∈ l.continues ∨ s.insts.size ≤ p)

theorem Rel.refl (s : CState) : Rel s s :=
  ⟨rfl, Pre.refl _, rfl, rfl, fun l l' h h' p => by rw [h] at h'; injection h' with h'; subst h'; exact ⟨.inl, .inl⟩⟩

theorem Rel.trans {s s' s'' : CState} (h : Rel s s') (h' : Rel s' s'') : Rel s s'' := by
  refine ⟨h'.tlen.trans h.tlen, h.pre.trans h'.pre, h'.llen.trans h.llen, h'.ltail.trans h.ltail, ?_⟩
  intro l l'' hl hl'' p
  have hlen := h.llen
  cases hs' : s'.loops with
  | nil =>
    rw [hs'] at hlen
    cases hs : s.loops with
    | nil => rw [hs] at hl; simp at hl
    | cons a b => rw [hs] at hlen; simp at hlen
  | cons l' r' =>
    have h1 := h.lhead l l' hl (by simp [hs']) p
    have h2 := h'.lhead l' l'' (by simp [hs']) hl'' p
    have hsz := h.pre.1
    constructor
    · intro hp
      rcases h2.1 hp with hp | hp
      · exact h1.1 hp
      · right; omega
    · intro hp
      rcases h2.2 hp with hp | hp
      · exact h1.2 hp
      · right; omega

/-- a step that leaves the instruction stream and the loop stack alone -/
theorem Rel.of_same {s s' : CState} (h1 : s'.tables.length = s.tables.length) (h2 : s'.insts = s.insts)
    (h3 : s'.loops = s.loops) : Rel s s' := by
  refine ⟨h1, by rw [h2]; exact Pre.refl _, by rw [h3], by rw [h3], ?_⟩
  intro l l' h h' p; rw [h3, h] at h'; injection h' with h'; subst h'; exact ⟨.inl, .inl⟩

theorem Inv.of_tables {s s' : CState} (h : Inv c s) (ht : TabsInv c s'.tables)
    (hb : s'.builtins = s.builtins) (h3 : s'.insts = s.insts) (h4 : s'.loops = s.loops)
    (h5 : s'.constants = s.constants := by rfl) : Inv c s' :=
  ⟨ht.ne, hb.trans h.bs, ht.ok, ht.dis, by rw [h3]; exact h.walk, by rw [h3, h4]; exact h.loops, by rw [h5]; exact h.consts,
   by rw [h3]; exact h.gb⟩

/-- `GoodP c P m`: from a state satisfying the invariant, on normal termination the invariant holds
    again, the states are related, and the result satisfies `P` -/
def GoodP (c : Ctx) {α} (P : α → Prop) (m : CM α) : Prop :=
  ∀ s, Inv c s → Sat c m s (fun a s' => Inv c s' ∧ Rel s s' ∧ P a)

abbrev Good (c : Ctx) {α} (m : CM α) : Prop := GoodP c (fun _ => True) m

theorem GoodP.pure {α} {P : α → Prop} {a : α} (h : P a) : GoodP c P (Pure.pure a : CM α) :=
  fun s hs => Sat.pure ⟨hs, Rel.refl s, h⟩

theorem GoodP.bind {α β} {P : α → Prop} {R : β → Prop} {m : CM α} {f : α → CM β}
    (hm : GoodP c P m) (hf : ∀ a, P a → GoodP c R (f a)) : GoodP c R (m >>= f) := by
  intro s hs
  apply Sat.bind
  apply Sat.mono (hm s hs)
  intro a s' ⟨hs', hr, hp⟩
  apply Sat.mono (hf a hp s' hs')
  intro b s'' ⟨hs'', hr', hb⟩
  exact ⟨hs'', hr.trans hr', hb⟩

theorem GoodP.weaken {α} {P P' : α → Prop} {m : CM α} (h : GoodP c P m) (hp : ∀ a, P a → P' a) : GoodP c P' m :=
  fun s hs => Sat.mono (h s hs) fun a s' ⟨h1, h2, h3⟩ => ⟨h1, h2, hp a h3⟩

theorem GoodP.good {α} {P : α → Prop} {m : CM α} (h : GoodP c P m) : Good c m := h.weaken fun _ _ => trivial

theorem GoodP.throw {α} {P : α → Prop} {e : CErr} : GoodP c P (throw e : CM α) := fun _ hs => Sat.throw hs.tinv
theorem GoodP.cerr {α} {P : α → Prop} {pos : Pos} {msg : String} : GoodP c P (cerr pos msg : CM α) := fun _ hs => Sat.cerr hs.tinv
theorem GoodP.cpanic {α} {P : α → Prop} {msg : String} : GoodP c P (cpanic msg : CM α) := fun _ hs => Sat.cpanic hs.tinv
theorem GoodP.cunsupported {α} {P : α → Prop} {msg : String} : GoodP c P (cunsupported msg : CM α) :=
  fun _ hs => Sat.cunsupported hs.tinv

/-- reading the state -/
theorem good_get : Good c (get : CM CState) := fun s hs => Sat.get ⟨hs, Rel.refl s, trivial⟩

theorem good_curPos : Good c curPos := by
  unfold curPos
  exact GoodP.bind good_get fun _ _ => GoodP.pure trivial

theorem good_currentLoop : Good c currentLoop := by
  unfold currentLoop
  exact GoodP.bind good_get fun _ _ => GoodP.pure trivial

theorem good_headTable : Good c headTable := by
  intro s hs
  unfold headTable
  apply Sat.bind
  apply Sat.get
  cases ht : s.tables with
  | nil => exact absurd ht hs.ne
  | cons t r => exact Sat.pure ⟨hs, Rel.refl s, trivial⟩

/-- a modification of the table list that keeps its length, the symbol invariant and the root's
    disabled set -/
theorem good_modTables {g : List Table → List Table} (hlen : ∀ ts, (g ts).length = ts.length)
    (hok : ∀ ts, TablesOK c ts → TablesOK c (g ts)) (hdis : ∀ ts, rootDisabled (g ts) = rootDisabled ts) :
    Good c (modTables g) := by
  intro s hs
  unfold modTables
  apply Sat.modify
  refine ⟨hs.of_tables ⟨?_, hok _ hs.tabs, ?_⟩ rfl rfl rfl, Rel.of_same (hlen _) rfl rfl, trivial⟩
  · exact ne_nil_of_length_eq (hlen _) hs.ne
  · intro n hn
    show n ∈ rootDisabled (g s.tables)
    rw [hdis]; exact hs.dis n hn

theorem good_modHead {f : Table → Table} (hok : ∀ t, StoreOK c t.store → StoreOK c (f t).store)
    (hd : ∀ t, (f t).disabled = t.disabled) : Good c (modHead f) := by
  unfold modHead
  apply good_modTables
  · intro ts; cases ts <;> simp
  · intro ts h
    cases ts with
    | nil => exact h
    | cons t r =>
      intro t' ht'
      simp at ht'
      rcases ht' with ht' | ht'
      · subst ht'; exact hok t (h t (by simp))
      · exact h t' (by simp [ht'])
  · intro ts
    cases ts with
    | nil => rfl
    | cons t r => exact rootDisabled_head r (hd t)

theorem good_updateMaxDefs (n : Nat) : Good c (modTables (updateMaxDefs n)) :=
  good_modTables (updateMaxDefs_length n) (fun _ h => updateMaxDefs_ok n h) (updateMaxDefs_dis n)

theorem good_modify_misc {f : CState → CState} (h1 : ∀ s, (f s).tables = s.tables) (h2 : ∀ s, (f s).insts = s.insts)
    (h3 : ∀ s, (f s).loops = s.loops) (h4 : ∀ s, (f s).constants = s.constants := by intro _; rfl)
    (h5 : ∀ s, (f s).builtins = s.builtins := by intro _; rfl) :
    Good c (modify f : CM Unit) := by
  intro s hs
  apply Sat.modify
  exact ⟨hs.of_tables (by rw [h1]; exact hs.tinv) (h5 s) (h2 s) (h3 s) (h4 s),
    Rel.of_same (by rw [h1]) (h2 s) (h3 s), trivial⟩

/-- `updateSym` with an update that keeps the symbol acceptable -/
theorem good_updateSym {name : String} {f : Symbol → Symbol}
    (hf : ∀ y, SymOK c y → SymOK c (f y)) : Good c (updateSym name f) := by
  unfold updateSym
  apply good_modHead
  · intro t ht
    split
    · rename_i sym hl
      exact putSym_ok (hf _ (lookupSym_ok ht hl)) ht
    · exact ht
  · intro t
    split <;> rfl

theorem sat_addConstant {k : CVal} {s : CState} {Q : Nat → CState → Prop} (hs : Inv c s)
    (h : ∀ i s', Inv c s' → Rel s s' → s'.insts = s.insts → s'.tables = s.tables → Q i s') :
    Sat c (addConstant k) s Q := by
  unfold addConstant
  apply Sat.bind
  apply Sat.get
  split
  · rename_i i hi
    exact Sat.pure (h i s hs (Rel.refl s) rfl rfl)
  · apply Sat.bind
    apply Sat.set
    apply Sat.pure
    exact h _ _ ⟨hs.ne, hs.bs, hs.tabs, hs.dis, hs.walk, hs.loops, hs.consts.push (fun f hf => by cases hf), hs.gb⟩
      (Rel.of_same rfl rfl rfl) rfl rfl

theorem good_addConstant (k : CVal) : Good c (addConstant k) :=
  fun _ hs => sat_addConstant hs fun _ _ h1 h2 _ _ => ⟨h1, h2, trivial⟩

theorem sat_addFnConstant {f : CFn} {s : CState} {Q : Nat → CState → Prop} (hs : Inv c s)
    (hf : GbOK c f.insts)
    (h : ∀ i s', Inv c s' → Rel s s' → s'.insts = s.insts → Q i s') :
    Sat c (addFnConstant f) s Q := by
  unfold addFnConstant
  apply Sat.bind
  apply Sat.get
  split
  · rename_i i hi
    exact Sat.pure (h i s hs (Rel.refl s) rfl)
  · apply Sat.bind
    apply Sat.set
    apply Sat.pure
    refine h _ _ ⟨hs.ne, hs.bs, hs.tabs, hs.dis, hs.walk, hs.loops,
      hs.consts.push (fun g hg => by injection hg with hg; subst hg; exact hf), hs.gb⟩ (Rel.of_same rfl rfl rfl) rfl

theorem goodP_resolve (name : String) : GoodP c (fun r => ∀ y, r = some y → SymOK c y) (resolve name) := by
  intro s hs
  unfold resolve
  apply Sat.bind
  apply Sat.get
  have hsp := resolveIn_spec (c := c) (rootDisabled s.tables) name hs.dis hs.tabs
  rw [← hs.bs] at hsp
  cases hres : resolveIn s.builtins (rootDisabled s.tables) name s.tables with
  | mk r ts =>
    rw [hres] at hsp
    simp only at hsp ⊢
    apply Sat.bind
    apply Sat.set
    refine Sat.pure ⟨hs.of_tables ⟨?_, hsp.1, ?_⟩ rfl rfl rfl, Rel.of_same hsp.2.1 rfl rfl, hsp.2.2.2⟩
    · exact ne_nil_of_length_eq hsp.2.1 hs.ne
    · intro n hn
      show n ∈ rootDisabled ts
      rw [hsp.2.2.1]; exact hs.dis n hn

/-! ### emit -/

theorem Rel.of_pre {s s' : CState} (h1 : s'.tables.length = s.tables.length) (h2 : Pre s.insts s'.insts)
    (h3 : s'.loops = s.loops) : Rel s s' := by
  refine ⟨h1, h2, by rw [h3], by rw [h3], ?_⟩
  intro l l' h h' p; rw [h3, h] at h'; injection h' with h'; subst h'; exact ⟨.inl, .inl⟩

/-- transfer of a relation along states that agree on what the relation looks at -/
theorem Rel.transfer {a b a' b' : CState} (h : Rel a b) (hi : a.insts = a'.insts) (hl : a.loops = a'.loops)
    (hi' : b'.insts = b.insts) (hl' : b'.loops = b.loops) (ht : b'.tables.length = a'.tables.length) : Rel a' b' := by
  refine ⟨ht, by rw [← hi, hi']; exact h.pre, by rw [hl', ← hl]; exact h.llen, by rw [hl', ← hl]; exact h.ltail, ?_⟩
  intro l l' h1 h2 p
  rw [← hl] at h1; rw [hl'] at h2
  have := h.lhead l l' h1 h2 p
  rw [← hi]; exact this

theorem pre_append (a : Array UInt8) (bs : List UInt8) : Pre a (a ++ bs.toArray) :=
  ⟨by simp, fun k hk => by simp [Array.getElem?_append, hk]⟩

/-- what `emit` must be given for a GETBUILTIN instruction -/
abbrev GbArgs (c : Ctx) (op : Nat) (args : List Int) : Prop :=
  op = OpGetBuiltin → ∃ i : Nat, args = [(i : Int)] ∧ OpOK c i

/-- `emit`: the new instruction starts at the old end of the stream, which is a boundary of the new
    stream; a GETBUILTIN must come with an acceptable operand -/
theorem sat_emit {pos : Pos} {op : Nat} {args : List Int} {s : CState} {Q : Nat → CState → Prop}
    (hs : Inv c s) (harg : GbArgs c op args)
    (h : ∀ s', Inv c s' → Rel s s' → Bd s'.insts s.insts.size → s'.tables = s.tables →
      (∃ opb, s'.insts[s.insts.size]? = some opb ∧ opb.toNat = op) → Q s.insts.size s') :
    Sat c (emit pos op args) s Q := by
  unfold emit
  by_cases hop : op ≥ numOpcodes
  · rw [if_pos hop]; exact Sat.cpanic hs.tinv
  rw [if_neg hop]
  have hop : op < numOpcodes := by omega
  cases hm : makeInstruction op args with
  | error m =>
    simp only
    split
    · exact Sat.throw hs.tinv
    · exact Sat.throw hs.tinv
  | ok bs =>
    simp only
    have hgb := GbOK.append_inst hs.walk hs.gb hop hm harg
    obtain ⟨rest, hbs, hl⟩ := makeInstruction_ok hm
    subst hbs
    apply Sat.bind
    apply Sat.get
    apply Sat.bind
    apply Sat.set
    apply Sat.pure
    have hpre := pre_append s.insts (UInt8.ofNat op :: rest)
    apply h
    · exact ⟨hs.ne, hs.bs, hs.tabs, hs.dis, Walk.append_inst hs.walk hop hl,
        fun l hl p hp => ⟨(hs.loops l hl p hp).1.pre hpre, (hs.loops l hl p hp).2.pre hpre⟩, hs.consts, hgb⟩
    · exact Rel.of_pre rfl hpre rfl
    · exact Bd.append_inst hs.walk
    · rfl
    · refine ⟨UInt8.ofNat op, by simp [Array.getElem?_append], ?_⟩
      simp [UInt8.toNat_ofNat']
      unfold numOpcodes at hop
      omega

theorem gbArgs_of_ne {op : Nat} {args : List Int} (h : op ≠ OpGetBuiltin) : GbArgs c op args := fun e => absurd e h

theorem good_emit {pos : Pos} {op : Nat} {args : List Int} (ha : GbArgs c op args) : Good c (emit pos op args) :=
  fun _ hs => sat_emit hs ha fun _ h1 h2 _ _ _ => ⟨h1, h2, trivial⟩

theorem good_emit_ {pos : Pos} {op : Nat} {args : List Int} (ha : GbArgs c op args) : Good c (emit_ pos op args) := by
  unfold emit_
  exact GoodP.bind (good_emit ha) fun _ _ => GoodP.pure trivial

/-! ### sequences that patch earlier instructions -/

/-- `St c s0 ps s`: `s` is reached from `s0`; the positions `ps` were emitted since `s0`, are inner
    boundaries of the current stream and hold a jump-class / SETUPTRY instruction -/
structure St (c : Ctx) (s0 : CState) (ps : List Nat) (s : CState) : Prop where
  inv : Inv c s
  rel : Rel s0 s
  pend : ∀ p ∈ ps, (Bd s.insts p ∧ Jumpy s.insts p) ∧ s0.insts.size ≤ p

theorem St.init {s : CState} (h : Inv c s) : St c s [] s :=
  ⟨h, Rel.refl s, fun _ hp => by simp at hp⟩

theorem St.step {s0 s s' : CState} {ps : List Nat} (h : St c s0 ps s) (hi : Inv c s') (hr : Rel s s') : St c s0 ps s' :=
  ⟨hi, h.rel.trans hr, fun p hp => ⟨⟨(h.pend p hp).1.1.pre hr.pre, (h.pend p hp).1.2.pre hr.pre⟩, (h.pend p hp).2⟩⟩

theorem St.weaken {s0 s : CState} {ps ps' : List Nat} (h : St c s0 ps s) (hsub : ∀ p ∈ ps', p ∈ ps) : St c s0 ps' s :=
  ⟨h.inv, h.rel, fun p hp => h.pend p (hsub p hp)⟩

theorem St.tinv {s0 s : CState} {ps : List Nat} (h : St c s0 ps s) : TabsInv c s.tables := h.inv.tinv

theorem st_good_bind {α β} {P : α → Prop} {m : CM α} {f : α → CM β} {s0 s : CState} {ps : List Nat}
    {Q : β → CState → Prop} (hm : GoodP c P m) (hst : St c s0 ps s)
    (h : ∀ a s', P a → St c s0 ps s' → Sat c (f a) s' Q) : Sat c (m >>= f) s Q := by
  apply Sat.bind
  apply Sat.mono (hm s hst.inv)
  intro a s' ⟨h1, h2, h3⟩
  exact h a s' h3 (hst.step h1 h2)

/-- reading `len(c.instructions)` -/
theorem st_curPos_bind {β} {f : Nat → CM β} {s0 s : CState} {ps : List Nat} {Q : β → CState → Prop}
    (hst : St c s0 ps s) (h : St c s0 ps s → Sat c (f s.insts.size) s Q) :
    Sat c (curPos >>= f) s Q := by
  apply Sat.bind
  unfold curPos
  apply Sat.bind
  apply Sat.get
  apply Sat.pure
  exact h hst

/-- `emit` of an instruction whose position is not patched later -/
theorem st_emit_tgt_bind {β} {pos : Pos} {op : Nat} {args : List Int} {f : Nat → CM β} {s0 s : CState} {ps : List Nat}
    {Q : β → CState → Prop} (hst : St c s0 ps s) (ha : GbArgs c op args)
    (h : ∀ s', St c s0 ps s' → (Bd s'.insts s.insts.size ∧
      ∃ opb, s'.insts[s.insts.size]? = some opb ∧ opb.toNat = op) → Sat c (f s.insts.size) s' Q) :
    Sat c (emit pos op args >>= f) s Q := by
  apply Sat.bind
  apply sat_emit hst.inv ha
  intro s' h1 h2 h3 _ h5
  exact h s' (hst.step h1 h2) ⟨h3, h5⟩

/-- `emit` of a jump-class / SETUPTRY instruction that is patched later: its position is pending -/
theorem st_emit_bind {β} {pos : Pos} {op : Nat} {args : List Int} {f : Nat → CM β} {s0 s : CState} {ps : List Nat}
    {Q : β → CState → Prop} (hst : St c s0 ps s) (hj : isJumpOp op = true ∨ op = OpSetupTry)
    (h : ∀ s', St c s0 (s.insts.size :: ps) s' → Sat c (f s.insts.size) s' Q) :
    Sat c (emit pos op args >>= f) s Q := by
  have hne : op ≠ OpGetBuiltin := by
    rcases hj with hj | hj
    · intro h; subst h; revert hj; decide
    · intro h; rw [h] at hj; revert hj; decide
  apply st_emit_tgt_bind hst (gbArgs_of_ne hne)
  intro s' hst' ⟨hbd, opb, hget, hopb⟩
  apply h
  refine ⟨hst'.inv, hst'.rel, ?_⟩
  intro p hp
  simp at hp
  rcases hp with hp | hp
  · subst hp
    exact ⟨⟨hbd, opb, hget, by rw [hopb]; exact hj⟩, hst.rel.pre.1⟩
  · exact hst'.pend p hp

theorem st_emit__bind {β} {pos : Pos} {op : Nat} {args : List Int} {f : Unit → CM β} {s0 s : CState} {ps : List Nat}
    {Q : β → CState → Prop} (hst : St c s0 ps s) (ha : GbArgs c op args)
    (h : ∀ s', St c s0 ps s' → Sat c (f ()) s' Q) : Sat c (emit_ pos op args >>= f) s Q := by
  unfold emit_
  rw [bind_assoc]
  apply st_emit_tgt_bind hst ha
  intro s' hst' _
  rw [pure_bind]
  exact h s' hst'

theorem jumpy_ne_getBuiltin {op : Nat} (h : isJumpOp op = true ∨ op = OpSetupTry) : op ≠ OpGetBuiltin := by
  rcases h with h | h
  · intro e; subst e; revert h; decide
  · intro e; rw [e] at h; revert h; decide

/-- `changeOperand` at a pending position: the patched instruction is a jump / SETUPTRY, so no
    GETBUILTIN operand changes -/
theorem st_changeOperand {p : Nat} {args : List Int} {s0 s : CState} {ps : List Nat} {Q : Unit → CState → Prop}
    (hst : St c s0 ps s) (hp : p ∈ ps) (h : ∀ s', St c s0 ps s' → Q () s') :
    Sat c (changeOperand p args) s Q := by
  unfold changeOperand
  apply Sat.bind
  apply Sat.get
  obtain ⟨⟨hbd, hjy⟩, hge⟩ := hst.pend p hp
  obtain ⟨op, hop, hjop⟩ := hjy
  simp only [hop]
  split
  · exact Sat.cpanic hst.tinv
  cases hm : makeInstruction op.toNat args with
  | error m => exact Sat.throw hst.tinv
  | ok bs =>
    simp only
    obtain ⟨rest, hbs, hl⟩ := makeInstruction_ok hm
    subst hbs
    have hofn : UInt8.ofNat op.toNat = op := by simp
    rw [hofn]
    have hgb := GbOK.patch_inst (rest := rest) hst.inv.walk hst.inv.gb hbd.1 hop hl (jumpy_ne_getBuiltin hjop)
    apply Sat.set
    apply h
    have hwalk : ∀ j, Walk s.insts 0 j → Walk (patch s.insts p (op :: rest)) 0 j :=
      fun j hj => Walk.patch_inst hj hbd.1 hop hl
    have hbd' : ∀ q, Bd s.insts q ∧ Jumpy s.insts q → Bd (patch s.insts p (op :: rest)) q ∧ Jumpy (patch s.insts p (op :: rest)) q := by
      intro q ⟨hq, ⟨oq, hoq, hjq⟩⟩
      exact ⟨⟨hwalk q hq.1, by rw [size_patch]; exact hq.2⟩,
        oq, by rw [Walk.patch_get hq.1 hbd.1 hop hl]; exact hoq, hjq⟩
    refine ⟨⟨hst.inv.ne, hst.inv.bs, hst.inv.tabs, hst.inv.dis, ?_, fun l hl q hq => hbd' q (hst.inv.loops l hl q hq),
      hst.inv.consts, hgb⟩, ?_, ?_⟩
    · have := hwalk _ hst.inv.walk
      simpa [size_patch] using this
    · exact ⟨hst.rel.tlen, Pre.patch hst.rel.pre hge, hst.rel.llen, hst.rel.ltail, hst.rel.lhead⟩
    · intro q hq
      exact ⟨hbd' q (hst.pend q hq).1, (hst.pend q hq).2⟩

theorem st_changeOperand_bind {β} {p : Nat} {args : List Int} {f : Unit → CM β} {s0 s : CState} {ps : List Nat}
    {Q : β → CState → Prop} (hst : St c s0 ps s) (hp : p ∈ ps)
    (h : ∀ s', St c s0 ps s' → Sat c (f ()) s' Q) : Sat c (changeOperand p args >>= f) s Q :=
  Sat.bind (st_changeOperand hst hp h)

theorem st_patchAll {target : Nat} : ∀ {l : List Nat} {s0 s : CState} {ps : List Nat} {Q : Unit → CState → Prop},
    St c s0 ps s → (∀ p ∈ l, p ∈ ps) → (∀ s', St c s0 ps s' → Q () s') → Sat c (patchAll target l) s Q
  | [], _, _, _, _, hst, _, h => Sat.pure (h _ hst)
  | p :: r, _, _, _, _, hst, hsub, h => by
    simp only [patchAll]
    apply st_changeOperand_bind hst (hsub p (by simp))
    intro s' hst'
    exact st_patchAll hst' (fun q hq => hsub q (by simp [hq])) h

theorem st_patchAll_bind {β} {target : Nat} {l : List Nat} {f : Unit → CM β} {s0 s : CState} {ps : List Nat}
    {Q : β → CState → Prop} (hst : St c s0 ps s) (hsub : ∀ p ∈ l, p ∈ ps)
    (h : ∀ s', St c s0 ps s' → Sat c (f ()) s' Q) : Sat c (patchAll target l >>= f) s Q :=
  Sat.bind (st_patchAll hst hsub h)

end UgoVerif.Compile.GB
