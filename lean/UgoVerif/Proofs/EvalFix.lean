import UgoVerif.Model.Eval
import UgoVerif.Proofs.Bytecode
/-
  Helper lemmas for `fixOpPop` (Model/Eval.lean): the scan over an instruction-aligned
  byte stream, and what it leaves in `fixPos`.
-/
namespace UgoVerif.Proofs.EvalFix
open UgoVerif UgoVerif.Go UgoVerif.Eval UgoVerif.Model.Bytecode UgoVerif.Gen.Opcodes UgoVerif.Proofs.Bytecode

/-- one whole instruction: opcode byte `b` and operand bytes `ob` of the table's total width -/
def IsInstr (b : UInt8) (ob : Bytes) : Prop :=
  ∃ ws, opcodeOperands b.toNat = some ws ∧ ob.length = ws.sum

/-- every width in the opcode table is one `ReadOperands` reads -/
theorem table_supported : ∀ ws ∈ opcodeOperandsTable, Supported ws := by decide

theorem supported_of_table {op : Nat} {ws : List Nat} (h : opcodeOperands op = some ws) : Supported ws := by
  unfold opcodeOperands at h
  exact table_supported ws (List.mem_of_getElem? h)

/-- the operands of a whole instruction are read back, whatever follows -/
theorem read_instr {b : UInt8} {ob : Bytes} {ws : List Nat} (h : opcodeOperands b.toNat = some ws)
    (hl : ob.length = ws.sum) :
    ∃ args, args.length = ws.length ∧ ∀ X, readOperands ws (ob ++ X) = .ok (args, X) := by
  have hs := supported_of_table h
  obtain ⟨args, ha⟩ := readOperands_total ws ob hs (by omega)
  obtain ⟨_, _, h3, h4, _⟩ := readOperands_ok ws ob args _ hs ha
  refine ⟨args, h3, fun X => ?_⟩
  have := h4 X
  rwa [List.take_of_length_le (by omega)] at this

theorem opnds_pop : opcodeOperands 22 = some [] := by decide
theorem opnds_return : opcodeOperands 39 = some [1] := by decide

theorem u8_eq_of_toNat {b : UInt8} {n : Nat} (hn : n < 256) (h : b.toNat = n) : b = UInt8.ofNat n := by
  apply UInt8.toNat_inj.mp
  simp [h, Nat.mod_eq_of_lt hn]

/-- the operand of a RETURN instruction as `ReadOperands` delivers it -/
theorem read_return (x : UInt8) (X : Bytes) : readOperands [1] (x :: X) = .ok ([x.toNat], X) := by
  simp [readOperands, readOperandsWidths, beVal]

/-- an instruction as (opcode byte, operand bytes) -/
abbrev Ins := UInt8 × Bytes

/-- the bytes of a list of instructions -/
def flat (L : List Ins) : Bytes := L.flatMap fun p => p.1 :: p.2

/-- a whole instruction of a known opcode other than NOOP -/
def Good (p : Ins) : Prop := IsInstr p.1 p.2 ∧ p.1.toNat ≠ 0

/-- `p1; p` is `POP; RETURN 0` -/
def Fire (p1 p : Ins) : Prop := p1.1.toNat = OpPop ∧ p.1.toNat = OpReturn ∧ p.2 = [0]

instance (p1 p : Ins) : Decidable (Fire p1 p) := by unfold Fire; infer_instance

/-- the callback's variables after the instructions `acc` (LAST instruction FIRST) of a
    NOOP-free stream: `prevOp`/`lastOp` are the opcodes of the last two instructions, `fixPos` is
    the offset of the last-but-one instruction when the two are `POP; RETURN 0`, else −1 -/
def stOf : List Ins → FixSt
  | [] => {}
  | [p] => { prevOp := p.1.toNat, lastOp := p.1.toNat, fixPos := -1 }
  | p :: p1 :: r =>
    { prevOp := p1.1.toNat, lastOp := p.1.toNat,
      fixPos := if Fire p1 p then ((flat (p1 :: r).reverse).length : Int) - 1 else -1 }

theorem flat_cons (p : Ins) (L : List Ins) : flat (p :: L) = p.1 :: p.2 ++ flat L := by
  simp [flat]

theorem flat_append (A B : List Ins) : flat (A ++ B) = flat A ++ flat B := by
  simp [flat]

theorem flat_snoc_length (acc : List Ins) (p : Ins) :
    (flat (p :: acc).reverse).length = (flat acc.reverse).length + (p.2.length + 1) := by
  simp [flat]

/-- one callback call on a whole instruction -/
theorem fixScan_step {b : UInt8} {ob : Bytes} {ws : List Nat} (h : opcodeOperands b.toNat = some ws)
    (hl : ob.length = ws.sum) (args : List Nat) (hr : ∀ X, readOperands ws (ob ++ X) = .ok (args, X))
    (fuel : Nat) (X : Bytes) (pos : Nat) (st : FixSt) :
    fixScan (fuel + 1) (b :: ob ++ X) pos st =
      match fixStep st pos b.toNat args with
      | .ok st' => fixScan fuel X (pos + (ob.length + 1)) st'
      | .err e => .err e
      | .panic m => .panic m := by
  simp only [List.cons_append, fixScan, h, hr X, hl]
  rfl

theorem isInstr_pop {b : UInt8} {ob : Bytes} (hi : IsInstr b ob) (hb : b.toNat = OpPop) : ob = [] := by
  obtain ⟨ws, hw, hl⟩ := hi
  rw [hb] at hw
  have : ws = [] := by
    have := opnds_pop
    simp only [OpPop] at hw
    rw [this] at hw
    exact (Option.some.inj hw).symm
  subst this
  simpa using hl

theorem isInstr_return {b : UInt8} {ob : Bytes} (hi : IsInstr b ob) (hb : b.toNat = OpReturn) :
    ∃ x, ob = [x] := by
  obtain ⟨ws, hw, hl⟩ := hi
  rw [hb] at hw
  have : ws = [1] := by
    have := opnds_return
    simp only [OpReturn] at hw
    rw [this] at hw
    exact (Option.some.inj hw).symm
  subst this
  match ob, hl with
  | [x], _ => exact ⟨x, rfl⟩

/-- one callback call in a NOOP-free stream -/
theorem fixStep_good (p : Ins) (acc : List Ins) (hp : Good p) (hacc : ∀ q ∈ acc, Good q)
    {ws : List Nat} (hw : opcodeOperands p.1.toNat = some ws) (hl : p.2.length = ws.sum)
    (args : List Nat) (hr : ∀ X, readOperands ws (p.2 ++ X) = .ok (args, X)) :
    fixStep (stOf acc) (flat acc.reverse).length p.1.toNat args = .ok (stOf (p :: acc)) := by
  obtain ⟨b, ob⟩ := p
  simp only at hw hl hr
  have hargs : b.toNat = OpReturn → ∃ x, ob = [x] ∧ args = [x.toNat] := by
    intro hb
    obtain ⟨x, hx⟩ := isInstr_return ⟨ws, hw, hl⟩ hb
    subst hx
    have h1 := hr []
    have hws : ws = [1] := by
      have := opnds_return; rw [hb] at hw; simp only [OpReturn] at hw; rw [this] at hw
      exact (Option.some.inj hw).symm
    subst hws
    simp [read_return] at h1
    exact ⟨x, rfl, h1.symm⟩
  -- the step from a state whose `prevOp` is the (non-zero) opcode `q1` and `lastOp` is `q`
  have key : ∀ (q1 q : Nat) (fp0 : Int) (pos : Nat), q1 ≠ 0 →
      fixStep { prevOp := q1, lastOp := q, fixPos := fp0 } pos b.toNat args =
        .ok { prevOp := q, lastOp := b.toNat,
              fixPos := if q = OpPop ∧ b.toNat = OpReturn ∧ ob = [0] then (pos : Int) - 1 else -1 } := by
    intro q1 q fp0 pos hq1
    unfold fixStep
    simp only [beq_iff_eq, hq1, if_false]
    by_cases hpq : q = OpPop ∧ b.toNat = OpReturn
    · obtain ⟨x, hx, ha⟩ := hargs hpq.2
      subst hx ha
      simp only [hpq.1, hpq.2, BEq.rfl, Bool.and_self, if_true, true_and]
      by_cases hx0 : x.toNat = 0
      · have : x = 0 := by simpa using u8_eq_of_toNat (by omega) hx0
        simp [hx0, this]
      · have : x ≠ 0 := fun h => hx0 (by simp [h])
        simp [hx0, this]
    · have : (q == OpPop && b.toNat == OpReturn) = false := by
        simp only [Bool.and_eq_false_iff, beq_eq_false_iff_ne]
        by_cases h1 : q = OpPop
        · right; exact fun h2 => hpq ⟨h1, h2⟩
        · left; exact h1
      have hn : ¬ (q = OpPop ∧ b.toNat = OpReturn ∧ ob = [0]) := fun h => hpq ⟨h.1, h.2.1⟩
      simp only [this, if_neg hn]
      simp
  match acc, hacc with
  | [], _ =>
    -- first instruction: prevOp = op, so the POP/RETURN test fails
    unfold fixStep
    by_cases hpp : b.toNat = OpPop
    · simp [stOf, hpp, OpPop, OpReturn]
    · simp [stOf, hpp]
  | [q], hacc =>
    have hq := (hacc q (by simp)).2
    have := key q.1.toNat q.1.toNat (-1) (flat [q].reverse).length hq
    simpa [stOf, Fire] using this
  | q :: q1 :: r, hacc =>
    have hq1 := (hacc q1 (by simp)).2
    have := key q1.1.toNat q.1.toNat (stOf (q :: q1 :: r)).fixPos (flat (q :: q1 :: r).reverse).length hq1
    simpa [stOf, Fire] using this

/-- the scan of a NOOP-free stream of whole instructions never panics and computes `stOf` -/
theorem fixScan_good : ∀ (L : List Ins), (∀ p ∈ L, Good p) → ∀ (acc : List Ins), (∀ q ∈ acc, Good q) →
    ∀ fuel, (flat L).length < fuel →
    fixScan fuel (flat L) (flat acc.reverse).length (stOf acc) = .ok (stOf (L.reverse ++ acc)) := by
  intro L
  induction L with
  | nil =>
    intro _ acc _ fuel hf
    match fuel, hf with
    | fuel+1, _ => simp [flat, fixScan]
  | cons p L ih =>
    intro hL acc hacc fuel hf
    have hp : Good p := hL p (by simp)
    obtain ⟨ws, hw, hl⟩ := hp.1
    obtain ⟨args, _, hr⟩ := read_instr hw hl
    match fuel, hf with
    | fuel+1, hf =>
      rw [flat_cons, fixScan_step hw hl args hr, fixStep_good p acc hp hacc hw hl args hr]
      simp only
      have hf' : (flat L).length < fuel := by simp [flat_cons] at hf; omega
      have := ih (fun q hq => hL q (by simp [hq])) (p :: acc)
        (fun q hq => by simp at hq; rcases hq with rfl | hq; exact hp; exact hacc q hq) fuel hf'
      rw [flat_snoc_length] at this
      rw [this]
      simp

/-- the scan of the whole stream, from the initial state -/
theorem fixScan_whole (L : List Ins) (hL : ∀ p ∈ L, Good p) :
    fixScan ((flat L).length + 1) (flat L) 0 {} = .ok (stOf L.reverse) := by
  have := fixScan_good L hL [] (by simp) ((flat L).length + 1) (by omega)
  simpa [flat, stOf] using this

theorem flat_length_pos {L : List Ins} (h : L ≠ []) : 0 < (flat L).length := by
  match L, h with
  | p :: L, _ => simp [flat_cons]

/-- the two writes of `fixOpPop` on a stream ending in the bytes `POP; RETURN 0` -/
theorem set_pop_return (pre : Bytes) :
    ((pre ++ [22, 39, 0]).set pre.length (UInt8.ofNat OpNoOp)).set (pre.length + 2) 1 = pre ++ [0, 39, 1] := by
  simp [List.set_append, OpNoOp]

/-- `fixOpPop` on a NOOP-free stream given by its instructions (`pre`, then `p1`, then `p`) -/
theorem fixOpPop_two (pre : List Ins) (p1 p : Ins) (hpre : ∀ q ∈ pre, Good q) (h1 : Good p1) (h : Good p) :
    fixOpPop (flat (pre ++ [p1, p])) =
      .ok (if Fire p1 p ∧ pre ≠ [] then flat pre ++ [0, 39, 1] else flat (pre ++ [p1, p])) := by
  have hL : ∀ q ∈ pre ++ [p1, p], Good q := by
    intro q hq
    simp at hq
    rcases hq with hq | rfl | rfl
    · exact hpre q hq
    · exact h1
    · exact h
  unfold fixOpPop
  rw [fixScan_whole _ hL]
  have hrev : (pre ++ [p1, p]).reverse = p :: p1 :: pre.reverse := by simp
  rw [hrev]
  have hfp : (stOf (p :: p1 :: pre.reverse)).fixPos =
      if Fire p1 p then ((flat (p1 :: pre.reverse).reverse).length : Int) - 1 else -1 := rfl
  by_cases hf : Fire p1 p
  · obtain ⟨hp1, hp, hob⟩ := hf
    have hob1 : p1.2 = [] := isInstr_pop h1.1 hp1
    have e1 : p1.1 = 22 := by
      have := u8_eq_of_toNat (n := 22) (by decide) (by simpa [OpPop] using hp1)
      simpa using this
    have e2 : p.1 = 39 := by
      have := u8_eq_of_toNat (n := 39) (by decide) (by simpa [OpReturn] using hp)
      simpa using this
    have hbytes : flat (pre ++ [p1, p]) = flat pre ++ [22, 39, 0] := by
      obtain ⟨b1, ob1⟩ := p1
      obtain ⟨b, ob⟩ := p
      simp only at hob1 e1 e2 hob
      subst hob1 e1 e2 hob
      simp [flat]
    have hlen : ((flat (p1 :: pre.reverse).reverse).length : Int) - 1 = (flat pre).length := by
      obtain ⟨b1, ob1⟩ := p1
      simp only at hob1
      subst hob1
      simp [flat]
    have hv : (stOf (p :: p1 :: pre.reverse)).fixPos = ((flat pre).length : Int) := by
      rw [hfp, if_pos ⟨hp1, hp, hob⟩, hlen]
    simp only [hv, hbytes]
    by_cases hpre0 : pre = []
    · subst hpre0
      simp [flat]
    · have hpos := flat_length_pos hpre0
      have hgt : ((flat pre).length : Int) > 0 := by omega
      rw [if_pos hgt]
      simp only [Int.toNat_natCast]
      rw [if_pos (by simp), set_pop_return]
      simp [Fire, hp1, hp, hob, hpre0]
  · have hv : (stOf (p :: p1 :: pre.reverse)).fixPos = -1 := by rw [hfp, if_neg hf]
    simp only [hv]
    simp [hf]

/-- shorter streams (no instruction, or one) are never changed -/
theorem fixOpPop_short (L : List Ins) (hL : ∀ q ∈ L, Good q) (hlen : L.length ≤ 1) :
    fixOpPop (flat L) = .ok (flat L) := by
  unfold fixOpPop
  rw [fixScan_whole _ hL]
  match L, hlen with
  | [], _ => simp [stOf]
  | [p], _ => simp [stOf]

/-- a stream the instruction decoder accepts is the bytes of a list of whole instructions with
    the same opcodes -/
theorem flat_of_decode : ∀ (fuel : Nat) (bs : Bytes) (off : Nat) (is : List Instr),
    decodeAllAux opcodeOperands fuel bs off = some is →
    ∃ L : List Ins, flat L = bs ∧ (∀ p ∈ L, IsInstr p.1 p.2) ∧ L.map (fun p => p.1.toNat) = is.map (·.op) := by
  intro fuel
  induction fuel with
  | zero => intro bs off is h; simp [decodeAllAux] at h
  | succ fuel ih =>
    intro bs off is h
    match bs with
    | [] =>
      simp [decodeAllAux] at h
      subst h
      exact ⟨[], by simp [flat], by simp, by simp⟩
    | b :: bs =>
      simp only [decodeAllAux] at h
      cases hw : opcodeOperands b.toNat with
      | none => simp [hw] at h
      | some ws =>
        simp only [hw] at h
        cases hr : readOperands ws bs with
        | err e => simp [hr] at h
        | panic m => simp [hr] at h
        | ok pr =>
          obtain ⟨args, rest⟩ := pr
          simp only [hr] at h
          cases hd : decodeAllAux opcodeOperands fuel rest (off + (ws.sum + 1)) with
          | none => simp [hd] at h
          | some is' =>
            simp only [hd, Option.some.injEq] at h
            subst h
            obtain ⟨L', hflat, hins, hops⟩ := ih rest _ is' hd
            obtain ⟨h1, h2, _, _, _⟩ := readOperands_ok ws bs args rest (supported_of_table hw) hr
            refine ⟨(b, bs.take ws.sum) :: L', ?_, ?_, ?_⟩
            · rw [flat_cons, hflat, h2]
              simp
            · intro p hp
              simp at hp
              rcases hp with rfl | hp
              · exact ⟨ws, hw, by simp; omega⟩
              · exact hins p hp
            · simp [hops]

end UgoVerif.Proofs.EvalFix
