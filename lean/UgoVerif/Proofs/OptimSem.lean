import UgoVerif.Model.Optim
import UgoVerif.Proofs.ModCache
/-
  Helper lemmas for Props/C01 (optimizer model vs reference semantics):
  running `Sem` computations (`srun`), the refinement relation `Refines`, purity of the
  operator layer on scalar values (`IsPure`), and the unfolding equations of `Sem.evalExpr`
  on the expression fragment.
-/
namespace UgoVerif.Proofs.OptimSem
open UgoVerif UgoVerif.Go UgoVerif.Ast UgoVerif.VM UgoVerif.Sem UgoVerif.Proofs.ModCache
open UgoVerif.Model.Optim (runM)

/-! ### running a `Sem` computation -/

def srun {α} (m : SM α) (σ : SemSt) (s : State) : Except Exc (α × SemSt) × State := exec (m.run σ) s

theorem srun_pure {α} (a : α) (σ : SemSt) (s : State) : srun (pure a : SM α) σ s = (.ok (a, σ), s) := rfl

theorem srun_bind {α β} (m : SM α) (f : α → SM β) (σ : SemSt) (s : State) :
    srun (m >>= f) σ s = match srun m σ s with
      | (.ok (a, σ'), s') => srun (f a) σ' s'
      | (.error e, s') => (.error e, s') := by
  unfold srun
  rw [StateT.run_bind, exec_bind]
  cases exec (m.run σ) s with
  | mk r s' => cases r <;> rfl

theorem srun_liftM {α} (m : M α) (σ : SemSt) (s : State) :
    srun (Sem.liftM m) σ s = match exec m s with
      | (.ok a, s') => (.ok (a, σ), s')
      | (.error e, s') => (.error e, s') := by
  unfold srun Sem.liftM
  show exec (m >>= fun a => pure (a, σ)) s = _
  rw [exec_bind]
  cases exec m s with
  | mk r s' => cases r <;> rfl

/-- `m'` does whatever `m` does, whenever `m` ends with a value or a thrown uGO error
    (not with `unsupported` / fuel exhaustion / a Go panic) -/
def Refines {α} (m m' : SM α) : Prop :=
  ∀ σ s r s', srun m σ s = (.ok r, s') → srun m' σ s = (.ok r, s')

theorem Refines.refl {α} (m : SM α) : Refines m m := fun _ _ _ _ h => h

theorem Refines.trans {α} {a b c : SM α} (h1 : Refines a b) (h2 : Refines b c) : Refines a c :=
  fun σ s r s' h => h2 σ s r s' (h1 σ s r s' h)

theorem Refines.bind {α β} {m m' : SM α} {f f' : α → SM β} (hm : Refines m m')
    (hf : ∀ a, Refines (f a) (f' a)) : Refines (m >>= f) (m' >>= f') := by
  intro σ s r s' h
  rw [srun_bind] at h ⊢
  cases hm0 : srun m σ s with
  | mk x s1 =>
    rw [hm0] at h
    cases x with
    | error e => simp at h
    | ok p =>
      obtain ⟨a, σ1⟩ := p
      rw [hm σ s (a, σ1) s1 hm0]
      exact hf a σ1 s1 r s' h

/-- a computation that fails (fuel, unsupported) refines to anything -/
theorem Refines.of_fail {α} {m m' : SM α} (h : ∀ σ s, ∃ e s', srun m σ s = (.error e, s')) : Refines m m' := by
  intro σ s r s' h1
  obtain ⟨e, s2, h2⟩ := h σ s
  rw [h2] at h1
  simp at h1

/-! ### purity of the operator layer on scalars -/

/-- values without a heap address -/
def Scalar : V → Prop
  | .undefined | .int _ | .uint _ | .float _ | .char _ | .bool _ | .str _ | .bytes _ => True
  | _ => False

/-- the computation neither reads nor writes the VM state -/
structure IsPure {α} (m : M α) : Prop where
  h : ∀ s, exec m s = (runM m, s)

theorem IsPure.of_const {α} {m : M α} (r : Except Exc α) (h : ∀ s, exec m s = (r, s)) : IsPure m := by
  constructor
  intro s
  have h0 : runM m = r := by
    show (exec m default).1 = r
    rw [h default]
  rw [h0, h s]

theorem IsPure.pure {α} (a : α) : IsPure (Pure.pure a : M α) := IsPure.of_const (.ok a) (fun _ => rfl)
theorem IsPure.throw {α} (e : Exc) : IsPure (throw e : M α) := IsPure.of_const (.error e) (fun _ => rfl)
theorem IsPure.panic {α} (m : String) : IsPure (VM.panic m : M α) := IsPure.throw _
theorem IsPure.unsupported {α} (m : String) : IsPure (VM.unsupported m : M α) := IsPure.throw _

theorem IsPure.bind {α β} {m : M α} {f : α → M β} (hm : IsPure m) (hf : ∀ a, IsPure (f a)) :
    IsPure (m >>= f) := by
  cases hr : runM m with
  | error e =>
    apply IsPure.of_const (.error e)
    intro s
    rw [exec_bind, hm.h s, hr]
  | ok a =>
    apply IsPure.of_const (runM (f a))
    intro s
    rw [exec_bind, hm.h s, hr]
    exact (hf a).h s

theorem IsPure.ite {α} {c : Prop} [Decidable c] {a b : M α} (ha : IsPure a) (hb : IsPure b) :
    IsPure (if c then a else b) := by
  split <;> assumption

/-- postcondition on the returned value (whatever the state) -/
structure Post {α} (P : α → Prop) (m : M α) : Prop where
  h : ∀ s a s', exec m s = (.ok a, s') → P a

theorem Post.pure {α} {P : α → Prop} {a : α} (h : P a) : Post P (Pure.pure a : M α) := by
  constructor
  intro s b s' hb
  cases hb
  exact h

theorem Post.throw {α} {P : α → Prop} (e : Exc) : Post P (throw e : M α) := by
  constructor
  intro s b s' hb
  cases hb

theorem Post.panic {α} {P : α → Prop} (m : String) : Post P (VM.panic m : M α) := Post.throw _
theorem Post.unsupported {α} {P : α → Prop} (m : String) : Post P (VM.unsupported m : M α) := Post.throw _

theorem Post.bind {α β} {P : β → Prop} {m : M α} {f : α → M β} (hf : ∀ a, Post P (f a)) :
    Post P (m >>= f) := by
  constructor
  intro s b s' hb
  rw [exec_bind] at hb
  cases hm : exec m s with
  | mk x s1 =>
    rw [hm] at hb
    cases x with
    | error e => simp at hb
    | ok a => exact (hf a).h s1 b s' hb

theorem Post.of_runM {α} {P : α → Prop} {m : M α} (h : Post P m) {a : α} (hr : runM m = .ok a) : P a := by
  have h1 : (exec m default).1 = .ok a := hr
  have : exec m default = (.ok a, (exec m default).2) := by
    rw [← h1]
  exact h.h default a _ this

/-! operator layer on scalars -/

theorem isFalsy_pure {v : V} (h : Scalar v) : IsPure (isFalsy v) := by
  cases v <;> simp only [Scalar] at h <;> exact IsPure.pure _

theorem vString_pure {v : V} (h : Scalar v) : IsPure (vString v) := by
  cases v <;> simp only [Scalar] at h <;> unfold vString <;>
    first | exact IsPure.pure _ | exact IsPure.unsupported _

theorem toValShallow_scalar {v : V} (h : Scalar v) : ∃ a, toValShallow v = some a := by
  cases v <;> simp only [Scalar] at h <;> exact ⟨_, rfl⟩

theorem ofScalarVal_scalar {a : Val} {v : V} (h : ofScalarVal a = some v) : Scalar v := by
  cases a <;> simp only [ofScalarVal, Option.some.injEq, reduceCtorEq] at h <;> subst h <;> trivial

theorem vBinaryOp_pure (F : FloatOps) (tok : Tok) {l r : V} (hl : Scalar l) (hr : Scalar r) :
    IsPure (vBinaryOp F tok l r) := by
  obtain ⟨a, ha⟩ := toValShallow_scalar hl
  obtain ⟨b, hb⟩ := toValShallow_scalar hr
  cases l <;> simp only [Scalar] at hl <;> simp only [vBinaryOp, ha, hb] <;>
    repeat (first
      | exact IsPure.pure _ | exact IsPure.unsupported _ | exact IsPure.panic _
      | exact vString_pure hr
      | apply IsPure.bind
      | intro _
      | split)

theorem vBinaryOp_post (F : FloatOps) (tok : Tok) {l r : V} (hl : Scalar l) (hr : Scalar r) :
    Post (fun x => ∀ v, x = .ok v → Scalar v) (vBinaryOp F tok l r) := by
  obtain ⟨a, ha⟩ := toValShallow_scalar hl
  obtain ⟨b, hb⟩ := toValShallow_scalar hr
  cases l <;> simp only [Scalar] at hl <;> simp only [vBinaryOp, ha, hb] <;>
    repeat (first
      | exact Post.unsupported _ | exact Post.panic _
      | exact Post.pure (by intro v hv; cases hv; exact ofScalarVal_scalar ‹_›)
      | exact Post.pure (by intro v hv; cases hv)
      | apply Post.bind
      | intro _
      | split)

theorem vUnary_pure (F : FloatOps) (tok : Tok) {x : V} (hx : Scalar x) : IsPure (vUnary F tok x) := by
  obtain ⟨a, ha⟩ := toValShallow_scalar hx
  cases x <;> simp only [Scalar] at hx <;> simp only [vUnary, ha] <;>
    repeat (first
      | exact IsPure.pure _ | exact IsPure.unsupported _ | exact IsPure.panic _
      | exact isFalsy_pure (by trivial)
      | apply IsPure.bind
      | intro _
      | split)

theorem vUnary_post (F : FloatOps) (tok : Tok) {x : V} (hx : Scalar x) :
    Post (fun r => ∀ v, r = .ok v → Scalar v) (vUnary F tok x) := by
  obtain ⟨a, ha⟩ := toValShallow_scalar hx
  cases x <;> simp only [Scalar] at hx <;> simp only [vUnary, ha] <;>
    repeat (first
      | exact Post.unsupported _ | exact Post.panic _
      | exact Post.pure (by intro v hv; cases hv; exact ofScalarVal_scalar ‹_›)
      | exact Post.pure (by intro v hv; cases hv; trivial)
      | exact Post.pure (by intro v hv; cases hv)
      | apply Post.bind
      | intro _
      | split)

theorem vEqual_pure (F : FloatOps) {l r : V} (hl : Scalar l) (hr : Scalar r) : IsPure (vEqual F l r) := by
  have : ∃ b, ∀ s, exec (vEqual F l r) s = (.ok b, s) := by
    cases l <;> simp only [Scalar] at hl <;> cases r <;> simp only [Scalar] at hr <;> exact ⟨_, fun s => rfl⟩
  obtain ⟨b, hb⟩ := this
  exact IsPure.of_const _ hb

end UgoVerif.Proofs.OptimSem
