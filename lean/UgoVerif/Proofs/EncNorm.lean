import UgoVerif.Spec.EncNorm
/-
  Helper lemmas for C04: `mapOfList` (Go map assignments in list order) is the identity
  on lists without repeated keys and is idempotent; `norm` is idempotent and is the
  identity on well-formed values.
-/
namespace UgoVerif.Proofs.Enc
open UgoVerif.Go UgoVerif.Model.Enc UgoVerif.Spec.Enc

section mapset
variable {κ ν : Type} [BEq κ] [LawfulBEq κ]

def keys (m : List (κ × ν)) : List κ := m.map (·.1)

theorem mapSet_notin (m : List (κ × ν)) (k : κ) (v : ν) (h : k ∉ keys m) : mapSet m k v = m ++ [(k, v)] := by
  induction m with
  | nil => rfl
  | cons kv rest ih =>
    obtain ⟨k', v'⟩ := kv
    simp only [keys, List.map_cons, List.mem_cons, not_or] at h
    have hne : (k' == k) = false := by
      rw [beq_eq_false_iff_ne]; exact fun e => h.1 e.symm
    simp only [mapSet, hne, Bool.false_eq_true, if_false, List.cons_append]
    rw [ih (by simpa [keys] using h.2)]

theorem keys_mapSet_mem (m : List (κ × ν)) (k : κ) (v : ν) (h : k ∈ keys m) : keys (mapSet m k v) = keys m := by
  induction m with
  | nil => simp [keys] at h
  | cons kv rest ih =>
    obtain ⟨k', v'⟩ := kv
    by_cases hk : k' = k
    · subst hk; simp [mapSet, keys]
    · have hne : (k' == k) = false := by rw [beq_eq_false_iff_ne]; exact hk
      have hmem : k ∈ keys rest := by
        simp only [keys, List.map_cons, List.mem_cons] at h
        rcases h with h | h
        · exact absurd h.symm hk
        · exact h
      simp only [mapSet, hne, Bool.false_eq_true, if_false, keys, List.map_cons]
      have := ih hmem
      simp only [keys] at this
      rw [this]

theorem nodup_keys_mapSet (m : List (κ × ν)) (k : κ) (v : ν) (h : (keys m).Nodup) : (keys (mapSet m k v)).Nodup := by
  by_cases hk : k ∈ keys m
  · rw [keys_mapSet_mem m k v hk]; exact h
  · rw [mapSet_notin m k v hk]
    simp only [keys, List.map_append, List.map_cons, List.map_nil]
    rw [List.nodup_append]
    refine ⟨h, by simp, ?_⟩
    intro a ha b hb
    simp at hb; subst hb
    intro e; subst e; exact hk ha

theorem foldl_mapSet_nodup (l : List (κ × ν)) : ∀ acc : List (κ × ν), (keys acc).Nodup →
    (keys (l.foldl (fun m kv => mapSet m kv.1 kv.2) acc)).Nodup := by
  induction l with
  | nil => intro acc h; exact h
  | cons kv rest ih => intro acc h; exact ih _ (nodup_keys_mapSet acc kv.1 kv.2 h)

theorem nodup_keys_mapOfList (l : List (κ × ν)) : (keys (mapOfList l)).Nodup :=
  foldl_mapSet_nodup l [] (by simp [keys])

theorem foldl_mapSet_of_nodup (l : List (κ × ν)) : ∀ acc : List (κ × ν), (keys (acc ++ l)).Nodup →
    l.foldl (fun m kv => mapSet m kv.1 kv.2) acc = acc ++ l := by
  induction l with
  | nil => intro acc _; simp
  | cons kv rest ih =>
    intro acc h
    obtain ⟨k, v⟩ := kv
    have hk : k ∉ keys acc := by
      simp only [keys, List.map_append, List.map_cons] at h
      rw [List.nodup_append] at h
      intro hmem
      exact h.2.2 k (by simpa [keys] using hmem) k (by simp) rfl
    simp only [List.foldl_cons]
    rw [mapSet_notin acc k v hk, ih _ (by simpa using h)]
    simp

/-- a list without repeated keys already is the Go map it denotes -/
theorem mapOfList_of_nodup (l : List (κ × ν)) (h : (keys l).Nodup) : mapOfList l = l := by
  have := foldl_mapSet_of_nodup l [] (by simpa using h)
  simpa [mapOfList] using this

theorem mapOfList_idem (l : List (κ × ν)) : mapOfList (mapOfList l) = mapOfList l :=
  mapOfList_of_nodup _ (nodup_keys_mapOfList l)

omit [LawfulBEq κ] in
theorem mapSet_mapVal (f : ν → ν) (m : List (κ × ν)) (k : κ) (v : ν) :
    (mapSet m k v).map (fun kv => (kv.1, f kv.2)) = mapSet (m.map (fun kv => (kv.1, f kv.2))) k (f v) := by
  induction m with
  | nil => rfl
  | cons kv rest ih =>
    obtain ⟨k', v'⟩ := kv
    by_cases hk : (k' == k) = true
    · simp [mapSet, hk]
    · simp only [mapSet, hk, Bool.false_eq_true, if_false, List.map_cons]
      rw [ih]

omit [LawfulBEq κ] in
theorem foldl_mapSet_mapVal (f : ν → ν) (l : List (κ × ν)) : ∀ acc : List (κ × ν),
    (l.foldl (fun m kv => mapSet m kv.1 kv.2) acc).map (fun kv => (kv.1, f kv.2)) =
      (l.map (fun kv => (kv.1, f kv.2))).foldl (fun m kv => mapSet m kv.1 kv.2) (acc.map (fun kv => (kv.1, f kv.2))) := by
  induction l with
  | nil => intro acc; rfl
  | cons kv rest ih =>
    intro acc
    simp only [List.foldl_cons, List.map_cons]
    rw [ih, mapSet_mapVal]

omit [LawfulBEq κ] in
theorem mapOfList_mapVal (f : ν → ν) (l : List (κ × ν)) :
    (mapOfList l).map (fun kv => (kv.1, f kv.2)) = mapOfList (l.map (fun kv => (kv.1, f kv.2))) := by
  simpa [mapOfList] using foldl_mapSet_mapVal f l []

end mapset

/-! ### `norm` -/

theorem normKVs_eq_map (kvs : List (Bytes × Obj)) : normKVs kvs = kvs.map (fun kv => (kv.1, norm kv.2)) := by
  induction kvs with
  | nil => rfl
  | cons kv rest ih => obtain ⟨k, v⟩ := kv; simp [normKVs, ih]

theorem normKVs_mapOfList (kvs : List (Bytes × Obj)) : normKVs (mapOfList kvs) = mapOfList (normKVs kvs) := by
  rw [normKVs_eq_map, normKVs_eq_map, mapOfList_mapVal]

theorem normCF_idem (f : CF) : normCF (normCF f) = normCF f := by
  obtain ⟨np, nl, ins, va, nf, sm⟩ := f
  unfold normCF
  simp only
  have h0 : ∀ v : BitVec 64, (if 0 < (if 0 < v.toInt then v else 0).toInt then (if 0 < v.toInt then v else 0) else 0) =
      (if 0 < v.toInt then v else 0) := by
    intro v; by_cases h : 0 < v.toInt <;> simp [h]
  rw [h0, h0]
  cases sm with
  | none => rfl
  | some sm => simp [mapOfList_idem]

mutual
theorem norm_idem : ∀ o : Obj, norm (norm o) = norm o
  | .array xs => by simp only [norm]; rw [normList_idem xs]
  | .map kvs => by
    simp only [norm]
    rw [normKVs_mapOfList, normKVs_idem kvs, mapOfList_idem]
  | .syncMap true kvs => by simp [norm]
  | .syncMap false kvs => by
    simp only [norm]
    rw [normKVs_mapOfList, normKVs_idem kvs, mapOfList_idem]
  | .compiledFunction f => by simp only [norm]; rw [normCF_idem]
  | .nil => rfl
  | .undefined => rfl
  | .bool _ => rfl
  | .int _ => rfl
  | .uint _ => rfl
  | .char _ => rfl
  | .float _ => rfl
  | .str _ => rfl
  | .bytes _ => rfl
  | .function _ => rfl
  | .builtinFunction _ => rfl
  | .gob _ _ => rfl
theorem normList_idem : ∀ xs : List Obj, normList (normList xs) = normList xs
  | [] => rfl
  | x :: xs => by simp only [normList]; rw [norm_idem x, normList_idem xs]
theorem normKVs_idem : ∀ kvs : List (Bytes × Obj), normKVs (normKVs kvs) = normKVs kvs
  | [] => rfl
  | (k, v) :: kvs => by simp only [normKVs]; rw [norm_idem v, normKVs_idem kvs]
end

theorem normBC_idem (bc : BC) : normBC (normBC bc) = normBC bc := by
  obtain ⟨fs, mn, cs, nm⟩ := bc
  unfold normBC
  simp only
  have h0 : (if 0 < (if 0 < nm.toInt then nm else 0).toInt then (if 0 < nm.toInt then nm else 0) else 0) =
      (if 0 < nm.toInt then nm else 0) := by
    by_cases h : 0 < nm.toInt <;> simp [h]
  rw [h0]
  cases mn <;> cases cs <;> simp [normCF_idem, normList_idem]

/-- well-formed compiled function: what the compiler produces as a constant -/
structure WFCF (f : CF) : Prop where
  params : 0 ≤ f.numParams.toInt
  locals : 0 ≤ f.numLocals.toInt
  noFree : f.numFree = 0
  smKeys : ∀ sm, f.sourceMap = some sm → (keys sm).Nodup

theorem normCF_of_WF (f : CF) (h : WFCF f) : normCF f = f := by
  obtain ⟨np, nl, ins, va, nf, sm⟩ := f
  obtain ⟨h1, h2, h3, h4⟩ := h
  simp only at h1 h2 h3 h4
  unfold normCF
  simp only
  have e1 : (if 0 < np.toInt then np else 0) = np := by
    split
    · rfl
    · have : np.toInt = 0 := by omega
      exact (BitVec.toInt_inj.mp (by simpa using this)).symm
  have e2 : (if 0 < nl.toInt then nl else 0) = nl := by
    split
    · rfl
    · have : nl.toInt = 0 := by omega
      exact (BitVec.toInt_inj.mp (by simpa using this)).symm
  rw [e1, e2, h3]
  cases sm with
  | none => rfl
  | some sm => simp [mapOfList_of_nodup sm (h4 sm rfl)]

mutual
/-- well-formed values: map keys are unique (they are Go maps), a nil SyncMap has no entries,
    compiled functions are well-formed -/
def WF : Obj → Prop
  | .array xs => WFL xs
  | .map kvs => (keys kvs).Nodup ∧ WFKV kvs
  | .syncMap true kvs => kvs = []
  | .syncMap false kvs => (keys kvs).Nodup ∧ WFKV kvs
  | .compiledFunction f => WFCF f
  | _ => True
def WFL : List Obj → Prop
  | [] => True
  | x :: xs => WF x ∧ WFL xs
def WFKV : List (Bytes × Obj) → Prop
  | [] => True
  | (_, v) :: rest => WF v ∧ WFKV rest
end

mutual
/-- on well-formed values the round trip changes nothing at all -/
theorem norm_of_WF : ∀ o : Obj, WF o → norm o = o
  | .array xs, h => by simp only [norm]; rw [normList_of_WF xs (by simpa [WF] using h)]
  | .map kvs, h => by
    simp only [WF] at h
    simp only [norm]
    rw [normKVs_of_WF kvs h.2, mapOfList_of_nodup kvs h.1]
  | .syncMap true kvs, h => by simp only [WF] at h; subst h; rfl
  | .syncMap false kvs, h => by
    simp only [WF] at h
    simp only [norm]
    rw [normKVs_of_WF kvs h.2, mapOfList_of_nodup kvs h.1]
  | .compiledFunction f, h => by simp only [norm]; rw [normCF_of_WF f (by simpa [WF] using h)]
  | .nil, _ => rfl
  | .undefined, _ => rfl
  | .bool _, _ => rfl
  | .int _, _ => rfl
  | .uint _, _ => rfl
  | .char _, _ => rfl
  | .float _, _ => rfl
  | .str _, _ => rfl
  | .bytes _, _ => rfl
  | .function _, _ => rfl
  | .builtinFunction _, _ => rfl
  | .gob _ _, _ => rfl
theorem normList_of_WF : ∀ xs : List Obj, WFL xs → normList xs = xs
  | [], _ => rfl
  | x :: xs, h => by
    simp only [WFL] at h
    simp only [normList]; rw [norm_of_WF x h.1, normList_of_WF xs h.2]
theorem normKVs_of_WF : ∀ kvs : List (Bytes × Obj), WFKV kvs → normKVs kvs = kvs
  | [], _ => rfl
  | (k, v) :: kvs, h => by
    simp only [WFKV] at h
    simp only [normKVs]; rw [norm_of_WF v h.1, normKVs_of_WF kvs h.2]
end

end UgoVerif.Proofs.Enc

namespace UgoVerif.Proofs.Enc
open UgoVerif.Go UgoVerif.Model.Enc UgoVerif.Spec.Enc

/-! ### `fixObjects` re-binds module items -/

theorem goType_norm (o : Obj) : goType (norm o) = goType o := by
  cases o with
  | syncMap b kvs => cases b <;> rfl
  | _ => rfl

theorem lookupKV_normKVs (k : Bytes) (kvs : List (Bytes × Obj)) :
    lookupKV k (normKVs kvs) = (lookupKV k kvs).map norm := by
  induction kvs with
  | nil => rfl
  | cons kv rest ih =>
    obtain ⟨k', v⟩ := kv
    simp only [normKVs, lookupKV]
    split
    · rfl
    · exact ih

/-- every item of a decoded module map whose key the module defines with the same Go type
    is replaced by the module's live object; the module-name entry is kept -/
theorem fixItems_rebinds (attrs : List (Bytes × Obj)) (name : Bytes) : ∀ (items : List (Bytes × Obj)),
    (∀ k v, (k, v) ∈ items → (k = attrModuleName ∧ v = .str name) ∨
      (k ≠ attrModuleName ∧ lookupKV k attrs = some v)) →
    fixItems attrs (normKVs items) = .ok items := by
  intro items
  induction items with
  | nil => intro _; rfl
  | cons kv rest ih =>
    intro h
    obtain ⟨k, v⟩ := kv
    have hrest := ih (fun k' v' hm => h k' v' (List.mem_cons_of_mem _ hm))
    simp only [normKVs, fixItems]
    rcases h k v (List.mem_cons_self ..) with ⟨hk, hv⟩ | ⟨hk, hv⟩
    · subst hk; subst hv
      simp [hrest, norm]
    · have hne : (k == attrModuleName) = false := by rw [beq_eq_false_iff_ne]; exact hk
      simp only [hne, Bool.false_eq_true, if_false, hv, Option.getD_some, goType_norm, bne_self_eq_false, hrest]
      rfl

/-- `fix_rebinds`: decoding the encoding of an imported builtin-module constant and running
    `fixObjects` with the same module map gives back the constant with its live objects:
    the name lookup succeeds and every Go-type check passes (`goType (norm v) = goType v`). -/
theorem fix_rebinds (mods : Mods) (name : Bytes) (attrs items : List (Bytes × Obj))
    (hm : mods name = some attrs)
    (hname : lookupKV attrModuleName items = some (.str name))
    (hitems : ∀ k v, (k, v) ∈ items → (k = attrModuleName ∧ v = .str name) ∨
      (k ≠ attrModuleName ∧ lookupKV k attrs = some v)) :
    fixConst mods (.map (normKVs items)) = .ok (.map items) := by
  unfold fixConst
  simp only [lookupKV_normKVs, hname, Option.map_some, norm, hm, fixItems_rebinds attrs name items hitems]
  rfl

end UgoVerif.Proofs.Enc
