import UgoVerif.Proofs.CompileWalk
import UgoVerif.Proofs.CompileScan
/-
  C05 / C16 (round 5): both operands of every SETUPTRY lie STRICTLY inside the instruction stream
  (`TryLt`).  The predicate is kept by appending an instruction whose SETUPTRY operands are
  boundaries of the old stream (`emit`: the new stream is longer) and by patching an instruction
  whose SETUPTRY operands are strictly below the current length (`changeOperand`).
-/
namespace UgoVerif.Compile
open UgoVerif UgoVerif.Go UgoVerif.Ast

/-- both operands of every SETUPTRY are strictly below the length of the stream -/
def TryLt (a : Array UInt8) : Prop :=
  ∀ p op, Bd a p → a[p]? = some op → op.toNat = OpSetupTry →
    readBE a (p + 1) 4 < a.size ∧ readBE a (p + 5) 4 < a.size

theorem TryLt.empty : TryLt #[] := fun _ _ hbd _ _ => absurd hbd.2 (by simp)

/-- the two operands of a SETUPTRY whose bytes are untouched read the same -/
theorem tryReads_congr {a a' : Array UInt8} {p : Nat} (hb : ∀ k, k < 8 → a'[p + 1 + k]? = a[p + 1 + k]?) :
    readBE a' (p + 1) 4 = readBE a (p + 1) 4 ∧ readBE a' (p + 5) 4 = readBE a (p + 5) 4 := by
  refine ⟨readBE4_congr (fun k hk => hb k (by omega)), ?_⟩
  apply readBE4_congr
  intro k hk
  have := hb (4 + k) (by omega)
  have e : p + 1 + (4 + k) = p + 5 + k := by omega
  rw [e] at this
  exact this

/-- `emit`: appending an instruction whose SETUPTRY operands are boundaries of the old stream -/
theorem TryLt.append_inst {L : Lims} {a : Array UInt8} {op : Nat} {args : List Int} {bs : List UInt8}
    (hw : Walk a 0 a.size) (ht : TryLt a) (hop : op < numOpcodes)
    (hm : makeInstruction op args = .ok bs) (ha : ArgsOK L a op args) : TryLt (a ++ bs.toArray) := by
  obtain ⟨rest, hbs, hl⟩ := makeInstruction_ok hm
  subst hbs
  have hpre : Pre a (a ++ (UInt8.ofNat op :: rest).toArray) :=
    ⟨by simp, fun k hk => by simp [Array.getElem?_append, hk]⟩
  have hto : (UInt8.ofNat op).toNat = op := by
    simp [UInt8.toNat_ofNat']
    unfold numOpcodes at hop
    omega
  have hw' := hw.pre hpre
  have hnew : (a ++ (UInt8.ofNat op :: rest).toArray)[a.size]? = some (UInt8.ofNat op) := by
    simp [Array.getElem?_append]
  have hsz : (a ++ (UInt8.ofNat op :: rest).toArray).size = a.size + 1 + rest.length := by
    simp; omega
  intro p opb hbd hget htry
  rcases Nat.lt_or_ge p a.size with hlt | hge
  · have hbdp : Walk a 0 p := Walk.restrict hw hpre hbd.1 (by omega)
    have hgeta : a[p]? = some opb := by rw [← hpre.2 p hlt]; exact hget
    have hold := ht p opb ⟨hbdp, hlt⟩ hgeta htry
    have hfit := Bd.fit ⟨hbdp, hlt⟩ hw hgeta
    have hwd : opWidth opb.toNat = 8 := by rw [htry]; rfl
    obtain ⟨e1, e2⟩ := tryReads_congr (a := a) (a' := a ++ (UInt8.ofNat op :: rest).toArray) (p := p)
      (fun k hk => hpre.2 _ (by omega))
    rw [e1, e2, hsz]
    omega
  · have hpe : p = a.size := by
      rcases hw'.comparable hbd.1 with h | h
      · cases h with
        | refl => rfl
        | step op' h1 h2 h3 h4 =>
          have : op' = UInt8.ofNat op := by rw [hnew] at h1; injection h1 with h; exact h.symm
          subst this
          have hle := h4.le
          have hlt := hbd.2
          rw [hto] at hle
          simp [hl] at hlt
          omega
      · have := h.le; omega
    subst hpe
    have hopb : opb = UInt8.ofNat op := by rw [hnew] at hget; injection hget with h; exact h.symm
    subst hopb
    rw [hto] at htry
    have hat : InstAt (a ++ (UInt8.ofNat op :: rest).toArray) a.size (UInt8.ofNat op :: rest) := by
      intro k hk
      rw [Array.getElem?_append_right (by omega)]
      simp
    obtain ⟨t1, t2, hargs, h1, h2⟩ := ha.2.1 htry
    subst htry
    obtain ⟨e1, e2⟩ := inst_read_try hm hargs hat
    have l1 := h1.le_size (Nat.zero_le _)
    have l2 := h2.le_size (Nat.zero_le _)
    rw [e1, e2, hsz]
    omega

/-- `changeOperand`: patching an instruction; if it is a SETUPTRY, the new operands are strictly
    below the length of the stream -/
theorem TryLt.patch_inst {a : Array UInt8} {q : Nat} {opq : UInt8} {args : List Int} {bs : List UInt8}
    (hw : Walk a 0 a.size) (ht : TryLt a) (hq : Walk a 0 q) (hop : a[q]? = some opq)
    (hm : makeInstruction opq.toNat args = .ok bs)
    (ha : opq.toNat = OpSetupTry → ∃ t1 t2 : Nat, args = [(t1 : Int), (t2 : Int)] ∧ t1 < a.size ∧ t2 < a.size) :
    TryLt (patch a q bs) := by
  obtain ⟨rest, hbs, hl⟩ := makeInstruction_ok hm
  subst hbs
  have hofn : UInt8.ofNat opq.toNat = opq := by simp
  rw [hofn] at hm ⊢
  have hqs := getElem?_lt_of_some hop
  have hfit := Bd.fit ⟨hq, hqs⟩ hw hop
  intro p opb hbd hget htry
  have hbdp : Bd a p := ⟨Walk.unpatch_inst hbd.1 hq hop hl hfit, by have := hbd.2; rwa [size_patch] at this⟩
  have hwd : opWidth opb.toNat = 8 := by rw [htry]; rfl
  rw [size_patch]
  rcases Nat.lt_trichotomy p q with hlt | heq | hgt
  · -- before the patched instruction
    have hgeta : a[p]? = some opb := by rw [← patch_get_lt _ _ _ _ hlt]; exact hget
    have hnext : p + 1 + opWidth opb.toNat ≤ q := by
      rcases hbdp.1.comparable hq with h | h
      · cases h with
        | refl => omega
        | step op' h1 h2 h3 h4 =>
          have : op' = opb := by rw [hgeta] at h1; injection h1 with h; exact h.symm
          subst this; exact h4.le
      · have := h.le; omega
    obtain ⟨e1, e2⟩ := tryReads_congr (a := a) (a' := patch a q (opq :: rest)) (p := p)
      (fun k hk => patch_get_lt _ _ _ _ (by omega))
    rw [e1, e2]
    exact ht p opb hbdp hgeta htry
  · subst heq
    have hopb : opb = opq := by rw [patch_get_head _ _ _ _ hqs] at hget; injection hget with h; exact h.symm
    subst hopb
    have hat : InstAt (patch a p (opb :: rest)) p (opb :: rest) :=
      fun k hk => patch_get_mid _ _ _ _ hk (by simp [hl]; omega)
    obtain ⟨t1, t2, hargs, h1, h2⟩ := ha htry
    rw [htry] at hm
    obtain ⟨e1, e2⟩ := inst_read_try hm hargs hat
    rw [e1, e2]
    exact ⟨h1, h2⟩
  · -- after the patched instruction
    have hnext : q + 1 + opWidth opq.toNat ≤ p := by
      rcases hq.comparable hbdp.1 with h | h
      · cases h with
        | refl => omega
        | step op' h1 h2 h3 h4 =>
          have : op' = opq := by rw [hop] at h1; injection h1 with h; exact h.symm
          subst this; exact h4.le
      · have := h.le; omega
    have hgeta : a[p]? = some opb := by
      rw [← patch_get_ge (opq :: rest) a q p (by simp [hl]; omega)]; exact hget
    obtain ⟨e1, e2⟩ := tryReads_congr (a := a) (a' := patch a q (opq :: rest)) (p := p)
      (fun k hk => patch_get_ge _ _ _ _ (by simp [hl]; omega))
    rw [e1, e2]
    exact ht p opb hbdp hgeta htry

end UgoVerif.Compile
