import UgoVerif.Proofs.SrcMapMain
/-
  C16, compile side, the statement for users: `FnCov lab f` in terms of instruction boundaries
  (`Bd`, Proofs/CompileWalk.lean) and lookups in the source map, derived from `FnSM`; and
  `labSs (fun _ => 0)` holds of every AST (the coverage part needs no hypothesis on the script).
-/
namespace UgoVerif.Compile
open UgoVerif UgoVerif.Go UgoVerif.Ast

theorem smGet_isSome_of_mem : ∀ (m : List (Nat × Nat)) (k : Nat), k ∈ keys m → ∃ v, smGet m k = some v
  | [], _, h => by simp at h
  | (k', v') :: r, k, h => by
    simp only [smGet]
    split
    · exact ⟨_, rfl⟩
    · rename_i hne
      simp only [keys_cons, List.mem_cons] at h
      rcases h with h | h
      · exact absurd h.symm hne
      · exact smGet_isSome_of_mem r k h

theorem Chain.head_eq {a : Array UInt8} {i k : Nat} {ks : List Nat} (h : Chain a (k :: ks) i) : i = k := by
  cases h; rfl

theorem opWidth_call {b : UInt8} (h : (b.toNat == OpCall || b.toNat == OpCallName) = true) : opWidth b.toNat = 2 := by
  simp only [Bool.or_eq_true, beq_iff_eq] at h
  rcases h with h | h <;> rw [h] <;> rfl

/-- a call that is not the last instruction is followed, three bytes later, by an instruction whose
    recorded position has the same label -/
theorem calls_cov (lab : Nat → Nat) (a : Array UInt8) : ∀ (m : List (Nat × Nat)) (i : Nat), Chain a (keys m) i →
    CallsOK lab a m → lastCall a m = none → ∀ p, p ∈ keys m → isCallAt a p = true →
      (p + 3) ∈ keys m ∧ ∃ v v', smGet m p = some v ∧ smGet m (p + 3) = some v' ∧ lab v = lab v'
  | [], _, _, _, _, p, hp, _ => by simp at hp
  | [x], _, _, _, hlast, p, hp, hc => by
    simp only [keys_cons, keys_nil, List.mem_singleton] at hp
    subst hp
    simp [lastCall, hc] at hlast
  | x :: y :: r, i, hch, hcalls, hlast, p, hp, hc => by
    simp only [keys_cons] at hch
    cases hch with
    | cons op h1 h2 h3 h4 =>
      have hy : x.1 + 1 + opWidth op.toNat = y.1 := Chain.head_eq h4
      simp only [keys_cons, List.mem_cons] at hp
      rcases hp with hp | hp
      · -- the call is the first entry
        subst hp
        have hw : opWidth op.toNat = 2 := by
          apply opWidth_call
          simpa [isCallAt, h1] using hc
        have hy3 : y.1 = x.1 + 3 := by omega
        refine ⟨by simp [hy3], x.2, y.2, by simp [smGet], ?_, hcalls.1 hc⟩
        simp only [smGet]
        rw [if_neg (by omega), if_pos hy3]
      · have hlast' : lastCall a (y :: r) = none := by
          simpa [lastCall, List.getLast?_cons_cons] using hlast
        have hp' : p ∈ keys (y :: r) := by simpa using hp
        obtain ⟨hk, v, v', hv, hv', hlab⟩ := calls_cov lab a (y :: r) _ (by simpa using h4) hcalls.2 hlast' p hp' hc
        have hge := Chain.ge (by simpa using h4 : Chain a (keys (y :: r)) _) p hp'
        refine ⟨by simp only [keys_cons, List.mem_cons]; right; simpa using hk, v, v', ?_, ?_, hlab⟩
        · simp only [smGet]; rw [if_neg (by omega)]; exact hv
        · simp only [smGet]; rw [if_neg (by omega)]; exact hv'

/-- what the run-time lookup of positions needs of a compiled function -/
structure FnCov (lab : Nat → Nat) (f : CFn) : Prop where
  /-- the stream decodes completely -/
  decodes : Walk f.insts 0 f.insts.size
  /-- every instruction start has its own source-map entry -/
  entry : ∀ p, Bd f.insts p → ∃ v, smGet f.sourceMap p = some v
  /-- the three bytes after a CALL / CALLNAME opcode at an instruction start `p` are followed by an
      instruction start `p + 3` (a call is never the last instruction), whose own entry carries the same
      label as the entry of the call -/
  call : ∀ p, Bd f.insts p → isCallAt f.insts p = true →
    Bd f.insts (p + 3) ∧ ∃ v v', smGet f.sourceMap p = some v ∧ smGet f.sourceMap (p + 3) = some v' ∧ lab v = lab v'

theorem FnSM.cov {lab : Nat → Nat} {f : CFn} (h : FnSM lab f) : FnCov lab f := by
  refine ⟨h.chain.walk, ?_, ?_⟩
  · intro p hp
    exact smGet_isSome_of_mem _ _ (Chain.mem_of_walk hp.1 h.chain hp.2)
  · intro p hp hc
    have hk := Chain.mem_of_walk hp.1 h.chain hp.2
    obtain ⟨hk3, hrest⟩ := calls_cov lab f.insts f.sourceMap 0 h.chain h.calls.1 h.calls.2 p hk hc
    exact ⟨⟨h.chain.walk_to _ hk3, h.chain.lt _ hk3⟩, hrest⟩

/-- **sourcemap_covers** for the total compile model: in the bytecode `compileFile` returns for a
    script labelled one statement per label, the main function and every function constant satisfy
    `FnCov lab`. -/
theorem compileFile_cov (lab : Nat → Nat) (builtins : List (String × Nat)) (disabled : List String) (file : List Stmt)
    (hl : labSs lab file = true) (bc : Bytecode) (h : compileFile builtins disabled file = .ok bc) :
    FnCov lab bc.main ∧ ∀ g, Const.fn g ∈ bc.constants.toList → FnCov lab g := by
  obtain ⟨hI, hT⟩ := sinv_initState lab builtins disabled
  have hp := post_compileProg lab file hl _ hI hT
  have hrun : ∃ s', runCM (compileProg file) (initState builtins disabled) = (.ok bc, s') := by
    unfold compileFile at h
    change (runCM (compileProg file) (initState builtins disabled)).1 = .ok bc at h
    cases hr : runCM (compileProg file) (initState builtins disabled) with
    | mk r s' => rw [hr] at h; simp only at h; subst h; exact ⟨s', rfl⟩
  obtain ⟨s', hrun⟩ := hrun
  obtain ⟨h1, h2⟩ := hp bc s' hrun
  exact ⟨h1.cov, fun g hg => (h2 g hg).cov⟩

/-! ### the trivial labelling -/

abbrev lab0 : Nat → Nat := fun _ => 0

structure AllLab0 (n : Nat) : Prop where
  expr : ∀ e, sizeOf e < n → labE lab0 0 e = true
  exprs : ∀ es, sizeOf es < n → labEs lab0 0 es = true
  ms : ∀ ms, sizeOf ms < n → labMs lab0 0 ms = true
  vals : ∀ vs, sizeOf vs < n → labVals lab0 0 vs = true
  specs : ∀ sp, sizeOf sp < n → labSpecs lab0 0 sp = true
  stmts : ∀ ss, sizeOf ss < n → labSs lab0 ss = true
  stmt : ∀ st, sizeOf st < n → labS lab0 st = true

theorem allLab0 : ∀ n, AllLab0 n
  | 0 => ⟨fun _ h => by omega, fun _ h => by omega, fun _ h => by omega, fun _ h => by omega,
          fun _ h => by omega, fun _ h => by omega, fun _ h => by omega⟩
  | n + 1 => by
    have ih := allLab0 n
    refine ⟨?_, ?_, ?_, ?_, ?_, ?_, ?_⟩
    · intro e hsz
      cases e with
      | array p es => simp only [labE, Bool.and_eq_true, beq_iff_eq]; exact ⟨trivial, ih.exprs es (by szz)⟩
      | map p ms => simp only [labE, Bool.and_eq_true, beq_iff_eq]; exact ⟨trivial, ih.ms ms (by szz)⟩
      | unary p t e => simp only [labE, Bool.and_eq_true, beq_iff_eq]; exact ⟨trivial, ih.expr e (by szz)⟩
      | binary p t x y =>
        simp only [labE, Bool.and_eq_true, beq_iff_eq]; exact ⟨⟨trivial, ih.expr x (by szz)⟩, ih.expr y (by szz)⟩
      | cond p c t f =>
        simp only [labE, Bool.and_eq_true, beq_iff_eq]
        exact ⟨⟨⟨trivial, ih.expr c (by szz)⟩, ih.expr t (by szz)⟩, ih.expr f (by szz)⟩
      | paren p e => rw [labE]; exact ih.expr e (by szz)
      | index p e i => simp only [labE, Bool.and_eq_true, beq_iff_eq]; exact ⟨⟨trivial, ih.expr e (by szz)⟩, ih.expr i (by szz)⟩
      | selector p e i => simp only [labE, Bool.and_eq_true, beq_iff_eq]; exact ⟨⟨trivial, ih.expr e (by szz)⟩, ih.expr i (by szz)⟩
      | slice p e lo hi =>
        unfold labE
        simp only [Bool.and_eq_true, beq_iff_eq]
        refine ⟨⟨⟨trivial, ih.expr e (by szz)⟩, ?_⟩, ?_⟩
        · cases lo with
          | none => rfl
          | some x => exact ih.expr x (by szz)
        · cases hi with
          | none => rfl
          | some x => exact ih.expr x (by szz)
      | call p el f args =>
        simp only [labE, Bool.and_eq_true, beq_iff_eq]; exact ⟨⟨trivial, ih.expr f (by szz)⟩, ih.exprs args (by szz)⟩
      | func p v ps bp body => simp only [labE, Bool.and_eq_true, beq_iff_eq]; exact ⟨trivial, ih.stmts body (by szz)⟩
      | _ => simp [labE]
    · intro es hsz
      cases es with
      | nil => rfl
      | cons e r => simp only [labEs, Bool.and_eq_true]; exact ⟨ih.expr e (by szz), ih.exprs r (by szz)⟩
    · intro ms hsz
      cases ms with
      | nil => rfl
      | cons kv r =>
        obtain ⟨k, v⟩ := kv
        simp only [labMs, Bool.and_eq_true]; exact ⟨ih.expr v (by szz), ih.ms r (by szz)⟩
    · intro vs hsz
      cases vs with
      | nil => rfl
      | cons v r =>
        unfold labVals
        simp only [Bool.and_eq_true]
        refine ⟨?_, ih.vals r (by szz)⟩
        cases v with
        | none => rfl
        | some x => exact ih.expr x (by szz)
    · intro sp hsz
      cases sp with
      | nil => rfl
      | cons x r =>
        obtain ⟨a, b, c⟩ := x
        simp only [labSpecs, Bool.and_eq_true]; exact ⟨ih.vals c (by szz), ih.specs r (by szz)⟩
    · intro ss hsz
      cases ss with
      | nil => rfl
      | cons x r => simp only [labSs, Bool.and_eq_true]; exact ⟨ih.stmt x (by szz), ih.stmts r (by szz)⟩
    · intro st hsz
      cases st with
      | expr p e => rw [labS]; exact ih.expr e (by szz)
      | assign p t lhs rhs => simp only [labS, Bool.and_eq_true]; exact ⟨ih.exprs lhs (by szz), ih.exprs rhs (by szz)⟩
      | incdec p t tp e => simp only [labS, Bool.and_eq_true, beq_iff_eq]; exact ⟨trivial, ih.expr e (by szz)⟩
      | block p body => rw [labS]; exact ih.stmts body (by szz)
      | if_ p init c bp body els =>
        unfold labS
        simp only [Bool.and_eq_true]
        refine ⟨⟨⟨?_, ih.expr c (by szz)⟩, ih.stmts body (by szz)⟩, ?_⟩
        · cases init with
          | none => rfl
          | some i => exact ih.stmt i (by szz)
        · cases els with
          | none => rfl
          | some i => exact ih.stmt i (by szz)
      | for_ p init c post bp body =>
        unfold labS
        simp only [Bool.and_eq_true]
        refine ⟨⟨⟨?_, ?_⟩, ?_⟩, ih.stmts body (by szz)⟩
        · cases init with
          | none => rfl
          | some i => exact ih.stmt i (by szz)
        · cases c with
          | none => rfl
          | some x => exact ih.expr x (by szz)
        · cases post with
          | none => rfl
          | some i => exact ih.stmt i (by szz)
      | forin p k v it bp body => simp only [labS, Bool.and_eq_true]; exact ⟨ih.expr it (by szz), ih.stmts body (by szz)⟩
      | return_ p e =>
        unfold labS
        cases e with
        | none => rfl
        | some x => exact ih.expr x (by szz)
      | throw p e =>
        unfold labS
        cases e with
        | none => rfl
        | some x => exact ih.expr x (by szz)
      | try_ p bp body c f =>
        unfold labS
        simp only [Bool.and_eq_true]
        refine ⟨⟨ih.stmts body (by szz), ?_⟩, ?_⟩
        · cases c with
          | none => rfl
          | some cv => obtain ⟨c1, c2, c3, cb⟩ := cv; exact ih.stmts cb (by szz)
        · cases f with
          | none => rfl
          | some fv => obtain ⟨f1, f2, fb⟩ := fv; exact ih.stmts fb (by szz)
      | declValue p t specs => rw [labS]; exact ih.specs specs (by szz)
      | _ => simp [labS]

/-- every AST is labelled one statement per label by the constant labelling -/
theorem labSs_lab0 (file : List Stmt) : labSs lab0 file = true := (allLab0 (sizeOf file + 1)).stmts file (by omega)

/-- the part of `compileFile_cov` that needs nothing of the script: every instruction of every
    compiled function has its own source-map entry, and a CALL / CALLNAME is followed by an
    instruction (with its own entry) -/
theorem compileFile_cov0 (builtins : List (String × Nat)) (disabled : List String) (file : List Stmt)
    (bc : Bytecode) (h : compileFile builtins disabled file = .ok bc) :
    FnCov lab0 bc.main ∧ ∀ g, Const.fn g ∈ bc.constants.toList → FnCov lab0 g :=
  compileFile_cov lab0 builtins disabled file (labSs_lab0 file) bc h

end UgoVerif.Compile
