import UgoVerif.Proofs.ShiftThrow
/-
  C14, `frame_shift`: the handler opcodes SETUPTRY, SETUPCATCH, SETUPFINALLY, FINALIZER and THROW under the
  offset relation `Sh`.
-/
set_option linter.unusedSimpArgs false
set_option linter.unusedVariables false
set_option maxHeartbeats 1600000
namespace UgoVerif.Proofs.Shift
open UgoVerif UgoVerif.Go UgoVerif.VM

section
variable {T0 : State} {bp k d H N : Nat} {a : Int}

theorem setLast_bp (f : Frame) (F : Handler → Handler) : (setLast f F).bp = f.bp := by
  unfold VM.setLast; split <;> rfl

theorem popHandler_bp (f : Frame) : (popHandler f).bp = f.bp := by
  unfold VM.popHandler; split <;> rfl

/-- corresponding updates of the innermost handler -/
theorem sh_setLast (F G : Handler → Handler) (H' : Nat) (hH : H ≤ H')
    (hFG : ∀ p q, HSh bp H p q → HSh bp H' (F p) (G q)) :
    RelS (Sh T0 bp k d H N a) (PQ (fun _ _ => True) (Sh T0 bp k d H' N a))
      (setCurFrame fun f => setLast f F) (setCurFrame fun f => setLast f G) :=
  sh_setCurFrame _ _ H' (fun f g x => x.setLast F G hFG hH) hH (fun f => setLast_bp f F)

theorem sh_popHandler :
    RelS (Sh T0 bp k d H N a) (PQ (fun _ _ => True) (Sh T0 bp k d H N a)) (setCurFrame popHandler) (setCurFrame popHandler) :=
  sh_setCurFrame _ _ H (fun f g x => x.popHandler) (Nat.le_refl _) popHandler_bp

macro_rules | `(tactic| sh_prim) => `(tactic| exact sh_popHandler)
macro_rules | `(tactic| sh_prim) => `(tactic|
  (refine sh_setLast _ _ _ (Nat.le_refl _) ?_
   intro p__ q__ hpq__
   constructor <;> first
     | exact hpq__.sp | exact hpq__.spH | exact hpq__.catch_ | exact hpq__.finally_ | exact hpq__.returnTo | exact hpq__.err
     | rfl))

/-! ### SETUPTRY -/

theorem sh_execSetupTry (ha : a ≤ N) (hH : H ≤ N) : RelS (Sh T0 bp k d H N a) (PostC T0 bp k) execSetupTry execSetupTry := by
  unfold execSetupTry
  sh1; sh1; sh1
  refine RelS.bindV (sh_setCurFrame _ _ (max H a.toNat) (fun f g x => x.push _ _
    ⟨rfl, by show a ≤ ((max H a.toNat : Nat) : Int); omega, rfl, rfl, rfl, rfl⟩ (by omega)) (by omega) (fun f => rfl)) ?_
  intro _ _ _
  shrun

/-! ### SETUPCATCH, SETUPFINALLY -/

theorem sh_execSetupCatch (ha : a ≤ N) (hH : H ≤ N) : RelS (Sh T0 bp k d H N a) (PostC T0 bp k) execSetupCatch execSetupCatch := by
  unfold execSetupCatch
  refine RelS.bindV sh_curFrame ?_
  intro f g hfg
  rcases hfg.hs.cases with ⟨h1, h2⟩ | ⟨h1, h2⟩ | ⟨p, q, r, r', h1, h2, hpq, hr⟩
  · simp only [VM.hasHandler, VM.lastHandler, h1, h2]
    shrun
  · simp only [VM.hasHandler, VM.lastHandler, h1, h2]
    shrun
  · simp only [VM.hasHandler, VM.lastHandler, h1, h2]
    obtain ⟨qsp, qc, qf, qr, qe⟩ := q
    obtain ⟨e1, e2, e3, e4, e5, e6⟩ := hpq
    simp only at e1 e3 e4 e5 e6
    subst e1 e3 e4 e5 e6
    dsimp only
    shrun

theorem sh_execSetupFinally (ha : a ≤ N) (hH : H ≤ N) :
    RelS (Sh T0 bp k d H N a) (PostC T0 bp k) execSetupFinally execSetupFinally := by
  unfold execSetupFinally
  refine RelS.bindV sh_curFrame ?_
  intro f g hfg
  rw [← hfg.hasHandler]
  shrun

/-! ### FINALIZER -/

theorem sh_findFinally (upto : Int) : ∀ (fuel : Nat),
    RelS (Sh T0 bp k d H N a) (PQ Eq (Sh T0 bp k d H N a)) (findFinally fuel upto) (findFinally fuel upto) := by
  intro fuel
  induction fuel with
  | zero =>
    rw [findFinally]
    exact RelS.errL _
  | succ n ih =>
    rw [findFinally]
    refine RelS.bindV sh_curFrame ?_
    intro f g hfg
    rcases hfg.hs.cases with ⟨h1, h2⟩ | ⟨h1, h2⟩ | ⟨p, q, r, r', h1, h2, hpq, hr⟩
    · simp only [h1, h2]
      exact RelS.pure (fun _ _ h => ⟨rfl, h⟩)
    · simp only [h1, h2]
      split
      · exact RelS.pure (fun _ _ h => ⟨rfl, h⟩)
      · exact RelS.pure (fun _ _ h => ⟨rfl, h⟩)
    · simp only [h1, h2]
      have hl : r.length = r'.length := by
        have := hr.length
        simpa using this
      simp only [List.length_cons, hl, ← hpq.finally_]
      split
      · exact RelS.pure (fun _ _ h => ⟨rfl, h⟩)
      · split
        · refine RelS.bindV sh_popHandler ?_
          intro _ _ _
          exact ih
        · exact RelS.pure (fun _ _ h => ⟨rfl, h⟩)

theorem sh_finalizerRest (n : Nat) (upto : Int) (ha : a ≤ N) (hH : H ≤ N) :
    RelS (Sh T0 bp k d H N a) (PostC T0 bp k)
      (do
        let pos ← findFinally n upto
        if pos ≤ 0 then do
            bumpIp 1
            pure Ctl.next
          else do
            let ip ← getIp
            let sp ← getSp
            setCurFrame fun f =>
                setLast f fun h => { sp := sp, catch_ := h.catch_, finally_ := h.finally_, returnTo := ip, err := none }
            setIp (pos - 1)
            pure Ctl.next)
      (do
        let pos ← findFinally n upto
        if pos ≤ 0 then do
            bumpIp 1
            pure Ctl.next
          else do
            let ip ← getIp
            let sp ← getSp
            setCurFrame fun f =>
                setLast f fun h => { sp := sp, catch_ := h.catch_, finally_ := h.finally_, returnTo := ip, err := none }
            setIp (pos - 1)
            pure Ctl.next) := by
  refine RelS.bindV (sh_findFinally _ _) ?_
  intro pos _ hp
  subst hp
  split
  · shrun
  · sh1; sh1
    refine RelS.bindV (sh_setLast _ _ (max H a.toNat) (by omega) (fun p q hpq =>
      ⟨rfl, by show a ≤ ((max H a.toNat : Nat) : Int); omega, hpq.catch_, hpq.finally_, rfl, rfl⟩)) ?_
    intro _ _ _
    shrun

theorem sh_execFinalizer (ha : a ≤ N) (hH : H ≤ N) : RelS (Sh T0 bp k d H N a) (PostC T0 bp k) execFinalizer execFinalizer := by
  unfold execFinalizer
  sh1
  refine RelS.bindV sh_curFrame ?_
  intro f g hfg
  dsimp only
  rcases hfg.hs.cases with ⟨h1, h2⟩ | ⟨h1, h2⟩ | ⟨p, q, r, r', h1, h2, hpq, hr⟩
  · simp only [h1, h2]
    exact sh_finalizerRest _ _ ha hH
  · simp only [h1, h2]
    exact sh_finalizerRest _ _ ha hH
  · have hl : r.length = r'.length := by
      have := hr.length
      simpa using this
    simp only [h1, h2, List.length_cons, hl]
    exact sh_finalizerRest _ _ ha hH

/-! ### THROW -/

theorem sh_execThrow (ha : a ≤ N) (hH : H ≤ N) : RelS (Sh T0 bp k d H N a) (PostC T0 bp k) execThrow execThrow := by
  unfold execThrow
  sh1; sh1
  split
  · -- THROW 0: the end of a try statement / the re-throw after `finally`
    refine RelS.bindV sh_curFrame ?_
    intro f g hfg
    rcases hfg.lastHandler with ⟨h1, h2⟩ | ⟨p, q, h1, h2, hpq⟩
    · rw [h1, h2]
      shrun
    · rw [h1, h2]
      obtain ⟨qsp, qc, qf, qr, qe⟩ := q
      obtain ⟨e1, e2, e3, e4, e5, e6⟩ := hpq
      simp only at e1 e3 e4 e5 e6
      subst e1 e3 e4 e5 e6
      dsimp only
      split
      · sh1
        exact sh_throwNow _ ha hH
      · shrun
  · split
    · -- THROW 1: the `throw` statement
      sh1; sh1; sh1; sh1; sh1
      exact sh_throwNow _ (by omega) (by omega)
    · -- malformed operand: both loops return with the same Go error
      intro s t h r s' r' t' h1 h2
      simp only [exec_bind, exec_modS, exec_pure, Prod.mk.injEq, Except.ok.injEq] at h1 h2
      obtain ⟨rfl, rfl⟩ := h1
      obtain ⟨rfl, rfl⟩ := h2
      exact Or.inr (Or.inr ⟨rfl, rfl, ⟨_, rfl, rfl⟩, h.heap, h.globals, h.modules⟩)

end
end UgoVerif.Proofs.Shift
