import UgoVerif.Proofs.Pos
/-
  C16 helper lemmas: the line table the scanner builds (`scanLines`) is
  well-formed, and prepending k newlines shifts it by exactly k lines.
-/
namespace UgoVerif.Proofs.Pos
open UgoVerif.Go UgoVerif.Model

/-- `[0, 1, …, j]` -/
def iota (j : Nat) : List Int := (List.range (j + 1)).map Int.ofNat

theorem iota_succ (j : Nat) : iota (j + 1) = iota j ++ [((j : Int) + 1)] := by
  unfold iota
  rw [List.range_succ, List.map_append]
  simp

theorem iota_last (j : Nat) : (iota j).getLast? = some (j : Int) := by
  unfold iota
  rw [List.range_succ, List.map_append]
  simp

theorem iota_zero : iota 0 = [0] := by simp [iota, List.range_succ]

/-- shifting an (already non-empty) table and the offset by k commutes with `AddLine` -/
theorem addLineL_shift (pre ls : List Int) (hne : ls ≠ []) (size off k : Int) :
    addLineL (pre ++ ls.map (· + k)) (size + k) (off + k)
      = pre ++ (addLineL ls size off).map (· + k) := by
  obtain ⟨l, hl⟩ : ∃ l, ls.getLast? = some l := by
    cases h : ls.getLast? with
    | none => exact absurd (List.getLast?_eq_none_iff.mp h) hne
    | some l => exact ⟨l, rfl⟩
  have h1 : (pre ++ ls.map (· + k)).getLast? = some (l + k) := by
    rw [List.getLast?_append, List.getLast?_map, hl]; rfl
  unfold addLineL
  rw [h1, hl]
  by_cases hc : l < off ∧ off < size
  · have hc' : l + k < off + k ∧ off + k < size + k := by omega
    simp [hc, hc', List.map_append]
  · have hc' : ¬ (l + k < off + k ∧ off + k < size + k) := by omega
    simp [hc, hc']

theorem addLineL_of_last {ls : List Int} {l : Int} (h : ls.getLast? = some l) (size off : Int) :
    addLineL ls size off = if l < off ∧ off < size then ls ++ [off] else ls := by
  unfold addLineL
  rw [h]
  simp

theorem last_of_ne_nil {ls : List Int} (hne : ls ≠ []) : ∃ l, ls.getLast? = some l := by
  cases h : ls.getLast? with
  | none => exact absurd (List.getLast?_eq_none_iff.mp h) hne
  | some l => exact ⟨l, rfl⟩

theorem addLineL_ne_nil (ls : List Int) (hne : ls ≠ []) (size off : Int) :
    addLineL ls size off ≠ [] := by
  obtain ⟨l, hl⟩ := last_of_ne_nil hne
  rw [addLineL_of_last hl]
  split <;> simp [hne]

/-- Lemma A: scanning the same bytes k positions later, over a table shifted by k
    behind any prefix, yields the shifted result behind that prefix. -/
theorem scanFrom_shift (size : Int) (k : Nat) (pre : List Int) :
    ∀ (cs : List UInt8) (i : Nat) (ls : List Int), ls ≠ [] →
      scanFrom (size + k) cs (i + k) (pre ++ ls.map (· + (k : Int)))
        = pre ++ (scanFrom size cs i ls).map (· + (k : Int)) := by
  intro cs
  induction cs with
  | nil => intro i ls _; simp [scanFrom]
  | cons c cs ih =>
    intro i ls hne
    simp only [scanFrom]
    by_cases hc : c = 10
    · simp only [hc, if_true]
      have e : (((i + k : Nat) : Int) + 1) = ((i : Int) + 1) + (k : Int) := by omega
      have e2 : i + k + 1 = (i + 1) + k := by omega
      rw [e, addLineL_shift pre ls hne, e2]
      exact ih (i + 1) _ (addLineL_ne_nil ls hne _ _)
    · simp only [hc, if_false]
      have e2 : i + k + 1 = (i + 1) + k := by omega
      rw [e2]
      exact ih (i + 1) ls hne

/-- Lemma B: m leading newlines add the line starts j+1 … j+m (all inside the text) -/
theorem scanFrom_newlines (size : Int) (rest : List UInt8) :
    ∀ (m j : Nat), ((j + m : Nat) : Int) < size →
      scanFrom size (List.replicate m 10 ++ rest) j (iota j) = scanFrom size rest (j + m) (iota (j + m)) := by
  intro m
  induction m with
  | zero => intro j _; simp
  | succ m ih =>
    intro j hlt
    have hstep : addLineL (iota j) size ((j : Int) + 1) = iota (j + 1) := by
      unfold addLineL
      rw [iota_last]
      have : (j : Int) < (j : Int) + 1 ∧ (j : Int) + 1 < size := by omega
      simp [this, iota_succ]
    rw [List.replicate_succ, List.cons_append]
    simp only [scanFrom, if_true]
    rw [hstep]
    have := ih (j + 1) (by omega)
    rw [this]
    have e : j + 1 + m = j + (m + 1) := by omega
    rw [e]

/-- **Line table of a text with k newlines prepended** = `[0..k-1]` followed by the
    original table shifted by k. -/
theorem scanLines_prepend (text : List UInt8) (hne : text ≠ []) (k : Nat) :
    scanLines (List.replicate k 10 ++ text)
      = (List.range k).map Int.ofNat ++ (scanLines text).map (· + (k : Int)) := by
  have hlen : 0 < text.length := List.length_pos_iff.mpr hne
  unfold scanLines
  have h0 : ([0] : List Int) = iota 0 := iota_zero.symm
  have hsz : (((List.replicate k (10 : UInt8) ++ text).length : Nat) : Int) = (text.length : Int) + (k : Int) := by
    simp; omega
  rw [hsz]
  conv => lhs; rw [h0]
  rw [scanFrom_newlines _ text k 0 (by omega)]
  have hio : iota (0 + k) = (List.range k).map Int.ofNat ++ ([0] : List Int).map (· + (k : Int)) := by
    unfold iota
    rw [List.range_succ, List.map_append]
    simp
  rw [hio]
  have := scanFrom_shift (text.length : Int) k ((List.range k).map Int.ofNat) text 0 [0] (by simp)
  simpa using this

/-! ### the scanned table is well-formed -/

structure ScanInv (ls : List Int) (i : Nat) (size : Int) : Prop where
  first : ls[0]? = some 0
  strict : ls.Pairwise (· < ·)
  range : ∀ v ∈ ls, 0 ≤ v ∧ v ≤ (i : Int)
  bound : ∀ v ∈ ls, v = 0 ∨ v < size

theorem scanInv_addLine {ls : List Int} {i : Nat} {size : Int} (h : ScanInv ls i size) :
    ScanInv (addLineL ls size ((i : Int) + 1)) (i + 1) size := by
  have hne : ls ≠ [] := by
    intro hnil; have := h.first; simp [hnil] at this
  obtain ⟨l, hl⟩ := last_of_ne_nil hne
  rw [addLineL_of_last hl]
  split
  · rename_i hc
    refine ⟨?_, ?_, ?_, ?_⟩
    · rw [List.getElem?_append_left (List.length_pos_iff.mpr hne)]; exact h.first
    · rw [List.pairwise_append]
      refine ⟨h.strict, by simp, ?_⟩
      intro a ha b hb
      simp at hb; subst hb
      have := (h.range a ha).2; omega
    · intro v hv
      rcases List.mem_append.mp hv with hv | hv
      · have := h.range v hv; omega
      · simp at hv; subst hv; omega
    · intro v hv
      rcases List.mem_append.mp hv with hv | hv
      · exact h.bound v hv
      · simp at hv; subst hv; right; exact hc.2
  · exact ⟨h.first, h.strict, fun v hv => by have := h.range v hv; omega, h.bound⟩

theorem scanFrom_inv (size : Int) :
    ∀ (cs : List UInt8) (i : Nat) (ls : List Int), ScanInv ls i size →
      ScanInv (scanFrom size cs i ls) (i + cs.length) size := by
  intro cs
  induction cs with
  | nil => intro i ls h; simpa [scanFrom] using h
  | cons c cs ih =>
    intro i ls h
    simp only [scanFrom]
    have e : i + (c :: cs).length = (i + 1) + cs.length := by simp; omega
    rw [e]
    by_cases hc : c = 10
    · simp only [hc, if_true]
      exact ih (i + 1) _ (scanInv_addLine h)
    · simp only [hc, if_false]
      exact ih (i + 1) ls ⟨h.first, h.strict, fun v hv => by have := h.range v hv; omega, h.bound⟩

theorem scanLines_wf (text : List UInt8) : WFLines (scanLines text) text.length := by
  have h0 : ScanInv [0] 0 (text.length : Int) :=
    ⟨by simp, by simp, by intro v hv; simp at hv; subst hv; simp, by intro v hv; simp at hv; left; exact hv⟩
  have := scanFrom_inv (text.length : Int) text 0 [0] h0
  exact ⟨this.first, this.strict, this.bound⟩

/-- every line start of a scanned table is an offset of the text (or 0) -/
theorem scanLines_range (text : List UInt8) : ∀ v ∈ scanLines text, 0 ≤ v ∧ v ≤ (text.length : Int) := by
  have h0 : ScanInv [0] 0 (text.length : Int) :=
    ⟨by simp, by simp, by intro v hv; simp at hv; subst hv; simp, by intro v hv; simp at hv; left; exact hv⟩
  have := scanFrom_inv (text.length : Int) text 0 [0] h0
  intro v hv
  have := this.range v hv
  omega

end UgoVerif.Proofs.Pos

namespace UgoVerif.Proofs.Pos
open UgoVerif.Go UgoVerif.Model

theorem addLineL_mem {ls : List Int} {i : Nat} {size : Int} (h : ScanInv ls i size) (v : Int) :
    v ∈ addLineL ls size ((i : Int) + 1) ↔ v ∈ ls ∨ (v = (i : Int) + 1 ∧ v < size) := by
  have hne : ls ≠ [] := by
    intro hnil; have := h.first; simp [hnil] at this
  obtain ⟨l, hl⟩ := last_of_ne_nil hne
  have hlm : l ∈ ls := List.mem_of_getLast? hl
  have hli := (h.range l hlm).2
  rw [addLineL_of_last hl]
  by_cases hc : (i : Int) + 1 < size
  · have : l < (i : Int) + 1 ∧ (i : Int) + 1 < size := by omega
    simp [this]
    constructor
    · rintro (hv | hv)
      · exact Or.inl hv
      · exact Or.inr ⟨hv, by omega⟩
    · rintro (hv | ⟨hv, _⟩)
      · exact Or.inl hv
      · exact Or.inr hv
  · have : ¬ (l < (i : Int) + 1 ∧ (i : Int) + 1 < size) := by omega
    simp [this]
    intro hv _; omega

/-- members of the scanned table: what was there, plus `j+1` for every newline byte at
    absolute index `j` whose successor is still inside the text -/
theorem scanFrom_mem (size : Int) (v : Int) :
    ∀ (cs : List UInt8) (i : Nat) (ls : List Int), ScanInv ls i size →
      (v ∈ scanFrom size cs i ls ↔
        v ∈ ls ∨ ∃ j : Nat, cs[j]? = some 10 ∧ v = ((i + j : Nat) : Int) + 1 ∧ v < size) := by
  intro cs
  induction cs with
  | nil => intro i ls _; simp [scanFrom]
  | cons c cs ih =>
    intro i ls h
    simp only [scanFrom]
    by_cases hc : c = 10
    · simp only [hc, if_true]
      rw [ih (i + 1) _ (scanInv_addLine h), addLineL_mem h]
      constructor
      · rintro ((hv | ⟨hv, hs⟩) | ⟨j, hj, hv, hs⟩)
        · exact Or.inl hv
        · exact Or.inr ⟨0, by simp, by simpa using hv, hs⟩
        · exact Or.inr ⟨j + 1, by simpa using hj, by rw [hv]; omega, hs⟩
      · rintro (hv | ⟨j, hj, hv, hs⟩)
        · exact Or.inl (Or.inl hv)
        · cases j with
          | zero => exact Or.inl (Or.inr ⟨by simpa using hv, hs⟩)
          | succ j => exact Or.inr ⟨j, by simpa using hj, by rw [hv]; omega, hs⟩
    · simp only [hc, if_false]
      rw [ih (i + 1) ls ⟨h.first, h.strict, fun v hv => by have := h.range v hv; omega, h.bound⟩]
      constructor
      · rintro (hv | ⟨j, hj, hv, hs⟩)
        · exact Or.inl hv
        · exact Or.inr ⟨j + 1, by simpa using hj, by rw [hv]; omega, hs⟩
      · rintro (hv | ⟨j, hj, hv, hs⟩)
        · exact Or.inl hv
        · cases j with
          | zero => simp at hj; exact absurd hj hc
          | succ j => exact Or.inr ⟨j, by simpa using hj, by rw [hv]; omega, hs⟩

theorem scanLines_mem (text : List UInt8) (v : Int) :
    v ∈ scanLines text ↔
      v = 0 ∨ ∃ j : Nat, text[j]? = some 10 ∧ v = (j : Int) + 1 ∧ v < (text.length : Int) := by
  have h0 : ScanInv [0] 0 (text.length : Int) :=
    ⟨by simp, by simp, by intro v hv; simp at hv; subst hv; simp, by intro v hv; simp at hv; left; exact hv⟩
  unfold scanLines
  rw [scanFrom_mem (text.length : Int) v text 0 [0] h0]
  simp

end UgoVerif.Proofs.Pos
