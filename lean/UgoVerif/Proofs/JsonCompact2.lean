import UgoVerif.Proofs.JsonCompact
/-
  C17: the loop of `compact` — what it writes from a scanner configuration is accepted from
  that configuration, starts and ends with a byte that is not white space, and no slice
  expression panics.  Consequence: `compact_isVal`, `compact_no_panic`.
-/
namespace UgoVerif.Proofs.Json
set_option linter.unusedSimpArgs false
set_option linter.unusedVariables false
open UgoVerif UgoVerif.Go UgoVerif.Spec.Json UgoVerif.Model.JsonScan UgoVerif.Gen.JsonTables

/-- the bytes between `start` and `i` that have not been copied yet -/
def pend (src : Bytes) (st : CompactSt) (i : Nat) : Bytes := (src.drop st.start).take (i - st.start)
/-- everything written so far, counting the pending bytes -/
def V (src : Bytes) (st : CompactSt) (i : Nat) : Bytes := st.out ++ pend src st i

theorem flushP_out (src : Bytes) (st : CompactSt) (i : Nat) : (flushP src st i).out = V src st i := by
  unfold flushP V pend
  by_cases h : st.start < i
  · rw [if_pos h]
  · rw [if_neg h]
    have : i - st.start = 0 := by omega
    rw [this]; simp

theorem V_of_ge (src : Bytes) (st : CompactSt) (i : Nat) (h : i ≤ st.start) : V src st i = st.out := by
  unfold V pend
  have : i - st.start = 0 := by omega
  rw [this]; simp

theorem take_drop_succ (pre rest : Bytes) (c : UInt8) (a : Nat) (ha : a ≤ pre.length) :
    ((pre ++ c :: rest).drop a).take (pre.length + 1 - a) = ((pre ++ c :: rest).drop a).take (pre.length - a) ++ [c] := by
  have h1 : (pre ++ c :: rest).drop a = pre.drop a ++ c :: rest := by
    rw [List.drop_append_of_le_length ha]
  rw [h1]
  have h2 : (pre.drop a).length = pre.length - a := by simp
  rw [show pre.length + 1 - a = (pre.drop a).length + 1 by omega, show pre.length - a = (pre.drop a).length by omega]
  generalize pre.drop a = D
  simp [List.take_append]
  exact List.take_of_length_le (by omega)

/-- what is written from configuration `s` is accepted from `s`, and its ends are not white space -/
structure Acc (s : Scanner) (E : Bytes) : Prop where
  acc : resid s E = true
  inStr : s.step = .inString → E ≠ []
  head : s.step = .beginValue → ∃ c t, E = c :: t ∧ isWs c = false
  last : ∀ p l, E = p ++ [l] → isWs l = false

/-- either the pending bytes end at `i`, or the next one/two bytes (the tail of U+2028/9) are to be skipped -/
def Mode (st : CompactSt) (i : Nat) (rest : Bytes) : Prop :=
  st.start ≤ i ∨ (st.scan.step = .inString ∧
    ((st.start = i + 1 ∧ ∃ b t, rest = b :: t ∧ hiByte b = true) ∨
     (st.start = i + 2 ∧ ∃ a b t, rest = a :: b :: t ∧ hiByte a = true ∧ hiByte b = true)))

@[simp] theorem post_scan (src : Bytes) (st : CompactSt) (i : Nat) (sc : Scanner) (v : Op) :
    (post src st i sc v).scan = sc := by
  unfold post; repeat' split
  all_goals simp

theorem doomed (src : Bytes) (escape : Bool) : ∀ (rest : Bytes) (st : CompactSt) (i : Nat),
    i + rest.length ≤ src.length → WF st.scan → st.scan.err = true →
    ∃ st', compactLoop src escape st i rest = .ok st' ∧ WF st'.scan ∧ st'.scan.err = true
  | [], st, i, _, hw, he => ⟨st, rfl, hw, he⟩
  | c :: rest, st, i, hlen, hw, he => by
    unfold compactLoop
    rw [compactIter_eq src escape st i c rest (by simp at hlen; omega)]
    have hs := hw.err.mp he
    have : step st.scan c = .ok (st.scan, .error) := by unfold step; simp only [hs]
    rw [this]
    simp only [post, Op.geSkipSpace, if_true, beq_self_eq_true]
    exact ⟨_, rfl, hw, he⟩

theorem eof_err_false (s s'' : Scanner) (op : Op) (h : eof s = .ok (s'', op)) (hop : op ≠ .error) : s.err = false := by
  cases he : s.err with
  | false => rfl
  | true =>
    unfold eof at h; rw [he] at h; simp only [if_true] at h
    injection h with h; injection h with _ h2; exact absurd h2.symm hop

theorem last_eq {X p' p : Bytes} {l l' : UInt8} (h : X ++ (p' ++ [l']) = p ++ [l]) : l' = l := by
  rw [← List.append_assoc] at h
  have := List.append_inj_right' h rfl
  injection this

theorem inString_op (s : Scanner) (c : UInt8) (s' : Scanner) (op : Op) (hs : s.step = .inString)
    (h : step s c = .ok (s', op)) : op = .continue ∨ op = .error := by
  unfold step at h
  simp only [hs] at h
  repeat' split at h
  all_goals first
    | exact Or.inl (goto_inv h).2
    | exact Or.inr (error_inv h).2
    | (injection h with h; injection h with _ h2; exact Or.inl h2.symm)

theorem beginValue_space (s : Scanner) (c : UInt8) (hs : s.step = .beginValue) (hc : isSpace c = true) :
    step s c = .ok (s, .skipSpace) := by
  unfold step; simp only [hs]; unfold stateBeginValue; simp only [hc, if_true]

set_option maxRecDepth 100000 in
theorem html_facts : ∀ c : UInt8, (c == 0x3C || c == 0x3E || c == 0x26) = true →
    special c = true ∧ isSpace c = false ∧ (c == 0xE2) = false := by
  apply forall_uint8; decide


/-! ### the pieces of one iteration -/

theorem pre1_pos (src : Bytes) (escape : Bool) (st : CompactSt) (i : Nat) (c : UInt8)
    (h : (escape && (c == 0x3C || c == 0x3E || c == 0x26)) = true) :
    pre1 src escape st i c = { scan := st.scan, out := V src st i ++ esc6 c, start := i + 1, stop := st.stop } := by
  unfold pre1; rw [if_pos h, flushP_out]; simp

theorem pre1_neg (src : Bytes) (escape : Bool) (st : CompactSt) (i : Nat) (c : UInt8)
    (h : ¬ (escape && (c == 0x3C || c == 0x3E || c == 0x26)) = true) :
    pre1 src escape st i c = st := by
  unfold pre1; rw [if_neg h]

theorem pre2_notE2 (src : Bytes) (escape : Bool) (st : CompactSt) (i : Nat) (c : UInt8) (next : Bytes)
    (h : (c == 0xE2) = false) : pre2 src escape st i c next = st := by
  unfold pre2; split
  · simp [h]
  · rfl

theorem pre2_pos (src : Bytes) (escape : Bool) (st : CompactSt) (i : Nat) (c n1 n2 : UInt8) (tl : Bytes)
    (h : (escape && c == 0xE2 && n1 == 0x80 && (n2 &&& 0xFE) == 0xA8) = true) :
    pre2 src escape st i c (n1 :: n2 :: tl) =
      { scan := st.scan, out := V src st i ++ esc2028 n2, start := i + 3, stop := st.stop } := by
  unfold pre2; simp only []; rw [if_pos h, flushP_out]; simp

theorem pre2_neg (src : Bytes) (escape : Bool) (st : CompactSt) (i : Nat) (c : UInt8) (next : Bytes)
    (h : ¬ ∃ n1 n2 tl, next = n1 :: n2 :: tl ∧ (escape && c == 0xE2 && n1 == 0x80 && (n2 &&& 0xFE) == 0xA8) = true) :
    pre2 src escape st i c next = st := by
  unfold pre2; split
  · rename_i n1 n2 tl
    split
    · rename_i hc; exact absurd ⟨n1, n2, tl, rfl, hc⟩ h
    · rfl
  · rfl

theorem post_noskip (src : Bytes) (st : CompactSt) (i : Nat) (sc : Scanner) (v : Op) (h : v.geSkipSpace = false) :
    post src st i sc v = { st with scan := sc } := by
  unfold post; simp [h]

theorem post_skip (src : Bytes) (st : CompactSt) (i : Nat) (sc : Scanner) (v : Op) (h : v.geSkipSpace = true)
    (hne : v ≠ .error) :
    post src st i sc v = { scan := sc, out := V src st i, start := i + 1, stop := st.stop } := by
  unfold post
  have : (v == Op.error) = false := by simpa using hne
  simp only [h, this, if_true, Bool.false_eq_true, if_false]
  have h1 := flushP_out src { st with scan := sc } i
  have h2 : V src { st with scan := sc } i = V src st i := rfl
  rw [h2] at h1
  rw [← h1]
  simp

/-- the shape of the conclusion for a state `st` at index `i` -/
def Concl (src : Bytes) (st : CompactSt) (i : Nat) (st' : CompactSt) : Prop :=
  WF st'.scan ∧
  (st'.scan.err = false → (∃ s'' op, eof st'.scan = .ok (s'', op) ∧ op ≠ .error) →
    st'.start ≤ src.length ∧ ∃ E, V src st' src.length = V src st i ++ E ∧ Acc st.scan E)

theorem loop_finish (src : Bytes) (escape : Bool) (rest : Bytes) (st st1 : CompactSt) (i : Nat) (em : Bytes)
    (hstop : st1.stop = false)
    (hIH : ∃ st', compactLoop src escape st1 (i + 1) rest = .ok st' ∧ Concl src st1 (i + 1) st')
    (hV : V src st1 (i + 1) = V src st i ++ em)
    (hAcc : ∀ E', Acc st1.scan E' → Acc st.scan (em ++ E')) :
    ∃ st', (if st1.stop = true then Res.ok st1 else compactLoop src escape st1 (i + 1) rest) = .ok st' ∧
      Concl src st i st' := by
  obtain ⟨st', e', hw', hc'⟩ := hIH
  refine ⟨st', by simp [hstop, e'], hw', fun h1 h2 => ?_⟩
  obtain ⟨hle, E', hE', hacc'⟩ := hc' h1 h2
  exact ⟨hle, em ++ E', by rw [hE', hV, List.append_assoc], hAcc E' hacc'⟩


/-- accepted text written after an escape that was read back as string content -/
theorem acc_escape (s : Scanner) (em E' : Bytes) (hs : s.step = .inString)
    (hres : ∀ w, resid s (em ++ w) = resid s w) (hem : em ≠ []) (h : Acc s E') : Acc s (em ++ E') := by
  refine ⟨by rw [hres]; exact h.acc, fun _ => by simp [hem], fun hb => (by rw [hs] at hb; cases hb), ?_⟩
  intro p l hp
  rcases List.eq_nil_or_concat E' with h0 | ⟨p', l', h0⟩
  · exact absurd h0 (h.inStr hs)
  · rw [List.concat_eq_append] at h0
    rw [h0] at hp
    have := last_eq hp
    subst this
    exact h.last p' l' h0

theorem compactLoop_spec (src : Bytes) (escape : Bool) : ∀ (rest pre : Bytes) (st : CompactSt) (i : Nat),
    src = pre ++ rest → pre.length = i → WF st.scan → st.stop = false → Mode st i rest →
    ∃ st', compactLoop src escape st i rest = .ok st' ∧ Concl src st i st'
  | [], pre, st, i, hsrc, hpre, hw, hstop, hmode => by
    refine ⟨st, rfl, hw, fun herr heof => ?_⟩
    have hlen : src.length = i := by rw [hsrc]; simp [hpre]
    have hA : st.start ≤ i := by
      rcases hmode with h | ⟨_, ⟨_, b, t, h, _⟩ | ⟨_, a, b, t, h, _⟩⟩
      · exact h
      · cases h
      · cases h
    refine ⟨by omega, [], by rw [hlen]; simp, ?_⟩
    obtain ⟨s'', op, he, hop⟩ := heof
    obtain ⟨s2, op2, he2, hr⟩ := eof_resid st.scan hw
    rw [he] at he2; injection he2 with he2; injection he2 with _ h2; subst h2
    have hacc : resid st.scan [] = true := by rw [← hr]; simpa using hop
    refine ⟨hacc, ?_, ?_, ?_⟩
    · intro hs; simp [resid, hs, tok, strRest] at hacc
    · intro hs; simp [resid, hs, skipWs, valueC_nil] at hacc
    · intro p l h; simp at h
  | c :: rest, pre, st, i, hsrc, hpre, hw, hstop, hmode => by
    have hlen : i + (rest.length + 1) = src.length := by rw [hsrc]; simp [hpre]
    have hsrc' : src = (pre ++ [c]) ++ rest := by rw [hsrc]; simp
    have hpre' : (pre ++ [c]).length = i + 1 := by simp [hpre]
    unfold compactLoop
    rw [compactIter_eq src escape st i c rest (by omega)]
    obtain ⟨sc, v, e, hwsc, hop, _⟩ := step_resid st.scan c [] hw
    rw [e]
    simp only []
    have hderiv : ∀ w, resid st.scan (c :: w) = resid sc w := by
      intro w
      obtain ⟨sc2, v2, e2, _, _, hv⟩ := step_resid st.scan c w hw
      rw [e] at e2; injection e2 with e2; injection e2 with h1 _; subst h1; exact hv
    by_cases herrsc : sc.err = true
    · generalize hst1 : post src (pre2 src escape (pre1 src escape st i c) i c rest) i sc v = st1
      have hsc1 : st1.scan = sc := by rw [← hst1]; simp
      by_cases hstop1 : st1.stop = true
      · rw [if_pos hstop1]
        exact ⟨st1, rfl, by rw [hsc1]; exact hwsc, fun h => by rw [hsc1, herrsc] at h; cases h⟩
      · rw [if_neg hstop1]
        obtain ⟨st', e', hw', he'⟩ := doomed src escape rest st1 (i + 1) (by omega)
          (by rw [hsc1]; exact hwsc) (by rw [hsc1]; exact herrsc)
        exact ⟨st', e', hw', fun h => by rw [he'] at h; cases h⟩
    have herrsc' : sc.err = false := by simpa using herrsc
    have hvne : v ≠ .error := fun h => by
      have := hwsc.err.mpr (hop h); rw [herrsc'] at this; cases this
    rcases hmode with hA | ⟨hin, hB⟩
    · -- nothing to skip
      by_cases hc1 : (escape && (c == 0x3C || c == 0x3E || c == 0x26)) = true
      · -- HTML escape
        have hh : (c == 0x3C || c == 0x3E || c == 0x26) = true := by
          simp only [Bool.and_eq_true] at hc1; exact hc1.2
        obtain ⟨hsp, hnsp, hE2⟩ := html_facts c hh
        rw [pre1_pos src escape st i c hc1, pre2_notE2 _ _ _ _ _ _ hE2]
        cases hv : v.geSkipSpace with
        | true =>
          have := step_skip st.scan c sc v hw e hv herrsc'
          rw [hnsp] at this; cases this
        | false =>
          obtain ⟨hin, hsame⟩ := special_inString st.scan c sc v hsp e hv
          rw [post_noskip _ _ _ _ _ hv]
          refine loop_finish src escape rest st ⟨sc, V src st i ++ esc6 c, i + 1, st.stop⟩ i (esc6 c) hstop ?_ ?_ ?_
          · exact compactLoop_spec src escape rest (pre ++ [c]) _ (i + 1) hsrc' hpre' hwsc hstop
              (Or.inl (Nat.le_refl _))
          · rw [V_of_ge _ _ _ (Nat.le_refl _)]
          · intro E' hE'
            subst hsame
            exact acc_escape _ _ _ hin (fun w => esc6_resid _ c w hin) (by simp [esc6]) hE'
      · rw [pre1_neg src escape st i c hc1]
        by_cases hc2 : ∃ n1 n2 tl, rest = n1 :: n2 :: tl ∧
            (escape && c == 0xE2 && n1 == 0x80 && (n2 &&& 0xFE) == 0xA8) = true
        · -- U+2028/9
          obtain ⟨n1, n2, tl, hrest, hcond⟩ := hc2
          subst hrest
          rw [pre2_pos src escape st i c n1 n2 tl hcond]
          simp only [Bool.and_eq_true] at hcond
          obtain ⟨⟨⟨_, hcE2⟩, hn1⟩, hn2⟩ := hcond
          have hcE : c = 0xE2 := by simpa using hcE2
          have hsp : special c = true := by subst hcE; decide
          cases hv : v.geSkipSpace with
          | true =>
            have := step_skip st.scan c sc v hw e hv herrsc'
            have h226 : isSpace 0xE2 = false := by decide
            subst hcE; rw [h226] at this; cases this
          | false =>
            obtain ⟨hin, hsame⟩ := special_inString st.scan c sc v hsp e hv
            rw [post_noskip _ _ _ _ _ hv]
            have hh1 : hiByte n1 = true := by simp [hiByte, hn1]
            have hh2 : hiByte n2 = true := by simp [hiByte, hn2]
            refine loop_finish src escape (n1 :: n2 :: tl) st ⟨sc, V src st i ++ esc2028 n2, i + 3, st.stop⟩ i
              (esc2028 n2) hstop ?_ ?_ ?_
            · exact compactLoop_spec src escape (n1 :: n2 :: tl) (pre ++ [c]) _ (i + 1) hsrc' hpre' hwsc hstop
                (Or.inr ⟨by subst hsame; exact hin, Or.inr ⟨rfl, n1, n2, tl, rfl, hh1, hh2⟩⟩)
            · rw [V_of_ge _ _ _ (by simp)]
            · intro E' hE'
              subst hsame
              exact acc_escape _ _ _ hin (fun w => esc2028_resid _ n2 w hin) (by simp [esc2028]) hE'
        · rw [pre2_neg src escape st i c rest hc2]
          cases hv : v.geSkipSpace with
          | true =>
            -- white space dropped
            have hspc := step_skip st.scan c sc v hw e hv herrsc'
            have hws : isWs c = true := by rw [← isSpace_eq]; exact hspc
            rw [post_skip _ _ _ _ _ hv hvne]
            refine loop_finish src escape rest st ⟨sc, V src st i, i + 1, st.stop⟩ i [] hstop ?_ ?_ ?_
            · exact compactLoop_spec src escape rest (pre ++ [c]) _ (i + 1) hsrc' hpre' hwsc hstop
                (Or.inl (Nat.le_refl _))
            · rw [V_of_ge _ _ _ (Nat.le_refl _)]; simp
            · intro E' hE'
              simp only [List.nil_append]
              refine ⟨resid_ws _ c E' hws (by rw [hderiv]; exact hE'.acc), ?_, ?_, hE'.last⟩
              · intro hs
                rcases inString_op st.scan c sc v hs e with h1 | h1
                · subst h1; cases hv
                · exact absurd h1 hvne
              · intro hs
                have := beginValue_space st.scan c hs hspc
                rw [e] at this; injection this with this; injection this with h1 _
                subst h1
                exact hE'.head hs
          | false =>
            -- byte copied
            rw [post_noskip _ _ _ _ _ hv]
            refine loop_finish src escape rest st ⟨sc, st.out, st.start, st.stop⟩ i [c] hstop ?_ ?_ ?_
            · exact compactLoop_spec src escape rest (pre ++ [c]) _ (i + 1) hsrc' hpre' hwsc hstop
                (Or.inl (Nat.le_succ_of_le hA))
            · unfold V pend
              simp only []
              rw [hsrc, ← hpre, take_drop_succ pre rest c st.start (by omega), List.append_assoc]
            · intro E' hE'
              refine ⟨by simp only [List.cons_append, List.nil_append]; rw [hderiv]; exact hE'.acc,
                fun _ => by simp, ?_, ?_⟩
              · intro hs
                refine ⟨c, E', rfl, ?_⟩
                cases hws : isWs c with
                | false => rfl
                | true =>
                  have := beginValue_space st.scan c hs (by rw [isSpace_eq]; exact hws)
                  rw [e] at this; injection this with this; injection this with _ h2
                  subst h2; cases hv
              · intro p l hp
                simp only [List.cons_append, List.nil_append] at hp
                rcases List.eq_nil_or_concat E' with h0 | ⟨p', l', h0⟩
                · subst h0
                  have hl : l = c := by
                    have := last_eq (X := []) (p' := []) (l' := c) (by simpa using hp)
                    exact this.symm
                  subst hl
                  cases hws : isWs l with
                  | false => rfl
                  | true =>
                    obtain ⟨hin, hsame⟩ := special_inString st.scan l sc v (special_of_ws l hws) e hv
                    subst hsame
                    exact absurd rfl (hE'.inStr hin)
                · rw [List.concat_eq_append] at h0
                  rw [h0] at hp
                  have := last_eq (X := [c]) (by simpa using hp)
                  subst this
                  exact hE'.last p' l' h0
    · -- a byte of U+2028/9 that has been written as an escape already
      have hcase : ∃ b t, c :: rest = b :: t ∧ hiByte b = true ∧
          (st.start = i + 1 ∨ (st.start = i + 2 ∧ ∃ b2 t2, t = b2 :: t2 ∧ hiByte b2 = true)) := by
        rcases hB with ⟨h1, b, t, h2, h3⟩ | ⟨h1, a, b, t, h2, h3, h4⟩
        · exact ⟨b, t, h2, h3, Or.inl h1⟩
        · exact ⟨a, b :: t, h2, h3, Or.inr ⟨h1, b, t, rfl, h4⟩⟩
      obtain ⟨b, t, hbt, hhi, hk⟩ := hcase
      injection hbt with hb ht
      subst hb; subst ht
      obtain ⟨_, _, _, g4, g5⟩ := hi_facts c hhi
      have hc1 : ¬ (escape && (c == 0x3C || c == 0x3E || c == 0x26)) = true := by simp [g4]
      rw [pre1_neg src escape st i c hc1, pre2_notE2 _ _ _ _ _ _ g5]
      have hstep := inString_hi st.scan c hin hhi
      rw [e] at hstep; injection hstep with hstep; injection hstep with h1 h2
      subst h1; subst h2
      rw [post_noskip _ _ _ _ _ rfl]
      have hmode' : Mode ⟨st.scan, st.out, st.start, st.stop⟩ (i + 1) rest := by
        rcases hk with h1 | ⟨h1, b2, t2, h2, h3⟩
        · exact Or.inl (by simp only []; omega)
        · exact Or.inr ⟨hin, Or.inl ⟨by simp only []; omega, b2, t2, h2, h3⟩⟩
      refine loop_finish src escape rest st ⟨st.scan, st.out, st.start, st.stop⟩ i [] hstop ?_ ?_ ?_
      · exact compactLoop_spec src escape rest (pre ++ [c]) _ (i + 1) hsrc' hpre' hw hstop hmode'
      · have hge : i + 1 ≤ st.start := by rcases hk with h1 | ⟨h1, _⟩ <;> omega
        rw [V_of_ge src _ (i + 1) (by simpa using hge), V_of_ge src st i (by omega)]; simp
      · intro E' hE'; simpa using hE'


/-! ### `compact` -/

/-- what `compact` returns, through the loop specification -/
theorem compact_spec (escape : Bool) (src : Bytes) :
    compact escape src = .ok none ∨
    ∃ E, compact escape src = .ok (some E) ∧ Acc Scanner.new E := by
  obtain ⟨st', e', hw', hc'⟩ := compactLoop_spec src escape src [] { scan := Scanner.new, out := [], start := 0 } 0
    rfl rfl wf_new rfl (Or.inl (Nat.le_refl _))
  unfold compact
  simp only [e', Res.bind_ok]
  obtain ⟨s'', op, he, hr⟩ := eof_resid st'.scan hw'
  simp only [he, Res.bind_ok]
  by_cases hop : op = .error
  · left; subst hop; rfl
  · right
    have hop' : (op == Op.error) = false := by simpa using hop
    simp only [hop', Bool.false_eq_true, if_false]
    have herr := eof_err_false _ _ _ he hop
    obtain ⟨hle, E, hE, hacc⟩ := hc' herr ⟨s'', op, he, hop⟩
    have hV0 : V src { scan := Scanner.new, out := [], start := 0 } 0 = [] := by simp [V, pend]
    rw [hV0, List.nil_append] at hE
    refine ⟨E, ?_, hacc⟩
    by_cases hlt : st'.start < src.length
    · rw [if_pos hlt, slice_ok src _ _ hle (Nat.le_refl _)]
      simp only [Res.bind_ok, Res.pure_eq]
      rw [← hE]; rfl
    · rw [if_neg hlt]
      simp only [Res.pure_eq]
      rw [← hE, V_of_ge src st' _ (by omega)]

/-- **`compact` never panics** (no slice expression goes out of range, the scanner does not index an empty stack) -/
theorem compact_ok (escape : Bool) (src : Bytes) : ∃ o, compact escape src = .ok o := by
  rcases compact_spec escape src with h | ⟨E, h, _⟩
  · exact ⟨_, h⟩
  · exact ⟨_, h⟩

/-- **what `compact` writes is one JSON value**, nested at most `maxNestingDepth` deep -/
theorem compact_valid (escape : Bool) (src out : Bytes) (h : compact escape src = .ok (some out)) :
    IsVal out ∧ isJsonD maxNestingDepth out = true := by
  rcases compact_spec escape src with h0 | ⟨E, hE, hacc⟩
  · rw [h0] at h; cases h
  · rw [hE] at h; injection h with h; injection h with h; subst h
    have hj : isJsonD maxNestingDepth E = true := by rw [← resid_new]; exact hacc.acc
    obtain ⟨c, t, hct, hws⟩ := hacc.head rfl
    exact ⟨isVal_of_isJson E (isJsonD_isJson _ _ hj) c t hct hws hacc.last, hj⟩


/-! ### `compact` succeeds exactly on the documents the scanner accepts -/

@[simp] theorem pre1_stop (src : Bytes) (escape : Bool) (st : CompactSt) (i : Nat) (c : UInt8) :
    (pre1 src escape st i c).stop = st.stop := by
  unfold pre1; split <;> simp
@[simp] theorem pre2_stop (src : Bytes) (escape : Bool) (st : CompactSt) (i : Nat) (c : UInt8) (next : Bytes) :
    (pre2 src escape st i c next).stop = st.stop := by
  unfold pre2; repeat' split
  all_goals simp

theorem post_stop (src : Bytes) (st : CompactSt) (i : Nat) (sc : Scanner) (v : Op) (h : st.stop = false) :
    (post src st i sc v).stop = (v == .error) := by
  unfold post
  cases v <;> simp [Op.geSkipSpace, h]

theorem compactLoop_scan (src : Bytes) (escape : Bool) : ∀ (rest : Bytes) (st : CompactSt) (i : Nat),
    i + rest.length ≤ src.length → WF st.scan → st.stop = false →
    ∃ st', compactLoop src escape st i rest = .ok st' ∧ WF st'.scan ∧
      ((st'.scan.err = false ∧ ∃ s'' op, eof st'.scan = .ok (s'', op) ∧ op ≠ .error) ↔ resid st.scan rest = true)
  | [], st, i, _, hw, _ => by
    refine ⟨st, rfl, hw, ?_⟩
    obtain ⟨s2, op2, he2, hr⟩ := eof_resid st.scan hw
    constructor
    · rintro ⟨_, s'', op, he, hop⟩
      rw [he] at he2; injection he2 with he2; injection he2 with _ h2; subst h2
      rw [← hr]; simpa using hop
    · intro h
      have hop : op2 ≠ .error := by rw [← hr] at h; simpa using h
      exact ⟨eof_err_false _ _ _ he2 hop, s2, op2, he2, hop⟩
  | c :: rest, st, i, hlen, hw, hstop => by
    simp only [List.length_cons] at hlen
    unfold compactLoop
    rw [compactIter_eq src escape st i c rest (by omega)]
    obtain ⟨sc, v, e, hwsc, hop, hv⟩ := step_resid st.scan c rest hw
    rw [e]
    simp only []
    generalize hst1 : post src (pre2 src escape (pre1 src escape st i c) i c rest) i sc v = st1
    have hsc1 : st1.scan = sc := by rw [← hst1]; simp
    have hstop1 : st1.stop = (v == .error) := by
      rw [← hst1]; exact post_stop _ _ _ _ _ (by simp [hstop])
    by_cases hve : v = .error
    · subst hve
      rw [if_pos (by rw [hstop1]; rfl)]
      refine ⟨st1, rfl, by rw [hsc1]; exact hwsc, ?_⟩
      have herr : sc.err = true := hwsc.err.mpr (hop rfl)
      constructor
      · rintro ⟨h, _⟩; rw [hsc1, herr] at h; cases h
      · intro h; rw [hv] at h; simp [resid, hop rfl] at h
    · have : (v == Op.error) = false := by simpa using hve
      rw [if_neg (by rw [hstop1, this]; simp)]
      obtain ⟨st', e', hw', hiff⟩ := compactLoop_scan src escape rest st1 (i + 1) (by omega)
        (by rw [hsc1]; exact hwsc) (by rw [hstop1, this])
      refine ⟨st', e', hw', ?_⟩
      rw [hv, ← hsc1]; exact hiff

/-- `compact` returns bytes exactly when `valid` accepts the input -/
theorem compact_some_iff (escape : Bool) (src : Bytes) :
    (∃ out, compact escape src = .ok (some out)) ↔ valid src = .ok true := by
  obtain ⟨st', e', hw', hiff⟩ := compactLoop_scan src escape src { scan := Scanner.new, out := [], start := 0 } 0
    (by simp) wf_new rfl
  have hval : valid src = .ok (resid Scanner.new src) := checkLoop_resid src Scanner.new wf_new
  obtain ⟨s'', op, he, _⟩ := eof_resid st'.scan hw'
  constructor
  · rintro ⟨out, h⟩
    unfold compact at h
    simp only [e', Res.bind_ok, he] at h
    by_cases hop : op = .error
    · subst hop; simp at h
    · rw [hval, hiff.mp ⟨eof_err_false _ _ _ he hop, s'', op, he, hop⟩]
  · intro h
    rw [hval] at h; injection h with h
    obtain ⟨_, s2, op2, he2, hop2⟩ := hiff.mpr h
    rcases compact_spec escape src with h0 | ⟨E, hE, _⟩
    · exfalso
      unfold compact at h0
      simp only [e', Res.bind_ok, he2] at h0
      have : (op2 == Op.error) = false := by simpa using hop2
      simp only [this, Bool.false_eq_true, if_false] at h0
      split at h0
      · cases hsl : slice src st'.start src.length with
        | ok p => rw [hsl] at h0; simp at h0
        | err e => rw [hsl] at h0; simp at h0
        | panic m => rw [hsl] at h0; simp at h0
      · simp at h0
    · exact ⟨E, hE⟩

end UgoVerif.Proofs.Json
