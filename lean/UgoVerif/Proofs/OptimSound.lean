import UgoVerif.Proofs.OptimConst
/-
  Soundness of the optimizer model (`Model.Optim.transform`, `evalExpr`, `evalStep`) against the
  reference semantics: helper lemmas for Props/C01.
-/
namespace UgoVerif.Proofs.OptimSem
open UgoVerif UgoVerif.Go UgoVerif.Ast UgoVerif.VM UgoVerif.Sem UgoVerif.Proofs.ModCache
open UgoVerif.Model.Optim
set_option linter.unusedSimpArgs false

/-- `e'` can replace `e`: in every environment, state and fuel in which `e` evaluates to a value or
    throws a uGO error, `e'` does exactly the same (same value, same thrown error, same final state) -/
def EvalEq (F : FloatOps) (e e' : Expr) : Prop :=
  ∀ fuel env, Refines (evalExpr F fuel env e) (evalExpr F fuel env e')

theorem EvalEq.refl (F : FloatOps) (e : Expr) : EvalEq F e e := fun _ _ => Refines.refl _
theorem EvalEq.trans {F : FloatOps} {a b c : Expr} (h1 : EvalEq F a b) (h2 : EvalEq F b c) : EvalEq F a c :=
  fun f env => Refines.trans (h1 f env) (h2 f env)

theorem ConstTo.of_evalEq {F : FloatOps} {a b : Expr} {k : SM ER} (h1 : EvalEq F a b) (h2 : ConstTo F b k) :
    ConstTo F a k := fun f env => Refines.trans (h1 f env) (h2 f env)

/-! ### literals -/

def valOfLit : Lit → V
  | .int v => .int v | .uint v => .uint v | .float v => .float v | .char v => .char v
  | .bool b => .bool b | .str s => .str s | .undefined => .undefined | .other => .undefined

/-- `e` is a literal node with value `v` -/
def LitVal (F : FloatOps) (e : Expr) (v : V) : Prop :=
  isLit e = true ∧ ∀ f env, evalExpr F (f+1) env e = pure (.val v)

theorem litVal_litExpr (F : FloatOps) {p : Pos} {lit : Lit} {e : Expr} (h : litExpr p lit = some e) :
    LitVal F e (valOfLit lit) ∧ litOf e = lit := by
  cases lit <;> simp only [litExpr, Option.some.injEq, reduceCtorEq] at h <;> subst h <;>
    exact ⟨⟨rfl, fun f env => by rw [Sem.evalExpr]; try rfl⟩, rfl⟩

theorem litVal_of_litOf (F : FloatOps) {e : Expr} (h : litOf e ≠ .other) : LitVal F e (valOfLit (litOf e)) := by
  cases e <;> simp only [litOf, ne_eq, not_true_eq_false] at h <;>
    exact ⟨rfl, fun f env => by rw [Sem.evalExpr]; try rfl⟩

theorem litOfV_val {v : V} {lit : Lit} (h : litOfV v = some lit) : valOfLit lit = v := by
  cases v <;> simp only [litOfV, Option.some.injEq, reduceCtorEq] at h <;> subst h <;> rfl

theorem evalEq_of_const {F : FloatOps} {e e' : Expr} {v : V} (h : ConstTo F e (pure (.val v)))
    (hl : LitVal F e' v) : EvalEq F e e' := by
  intro fuel env
  cases fuel with
  | zero => exact Refines.of_fails (fails_zero F env e)
  | succ f => rw [hl.2]; exact h (f+1) env

/-- a literal evaluates to the same value with any positive fuel -/
theorem evalEq_lit_fuel {F : FloatOps} {x e' : Expr} {v : V} (hl : LitVal F e' v) (h : EvalEq F x e')
    (f : Nat) (env : Env) : Refines (evalExpr F f env x) (evalExpr F (f+1) env e') := by
  cases f with
  | zero => exact Refines.of_fails (fails_zero F env x)
  | succ g =>
    have := h (g+1) env
    rw [hl.2] at this ⊢
    exact this

/-! ### the model's evalExpr -/

/-- errors appended between two optimizer states, each the run-time error of a sub-expression -/
inductive Sub : Expr → Expr → Prop where
  | refl (e : Expr) : Sub e e
  | paren {x e : Expr} (p : Pos) : Sub x e → Sub x (.paren p e)
  | unary {x e : Expr} (p : Pos) (tok : Nat) : Sub x e → Sub x (.unary p tok e)
  | binL {x l : Expr} (p : Pos) (tok : Nat) (r : Expr) : Sub x l → Sub x (.binary p tok l r)
  | binR {x r : Expr} (p : Pos) (tok : Nat) (l : Expr) : Sub x r → Sub x (.binary p tok l r)
  | condC {x c : Expr} (p : Pos) (t f : Expr) : Sub x c → Sub x (.cond p c t f)
  | condT {x t : Expr} (p : Pos) (c f : Expr) : Sub x t → Sub x (.cond p c t f)
  | condF {x f : Expr} (p : Pos) (c t : Expr) : Sub x f → Sub x (.cond p c t f)

def ErrsFrom (F : FloatOps) (errs errs' : List (Pos × OpErr)) (e : Expr) : Prop :=
  ∃ new, errs' = errs ++ new ∧ ∀ pe ∈ new, ∃ x₀, Sub x₀ e ∧ ConstTo F x₀ (raise pe.2)

theorem ErrsFrom.none (F : FloatOps) (errs : List (Pos × OpErr)) (e : Expr) : ErrsFrom F errs errs e :=
  ⟨[], by simp, fun _ h => by cases h⟩

theorem ErrsFrom.mono {F : FloatOps} {errs errs' : List (Pos × OpErr)} {a b : Expr}
    (hsub : ∀ x, Sub x a → Sub x b) (h : ErrsFrom F errs errs' a) : ErrsFrom F errs errs' b := by
  obtain ⟨new, h1, h2⟩ := h
  exact ⟨new, h1, fun pe hpe => let ⟨x, hx, hc⟩ := h2 pe hpe; ⟨x, hsub x hx, hc⟩⟩

theorem ErrsFrom.trans {F : FloatOps} {e1 e2 e3 : List (Pos × OpErr)} {a : Expr}
    (h1 : ErrsFrom F e1 e2 a) (h2 : ErrsFrom F e2 e3 a) : ErrsFrom F e1 e3 a := by
  obtain ⟨n1, h11, h12⟩ := h1
  obtain ⟨n2, h21, h22⟩ := h2
  refine ⟨n1 ++ n2, by rw [h21, h11, List.append_assoc], fun pe hpe => ?_⟩
  rcases List.mem_append.mp hpe with h | h
  · exact h12 pe h
  · exact h22 pe h

/-- at most one error is appended, and it is the run-time error of the node `e` itself -/
def ErrsAt (F : FloatOps) (errs errs' : List (Pos × OpErr)) (e : Expr) : Prop :=
  errs' = errs ∨ ∃ oe, errs' = errs ++ [(e.pos, oe)] ∧ ConstTo F e (raise oe)

theorem ErrsAt.to_from {F : FloatOps} {errs errs' : List (Pos × OpErr)} {node orig : Expr}
    (h : ErrsAt F errs errs' node) (heq : EvalEq F orig node) : ErrsFrom F errs errs' orig := by
  rcases h with h | ⟨oe, h, hc⟩
  · rw [h]; exact ErrsFrom.none _ _ _
  · refine ⟨[(node.pos, oe)], h, fun pe hpe => ?_⟩
    simp only [List.mem_singleton] at hpe
    subst hpe
    exact ⟨orig, Sub.refl orig, ConstTo.of_evalEq heq hc⟩

/-- `evalExpr` of the model: a replacement is a literal with the value of the node, an appended error is
    the run-time error of the node -/
theorem evalExpr_sound (F : FloatOps) (lineOf : Pos → Nat) {st st' : OSt} {e : Expr} {r : Option Expr}
    (h : Model.Optim.evalExpr F lineOf st e = some (r, st')) :
    (∀ e', r = some e' → EvalEq F e e' ∧ isLit e' = true) ∧ ErrsAt F st.errors st'.errors e := by
  unfold Model.Optim.evalExpr at h
  split at h
  · cases h; exact ⟨fun _ h => (by cases h), Or.inl rfl⟩
  · split at h
    · cases h; exact ⟨fun _ h => (by cases h), Or.inl rfl⟩
    · split at h
      · cases h
      · cases h; exact ⟨fun _ h => (by cases h), Or.inl rfl⟩
      · rename_i hcomp
        have hag := cEval_agrees F e hcomp
        split at h
        · cases h
        · rename_i oe hce
          cases h
          rw [hce] at hag
          exact ⟨fun _ h => (by cases h), Or.inr ⟨oe, rfl, hag.run trivial⟩⟩
        · rename_i v hce
          rw [hce] at hag
          split at h
          · rename_i e1 hl
            cases h
            refine ⟨fun e' he' => ?_, Or.inl rfl⟩
            cases he'
            cases hv : litOfV v with
            | none => rw [hv] at hl; cases hl
            | some lit =>
              rw [hv] at hl
              simp only [Option.bind_some] at hl
              have hlv := (litVal_litExpr F hl).1
              rw [litOfV_val hv] at hlv
              exact ⟨evalEq_of_const (hag.run trivial) hlv, hlv.1⟩
          · cases h; exact ⟨fun _ h => (by cases h), Or.inl rfl⟩

theorem evalStep_sound (F : FloatOps) (lineOf : Pos → Nat) {st st' : OSt} {e e' : Expr}
    (h : evalStep F lineOf st e = some (e', st')) :
    EvalEq F e e' ∧ ErrsAt F st.errors st'.errors e := by
  unfold evalStep at h
  split at h
  · cases h
  · rename_i e1 st1 heq
    cases h
    have := evalExpr_sound F lineOf heq
    exact ⟨(this.1 _ rfl).1, this.2⟩
  · rename_i st1 heq
    cases h
    exact ⟨EvalEq.refl F _, (evalExpr_sound F lineOf heq).2⟩

/-! ### congruence -/

theorem evalEq_paren {F : FloatOps} {p : Pos} {x x' : Expr} (h : EvalEq F x x') :
    EvalEq F (.paren p x) (.paren p x') := by
  intro fuel env
  cases fuel with
  | zero => exact Refines.of_fails (fails_zero F env _)
  | succ f => rw [eval_paren, eval_paren]; exact h f env

theorem evalEq_unary {F : FloatOps} {p p' : Pos} {tok : Nat} {x x' : Expr} (h : EvalEq F x x') :
    EvalEq F (.unary p tok x) (.unary p' tok x') := by
  intro fuel env
  cases fuel with
  | zero => exact Refines.of_fails (fails_zero F env _)
  | succ f =>
    rw [eval_unary, eval_unary]
    exact Refines.bind (h f env) (fun _ => Refines.refl _)

theorem evalEq_binary {F : FloatOps} {p p' : Pos} {tok : Nat} {l l' r r' : Expr}
    (hl : EvalEq F l l') (hr : EvalEq F r r') : EvalEq F (.binary p tok l r) (.binary p' tok l' r') := by
  intro fuel env
  cases fuel with
  | zero => exact Refines.of_fails (fails_zero F env _)
  | succ f =>
    rw [eval_binary, eval_binary]
    refine Refines.bind (hl f env) (fun a => ?_)
    cases a with
    | thr e => exact Refines.refl _
    | val lv =>
      simp only [binK]
      split
      · refine Refines.bind (Refines.refl _) (fun b => ?_)
        cases b
        · simp only [Bool.false_eq_true, if_false]; exact hr f env
        · exact Refines.refl _
      · split
        · refine Refines.bind (Refines.refl _) (fun b => ?_)
          cases b
          · exact Refines.refl _
          · simp only [if_true]; exact hr f env
        · exact Refines.bind (hr f env) (fun _ => Refines.refl _)

theorem evalEq_cond {F : FloatOps} {p p' : Pos} {c c' t t' e e' : Expr}
    (hc : EvalEq F c c') (ht : EvalEq F t t') (he : EvalEq F e e') :
    EvalEq F (.cond p c t e) (.cond p' c' t' e') := by
  intro fuel env
  cases fuel with
  | zero => exact Refines.of_fails (fails_zero F env _)
  | succ f =>
    rw [eval_cond, eval_cond]
    refine Refines.bind (hc f env) (fun a => ?_)
    cases a with
    | thr e => exact Refines.refl _
    | val cv =>
      simp only [condK]
      refine Refines.bind (Refines.refl _) (fun b => ?_)
      cases b
      · simp only [Bool.false_eq_true, if_false]; exact ht f env
      · simp only [if_true]; exact he f env

/-! ### table folds -/

/-- the single-step facts about the regenerated folding tables (instantiated in Props/C01 by
    `fold_binaryop_agree`; `litVal` is the runtime value of a literal node) -/
def litVal : Lit → Val
  | .int v => .int v | .uint v => .uint v | .float v => .float v | .char v => .char v
  | .bool b => .bool b | .str s => .str s | .undefined => .undefined | .other => .undefined

def BinFoldFact (F : FloatOps) : Prop :=
  ∀ (S : ObjOps) (op : Tok) (a b lit : Lit), Gen.binaryop F op a b = .ok (some lit) →
    Model.binaryOp F S op (litVal a) (litVal b) = .ok (litVal lit)

theorem ofScalarVal_litVal (lit : Lit) : ofScalarVal (litVal lit) = some (valOfLit lit) := by
  cases lit <;> rfl

theorem fold_vm_bin {F : FloatOps} (hfact : BinFoldFact F) {op : Tok} {a b lit : Lit}
    (h : Gen.binaryop F op a b = .ok (some lit)) :
    vBinaryOp F op (valOfLit a) (valOfLit b) = pure (.ok (valOfLit lit)) := by
  have hf := fun S => hfact S op a b lit h
  cases a <;> cases b <;> simp [Gen.binaryop] at h
  · simp only [valOfLit, vBinaryOp, toValShallow, needStr, Bool.false_eq_true, if_false, pure_bind]
    simp only [litVal] at hf
    rw [hf]
    cases lit <;> rfl
  · simp only [valOfLit, vBinaryOp, toValShallow, needStr, Bool.false_eq_true, if_false, pure_bind]
    simp only [litVal] at hf
    rw [hf]
    cases lit <;> rfl
  · rename_i x y
    by_cases hop : op = .Add
    · subst hop
      simp only [valOfLit, vBinaryOp, toValShallow, needStr, Bool.false_eq_true, if_false, pure_bind]
      simp only [litVal] at hf
      rw [hf]
      cases lit <;> rfl
    · simp [hop] at h

theorem fold_tok_plain {F : FloatOps} {tok : Nat} {a b lit : Lit}
    (h : Gen.binaryop F (tokOfNat tok) a b = .ok (some lit)) :
    (tok == tLAnd) = false ∧ (tok == tLOr) = false ∧ (tok == tEqual) = false ∧ (tok == tNotEqual) = false := by
  refine ⟨?_, ?_, ?_, ?_⟩ <;>
    (apply Bool.eq_false_iff.mpr
     intro ht
     have ht' := eq_of_beq ht
     subst ht'
     cases a <;> cases b <;>
       simp [Gen.binaryop, Gen.binaryopInts, Gen.binaryopFloats, tokOfNat, tLAnd, tLOr, tEqual, tNotEqual,
         Gen.tok_LAnd, Gen.tok_LOr, Gen.tok_Equal, Gen.tok_NotEqual] at h)

theorem agrees_of_litOf (F : FloatOps) {e : Expr} (h : litOf e ≠ .other) :
    Agrees F e (cEval F e) ∧ cEval F e = .val (valOfLit (litOf e)) := by
  cases e <;> simp only [litOf, ne_eq, not_true_eq_false] at h <;>
    exact ⟨cEval_agrees F _ rfl, rfl⟩

theorem binaryop_lits {F : FloatOps} {op : Tok} {a b lit : Lit} (h : Gen.binaryop F op a b = .ok (some lit)) :
    a ≠ .other ∧ b ≠ .other := by
  cases a <;> cases b <;> simp [Gen.binaryop] at h <;> exact ⟨by simp, by simp⟩

theorem foldBinary_sound {F : FloatOps} (hfact : BinFoldFact F) {p : Pos} {tok : Nat} {l r e' : Expr}
    (h : foldBinary F tok l r = some (some e')) : EvalEq F (.binary p tok l r) e' ∧ isLit e' = true := by
  unfold foldBinary at h
  split at h
  · rename_i lit hb
    simp only [Option.some.injEq] at h
    have hlv := (litVal_litExpr F h).1
    obtain ⟨hla, hlb⟩ := binaryop_lits hb
    obtain ⟨hal, hcl⟩ := agrees_of_litOf F hla
    obtain ⟨har, hcr⟩ := agrees_of_litOf F hlb
    obtain ⟨t1, t2, t3, t4⟩ := fold_tok_plain hb
    have hag := agrees_binary (p := p) (tok := tok) hal har
    have hce : cEval F (.binary p tok l r) = .val (valOfLit lit) := by
      simp only [cEval, hcl, hcr, t1, t2, t3, t4, Bool.false_eq_true, if_false]
      rw [fold_vm_bin hfact hb]
      rfl
    rw [hce] at hag
    exact ⟨evalEq_of_const (hag.run trivial) hlv, hlv.1⟩
  · cases h
  · cases h

theorem fold_vm_un {F : FloatOps} {op : Tok} {a lit : Lit} (h : Gen.unaryop F op a = .ok (some lit)) :
    a ≠ .other ∧ vUnary F op (valOfLit a) = pure (.ok (valOfLit lit)) := by
  cases a <;> cases op <;> simp [Gen.unaryop] at h <;> subst h <;> exact ⟨by simp, rfl⟩

theorem foldUnary_sound {F : FloatOps} {p : Pos} {tok : Nat} {x e' : Expr}
    (h : foldUnary F tok x = some (some e')) : EvalEq F (.unary p tok x) e' ∧ isLit e' = true := by
  unfold foldUnary at h
  split at h
  · rename_i lit hb
    simp only [Option.some.injEq] at h
    have hlv := (litVal_litExpr F h).1
    obtain ⟨hla, hvm⟩ := fold_vm_un hb
    obtain ⟨hax, hcx⟩ := agrees_of_litOf F hla
    have hag := agrees_unary (p := p) (tok := tok) hax
    have hce : cEval F (.unary p tok x) = .val (valOfLit lit) := by
      simp only [cEval, hcx]
      rw [hvm]
      rfl
    rw [hce] at hag
    exact ⟨evalEq_of_const (hag.run trivial) hlv, hlv.1⟩
  · cases h
  · cases h

/-! ### constant conditions -/

theorem isLiteralFalsy_vm {F : FloatOps} {a : Lit} {falsy : Bool} (h : Gen.isLiteralFalsy F a = .ok (some falsy)) :
    a ≠ .other ∧ isFalsy (valOfLit a) = pure falsy := by
  unfold Gen.isLiteralFalsy at h
  cases a <;> simp at h <;> subst h <;>
    first | exact ⟨by simp, rfl⟩ | exact ⟨by simp, by simp [valOfLit, isFalsy]⟩

/-- `c ? t : e` on a literal condition is the taken branch -/
theorem cond_lit_taken (F : FloatOps) {c : Expr} {falsy : Bool}
    (h : Gen.isLiteralFalsy F (litOf c) = .ok (some falsy)) (p : Pos) (t e : Expr) (f : Nat) (env : Env) :
    evalExpr F (f+2) env (.cond p c t e) = evalExpr F (f+1) env (if falsy then e else t) := by
  obtain ⟨hne, hf⟩ := isLiteralFalsy_vm h
  have hl := litVal_of_litOf F hne
  rw [eval_cond, hl.2, pure_bind]
  simp only [condK, hf]
  show (Sem.liftM (pure falsy) >>= fun b => if b = true then _ else _) = _
  cases falsy <;> rfl

theorem condLit_sound {F : FloatOps} {c2 c3 : Expr} (h : condLit F c2 = some c3) (p p' : Pos) (t e : Expr) :
    EvalEq F (.cond p c2 t e) (.cond p' c3 t e) := by
  unfold condLit at h
  split at h
  · rename_i falsy hb
    cases h
    intro fuel env
    cases fuel with
    | zero => exact Refines.of_fails (fails_zero F env _)
    | succ f =>
      cases f with
      | zero =>
        rw [eval_cond]
        exact Refines.of_fails (Fails.bind _ (fails_zero F env _))
      | succ g =>
        rw [cond_lit_taken F hb]
        have hb' : Gen.isLiteralFalsy F (litOf (Expr.bool c2.pos (!falsy))) = .ok (some falsy) := by
          cases falsy <;> rfl
        rw [cond_lit_taken F hb']
        exact Refines.refl _
  · cases h
    exact evalEq_cond (EvalEq.refl F _) (EvalEq.refl F _) (EvalEq.refl F _)
  · cases h

/-- the optimizer's IfStmt rewrite: a literal condition replaced by the BoolLit `!falsy` -/
theorem if_lit_rewrite (F : FloatOps) {c : Expr} {falsy : Bool}
    (h : Gen.isLiteralFalsy F (litOf c) = .ok (some falsy)) (p bp : Pos) (init : Option Stmt) (body : List Stmt)
    (els : Option Stmt) (fuel : Nat) (env : Env) :
    execStmt F fuel env (.if_ p init c bp body els) =
      execStmt F fuel env (.if_ p init (.bool c.pos (!falsy)) bp body els) := by
  obtain ⟨hne, hf⟩ := isLiteralFalsy_vm h
  have hl := litVal_of_litOf F hne
  cases fuel with
  | zero => rw [Sem.execStmt.eq_1, Sem.execStmt.eq_1]
  | succ f =>
    rw [Sem.execStmt.eq_def, Sem.execStmt.eq_def]
    simp only []
    cases f with
    | zero => simp only [eval_zero]
    | succ g =>
      simp only [hl.2, eval_bool, pure_bind, hf]
      have : isFalsy (V.bool (!falsy)) = pure falsy := by cases falsy <;> rfl
      simp only [this]

/-- `if <BoolLit> { body } else …` (no init statement) is the taken branch -/
theorem if_bool_taken (F : FloatOps) (p q bp : Pos) (b : Bool) (body : List Stmt) (els : Option Stmt)
    (f : Nat) (env : Env) :
    execStmt F (f+2) env (.if_ p none (.bool q b) bp body els) =
      (if b then do
          let (c, _) ← execBlock F (f+1) ([] :: env) body
          pure (c, env)
        else
          match els with
          | some e => do let (c, _) ← execStmt F (f+1) ([] :: env) e; pure (c, env)
          | none => pure (.normal, env)) := by
  rw [Sem.execStmt.eq_def]
  simp only [eval_bool, pure_bind]
  cases b <;> rfl

end UgoVerif.Proofs.OptimSem
