import UgoVerif.Proofs.VMCallSite
import UgoVerif.Proofs.CompileWalk
/-
  Control-flow integrity of the VM model on well-formed code, part 1: definitions and calculus.

  **Claim** (`Proofs/ExecAtStartsRun.lean`, `exec_at_starts`): when every code of the code memory
  that a function cell of the heap names is well formed (`WfCode`: the stream decodes, the last
  instruction is RETURN, jump targets are instruction starts strictly inside, the operands of
  SETUPTRY are 0 or instruction starts strictly inside), the VM fetches opcodes only at
  instruction starts of the current function: at every instruction boundary of a run the state
  satisfies `Good` (`ip + 1` is an instruction start of the code of the current frame's function),
  every suspended frame resumes at an instruction start (`saved ip + 1`, behind the operands of
  its CALL), and every position stored in an error handler (catch, finally, return-to) is one.

  This file:
  * `WfCode` and what decoding gives (`WfCode.next`: the instruction after a non-RETURN
    instruction starts right behind its operands; `WfCode.bd0`: offset 0 is a start);
  * the phase-independent invariant `Safe` (holds at every panic site too), the instruction
    context `CtxI code v` (`Safe`, the current function's code is `code`, `ip = v`), `Good`;
  * the triples `Tq X Q m` (from `X`: on normal exit `Q result`, on a Go panic / leaving the
    model `Safe`) with the rules for sequencing, `ip` arithmetic and operand reads;
  * every data primitive keeps `CtxI code v` (c07's `Keeps` calculus, c16b's `ckeeps` tactic).
-/
namespace UgoVerif.VM.Cfi
open UgoVerif UgoVerif.Go
open UgoVerif.Compile (Walk Bd readBE opWidth)

/-! ### well-formed code -/

/-- what control-flow integrity needs of one code of the code memory (`Props/C05.WFFn` gives all of
    it but the strictness of the SETUPTRY operands, which is `Props/C05.TryStrict`) -/
structure WfCode (c : Code) : Prop where
  /-- the stream decodes completely -/
  decodes : Walk c.insts 0 c.insts.size
  /-- the last instruction is RETURN -/
  ret : ∃ q b, Walk c.insts 0 q ∧ c.insts[q]? = some b ∧ b.toNat = OpReturn ∧ q + 2 = c.insts.size
  /-- jump targets are instruction starts strictly inside -/
  jump : ∀ p op, Bd c.insts p → c.insts[p]? = some op →
    (op.toNat = OpJump ∨ op.toNat = OpJumpFalsy ∨ op.toNat = OpAndJump ∨ op.toNat = OpOrJump) →
    Bd c.insts (readBE c.insts (p + 1) 4)
  /-- the operands of SETUPTRY are 0 (absent) or instruction starts strictly inside -/
  try_ : ∀ p op, Bd c.insts p → c.insts[p]? = some op → op.toNat = OpSetupTry →
    (0 < readBE c.insts (p + 1) 4 → Bd c.insts (readBE c.insts (p + 1) 4)) ∧
    (0 < readBE c.insts (p + 5) 4 → Bd c.insts (readBE c.insts (p + 5) 4))

theorem WfCode.bd0 {c : Code} (hw : WfCode c) : Bd c.insts 0 := by
  obtain ⟨q, b, _, _, _, hq⟩ := hw.ret
  exact ⟨.refl 0, by omega⟩

theorem WfCode.fit {c : Code} (hw : WfCode c) {p : Nat} {op : UInt8} (hbd : Bd c.insts p)
    (hop : c.insts[p]? = some op) : p + 1 + opWidth op.toNat ≤ c.insts.size :=
  Compile.Bd.fit hbd hw.decodes hop

/-- the instruction behind a non-RETURN instruction starts right after its operands -/
theorem WfCode.next {c : Code} (hw : WfCode c) {p : Nat} {op : UInt8} (hbd : Bd c.insts p)
    (hop : c.insts[p]? = some op) (hne : op.toNat ≠ OpReturn) : Bd c.insts (p + 1 + opWidth op.toNat) := by
  have hp := hbd.2
  have hfit := hw.fit hbd hop
  refine ⟨?_, ?_⟩
  · rcases hbd.1.comparable hw.decodes with h' | h'
    · cases h' with
      | refl => exact absurd hp (Nat.lt_irrefl _)
      | step op' h1 h2 h3 h4 =>
        have e : op' = op := by rw [hop] at h1; injection h1 with h; exact h.symm
        subst e
        exact hbd.1.trans (.step op' h1 h2 h3 (.refl _))
    · have := h'.le; omega
  · rcases Nat.lt_or_ge (p + 1 + opWidth op.toNat) c.insts.size with hlt | hge
    · exact hlt
    · exfalso
      obtain ⟨q, b, hq, hb, hbr, hqs⟩ := hw.ret
      have hw1 : opWidth b.toNat = 1 := by rw [hbr]; rfl
      rcases hbd.1.comparable hq with h'' | h''
      · cases h'' with
        | refl => rw [hop] at hb; injection hb with hb; subst hb; exact hne hbr
        | step op2 g1 g2 g3 g4 =>
          have e2 : op2 = op := by rw [hop] at g1; injection g1 with h; exact h.symm
          subst e2
          have := g4.le; omega
      · cases h'' with
        | refl => rw [hop] at hb; injection hb with hb; subst hb; exact hne hbr
        | step op2 g1 g2 g3 g4 =>
          have e2 : op2 = b := by rw [hb] at g1; injection g1 with h; exact h.symm
          subst e2
          have := g4.le; omega

/-! ### the invariants -/

/-- every position an error handler stores is an instruction start of `a` (0 = absent) -/
@[reducible] def HOK (a : Array UInt8) (h : Handler) : Prop :=
  (0 < h.catch_ → Bd a h.catch_.toNat) ∧ (0 < h.finally_ → Bd a h.finally_.toNat) ∧
  (0 < h.returnTo → Bd a h.returnTo.toNat)

@[reducible] def HsOK (a : Array UInt8) (f : Frame) : Prop := ∀ hs, f.handlers = some hs → ∀ h ∈ hs, HOK a h

/-- a frame: cleared (no function, no handler), or its function is a function cell of the heap,
    its handlers store instruction starts of that function's code, and — for a frame below the
    current one — `saved ip + 1` is an instruction start of it -/
def FrOK (heap : Array Cell) (codes : Array Code) (below : Prop) (f : Frame) : Prop :=
  (f.fn = none ∧ hasHandler f = false) ∨
  ∃ fa c fr, f.fn = some fa ∧ heap[fa]? = some (Cell.fn c fr) ∧ HsOK (codes[c]!).insts f ∧
    (below → 0 ≤ f.ip + 1 ∧ Bd (codes[c]!).insts (f.ip + 1).toNat)

/-- the phase-independent invariant as a function of the fields it reads -/
@[reducible] def SafeF (frames : Array Frame) (cur : Nat) (fi : Int) (heap : Array Cell) (codes : Array Code) : Prop :=
  (∀ (a c : Nat) (fr : Option (List Addr)), heap[a]? = some (Cell.fn c fr) → WfCode (codes[c]!)) ∧
  (cur : Int) + 1 = fi ∧ frames.size = frameSize ∧
  ∀ i, FrOK heap codes (i < cur) (frames[i]!)

/-- **Safe**: holds at every instruction boundary and in the partial state at every panic site:
    the code of every function cell is well formed; `curFrame + 1 = frameIndex`; every frame is `FrOK` -/
@[reducible] def Safe (s : State) : Prop := SafeF s.frames s.curFrame s.frameIndex s.heap s.codes

@[reducible] def CurF (code : Code) (frames : Array Frame) (cur : Nat) (heap : Array Cell) (codes : Array Code) : Prop :=
  ∃ fa c fr, (frames[cur]!).fn = some fa ∧ heap[fa]? = some (Cell.fn c fr) ∧ codes[c]! = code

/-- the instruction context: `Safe`, the current frame runs `code`, `ip = v` -/
@[reducible] def CtxI (code : Code) (v : Int) (s : State) : Prop :=
  SafeF s.frames s.curFrame s.frameIndex s.heap s.codes ∧ CurF code s.frames s.curFrame s.heap s.codes ∧ s.ip = v

/-- **Good**: the state at an instruction boundary: the next fetch position `ip + 1` is an
    instruction start of the code of the current frame's function -/
@[reducible] def Good (s : State) : Prop :=
  ∃ code, CtxI code s.ip s ∧ 0 ≤ s.ip + 1 ∧ Bd code.insts (s.ip + 1).toNat

theorem CtxI.safe {code : Code} {v : Int} {s : State} (h : CtxI code v s) : Safe s := h.1

theorem CtxI.wf {code : Code} {v : Int} {s : State} (h : CtxI code v s) : WfCode code := by
  obtain ⟨fa, c, fr, _, hh, hc⟩ := h.2.1
  rw [← hc]; exact h.1.1 fa c fr hh

theorem CtxI.good {code : Code} {v : Int} {s : State} (h : CtxI code v s) {n : Nat} (hbd : Bd code.insts n)
    (hv : v + 1 = (n : Int)) : Good s := by
  have hip : s.ip = v := h.2.2
  refine ⟨code, ⟨h.1, h.2.1, rfl⟩, by omega, ?_⟩
  have : (s.ip + 1).toNat = n := by omega
  rw [this]; exact hbd

theorem Good.safe {s : State} (h : Good s) : Safe s := by
  obtain ⟨_, h, _⟩ := h; exact h.1

theorem FrOK.mono {heap heap' : Array Cell} {codes : Array Code} {b b' : Prop} {f : Frame}
    (hh : ∀ (a c : Nat) (fr : Option (List Addr)), heap[a]? = some (Cell.fn c fr) → heap'[a]? = some (Cell.fn c fr))
    (hb : b' → b) (h : FrOK heap codes b f) : FrOK heap' codes b' f := by
  rcases h with h | ⟨fa, c, fr, h1, h2, h3, h4⟩
  · exact .inl h
  · exact .inr ⟨fa, c, fr, h1, hh _ _ _ h2, h3, fun hb' => h4 (hb hb')⟩

theorem frOK_default (heap : Array Cell) (codes : Array Code) (b : Prop) : FrOK heap codes b (default : Frame) :=
  .inl ⟨rfl, rfl⟩

/-- the current frame of an instruction context has the context's code -/
theorem CtxI.cur {code : Code} {v : Int} {s : State} (h : CtxI code v s) :
    ∃ fa c fr, (s.frames[s.curFrame]!).fn = some fa ∧ s.heap[fa]? = some (Cell.fn c fr) ∧ s.codes[c]! = code ∧
      HsOK code.insts (s.frames[s.curFrame]!) := by
  obtain ⟨fa, c, fr, h1, h2, h3⟩ := h.2.1
  refine ⟨fa, c, fr, h1, h2, h3, ?_⟩
  rcases h.1.2.2.2 s.curFrame with h' | ⟨fa', c', fr', g1, g2, g3, _⟩
  · rw [h1] at h'; cases h'.1
  · rw [h1] at g1; cases g1
    rw [h2] at g2; cases g2
    rw [← h3]; exact g3

/-- frame condition: an action that keeps `ip`, the frames, `curFrame`, `frameIndex`, the codes and
    every function cell, and creates function cells only for codes that have one, keeps the context -/
theorem CtxI.of_frame {code : Code} {v : Int} {s s' : State} (h : CtxI code v s)
    (hip : s'.ip = s.ip) (hfr : s'.frames = s.frames) (hc : s'.curFrame = s.curFrame)
    (hfi : s'.frameIndex = s.frameIndex) (hcodes : s'.codes = s.codes)
    (hheap : ∀ (a c : Nat) (f : Option (List Addr)), s.heap[a]? = some (Cell.fn c f) → s'.heap[a]? = some (Cell.fn c f))
    (hnew : ∀ (a c : Nat) (f : Option (List Addr)), s'.heap[a]? = some (Cell.fn c f) →
      ∃ (a' : Nat) (f' : Option (List Addr)), s.heap[a']? = some (Cell.fn c f')) : CtxI code v s' := by
  obtain ⟨⟨h1, h2, h3, h4⟩, ⟨fa, c, fr, g1, g2, g3⟩, h5⟩ := h
  refine ⟨⟨?_, ?_, ?_, ?_⟩, ⟨fa, c, fr, ?_, ?_, ?_⟩, ?_⟩
  · intro a c fr hx
    obtain ⟨a', f', hy⟩ := hnew a c fr hx
    rw [hcodes]; exact h1 a' c f' hy
  · rw [hc, hfi]; exact h2
  · rw [hfr]; exact h3
  · intro i; rw [hfr, hc, hcodes]; exact (h4 i).mono hheap (fun x => x)
  · rw [hfr, hc]; exact g1
  · exact hheap _ _ _ g2
  · rw [hcodes]; exact g3
  · rw [hip]; exact h5

/-! ### the triples -/

/-- from `X`: on normal exit `Q result`, on a Go panic / leaving the model `Safe` -/
def Tq {α} (X : State → Prop) (Q : α → State → Prop) (m : M α) : Prop :=
  ∀ s, X s → match exec m s with
    | (.ok a, s') => Q a s'
    | (.error _, s') => Safe s'

namespace Tq
variable {α β : Type} {X : State → Prop} {Q : α → State → Prop}

theorem pure {a : α} (h : ∀ s, X s → Q a s) : Tq X Q (Pure.pure a : M α) := fun s hs => h s hs

theorem panic (msg : String) (h : ∀ s, X s → Safe s) : Tq X Q (VM.panic msg : M α) := fun s hs => h s hs

theorem unsupported (msg : String) (h : ∀ s, X s → Safe s) : Tq X Q (VM.unsupported msg : M α) := fun s hs => h s hs

theorem bind {R : β → State → Prop} {m : M β} {f : β → M α} (hm : Tq X R m) (hf : ∀ b, Tq (R b) Q (f b)) :
    Tq X Q (m >>= f) := by
  intro s hs
  have h := hm s hs
  rw [exec_bind]
  rcases h1 : exec m s with ⟨r, s1⟩
  rw [h1] at h
  cases r with
  | ok b => exact hf b s1 h
  | error e => exact h

theorem bind_keeps {m : M β} {f : β → M α} (hm : Keeps X m) (hX : ∀ s, X s → Safe s) (hf : ∀ b, Tq X Q (f b)) :
    Tq X Q (m >>= f) := by
  intro s hs
  have h := hm.elim s hs
  rw [exec_bind]
  rcases h1 : exec m s with ⟨r, s1⟩
  rw [h1] at h
  cases r with
  | ok b => exact hf b s1 h
  | error e => exact hX _ h

theorem of_keeps {m : M α} (hm : Keeps X m) (hX : ∀ s, X s → Safe s) (hQ : ∀ a s, X s → Q a s) : Tq X Q m := by
  intro s hs
  have h := hm.elim s hs
  rcases h1 : exec m s with ⟨r, s1⟩
  rw [h1] at h
  cases r with
  | ok b => exact hQ b s1 h
  | error e => exact hX _ h

theorem ite {c : Prop} [Decidable c] {a b : M α} (ha : Tq X Q a) (hb : Tq X Q b) : Tq X Q (if c then a else b) := by
  split <;> assumption

theorem ite_cond {c : Prop} [Decidable c] {a b : M α} (ha : c → Tq X Q a) (hb : ¬ c → Tq X Q b) :
    Tq X Q (if c then a else b) := by
  split
  · exact ha ‹_›
  · exact hb ‹_›

theorem pre {X' : State → Prop} {m : M α} (h : Tq X Q m) (hX : ∀ s, X' s → X s) : Tq X' Q m :=
  fun s hs => h s (hX s hs)

theorem post {Q' : α → State → Prop} {m : M α} (h : Tq X Q m) (hQ : ∀ a s, Q a s → Q' a s) : Tq X Q' m := by
  intro s hs
  have := h s hs
  rcases h1 : exec m s with ⟨r, s1⟩
  rw [h1] at this
  cases r with
  | ok b => exact hQ b s1 this
  | error e => exact this

/-- a fact about the pre-state may be used to build the triple -/
theorem assume {m : M α} (h : ∀ s0, X s0 → Tq (fun s => s = s0) Q m) : Tq X Q m :=
  fun s hs => h s hs s rfl

theorem ofFalse {m : M α} : Tq (fun _ => False) Q m := fun _ h => h.elim

theorem elim_ok {m : M α} (h : Tq X Q m) {s s' : State} {a : α} (hs : X s) (e : exec m s = (.ok a, s')) : Q a s' := by
  have := h s hs; rw [e] at this; exact this

theorem elim_err {m : M α} (h : Tq X Q m) {s s' : State} {x : Exc} (hs : X s) (e : exec m s = (.error x, s')) :
    Safe s' := by
  have := h s hs; rw [e] at this; exact this

theorem intro' {m : M α} (h : ∀ s, X s → match exec m s with
    | (.ok a, s') => Q a s'
    | (.error _, s') => Safe s') : Tq X Q m := h

/-! #### `ip` and the code -/
variable {code : Code} {v : Int}

theorem getS_bind {f : State → M α} (hf : ∀ s0, Tq (fun s => X s ∧ s = s0) Q (f s0)) : Tq X Q (getS >>= f) := by
  intro s hs
  rw [exec_bind, exec_getS]
  exact hf s s ⟨hs, rfl⟩

theorem getIp_bind {f : Int → M α} (hf : Tq (CtxI code v) Q (f v)) : Tq (CtxI code v) Q (getIp >>= f) := by
  intro s hs
  rw [exec_bind]
  have : exec getIp s = (.ok s.ip, s) := rfl
  rw [this]
  have hip : s.ip = v := hs.2.2
  rw [hip]
  exact hf s hs

theorem setIp_bind {w : Int} {f : Unit → M α} (hf : Tq (CtxI code w) Q (f ())) :
    Tq (CtxI code v) Q (setIp w >>= f) := by
  intro s hs
  rw [exec_bind]
  have : exec (setIp w) s = (.ok (), { s with ip := w }) := rfl
  rw [this]
  exact hf _ ⟨hs.1, hs.2.1, rfl⟩

theorem bumpIp_bind {n : Int} {f : Unit → M α} (hf : Tq (CtxI code (v + n)) Q (f ())) :
    Tq (CtxI code v) Q (bumpIp n >>= f) := by
  intro s hs
  rw [exec_bind]
  have : exec (bumpIp n) s = (.ok (), { s with ip := s.ip + n }) := rfl
  rw [this]
  have hip : s.ip = v := hs.2.2
  exact hf _ ⟨hs.1, hs.2.1, by show s.ip + n = v + n; rw [hip]⟩

theorem curFrame_bind {f : Frame → M α} (hf : ∀ fr, Tq (fun s => X s ∧ s.frames[s.curFrame]! = fr) Q (f fr)) :
    Tq X Q (VM.curFrame >>= f) := by
  intro s hs
  rw [exec_bind, Live.exec_curFrame]
  exact hf _ s ⟨hs, rfl⟩

end Tq

/-! ### reading the code -/

theorem exec_curCode_of {code : Code} {v : Int} {s : State} (h : CtxI code v s) : exec curCode s = (.ok code, s) := by
  obtain ⟨fa, c, fr, h1, h2, h3⟩ := h.2.1
  simp only [curCode, exec_bind, Live.exec_curFrame, h1, exec_heapGet, h2, exec_getS, exec_pure, h3]

theorem exec_instAt_of {code : Code} {v : Int} {s : State} (h : CtxI code v s) (i : Int) (n : Nat) (hi : i = n)
    (hn : n < code.insts.size) : exec (instAt i) s = (.ok (code.insts[n]!).toNat, s) := by
  subst hi
  simp only [instAt, exec_bind, exec_curCode_of h]
  have : ¬ ((decide ((n : Int) < 0) || decide ((n : Int) ≥ (code.insts.size : Int))) = true) := by
    simp; omega
  rw [if_neg this]
  simp [exec_pure]

theorem or_shl' (x y k : Nat) (h : x < 2 ^ k) : x ||| (y <<< k) = y * 2 ^ k + x := by
  rw [Nat.or_comm, ← Nat.shiftLeft_add_eq_or_of_lt h, Nat.shiftLeft_eq]

theorem rd4_readBE (a : Array UInt8) (i : Nat) (h : i + 3 < a.size) :
    (a[i + 3]!).toNat ||| ((a[i + 2]!).toNat <<< 8) ||| ((a[i + 1]!).toNat <<< 16) ||| ((a[i]!).toNat <<< 24)
      = readBE a i 4 := by
  rw [Compile.readBE4]
  have e0 : a[i]?.getD 0 = a[i]! := by rw [getElem!_pos a i (by omega)]; simp [show i < a.size by omega]
  have e1 : a[i + 1]?.getD 0 = a[i + 1]! := by rw [getElem!_pos a (i + 1) (by omega)]; simp [show i + 1 < a.size by omega]
  have e2 : a[i + 2]?.getD 0 = a[i + 2]! := by rw [getElem!_pos a (i + 2) (by omega)]; simp [show i + 2 < a.size by omega]
  have e3 : a[i + 3]?.getD 0 = a[i + 3]! := by rw [getElem!_pos a (i + 3) (by omega)]; simp [h]
  rw [e0, e1, e2, e3]
  have b0 := (a[i]!).toNat_lt
  have b1 := (a[i + 1]!).toNat_lt
  have b2 := (a[i + 2]!).toNat_lt
  have b3 := (a[i + 3]!).toNat_lt
  rw [or_shl' _ _ 8 (by omega), or_shl' _ _ 16 (by omega), or_shl' _ _ 24 (by omega)]
  omega

/-- `opnd4 k` inside the current instruction: the big-endian operand the compiler wrote -/
theorem exec_opnd4_of {code : Code} {v : Int} {s : State} (h : CtxI code v s) (p : Nat) (hv : v = p)
    (k : Int) (j : Nat) (hk : k = j) (hn : p + j + 3 < code.insts.size) :
    exec (opnd4 k) s = (.ok (readBE code.insts (p + j) 4), s) := by
  have hip : s.ip = p := by rw [← hv]; exact h.2.2
  simp only [opnd4, exec_bind]
  have e : exec getIp s = (.ok s.ip, s) := rfl
  rw [e]
  simp only
  rw [exec_instAt_of h _ (p + j + 3) (by rw [hip, hk]; simp) hn]
  simp only
  rw [exec_instAt_of h _ (p + j + 2) (by rw [hip, hk]; simp) (by omega)]
  simp only
  rw [exec_instAt_of h _ (p + j + 1) (by rw [hip, hk]; simp) (by omega)]
  simp only
  rw [exec_instAt_of h _ (p + j) (by rw [hip, hk]; simp) (by omega)]
  simp only [exec_pure]
  rw [rd4_readBE _ _ hn]

theorem Tq.opnd4_bind {α} {code : Code} {p : Nat} {Q : α → State → Prop} {f : Nat → M α} (k : Int) (j : Nat)
    (hk : k = j) (hn : p + j + 3 < code.insts.size)
    (hf : Tq (CtxI code p) Q (f (readBE code.insts (p + j) 4))) : Tq (CtxI code p) Q (opnd4 k >>= f) := by
  apply Tq.intro'; intro s hs
  rw [exec_bind, exec_opnd4_of hs p rfl k j hk hn]
  exact hf s hs

attribute [irreducible] Tq

/-! ### data primitives keep the instruction context -/

set_option maxHeartbeats 1600000
section
variable {code : Code} {iv : Int}

theorem xk_stackGet (i : Int) : Keeps (CtxI code iv) (stackGet i) := by unfold stackGet; ckeeps (CtxI code iv)
macro_rules | `(tactic| ck_prim) => `(tactic| exact xk_stackGet _)
theorem xk_stackSet (i : Int) (x : V) : Keeps (CtxI code iv) (stackSet i x) := by unfold stackSet; ckeeps (CtxI code iv)
macro_rules | `(tactic| ck_prim) => `(tactic| exact xk_stackSet _ _)
theorem xk_getSp : Keeps (CtxI code iv) getSp := by unfold getSp; ckeeps (CtxI code iv)
macro_rules | `(tactic| ck_prim) => `(tactic| exact xk_getSp)
theorem xk_setSp (x : Int) : Keeps (CtxI code iv) (setSp x) := by unfold setSp; ckeeps (CtxI code iv)
macro_rules | `(tactic| ck_prim) => `(tactic| exact xk_setSp _)
theorem xk_getIp : Keeps (CtxI code iv) getIp := by unfold getIp; ckeeps (CtxI code iv)
macro_rules | `(tactic| ck_prim) => `(tactic| exact xk_getIp)
theorem xk_curFrame : Keeps (CtxI code iv) curFrame := by unfold curFrame; ckeeps (CtxI code iv)
macro_rules | `(tactic| ck_prim) => `(tactic| exact xk_curFrame)
theorem xk_heapGet (a : Addr) : Keeps (CtxI code iv) (heapGet a) := by unfold heapGet; ckeeps (CtxI code iv)
macro_rules | `(tactic| ck_prim) => `(tactic| exact xk_heapGet _)

theorem set!_fn_iff (heap : Array Cell) (a : Nat) (c : Cell) (hc : c.kind ≠ 3) (old : Cell) (hold : heap[a]? = some old)
    (hk : old.kind = c.kind) (a' k : Nat) (f : Option (List Addr)) :
    (heap.set! a c)[a']? = some (Cell.fn k f) ↔ heap[a']? = some (Cell.fn k f) := by
  rw [Array.set!_eq_setIfInBounds, Array.getElem?_setIfInBounds]
  by_cases hne : a = a'
  · subst hne
    have hlt : a < heap.size := by
      rcases Nat.lt_or_ge a heap.size with hl | hl
      · exact hl
      · rw [Array.getElem?_eq_none hl] at hold; cases hold
    simp only [if_true, hlt]
    constructor
    · intro h
      have : c = Cell.fn k f := by simpa using h
      subst this; exact absurd rfl hc
    · intro h
      rw [hold] at h
      have : old = Cell.fn k f := by simpa using h
      subst this
      exact absurd hk.symm hc
  · simp [hne]

theorem xk_heapUpd (a : Addr) (c : Cell) (hc : c.kind ≠ 3) : Keeps (CtxI code iv) (heapUpd a c) := by
  apply Keeps.intro'; intro s h
  simp only [heapUpd, heapGet, exec_bind, exec_getS]
  cases hx : s.heap[a]? with
  | none => exact h
  | some old =>
    simp only [exec_pure]
    by_cases hk : (old.kind == c.kind) = true
    · simp only [hk, if_true]
      show CtxI code iv { s with heap := s.heap.set! a c }
      have hk' : old.kind = c.kind := by simpa using hk
      refine CtxI.of_frame h rfl rfl rfl rfl rfl ?_ ?_
      · intro a' c' f' hs
        exact (set!_fn_iff s.heap a c hc old hx hk' a' c' f').mpr hs
      · intro a' c' f' hs
        exact ⟨a', f', (set!_fn_iff s.heap a c hc old hx hk' a' c' f').mp hs⟩
    · simp only [hk, Bool.false_eq_true, if_false]; exact h
macro_rules | `(tactic| ck_prim) => `(tactic| exact xk_heapUpd _ _ (by simp [Cell.kind]))

theorem xk_boxSet (a : Addr) (x : V) : Keeps (CtxI code iv) (boxSet a x) := by
  apply Keeps.intro'; intro s h
  simp only [boxSet, heapGet, exec_bind, exec_getS]
  cases hx : s.heap[a]? with
  | none => exact h
  | some old =>
    simp only [exec_pure]
    cases old with
    | box w =>
      show CtxI code iv { s with heap := s.heap.set! a (.box x) }
      refine CtxI.of_frame h rfl rfl rfl rfl rfl ?_ ?_
      · intro a' c' f' hs
        exact (set!_fn_iff s.heap a (.box x) (by simp [Cell.kind]) (.box w) hx rfl a' c' f').mpr hs
      · intro a' c' f' hs
        exact ⟨a', f', (set!_fn_iff s.heap a (.box x) (by simp [Cell.kind]) (.box w) hx rfl a' c' f').mp hs⟩
    | _ => exact h
macro_rules | `(tactic| ck_prim) => `(tactic| exact xk_boxSet _ _)

theorem push_fn_iff (heap : Array Cell) (c : Cell) (a' k : Nat) (f : Option (List Addr)) :
    (heap.push c)[a']? = some (Cell.fn k f) ↔ (heap[a']? = some (Cell.fn k f) ∨ (a' = heap.size ∧ c = Cell.fn k f)) := by
  rw [Array.getElem?_push]
  by_cases he : a' = heap.size
  · subst he
    simp
  · simp [he]

/-- allocation of a cell that is not a function cell -/
theorem xk_alloc (c : Cell) (hc : c.kind ≠ 3) : Keeps (CtxI code iv) (alloc c) := by
  apply Keeps.intro'; intro s h
  show CtxI code iv { s with heap := s.heap.push c }
  refine CtxI.of_frame h rfl rfl rfl rfl rfl ?_ ?_
  · intro a' c' f' hs
    exact (push_fn_iff s.heap c a' c' f').mpr (.inl hs)
  · intro a' c' f' hs
    rcases (push_fn_iff s.heap c a' c' f').mp hs with h1 | ⟨_, h2⟩
    · exact ⟨a', f', h1⟩
    · subst h2; exact absurd rfl hc
macro_rules | `(tactic| ck_prim) => `(tactic| exact xk_alloc _ (by simp [Cell.kind]))

theorem xk_noteTrace (op : Nat) : Keeps (CtxI code iv) (noteTrace op) := by
  apply Keeps.intro'; intro s h
  rw [exec_noteTrace]
  split <;> exact h
macro_rules | `(tactic| ck_prim) => `(tactic| exact xk_noteTrace _)

end

/-! #### `Copy()` creates function cells only as copies of function cells -/

/-- every function cell of `h'` has the code of a function cell of `h` -/
def FnFrom (h h' : Array Cell) : Prop :=
  ∀ (a c : Nat) (f : Option (List Addr)), h'[a]? = some (Cell.fn c f) → ∃ (a' : Nat) (f' : Option (List Addr)), h[a']? = some (Cell.fn c f')

theorem FnFrom.refl (h : Array Cell) : FnFrom h h := fun a _ f hx => ⟨a, f, hx⟩
theorem FnFrom.trans {h1 h2 h3 : Array Cell} (a : FnFrom h1 h2) (b : FnFrom h2 h3) : FnFrom h1 h3 := by
  intro x c f hx
  obtain ⟨x', f', hx'⟩ := b x c f hx
  exact a x' c f' hx'
theorem FnFrom.push (h : Array Cell) (c : Cell) (hc : c.kind ≠ 3) : FnFrom h (h.push c) := by
  intro a' k f hs
  rcases (push_fn_iff h c a' k f).mp hs with h1 | ⟨_, h2⟩
  · exact ⟨a', f, h1⟩
  · subst h2; exact absurd rfl hc

theorem mapHeap_fnFrom {g : Array Cell → V → Option (V × Array Cell)}
    (hg : ∀ h x y h', g h x = some (y, h') → FnFrom h h') :
    ∀ (xs : List V) (h : Array Cell) (ys : List V) (h' : Array Cell), mapHeap g h xs = some (ys, h') → FnFrom h h'
  | [], h, ys, h', e => by simp [mapHeap] at e; rw [← e.2]; exact FnFrom.refl _
  | x :: xs, h, ys, h', e => by
    simp only [mapHeap] at e
    split at e
    · cases e
    · rename_i y h1 e1
      split at e
      · cases e
      · rename_i zs h2 e2
        simp at e
        rw [← e.2]
        exact (hg _ _ _ _ e1).trans (mapHeap_fnFrom hg xs h1 zs h2 e2)

theorem mapHeapKV_fnFrom {g : Array Cell → V → Option (V × Array Cell)}
    (hg : ∀ h x y h', g h x = some (y, h') → FnFrom h h') :
    ∀ (xs : List (Bytes × V)) (h : Array Cell) (ys : List (Bytes × V)) (h' : Array Cell),
      mapHeapKV g h xs = some (ys, h') → FnFrom h h'
  | [], h, ys, h', e => by simp [mapHeapKV] at e; rw [← e.2]; exact FnFrom.refl _
  | (k, x) :: xs, h, ys, h', e => by
    simp only [mapHeapKV] at e
    split at e
    · cases e
    · rename_i y h1 e1
      split at e
      · cases e
      · rename_i zs h2 e2
        simp at e
        rw [← e.2]
        exact (hg _ _ _ _ e1).trans (mapHeapKV_fnFrom hg xs h1 zs h2 e2)

theorem copyVal_fnFrom : ∀ (fuel : Nat) (h : Array Cell) (x y : V) (h' : Array Cell),
    copyVal fuel h x = some (y, h') → FnFrom h h' := by
  intro fuel
  induction fuel with
  | zero => intro h x y h' e; simp [copyVal] at e
  | succ fuel ih =>
    intro h x y h' e
    cases x <;> simp only [copyVal] at e
    case arr a off len =>
      split at e
      · split at e
        · rename_i ys h1 hm
          simp at e
          rw [← e.2]
          exact (mapHeap_fnFrom ih _ _ _ _ hm).trans (FnFrom.push _ _ (by simp [Cell.kind]))
        · cases e
      · cases e
    case map a =>
      split at e
      · split at e
        · rename_i ys h1 hm
          simp at e
          rw [← e.2]
          exact (mapHeapKV_fnFrom ih _ _ _ _ hm).trans (FnFrom.push _ _ (by simp [Cell.kind]))
        · cases e
      · cases e
    case cfun a =>
      split at e
      · rename_i c free hx
        simp at e
        rw [← e.2]
        intro a' k f hs
        rcases (push_fn_iff h _ a' k f).mp hs with h1 | ⟨_, h2⟩
        · exact ⟨a', f, h1⟩
        · cases h2; exact ⟨a, _, hx⟩
      · cases e
    case err a =>
      split at e
      · simp at e
        rw [← e.2]
        exact FnFrom.push _ _ (by simp [Cell.kind])
      · cases e
    case rterr a =>
      split at e
      · simp at e
        rw [← e.2]
        exact FnFrom.push _ _ (by simp [Cell.kind])
      · split at e
        · simp at e
          rw [← e.2]
          exact (FnFrom.push _ _ (by simp [Cell.kind])).trans (FnFrom.push _ _ (by simp [Cell.kind]))
        · cases e
      · cases e
    case host => cases e
    all_goals (simp at e; rw [← e.2]; exact FnFrom.refl _)

set_option maxHeartbeats 1600000
section
variable {code : Code} {iv : Int}

theorem xk_copyV (x : V) : Keeps (CtxI code iv) (copyV x) := by
  apply Keeps.intro'; intro s h
  rw [exec_copyV]
  cases hx : copyVal (s.heap.size + 2) s.heap x with
  | none => exact h
  | some p =>
    obtain ⟨v', h'⟩ := p
    have hext := (UgoVerif.Proofs.Copy.copyVal_spec (s.heap.size + 2) s.heap x v' h' hx).1
    show CtxI code iv { s with heap := h' }
    refine CtxI.of_frame h rfl rfl rfl rfl rfl ?_ (copyVal_fnFrom _ _ _ _ _ hx)
    intro a' c' f' hs
    show h'[a']? = _
    have hlt : a' < s.heap.size := by
      rcases Nat.lt_or_ge a' s.heap.size with hl | hl
      · exact hl
      · rw [Array.getElem?_eq_none hl] at hs; cases hs
    rw [hext.2 a' hlt]; exact hs
macro_rules | `(tactic| ck_prim) => `(tactic| exact xk_copyV _)

theorem xk_curCode : Keeps (CtxI code iv) (curCode) := by unfold curCode; ckeeps (CtxI code iv)
macro_rules | `(tactic| ck_prim) => `(tactic| exact xk_curCode)
theorem xk_instAt (i : Int) : Keeps (CtxI code iv) (instAt i) := by unfold instAt; ckeeps (CtxI code iv)
macro_rules | `(tactic| ck_prim) => `(tactic| exact xk_instAt _)
theorem xk_opnd1 (k : Int) : Keeps (CtxI code iv) (opnd1 k) := by unfold opnd1; ckeeps (CtxI code iv)
macro_rules | `(tactic| ck_prim) => `(tactic| exact xk_opnd1 _)
theorem xk_opnd2 (k : Int) : Keeps (CtxI code iv) (opnd2 k) := by unfold opnd2; ckeeps (CtxI code iv)
macro_rules | `(tactic| ck_prim) => `(tactic| exact xk_opnd2 _)
theorem xk_opnd4 (k : Int) : Keeps (CtxI code iv) (opnd4 k) := by unfold opnd4; ckeeps (CtxI code iv)
macro_rules | `(tactic| ck_prim) => `(tactic| exact xk_opnd4 _)
theorem xk_constAt (i : Nat) : Keeps (CtxI code iv) (constAt i) := by unfold constAt; ckeeps (CtxI code iv)
macro_rules | `(tactic| ck_prim) => `(tactic| exact xk_constAt _)
theorem xk_arrElems (a : Addr) (off len : Nat) : Keeps (CtxI code iv) (arrElems a off len) := by unfold arrElems; ckeeps (CtxI code iv)
macro_rules | `(tactic| ck_prim) => `(tactic| exact xk_arrElems _ _ _)
theorem xk_mapEntries (a : Addr) : Keeps (CtxI code iv) (mapEntries a) := by unfold mapEntries; ckeeps (CtxI code iv)
macro_rules | `(tactic| ck_prim) => `(tactic| exact xk_mapEntries _)
theorem xk_vString (v : V) : Keeps (CtxI code iv) (vString v) := by unfold vString; ckeeps (CtxI code iv)
macro_rules | `(tactic| ck_prim) => `(tactic| exact xk_vString _)
theorem xk_isFalsy (v : V) : Keeps (CtxI code iv) (isFalsy v) := by unfold isFalsy; ckeeps (CtxI code iv)
macro_rules | `(tactic| ck_prim) => `(tactic| exact xk_isFalsy _)
theorem xk_vEqual (F : FloatOps) (l r : V) : Keeps (CtxI code iv) (vEqual F l r) := by unfold vEqual; ckeeps (CtxI code iv)
macro_rules | `(tactic| ck_prim) => `(tactic| exact xk_vEqual _ _ _)
theorem xk_vBinaryOp (F : FloatOps) (tok : Tok) (l r : V) : Keeps (CtxI code iv) (vBinaryOp F tok l r) := by unfold vBinaryOp; ckeeps (CtxI code iv)
macro_rules | `(tactic| ck_prim) => `(tactic| exact xk_vBinaryOp _ _ _ _)
theorem xk_vUnary (F : FloatOps) (tok : Tok) (r : V) : Keeps (CtxI code iv) (vUnary F tok r) := by unfold vUnary; ckeeps (CtxI code iv)
macro_rules | `(tactic| ck_prim) => `(tactic| exact xk_vUnary _ _ _)
theorem xk_vIndexGet (t i : V) : Keeps (CtxI code iv) (vIndexGet t i) := by unfold vIndexGet; ckeeps (CtxI code iv)
macro_rules | `(tactic| ck_prim) => `(tactic| exact xk_vIndexGet _ _)
theorem xk_vIndexSet (t i v : V) : Keeps (CtxI code iv) (vIndexSet t i v) := by unfold vIndexSet; ckeeps (CtxI code iv)
macro_rules | `(tactic| ck_prim) => `(tactic| exact xk_vIndexSet _ _ _)
theorem xk_mkErr (n m : String) (c : Option Addr) : Keeps (CtxI code iv) (mkErr n m c) := by unfold mkErr; ckeeps (CtxI code iv)
macro_rules | `(tactic| ck_prim) => `(tactic| exact xk_mkErr _ _ _)
theorem xk_rtErrOfOpErr (e : OpErr) : Keeps (CtxI code iv) (rtErrOfOpErr e) := by unfold rtErrOfOpErr; ckeeps (CtxI code iv)
macro_rules | `(tactic| ck_prim) => `(tactic| exact xk_rtErrOfOpErr _)
theorem xk_clearDown (hi lo : Int) : Keeps (CtxI code iv) (clearDown hi lo) := by unfold clearDown; ckeeps (CtxI code iv)
macro_rules | `(tactic| ck_prim) => `(tactic| exact xk_clearDown _ _)
theorem xk_pushV (v : V) : Keeps (CtxI code iv) (pushV v) := by unfold pushV; ckeeps (CtxI code iv)
macro_rules | `(tactic| ck_prim) => `(tactic| exact xk_pushV _)
theorem xk_jumpTarget : Keeps (CtxI code iv) (jumpTarget) := by unfold jumpTarget; ckeeps (CtxI code iv)
macro_rules | `(tactic| ck_prim) => `(tactic| exact xk_jumpTarget)
theorem xk_fnCell (a : Addr) : Keeps (CtxI code iv) (fnCell a) := by unfold fnCell; ckeeps (CtxI code iv)
macro_rules | `(tactic| ck_prim) => `(tactic| exact xk_fnCell _)
theorem xk_stackSlice (lo hi : Int) : Keeps (CtxI code iv) (stackSlice lo hi) := by unfold stackSlice; ckeeps (CtxI code iv)
macro_rules | `(tactic| ck_prim) => `(tactic| exact xk_stackSlice _ _)
theorem xk_newArray (xs : List V) : Keeps (CtxI code iv) (newArray xs) := by unfold newArray; ckeeps (CtxI code iv)
macro_rules | `(tactic| ck_prim) => `(tactic| exact xk_newArray _)
theorem xk_copyToStack (a : Int) (xs : List V) : Keeps (CtxI code iv) (copyToStack a xs) := by unfold copyToStack; ckeeps (CtxI code iv)
macro_rules | `(tactic| ck_prim) => `(tactic| exact xk_copyToStack _ _)
theorem xk_throwFuel : Keeps (CtxI code iv) (throwFuel) := by unfold throwFuel; ckeeps (CtxI code iv)
macro_rules | `(tactic| ck_prim) => `(tactic| exact xk_throwFuel)
theorem xk_fillUndefined (lo : Int) (n : Nat) : Keeps (CtxI code iv) (fillUndefined lo n) := by unfold fillUndefined; ckeeps (CtxI code iv)
macro_rules | `(tactic| ck_prim) => `(tactic| exact xk_fillUndefined _ _)
theorem xk_copySlots (d : Int) (xs : List V) : Keeps (CtxI code iv) (copySlots d xs) := by unfold copySlots; ckeeps (CtxI code iv)
macro_rules | `(tactic| ck_prim) => `(tactic| exact xk_copySlots _ _)
theorem xk_popArgs (n : Nat) : Keeps (CtxI code iv) (popArgs n) := by unfold popArgs; ckeeps (CtxI code iv)
macro_rules | `(tactic| ck_prim) => `(tactic| exact xk_popArgs _)
theorem xk_bindArgs (code : Code) (bp na fl : Int) : Keeps (CtxI code iv) (bindArgs code bp na fl) := by unfold bindArgs; ckeeps (CtxI code iv)
macro_rules | `(tactic| ck_prim) => `(tactic| exact xk_bindArgs _ _ _ _)
theorem xk_callBuiltin (i : Nat) (args : List V) : Keeps (CtxI code iv) (callBuiltin i args) := by unfold callBuiltin; ckeeps (CtxI code iv)
macro_rules | `(tactic| ck_prim) => `(tactic| exact xk_callBuiltin _ _)

end
end UgoVerif.VM.Cfi
