import UgoVerif.Proofs.RelocPrims
import UgoVerif.Proofs.Copy
import Lean.Elab.Tactic
/-
  Relocation relation: the structural tactic `rlc` and every function of the VM model that does
  not look at code offsets (value-level operations, stack loops, argument binding, builtins).
  For these the relation `R P ci c I` is an invariant whatever `I` is.
-/
set_option linter.unusedVariables false
set_option linter.unusedSimpArgs false
namespace UgoVerif.VM.Reloc
open UgoVerif UgoVerif.Go UgoVerif.VM

/-- closes the goal with a local hypothesis `∀ …, RelE … (f …) (f …)` (join points, induction hypotheses) -/
elab "rlc_hyp" : tactic => do
  let g ← Lean.Elab.Tactic.getMainGoal
  g.withContext do
    for d in (← Lean.getLCtx) do
      if d.isImplementationDetail then continue
      let ok ← Lean.commitWhen do
        try
          let gs ← Lean.Meta.withReducible (g.apply d.toExpr)
          pure gs.isEmpty
        catch _ => pure false
      if ok then
        Lean.Elab.Tactic.replaceMainGoal []
        return
    throwError "rlc_hyp: no hypothesis applies"

/-- same-kind overwrite of a heap cell by a cell that is not a function cell -/
theorem rel_heapUpd {P : Params} {ci : Nat → Nat} {c : Nat} {I : Int → Int → Prop} (a : Addr) (x : Cell)
    (hx : ∀ k fr, x ≠ Cell.fn k fr) :
    RelE (R P ci c I) (R P ci c I) (RM P) Eq (heapUpd a x) (heapUpd a x) := by
  unfold heapUpd
  refine RelE.bindEq (rel_heapGet' a) ?_
  intro old
  apply RelE.ite
  · exact rel_heapSet a x hx
  · exact RelE.unsupported _ (fun _ _ h => R.toRM h)

syntax "rlc_prim" : tactic
macro_rules | `(tactic| rlc_prim) => `(tactic| exact RelE.pure rfl)
macro_rules | `(tactic| rlc_prim) => `(tactic| exact RelE.panic _ (fun _ _ h => R.toRM h))
macro_rules | `(tactic| rlc_prim) => `(tactic| exact RelE.unsupported _ (fun _ _ h => R.toRM h))
macro_rules | `(tactic| rlc_prim) => `(tactic| exact rel_stackGet _)
macro_rules | `(tactic| rlc_prim) => `(tactic| exact rel_stackSet _ _)
macro_rules | `(tactic| rlc_prim) => `(tactic| exact rel_getSp)
macro_rules | `(tactic| rlc_prim) => `(tactic| exact rel_setSp _)
macro_rules | `(tactic| rlc_prim) => `(tactic| exact rel_constAt _)
macro_rules | `(tactic| rlc_prim) => `(tactic| exact rel_stackSlice _ _)
macro_rules | `(tactic| rlc_prim) => `(tactic| exact rel_heapGet' _)
macro_rules | `(tactic| rlc_prim) => `(tactic| rlc_hyp)

/-- structural decomposition of one `do` block run on both sides under the invariant `R P ci c I` -/
syntax "rlc" : tactic
set_option hygiene false in
macro_rules | `(tactic| rlc) => `(tactic|
  repeat (first
    | with_reducible rlc_prim
    | exact rel_heapSet _ _ (by intro k fr e; cases e)
    | exact rel_heapUpd _ _ (by intro k fr e; cases e)
    | exact rel_alloc _ (by intro k fr e; cases e)
    | exact RelE.panic (B := fun _ _ => False) _ (fun _ _ h => R.toRM h)
    | exact RelE.unsupported (B := fun _ _ => False) _ (fun _ _ h => R.toRM h)
    | exact RelE.ofFalse
    | (with_reducible refine RelE.bind rel_getS ?_; intro a__ b__ hab__;
       simp only [hab__.heap, hab__.globals, hab__.modules, hab__.consts, hab__.stack, hab__.sp,
         hab__.frameIndex, hab__.err]; clear hab__; clear b__)
    | (with_reducible refine RelE.bind rel_curFrame ?_; intro f__ g__ hfg__;
       simp only [hfg__.fn, hfg__.free, hfg__.bp, hfg__.discard]; clear hfg__; clear g__)
    | apply RelE.bindEq
    | apply RelE.ite
    | apply RelE.forIn_range
    | apply RelE.forIn_list
    | ((first | lift_lets | skip); intro jp__;
       first
       | (have hjp__ : RelE (R P ci c I) (R P ci c I) (RM P) Eq jp__ jp__ := by
            (dsimp only [jp__]; rlc)
          clear_value jp__)
       | (have hjp__ : ∀ a__, RelE (R P ci c I) (R P ci c I) (RM P) Eq (jp__ a__) (jp__ a__) := by
            (intro a__; dsimp only [jp__]; rlc)
          clear_value jp__)
       | (have hjp__ : ∀ a__ b__, RelE (R P ci c I) (R P ci c I) (RM P) Eq (jp__ a__ b__) (jp__ a__ b__) := by
            (intro a__ b__; dsimp only [jp__]; rlc)
          clear_value jp__)
       | (have hjp__ : ∀ a__ b__ c__, RelE (R P ci c I) (R P ci c I) (RM P) Eq (jp__ a__ b__ c__) (jp__ a__ b__ c__) := by
            (intro a__ b__ c__; dsimp only [jp__]; rlc)
          clear_value jp__)
       | clear_value jp__)
    | intro _
    | split
    | dsimp only))

set_option maxHeartbeats 1600000
section
variable {P : Params} {ci : Nat → Nat} {c : Nat} {I : Int → Int → Prop}
local notation "X" => R P ci c I
local notation "EE" => RM P

theorem rel_boxSet (a : Addr) (v : V) : RelE X X EE Eq (boxSet a v) (boxSet a v) := by unfold boxSet; rlc
macro_rules | `(tactic| rlc_prim) => `(tactic| exact rel_boxSet _ _)
theorem rel_arrElems (a : Addr) (off len : Nat) : RelE X X EE Eq (arrElems a off len) (arrElems a off len) := by
  unfold arrElems; rlc
macro_rules | `(tactic| rlc_prim) => `(tactic| exact rel_arrElems _ _ _)
theorem rel_mapEntries (a : Addr) : RelE X X EE Eq (mapEntries a) (mapEntries a) := by unfold mapEntries; rlc
macro_rules | `(tactic| rlc_prim) => `(tactic| exact rel_mapEntries _)
theorem rel_vString (v : V) : RelE X X EE Eq (vString v) (vString v) := by unfold vString; rlc
macro_rules | `(tactic| rlc_prim) => `(tactic| exact rel_vString _)
theorem rel_isFalsy (v : V) : RelE X X EE Eq (isFalsy v) (isFalsy v) := by unfold isFalsy; rlc
macro_rules | `(tactic| rlc_prim) => `(tactic| exact rel_isFalsy _)
theorem rel_vEqual (F : FloatOps) (l r : V) : RelE X X EE Eq (vEqual F l r) (vEqual F l r) := by unfold vEqual; rlc
macro_rules | `(tactic| rlc_prim) => `(tactic| exact rel_vEqual _ _ _)
theorem rel_vBinaryOp (F : FloatOps) (tok : Tok) (l r : V) : RelE X X EE Eq (vBinaryOp F tok l r) (vBinaryOp F tok l r) := by
  unfold vBinaryOp; rlc
macro_rules | `(tactic| rlc_prim) => `(tactic| exact rel_vBinaryOp _ _ _ _)
theorem rel_vUnary (F : FloatOps) (tok : Tok) (r : V) : RelE X X EE Eq (vUnary F tok r) (vUnary F tok r) := by
  unfold vUnary; rlc
macro_rules | `(tactic| rlc_prim) => `(tactic| exact rel_vUnary _ _ _)
theorem rel_vIndexGet (t i : V) : RelE X X EE Eq (vIndexGet t i) (vIndexGet t i) := by unfold vIndexGet; rlc
macro_rules | `(tactic| rlc_prim) => `(tactic| exact rel_vIndexGet _ _)
theorem rel_vIndexSet (t i v : V) : RelE X X EE Eq (vIndexSet t i v) (vIndexSet t i v) := by unfold vIndexSet; rlc
macro_rules | `(tactic| rlc_prim) => `(tactic| exact rel_vIndexSet _ _ _)
theorem rel_mkErr (n m : String) (cz : Option Addr) : RelE X X EE Eq (mkErr n m cz) (mkErr n m cz) := by unfold mkErr; rlc
macro_rules | `(tactic| rlc_prim) => `(tactic| exact rel_mkErr _ _ _)
theorem rel_rtErrOfOpErr (e : OpErr) : RelE X X EE Eq (rtErrOfOpErr e) (rtErrOfOpErr e) := by unfold rtErrOfOpErr; rlc
macro_rules | `(tactic| rlc_prim) => `(tactic| exact rel_rtErrOfOpErr _)
theorem rel_clearDown (hi lo : Int) : RelE X X EE Eq (clearDown hi lo) (clearDown hi lo) := by unfold clearDown; rlc
macro_rules | `(tactic| rlc_prim) => `(tactic| exact rel_clearDown _ _)
theorem rel_pushV (v : V) : RelE X X EE Eq (pushV v) (pushV v) := by unfold pushV; rlc
macro_rules | `(tactic| rlc_prim) => `(tactic| exact rel_pushV _)
theorem rel_newArray (xs : List V) : RelE X X EE Eq (newArray xs) (newArray xs) := by unfold newArray; rlc
macro_rules | `(tactic| rlc_prim) => `(tactic| exact rel_newArray _)
theorem rel_copyToStack (a : Int) (xs : List V) : RelE X X EE Eq (copyToStack a xs) (copyToStack a xs) := by
  unfold copyToStack; rlc
macro_rules | `(tactic| rlc_prim) => `(tactic| exact rel_copyToStack _ _)
theorem rel_fillUndefined (lo : Int) (n : Nat) : RelE X X EE Eq (fillUndefined lo n) (fillUndefined lo n) := by
  unfold fillUndefined; rlc
macro_rules | `(tactic| rlc_prim) => `(tactic| exact rel_fillUndefined _ _)
theorem rel_copySlots (d : Int) (xs : List V) : RelE X X EE Eq (copySlots d xs) (copySlots d xs) := by unfold copySlots; rlc
macro_rules | `(tactic| rlc_prim) => `(tactic| exact rel_copySlots _ _)
theorem rel_popArgs (n : Nat) : RelE X X EE Eq (popArgs n) (popArgs n) := by unfold popArgs; rlc
macro_rules | `(tactic| rlc_prim) => `(tactic| exact rel_popArgs _)
theorem rel_bindArgs (code : Code) (bp na fl : Int) : RelE X X EE Eq (bindArgs code bp na fl) (bindArgs code bp na fl) := by
  unfold bindArgs; rlc
macro_rules | `(tactic| rlc_prim) => `(tactic| exact rel_bindArgs _ _ _ _)
theorem rel_callBuiltin (i : Nat) (args : List V) : RelE X X EE Eq (callBuiltin i args) (callBuiltin i args) := by
  unfold callBuiltin; rlc
macro_rules | `(tactic| rlc_prim) => `(tactic| exact rel_callBuiltin _ _)

end
end UgoVerif.VM.Reloc
