import UgoVerif.Proofs.EvalLocals
import UgoVerif.Props.C02
/-
  C14, parameter binding: what `initLocals` (Go-side call, child VM, frame 0 / base 0) and
  `xOpCallCompiled` without spread (in-script call, frame k / base bp) leave in the callee's
  `NumLocals` slots, computed slot by slot for the MONADIC model functions.

  `bindSlot` is the common description; `initLocals_slots` holds for EVERY argument count (the
  Go side has no arity check: missing parameters are undefined, surplus arguments are dropped),
  `callCompiled_slots` for the accepted ones (the others are the two arity errors of Props/C02).
-/
set_option linter.unusedSimpArgs false
set_option linter.unusedVariables false
namespace UgoVerif.Proofs.InvokeBind
open UgoVerif UgoVerif.Go UgoVerif.VM UgoVerif.Proofs.ModCache UgoVerif.Proofs.EvalLocals

/-- the value of local slot `j` of the callee after binding `args`; `addr` is the address of the
    array allocated for the variadic parameter -/
def bindSlot (np : Nat) (variadic : Bool) (args : List V) (addr : Nat) (j : Nat) : V :=
  if variadic then
    if j + 1 < np then args.getD j .undefined
    else if j + 1 = np then .arr addr 0 (args.length - (np - 1))
    else .undefined
  else if j < np then args.getD j .undefined else .undefined

/-- the heap after binding: a variadic callee gets ONE new array cell holding exactly the
    arguments after the first `np - 1` -/
def bindHeap (np : Nat) (variadic : Bool) (args : List V) (heap : Array Cell) : Array Cell :=
  if variadic = true ∧ 1 ≤ np then heap.push (.arr (args.drop (np - 1)).toArray) else heap

theorem exec_newArray (xs : List V) (s : State) :
    exec (newArray xs) s = (.ok (.arr s.heap.size 0 xs.length), { s with heap := s.heap.push (.arr xs.toArray) }) :=
  UgoVerif.Proofs.VMExec.exec_newArray xs s

/-- **`initLocals`, every arity.**  For a main function with `NumParams ≤ NumLocals ≤ stackSize`
    the child's slots `0 … NumLocals-1` are `bindSlot`, nothing above changes, the heap grows by the
    variadic array only, and `initLocals` neither panics nor rejects any argument count. -/
theorem initLocals_slots (args : List V) (s : State) (ci : Nat) (free : Option (List Addr))
    (hfn : s.heap[s.mainFn]? = some (.fn ci free))
    (hpl : (s.codes[ci]!).numParams ≤ (s.codes[ci]!).numLocals)
    (hnl : (s.codes[ci]!).numLocals ≤ stackSize) (hsz : s.stack.size = stackSize) :
    ∃ st', exec (initLocals args) s = (.ok (),
        { s with stack := st', heap := bindHeap (s.codes[ci]!).numParams (s.codes[ci]!).variadic args s.heap }) ∧
      st'.size = stackSize ∧
      (∀ j, j < (s.codes[ci]!).numLocals →
        st'[j]? = some (bindSlot (s.codes[ci]!).numParams (s.codes[ci]!).variadic args s.heap.size j)) ∧
      (∀ j, (s.codes[ci]!).numLocals ≤ j → st'[j]? = s.stack[j]?) := by
  generalize hc : s.codes[ci]! = code at *
  obtain ⟨insts, np, nl, va⟩ := code
  simp only at hpl hnl ⊢
  unfold initLocals fillUndefined setLocal copyLocals
  simp only [exec_bind, Int.zero_add]
  have hg : exec getS s = (.ok s, s) := rfl
  simp only [hg, EvalLocals.exec_fnCell s s.mainFn ci free hfn, hc]
  have h1 : ¬ nl > stackSize := by omega
  simp only [h1, if_false, exec_bind]
  rw [Std.Legacy.Range.forIn_eq_forIn_range']
  have hr : List.range' [:nl].start [:nl].size [:nl].step = List.range' 0 nl 1 := by
    simp [Std.Legacy.Range.size]
  have hmem : ∀ i ∈ List.range' 0 nl 1, i < stackSize := by
    intro i hi; simp [List.mem_range'] at hi; omega
  rw [hr, exec_fill _ hmem s]
  simp only
  generalize hF : fillU s.stack (List.range' 0 nl 1) = F
  have hFsz : F.size = stackSize := by rw [← hF, fillU_size, hsz]
  have hFget : ∀ j, F[j]? = if j < nl then some V.undefined else s.stack[j]? := by
    intro j
    rw [← hF, fillU_get]
    by_cases hj : j < nl
    · have : j ∈ List.range' 0 nl 1 ∧ j < s.stack.size := by simp [List.mem_range']; omega
      rw [if_pos this, if_pos hj]
    · have : ¬ (j ∈ List.range' 0 nl 1 ∧ j < s.stack.size) := by simp [List.mem_range']; omega
      rw [if_neg this, if_neg hj]
  by_cases h0 : np = 0
  · subst h0
    refine ⟨F, ?_, hFsz, ?_, ?_⟩
    · simp [bindHeap]; rfl
    · intro j hj
      rw [hFget, if_pos hj]
      cases va <;> simp [bindSlot]
    · intro j hj
      rw [hFget, if_neg (by omega)]
  · have hnp0 : ¬ ((np : Int) ≤ 0) := by omega
    have hcast : ((np : Int) - 1) = ((np - 1 : Nat) : Int) := by omega
    have hb : ¬ ((decide ((np : Int) - 1 < 0) || decide ((np : Int) - 1 ≥ (nl : Int))) = true) := by
      simp; omega
    simp only [hnp0, if_false, Bool.false_eq_true]
    by_cases hlt : args.length < np
    · have hlt' : ((args.length : Int) < (np : Int)) := by omega
      simp only [hlt', if_true, exec_bind, exec_pure]
      cases va with
      | false =>
        simp only [Bool.false_eq_true, if_false, exec_pure, exec_bind]
        rw [exec_copy nl hnl args 0 _]
        simp only [exec_pure]
        refine ⟨copyL nl F args 0, ?_, by rw [copyL_size, hFsz], ?_, ?_⟩
        · simp [bindHeap]
        · intro j hj
          rw [copyL_get nl args F 0 j (by omega), hFget]
          simp only [bindSlot, Bool.false_eq_true, if_false]
          by_cases hja : j < args.length
          · have : 0 ≤ j ∧ j < 0 + args.length ∧ j < nl := by omega
            rw [if_pos this, if_pos (by omega)]
            simp [List.getD, List.getElem?_eq_getElem hja]
          · have : ¬ (0 ≤ j ∧ j < 0 + args.length ∧ j < nl) := by omega
            rw [if_neg this, if_pos hj]
            by_cases hjp : j < np
            · rw [if_pos hjp]
              simp [List.getD, List.getElem?_eq_none (by omega : args.length ≤ j)]
            · rw [if_neg hjp]
        · intro j hj
          rw [copyL_get nl args F 0 j (by omega), hFget]
          have : ¬ (0 ≤ j ∧ j < 0 + args.length ∧ j < nl) := by omega
          rw [if_neg this, if_neg (by omega)]
      | true =>
        simp only [if_true, exec_bind, exec_newArray, hb, Bool.false_eq_true, if_false]
        rw [hcast]
        rw [EvalLocals.exec_stackSet (np - 1) _ _ (by omega)]
        simp only [Int.toNat_natCast]
        rw [exec_copy nl hnl args 0 _]
        simp only [exec_pure]
        have hdrop : args.drop (np - 1) = [] := List.drop_eq_nil_of_le (by omega)
        refine ⟨copyL nl (F.set! (np - 1) (V.arr s.heap.size 0 0)) args 0, ?_, by simp [copyL_size, hFsz], ?_, ?_⟩
        · simp [bindHeap, hdrop]
          omega
        · intro j hj
          rw [copyL_get nl args _ 0 j (by simp [hFsz]; omega)]
          simp only [bindSlot, if_true]
          by_cases hja : j < args.length
          · have : 0 ≤ j ∧ j < 0 + args.length ∧ j < nl := by omega
            rw [if_pos this, if_pos (by omega)]
            simp [List.getD, List.getElem?_eq_getElem hja]
          · have : ¬ (0 ≤ j ∧ j < 0 + args.length ∧ j < nl) := by omega
            rw [if_neg this]
            by_cases hje : j = np - 1
            · subst hje
              have h3 : np - 1 < F.size := by rw [hFsz]; omega
              have e1 : ¬ (np - 1 + 1 < np) := by omega
              have e2 : np - 1 + 1 = np := by omega
              have e3 : args.length - (np - 1) = 0 := by omega
              simp [Array.set!_eq_setIfInBounds, h3, e1, e2, e3]
            · have hne : ¬ np - 1 = j := fun h => hje h.symm
              simp only [Array.set!_eq_setIfInBounds, Array.getElem?_setIfInBounds, hne, if_false]
              rw [hFget, if_pos hj]
              by_cases hjp : j + 1 < np
              · rw [if_pos hjp]
                simp [List.getD, List.getElem?_eq_none (by omega : args.length ≤ j)]
              · rw [if_neg hjp, if_neg (by omega)]
        · intro j hj
          rw [copyL_get nl args _ 0 j (by simp [hFsz]; omega)]
          have : ¬ (0 ≤ j ∧ j < 0 + args.length ∧ j < nl) := by omega
          rw [if_neg this]
          have hne : ¬ np - 1 = j := by omega
          simp only [Array.set!_eq_setIfInBounds, Array.getElem?_setIfInBounds, hne, if_false]
          rw [hFget, if_neg (by omega)]
    · have hlt' : ¬ ((args.length : Int) < (np : Int)) := by omega
      simp only [hlt', if_false, exec_bind, exec_pure]
      cases va with
      | false =>
        simp only [Bool.false_eq_true, if_false, hb, exec_bind, exec_pure]
        rw [hcast]
        rw [EvalLocals.exec_stackSet (np - 1) _ _ (by omega)]
        simp only [Int.toNat_natCast]
        rw [exec_copy nl hnl _ 0 _]
        simp only [exec_pure]
        refine ⟨copyL nl (F.set! (np - 1) args[np - 1]!) (args.take (np - 1)) 0, ?_, by simp [copyL_size, hFsz], ?_, ?_⟩
        · simp [bindHeap]
        · intro j hj
          rw [copyL_get nl _ _ 0 j (by simp [hFsz]; omega)]
          simp only [bindSlot, Bool.false_eq_true, if_false]
          by_cases hja : j < np - 1
          · have : 0 ≤ j ∧ j < 0 + (args.take (np - 1)).length ∧ j < nl := by simp; omega
            rw [if_pos this, if_pos (by omega)]
            have hjl : j < args.length := by omega
            simp [List.getD, List.getElem?_take, hja, List.getElem?_eq_getElem hjl]
          · have : ¬ (0 ≤ j ∧ j < 0 + (args.take (np - 1)).length ∧ j < nl) := by simp; omega
            rw [if_neg this]
            by_cases hje : j = np - 1
            · subst hje
              have hjl : np - 1 < args.length := by omega
              have h3 : np - 1 < F.size := by rw [hFsz]; omega
              rw [if_pos (by omega)]
              simp [Array.set!_eq_setIfInBounds, h3, List.getD, List.getElem?_eq_getElem hjl,
                getElem!_pos args (np - 1) hjl]
            · have hne : ¬ np - 1 = j := fun h => hje h.symm
              simp only [Array.set!_eq_setIfInBounds, Array.getElem?_setIfInBounds, hne, if_false]
              rw [hFget, if_pos hj, if_neg (by omega)]
        · intro j hj
          rw [copyL_get nl _ _ 0 j (by simp [hFsz]; omega)]
          have : ¬ (0 ≤ j ∧ j < 0 + (args.take (np - 1)).length ∧ j < nl) := by omega
          rw [if_neg this]
          have hne : ¬ np - 1 = j := by omega
          simp only [Array.set!_eq_setIfInBounds, Array.getElem?_setIfInBounds, hne, if_false]
          rw [hFget, if_neg (by omega)]
      | true =>
        simp only [if_true, exec_bind, exec_newArray, hb, Bool.false_eq_true, if_false]
        rw [hcast]
        rw [EvalLocals.exec_stackSet (np - 1) _ _ (by omega)]
        simp only [Int.toNat_natCast]
        rw [exec_copy nl hnl _ 0 _]
        simp only [exec_pure]
        refine ⟨copyL nl (F.set! (np - 1) (V.arr s.heap.size 0 (args.drop (np - 1)).length)) (args.take (np - 1)) 0,
          ?_, by simp [copyL_size, hFsz], ?_, ?_⟩
        · simp [bindHeap]
          omega
        · intro j hj
          rw [copyL_get nl _ _ 0 j (by simp [hFsz]; omega)]
          simp only [bindSlot, if_true]
          by_cases hja : j < np - 1
          · have : 0 ≤ j ∧ j < 0 + (args.take (np - 1)).length ∧ j < nl := by simp; omega
            rw [if_pos this, if_pos (by omega)]
            have hjl : j < args.length := by omega
            simp [List.getD, List.getElem?_take, hja, List.getElem?_eq_getElem hjl]
          · have : ¬ (0 ≤ j ∧ j < 0 + (args.take (np - 1)).length ∧ j < nl) := by simp; omega
            rw [if_neg this, if_neg (by omega)]
            by_cases hje : j = np - 1
            · subst hje
              have h3 : np - 1 < F.size := by rw [hFsz]; omega
              rw [if_pos (by omega)]
              simp [Array.set!_eq_setIfInBounds, h3]
            · have hne : ¬ np - 1 = j := fun h => hje h.symm
              simp only [Array.set!_eq_setIfInBounds, Array.getElem?_setIfInBounds, hne, if_false]
              rw [hFget, if_pos hj, if_neg (by omega)]
        · intro j hj
          rw [copyL_get nl _ _ 0 j (by simp [hFsz]; omega)]
          have : ¬ (0 ≤ j ∧ j < 0 + (args.take (np - 1)).length ∧ j < nl) := by omega
          rw [if_neg this]
          have hne : ¬ np - 1 = j := by omega
          simp only [Array.set!_eq_setIfInBounds, Array.getElem?_setIfInBounds, hne, if_false]
          rw [hFget, if_neg (by omega)]

/-! ### the in-script side -/
open UgoVerif.Props.C02 UgoVerif.Proofs.VMExec

/-- the argument counts `xOpCallCompiled` accepts without spread -/
def accepted (np : Nat) (variadic : Bool) (n : Nat) : Prop :=
  if variadic then 1 ≤ np ∧ np - 1 ≤ n else n = np

/-- the arguments as they lie on the operand stack -/
theorem args_on_stack (s : State) (args : List V) (hargs : argsOnStack s args.length = args)
    (hbp : 0 ≤ s.sp - args.length) (hsp : s.sp ≤ (stackSize : Int)) (hsz : s.stack.size = stackSize)
    (j : Nat) (hj : j < args.length) :
    s.stack[(s.sp - args.length).toNat + j]? = some (args.getD j .undefined) := by
  have h1 : args[j]? = s.stack[(s.sp - args.length).toNat + j]? := by
    conv => lhs; rw [← hargs]
    unfold argsOnStack
    rw [List.getElem?_take]
    simp [hj, List.getElem?_drop]
  rw [← h1]
  simp [List.getD, List.getElem?_eq_getElem hj]

/-- **`xOpCallCompiled`, accepted arities, no spread.**  The callee's slots `bp … bp+NumLocals-1`
    (`bp` = the first argument) are `bindSlot`, nothing else on the stack changes, the heap grows by
    the variadic array only, a new frame with base `bp` is entered at `ip = -1`. -/
theorem callCompiled_slots (fa : Addr) (args : List V) (s : State) (code : Code) (free : Option (List Addr))
    (hcell : exec (fnCell fa) s = (.ok (code, free), s))
    (hargs : argsOnStack s args.length = args)
    (hacc : accepted code.numParams code.variadic args.length)
    (hself : (s.frames[s.curFrame]!).fn ≠ some fa)
    (hfi : 0 ≤ s.frameIndex ∧ s.frameIndex + 1 ≤ (frameSize : Int) - 1)
    (hbp : 0 ≤ s.sp - args.length) (hsp : s.sp ≤ (stackSize : Int))
    (hroom : s.sp - args.length + code.numLocals ≤ (stackSize : Int))
    (hnl : code.numParams ≤ code.numLocals) (hsz : s.stack.size = stackSize) :
    ∃ st', exec (callCompiled fa args.length 0) s = (.ok (.ok ()),
        { s with heap := bindHeap code.numParams code.variadic args s.heap, stack := st',
                 frameIndex := s.frameIndex + 1,
                 frames := (s.frames.modify s.curFrame fun f => { f with ip := s.ip + 2 }).modify s.frameIndex.toNat fun f =>
                    { f with fn := some fa, free := free, handlers := none, bp := s.sp - args.length, discard := false },
                 curFrame := s.frameIndex.toNat, sp := s.sp - args.length + code.numLocals, ip := -1 }) ∧
      st'.size = stackSize ∧
      (∀ j, j < code.numLocals →
        st'[(s.sp - args.length).toNat + j]? = some (bindSlot code.numParams code.variadic args s.heap.size j)) ∧
      (∀ i, (i < (s.sp - args.length).toNat ∨ (s.sp - args.length).toNat + code.numLocals ≤ i) → st'[i]? = s.stack[i]?) := by
  obtain ⟨insts, np, nl, va⟩ := code
  simp only at hacc hroom hnl ⊢
  have hA := args_on_stack s args hargs hbp hsp hsz
  cases va with
  | false =>
    simp only [accepted, Bool.false_eq_true, if_false] at hacc
    have h := callCompiled_fixed fa args.length s _ free hcell rfl (by simp [hacc]) hself hfi hbp hroom hnl
    simp only at h
    refine ⟨fillLocals s.stack (s.sp - args.length) np nl, ?_, ?_, ?_, ?_⟩
    · rw [h]; simp [bindHeap]
    · simp [fillLocals, foldl_set_size, hsz, Array.set!_eq_setIfInBounds]
    · intro j hj
      rw [fillLocals_get? _ _ _ _ _ hbp]
      simp only [bindSlot, Bool.false_eq_true, if_false]
      by_cases hjp : j < np
      · have : ¬ (((s.sp - args.length).toNat + np ≤ (s.sp - args.length).toNat + j ∧
            (s.sp - args.length).toNat + j < (s.sp - args.length).toNat + nl) ∧ (s.sp - args.length).toNat + j < s.stack.size) := by omega
        rw [if_neg this, if_pos hjp]
        exact hA j (by omega)
      · have : (((s.sp - args.length).toNat + np ≤ (s.sp - args.length).toNat + j ∧
            (s.sp - args.length).toNat + j < (s.sp - args.length).toNat + nl) ∧ (s.sp - args.length).toNat + j < s.stack.size) := by
          refine ⟨⟨by omega, by omega⟩, by omega⟩
        rw [if_pos this, if_neg hjp]
    · intro i hi
      rw [fillLocals_get? _ _ _ _ _ hbp]
      have : ¬ (((s.sp - args.length).toNat + np ≤ i ∧ i < (s.sp - args.length).toNat + nl) ∧ i < s.stack.size) := by omega
      rw [if_neg this]
  | true =>
    simp only [accepted, if_true] at hacc
    have h := callCompiled_variadic fa args.length s _ free hcell rfl hacc.1 (by simp; omega) hself hfi hbp hsp hroom hnl
    simp only at h
    have hrest := rest_eq_drop_args s args.length np hacc.1 hbp (by omega)
    rw [hargs] at hrest
    rw [hrest] at h
    refine ⟨fillLocals (s.stack.set! (s.sp - args.length + np - 1).toNat (V.arr s.heap.size 0 (args.drop (np - 1)).length))
      (s.sp - args.length) np nl, ?_, ?_, ?_, ?_⟩
    · rw [h]; simp [bindHeap, hacc.1]
    · simp only [fillLocals, Array.set!_eq_setIfInBounds]
      refine (foldl_set_size _ .undefined (fun k => (s.sp - args.length + (np : Int) + (k : Int)).toNat) _).trans ?_
      simp [hsz]
    · intro j hj
      rw [fillLocals_get? _ _ _ _ _ hbp]
      simp only [bindSlot, if_true]
      by_cases hjp : j < np
      · have : ¬ (((s.sp - args.length).toNat + np ≤ (s.sp - args.length).toNat + j ∧
            (s.sp - args.length).toNat + j < (s.sp - args.length).toNat + nl) ∧
            (s.sp - args.length).toNat + j < (s.stack.set! (s.sp - args.length + np - 1).toNat (V.arr s.heap.size 0 (args.drop (np - 1)).length)).size) := by omega
        rw [if_neg this]
        have e : (s.sp - args.length + np - 1).toNat = (s.sp - args.length).toNat + (np - 1) := by omega
        rw [e]
        by_cases hje : j = np - 1
        · subst hje
          have h3 : (s.sp - args.length).toNat + (np - 1) < s.stack.size := by omega
          rw [if_neg (by omega), if_pos (by omega)]
          simp only [Array.set!_eq_setIfInBounds, Array.getElem?_setIfInBounds, h3, ↓reduceIte, List.length_drop]
        · have hne : ¬ (s.sp - args.length).toNat + (np - 1) = (s.sp - args.length).toNat + j := by omega
          simp only [Array.set!_eq_setIfInBounds, Array.getElem?_setIfInBounds, hne, if_false]
          rw [if_pos (by omega)]
          exact hA j (by omega)
      · have : (((s.sp - args.length).toNat + np ≤ (s.sp - args.length).toNat + j ∧
            (s.sp - args.length).toNat + j < (s.sp - args.length).toNat + nl) ∧
            (s.sp - args.length).toNat + j < (s.stack.set! (s.sp - args.length + np - 1).toNat (V.arr s.heap.size 0 (args.drop (np - 1)).length)).size) := by
          refine ⟨⟨by omega, by omega⟩, by simp [Array.set!_eq_setIfInBounds]; omega⟩
        rw [if_pos this, if_neg (by omega), if_neg (by omega)]
    · intro i hi
      rw [fillLocals_get? _ _ _ _ _ hbp]
      have : ¬ (((s.sp - args.length).toNat + np ≤ i ∧ i < (s.sp - args.length).toNat + nl) ∧
          i < (s.stack.set! (s.sp - args.length + np - 1).toNat (V.arr s.heap.size 0 (args.drop (np - 1)).length)).size) := by omega
      rw [if_neg this]
      have hne : ¬ (s.sp - args.length + np - 1).toNat = i := by omega
      simp only [Array.set!_eq_setIfInBounds, Array.getElem?_setIfInBounds, hne, if_false]

end UgoVerif.Proofs.InvokeBind
