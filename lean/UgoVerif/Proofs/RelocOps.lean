import UgoVerif.Proofs.RelocIp
/-
  Relocation relation, opcode by opcode: the opcodes that are not re-encoded and touch neither
  frames nor handlers ("position independent": they read their operands inside the window of the
  instruction, work on data, advance `ip` over the operands), and the five re-encoded opcodes.
-/
set_option linter.unusedVariables false
set_option linter.unusedSimpArgs false
namespace UgoVerif.VM.Reloc
open UgoVerif UgoVerif.Go UgoVerif.VM

/-- the code index of a function cell: it can be entered -/
theorem rel_fnCode {P : Params} {ci : Nat → Nat} {c : Nat} {I : Int → Int → Prop} (fa : Addr) :
    RelE (R P ci c I) (R P ci c I) (RM P) (fun a b => a = b ∧ P.Entry a)
      (do match (← heapGet fa) with | .fn k _ => pure k | _ => unsupported "model: bad fn")
      (do match (← heapGet fa) with | .fn k _ => pure k | _ => unsupported "model: bad fn") := by
  refine RelE.bind (rel_heapGet fa) ?_
  rintro x y ⟨rfl, hx⟩
  cases x <;> first
    | exact RelE.unsupported _ (fun _ _ h => R.toRM h)
    | exact RelE.pure ⟨rfl, hx _ _ rfl⟩

/-- one action of an opcode function (first premise of `RelQ.bindEq`) -/
syntax "rlo_act" : tactic
set_option hygiene false in
macro_rules | `(tactic| rlo_act) => `(tactic|
  first
    | with_reducible rlc_prim
    | exact rel_heapSet _ _ (by intro k fr e; cases e)
    | exact rel_heapUpd _ _ (by intro k fr e; cases e)
    | exact rel_alloc _ (by intro k fr e; cases e <;> assumption)
    | exact rel_opnd1 hw _ _ rfl (by decide)
    | exact rel_opnd2 hw _ _ rfl (by decide)
    | exact rel_bumpIp_next _ _ rfl hnext
    | exact RelE.liftRB (fun _ _ _ => rel_stackSet _ _)
    | exact RelE.liftRB (fun _ _ _ => rel_stackGet _)
    | exact RelE.liftRB (fun _ _ _ => rel_setSp _)
    | exact RelE.liftRB (fun _ _ _ => rel_getSp)
    | exact RelE.liftRB (fun _ _ _ => rel_pushV _)
    | exact RelE.panic (B := fun _ _ => False) _ (fun _ _ h => R.toRM h)
    | exact RelE.unsupported (B := fun _ _ => False) _ (fun _ _ h => R.toRM h)
    | (refine (?_ : RelE (R P ci c (Iat P c o)) (R P ci c (Iat P c o)) (RM P) Eq _ _)
       generalize Iat P c o = I
       rlc
       done))

/-- structural decomposition of an opcode function -/
syntax "rlo" : tactic
set_option hygiene false in
macro_rules | `(tactic| rlo) => `(tactic|
  repeat (first
    | exact ctl_next_RB
    | exact ctl_next_at hnext
    | exact (hfail _).pre (fun _ _ h => R.toRM h)
    | exact (hfail _).pre (fun _ _ h => RB.toRM h)
    | exact RelQ.panic _ (fun _ _ h => R.toRM h)
    | exact RelQ.panic _ (fun _ _ h => RB.toRM h)
    | exact RelQ.unsupported _ (fun _ _ h => R.toRM h)
    | exact RelQ.unsupported _ (fun _ _ h => RB.toRM h)
    | exact RelQ.ofFalse
    | (with_reducible refine RelQ.bind rel_getS ?_; intro a__ b__ hab__;
       simp only [hab__.heap, hab__.globals, hab__.modules, hab__.consts, hab__.stack, hab__.sp,
         hab__.frameIndex, hab__.err]; clear hab__; clear b__)
    | (with_reducible refine RelQ.bind rel_curFrame ?_; intro f__ g__ hfg__;
       simp only [hfg__.fn, hfg__.free, hfg__.bp, hfg__.discard]; clear hfg__; clear g__)
    | (apply RelQ.bindEq; focus rlo_act)
    | (refine RelQ.bind hjt ?_; rintro a__ b__ ⟨n__, hn__, ha__, hb__⟩;
       refine RelQ.bind (rel_setIp_target a__ b__ n__ hn__ ha__ hb__) ?_; intro _ _ _)
    | (refine RelQ.bind hjb ?_; intro _ _ _)
    | apply RelQ.ite
    | intro _
    | split
    | dsimp only))

section
variable {P : Params} {ci : Nat → Nat} {c o : Nat}

/-- the window and the next-instruction fact of an instruction that is not re-encoded -/
theorem plain_facts (hcr : CodeRel P.wide (P.Φ c) (P.BB c) (P.cs[c]!).insts (P.ct[c]!).insts) (hB : P.BB c o)
    (op : Nat) (hop : (((P.cs[c]!).insts)[o]!).toNat = op) (hj : isJ op = false) (hr : op ≠ OpReturn)
    (w : Nat) (hw : opW op = w) :
    Win (P.cs[c]!).insts (P.ct[c]!).insts (P.Φ c) o w ∧
      (P.BB c (o + w + 1) ∧ P.Φ c (o + w + 1) = P.Φ c o + w + 1) := by
  subst hop; subst hw
  obtain ⟨h1, h2⟩ := hcr.plain o hB hj
  exact ⟨h1, h2 hr⟩

end

/-- statement of an opcode lemma -/
abbrev OpRel (P : Params) (ci : Nat → Nat) (c o : Nat) (m₁ m₂ : M Ctl) : Prop :=
  RelQ (R P ci c (Iat P c o)) (CtlPost P) (RM P) m₁ m₂

section
variable {P : Params} {ci : Nat → Nat} {c o : Nat}
  (hcr : CodeRel P.wide (P.Φ c) (P.BB c) (P.cs[c]!).insts (P.ct[c]!).insts) (hB : P.BB c o) (hfail : FailOK P)
include hcr hB hfail

theorem rel_execConstant (hop : (((P.cs[c]!).insts)[o]!).toNat = OpConstant) : OpRel P ci c o execConstant execConstant := by
  obtain ⟨hw, hnext⟩ := plain_facts hcr hB _ hop (by decide) (by decide) 2 (by decide)
  unfold execConstant; rlo

theorem rel_execGetLocal (hop : (((P.cs[c]!).insts)[o]!).toNat = OpGetLocal) : OpRel P ci c o execGetLocal execGetLocal := by
  obtain ⟨hw, hnext⟩ := plain_facts hcr hB _ hop (by decide) (by decide) 1 (by decide)
  unfold execGetLocal; rlo

theorem rel_execSetLocal (hop : (((P.cs[c]!).insts)[o]!).toNat = OpSetLocal) : OpRel P ci c o execSetLocal execSetLocal := by
  obtain ⟨hw, hnext⟩ := plain_facts hcr hB _ hop (by decide) (by decide) 1 (by decide)
  unfold execSetLocal; rlo

theorem rel_execDefineLocal (hop : (((P.cs[c]!).insts)[o]!).toNat = OpDefineLocal) : OpRel P ci c o execDefineLocal execDefineLocal := by
  obtain ⟨hw, hnext⟩ := plain_facts hcr hB _ hop (by decide) (by decide) 1 (by decide)
  unfold execDefineLocal; rlo

theorem rel_execTrue (hop : (((P.cs[c]!).insts)[o]!).toNat = OpTrue) : OpRel P ci c o execTrue execTrue := by
  obtain ⟨hw, hnext⟩ := plain_facts hcr hB _ hop (by decide) (by decide) 0 (by decide)
  unfold execTrue; rlo

theorem rel_execFalse (hop : (((P.cs[c]!).insts)[o]!).toNat = OpFalse) : OpRel P ci c o execFalse execFalse := by
  obtain ⟨hw, hnext⟩ := plain_facts hcr hB _ hop (by decide) (by decide) 0 (by decide)
  unfold execFalse; rlo

theorem rel_execNull (hop : (((P.cs[c]!).insts)[o]!).toNat = OpNull) : OpRel P ci c o execNull execNull := by
  obtain ⟨hw, hnext⟩ := plain_facts hcr hB _ hop (by decide) (by decide) 0 (by decide)
  unfold execNull; rlo

theorem rel_execPop (hop : (((P.cs[c]!).insts)[o]!).toNat = OpPop) : OpRel P ci c o execPop execPop := by
  obtain ⟨hw, hnext⟩ := plain_facts hcr hB _ hop (by decide) (by decide) 0 (by decide)
  unfold execPop; rlo

theorem rel_execNoOp (hop : (((P.cs[c]!).insts)[o]!).toNat = OpNoOp) : OpRel P ci c o execNoOp execNoOp := by
  obtain ⟨hw, hnext⟩ := plain_facts hcr hB _ hop (by decide) (by decide) 0 (by decide)
  unfold execNoOp; rlo

theorem rel_execGetBuiltin (hop : (((P.cs[c]!).insts)[o]!).toNat = OpGetBuiltin) : OpRel P ci c o execGetBuiltin execGetBuiltin := by
  obtain ⟨hw, hnext⟩ := plain_facts hcr hB _ hop (by decide) (by decide) 1 (by decide)
  unfold execGetBuiltin; rlo

theorem rel_execGetFree (hop : (((P.cs[c]!).insts)[o]!).toNat = OpGetFree) : OpRel P ci c o execGetFree execGetFree := by
  obtain ⟨hw, hnext⟩ := plain_facts hcr hB _ hop (by decide) (by decide) 1 (by decide)
  unfold execGetFree; rlo

theorem rel_execSetFree (hop : (((P.cs[c]!).insts)[o]!).toNat = OpSetFree) : OpRel P ci c o execSetFree execSetFree := by
  obtain ⟨hw, hnext⟩ := plain_facts hcr hB _ hop (by decide) (by decide) 1 (by decide)
  unfold execSetFree; rlo

theorem rel_execGetLocalPtr (hop : (((P.cs[c]!).insts)[o]!).toNat = OpGetLocalPtr) : OpRel P ci c o execGetLocalPtr execGetLocalPtr := by
  obtain ⟨hw, hnext⟩ := plain_facts hcr hB _ hop (by decide) (by decide) 1 (by decide)
  unfold execGetLocalPtr; rlo

theorem rel_execGetFreePtr (hop : (((P.cs[c]!).insts)[o]!).toNat = OpGetFreePtr) : OpRel P ci c o execGetFreePtr execGetFreePtr := by
  obtain ⟨hw, hnext⟩ := plain_facts hcr hB _ hop (by decide) (by decide) 1 (by decide)
  unfold execGetFreePtr; rlo

theorem rel_execBinaryOp (F : FloatOps) (hop : (((P.cs[c]!).insts)[o]!).toNat = OpBinaryOp) : OpRel P ci c o (execBinaryOp F) (execBinaryOp F) := by
  obtain ⟨hw, hnext⟩ := plain_facts hcr hB _ hop (by decide) (by decide) 1 (by decide)
  unfold execBinaryOp; rlo

theorem rel_execUnary (F : FloatOps) (hop : (((P.cs[c]!).insts)[o]!).toNat = OpUnary) : OpRel P ci c o (execUnary F) (execUnary F) := by
  obtain ⟨hw, hnext⟩ := plain_facts hcr hB _ hop (by decide) (by decide) 1 (by decide)
  unfold execUnary; rlo

theorem rel_execGetGlobal  (hop : (((P.cs[c]!).insts)[o]!).toNat = OpGetGlobal) : OpRel P ci c o (execGetGlobal) (execGetGlobal) := by
  obtain ⟨hw, hnext⟩ := plain_facts hcr hB _ hop (by decide) (by decide) 2 (by decide)
  unfold execGetGlobal; rlo

theorem rel_execSetGlobal  (hop : (((P.cs[c]!).insts)[o]!).toNat = OpSetGlobal) : OpRel P ci c o (execSetGlobal) (execSetGlobal) := by
  obtain ⟨hw, hnext⟩ := plain_facts hcr hB _ hop (by decide) (by decide) 2 (by decide)
  unfold execSetGlobal; rlo

theorem rel_execArray  (hop : (((P.cs[c]!).insts)[o]!).toNat = OpArray) : OpRel P ci c o (execArray) (execArray) := by
  obtain ⟨hw, hnext⟩ := plain_facts hcr hB _ hop (by decide) (by decide) 2 (by decide)
  unfold execArray; rlo

theorem rel_execMap  (hop : (((P.cs[c]!).insts)[o]!).toNat = OpMap) : OpRel P ci c o (execMap) (execMap) := by
  obtain ⟨hw, hnext⟩ := plain_facts hcr hB _ hop (by decide) (by decide) 2 (by decide)
  unfold execMap; rlo

theorem rel_execSetIndex  (hop : (((P.cs[c]!).insts)[o]!).toNat = OpSetIndex) : OpRel P ci c o (execSetIndex) (execSetIndex) := by
  obtain ⟨hw, hnext⟩ := plain_facts hcr hB _ hop (by decide) (by decide) 0 (by decide)
  unfold execSetIndex; rlo

theorem rel_execSliceIndex  (hop : (((P.cs[c]!).insts)[o]!).toNat = OpSliceIndex) : OpRel P ci c o (execSliceIndex) (execSliceIndex) := by
  obtain ⟨hw, hnext⟩ := plain_facts hcr hB _ hop (by decide) (by decide) 0 (by decide)
  unfold execSliceIndex; rlo

theorem rel_execIterInit  (hop : (((P.cs[c]!).insts)[o]!).toNat = OpIterInit) : OpRel P ci c o (execIterInit) (execIterInit) := by
  obtain ⟨hw, hnext⟩ := plain_facts hcr hB _ hop (by decide) (by decide) 0 (by decide)
  unfold execIterInit; rlo

theorem rel_execLoadModule  (hop : (((P.cs[c]!).insts)[o]!).toNat = OpLoadModule) : OpRel P ci c o (execLoadModule) (execLoadModule) := by
  obtain ⟨hw, hnext⟩ := plain_facts hcr hB _ hop (by decide) (by decide) 4 (by decide)
  unfold execLoadModule; rlo

theorem rel_execEqual (F : FloatOps) (op : Nat) (hop : (((P.cs[c]!).insts)[o]!).toNat = op) (h : op = OpEqual ∨ op = OpNotEqual) :
    OpRel P ci c o (execEqual F op) (execEqual F op) := by
  obtain ⟨hw, hnext⟩ := plain_facts hcr hB _ hop (by rcases h with h | h <;> subst h <;> decide)
    (by rcases h with h | h <;> subst h <;> decide) 0 (by rcases h with h | h <;> subst h <;> decide)
  unfold execEqual; rlo

theorem rel_execIterNext (op : Nat) (hop : (((P.cs[c]!).insts)[o]!).toNat = op) (h : op = OpIterNext ∨ op = OpIterKey ∨ op = OpIterValue) :
    OpRel P ci c o (execIterNext op) (execIterNext op) := by
  obtain ⟨hw, hnext⟩ := plain_facts hcr hB _ hop (by rcases h with h | h | h <;> subst h <;> decide)
    (by rcases h with h | h | h <;> subst h <;> decide) 0 (by rcases h with h | h | h <;> subst h <;> decide)
  unfold execIterNext; rlo

theorem rel_execClosure (hop : (((P.cs[c]!).insts)[o]!).toNat = OpClosure) : OpRel P ci c o execClosure execClosure := by
  obtain ⟨hw, hnext⟩ := plain_facts hcr hB _ hop (by decide) (by decide) 3 (by decide)
  unfold execClosure
  iterate 7 (first | (apply RelQ.bindEq; focus rlo_act) | intro _ | dsimp only)
  intro a; dsimp only
  apply RelQ.bindEq; focus rlo_act
  intro sp
  apply RelQ.bindEq; focus rlo_act
  intro fr; try dsimp only
  apply RelQ.bindEq; focus rlo_act
  intro _
  refine RelQ.bind (rel_heapGet _) ?_
  rintro x _ ⟨rfl, hx⟩
  cases x with
  | fn k fr' => have hE : P.Entry k := hx _ _ rfl; simp only [pure_bind]; rlo
  | _ => rlo

omit hcr hB hfail in
theorem rel_execUnknown (op : Nat) : OpRel P ci c o (execUnknown op) (execUnknown op) := by
  unfold execUnknown
  refine RelQ.bind (VR := Eq) (B := R P ci c (Iat P c o)) (RelE.modS (fun s t h => { h with err := rfl })) ?_
  intro _ _ _
  exact ctl_ret

end
/-! ### the re-encoded opcodes -/

section
variable {P : Params} {ci : Nat → Nat} {c o : Nat}

/-- the operand of a jump: source `jw wide` bytes, target 4 bytes -/
theorem rel_opndJ (k : Int) (kn : Nat) (hk : k = kn) (k' : Int) (kn' : Nat) (hk' : k' = kn')
    (hs : o + kn + jw P.wide ≤ (P.cs[c]!).insts.size) (ht : P.Φ c o + kn' + 3 < (P.ct[c]!).insts.size) :
    RelE (R P ci c (Iat P c o)) (R P ci c (Iat P c o)) (RM P)
      (fun a b => a = rdJ P.wide (P.cs[c]!).insts (o + kn) ∧ b = rd4 (P.ct[c]!).insts (P.Φ c o + kn'))
      (opndJ P.wide k) (opnd4 k') := by
  apply RelE.mk'
  intro s t h
  rcases curCode_rel h with ⟨h1, h2⟩ | ⟨e, h1, h2⟩
  · rw [exec_opnd4_ok h2 (P.Φ c o) h.ip.2.2 k' kn' hk' ht]
    unfold opndJ rdJ
    cases hwd : P.wide with
    | true =>
      simp only [if_true]
      rw [exec_opnd4_ok h1 o h.ip.2.1 k kn hk (by simp [jw, hwd] at hs; omega)]
      exact ⟨⟨rfl, rfl⟩, h⟩
    | false =>
      simp only [Bool.false_eq_true, if_false]
      rw [exec_opnd2_ok h1 o h.ip.2.1 k kn hk (by simp [jw, hwd] at hs; omega)]
      exact ⟨⟨rfl, rfl⟩, h⟩
  · rw [exec_opnd4_err h2]
    have : exec (opndJ P.wide k) s = (.error e, s) := by
      unfold opndJ; split
      · exact exec_opnd4_err h1 k
      · exact exec_opnd2_err h1 k
    rw [this]
    exact ⟨rfl, h.toRM⟩

variable (hcr : CodeRel P.wide (P.Φ c) (P.BB c) (P.cs[c]!).insts (P.ct[c]!).insts) (hB : P.BB c o)
include hcr hB

theorem rel_jumpTarget (hj : isJ (((P.cs[c]!).insts)[o]!).toNat = true)
    (hne : (((P.cs[c]!).insts)[o]!).toNat ≠ OpSetupTry) :
    RelE (R P ci c (Iat P c o)) (R P ci c (Iat P c o)) (RM P)
      (fun a b => ∃ n : Nat, P.BB c n ∧ a = (n : Int) ∧ b = ((P.Φ c n : Nat) : Int))
      (jumpTargetW P.wide) jumpTarget := by
  obtain ⟨h1, h2, _, h4, h5, _, _⟩ := hcr.jump o hB hj hne
  unfold jumpTargetW jumpTarget
  refine RelE.bind (rel_opndJ 1 1 rfl 1 1 rfl (by omega) (by omega)) ?_
  rintro a b ⟨ha, hb⟩
  refine RelE.pure ⟨_, h4, by rw [ha], by rw [hb, h5]⟩

theorem rel_bumpJ (hj : isJ (((P.cs[c]!).insts)[o]!).toNat = true)
    (hne : (((P.cs[c]!).insts)[o]!).toNat ≠ OpSetupTry) :
    RelE (R P ci c (Iat P c o)) (RB P) (RM P) Eq (bumpIp ((jw P.wide : Nat) : Int)) (bumpIp 4) := by
  obtain ⟨_, _, _, _, _, h6, h7⟩ := hcr.jump o hB hj hne
  apply RelE.mk'
  intro s t h
  rw [exec_bumpIp, exec_bumpIp]
  refine ⟨rfl, ci, c, o + jw P.wide + 1, { h with ip := ⟨h6, ?_, ?_⟩ }⟩
  · show s.ip + _ + 1 = _
    rw [h.ip.2.1]; simp
  · show t.ip + 4 + 1 = _
    rw [h.ip.2.2, h7]; simp; omega

theorem rel_execJump (hop : (((P.cs[c]!).insts)[o]!).toNat = OpJump) : OpRel P ci c o (execJumpW P.wide) execJump := by
  have hjt := rel_jumpTarget (ci := ci) hcr hB (by rw [hop]; decide) (by rw [hop]; decide)
  unfold execJumpW execJump; rlo

theorem rel_execJumpFalsy (hop : (((P.cs[c]!).insts)[o]!).toNat = OpJumpFalsy) :
    OpRel P ci c o (execJumpFalsyW P.wide) execJumpFalsy := by
  have hjt := rel_jumpTarget (ci := ci) hcr hB (by rw [hop]; decide) (by rw [hop]; decide)
  have hjb := rel_bumpJ (ci := ci) hcr hB (by rw [hop]; decide) (by rw [hop]; decide)
  unfold execJumpFalsyW execJumpFalsy; rlo

theorem rel_execAndJump (hop : (((P.cs[c]!).insts)[o]!).toNat = OpAndJump) :
    OpRel P ci c o (execAndJumpW P.wide) execAndJump := by
  have hjt := rel_jumpTarget (ci := ci) hcr hB (by rw [hop]; decide) (by rw [hop]; decide)
  have hjb := rel_bumpJ (ci := ci) hcr hB (by rw [hop]; decide) (by rw [hop]; decide)
  unfold execAndJumpW execAndJump; rlo

theorem rel_execOrJump (hop : (((P.cs[c]!).insts)[o]!).toNat = OpOrJump) :
    OpRel P ci c o (execOrJumpW P.wide) execOrJump := by
  have hjt := rel_jumpTarget (ci := ci) hcr hB (by rw [hop]; decide) (by rw [hop]; decide)
  have hjb := rel_bumpJ (ci := ci) hcr hB (by rw [hop]; decide) (by rw [hop]; decide)
  unfold execOrJumpW execOrJump; rlo

end

section
variable {P : Params} {ci : Nat → Nat} {c o : Nat}

theorem HsRel.getD {φ : Nat → Nat} {B : Nat → Prop} {l l' : Option (List Handler)} (h : HsRel φ B l l') :
    HLRel φ B (l.getD []) (l'.getD []) := by
  cases l <;> cases l' <;> simp_all [HsRel, HLRel]

theorem rel_execSetupTry (hcr : CodeRel P.wide (P.Φ c) (P.BB c) (P.cs[c]!).insts (P.ct[c]!).insts) (hB : P.BB c o)
    (hop : (((P.cs[c]!).insts)[o]!).toNat = OpSetupTry) :
    OpRel P ci c o (execSetupTryW P.wide) execSetupTry := by
  obtain ⟨h1, h2, _, h4, h5, h6, h7⟩ := hcr.try_ o hB hop
  unfold execSetupTryW execSetupTry
  refine RelQ.bind (rel_opndJ 1 1 rfl 1 1 rfl (by omega) (by omega)) ?_
  rintro a b ⟨ha, hb⟩
  refine RelQ.bind (rel_opndJ (1 + (jw P.wide : Nat)) (1 + jw P.wide) (by simp) 5 5 rfl (by omega) (by omega)) ?_
  rintro a' b' ⟨ha', hb'⟩
  apply RelQ.bindEq rel_getSp
  intro sp
  have hA : ARel (P.Φ c) (P.BB c) (a : Int) (b : Int) := by rw [ha, hb]; exact h4
  have hA' : ARel (P.Φ c) (P.BB c) (a' : Int) (b' : Int) := by
    rw [ha', hb', ← Nat.add_assoc]; exact h5
  refine RelQ.bind (VR := Eq) (rel_setCurFrame _ _ ?_ (fun fr => Or.inl rfl)) ?_
  · intro fr gr hfg
    refine { hfg with hs := ?_ }
    show HLRel _ _ _ _
    exact ⟨⟨rfl, rfl, hA, hA', Or.inl ⟨rfl, rfl⟩⟩, hfg.hs.getD⟩
  intro _ _ _
  refine RelQ.bind (VR := Eq) (B := RB P) ?_ (fun _ _ _ => ctl_next_RB)
  apply RelE.mk'
  intro s t h
  rw [exec_bumpIp, exec_bumpIp]
  refine ⟨rfl, ci, c, o + 2 * jw P.wide + 1, { h with ip := ⟨h6, ?_, ?_⟩ }⟩
  · show s.ip + _ + 1 = _
    rw [h.ip.2.1]; simp
  · show t.ip + 8 + 1 = _
    rw [h.ip.2.2, h7]; simp; omega

end

end UgoVerif.VM.Reloc
